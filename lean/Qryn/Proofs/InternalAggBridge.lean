import Qryn.Proofs.InternalMetricBridge
import Qryn.Proofs.LogQLMetric
import Qryn.Read.InternalAggPlan
/-! Cross-engine agreement for the aggregations that group: unwrap functions (with or without `by`/`without` on the range
    aggregation) and vector aggregations. One generic lemma (`group_agree`): the in-process reading (`LogQL.Stages.aggregate`
    — series = label set, bucket = grid index, value = a function of the bucket's entries in arrival order) and C08's direct
    reading (group the items by (series key, bucket start), value = a function of the group in table order) have the same
    samples, when (1) the in-process rows are a permutation of the images of the items, (2) two items have the same
    in-process label set iff they have the same C08 key, (3) the two bucket grids coincide, (4) on corresponding groups
    the value functions agree. Core only. -/
namespace Qryn.Read
open Qryn Qryn.Sql Qryn.LogQL Qryn.LogQL.Stages

theorem group_agree {σ κ : Type} [DecidableEq κ]
    (es : List σ) (h : σ → Entry Rat) (kc : σ → κ) (bc : σ → Int) (grid : Grid)
    (rows : List (Entry Rat)) (hrows : rows.Perm (es.map h))
    (hkey : ∀ s ∈ es, ∀ s' ∈ es, ((h s).labels = (h s').labels ↔ kc s = kc s'))
    (hbucket : ∀ s ∈ es, ∃ i, i < grid.n ∧ grid.bucket (h s).ts = some i ∧ bc s = grid.start + (i : Int) * grid.dur)
    (hinj : ∀ i j : Nat, grid.start + (i : Int) * grid.dur = grid.start + (j : Int) * grid.dur → i = j)
    (valIn : List (Entry Rat) → Rat) (valCh : List σ → Option Rat)
    (hval : ∀ sx ∈ es, ∀ l : List (Entry Rat), l.Sublist rows →
        l.Perm ((es.filter (fun s => decide (kc s = kc sx ∧ bc s = bc sx))).map h) →
        valCh (es.filter (fun s => decide (kc s = kc sx ∧ bc s = bc sx))) = some (valIn l))
    (l : Labels) (t : Int) (v : Rat) :
    (∃ e ∈ (aggregate (fun e : Entry Rat => e.labels) grid valIn rows).flatten, e.labels = l ∧ e.ts = t ∧ e.val = v) ↔
    (∃ sx ∈ es, (h sx).labels = l ∧ bc sx = t ∧
        valCh (es.filter (fun s => decide (kc s = kc sx ∧ bc s = bc sx))) = some v) := by
  have hmemrows : ∀ x, x ∈ rows ↔ ∃ s ∈ es, h s = x := by
    intro x; rw [hrows.mem_iff]; simp [List.mem_map]
  have hsel : ∀ (sx : σ) (_ : sx ∈ es) (i : Nat), grid.bucket (h sx).ts = some i →
      ∀ r : Entry Rat, r.labels = (h sx).labels →
      (rows.filter (fun x => x.labels = r.labels && grid.bucket x.ts == some i)).Perm
        ((es.filter (fun s => decide (kc s = kc sx ∧ bc s = bc sx))).map h) := by
    intro sx hsx i hbi r hr
    refine (hrows.filter _).trans ?_
    rw [List.filter_map]
    apply List.Perm.of_eq
    congr 1
    apply List.filter_congr
    intro s hs
    obtain ⟨j, _, hbj, hbo⟩ := hbucket s hs
    obtain ⟨i', _, hbi', hbo'⟩ := hbucket sx hsx
    have hii : i' = i := by rw [hbi'] at hbi; exact Option.some.inj hbi
    subst hii
    have h1 := hkey s hs sx hsx
    simp only [Function.comp, hr, hbj, hbo, hbo']
    by_cases hk : kc s = kc sx
    · have hl : (h s).labels = (h sx).labels := h1.mpr hk
      by_cases hj : j = i'
      · subst hj; simp [hl, hk]
      · have hne : ¬ (grid.start + (j : Int) * grid.dur = grid.start + (i' : Int) * grid.dur) := fun e => hj (hinj j i' e)
        simp [hl, hk, hj, hne]
    · have hl : ¬ (h s).labels = (h sx).labels := fun e => hk (h1.mp e)
      simp [hl, hk]
  constructor
  · rintro ⟨e, he, hel, het, hev⟩
    obtain ⟨r, hr, i, hi, hne, rfl⟩ := (mem_aggregate_iff _ _ _ _ e).mp he
    obtain ⟨x, hx⟩ := List.exists_mem_of_ne_nil _ hne
    obtain ⟨hxrows, hxp⟩ := List.mem_filter.mp hx
    obtain ⟨sx, hsx, rfl⟩ := (hmemrows x).mp hxrows
    simp only [Bool.and_eq_true, decide_eq_true_eq, beq_iff_eq] at hxp
    obtain ⟨hxl, hxb⟩ := hxp
    obtain ⟨i', _, hbi', hbo'⟩ := hbucket sx hsx
    have hii : i' = i := by rw [hbi'] at hxb; exact Option.some.inj hxb
    subst hii
    refine ⟨sx, hsx, ?_, ?_, ?_⟩
    · rw [hxl]; exact hel
    · rw [hbo']; exact het
    · rw [hval sx hsx _ List.filter_sublist (hsel sx hsx i' hbi' r hxl.symm)]
      exact congrArg some hev
  · rintro ⟨sx, hsx, hl, ht, hv⟩
    obtain ⟨i, hi, hbi, hbo⟩ := hbucket sx hsx
    obtain ⟨r, hr, hrl⟩ := firstBy_rep (fun e : Entry Rat => e.labels) rows (h sx) ((hmemrows _).mpr ⟨sx, hsx, rfl⟩)
    have hperm := hsel sx hsx i hbi r hrl
    have hne : rows.filter (fun x => x.labels = r.labels && grid.bucket x.ts == some i) ≠ [] := by
      intro hnil
      rw [hnil] at hperm
      have := hperm.symm.eq_nil
      have hmem : h sx ∈ (es.filter (fun s => decide (kc s = kc sx ∧ bc s = bc sx))).map h :=
        List.mem_map.mpr ⟨sx, List.mem_filter.mpr ⟨hsx, by simp⟩, rfl⟩
      rw [this] at hmem
      cases hmem
    refine ⟨⟨grid.start + (i : Int) * grid.dur, r.fp, r.labels, [],
      valIn (rows.filter (fun x => x.labels = r.labels && grid.bucket x.ts == some i)), none⟩, ?_, ?_, ?_, ?_⟩
    · exact (mem_aggregate_iff _ _ _ _ _).mpr ⟨r, hr, i, hi, hne, rfl⟩
    · exact hrl.trans hl
    · simp only; rw [← hbo]; exact ht
    · simp only
      have := hval sx hsx _ List.filter_sublist hperm
      rw [this] at hv
      exact Option.some.inj hv

/-! ### the values of the order-free unwrap functions -/
theorem sumOf_rat (parse : Bytes → Option Rat) (vs : List Rat) : sumOf (ratOps parse) vs = ratSumL vs := rfl

theorem ratSumL_perm (a b : List Rat) (h : a.Perm b) : ratSumL a = ratSumL b := foldl_add_rat_perm a b h

theorem maxOf_eq (parse : Bytes → Option Rat) (x : Rat) (xs : List Rat) : maxOf (ratOps parse) (x :: xs) = xs.foldl max x := by
  simp only [maxOf, ratOps]
  congr 1
  funext m v
  rw [rat_max_def]
  by_cases h1 : m < v
  · simp [h1, Rat.le_of_lt h1]
  · by_cases h2 : m ≤ v
    · have : m = v := Rat.le_antisymm h2 (Rat.not_lt.mp h1)
      simp [this]
    · simp [h1, h2]

theorem minOf_eq (parse : Bytes → Option Rat) (x : Rat) (xs : List Rat) : minOf (ratOps parse) (x :: xs) = xs.foldl min x := by
  simp only [minOf, ratOps]
  congr 1
  funext m v
  have hmin : min m v = if m ≤ v then m else v := rfl
  rw [hmin]
  by_cases h1 : v < m
  · have : ¬ m ≤ v := Rat.not_le.mpr h1
    simp [h1, this]
  · have : m ≤ v := Rat.not_lt.mp h1
    simp [h1, this]

theorem foldl_max_perm (x : Rat) (xs : List Rat) (y : Rat) (ys : List Rat) (h : (x :: xs).Perm (y :: ys)) :
    xs.foldl max x = ys.foldl max y := by
  obtain ⟨hm1, hle1⟩ := foldl_max_spec x xs
  obtain ⟨hm2, hle2⟩ := foldl_max_spec y ys
  exact Rat.le_antisymm (hle2 _ (h.mem_iff.mp hm1)) (hle1 _ (h.mem_iff.mpr hm2))

theorem foldl_min_perm (x : Rat) (xs : List Rat) (y : Rat) (ys : List Rat) (h : (x :: xs).Perm (y :: ys)) :
    xs.foldl min x = ys.foldl min y := by
  obtain ⟨hm1, hle1⟩ := foldl_min_spec x xs
  obtain ⟨hm2, hle2⟩ := foldl_min_spec y ys
  exact Rat.le_antisymm (hle1 _ (h.mem_iff.mpr hm2)) (hle2 _ (h.mem_iff.mp hm1))

/-- the unwrap functions of `UnwrapAggPlanner` as C08 names them (`stddev/stdvar_over_time`: refused in process) -/
def toUnwrap : Read.UnwrapFn → Option LogQL.UnwrapFn
  | .rate => some .rate
  | .sumOverTime => some .sumOT
  | .avgOverTime => some .avgOT
  | .maxOverTime => some .maxOT
  | .minOverTime => some .minOT
  | .firstOverTime => some .firstOT
  | .lastOverTime => some .lastOT
  | .other => none

/-- on corresponding groups — the in-process bucket `l` (arrival order, a sublist of the aggregator's input `rows`) and
    C08's group `grp` of (timestamp, unwrapped value) — the two value definitions agree -/
def ValAgree (o : Oracles) (parse : Bytes → Option Rat) (dur : Nat) (fnIn : Read.UnwrapFn) (fn' : LogQL.UnwrapFn)
    (rows : List (Entry Rat)) : Prop :=
  ∀ (grp : List (Int × Rat)) (l : List (Entry Rat)), l.Sublist rows → l ≠ [] →
    (∀ e ∈ l, ∀ e' ∈ l, e.labels = e'.labels) →
    (l.map (fun e => (e.ts, e.val))).Perm grp →
    unwrapVal o fn' dur grp = some (unwrapValue (ratOps parse) dur fnIn l)

/-- rate, sum, avg, min, max over time: functions of the multiset of the bucket's values -/
theorem valAgree_orderFree (o : Oracles) (parse : Bytes → Option Rat) (dur : Nat) (asc : Bool) (fn : Read.UnwrapFn) (fn' : LogQL.UnwrapFn)
    (hfn : toUnwrap fn = some fn') (hnf : fn ≠ .firstOverTime) (hnl : fn ≠ .lastOverTime) :
    ∀ (grp : List (Int × Rat)) (l : List (Entry Rat)), l ≠ [] → (l.map (fun e => (e.ts, e.val))).Perm grp →
      unwrapVal o fn' dur grp = some (unwrapValue (ratOps parse) dur (dirFn asc fn) l) := by
  intro grp l hl hp
  have hvs : (l.map (·.val)).Perm (grp.map (·.2)) := by
    have := hp.map (fun p : Int × Rat => p.2)
    rw [List.map_map] at this
    exact this
  have hsec : (ratOps parse).durSeconds (dur : Int) = secondsOf dur := by simp [ratOps, secondsOf]
  cases hg : grp.map (·.2) with
  | nil =>
    rw [hg] at hvs
    have := hvs.eq_nil
    simp at this
    exact absurd this hl
  | cons gv grest =>
    cases hlv : l.map (·.val) with
    | nil => simp at hlv; exact absurd hlv hl
    | cons lv lrest =>
      rw [hg, hlv] at hvs
      have hsum : ratSumL (lv :: lrest) = ratSumL (gv :: grest) := ratSumL_perm _ _ hvs
      have hlen : (lv :: lrest).length = (gv :: grest).length := hvs.length_eq
      cases fn with
      | rate =>
        simp only [toUnwrap, Option.some.injEq] at hfn; subst hfn
        simp only [unwrapVal, hg, dirFn, Stages.unwrapValue, hlv, sumOf_rat, hsec, hsum]
        rfl
      | sumOverTime =>
        simp only [toUnwrap, Option.some.injEq] at hfn; subst hfn
        simp only [unwrapVal, hg, dirFn, Stages.unwrapValue, hlv, sumOf_rat, hsum]
      | avgOverTime =>
        simp only [toUnwrap, Option.some.injEq] at hfn; subst hfn
        simp only [unwrapVal, hg, dirFn, Stages.unwrapValue, hlv, sumOf_rat, hsum, hlen]
        rfl
      | maxOverTime =>
        simp only [toUnwrap, Option.some.injEq] at hfn; subst hfn
        simp only [unwrapVal, hg, dirFn, Stages.unwrapValue, hlv, maxOf_eq]
        rw [foldl_max_perm _ _ _ _ hvs]
      | minOverTime =>
        simp only [toUnwrap, Option.some.injEq] at hfn; subst hfn
        simp only [unwrapVal, hg, dirFn, Stages.unwrapValue, hlv, minOf_eq]
        rw [foldl_min_perm _ _ _ _ hvs]
      | firstOverTime => exact absurd rfl hnf
      | lastOverTime => exact absurd rfl hnl
      | other => simp [toUnwrap] at hfn

/-! ### unwrap functions, with or without `by`/`without` on the range aggregation -/
/-- `regroup`'s key (cityHash64 of the kept labels, in document order) separates exactly the kept label sets: the
    hypothesis under which "series = cityHash64 of the kept labels" (ClickHouse) and "series = the kept label set" (in
    process) are the same grouping — no collision of the hash on the kept sets at hand, and equal kept sets hashed equal
    (label documents list their names in one order: the writer sorts them) -/
def GroupHashOk (o : Oracles) (c : LogQL.Ctx) (d : LokiDb) (q0 : LogQuery) (gg : Grouping) : Prop :=
  ∀ s ∈ d.samples.filter (entryMatches o c d q0), ∀ s' ∈ d.samples.filter (entryMatches o c d q0),
    ((canonLabels (asMap (labelsOf o c d q0 s.fp))).filter (fun kv => (groupingKeys gg).contains kv.1 == gg.isBy) =
     (canonLabels (asMap (labelsOf o c d q0 s'.fp))).filter (fun kv => (groupingKeys gg).contains kv.1 == gg.isBy)) ↔
    (regroup o gg (labelsOf o c d q0 s.fp)).1 = (regroup o gg (labelsOf o c d q0 s'.fp)).1

/-- the clause as `internal_planner.planByWithout` hands it to `ByWithoutPlanner` -/
def toBW (g : Grouping) : ByWithout := ⟨g.isBy, groupingKeys g⟩

def uwEntry (E : Env Rat) (lbl : Bytes) (e : Entry Rat) : Entry Rat :=
  let s := if lbl = entryKey then e.msg else e.labels.get lbl
  match (if s = [] then none else E.num.parse s) with
  | some v => { e with val := v }
  | none => e

def bwEntry (E : Env Rat) (bw : Option ByWithout) (e : Entry Rat) : Entry Rat :=
  match bw with
  | some b => relabel E e (e.labels.filter (fun kv => (b.names.contains kv.1) == b.isBy))
  | none => e

theorem inproc_input (E : Env Rat) (lbl : Bytes) (bw : Option ByWithout) (rows : List (Entry Rat)) :
    optByWithout E bw (unwrapStage E lbl rows) = rows.map (fun e => bwEntry E bw (uwEntry E lbl e)) := by
  cases bw with
  | none =>
    simp only [optByWithout, unwrapStage, bwEntry]
    apply List.map_congr_left
    intro e _
    simp only [uwEntry]
    split <;> split <;> simp_all
  | some b =>
    simp only [optByWithout, byWithoutStage, unwrapStage, List.map_map, bwEntry]
    apply List.map_congr_left
    intro e _
    simp only [Function.comp, uwEntry]
    split <;> split <;> simp_all

theorem uwEntry_ts (E : Env Rat) (lbl : Bytes) (e : Entry Rat) : (uwEntry E lbl e).ts = e.ts := by
  simp only [uwEntry]; split <;> rfl
theorem uwEntry_labels (E : Env Rat) (lbl : Bytes) (e : Entry Rat) : (uwEntry E lbl e).labels = e.labels := by
  simp only [uwEntry]; split <;> rfl
theorem uwEntry_val (E : Env Rat) (lbl : Bytes) (e : Entry Rat) :
    (uwEntry E lbl e).val =
      ((if (if lbl = entryKey then e.msg else e.labels.get lbl) = [] then none
        else E.num.parse (if lbl = entryKey then e.msg else e.labels.get lbl))).getD e.val := by
  simp only [uwEntry]; split <;> rename_i hh <;> simp [hh]
theorem bwEntry_ts (E : Env Rat) (bw : Option ByWithout) (e : Entry Rat) : (bwEntry E bw e).ts = e.ts := by
  cases bw <;> rfl
theorem bwEntry_val (E : Env Rat) (bw : Option ByWithout) (e : Entry Rat) : (bwEntry E bw e).val = e.val := by
  cases bw <;> rfl

/-- C08's series key and labels of an entry under an optional grouping clause of the range aggregation -/
def kcOf (o : Oracles) (g? : Option Grouping) (ls : Val) (fp : Int) : Val :=
  match g? with | some gg => (regroup o gg ls).1 | none => .int fp
def lcOf (o : Oracles) (g? : Option Grouping) (ls : Val) : Val :=
  match g? with | some gg => (regroup o gg ls).2 | none => ls

theorem sample_row' (N : NumOps Rat) (o : Oracles) (c : LogQL.Ctx) (d : LokiDb) (hd : SeriesStoreOk o c d) (q0 : LogQuery)
    (s : Sample) (hs : s ∈ d.samples.filter (entryMatches o c d q0)) :
    ∃ m, labelsOf o c d q0 s.fp = .map m ∧ NodupKeys m ∧ (scanX N (toX o c d q0 s)).labels = canonLabels m := by
  obtain ⟨hsm, hmatch⟩ := List.mem_filter.mp hs
  obtain ⟨t, ht, hfp⟩ := hd.present s hsm
  have hsel : fpSelected o c d q0 s.fp = true := by
    simp only [entryMatches, Bool.and_eq_true] at hmatch
    exact hmatch.1.2
  have hl := labelsOf_of_row o c d hd.toSeriesTableOk q0 s.fp hsel t ht hfp
  exact ⟨o.jsonLabels t.labels, hl, hd.nodupKeys t ht, by simp only [scanX, toX, hl, asMap]⟩

/-- **unwrap functions on the same data** (with or without `by`/`without` on the range aggregation). `rows`: what the getter
    hands over for `{sel} filters` (any order); in process `| unwrap`, the by/without planner, the bucket machine's reading
    (`aggregate`); ClickHouse alone: `LogQL.rangePoints` of the whole query. Same samples, series by series (label set). -/
theorem unwrap_agree (parse : Bytes → Option Rat) (o : Oracles) (c : LogQL.Ctx) (d : LokiDb) (hd : SeriesStoreOk o c d)
    (ms : List Matcher) (fs : List Stage) (E : Env Rat) (hE : E.num = ratOps parse)
    (label : String) (lbl : Bytes) (hlbl : label.toUTF8.toList = lbl) (hent : label = "_entry" ↔ lbl = entryKey)
    (hnum : ∀ s : Bytes, o.toFloat s = ((if s = [] then none else parse s).getD 0))
    (fnIn : Read.UnwrapFn) (fn' : LogQL.UnwrapFn) (g? : Option Grouping)
    (hgk : ∀ gg, g? = some gg → GroupHashOk o c d ⟨ms, fs⟩ gg)
    (dur k n : Nat) (hdur : 0 < dur) (hfrom : c.fromNs = (k : Int) * dur) (hto : c.toNs = c.fromNs + (n : Int) * dur)
    (rows : List (Entry Rat)) (hrows : rows.Perm ((baseX o c d ms (fs.map .fl)).map (scanX (ratOps parse))))
    (hvalfn : ValAgree o parse dur fnIn fn' (optByWithout E (g?.map toBW) (unwrapStage E lbl rows)))
    (l : Labels) (t : Int) (v : Rat) :
    (∃ e ∈ (aggregate (fun e : Entry Rat => e.labels) (Grid.of c.fromNs c.toNs dur) (Stages.unwrapValue (ratOps parse) dur fnIn)
        (optByWithout E (g?.map toBW) (unwrapStage E lbl rows))).flatten, e.labels = l ∧ e.ts = t ∧ e.val = v) ↔
    (∃ pt ∈ rangePoints o c d ⟨.unwrap fn' label, ⟨ms, fs⟩, dur, none, g?, none⟩ c.fromNs c.toNs,
        canonLabels (asMap pt.labels) = l ∧ pt.ts = t ∧ pt.value = v) := by
  let q0 : LogQuery := ⟨ms, fs⟩
  let es := d.samples.filter (entryMatches o c d q0)
  let g : Sample → Entry Rat := fun s => scanX (ratOps parse) (toX o c d q0 s)
  let bw : Option ByWithout := g?.map toBW
  let h : Sample → Entry Rat := fun s => bwEntry E bw (uwEntry E lbl (g s))
  let lsOf : Sample → Val := fun s => labelsOf o c d q0 s.fp
  let vc : Sample → Rat := fun s => unwrapOf o label (lsOf s) s
  let kc : Sample → Val := fun s => kcOf o g? (lsOf s) s.fp
  let lc : Sample → Val := fun s => lcOf o g? (lsOf s)
  let bc : Sample → Int := fun s => bucketOf dur s.ts
  let item : Sample → Val × Val × Int × Rat := fun s => (kc s, lc s, s.ts, vc s)
  let keyOf : Val × Val × Int × Rat → Val × Int := fun it => (it.1, bucketOf dur it.2.2.1)
  let P : Sample → Sample → Bool := fun sx s => decide (kc s = kc sx ∧ bc s = bc sx)
  have hbase : (baseX o c d ms (fs.map .fl)).map (scanX (ratOps parse)) = es.map g := by
    simp only [baseX, splitPre_fl, stagesX, List.foldl_nil, List.map_map]
    rfl
  rw [hbase] at hrows
  rw [inproc_input] at hvalfn ⊢
  have hrows' : (rows.map (fun e => bwEntry E bw (uwEntry E lbl e))).Perm (es.map h) := by
    have := hrows.map (fun e => bwEntry E bw (uwEntry E lbl e))
    rw [List.map_map] at this
    exact this
  have hwin : ∀ s ∈ es, c.fromNs ≤ s.ts ∧ s.ts < c.fromNs + (n : Int) * dur := by
    intro s hs
    have := (List.mem_filter.mp hs).2
    simp only [entryMatches, Bool.and_eq_true, decide_eq_true_eq] at this
    rw [← hto]
    exact ⟨this.1.1.1.1, this.1.1.1.2⟩
  have hgrid : Grid.of c.fromNs c.toNs dur = Grid.of c.fromNs (c.fromNs + (n : Int) * dur) dur := by rw [hto]
  have hts : ∀ s, (h s).ts = s.ts := by
    intro s; simp only [h, bwEntry_ts, uwEntry_ts]; rfl
  -- labels
  have hlab : ∀ s ∈ es, (h s).labels = canonLabels (asMap (lc s)) := by
    intro s hs
    obtain ⟨m, hm, hnd, hgl⟩ := sample_row' (ratOps parse) o c d hd q0 s hs
    cases hg : g? with
    | none =>
      simp only [h, bw, lc, lcOf, hg, Option.map_none, bwEntry, uwEntry_labels]
      exact hgl.trans (by simp only [lsOf, hm, asMap])
    | some gg =>
      simp only [h, bw, lc, lcOf, hg, Option.map_some, bwEntry, Stages.relabel, uwEntry_labels, toBW, lsOf, hm, regroup, asMap]
      rw [canon_filter m hnd, ← hgl]
  have hkey : ∀ s ∈ es, ∀ s' ∈ es, ((h s).labels = (h s').labels ↔ kc s = kc s') := by
    intro s hs s' hs'
    cases hg : g? with
    | none =>
      have := sample_labels_iff (ratOps parse) o c d hd q0 s s' hs hs'
      simp only [h, bw, kc, kcOf, hg, Option.map_none, bwEntry, uwEntry_labels, Val.int.injEq]
      exact this
    | some gg =>
      obtain ⟨m, hm, hnd, hgl⟩ := sample_row' (ratOps parse) o c d hd q0 s hs
      obtain ⟨m', hm', hnd', hgl'⟩ := sample_row' (ratOps parse) o c d hd q0 s' hs'
      have := hgk gg hg s hs s' hs'
      simp only [h, bw, kc, kcOf, hg, Option.map_some, bwEntry, Stages.relabel, uwEntry_labels, toBW, lsOf]
      rw [hgl, hgl']
      have hm2 : labelsOf o c d ⟨ms, fs⟩ s.fp = .map m := hm
      have hm2' : labelsOf o c d ⟨ms, fs⟩ s'.fp = .map m' := hm'
      rw [hm2, hm2'] at this
      simp only [hm, hm']
      exact this
  have hvalc : ∀ s ∈ es, (h s).val = vc s := by
    intro s hs
    obtain ⟨m, hm, hnd, hgl⟩ := sample_row' (ratOps parse) o c d hd q0 s hs
    simp only [h, bwEntry_val, uwEntry_val, vc, unwrapOf, lsOf, hm, hE]
    have hgv : (g s).val = 0 := rfl
    have hgm : (g s).msg = s.str := rfl
    rw [hgv, hgm, hgl]
    by_cases hle : lbl = entryKey
    · simp only [hle, if_true, hent.mpr hle]
      rw [hnum]; rfl
    · have : ¬ label = "_entry" := fun e => hle (hent.mp e)
      simp only [hle, if_false, this, Labels.get, lookup_canon_nodup m hnd, hlbl]
      rw [hnum]; rfl
  have hbucket : ∀ s ∈ es, ∃ i, i < (Grid.of c.fromNs (c.fromNs + (n : Int) * dur) dur).n ∧
      (Grid.of c.fromNs (c.fromNs + (n : Int) * dur) dur).bucket (h s).ts = some i ∧
      bc s = (Grid.of c.fromNs (c.fromNs + (n : Int) * dur) dur).start + (i : Int) * (Grid.of c.fromNs (c.fromNs + (n : Int) * dur) dur).dur := by
    intro s hs
    obtain ⟨i, hi, hbi, hbo⟩ := grid_bucket c.fromNs dur k n hdur hfrom s.ts (hwin s hs).1 (hwin s hs).2
    refine ⟨i, by rw [grid_n c.fromNs dur n hdur]; exact hi, by rw [hts]; exact hbi, hbo⟩
  have hfilt : ∀ sx, (es.map item).filter (fun it => keyOf it == keyOf (item sx)) = (es.filter (P sx)).map item := by
    intro sx
    rw [List.filter_map]
    congr 1
    apply List.filter_congr
    intro s _
    simp only [Function.comp, keyOf, item, P, bc]
    by_cases h1 : kc s = kc sx <;> by_cases h2 : bucketOf dur s.ts = bucketOf dur sx.ts <;> simp [h1, h2]
  have hsub : ∀ sx, ∀ s ∈ es.filter (P sx), s ∈ es := fun sx s hs => (List.mem_filter.mp hs).1
  have hgrpv : ∀ sx, ((es.filter (P sx)).map item).map (fun it => (it.2.2.1, it.2.2.2)) = (es.filter (P sx)).map (fun s => (s.ts, vc s)) := by
    intro sx; rw [List.map_map]; rfl
  rw [hgrid]
  rw [group_agree es h kc bc (Grid.of c.fromNs (c.fromNs + (n : Int) * dur) dur) _ hrows' hkey hbucket
    (fun i j e => grid_inj c.fromNs dur hdur i j e) (Stages.unwrapValue (ratOps parse) dur fnIn)
    (fun grp' => unwrapVal o fn' dur (grp'.map (fun s => (s.ts, vc s)))) ?hval l t v]
  case hval =>
    intro sx hsx l0 hsub0 hperm
    have hne : l0 ≠ [] := by
      intro hnil
      rw [hnil] at hperm
      have hmem : h sx ∈ (es.filter (P sx)).map h :=
        List.mem_map.mpr ⟨sx, List.mem_filter.mpr ⟨hsx, by simp [P]⟩, rfl⟩
      rw [hperm.symm.eq_nil] at hmem
      cases hmem
    have hsame : ∀ e ∈ l0, ∀ e' ∈ l0, e.labels = e'.labels := by
      have one : ∀ e ∈ l0, e.labels = (h sx).labels := by
        intro e he
        obtain ⟨s, hs, rfl⟩ := List.mem_map.mp (hperm.mem_iff.mp he)
        have hsP := (List.mem_filter.mp hs).2
        simp only [P, decide_eq_true_eq] at hsP
        exact (hkey s (hsub sx s hs) sx hsx).mpr hsP.1
      intro e he e' he'
      rw [one e he, one e' he']
    apply hvalfn _ l0 hsub0 hne hsame
    have := hperm.map (fun e : Entry Rat => (e.ts, e.val))
    rw [List.map_map] at this
    refine this.trans (List.Perm.of_eq ?_)
    apply List.map_congr_left
    intro s hs
    simp only [Function.comp, hts, hvalc s (hsub sx s hs)]
  -- the right-hand side: the points of `rangePoints`
  have hRP : rangePoints o c d ⟨.unwrap fn' label, ⟨ms, fs⟩, dur, none, g?, none⟩ c.fromNs c.toNs =
      ((es.map item).map keyOf).eraseDups.filterMap (fun k =>
        (unwrapVal o fn' dur (((es.map item).filter (fun it => keyOf it == k)).map (fun it => (it.2.2.1, it.2.2.2)))).map (fun v =>
          (⟨k.1, ((((es.map item).filter (fun it => keyOf it == k)).head?).map (·.2.1)).getD .null, k.2, v⟩ : Pt))) := by
    cases g? <;> rfl
  rw [hRP]
  constructor
  · rintro ⟨sx, hsx, hl, ht, hv⟩
    have hsxP : sx ∈ es.filter (P sx) := List.mem_filter.mpr ⟨hsx, by simp [P]⟩
    cases hhead : (es.filter (P sx)).head? with
    | none => rw [List.head?_eq_none_iff] at hhead; rw [hhead] at hsxP; cases hsxP
    | some s0 =>
      have hs0 : s0 ∈ es.filter (P sx) := List.mem_of_mem_head? hhead
      have hs0P := (List.mem_filter.mp hs0).2
      simp only [P, decide_eq_true_eq] at hs0P
      refine ⟨⟨kc sx, lc s0, bc sx, v⟩, ?_, ?_, ht, rfl⟩
      · rw [List.mem_filterMap]
        refine ⟨keyOf (item sx), ?_, ?_⟩
        · rw [List.mem_eraseDups]
          exact List.mem_map.mpr ⟨item sx, List.mem_map.mpr ⟨sx, hsx, rfl⟩, rfl⟩
        · rw [hfilt sx, hgrpv sx, hv, List.head?_map, hhead]
          rfl
      · simp only
        rw [← hlab s0 (hsub sx s0 hs0), (hkey s0 (hsub sx s0 hs0) sx hsx).mpr hs0P.1]
        exact hl
  · rintro ⟨pt, hpt, hl, ht, hv⟩
    rw [List.mem_filterMap] at hpt
    obtain ⟨kk, hkk, hsome⟩ := hpt
    rw [List.mem_eraseDups] at hkk
    obtain ⟨it, hit, rfl⟩ := List.mem_map.mp hkk
    obtain ⟨sx, hsx, rfl⟩ := List.mem_map.mp hit
    rw [hfilt sx, hgrpv sx, List.head?_map] at hsome
    obtain ⟨v', hv', hptv⟩ := Option.map_eq_some_iff.mp hsome
    have hsxP : sx ∈ es.filter (P sx) := List.mem_filter.mpr ⟨hsx, by simp [P]⟩
    cases hhead : (es.filter (P sx)).head? with
    | none => rw [List.head?_eq_none_iff] at hhead; rw [hhead] at hsxP; cases hsxP
    | some s0 =>
      have hs0 : s0 ∈ es.filter (P sx) := List.mem_of_mem_head? hhead
      have hs0P := (List.mem_filter.mp hs0).2
      simp only [P, decide_eq_true_eq] at hs0P
      rw [hhead] at hptv
      subst hptv
      simp only [Option.map_some, Option.getD_some] at hl ht hv
      refine ⟨sx, hsx, ?_, ht, ?_⟩
      · rw [← (hkey s0 (hsub sx s0 hs0) sx hsx).mpr hs0P.1, hlab s0 (hsub sx s0 hs0)]
        exact hl
      · rw [hv', hv]

/-! ### the vector aggregation stage: `AggOpPlanner` behind `ByWithoutPlanner` (in process) vs C08's `aggStage` -/
def toVec : VecFn → LogQL.AggFn
  | .sum => .sum | .min => .min | .max => .max | .avg => .avg | .count => .count

/-- a point of the matrix as an entry of the in-process engine: its labels scanned into a Go map -/
def scanPt (o : Oracles) (c : LogQL.Ctx) (d : LokiDb) (q : LogQuery) (p : Pt) : Entry Rat :=
  ⟨p.ts, UInt64.ofNat (keyIntOf p.key).toNat, canonLabels (asMap (ptLabels o c d q p)), [], p.value, none⟩

theorem vecValue_agree (parse : Bytes → Option Rat) (o : Oracles) (fn : VecFn) (vs : List Rat) (l : List (Entry Rat))
    (hl : l ≠ []) (hp : (l.map (·.val)).Perm vs) :
    aggVal o (toVec fn) vs = some (vecValue (ratOps parse) fn l) := by
  cases hg : vs with
  | nil =>
    rw [hg] at hp
    have := hp.eq_nil
    simp at this
    exact absurd this hl
  | cons gv grest =>
    cases hlv : l.map (·.val) with
    | nil => simp at hlv; exact absurd hlv hl
    | cons lv lrest =>
      rw [hg, hlv] at hp
      have hsum : ratSumL (lv :: lrest) = ratSumL (gv :: grest) := ratSumL_perm _ _ hp
      have hlen : (lv :: lrest).length = (gv :: grest).length := hp.length_eq
      have hlen2 : l.length = (gv :: grest).length := by
        have : (l.map (·.val)).length = (lv :: lrest).length := by rw [hlv]
        rw [List.length_map] at this
        rw [this, hlen]
      cases fn with
      | sum => simp only [toVec, aggVal, vecValue, hlv, sumOf_rat, hsum]
      | min =>
        simp only [toVec, aggVal, vecValue, hlv, minOf_eq]
        rw [foldl_min_perm _ _ _ _ hp]
      | max =>
        simp only [toVec, aggVal, vecValue, hlv, maxOf_eq]
        rw [foldl_max_perm _ _ _ _ hp]
      | avg =>
        simp only [toVec, aggVal, vecValue, hlv, sumOf_rat, hsum, hlen]
        rfl
      | count => simp only [toVec, aggVal, vecValue, countOf_length, hlen2]

/-- **the vector aggregation stage on the same matrix.** `pts`: the matrix ClickHouse has in front of `AggOpPlanner` (any
    list of points on the bucket grid whose labels are label documents without a repeated name); `rows`: the same matrix as
    the in-process engine gets it (any order). In process: the by/without planner `planAggregators` plans (`by ()` when
    no clause is written) and the reading of `AggOpPlanner` (`aggregate` with `vecValue`); ClickHouse: `aggStage`. -/
theorem vec_agree (parse : Bytes → Option Rat) (o : Oracles) (c : LogQL.Ctx) (d : LokiDb) (q : LogQuery) (E : Env Rat)
    (a : VecAgg) (fn : VecFn) (hfn : toVec fn = a.fn) (pts : List Pt) (grid : Grid)
    (hgridpts : ∀ p ∈ pts, ∃ i, i < grid.n ∧ grid.bucket p.ts = some i ∧ p.ts = grid.start + (i : Int) * grid.dur)
    (hinj : ∀ i j : Nat, grid.start + (i : Int) * grid.dur = grid.start + (j : Int) * grid.dur → i = j)
    (hnd : ∀ p ∈ pts, ∃ m, ptLabels o c d q p = .map m ∧ NodupKeys m)
    (hgk : ∀ p ∈ pts, ∀ p' ∈ pts,
      ((canonLabels (asMap (ptLabels o c d q p))).filter (fun kv => (groupingKeys (aggGrouping a)).contains kv.1 == (aggGrouping a).isBy) =
       (canonLabels (asMap (ptLabels o c d q p'))).filter (fun kv => (groupingKeys (aggGrouping a)).contains kv.1 == (aggGrouping a).isBy)) ↔
      (regroup o (aggGrouping a) (ptLabels o c d q p)).1 = (regroup o (aggGrouping a) (ptLabels o c d q p')).1)
    (rows : List (Entry Rat)) (hrows : rows.Perm (pts.map (scanPt o c d q)))
    (l : Labels) (t : Int) (v : Rat) :
    (∃ e ∈ (aggregate (fun e : Entry Rat => e.labels) grid (vecValue (ratOps parse) fn)
        (optByWithout E (planVecGrouping ((chosenGrouping a.byPrefix a.bySuffix).map toBW)) rows)).flatten,
        e.labels = l ∧ e.ts = t ∧ e.val = v) ↔
    (∃ pt ∈ aggStage o c d q a pts, canonLabels (asMap pt.labels) = l ∧ pt.ts = t ∧ pt.value = v) := by
  let g : Grouping := aggGrouping a
  have hbw : planVecGrouping ((chosenGrouping a.byPrefix a.bySuffix).map toBW) = some (toBW g) := by
    simp only [planVecGrouping, g, aggGrouping]
    cases chosenGrouping a.byPrefix a.bySuffix <;> rfl
  let h : Pt → Entry Rat := fun p => bwEntry E (some (toBW g)) (scanPt o c d q p)
  let kc : Pt → Val := fun p => (regroup o g (ptLabels o c d q p)).1
  let lc : Pt → Val := fun p => (regroup o g (ptLabels o c d q p)).2
  let bc : Pt → Int := fun p => p.ts
  let item : Pt → Val × Val × Int × Rat := fun p => (kc p, lc p, p.ts, p.value)
  let keyOf : Val × Val × Int × Rat → Val × Int := fun it => (it.1, it.2.2.1)
  let P : Pt → Pt → Bool := fun sx s => decide (kc s = kc sx ∧ bc s = bc sx)
  have hin : optByWithout E (some (toBW g)) rows = rows.map (fun e => bwEntry E (some (toBW g)) e) := rfl
  rw [hbw, hin]
  have hrows' : (rows.map (fun e => bwEntry E (some (toBW g)) e)).Perm (pts.map h) := by
    have := hrows.map (fun e => bwEntry E (some (toBW g)) e)
    rw [List.map_map] at this
    exact this
  have hts : ∀ p, (h p).ts = p.ts := fun p => rfl
  have hvalc : ∀ p, (h p).val = p.value := fun p => rfl
  have hlab : ∀ p ∈ pts, (h p).labels = canonLabels (asMap (lc p)) := by
    intro p hp
    obtain ⟨m, hm, hndm⟩ := hnd p hp
    simp only [h, lc, bwEntry, Stages.relabel, scanPt, toBW, hm, regroup, asMap]
    rw [canon_filter m hndm]
  have hkey : ∀ s ∈ pts, ∀ s' ∈ pts, ((h s).labels = (h s').labels ↔ kc s = kc s') := by
    intro s hs s' hs'
    exact hgk s hs s' hs'
  have hbucket : ∀ s ∈ pts, ∃ i, i < grid.n ∧ grid.bucket (h s).ts = some i ∧ bc s = grid.start + (i : Int) * grid.dur := by
    intro s hs
    exact hgridpts s hs
  have hfilt : ∀ sx, (pts.map item).filter (fun it => keyOf it == keyOf (item sx)) = (pts.filter (P sx)).map item := by
    intro sx
    rw [List.filter_map]
    congr 1
    apply List.filter_congr
    intro s _
    simp only [Function.comp, keyOf, item, P, bc]
    by_cases h1 : kc s = kc sx <;> by_cases h2 : s.ts = sx.ts <;> simp [h1, h2]
  have hsub : ∀ sx, ∀ s ∈ pts.filter (P sx), s ∈ pts := fun sx s hs => (List.mem_filter.mp hs).1
  have hgrpv : ∀ sx, ((pts.filter (P sx)).map item).map (·.2.2.2) = (pts.filter (P sx)).map (·.value) := by
    intro sx; rw [List.map_map]; rfl
  rw [group_agree pts h kc bc grid _ hrows' hkey hbucket hinj (vecValue (ratOps parse) fn)
    (fun grp' => aggVal o a.fn (grp'.map (·.value))) ?hval l t v]
  case hval =>
    intro sx hsx l0 _ hperm
    have hne : l0 ≠ [] := by
      intro hnil
      rw [hnil] at hperm
      have hmem : h sx ∈ (pts.filter (P sx)).map h :=
        List.mem_map.mpr ⟨sx, List.mem_filter.mpr ⟨hsx, by simp [P]⟩, rfl⟩
      rw [hperm.symm.eq_nil] at hmem
      cases hmem
    rw [← hfn]
    apply vecValue_agree parse o fn _ l0 hne
    have := hperm.map (fun e : Entry Rat => e.val)
    rw [List.map_map] at this
    exact this
  have hAS : aggStage o c d q a pts =
      ((pts.map item).map keyOf).eraseDups.filterMap (fun k =>
        (aggVal o a.fn (((pts.map item).filter (fun it => keyOf it == k)).map (·.2.2.2))).map (fun v =>
          (⟨k.1, ((((pts.map item).filter (fun it => keyOf it == k)).head?).map (·.2.1)).getD .null, k.2, v⟩ : Pt))) := rfl
  rw [hAS]
  constructor
  · rintro ⟨sx, hsx, hl, ht, hv⟩
    have hsxP : sx ∈ pts.filter (P sx) := List.mem_filter.mpr ⟨hsx, by simp [P]⟩
    cases hhead : (pts.filter (P sx)).head? with
    | none => rw [List.head?_eq_none_iff] at hhead; rw [hhead] at hsxP; cases hsxP
    | some s0 =>
      have hs0 : s0 ∈ pts.filter (P sx) := List.mem_of_mem_head? hhead
      have hs0P := (List.mem_filter.mp hs0).2
      simp only [P, decide_eq_true_eq] at hs0P
      refine ⟨⟨kc sx, lc s0, bc sx, v⟩, ?_, ?_, ht, rfl⟩
      · rw [List.mem_filterMap]
        refine ⟨keyOf (item sx), ?_, ?_⟩
        · rw [List.mem_eraseDups]
          exact List.mem_map.mpr ⟨item sx, List.mem_map.mpr ⟨sx, hsx, rfl⟩, rfl⟩
        · rw [hfilt sx, hgrpv sx, hv, List.head?_map, hhead]
          rfl
      · simp only
        rw [← hlab s0 (hsub sx s0 hs0), (hkey s0 (hsub sx s0 hs0) sx hsx).mpr hs0P.1]
        exact hl
  · rintro ⟨pt, hpt, hl, ht, hv⟩
    rw [List.mem_filterMap] at hpt
    obtain ⟨kk, hkk, hsome⟩ := hpt
    rw [List.mem_eraseDups] at hkk
    obtain ⟨it, hit, rfl⟩ := List.mem_map.mp hkk
    obtain ⟨sx, hsx, rfl⟩ := List.mem_map.mp hit
    rw [hfilt sx, hgrpv sx, List.head?_map] at hsome
    obtain ⟨v', hv', hptv⟩ := Option.map_eq_some_iff.mp hsome
    have hsxP : sx ∈ pts.filter (P sx) := List.mem_filter.mpr ⟨hsx, by simp [P]⟩
    cases hhead : (pts.filter (P sx)).head? with
    | none => rw [List.head?_eq_none_iff] at hhead; rw [hhead] at hsxP; cases hsxP
    | some s0 =>
      have hs0 : s0 ∈ pts.filter (P sx) := List.mem_of_mem_head? hhead
      have hs0P := (List.mem_filter.mp hs0).2
      simp only [P, decide_eq_true_eq] at hs0P
      rw [hhead] at hptv
      subst hptv
      simp only [Option.map_some, Option.getD_some] at hl ht hv
      refine ⟨sx, hsx, ?_, ht, ?_⟩
      · rw [← (hkey s0 (hsub sx s0 hs0) sx hsx).mpr hs0P.1, hlab s0 (hsub sx s0 hs0)]
        exact hl
      · rw [hv', hv]

end Qryn.Read
