import Qryn.Proofs.ProfPlansRender
/-! C10, the rest of the tie between the segment view of the Pyroscope statements (`Prof/PlannersSegs.lean`) and C13's `Sel`
    models (`Prof/Planners.lean`): the statements STACKED on the ones of `Proofs/ProfPlansRender.lean` (`mergeJoined`,
    `mergeAggregated`, `selectSeries`, `filterLabels`, `profileSize`) and the two UNION statements.

    The stacked statements need `Select.With` (`Sel.with_`, `addWith1`): the WITH entries of the added query are hoisted in
    front of the new entry, an entry whose alias is already there is dropped. `with_one_withs`: for ONE added query whose own
    WITH list has pairwise different aliases nothing is dropped — for every `Sel`. The alias lists of the planners are then
    computed along the stack (`RStA`: `fp`; `fp, raw`; `fp, raw, pre_joined`; …) and their `Nodup` is decided. -/
namespace Qryn.Prof
open Qryn Qryn.Sql Qryn.Lex Qryn.Prom

/-! ### `Select.With` hoisting, in general -/
/-- the hoisting step of `addWith1` -/
def hoist1 (acc : List (Alias × Sel)) (w' : Alias × Sel) : List (Alias × Sel) := if hasAlias acc w'.1 then acc else acc ++ [w']

theorem hasAlias_append (xs ys : List (Alias × Sel)) (a : Alias) : hasAlias (xs ++ ys) a = (hasAlias xs a || hasAlias ys a) := by
  simp [hasAlias]

theorem hasAlias_false_iff (xs : List (Alias × Sel)) (a : Alias) : hasAlias xs a = false ↔ a ∉ xs.map (·.1) := by
  induction xs with
  | nil => simp [hasAlias]
  | cons x xs ih =>
    simp only [hasAlias, List.any_cons, Bool.or_eq_false_iff, List.map_cons, List.mem_cons, not_or] at ih ⊢
    rw [ih]
    constructor
    · rintro ⟨h1, h2⟩
      exact ⟨fun h => by simp [h] at h1, h2⟩
    · rintro ⟨h1, h2⟩
      exact ⟨by simpa using fun h => h1 h.symm, h2⟩

/-- hoisting a list with pairwise different aliases, none of them present yet, appends it -/
theorem foldl_hoist1 : ∀ (ws acc : List (Alias × Sel)), (ws.map (·.1)).Nodup → (∀ a ∈ ws.map (·.1), a ∉ acc.map (·.1)) →
    ws.foldl hoist1 acc = acc ++ ws
  | [], acc, _, _ => by simp
  | w :: ws, acc, hn, hd => by
    have hw : hasAlias acc w.1 = false := (hasAlias_false_iff _ _).2 (hd w.1 (by simp))
    simp only [List.map_cons, List.nodup_cons] at hn
    rw [List.foldl_cons, hoist1, hw]
    simp only [Bool.false_eq_true, ↓reduceIte]
    rw [foldl_hoist1 ws (acc ++ [w]) hn.2, List.append_assoc, List.singleton_append]
    intro a ha
    simp only [List.map_append, List.map_cons, List.map_nil, List.mem_append, List.mem_singleton, not_or]
    exact ⟨hd a (by simp only [List.map_cons, List.mem_cons]; exact Or.inr ha), fun h => hn.1 (h ▸ ha)⟩

/-- **`outer.With(alias, inner)`**: when the aliases of `inner`'s WITH list are pairwise different, the WITH list of the result
    is `inner`'s list followed by the new entry — for every `outer`, `inner`, `alias` -/
theorem with_one_withs (mo mi : Sel) (a : Alias) (hn : (mi.withs.map (·.1)).Nodup) :
    (mo.with_ [(a, mi)]).withs = mi.withs ++ [(a, mi)] := by
  have h := foldl_hoist1 mi.withs [] hn (by simp)
  rw [List.nil_append] at h
  have hf : (fun (acc : List (Alias × Sel)) (w' : Alias × Sel) => if hasAlias acc w'.1 then acc else acc ++ [w']) = hoist1 := rfl
  simp only [Sel.with_, withs_setWiths, List.foldl_cons, List.foldl_nil, addWith1, hf, h]
  simp [hasAlias]

/-- the aliases of the WITH list -/
def als (m : Sel) : List Alias := m.withs.map (·.1)

/-- `RSt` and the alias list of the model's WITH entries -/
def RStA (s : StB) (m : Sel) (as : List Alias) : Prop := RSt s m ∧ als m = as

theorem RStA.render {s : StB} {m : Sel} {as : List Alias} (h : RStA s m as) : renderSegs s.segs = renderSel m := h.1.render

/-- stacking: `outer.With(alias, inner)` over an inner statement with pairwise different aliases -/
theorem RStA_under {inner : StB} {mi mo : Sel} {as : List Alias} {alias : String} {body : List Seg} (hi : RStA inner mi as)
    (hn : as.Nodup) (hb : renderSegs body = renderSelBody mo) :
    RStA (inner.under alias body) (mo.with_ [(.named alias, mi)]) (as ++ [.named alias]) := by
  have hws := with_one_withs mo mi (.named alias) (by have := hi.2; unfold als at this; rw [this]; exact hn)
  refine ⟨RSt_under hi.1 hws hb, ?_⟩
  unfold als
  rw [hws, List.map_append]
  have := hi.2
  unfold als at this
  rw [this]
  rfl

theorem selectorB_RStA (c : PCtx) (q : PQuery) (hq : PQueryU q) : RStA (selectorB c q) (selectorSel c q) [] :=
  ⟨selectorB_RSt c q hq, rfl⟩

/-- a statement directly over the selector statement has the one entry `fp` -/
theorem RStA_fp {s : StB} {mo : Sel} {c : PCtx} {q : PQuery} (h : RSt s (mo.with_ [(.named "fp", selectorSel c q)])) :
    RStA s (mo.with_ [(.named "fp", selectorSel c q)]) [.named "fp"] := by
  refine ⟨h, ?_⟩
  unfold als
  rw [with_fp_withs, selectorSel_withs]
  rfl

/-! ### select bodies with an optional WHERE -/
theorem render_selBodyB' (ws : List (Alias × Sel)) (d : Bool) {cols : List (List Seg)} {cols' : List Expr} (hc : R cols cols')
    {fS : List Seg} {fe : Expr} {js : List (String × Alias × Expr)} (hf : renderSegs fS = renderExpr fe ++ renderJoins js) :
    renderSegs (selBodyB d cols (some fS) none [] none [] none) = renderSelBody (.mk ws d cols' (some fe) js none none [] none [] none) := by
  have hcols : cols.map renderSegs = renderExprs cols' := by rw [renderExprs_eq_map]; exact hc
  unfold selBodyB renderSelBody
  simp [renderSegs_joinS, hcols, hf]

/-! ### merge stack traces: `MergeJoinedPlanner`, `MergeAggregatedPlanner` -/
theorem mergeRawB_RStA (c : PCtx) (typeUnit : Bytes) (fp : PQuery) (globals : List PCond) (hq : PQueryU fp)
    (hg : ∀ g ∈ globals, g.okU) (hu : Utf8OK (quote typeUnit)) :
    RStA (mergeRawB c typeUnit fp globals) (mergeRaw c typeUnit fp globals) [.named "fp"] := by
  have h := mergeRawB_RSt c typeUnit fp globals hq hg hu
  unfold mergeRaw at h ⊢
  exact RStA_fp h

/-- **`mergeJoined`** over any statement whose WITH aliases are pairwise different and are neither `raw` nor `pre_joined` …
    here: over any `RStA` statement with alias list `as` such that `as ++ [raw]` has no repetition -/
theorem mergeJoinedB_RStA {raw : StB} {mraw : Sel} {as : List Alias} (h : RStA raw mraw as)
    (hn : (as ++ [Alias.named "raw"]).Nodup) :
    RStA (mergeJoinedB raw) (mergeJoined mraw) (as ++ [Alias.named "raw"] ++ [Alias.named "pre_joined"]) := by
  unfold mergeJoinedB mergeJoined
  have hn0 : as.Nodup := (List.nodup_append.1 hn).1
  refine RStA_under (RStA_under h hn0 (render_segsSelBody _)) hn ?_
  rw [render_segsSelBody]
  simp only [renderSelBody_with]

/-- **`mergeAggregated`** -/
theorem mergeAggregatedB_RStA {joined : StB} {mj : Sel} {as : List Alias} (h : RStA joined mj as) (hn : as.Nodup) :
    RStA (mergeAggregatedB joined) (mergeAggregated mj) (as ++ [.named "joined"]) := by
  unfold mergeAggregatedB
  have hb : renderSegs (segsSelBody (mergeAggregated emptySel)) = renderSelBody (Sel.mk [] false
      [simpleCol "(select groupArray(tree) from joined)" "_tree",
       simpleCol "(select groupUniqArrayArray(functions) from raw )" "_functions"] none [] none none [] none [] none) := by
    rw [render_segsSelBody]
    unfold mergeAggregated
    rw [renderSelBody_with]
  exact RStA_under h hn hb

/-- **`mergeJoined` / `mergeTraces`** of the planners -/
theorem mergeJoinedSegs_render (c : PCtx) (typeUnit : Bytes) (fp : PQuery) (globals : List PCond) (hq : PQueryU fp)
    (hg : ∀ g ∈ globals, g.okU) (hu : Utf8OK (quote typeUnit)) :
    renderSegs (mergeJoinedSegs c typeUnit fp globals) = renderSel (mergeJoined (mergeRaw c typeUnit fp globals)) :=
  (mergeJoinedB_RStA (mergeRawB_RStA c typeUnit fp globals hq hg hu) (by decide)).render

theorem mergeTracesSegs_render (c : PCtx) (typeUnit : Bytes) (fp : PQuery) (globals : List PCond) (hq : PQueryU fp)
    (hg : ∀ g ∈ globals, g.okU) (hu : Utf8OK (quote typeUnit)) :
    renderSegs (mergeTracesSegs c typeUnit fp globals) = renderSel (mergeTraces c typeUnit fp globals) :=
  (mergeAggregatedB_RStA (mergeJoinedB_RStA (mergeRawB_RStA c typeUnit fp globals hq hg hu) (by decide)) (by decide)).render

/-! ### SelectSeries: `SelectSeriesPlanner` over `GetLabelsPlanner` -/
/-- the value aggregate: the model keeps the rendered `x.1 == '<typeUnit>'` as a `String` (twice with `avg`) -/
theorem render_seriesValueColB (typeUnit : Bytes) (avg : Bool) (hu : Utf8OK (renderExpr (eq (.raw "x.1") (.str typeUnit)))) :
    renderSegs (seriesValueColB typeUnit avg) = renderExpr (seriesValueCol typeUnit avg) := by
  have hu' : b (utf8 (renderExpr (eq (.raw "x.1") (.str typeUnit)))) = renderExpr (eq (.raw "x.1") (.str typeUnit)) := hu
  unfold seriesValueColB seriesValueCol
  refine render_colB "value" (by decide) ?_
  rw [renderExpr]
  cases avg <;> simp [b_append, hu', render_segsExpr, List.append_assoc]

theorem getLabelsB_RStA (c : PCtx) (groupBy : List Bytes) (fp : PQuery) (globals : List PCond) (hq : PQueryU fp)
    (hg : ∀ g ∈ globals, g.okU) (hu : Utf8OK (renderExpr (.isIn (.raw "x.1") (groupBy.map .str)))) :
    RStA (getLabelsB c groupBy fp globals) (getLabels c groupBy fp globals) [.named "fp"] := by
  have h := getLabelsB_RSt c groupBy fp globals hq hg hu
  unfold getLabels at h ⊢
  exact RStA_fp h

/-- **`selectSeries`** over any statement with pairwise different WITH aliases -/
theorem selectSeriesB_RStA (c : PCtx) (typeUnit : Bytes) (avg : Bool) (step : Int) {labels : StB} {ml : Sel} {as : List Alias}
    (globals : List PCond) (h : RStA labels ml as) (hn : as.Nodup) (hg : ∀ g ∈ globals, g.okU)
    (hu : Utf8OK (renderExpr (eq (.raw "x.1") (.str typeUnit)))) :
    RStA (selectSeriesB c typeUnit avg step labels globals) (selectSeries c typeUnit avg step ml globals)
      (as ++ [.named "labels"]) := by
  unfold selectSeriesB selectSeries
  refine RStA_under h hn ?_
  refine render_selBodyB [] false
    (R_cons (render_segsExpr _) (R_cons (render_segsExpr _) (R_cons (render_segsExpr _)
      (R_cons (render_seriesValueColB typeUnit avg hu) R_nil))))
    (fe := .col (.raw c.profilesDistTable) "p") (js := seriesJoin)
    (by rw [renderSegs_append, render_segsExpr, render_segsJoins]) ?_
    [.raw "timestamp_ms", .raw "fingerprint"] (hv := none) (hv' := none) rfl
    [.orderBy (.raw "fingerprint") .asc, .orderBy (.raw "timestamp_ms") .asc] none
  exact render_logicalB "and" (R_append (R_exprs _) (R_conds _ hg))

theorem selectSeriesSegs_render (c : PCtx) (typeUnit : Bytes) (avg : Bool) (step : Int) (groupBy : List Bytes) (fp : PQuery)
    (globals : List PCond) (hq : PQueryU fp) (hg : ∀ g ∈ globals, g.okU)
    (hu1 : Utf8OK (renderExpr (.isIn (.raw "x.1") (groupBy.map .str))))
    (hu2 : Utf8OK (renderExpr (eq (.raw "x.1") (.str typeUnit)))) :
    renderSegs (selectSeriesSegs c typeUnit avg step groupBy fp globals) =
      renderSel (selectSeries c typeUnit avg step (getLabels c groupBy fp globals) globals) :=
  (selectSeriesB_RStA c typeUnit avg step globals (getLabelsB_RStA c groupBy fp globals hq hg hu1) (by decide) hg hu2).render

/-! ### Series: `FilterLabelsPlanner`, `PlanSeries` -/
/-- the select of `FilterLabelsPlanner` -/
theorem render_filterBody (ws : List (Alias × Sel)) (labels : List Bytes)
    (hu : Utf8OK (renderExpr (.isIn (.raw "x.1") (labels.map .str)))) :
    renderSegs (filterBody labels) = renderSelBody (Sel.mk ws false
      [.col (arrayFilterIn labels "tags") "tags", simpleCol "type_id" "type_id",
       simpleCol "__sample_types_units" "__sample_types_units"]
      (some (.withRef (.named "pre_label_filter"))) [] none none [] none [] none) := by
  unfold filterBody
  exact render_selBodyB' ws false
    (R_cons (render_colB "tags" (by decide) (render_arrayFilterInB labels "tags" hu))
      (R_cons (render_segsExpr _) (R_cons (render_segsExpr _) R_nil)))
    (js := []) (by simp [render_segsExpr, renderJoins])

/-- **`filterLabels`** over any statement with pairwise different WITH aliases (the alias list grows only when label names
    are given) -/
theorem filterLabelsB_RStA (labels : List Bytes) {main : StB} {mm : Sel} {as : List Alias} (h : RStA main mm as) (hn : as.Nodup)
    (hu : Utf8OK (renderExpr (.isIn (.raw "x.1") (labels.map .str)))) :
    RStA (filterLabelsB labels main) (filterLabels labels mm) (if labels.isEmpty then as else as ++ [.named "pre_label_filter"]) := by
  unfold filterLabelsB filterLabels
  by_cases he : labels.isEmpty = true
  · simp only [he, ↓reduceIte]
    exact h
  · simp only [he, Bool.false_eq_true, ↓reduceIte]
    exact RStA_under h hn (render_filterBody [] labels hu)

theorem timeSeriesSelectB_RStA (c : PCtx) (fp : PQuery) (globals : List PCond) (hq : PQueryU fp) (hg : ∀ g ∈ globals, g.okU) :
    RStA (timeSeriesSelectB c fp globals) (timeSeriesSelect c fp globals) [.named "fp"] := by
  have h := timeSeriesSelectB_RSt c fp globals hq hg
  unfold timeSeriesSelect at h ⊢
  exact RStA_fp h

theorem filterLabelsSegs_render (c : PCtx) (labels : List Bytes) (fp : PQuery) (globals : List PCond) (hq : PQueryU fp)
    (hg : ∀ g ∈ globals, g.okU) (hu : Utf8OK (renderExpr (.isIn (.raw "x.1") (labels.map .str)))) :
    renderSegs (filterLabelsSegs c labels fp globals) = renderSel (filterLabels labels (timeSeriesSelect c fp globals)) :=
  (filterLabelsB_RStA labels (timeSeriesSelectB_RStA c fp globals hq hg) (by decide) hu).render

/-- **`planSeries`**: no selector, or one selector set with or without label names -/
theorem planSeriesSegs_render (c : PCtx) (labels : List Bytes) (sel : Option PQuery) (hq : ∀ q, sel = some q → PQueryU q)
    (hu : Utf8OK (renderExpr (.isIn (.raw "x.1") (labels.map .str)))) :
    renderSegs (planSeriesSegs c labels sel) = renderSel (planSeries c labels sel) := by
  cases sel with
  | none => exact allTimeSeriesSegs_render c
  | some q => exact filterLabelsSegs_render c labels q q.globals (hq q rfl) (hq q rfl).1 hu

/-! ### AnalyzeQuery: `ProfileSizePlanner` -/
/-- **`profileSize`** over any statement with pairwise different WITH aliases -/
theorem profileSizeB_RStA {main : StB} {mm : Sel} {as : List Alias} (h : RStA main mm as) (hn : as.Nodup) :
    RStA (profileSizeB main) (profileSize mm) (as ++ [.named "pre_profile_size"]) := by
  unfold profileSizeB
  have hb : renderSegs (segsSelBody (profileSize emptySel)) = renderSelBody (Sel.mk [] false
    [.col (.call "" [.sub (.mk [] false [.raw "sum(length(payload)::Int64)"] (some (.withRef (.named "pre_profile_size"))) [] none none [] none [] none)])
       "profile_size",
     .col (.call "" [.sub (.mk [] false [.raw "uniqExact(fingerprint)::Int64"] (some (.withRef (.named "fp"))) [] none none [] none [] none)])
       "fingerprint_count"]
    none [] none none [] none [] none) := by
    rw [render_segsSelBody]
    unfold profileSize
    rw [renderSelBody_with]
  exact RStA_under h hn hb

theorem mergeProfilesB_RStA (c : PCtx) (fp : PQuery) (globals : List PCond) (hq : PQueryU fp) (hg : ∀ g ∈ globals, g.okU) :
    RStA (mergeProfilesB c fp globals) (mergeProfiles c fp globals) [.named "fp"] := by
  have h := mergeProfilesB_RSt c fp globals hq hg
  unfold mergeProfiles at h ⊢
  exact RStA_fp h

theorem profileSizeSegs_render (c : PCtx) (q : PQuery) (globals : List PCond) (hq : PQueryU q) (hg : ∀ g ∈ globals, g.okU) :
    renderSegs (profileSizeSegs c q globals) = renderSel (profileSize (mergeProfiles c q globals)) :=
  (profileSizeB_RStA (mergeProfilesB_RStA c q globals hq hg) (by decide)).render

theorem analyzeQuerySegs_render (c : PCtx) (q : PQuery) (hq : PQueryU q) :
    renderSegs (analyzeQuerySegs c q) = renderSel (analyzeQuery c q) := profileSizeSegs_render c q q.globals hq hq.1

/-! ### the UNION statements -/
/-- `unionB` against `UnionStmt.render`, part by part -/
theorem render_unionB {pre post : List (List Seg)} {pre' post' : List (Alias × Sel)} (alias : String) {ops : List (List Seg)}
    {ops' : List Sel} {main : List Seg} {main' : Sel} (hpre : pre.map renderSegs = renderWiths pre')
    (hpost : post.map renderSegs = renderWiths post') (hops : ops.map renderSegs = ops'.map renderSelBody)
    (hmain : renderSegs main = renderSelBody main') :
    renderSegs (unionB pre alias ops post main) =
      UnionStmt.render { pre := pre', alias := alias, ops := ops', post := post', main := main' } := by
  simp only [unionB, UnionStmt.render, renderSegs_append, renderSegs_cons_raw, renderSegs_nil, renderSegs_joinS, List.map_append,
    List.map_cons, List.map_nil, hpre, hpost, hops, hmain, List.append_nil, List.append_assoc]

theorem renderSegs_withB (alias : String) (x : List Seg) {m : Sel} (h : renderSegs x = renderSelBody m) :
    [withB (alias, x)].map renderSegs = renderWiths [(.named alias, m)] := by
  simp [withB, renderWiths, Alias.text, h, List.append_assoc]

/-- **`labelsUnion`**: LabelNames / LabelValues over `fp` = the UNION ALL of the selector statements, any number of sets -/
theorem labelsUnionSegs_render (c : PCtx) (col : String) (label : Option Bytes) (scripts : List PQuery)
    (hq : ∀ q ∈ scripts, PQueryU q) :
    renderSegs (labelsUnionSegs c col label scripts) = (labelsUnion c col label scripts).render := by
  unfold labelsUnionSegs labelsUnion
  refine render_unionB (pre := []) (post := []) (pre' := []) (post' := []) "fp" (by simp [renderWiths]) (by simp [renderWiths]) ?_ (render_segsSelBody _)
  simp only [List.map_map]
  exact List.map_congr_left (fun q h => render_selectorBody c q (hq q h))

/-- **`seriesUnion`**: `PlanSeries` over two or more selector sets (any number), with or without label names -/
theorem seriesUnionSegs_render (c : PCtx) (labels : List Bytes) (scripts : List PQuery) (hq : ∀ q ∈ scripts, PQueryU q)
    (hu : Utf8OK (renderExpr (.isIn (.raw "x.1") (labels.map .str)))) :
    renderSegs (seriesUnionSegs c labels scripts) = (seriesUnion c labels scripts).render := by
  have hops : (scripts.map (fun p => timeSeriesBody c p.globals)).map renderSegs =
      (scripts.map (fun p => timeSeriesSelect c p p.globals)).map renderSelBody := by
    simp only [List.map_map]
    apply List.map_congr_left
    intro q h
    simp only [Function.comp, timeSeriesSelect]
    rw [renderSelBody_with]
    exact render_timeSeriesBody [] c q.globals (hq q h).1
  have hpre : (match scripts with | [] => [] | p :: _ => [withB ("fp", selectorBody c p)]).map renderSegs =
      renderWiths (match scripts with | [] => [] | p :: _ => [(Alias.named "fp", selectorSel c p)]) := by
    cases scripts with
    | nil => simp [renderWiths]
    | cons p ps => exact renderSegs_withB "fp" _ (render_selectorBody c p (hq p (by simp)))
  unfold seriesUnionSegs seriesUnion
  by_cases he : labels.isEmpty = true
  · simp only [he, ↓reduceIte]
    exact render_unionB (post := []) (post' := []) "pre_distinct" hpre (by simp [renderWiths]) hops (render_segsSelBody _)
  · simp only [he, Bool.false_eq_true, ↓reduceIte]
    exact render_unionB "pre_distinct" hpre (renderSegs_withB "pre_label_filter" _ (render_segsSelBody _)) hops
      (render_filterBody [] labels hu)

/-! ### the `utf8` hypotheses are decidable; non-vacuity -/
instance : DecidablePred Utf8OK := fun x => by unfold Utf8OK; exact inferInstance
def PCond.decOkU : (g : PCond) → Decidable g.okU
  | .cmp _ _ _ => by unfold PCond.okU; exact inferInstance
  | .cmpMatch _ _ _ => by unfold PCond.okU; exact inferInstance
  | .arrayExists _ => by unfold PCond.okU; exact inferInstance
  | .and2 x y => by
    unfold PCond.okU
    exact @instDecidableAnd _ _ (PCond.decOkU x) (PCond.decOkU y)
instance : DecidablePred PCond.okU := PCond.decOkU
instance : DecidablePred PQueryU := fun q => by unfold PQueryU; exact inferInstance

/-- `__sample_type__="'\--"` (inside the `arrayExists` closure), `'--="\'"`, `a=~"')--"`: a request the fingerprint planner
    accepts, hostile bytes everywhere, and all `utf8` hypotheses hold -/
private def exSelsU : List Selector :=
  [⟨[95, 95, 115, 97, 109, 112, 108, 101, 95, 116, 121, 112, 101, 95, 95], .eq, [39, 92, 45, 45]⟩,
   ⟨[39, 45, 45], .eq, [92, 39]⟩, ⟨[97], .re, [39, 41, 45, 45]⟩]
private def exQ : PQuery := (plan (fun _ _ => false) "profiles_series_gin" [50] [51] exSelsU).get (by decide +kernel)
private theorem exQ_U : PQueryU exQ := by decide +kernel
private def exCtxU : PCtx :=
  { fromNs := 1700000000000000000, toNs := 1700000360000000000, limit := 10, ginTable := "profiles_series_gin",
    ginDistTable := "`qryn`.profiles_series_gin_dist", seriesTable := "profiles_series", seriesDistTable := "profiles_series_dist",
    profilesDistTable := "profiles_dist" }
example : renderSegs (mergeTracesSegs exCtxU [39, 92, 45, 45] exQ exQ.globals) =
    renderSel (mergeTraces exCtxU [39, 92, 45, 45] exQ exQ.globals) :=
  mergeTracesSegs_render _ _ _ _ exQ_U exQ_U.1 (by decide +kernel)
example : renderSegs (selectSeriesSegs exCtxU [39, 58, 45, 45] true (-15) [[39], [92, 39], [45, 45]] exQ exQ.globals) =
    renderSel (selectSeries exCtxU [39, 58, 45, 45] true (-15) (getLabels exCtxU [[39], [92, 39], [45, 45]] exQ exQ.globals) exQ.globals) :=
  selectSeriesSegs_render _ _ _ _ _ _ _ exQ_U exQ_U.1
    (by simp only [renderExpr, renderExprs, List.map]; decide +kernel) (by simp only [renderExpr, renderParens, eq]; decide +kernel)
example : renderSegs (seriesUnionSegs exCtxU [[39, 41, 45, 45], []] [exQ, exQ, exQ]) =
    (seriesUnion exCtxU [[39, 41, 45, 45], []] [exQ, exQ, exQ]).render :=
  seriesUnionSegs_render _ _ _ (by intro q hq; simp at hq; subst hq; exact exQ_U)
    (by simp only [renderExpr, renderExprs, List.map]; decide +kernel)
/-- the hypotheses do exclude something: a byte string that is not UTF-8 is not the text of a `String` (the C13 model writes
    `""` there; the segment view and the real planner keep the bytes — `prof-segs` compares those byte for byte) -/
example : ¬ Utf8OK (quote [255]) := by decide +kernel

end Qryn.Prof
