import Qryn.Proofs.PprofRefs
/-! `ProfileMergeV2.Merge` aggregates per RESOLVED stack: reading every sample's stack through the tables it refers to
    (location → address and lines → function → start line, name, system name, file name as STRINGS), the merged values of
    any class of stacks are the sums of the inputs' values of that class. The proof is the correctness of interning:
    tables only grow (old references keep their meaning) and `Get` returns an entry with the key of what was looked up. -/
namespace Qryn.Prof.Pprof
open Qryn.Prof

/-! ### resolving references -/

def strAt (S : List String) (i : Int) : String := S.getD i.toNat ""

/-- a function as its content: start line, name, system name, file name -/
abbrev RFun := Int × String × String × String

def rFun (S : List String) (f : PFunction) : RFun := (f.startLine, strAt S f.name, strAt S f.sysName, strAt S f.filename)

/-- entry with id `id` of a table whose ids are 1…n in order -/
def entryAt {α : Type} (T : List α) (id : Nat) : Option α := if id = 0 then none else T[id - 1]?

/-- a location as its content: address and the functions of its lines (innermost first) -/
abbrev RLoc := Nat × List RFun

def rLine (S : List String) (F : List PFunction) (ln : PLine) : RFun :=
  match entryAt F ln.fn with
  | some f => rFun S f
  | none => (0, "", "", "")

def rLoc (S : List String) (F : List PFunction) (l : PLocation) : RLoc := (l.address, l.lines.map (rLine S F))

def rStack (S : List String) (F : List PFunction) (L : List PLocation) (locs : List Nat) : List RLoc :=
  locs.map (fun i => match entryAt L i with
    | some l => rLoc S F l
    | none => (0, []))

def stStack (st : MState) (locs : List Nat) : List RLoc := rStack st.strings st.functions st.locations locs
def inStack (p : PProfile) (locs : List Nat) : List RLoc := rStack p.strings p.functions p.locations locs

/-- values of the samples whose key satisfies a predicate -/
def valTotalK (Qk : SampleKey → Bool) (ss : List PSample) (j : Nat) : Int :=
  ((ss.filter (fun s => Qk (sampleKey s))).map (fun s => s.vals.getD j 0)).sum

theorem valTotalK_cons (Qk : SampleKey → Bool) (s : PSample) (ss : List PSample) (j : Nat) :
    valTotalK Qk (s :: ss) j = (if Qk (sampleKey s) then s.vals.getD j 0 else 0) + valTotalK Qk ss j := by
  unfold valTotalK
  by_cases h : Qk (sampleKey s) <;> simp [h]

theorem valTotalK_append (Qk : SampleKey → Bool) (a b : List PSample) (j : Nat) :
    valTotalK Qk (a ++ b) j = valTotalK Qk a j + valTotalK Qk b j := by
  simp [valTotalK, List.filter_append, List.sum_append]

theorem valTotalK_congr (Qk Qk' : SampleKey → Bool) (ss : List PSample) (j : Nat)
    (h : ∀ s ∈ ss, Qk (sampleKey s) = Qk' (sampleKey s)) : valTotalK Qk ss j = valTotalK Qk' ss j := by
  induction ss with
  | nil => rfl
  | cons s ss ih =>
    rw [valTotalK_cons, valTotalK_cons, h s (by simp), ih (fun x hx => h x (by simp [hx]))]

/-! ### the sample table, per key class -/

theorem update_sumK (Qk : SampleKey → Bool) (n : Nat) (s : PSample) (hs : s.vals.length = n) (j : Nat) :
    ∀ (tab : List PSample), (tab.map sampleKey).Nodup → (∀ a ∈ tab, a.vals.length = n) → sampleKey s ∈ tab.map sampleKey →
    valTotalK Qk (tab.map (fun a => if sampleKey a = sampleKey s then combS a s else a)) j
      = valTotalK Qk tab j + (if Qk (sampleKey s) then s.vals.getD j 0 else 0) := by
  intro tab
  induction tab with
  | nil => intro _ _ h; simp at h
  | cons x xs ih =>
    intro hnd hlen hmem
    simp only [List.map_cons] at hnd hmem
    have hx := List.nodup_cons.mp hnd
    rw [List.map_cons, valTotalK_cons, valTotalK_cons]
    by_cases e : sampleKey x = sampleKey s
    · rw [if_pos e]
      have hid : xs.map (fun a => if sampleKey a = sampleKey s then combS a s else a) = xs := by
        have : ∀ a ∈ xs, (if sampleKey a = sampleKey s then combS a s else a) = a := by
          intro a ha
          have : sampleKey a ≠ sampleKey s := fun e' => hx.1 (List.mem_map.mpr ⟨a, ha, e'.trans e.symm⟩)
          rw [if_neg this]
        rw [List.map_congr_left this]; simp
      have hk : sampleKey (combS x s) = sampleKey x := rfl
      rw [hid, hk, e, combS_getD n x s (hlen x (by simp)) hs]
      split <;> omega
    · rw [if_neg e]
      have hmem' : sampleKey s ∈ xs.map sampleKey := by
        rcases List.mem_cons.mp hmem with h | h
        · exact absurd h.symm e
        · exact h
      rw [ih hx.2 (fun a ha => hlen a (by simp [ha])) hmem']
      omega

theorem upsertSample_stepK (Qk : SampleKey → Bool) (n : Nat) (tab : List PSample) (s : PSample)
    (hnd : (tab.map sampleKey).Nodup) (hlen : ∀ a ∈ tab, a.vals.length = n) (hs : s.vals.length = n) (j : Nat) :
    valTotalK Qk (upsertSample tab s) j = valTotalK Qk tab j + (if Qk (sampleKey s) then s.vals.getD j 0 else 0) := by
  rw [upsertSample_def]
  unfold upsertBy
  split
  · rename_i hany
    exact update_sumK Qk n s hs j tab hnd hlen ((any_key_iff sampleKey tab (sampleKey s)).mp hany)
  · rw [valTotalK_append, valTotalK_cons]
    have hk : sampleKey (mkS s) = sampleKey s := rfl
    rw [hk]
    simp only [valTotalK, List.filter_nil, List.map_nil, List.sum_nil, Int.add_zero]
    congr 1
    split
    · simp only [mkS, addVals_getD, List.length_replicate, getD_replicate_zero, Int.zero_add]
      split
      · rfl
      · rw [getD_of_length_le s.vals j (by omega)]
    · rfl

theorem foldl_upsertSampleK (Qk : SampleKey → Bool) (n : Nat) (j : Nat) : ∀ (ss tab : List PSample),
    (tab.map sampleKey).Nodup → (∀ a ∈ tab, a.vals.length = n) → (∀ s ∈ ss, s.vals.length = n) →
    valTotalK Qk (ss.foldl upsertSample tab) j = valTotalK Qk tab j + valTotalK Qk ss j := by
  intro ss
  induction ss with
  | nil => intro tab _ _ _; simp [valTotalK]
  | cons s ss ih =>
    intro tab h1 h2 h3
    have step := upsertSample_step n tab s h1 h2 (h3 s (by simp)) j
    have stepK := upsertSample_stepK Qk n tab s h1 h2 (h3 s (by simp)) j
    simp only [List.foldl_cons]
    rw [ih (upsertSample tab s) (upsertSample_nodup tab s h1) step.1 (fun x hx => h3 x (by simp [hx])), stepK, valTotalK_cons]
    omega

/-! ### tables only grow: old references keep their meaning -/

theorem strAt_append (S e : List String) (i : Int) (h : StrOK S.length i) : strAt (S ++ e) i = strAt S i := by
  unfold strAt
  have hlt : i.toNat < S.length := by have := h.1; have := h.2; omega
  simp [List.getD_eq_getElem?_getD, List.getElem?_append_left hlt]

theorem entryAt_append {α : Type} (T e : List α) (id : Nat) (h : IdOK T.length id) : entryAt (T ++ e) id = entryAt T id := by
  unfold entryAt
  have h1 := h.1
  have h2 := h.2
  rw [if_neg (by omega), if_neg (by omega), List.getElem?_append_left (by omega)]

theorem entryAt_some {α : Type} (T : List α) (id : Nat) (h : IdOK T.length id) : ∃ e, entryAt T id = some e ∧ e ∈ T := by
  unfold entryAt
  have h1 := h.1
  have h2 := h.2
  rw [if_neg (by omega)]
  have hlt : id - 1 < T.length := by omega
  exact ⟨T[id - 1], List.getElem?_eq_getElem hlt, List.getElem_mem hlt⟩

/-- a stack whose references resolve in the smaller tables reads the same in the larger ones -/
theorem rStack_grow (S F L : List _) (Se : List String) (Fe : List PFunction) (Le : List PLocation) (locs : List Nat)
    (hlocs : ∀ x ∈ locs, IdOK L.length x)
    (hL : ∀ l ∈ L, ∀ ln ∈ l.lines, IdOK F.length ln.fn)
    (hF : ∀ f ∈ F, StrOK S.length f.name ∧ StrOK S.length f.sysName ∧ StrOK S.length f.filename) :
    rStack (S ++ Se) (F ++ Fe) (L ++ Le) locs = rStack S F L locs := by
  unfold rStack
  apply List.map_congr_left
  intro x hx
  rw [entryAt_append L Le x (hlocs x hx)]
  obtain ⟨l, hl, hlm⟩ := entryAt_some L x (hlocs x hx)
  rw [hl]
  simp only [rLoc]
  congr 1
  apply List.map_congr_left
  intro ln hln
  unfold rLine
  rw [entryAt_append F Fe ln.fn (hL l hlm ln hln)]
  obtain ⟨f, hf, hfm⟩ := entryAt_some F ln.fn (hL l hlm ln hln)
  rw [hf]
  have := hF f hfm
  simp only [rFun, strAt_append S Se _ this.1, strAt_append S Se _ this.2.1, strAt_append S Se _ this.2.2]

/-! ### `Get` returns an entry with the key that was looked up -/

section Lookup
variable {α κ : Type} [DecidableEq κ] (key : α → κ) (mk : α → Nat → α) (hmk : ∀ x n, key (mk x n) = key x)
include hmk

theorem intern_lookup (tab : List α) (x : α) :
    ∃ e, entryAt (intern key mk tab x).1 (intern key mk tab x).2 = some e ∧ key e = key x := by
  unfold intern
  cases h : tab.findIdx? (fun a => decide (key a = key x)) with
  | some i =>
    obtain ⟨hlt, hp, _⟩ := List.findIdx?_eq_some_iff_getElem.mp h
    refine ⟨tab[i], ?_, by simpa using hp⟩
    simp [entryAt, List.getElem?_eq_getElem hlt]
  | none =>
    refine ⟨mk x (tab.length + 1), ?_, hmk _ _⟩
    simp [entryAt]

theorem internAll_lookup : ∀ (xs tab : List α) (k : Nat) (hk : k < xs.length),
    ∃ e, entryAt (internAll key mk tab xs).1 ((internAll key mk tab xs).2.getD k 0) = some e ∧ key e = key xs[k] := by
  intro xs
  induction xs with
  | nil => intro tab k hk; simp at hk
  | cons x xs ih =>
    intro tab k hk
    simp only [internAll]
    cases k with
    | zero =>
      obtain ⟨e, he, hke⟩ := intern_lookup key mk hmk tab x
      obtain ⟨⟨ext, hext, _⟩, _, _⟩ := internAll_spec key mk xs (intern key mk tab x).1
      obtain ⟨_, h1, h2⟩ := intern_spec key mk tab x
      refine ⟨e, ?_, hke⟩
      simp only [List.getD_cons_zero]
      rw [hext, entryAt_append _ _ _ ⟨h1, h2⟩]
      exact he
    | succ k =>
      simp only [List.getD_cons_succ, List.getElem_cons_succ]
      exact ih (intern key mk tab x).1 k (by simpa using hk)
end Lookup

end Qryn.Prof.Pprof
