import Qryn.Proofs.TraceQLSimple
/-! C11, stage C: `&&` / `||` nodes (`ComplexAndPlanner`, `ComplexOrPlanner`) over operands that return traces. -/
namespace Qryn.TraceQL
open Qryn Qryn.Sql

/-- GROUP BY trace_id over rows that carry a trace id and a span id: one row per trace id met whose group
    passes HAVING, with a non-empty span array -/
theorem traceRows_of_grouped (o : Oracles) (ao : AggOracles) (env : Env) (F : Table) (arr : String)
    (harr : arr = "groupArray(100)" ∨ arr = "groupUniqArray(100)") (extra : List Expr) (hav : Option Expr) (T : Table)
    (hF : ∀ r ∈ F, ∃ tr sp, evalE o env r (.raw "trace_id") = .str tr ∧ evalE o env r (.raw "span_id") = .str sp)
    (hT : T.Perm (((dedup (F.map (fun r => evalE o env r (.raw "trace_id")))).filter
        (fun v => havingG o ao env (rowsWith o env F (.raw "trace_id") v) hav)).map
      (fun v => projG o env ([simpleCol "trace_id" "trace_id", .col (.call arr [.raw "span_id"]) "span_id"] ++ extra)
        (rowsWith o env F (.raw "trace_id") v)))) :
    TraceRows T (fun tr => (∃ r ∈ F, evalE o env r (.raw "trace_id") = .str tr) ∧
      havingG o ao env (rowsWith o env F (.raw "trace_id") (.str tr)) hav = true) := by
  generalize hVs : dedup (F.map (fun r => evalE o env r (.raw "trace_id"))) = Vs at hT
  have hVmem : ∀ v, v ∈ Vs ↔ ∃ r ∈ F, evalE o env r (.raw "trace_id") = v := by
    intro v; rw [← hVs, mem_dedup]; simp [List.mem_map]
  have hVnd : Vs.Nodup := by rw [← hVs]; exact nodup_dedup _
  have hrow : ∀ v ∈ Vs,
      (projG o env ([simpleCol "trace_id" "trace_id", .col (.call arr [.raw "span_id"]) "span_id"] ++ extra)
        (rowsWith o env F (.raw "trace_id") v)).get "trace_id" = v ∧
      ∃ vs, (projG o env ([simpleCol "trace_id" "trace_id", .col (.call arr [.raw "span_id"]) "span_id"] ++ extra)
        (rowsWith o env F (.raw "trace_id") v)).get "span_id" = .strs vs ∧ vs ≠ [] := by
    intro v hv
    have hvF : v ∈ F.map (fun r => evalE o env r (.raw "trace_id")) := by rw [← mem_dedup, hVs]; exact hv
    obtain ⟨hne, hall⟩ := rowsWith_spec o env F (.raw "trace_id") v hvF
    obtain ⟨r0, rest, hg⟩ := List.ne_nil_iff_exists_cons.mp hne
    have hr0 := hall r0 (by rw [hg]; simp)
    constructor
    · simp [projG, simpleCol, colName, Row.get, List.lookup, evalGrp, hg]
      simpa [evalE, Row.get] using hr0
    · have hr0F : r0 ∈ F := by
        have : r0 ∈ rowsWith o env F (.raw "trace_id") v := by rw [hg]; simp
        exact (List.mem_filter.mp this).1
      obtain ⟨tr, sp, _, hsp⟩ := hF r0 hr0F
      rcases harr with rfl | rfl
      · refine ⟨(strsOf ((rowsWith o env F (.raw "trace_id") v).map (fun r => evalE o env r (.raw "span_id")))).take 100, ?_, ?_⟩
        · simp [projG, simpleCol, colName, Row.get, List.lookup, evalGrp]
        · rw [hg]; simp [strsOf, hsp]
      · refine ⟨(dedup (strsOf ((rowsWith o env F (.raw "trace_id") v).map (fun r => evalE o env r (.raw "span_id"))))).take 100, ?_, ?_⟩
        · simp [projG, simpleCol, colName, Row.get, List.lookup, evalGrp]
        · rw [hg]; simp [strsOf, hsp, dedup]
  refine ⟨?_, ?_, ?_⟩
  · have := (hT.map (fun r => r.get "trace_id"))
    refine (List.Perm.nodup_iff this).mpr ?_
    rw [List.map_map]
    apply nodup_map_of_inj_on _ _ (List.Nodup.sublist List.filter_sublist hVnd)
    intro a ha b hb hab
    simp only [Function.comp] at hab
    rw [(hrow a (List.mem_filter.mp ha).1).1, (hrow b (List.mem_filter.mp hb).1).1] at hab
    exact hab
  · intro r hr
    obtain ⟨v, hv, rfl⟩ := List.mem_map.mp (hT.mem_iff.mp hr)
    have hvV := (List.mem_filter.mp hv).1
    obtain ⟨r1, hr1, hr1v⟩ := (hVmem v).mp hvV
    obtain ⟨tr, sp, htr, _⟩ := hF r1 hr1
    obtain ⟨h1, vs, h2, h3⟩ := hrow v hvV
    exact ⟨tr, vs, by rw [h1, ← hr1v, htr], h2, h3⟩
  · intro tr
    constructor
    · rintro ⟨r, hr, hrt⟩
      obtain ⟨v, hv, rfl⟩ := List.mem_map.mp (hT.mem_iff.mp hr)
      obtain ⟨hvV, hhav⟩ := List.mem_filter.mp hv
      rw [(hrow v hvV).1] at hrt
      subst hrt
      exact ⟨(hVmem _).mp hvV, hhav⟩
    · rintro ⟨hex, hhav⟩
      have hvV : Val.str tr ∈ Vs := (hVmem _).mpr hex
      exact ⟨_, hT.mem_iff.mpr (List.mem_map.mpr ⟨Val.str tr, List.mem_filter.mpr ⟨hvV, hhav⟩, rfl⟩), (hrow _ hvV).1⟩

def maxCol : Expr := .col (.call "max" [.raw "timestamp_ns"]) "max_timestamp_ns"

/-- the row an operand contributes for one span of one of its traces -/
def opRow (isAnd : Bool) (i : Nat) (r : Row) (v : Bytes) : Row :=
  [("trace_id", r.get "trace_id"), ("span_id", .str v), ("timestamp_ns", r.get "max_timestamp_ns")] ++
    (if isAnd then [("_op", .int i)] else [])

theorem withs_addCols (X : Sel) (cs : List Expr) : (X.addCols cs).withs = X.withs := by
  obtain ⟨ws, d, c, f, j, p, w, g, h, ob, l⟩ := X; rfl

theorem get_of_lookup_strs {r : Row} {n : String} {vs : List Bytes} (h : r.get n = .strs vs) : r.lookup n = some (.strs vs) := by
  unfold Row.get at h
  cases hl : r.lookup n with
  | none => rw [hl] at h; simp at h
  | some v => rw [hl] at h; simp at h; rw [h]

theorem flatMap_congr_mem {α β} (f g : α → List β) : ∀ (l : List α), (∀ x ∈ l, f x = g x) → l.flatMap f = l.flatMap g
  | [], _ => rfl
  | x :: xs, h => by
    simp only [List.flatMap_cons, h x (by simp)]
    rw [flatMap_congr_mem f g xs (fun y hy => h y (List.mem_cons_of_mem _ hy))]

/-- evaluation of the per-operand wrapping: every trace row of the operand is unnested into one row per span -/
theorem operandSel_eval (o : Oracles) (ao : AggOracles) (db : Db) (env : Env) (isAnd : Bool) (i : Nat) (X : Sel)
    (hw : X.withs = [] ∨ ∃ a s, X.withs = [(a, s)])
    (hown : evalSelG o ao db false (evalWithsG o ao db env X.withs) (X.addCols [maxCol]) =
      evalSelG o ao db true env (X.addCols [maxCol]))
    (hshape : ∀ r ∈ evalSelG o ao db true env (X.addCols [maxCol]), ∃ tr vs, r.get "trace_id" = .str tr ∧ r.get "span_id" = .strs vs) :
    evalSelG o ao db true env (operandSel isAnd i X) =
      (evalSelG o ao db true env (X.addCols [maxCol])).flatMap
        (fun r => match r.get "span_id" with | .strs vs => vs.map (opRow isAnd i r) | _ => []) := by
  obtain ⟨ws, d, c, f, j, p, w, g, h, ob, l⟩ := X
  simp only [Sel.withs] at hw hown
  have hop : operandSel isAnd i (.mk ws d c f j p w g h ob l) =
      .mk (ws ++ [(.named ("_" ++ toString i ++ "_pre_"), (Sel.mk ws d c f j p w g h ob l).addCols [maxCol])]) false
      ([simpleCol "trace_id" "trace_id", simpleCol "_span_id" "span_id", simpleCol "max_timestamp_ns" "timestamp_ns"] ++
        (if isAnd then [.col (.int i) "_op"] else []))
      (some (.arrayJoin (.withRef (.named ("_" ++ toString i ++ "_pre_")))
        (simpleCol (("_" ++ toString i ++ "_pre_") ++ ".span_id") "_span_id"))) [] none none [] none [] none := by
    rcases hw with h0 | ⟨a, s, h0⟩ <;> subst h0 <;>
      simp [operandSel, Sel.with_, addWith1, hasAlias, Sel.withs, Sel.setWiths, Sel.addCols, maxCol, Alias.text]
  generalize hT : evalSelG o ao db true env ((Sel.mk ws d c f j p w g h ob l).addCols [maxCol]) = T' at hown hshape ⊢
  rw [hop]
  simp only [evalSelG, evalWithsG_append, evalWithsG, hown, if_true, optB, Bool.and_true, limitG,
    List.isEmpty_nil, List.foldl_nil, sourceRowsG, simpleCol, lookup_head, Option.getD_some, Alias.text, arrayJoinRows,
    Bool.false_eq_true, if_false]
  rw [List.flatMap_map, List.filter_eq_self.mpr (by intro r _; rfl), List.map_flatMap]
  apply flatMap_congr_mem
  intro r hr
  obtain ⟨tr, vs, htr, hvs⟩ := hshape r hr
  have hq : (qualify ("_" ++ toString i ++ "_pre_") r).get ("_" ++ toString i ++ "_pre_" ++ ".span_id") = .strs vs := by
    have hn : "_" ++ toString i ++ "_pre_" ++ ".span_id" = ("_" ++ toString i ++ "_pre_") ++ "." ++ "span_id" := by
      simp [String.append_assoc]
    rw [hn, get_qualify_dot, get_of_lookup_strs hvs]
  rw [hq, hvs, List.map_map]
  apply List.map_congr_left
  intro v _
  have h1 := get_qualify_nodot ("_" ++ toString i ++ "_pre_") r "trace_id" tid_nodot
  have h2 := get_qualify_nodot ("_" ++ toString i ++ "_pre_") r "max_timestamp_ns" (by decide)
  simp only [Row.get] at h1 h2
  cases isAnd <;>
    simp [project, opRow, colName, evalE, Row.get, List.lookup] <;>
    exact ⟨h1, h2⟩

theorem dedup_two {α} [BEq α] [LawfulBEq α] (a b : α) (hab : a ≠ b) (l : List α) (hl : ∀ x ∈ l, x = a ∨ x = b) :
    (dedup l).length = 2 ↔ a ∈ l ∧ b ∈ l := by
  have hnd := nodup_dedup l
  by_cases ha : a ∈ l <;> by_cases hb : b ∈ l
  · have : (dedup l).Perm [a, b] := by
      rw [List.perm_ext_iff_of_nodup hnd (by simp [hab])]
      intro x; rw [mem_dedup]
      constructor
      · intro hx; rcases hl x hx with h | h <;> simp [h]
      · intro hx; simp at hx; rcases hx with h | h <;> simp [h, ha, hb]
    simp [this.length_eq, ha, hb]
  · have : (dedup l).Perm [a] := by
      rw [List.perm_ext_iff_of_nodup hnd (by simp)]
      intro x; rw [mem_dedup]
      constructor
      · intro hx; rcases hl x hx with h | h
        · simp [h]
        · exact absurd (h ▸ hx) hb
      · intro hx; simp at hx; simp [hx, ha]
    simp [this.length_eq, hb]
  · have : (dedup l).Perm [b] := by
      rw [List.perm_ext_iff_of_nodup hnd (by simp)]
      intro x; rw [mem_dedup]
      constructor
      · intro hx; rcases hl x hx with h | h
        · exact absurd (h ▸ hx) ha
        · simp [h]
      · intro hx; simp at hx; simp [hx, hb]
    simp [this.length_eq, ha]
  · have : l = [] := by
      cases l with
      | nil => rfl
      | cons x xs =>
        rcases hl x (by simp) with h | h
        · exact absurd (h ▸ List.mem_cons_self) ha
        · exact absurd (h ▸ List.mem_cons_self) hb
    simp [this, dedup, ha]

/-- how a node combines the meanings of its operands -/
def comb (isAnd : Bool) (p q : Prop) : Prop := if isAnd then p ∧ q else p ∨ q

/-- what the induction over the planner's tree carries for a select `X` that returns the traces satisfying `P` -/
structure TraceSel (o : Oracles) (ao : AggOracles) (db : Db) (X : Sel) (P : Bytes → Prop) : Prop where
  rows : ∀ (extra : List Expr) (env : Env), TraceRows (evalSelG o ao db true env (X.addCols extra)) P
  withs : X.withs = [] ∨ ∃ a s, X.withs = [(a, s)]
  own : ∀ (extra : List Expr) (env : Env), evalSelG o ao db false (evalWithsG o ao db env X.withs) (X.addCols extra) =
      evalSelG o ao db true env (X.addCols extra)

def opRows (isAnd : Bool) (i : Nat) (T : Table) : Table :=
  T.flatMap (fun r => match r.get "span_id" with | .strs vs => vs.map (opRow isAnd i r) | _ => [])

theorem opRow_trace (isAnd : Bool) (i : Nat) (r : Row) (v : Bytes) : (opRow isAnd i r v).get "trace_id" = r.get "trace_id" := by
  simp [opRow, Row.get, List.lookup]
theorem opRow_span (isAnd : Bool) (i : Nat) (r : Row) (v : Bytes) : (opRow isAnd i r v).get "span_id" = .str v := by
  simp [opRow, Row.get, List.lookup]
theorem opRow_op (i : Nat) (r : Row) (v : Bytes) : (opRow true i r v).get "_op" = .int i := by
  simp [opRow, Row.get, List.lookup]

theorem opRows_sound (isAnd : Bool) (i : Nat) (T : Table) (P : Bytes → Prop) (h : TraceRows T P) (x : Row)
    (hx : x ∈ opRows isAnd i T) :
    ∃ tr v, x.get "trace_id" = .str tr ∧ P tr ∧ x.get "span_id" = .str v ∧ (isAnd = true → x.get "_op" = .int i) := by
  simp only [opRows, List.mem_flatMap] at hx
  obtain ⟨r, hr, hxr⟩ := hx
  obtain ⟨tr, vs, htr, hvs, _⟩ := h.shape r hr
  rw [hvs] at hxr
  obtain ⟨v, _, rfl⟩ := List.mem_map.mp hxr
  refine ⟨tr, v, by rw [opRow_trace, htr], (h.mem tr).mp ⟨r, hr, htr⟩, opRow_span _ _ _ _, ?_⟩
  intro hand; subst hand; exact opRow_op i r v

theorem opRows_complete (isAnd : Bool) (i : Nat) (T : Table) (P : Bytes → Prop) (h : TraceRows T P) (tr : Bytes)
    (hp : P tr) : ∃ x ∈ opRows isAnd i T, x.get "trace_id" = .str tr := by
  obtain ⟨r, hr, htr⟩ := (h.mem tr).mpr hp
  obtain ⟨tr', vs, _, hvs, hne⟩ := h.shape r hr
  obtain ⟨v, hv⟩ := List.exists_mem_of_ne_nil vs hne
  refine ⟨opRow isAnd i r v, ?_, by rw [opRow_trace, htr]⟩
  simp only [opRows, List.mem_flatMap]
  exact ⟨r, hr, by rw [hvs]; exact List.mem_map.mpr ⟨v, hv, rfl⟩⟩

theorem complexSel_addCols (isAnd : Bool) (pfx : String) (ops : List Sel) (extra : List Expr) :
    (complexSel isAnd pfx ops).addCols extra =
      .mk [] false ([simpleCol "trace_id" "trace_id", .col (.call "groupUniqArray(100)" [.raw "span_id"]) "span_id"] ++ extra)
        (some (.col (.setOp "UNION ALL" (operandSels isAnd 0 ops)) (pfx ++ "a"))) [] none none [.raw "trace_id"]
        (if isAnd then some (and_ [eq (.call "uniqExact" [.raw "_op"]) (.int ops.length)]) else none)
        [.orderBy (.call "max" [.raw "timestamp_ns"]) .desc] none := by
  simp [complexSel, Sel.addCols]

theorem op_nodot : '.' ∉ "_op".toList := by decide

/-- `HAVING uniqExact(_op) == 2` on a group -/
theorem havingG_uniq (o : Oracles) (ao : AggOracles) (env : Env) (g : List Row) :
    havingG o ao env g (some (and_ [eq (.call "uniqExact" [.raw "_op"]) (.int 2)])) =
      decide ((dedup (g.map (fun r => r.get "_op"))).length = 2) := by
  simp [havingG, bitSetOf, and_, eq, findBitSet, findBitSetL, evalHavG, evalHavAllG, havLeaf, evalE]
  rw [Bool.eq_iff_iff]
  simp only [beq_iff_eq, decide_eq_true_eq]
  omega

/-- **`&&` and `||` nodes**: the node returns the traces both operands return (`&&`), or either (`||`) -/
theorem complex_traceSel (o : Oracles) (ao : AggOracles) (db : Db) (isAnd : Bool) (pfx : String) (L R : Sel)
    (PL PR : Bytes → Prop) (hL : TraceSel o ao db L PL) (hR : TraceSel o ao db R PR) :
    TraceSel o ao db (complexSel isAnd pfx [L, R]) (fun tr => comb isAnd (PL tr) (PR tr)) := by
  refine ⟨?rows, Or.inl (by simp [complexSel, Sel.withs]), ?own⟩
  case own =>
    intro extra env
    rw [complexSel_addCols]
    simp only [complexSel, Sel.withs]
    rw [evalSelG_true]
  intro extra env
  rw [complexSel_addCols, evalSelG_grouped]
  simp only [if_true, evalWithsG]
  -- the rows the two operands contribute
  have hTL := hL.rows [maxCol] env
  have hTR := hR.rows [maxCol] env
  have h0 := operandSel_eval o ao db env isAnd 0 L hL.withs (hL.own [maxCol] env)
    (fun r hr => by obtain ⟨tr, vs, h1, h2, _⟩ := hTL.shape r hr; exact ⟨tr, vs, h1, h2⟩)
  have h1 := operandSel_eval o ao db env isAnd 1 R hR.withs (hR.own [maxCol] env)
    (fun r hr => by obtain ⟨tr, vs, h1, h2, _⟩ := hTR.shape r hr; exact ⟨tr, vs, h1, h2⟩)
  have hsrc : sourceRowsG o ao db env (.col (.setOp "UNION ALL" (operandSels isAnd 0 [L, R])) (pfx ++ "a")) =
      (opRows isAnd 0 (evalSelG o ao db true env (L.addCols [maxCol])) ++
        opRows isAnd 1 (evalSelG o ao db true env (R.addCols [maxCol]))).map (qualify (pfx ++ "a")) := by
    simp [sourceRowsG, operandSels, evalSelsG, setOpRows, h0, h1, opRows]
  have hG := groupsG_single o ao db env (.col (.setOp "UNION ALL" (operandSels isAnd 0 [L, R])) (pfx ++ "a")) (.raw "trace_id")
    (if isAnd then some (and_ [eq (.call "uniqExact" [.raw "_op"]) (.int ([L, R] : List Sel).length)]) else none)
    ([simpleCol "trace_id" "trace_id", .col (.call "groupUniqArray(100)" [.raw "span_id"]) "span_id"] ++ extra)
    [.orderBy (.call "max" [.raw "timestamp_ns"]) .desc]
  rw [hsrc] at hG
  generalize hTLe : evalSelG o ao db true env (L.addCols [maxCol]) = TL at hTL hG
  generalize hTRe : evalSelG o ao db true env (R.addCols [maxCol]) = TR at hTR hG
  generalize hFe : (opRows isAnd 0 TL ++ opRows isAnd 1 TR).map (qualify (pfx ++ "a")) = F at hG
  have hFmem : ∀ r ∈ F, ∃ x, r = qualify (pfx ++ "a") x ∧ (x ∈ opRows isAnd 0 TL ∨ x ∈ opRows isAnd 1 TR) := by
    intro r hr; rw [← hFe] at hr
    obtain ⟨x, hx, rfl⟩ := List.mem_map.mp hr
    exact ⟨x, rfl, List.mem_append.mp hx⟩
  have hget : ∀ (x : Row) (n : String), '.' ∉ n.toList → evalE o env (qualify (pfx ++ "a") x) (.raw n) = x.get n := by
    intro x n hn; simp [evalE, get_qualify_nodot _ _ _ hn]
  have hF : ∀ r ∈ F, ∃ tr sp, evalE o env r (.raw "trace_id") = .str tr ∧ evalE o env r (.raw "span_id") = .str sp := by
    intro r hr
    obtain ⟨x, rfl, hx⟩ := hFmem r hr
    rcases hx with hx | hx
    · obtain ⟨tr, v, h1, _, h3, _⟩ := opRows_sound isAnd 0 TL PL hTL x hx
      exact ⟨tr, v, by rw [hget _ _ tid_nodot, h1], by rw [hget _ _ sid_nodot, h3]⟩
    · obtain ⟨tr, v, h1, _, h3, _⟩ := opRows_sound isAnd 1 TR PR hTR x hx
      exact ⟨tr, v, by rw [hget _ _ tid_nodot, h1], by rw [hget _ _ sid_nodot, h3]⟩
  have hT := hG.map (projG o env ([simpleCol "trace_id" "trace_id", .col (.call "groupUniqArray(100)" [.raw "span_id"]) "span_id"] ++ extra))
  rw [List.map_map] at hT
  refine (traceRows_of_grouped o ao env F "groupUniqArray(100)" (Or.inr rfl) extra _ _ hF hT).congr ?_
  intro tr
  -- rows of this trace contributed by the left / right operand
  have hmemF : ∀ x, (x ∈ opRows isAnd 0 TL ∨ x ∈ opRows isAnd 1 TR) → qualify (pfx ++ "a") x ∈ F := by
    intro x hx; rw [← hFe]; exact List.mem_map.mpr ⟨x, List.mem_append.mpr hx, rfl⟩
  cases isAnd with
  | false =>
    simp only [comb, Bool.false_eq_true, if_false, havingG, and_true]
    constructor
    · rintro ⟨r, hr, htr⟩
      obtain ⟨x, rfl, hx⟩ := hFmem r hr
      rw [hget _ _ tid_nodot] at htr
      rcases hx with hx | hx
      · obtain ⟨tr', _, h1, hp, _, _⟩ := opRows_sound false 0 TL PL hTL x hx
        rw [h1] at htr; cases htr; exact Or.inl hp
      · obtain ⟨tr', _, h1, hp, _, _⟩ := opRows_sound false 1 TR PR hTR x hx
        rw [h1] at htr; cases htr; exact Or.inr hp
    · rintro (hp | hp)
      · obtain ⟨x, hx, hxt⟩ := opRows_complete false 0 TL PL hTL tr hp
        exact ⟨_, hmemF x (Or.inl hx), by rw [hget _ _ tid_nodot, hxt]⟩
      · obtain ⟨x, hx, hxt⟩ := opRows_complete false 1 TR PR hTR tr hp
        exact ⟨_, hmemF x (Or.inr hx), by rw [hget _ _ tid_nodot, hxt]⟩
  | true =>
    simp only [comb, if_true]
    have hlen : ((([L, R] : List Sel).length : Nat) : Int) = 2 := by simp
    rw [hlen, havingG_uniq]
    have hops : ∀ v ∈ (rowsWith o env F (.raw "trace_id") (.str tr)).map (fun r => r.get "_op"), v = .int 0 ∨ v = .int 1 := by
      intro v hv
      obtain ⟨r, hr, rfl⟩ := List.mem_map.mp hv
      obtain ⟨x, rfl, hx⟩ := hFmem r (List.mem_filter.mp hr).1
      rw [get_qualify_nodot _ _ _ op_nodot]
      rcases hx with hx | hx
      · obtain ⟨_, _, _, _, _, hop⟩ := opRows_sound true 0 TL PL hTL x hx
        exact Or.inl (by rw [hop rfl]; rfl)
      · obtain ⟨_, _, _, _, _, hop⟩ := opRows_sound true 1 TR PR hTR x hx
        exact Or.inr (by rw [hop rfl]; rfl)
    have hmemop : ∀ (n : Int), Val.int n ∈ (rowsWith o env F (.raw "trace_id") (.str tr)).map (fun r => r.get "_op") ↔
        ∃ x, (x ∈ opRows true 0 TL ∨ x ∈ opRows true 1 TR) ∧ x.get "trace_id" = .str tr ∧ x.get "_op" = .int n := by
      intro n
      simp only [List.mem_map, rowsWith, List.mem_filter, beq_iff_eq]
      constructor
      · rintro ⟨r, ⟨hr, htr⟩, hop⟩
        obtain ⟨x, rfl, hx⟩ := hFmem r hr
        rw [hget _ _ tid_nodot] at htr
        rw [get_qualify_nodot _ _ _ op_nodot] at hop
        exact ⟨x, hx, htr, hop⟩
      · rintro ⟨x, hx, htr, hop⟩
        exact ⟨_, ⟨hmemF x hx, by rw [hget _ _ tid_nodot, htr]⟩, by rw [get_qualify_nodot _ _ _ op_nodot, hop]⟩
    have h0 : Val.int 0 ∈ (rowsWith o env F (.raw "trace_id") (.str tr)).map (fun r => r.get "_op") ↔ PL tr := by
      rw [hmemop]
      constructor
      · rintro ⟨x, hx, htr, hop⟩
        rcases hx with hx | hx
        · obtain ⟨tr', _, h1, hp, _, _⟩ := opRows_sound true 0 TL PL hTL x hx
          rw [h1] at htr; cases htr; exact hp
        · obtain ⟨_, _, _, _, _, hop'⟩ := opRows_sound true 1 TR PR hTR x hx
          rw [hop' rfl] at hop; simp at hop
      · intro hp
        obtain ⟨x, hx, hxt⟩ := opRows_complete true 0 TL PL hTL tr hp
        obtain ⟨_, _, _, _, _, hop⟩ := opRows_sound true 0 TL PL hTL x hx
        exact ⟨x, Or.inl hx, hxt, by rw [hop rfl]; rfl⟩
    have h1' : Val.int 1 ∈ (rowsWith o env F (.raw "trace_id") (.str tr)).map (fun r => r.get "_op") ↔ PR tr := by
      rw [hmemop]
      constructor
      · rintro ⟨x, hx, htr, hop⟩
        rcases hx with hx | hx
        · obtain ⟨_, _, _, _, _, hop'⟩ := opRows_sound true 0 TL PL hTL x hx
          rw [hop' rfl] at hop; simp at hop
        · obtain ⟨tr', _, h1, hp, _, _⟩ := opRows_sound true 1 TR PR hTR x hx
          rw [h1] at htr; cases htr; exact hp
      · intro hp
        obtain ⟨x, hx, hxt⟩ := opRows_complete true 1 TR PR hTR tr hp
        obtain ⟨_, _, _, _, _, hop⟩ := opRows_sound true 1 TR PR hTR x hx
        exact ⟨x, Or.inr hx, hxt, by rw [hop rfl]; rfl⟩
    rw [decide_eq_true_eq, dedup_two (Val.int 0) (Val.int 1) (by simp) _ hops, h0, h1']
    constructor
    · exact fun h => h.2
    · intro h
      refine ⟨?_, h⟩
      obtain ⟨x, hx, hxt⟩ := opRows_complete true 0 TL PL hTL tr h.1
      exact ⟨_, hmemF x (Or.inl hx), by rw [hget _ _ tid_nodot, hxt]⟩

end Qryn.TraceQL
