import Qryn.TraceQL.SameShape
import Qryn.Proofs.SameShapeMetric
import Qryn.Proofs.PlanClosedTraceQL
/-! C10, two TraceQL requests of the same shape (`sameShapeT`: equal skeletons): the statements `plan`, `planTags`,
    `planValues` build for them agree up to the contents of string leaves (`shapeS X1 = shapeS X2`), hence have equal emptied
    segment lists; and the planner accepts the one iff it accepts the other (with the same error).
    Route: `Except.map shapeS (plan c s1) = Except.map shapeS (plan c s2)` through every builder. -/
namespace Qryn.TraceQL
open Qryn Qryn.Sql
open Qryn.LogQL (shapeS_with1 shapeS_with2 shapeS_setLimit')

/-! ### `Except` plumbing -/

theorem map_bind_congr {ε α β α' β' : Type} {f : α → α'} {f' : β → β'} {x y : Except ε α} {g g' : α → Except ε β}
    (h : Except.map f x = Except.map f y) (hg : ∀ a b, f a = f b → Except.map f' (g a) = Except.map f' (g' b)) :
    Except.map f' (x >>= g) = Except.map f' (y >>= g') := by
  cases x with
  | error e =>
    cases y with
    | error e' => simp only [Except.map, Except.error.injEq] at h; subst h; rfl
    | ok b => simp [Except.map] at h
  | ok a =>
    cases y with
    | error e' => simp [Except.map] at h
    | ok b =>
      simp only [Except.map, Except.ok.injEq] at h
      exact hg a b h

theorem ok_bind' {ε α β : Type} (a : α) (f : α → Except ε β) : (Except.ok a >>= f) = f a := rfl

theorem map_eq_cases {ε α α' : Type} {f : α → α'} {x y : Except ε α} (h : Except.map f x = Except.map f y) :
    (∃ e, x = .error e ∧ y = .error e) ∨ (∃ a b, x = .ok a ∧ y = .ok b ∧ f a = f b) := by
  cases x with
  | error e =>
    cases y with
    | error e' => simp only [Except.map, Except.error.injEq] at h; subst h; exact Or.inl ⟨e, rfl, rfl⟩
    | ok b => simp [Except.map] at h
  | ok a =>
    cases y with
    | error e' => simp [Except.map] at h
    | ok b => simp only [Except.map, Except.ok.injEq] at h; exact Or.inr ⟨a, b, rfl, rfl, h⟩

theorem map_ok_inj {ε α α' : Type} {f : α → α'} {x y : Except ε α} {a b : α}
    (h : Except.map f x = Except.map f y) (hx : x = .ok a) (hy : y = .ok b) : f a = f b := by
  subst hx; subst hy
  simpa [Except.map] using h

theorem map_isOk {ε α α' : Type} {f : α → α'} {x y : Except ε α}
    (h : Except.map f x = Except.map f y) : x.isOk = y.isOk := by
  cases x <;> cases y <;> simp [Except.map] at h <;> rfl

/-! ### terms -/

theorem shapeE_keyIs (k : String) : shapeE (keyIs k) = eq (.raw "key") (.str []) := by
  simp [keyIs, eq, shapeE, shapeEs]

/-- `getTerm` once the key is known -/
def withKey (t : Term) (key : String) : PlanM Expr :=
  match t.val with
  | .str _ _ => termStr t key
  | .num n => termNum t key n
  | .dur _ _ => throw "unsupported statement"

theorem termSql_eq (t : Term) : termSql t =
    match attrKey t.label with
    | some k => withKey t k
    | none => if t.label = "duration" then termDuration t else if t.label = "name" then withKey t "name"
      else throw "unsupported attribute" := rfl

theorem withKey_class (t1 t2 : Term) (k1 k2 : String) (hop : t1.op = t2.op) (hv : valClass t1.val = valClass t2.val) :
    Except.map shapeE (withKey t1 k1) = Except.map shapeE (withKey t2 k2) := by
  obtain ⟨l1, op1, v1⟩ := t1
  obtain ⟨l2, op2, v2⟩ := t2
  simp only at hop hv
  subst hop
  cases v1 with
  | dur n u =>
    cases v2 with
    | dur n' u' => rfl
    | num n' => simp [valClass] at hv
    | str r' q' => simp [valClass] at hv
  | num n =>
    cases v2 with
    | dur n' u' => simp [valClass] at hv
    | num n' =>
      simp only [valClass, ValClass.num.injEq] at hv
      subst hv
      simp only [withKey, termNum]
      cases cmpSql op1 with
      | none => rfl
      | some fn => simp [Except.map, pure, Except.pure, and_, eq, shapeE, shapeEs, keyIs]
    | str r' q' => simp [valClass] at hv
  | str r q =>
    cases v2 with
    | dur n' u' => simp [valClass] at hv
    | num n' => simp [valClass] at hv
    | str r' q' =>
      simp only [valClass, ValClass.str.injEq] at hv
      cases q with
      | none =>
        cases q' with
        | none => simp [withKey, termStr, getString, bind, Except.bind, Except.map, throw, throwThe, MonadExceptOf.throw]
        | some u' => simp at hv
      | some u =>
        cases q' with
        | none => simp at hv
        | some u' =>
          cases op1 <;>
            simp [withKey, termStr, getString, bind, Except.bind, Except.map, pure, Except.pure, throw, throwThe,
              MonadExceptOf.throw, and_, eq, neq, shapeE, shapeEs, keyIs]

theorem termDuration_class (t1 t2 : Term) (hop : t1.op = t2.op) (hv : valClass t1.val = valClass t2.val) :
    termDuration t1 = termDuration t2 := by
  obtain ⟨l1, op1, v1⟩ := t1
  obtain ⟨l2, op2, v2⟩ := t2
  simp only at hop hv
  subst hop
  cases v1 <;> cases v2 <;> simp [valClass] at hv <;> try rfl
  obtain ⟨h1, h2⟩ := hv
  subst h1; subst h2; rfl

theorem termSql_class (t1 t2 : Term) (h : termClass t1 = termClass t2) :
    Except.map shapeE (termSql t1) = Except.map shapeE (termSql t2) := by
  simp only [termClass, TermClass.mk.injEq] at h
  obtain ⟨hl, hop, hv⟩ := h
  rw [termSql_eq, termSql_eq]
  unfold labelClass at hl
  cases hk1 : attrKey t1.label with
  | some k1 =>
    cases hk2 : attrKey t2.label with
    | some k2 => exact withKey_class t1 t2 k1 k2 hop hv
    | none => simp only [hk1, hk2] at hl; split at hl <;> (try split at hl) <;> simp at hl
  | none =>
    cases hk2 : attrKey t2.label with
    | some k2 => simp only [hk1, hk2] at hl; split at hl <;> (try split at hl) <;> simp at hl
    | none =>
      simp only [hk1, hk2] at hl
      by_cases d1 : t1.label = "duration"
      · by_cases d2 : t2.label = "duration"
        · simp only [d1, d2, if_true]; rw [termDuration_class t1 t2 hop hv]
        · exfalso; simp only [d1, d2, if_true, if_false] at hl; split at hl <;> simp at hl
      · by_cases d2 : t2.label = "duration"
        · exfalso; simp only [d1, d2, if_true, if_false] at hl; split at hl <;> simp at hl
        · simp only [d1, d2, if_false] at hl ⊢
          by_cases n1 : t1.label = "name"
          · by_cases n2 : t2.label = "name"
            · simp only [n1, n2, if_true]; exact withKey_class t1 t2 _ _ hop hv
            · simp [n1, n2] at hl
          · by_cases n2 : t2.label = "name"
            · simp [n1, n2] at hl
            · simp only [n1, n2, if_false]

/-! ### the condition select -/

theorem mapOk_class : ∀ (ts1 ts2 : List Term), ts1.map termClass = ts2.map termClass →
    Except.map shapeEs (mapOk termSql ts1) = Except.map shapeEs (mapOk termSql ts2)
  | [], [], _ => rfl
  | [], _ :: _, h => by simp at h
  | _ :: _, [], h => by simp at h
  | t1 :: r1, t2 :: r2, h => by
    simp only [List.map_cons, List.cons.injEq] at h
    have ht := termSql_class t1 t2 h.1
    have ih := mapOk_class r1 r2 h.2
    simp only [mapOk]
    cases h1 : termSql t1 with
    | error e =>
      cases h2 : termSql t2 with
      | error e' => rw [h1, h2] at ht; simpa [Except.map] using ht
      | ok y => rw [h1, h2] at ht; simp [Except.map] at ht
    | ok x =>
      cases h2 : termSql t2 with
      | error e' => rw [h1, h2] at ht; simp [Except.map] at ht
      | ok y =>
        rw [h1, h2] at ht
        simp only [Except.map, Except.ok.injEq] at ht
        cases h3 : mapOk termSql r1 with
        | error e =>
          cases h4 : mapOk termSql r2 with
          | error e' => rw [h3, h4] at ih; simpa [Except.map] using ih
          | ok ys => rw [h3, h4] at ih; simp [Except.map] at ih
        | ok xs =>
          cases h4 : mapOk termSql r2 with
          | error e' => rw [h3, h4] at ih; simp [Except.map] at ih
          | ok ys =>
            rw [h3, h4] at ih
            simp only [Except.map, Except.ok.injEq] at ih
            simp [Except.map, shapeEs, ht, ih]

theorem shapeE_condSql (terms : List Expr) : ∀ (cond : Cond) (aliased : Bool),
    shapeE (condSql terms aliased cond).1 = (condSql (shapeEs terms) aliased cond).1 ∧
      (condSql terms aliased cond).2 = (condSql (shapeEs terms) aliased cond).2
  | .leaf i, aliased => by
    cases aliased <;> simp [condSql, neq, shapeE, shapeEs]
  | .node op l r, aliased => by
    obtain ⟨hl1, hl2⟩ := shapeE_condSql terms l aliased
    obtain ⟨hr1, hr2⟩ := shapeE_condSql terms r (condSql terms aliased l).2
    simp only [condSql]
    rw [← hl1, ← hl2, ← hr1, ← hr2]
    cases op <;> simp [and_, or_, shapeE, shapeEs]

theorem shapeS_addCols (s : Sel) (cs : List Expr) : shapeS (s.addCols cs) = (shapeS s).addCols (shapeEs cs) := by
  cases s; simp [Sel.addCols, shapeS, shapeEs_append]

theorem shapeEs_aggCol (a1 a2 : String) (h : aggAttrClass a1 = aggAttrClass a2) : shapeEs (aggCol a1) = shapeEs (aggCol a2) := by
  unfold aggAttrClass at h
  unfold aggCol
  by_cases e1 : a1 = "" <;> by_cases e2 : a2 = "" <;> by_cases d1 : a1 = "duration" <;> by_cases d2 : a2 = "duration" <;>
    simp [e1, e2, d1, d2] at h ⊢ <;> simp [shapeEs, shapeE]

theorem shapeEs_aggWhere (a1 a2 : String) (h : aggAttrClass a1 = aggAttrClass a2) : shapeEs (aggWhere a1) = shapeEs (aggWhere a2) := by
  unfold aggAttrClass at h
  unfold aggWhere
  by_cases e1 : a1 = "" <;> by_cases e2 : a2 = "" <;> by_cases d1 : a1 = "duration" <;> by_cases d2 : a2 = "duration" <;>
    simp [e1, e2, d1, d2] at h ⊢ <;> simp [shapeEs, shapeE_keyIs]

theorem attrConditionCore_class (c : Ctx) (ts1 ts2 : List Term) (cond : Cond) (a1 a2 : String)
    (ht : ts1.map termClass = ts2.map termClass) (ha : aggAttrClass a1 = aggAttrClass a2) :
    Except.map shapeS (attrConditionCore c ts1 cond a1) = Except.map shapeS (attrConditionCore c ts2 cond a2) := by
  unfold attrConditionCore
  refine map_bind_congr (mapOk_class ts1 ts2 ht) ?_
  intro q1 q2 hq
  simp only [pure, Except.pure, Except.map, Except.ok.injEq]
  have hres : shapeS ((((initIndex c).addCols (aggCol a1)).andWhere [or_ (q1 ++ aggWhere a1)]).andHaving [(condSql q1 false cond).1]) =
      shapeS ((((initIndex c).addCols (aggCol a2)).andWhere [or_ (q2 ++ aggWhere a2)]).andHaving [(condSql q2 false cond).1]) := by
    simp only [shapeS_andHaving, shapeS_andWhere, shapeS_addCols, shapeEs, or_, shapeE, shapeEs_append,
      (shapeE_condSql _ cond false).1, hq, shapeEs_aggCol a1 a2 ha, shapeEs_aggWhere a1 a2 ha]
  cases randomFilter c with
  | nil => exact hres
  | cons f fs => simp only [shapeS_andWhere, hres]

theorem attrCondition_class (c : Ctx) (ts1 ts2 : List Term) (cond : Cond) (a1 a2 : String)
    (ht : ts1.map termClass = ts2.map termClass) (ha : aggAttrClass a1 = aggAttrClass a2) :
    Except.map shapeS (attrCondition c ts1 cond a1) = Except.map shapeS (attrCondition c ts2 cond a2) := by
  have hlen : ts1.length = ts2.length := by simpa using congrArg List.length ht
  unfold attrCondition
  rw [hlen]
  split
  · rfl
  · exact attrConditionCore_class c ts1 ts2 cond a1 a2 ht ha

/-! ### the aggregator, `check`, one selector -/

theorem aggCmpText_class (a1 a2 : Agg) (h : aggClass a1 = aggClass a2) : aggCmpText a1 = aggCmpText a2 := by
  simp only [aggClass, AggClass.mk.injEq] at h
  obtain ⟨_, hattr, _, hnum, hunit⟩ := h
  unfold aggAttrClass at hattr
  unfold aggCmpText
  rw [hnum, hunit]
  by_cases e1 : a1.attr = "" <;> by_cases e2 : a2.attr = "" <;> by_cases d1 : a1.attr = "duration" <;>
    by_cases d2 : a2.attr = "duration" <;> simp [e1, e2, d1, d2] at hattr ⊢

theorem aggregator_class (pfx : String) (a1 a2 : Agg) (m1 m2 : Sel) (h : aggClass a1 = aggClass a2) (hm : shapeS m1 = shapeS m2) :
    Except.map shapeS (aggregator pfx a1 m1) = Except.map shapeS (aggregator pfx a2 m2) := by
  have hc := aggCmpText_class a1 a2 h
  simp only [aggClass, AggClass.mk.injEq] at h
  obtain ⟨hfn, _, hcmp, _, _⟩ := h
  unfold aggregator
  rw [hc, hfn, hcmp]
  cases cmpSql a2.cmp with
  | none => rfl
  | some fn =>
    cases aggCmpText a2 with
    | error e => rfl
    | ok v =>
      simp only [bind, Except.bind, pure, Except.pure, Except.map, shapeS_andHaving, hm]

theorem any_attrs_skel (t : Script) : (skelT t).any (fun p => p.1.attrs.isNone) = t.any (fun p => p.1.attrs.isNone) := by
  simp only [skelT, List.any_map]
  congr 1
  funext p
  cases h : p.1.attrs <;> simp [Selector.skel, h]

theorem check_class : ∀ (s1 s2 : Script), skelT s1 = skelT s2 → check s1 = check s2
  | [], [], _ => rfl
  | [], _ :: _, h => by simp [skelT] at h
  | _ :: _, [], h => by simp [skelT] at h
  | (x1, o1) :: t1, (x2, o2) :: t2, h => by
    have ht : skelT t1 = skelT t2 := by simp only [skelT, List.map_cons, List.cons.injEq] at h ⊢; exact h.2
    have hx : x1.skel = x2.skel := by simp only [skelT, List.map_cons, List.cons.injEq, Prod.mk.injEq] at h; exact h.1.1
    have hany := any_attrs_skel t1
    rw [ht, any_attrs_skel t2] at hany
    have hemp : t1.isEmpty = t2.isEmpty := by
      have := congrArg List.isEmpty ht
      simpa [skelT] using this
    simp only [Selector.skel, SelSkel.mk.injEq] at hx
    obtain ⟨hattrs, hagg⟩ := hx
    have hnone : x1.attrs.isNone = x2.attrs.isNone := by
      have := congrArg Option.isNone hattrs
      simpa using this
    have hany' : (t1.any fun p => p.1.attrs.isNone) = (t2.any fun p => p.1.attrs.isNone) := hany.symm
    cases h1 : x1.agg with
    | none =>
      cases h2 : x2.agg with
      | none => simp only [check, h1, h2, hnone, hemp, hany']
      | some a2 => simp [h1, h2] at hagg
    | some a1 =>
      cases h2 : x2.agg with
      | none => simp [h1, h2] at hagg
      | some a2 =>
        simp only [h1, h2, Option.map_some, Option.some.injEq, aggClass, AggClass.mk.injEq] at hagg
        obtain ⟨hfn, hattr, _⟩ := hagg
        have he : (a1.attr = "") = (a2.attr = "") := by
          unfold aggAttrClass at hattr
          by_cases e1 : a1.attr = "" <;> by_cases e2 : a2.attr = "" <;> by_cases d1 : a1.attr = "duration" <;>
            by_cases d2 : a2.attr = "duration" <;> simp [e1, e2, d1, d2] at hattr ⊢
        simp only [check, h1, h2, hfn, he, hnone, hemp, hany', Option.isSome_some]

theorem shapeS_indexGroupBy (pfx : String) (m1 m2 : Sel) (h : shapeS m1 = shapeS m2) :
    shapeS (indexGroupBy pfx m1) = shapeS (indexGroupBy pfx m2) := by
  simp only [indexGroupBy, shapeS_with1, h]

theorem aggAttr_class (g1 g2 : Option Agg) : g1.map aggClass = g2.map aggClass →
    aggAttrClass (match g1 with | some a => a.attr | none => "") = aggAttrClass (match g2 with | some a => a.attr | none => "") := by
  intro h
  cases g1 <;> cases g2 <;> simp [aggClass] at h ⊢
  exact h.2.1

theorem simpleSel_class (c : Ctx) (pfx : String) : ∀ (s1 s2 : Script), skelT s1 = skelT s2 →
    Except.map shapeS (simpleSel c pfx s1) = Except.map shapeS (simpleSel c pfx s2)
  | [], [], _ => rfl
  | [], _ :: _, h => by simp [skelT] at h
  | _ :: _, [], h => by simp [skelT] at h
  | (x1, o1) :: t1, (x2, o2) :: t2, h => by
    have hchk := check_class _ _ h
    have hx : x1.skel = x2.skel := by simp only [skelT, List.map_cons, List.cons.injEq, Prod.mk.injEq] at h; exact h.1.1
    simp only [Selector.skel, SelSkel.mk.injEq] at hx
    obtain ⟨hattrs, hagg⟩ := hx
    unfold simpleSel
    rw [hchk]
    cases check ((x2, o2) :: t2) with
    | error e => rfl
    | ok u =>
      have hjp : ∀ m1 m2, shapeS m1 = shapeS m2 →
          Except.map shapeS (match x1.agg with
            | some a => aggregator pfx a (indexGroupBy pfx m1)
            | none => pure (indexGroupBy pfx m1)) =
          Except.map shapeS (match x2.agg with
            | some a => aggregator pfx a (indexGroupBy pfx m2)
            | none => pure (indexGroupBy pfx m2)) := by
        intro m1 m2 hm
        have hg := shapeS_indexGroupBy pfx m1 m2 hm
        cases h1 : x1.agg with
        | none =>
          cases h2 : x2.agg with
          | none => simp only [pure, Except.pure, Except.map, hg]
          | some a2 => simp [h1, h2] at hagg
        | some a1 =>
          cases h2 : x2.agg with
          | none => simp [h1, h2] at hagg
          | some a2 =>
            simp only [h1, h2, Option.map_some, Option.some.injEq] at hagg
            exact aggregator_class pfx a1 a2 _ _ hagg hg
      cases h1 : x1.attrs with
      | none =>
        cases h2 : x2.attrs with
        | none =>
          simp only [ok_bind', pure, Except.pure, h1, h2]
          exact hjp _ _ rfl
        | some e2 => simp [h1, h2] at hattrs
      | some e1 =>
        cases h2 : x2.attrs with
        | none => simp [h1, h2] at hattrs
        | some e2 =>
          simp only [h1, h2, Option.map_some, Option.some.injEq, attrsSkel, Prod.mk.injEq] at hattrs
          cases hA1 : analyzeCond [] e1 with
          | mk ts1 c1 =>
            cases hA2 : analyzeCond [] e2 with
            | mk ts2 c2 =>
              simp only [hA1, hA2] at hattrs
              obtain ⟨hts, hc⟩ := hattrs
              subst hc
              simp only [ok_bind', h1, h2, hA1, hA2]
              refine map_bind_congr (f := shapeS) (attrCondition_class c ts1 ts2 c1 _ _ hts (aggAttr_class _ _ hagg)) ?_
              intro m1 m2 hm
              exact hjp m1 m2 hm

/-! ### chains of selectors: the tree of `planComplex` -/

theorem shapeS_operandSel (isAnd : Bool) (i : Nat) (s1 s2 : Sel) (h : shapeS s1 = shapeS s2) :
    shapeS (operandSel isAnd i s1) = shapeS (operandSel isAnd i s2) := by
  simp only [operandSel, shapeS_with1, shapeS_addCols, h]

theorem shapeS_complexSel (isAnd : Bool) (pfx : String) (l1 r1 l2 r2 : Sel) (hl : shapeS l1 = shapeS l2) (hr : shapeS r1 = shapeS r2) :
    shapeS (complexSel isAnd pfx [l1, r1]) = shapeS (complexSel isAnd pfx [l2, r2]) := by
  have e1 := shapeS_operandSel isAnd 0 l1 l2 hl
  have e2 := shapeS_operandSel isAnd (0 + 1) r1 r2 hr
  simp only [complexSel, operandSels, shapeS, shapeO, shapeE, shapeSs, e1, e2, List.length_cons, List.length_nil]

/-- trees of the same shape: the same nodes and prefixes, selectors (with what follows them) of the same skeleton -/
inductive XSim : XTree → XTree → Prop
  | simple (s1 s2 : Script) (k : Nat) : skelT s1 = skelT s2 → XSim (.simple s1 k) (.simple s2 k)
  | complex (isAnd : Bool) (k : Nat) (l1 r1 l2 r2 : XTree) : XSim l1 l2 → XSim r1 r2 →
      XSim (.complex isAnd k l1 r1) (.complex isAnd k l2 r2)

theorem treeSel_sim (c : Ctx) (t1 t2 : XTree) (h : XSim t1 t2) :
    Except.map shapeS (treeSel c t1) = Except.map shapeS (treeSel c t2) := by
  induction h with
  | simple s1 s2 k h => exact simpleSel_class c (pfxText k) s1 s2 h
  | complex isAnd k l1 r1 l2 r2 _ _ ihl ihr =>
    simp only [treeSel]
    refine map_bind_congr (f := shapeS) ihl ?_
    intro a b hab
    refine map_bind_congr (f := shapeS) ihr ?_
    intro a' b' hab'
    simp only [pure, Except.pure, Except.map, shapeS_complexSel isAnd (pfxText k) a a' b b' hab hab']

def skelG (gs : List (List Script)) : List (List (List (SelSkel × ScriptOp))) := gs.map (fun g => g.map skelT)

theorem groupsS_class : ∀ (s1 s2 : Script), skelT s1 = skelT s2 → Except.map skelG (groupsS s1) = Except.map skelG (groupsS s2)
  | [], [], _ => rfl
  | [], _ :: _, h => by simp [skelT] at h
  | _ :: _, [], h => by simp [skelT] at h
  | (x1, o1) :: t1, (x2, o2) :: t2, h => by
    have ht : skelT t1 = skelT t2 := by simp only [skelT, List.map_cons, List.cons.injEq] at h ⊢; exact h.2
    have ho : o1 = o2 := by simp only [skelT, List.map_cons, List.cons.injEq, Prod.mk.injEq] at h; exact h.1.2
    have ih := groupsS_class t1 t2 ht
    subst ho
    cases o1 with
    | none => simp only [groupsS, pure, Except.pure, Except.map, skelG, List.map_cons, List.map_nil, h]
    | or =>
      simp only [groupsS]
      refine map_bind_congr (f := skelG) ih ?_
      intro g1 g2 hg
      simp only [skelG] at hg
      simp only [pure, Except.pure, Except.map, skelG, List.map_cons, List.map_nil, h, hg]
    | and =>
      simp only [groupsS]
      refine map_bind_congr (f := skelG) ih ?_
      intro g1 g2 hg
      simp only [skelG] at hg
      cases g1 with
      | nil =>
        cases g2 with
        | nil => rfl
        | cons b bs => simp at hg
      | cons a as =>
        cases g2 with
        | nil => simp at hg
        | cons b bs =>
          simp only [List.map_cons, List.cons.injEq] at hg
          simp only [pure, Except.pure, Except.map, skelG, List.map_cons, h, hg.1, hg.2]

theorem andNest_sim : ∀ (g1 g2 : List Script) (k : Nat), g1.map skelT = g2.map skelT →
    XSim (andNest k g1).1 (andNest k g2).1 ∧ (andNest k g1).2 = (andNest k g2).2
  | [], [], k, _ => ⟨XSim.simple _ _ _ rfl, rfl⟩
  | [a], [b], k, h => by
    simp only [List.map_cons, List.map_nil, List.cons.injEq, and_true] at h
    exact ⟨XSim.simple _ _ _ h, rfl⟩
  | a :: a' :: r, b :: b' :: r', k, h => by
    have h' : (a' :: r).map skelT = (b' :: r').map skelT := by
      simp only [List.map_cons, List.cons.injEq] at h ⊢; exact h.2
    have ha : skelT a = skelT b := by simp only [List.map_cons, List.cons.injEq] at h; exact h.1
    obtain ⟨ih1, ih2⟩ := andNest_sim (a' :: r) (b' :: r') (k + 2) h'
    simp only [andNest]
    exact ⟨XSim.complex _ _ _ _ _ _ (XSim.simple _ _ _ ha) ih1, ih2⟩
  | [], _ :: _, _, h => by simp at h
  | _ :: _, [], _, h => by simp at h
  | [_], _ :: _ :: _, _, h => by simp at h
  | _ :: _ :: _, [_], _, h => by simp at h

def LeftSim : Option (Nat × XTree) → Option (Nat × XTree) → Prop
  | none, none => True
  | some (p, l), some (p', l') => p = p' ∧ XSim l l'
  | _, _ => False

def curOf (left : Option (Nat × XTree)) (t : XTree) : XTree :=
  match left with | none => t | some (p, l) => .complex false p l t

theorem orFold_one (k : Nat) (left : Option (Nat × XTree)) (g : List Script) :
    orFold k left [g] = curOf left (andNest k g).1 := rfl

theorem orFold_more (k : Nat) (left : Option (Nat × XTree)) (g a : List Script) (as : List (List Script)) :
    orFold k left (g :: a :: as) =
      orFold ((andNest k g).2 + 1) (some ((andNest k g).2 + 1, curOf left (andNest k g).1)) (a :: as) := rfl

theorem cur_sim (left1 left2 : Option (Nat × XTree)) (t1 t2 : XTree) (ht : XSim t1 t2) (hl : LeftSim left1 left2) :
    XSim (curOf left1 t1) (curOf left2 t2) := by
  cases left1 with
  | none =>
    cases left2 with
    | none => exact ht
    | some q => exact hl.elim
  | some q1 =>
    cases left2 with
    | none => obtain ⟨p, l⟩ := q1; exact hl.elim
    | some q2 =>
      obtain ⟨p, l⟩ := q1
      obtain ⟨p', l'⟩ := q2
      obtain ⟨hp, hll⟩ := hl
      subst hp
      exact XSim.complex _ _ _ _ _ _ hll ht

theorem orFold_sim : ∀ (gs1 gs2 : List (List Script)) (k : Nat) (left1 left2 : Option (Nat × XTree)),
    skelG gs1 = skelG gs2 → LeftSim left1 left2 → XSim (orFold k left1 gs1) (orFold k left2 gs2)
  | [], [], _, _, _, _, _ => XSim.simple _ _ _ rfl
  | [], _ :: _, _, _, _, h, _ => by simp [skelG] at h
  | _ :: _, [], _, _, _, h, _ => by simp [skelG] at h
  | g1 :: r1, g2 :: r2, k, left1, left2, h, hl => by
    simp only [skelG, List.map_cons, List.cons.injEq] at h
    obtain ⟨hg, hr⟩ := h
    obtain ⟨hn1, hn2⟩ := andNest_sim g1 g2 k hg
    have hcur := cur_sim left1 left2 _ _ hn1 hl
    cases r1 with
    | nil =>
      cases r2 with
      | nil => rw [orFold_one, orFold_one]; exact hcur
      | cons b bs => simp at hr
    | cons a as =>
      cases r2 with
      | nil => simp at hr
      | cons b bs =>
        rw [orFold_more, orFold_more, hn2]
        exact orFold_sim (a :: as) (b :: bs) _ _ _ (by simpa [skelG] using hr)
          (show _ = _ ∧ XSim (curOf left1 _) (curOf left2 _) from ⟨rfl, hcur⟩)

/-! ### the whole statements -/

theorem rootSel_class (c : Ctx) : ∀ (s1 s2 : Script), skelT s1 = skelT s2 →
    Except.map shapeS (rootSel c s1) = Except.map shapeS (rootSel c s2)
  | [], [], _ => rfl
  | [a], [b], h => simpleSel_class c "" [a] [b] h
  | a :: a' :: r, b :: b' :: r', h => by
    simp only [rootSel, planTree]
    rcases map_eq_cases (groupsS_class _ _ h) with ⟨e, h1, h2⟩ | ⟨g1, g2, h1, h2, hg⟩
    · rw [h1, h2]
    · rw [h1, h2]
      exact treeSel_sim c _ _ (orFold_sim g1 g2 0 none none hg trivial)
  | [], _ :: _, h => by simp [skelT] at h
  | _ :: _, [], h => by simp [skelT] at h
  | [_], _ :: _ :: _, h => by simp [skelT] at h
  | _ :: _ :: _, [_], h => by simp [skelT] at h

theorem shapeS_indexLimit (c : Ctx) (m1 m2 : Sel) (h : shapeS m1 = shapeS m2) : shapeS (indexLimit c m1) = shapeS (indexLimit c m2) := by
  unfold indexLimit
  split
  · exact h
  · rw [shapeS_setLimit', shapeS_setLimit', h]

theorem shapeS_tracesData (c : Ctx) (m1 m2 : Sel) (h : shapeS m1 = shapeS m2) : shapeS (tracesData c m1) = shapeS (tracesData c m2) := by
  simp only [tracesData, shapeS_with_, shapeWs, h]

/-- **the TraceQL planner looks at a script only through its skeleton**, up to the contents of string leaves: the same
    error, or statements of the same shape -/
theorem plan_class (c : Ctx) (s1 s2 : Script) (h : sameShapeT s1 s2) :
    Except.map shapeS (plan c s1) = Except.map shapeS (plan c s2) := by
  unfold plan indexGrouped
  rcases map_eq_cases (rootSel_class c s1 s2 h) with ⟨e, h1, h2⟩ | ⟨m1, m2, h1, h2, hm⟩
  · rw [h1, h2]
  · rw [h1, h2]
    simp only [bind, Except.bind, pure, Except.pure, Except.map, Except.ok.injEq]
    exact shapeS_indexLimit c _ _ (shapeS_tracesData c _ _ (shapeS_indexLimit c _ _ hm))

theorem tagsMain_class (c : Ctx) : ∀ (s1 s2 : Script), skelT s1 = skelT s2 →
    Except.map (Option.map shapeS) (tagsMain c s1) = Except.map (Option.map shapeS) (tagsMain c s2)
  | [], [], _ => rfl
  | _ :: _ :: _, _ :: _ :: _, _ => rfl
  | [(x1, o1)], [(x2, o2)], h => by
    have hchk := check_class _ _ h
    have hx : x1.skel = x2.skel := by simp only [skelT, List.map_cons, List.cons.injEq, Prod.mk.injEq] at h; exact h.1.1
    simp only [Selector.skel, SelSkel.mk.injEq] at hx
    obtain ⟨hattrs, hagg⟩ := hx
    unfold tagsMain
    simp only
    rw [hchk]
    cases check [(x2, o2)] with
    | error e => rfl
    | ok u =>
      cases h1 : x1.attrs with
      | none =>
        cases h2 : x2.attrs with
        | none => simp only [ok_bind']
        | some e2 => simp [h1, h2] at hattrs
      | some e1 =>
        cases h2 : x2.attrs with
        | none => simp [h1, h2] at hattrs
        | some e2 =>
          simp only [h1, h2, Option.map_some, Option.some.injEq, attrsSkel, Prod.mk.injEq] at hattrs
          obtain ⟨hts, hc⟩ := hattrs
          simp only [ok_bind']
          rw [hc]
          refine map_bind_congr (f := shapeS) (attrCondition_class c _ _ _ _ _ hts (aggAttr_class _ _ hagg)) ?_
          intro m1 m2 hm
          simp only [pure, Except.pure, Except.map, Option.map_some, hm]
  | [], _ :: _, h => by simp [skelT] at h
  | _ :: _, [], h => by simp [skelT] at h
  | [_], _ :: _ :: _, h => by simp [skelT] at h
  | _ :: _ :: _, [_], h => by simp [skelT] at h

theorem shapeS_selectTags (c : Ctx) (col : String) (m1 m2 : Sel) (h : shapeS m1 = shapeS m2) :
    shapeS (selectTags c col m1) = shapeS (selectTags c col m2) := by
  simp only [selectTags, shapeS_with_, shapeWs, h]

theorem shapeS_tagsOrder (c : Ctx) (col : String) (m1 m2 : Sel) (h : shapeS m1 = shapeS m2) :
    shapeS (tagsOrder c col m1) = shapeS (tagsOrder c col m2) := by
  unfold tagsOrder
  split
  · rw [shapeS_setLimit', shapeS_setLimit', shapeS_setOrderBy, shapeS_setOrderBy, h]
  · exact h

theorem shapeS_setGroupBy (s : Sel) (g : List Expr) : shapeS (s.setGroupBy g) = (shapeS s).setGroupBy (shapeEs g) := by
  cases s; simp [Sel.setGroupBy, shapeS]

theorem planTags_class (c : Ctx) (kv : String) (s1 s2 : Script) (h : sameShapeT s1 s2) :
    Except.map shapeS (planTags c kv s1) = Except.map shapeS (planTags c kv s2) := by
  unfold planTags
  refine map_bind_congr (f := Option.map shapeS) (tagsMain_class c s1 s2 h) ?_
  intro a b hab
  cases a with
  | none =>
    cases b with
    | none => rfl
    | some m2 => simp at hab
  | some m1 =>
    cases b with
    | none => simp at hab
    | some m2 =>
      simp only [Option.map_some, Option.some.injEq] at hab
      simp only [pure, Except.pure, Except.map, shapeS_tagsOrder c "key" _ _ (shapeS_selectTags c "key" m1 m2 hab)]

/-- the requested tag of a values request is a string leaf: ANY two keys -/
theorem planValues_class (c : Ctx) (kv : String) (key1 key2 : Bytes) (s1 s2 : Script) (h : sameShapeT s1 s2) :
    Except.map shapeS (planValues c kv key1 s1) = Except.map shapeS (planValues c kv key2 s2) := by
  unfold planValues
  refine map_bind_congr (f := Option.map shapeS) (tagsMain_class c s1 s2 h) ?_
  intro a b hab
  cases a with
  | none =>
    cases b with
    | none => simp [pure, Except.pure, Except.map, allValues, shapeS, shapeO, shapeE, shapeEs, and_, eq, ge, le, shapeWs, shapeJs]
    | some m2 => simp at hab
  | some m1 =>
    cases b with
    | none => simp at hab
    | some m2 =>
      simp only [Option.map_some, Option.some.injEq] at hab
      simp only [pure, Except.pure, Except.map, Except.ok.injEq]
      apply shapeS_tagsOrder
      rw [shapeS_setGroupBy, shapeS_setGroupBy, shapeS_andWhere, shapeS_andWhere, shapeS_setCols, shapeS_setCols,
        shapeS_tagsOrder c "key" _ _ (shapeS_selectTags c "key" m1 m2 hab)]
      simp [shapeEs, shapeE, eq]

/-! ### the final statements -/

/-- **two TraceQL search requests of the same shape**: equal emptied segment lists of their statements -/
theorem plan_sameShape (c : Ctx) (s1 s2 : Script) (X1 X2 : Sel) (h : sameShapeT s1 s2)
    (h1 : plan c s1 = .ok X1) (h2 : plan c s2 = .ok X2) :
    (segsSel X1).map Seg.shape = (segsSel X2).map Seg.shape := by
  rw [← shape_segsSel X1, ← shape_segsSel X2, map_ok_inj (plan_class c s1 s2 h) h1 h2]

theorem planTags_sameShape (c : Ctx) (kv : String) (s1 s2 : Script) (X1 X2 : Sel) (h : sameShapeT s1 s2)
    (h1 : planTags c kv s1 = .ok X1) (h2 : planTags c kv s2 = .ok X2) :
    (segsSel X1).map Seg.shape = (segsSel X2).map Seg.shape := by
  rw [← shape_segsSel X1, ← shape_segsSel X2, map_ok_inj (planTags_class c kv s1 s2 h) h1 h2]

theorem planValues_sameShape (c : Ctx) (kv : String) (key1 key2 : Bytes) (s1 s2 : Script) (X1 X2 : Sel) (h : sameShapeT s1 s2)
    (h1 : planValues c kv key1 s1 = .ok X1) (h2 : planValues c kv key2 s2 = .ok X2) :
    (segsSel X1).map Seg.shape = (segsSel X2).map Seg.shape := by
  rw [← shape_segsSel X1, ← shape_segsSel X2, map_ok_inj (planValues_class c kv key1 key2 s1 s2 h) h1 h2]

/-- acceptance does not depend on the contents of string leaves -/
theorem plan_isOk_sameShape (c : Ctx) (s1 s2 : Script) (h : sameShapeT s1 s2) : (plan c s1).isOk = (plan c s2).isOk :=
  map_isOk (plan_class c s1 s2 h)
theorem planTags_isOk_sameShape (c : Ctx) (kv : String) (s1 s2 : Script) (h : sameShapeT s1 s2) :
    (planTags c kv s1).isOk = (planTags c kv s2).isOk := map_isOk (planTags_class c kv s1 s2 h)
theorem planValues_isOk_sameShape (c : Ctx) (kv : String) (key1 key2 : Bytes) (s1 s2 : Script) (h : sameShapeT s1 s2) :
    (planValues c kv key1 s1).isOk = (planValues c kv key2 s2).isOk := map_isOk (planValues_class c kv key1 key2 s1 s2 h)

/-! ### the syntactic relation implies `sameShapeT`

    the same tree, the same class at every term position, the same pattern of equal term texts ⟹ `analyzeCond` interns
    the terms at the same indices, so the skeletons agree -/

theorem pattern_cons (t u : Term) (ts us : List Term) : samePattern (t :: ts) (u :: us) =
    ((List.zipWith (fun t' u' => (t.key == t'.key) == (u.key == u'.key)) ts us).all id && samePattern ts us) := by
  simp only [samePattern]

/-- dropping the same position on both sides keeps the pattern -/
theorem pattern_drop (t u : Term) (r1 r2 : List Term) : ∀ (ts1 ts2 : List Term), ts1.length = ts2.length →
    samePattern (ts1 ++ t :: r1) (ts2 ++ u :: r2) = true → samePattern (ts1 ++ r1) (ts2 ++ r2) = true
  | [], [], _, h => by
    simp only [List.nil_append, pattern_cons, Bool.and_eq_true] at h ⊢
    exact h.2
  | [], _ :: _, hl, _ => by simp at hl
  | _ :: _, [], hl, _ => by simp at hl
  | x :: xs, y :: ys, hl, h => by
    have hl' : xs.length = ys.length := by simpa using hl
    simp only [List.cons_append, pattern_cons, Bool.and_eq_true, List.zipWith_append hl', List.all_append,
      List.zipWith_cons_cons, List.all_cons] at h ⊢
    exact ⟨⟨h.1.1, h.1.2.2⟩, pattern_drop t u r1 r2 xs ys hl' h.2⟩

/-- the next term is found among the interned ones at the same index on both sides -/
theorem findIdx_sim (t u : Term) (r1 r2 : List Term) : ∀ (ts1 ts2 : List Term), ts1.length = ts2.length →
    samePattern (ts1 ++ t :: r1) (ts2 ++ u :: r2) = true →
    ts1.findIdx? (fun x => x.key == t.key) = ts2.findIdx? (fun x => x.key == u.key)
  | [], [], _, _ => rfl
  | [], _ :: _, hl, _ => by simp at hl
  | _ :: _, [], hl, _ => by simp at hl
  | x :: xs, y :: ys, hl, h => by
    have hl' : xs.length = ys.length := by simpa using hl
    simp only [List.cons_append, pattern_cons, Bool.and_eq_true, List.zipWith_append hl', List.all_append,
      List.zipWith_cons_cons, List.all_cons, id, beq_iff_eq] at h
    rw [List.findIdx?_cons, List.findIdx?_cons, findIdx_sim t u r1 r2 xs ys hl' h.2, h.1.2.1]

/-- the two runs of `analyzeChain` at the same point: as many interned terms, of the same classes; the terms still to
    come have the same classes; interned and coming terms together have the same pattern of equal texts -/
def Inv (ts1 ts2 r1 r2 : List Term) : Prop :=
  ts1.length = ts2.length ∧ ts1.map termClass = ts2.map termClass ∧ r1.map termClass = r2.map termClass ∧
    samePattern (ts1 ++ r1) (ts2 ++ r2) = true

theorem intern_sim (ts1 ts2 r1 r2 : List Term) (t u : Term) (h : Inv ts1 ts2 (t :: r1) (u :: r2)) :
    (internTerm ts1 t).2 = (internTerm ts2 u).2 ∧ Inv (internTerm ts1 t).1 (internTerm ts2 u).1 r1 r2 := by
  obtain ⟨hl, hc, hr, hp⟩ := h
  simp only [List.map_cons, List.cons.injEq] at hr
  unfold internTerm
  rw [findIdx_sim t u r1 r2 ts1 ts2 hl hp]
  cases ts2.findIdx? (fun x => x.key == u.key) with
  | some i => exact ⟨rfl, hl, hc, hr.2, pattern_drop t u r1 r2 ts1 ts2 hl hp⟩
  | none =>
    refine ⟨hl, by simp [hl], by simp [hc, hr.1], hr.2, ?_⟩
    simpa [List.append_assoc] using hp

theorem chain_sim : ∀ (e1 e2 : AttrExp) (ts1 ts2 r1 r2 : List Term), sameStruct e1 e2 = true →
    Inv ts1 ts2 (flatTerms e1 ++ r1) (flatTerms e2 ++ r2) →
    (analyzeChain ts1 e1).2 = (analyzeChain ts2 e2).2 ∧ Inv (analyzeChain ts1 e1).1 (analyzeChain ts2 e2).1 r1 r2
  | .leaf t, .leaf u, ts1, ts2, r1, r2, _, h => by
    obtain ⟨hi, hinv⟩ := intern_sim ts1 ts2 r1 r2 t u h
    simp only [analyzeChain]
    exact ⟨by rw [hi], hinv⟩
  | .paren e, .paren e', ts1, ts2, r1, r2, hs, h => by
    obtain ⟨hg, hinv⟩ := chain_sim e e' ts1 ts2 r1 r2 (by simpa [sameStruct] using hs) h
    simp only [analyzeChain]
    exact ⟨by rw [hg], hinv⟩
  | .leafOp t op tail, .leafOp u op' tail', ts1, ts2, r1, r2, hs, h => by
    simp only [sameStruct, Bool.and_eq_true, beq_iff_eq] at hs
    obtain ⟨hop, hst⟩ := hs
    subst hop
    simp only [flatTerms, List.cons_append] at h
    obtain ⟨hi, hinv⟩ := intern_sim ts1 ts2 _ _ t u h
    obtain ⟨hg, hinv'⟩ := chain_sim tail tail' _ _ r1 r2 hst hinv
    simp only [analyzeChain]
    exact ⟨by rw [hi, hg], hinv'⟩
  | .parenOp e op tail, .parenOp e' op' tail', ts1, ts2, r1, r2, hs, h => by
    simp only [sameStruct, Bool.and_eq_true, beq_iff_eq] at hs
    obtain ⟨hse, hop, hst⟩ := hs
    subst hop
    simp only [flatTerms, List.append_assoc] at h
    obtain ⟨hg, hinv⟩ := chain_sim e e' ts1 ts2 _ _ hse h
    obtain ⟨hg', hinv'⟩ := chain_sim tail tail' _ _ r1 r2 hst hinv
    simp only [analyzeChain]
    exact ⟨by rw [hg, hg'], hinv'⟩
  | .leaf _, .paren _, _, _, _, _, hs, _ => by simp [sameStruct] at hs
  | .leaf _, .leafOp _ _ _, _, _, _, _, hs, _ => by simp [sameStruct] at hs
  | .leaf _, .parenOp _ _ _, _, _, _, _, hs, _ => by simp [sameStruct] at hs
  | .paren _, .leaf _, _, _, _, _, hs, _ => by simp [sameStruct] at hs
  | .paren _, .leafOp _ _ _, _, _, _, _, hs, _ => by simp [sameStruct] at hs
  | .paren _, .parenOp _ _ _, _, _, _, _, hs, _ => by simp [sameStruct] at hs
  | .leafOp _ _ _, .leaf _, _, _, _, _, hs, _ => by simp [sameStruct] at hs
  | .leafOp _ _ _, .paren _, _, _, _, _, hs, _ => by simp [sameStruct] at hs
  | .leafOp _ _ _, .parenOp _ _ _, _, _, _, _, hs, _ => by simp [sameStruct] at hs
  | .parenOp _ _ _, .leaf _, _, _, _, _, hs, _ => by simp [sameStruct] at hs
  | .parenOp _ _ _, .paren _, _, _, _, _, hs, _ => by simp [sameStruct] at hs
  | .parenOp _ _ _, .leafOp _ _ _, _, _, _, _, hs, _ => by simp [sameStruct] at hs

theorem analyzeCond_eq (ts : List Term) (e : AttrExp) :
    analyzeCond ts e = ((analyzeChain ts e).1, joinGroups (analyzeChain ts e).2) := rfl

theorem attrsSkel_of_sameAttrs (e1 e2 : AttrExp) (h : sameAttrs e1 e2 = true) : attrsSkel e1 = attrsSkel e2 := by
  simp only [sameAttrs, Bool.and_eq_true, decide_eq_true_eq] at h
  obtain ⟨⟨hs, hc⟩, hp⟩ := h
  obtain ⟨hg, _, hcl, _, _⟩ := chain_sim e1 e2 [] [] [] [] hs
    ⟨rfl, rfl, by simpa using hc, by simpa using hp⟩
  simp only [attrsSkel, analyzeCond_eq, hg, hcl]

theorem skel_of_sameSelector (x1 x2 : Selector) (h : sameSelector x1 x2 = true) : x1.skel = x2.skel := by
  simp only [sameSelector, Bool.and_eq_true, decide_eq_true_eq] at h
  obtain ⟨ha, hg⟩ := h
  simp only [Selector.skel, hg, SelSkel.mk.injEq, and_true]
  cases h1 : x1.attrs with
  | none =>
    cases h2 : x2.attrs with
    | none => rfl
    | some e2 => simp [h1, h2] at ha
  | some e1 =>
    cases h2 : x2.attrs with
    | none => simp [h1, h2] at ha
    | some e2 =>
      simp only [h1, h2] at ha
      simp only [Option.map_some, attrsSkel_of_sameAttrs e1 e2 ha]

/-- **equal up to the contents of string leaves, on the syntax tree** (same tree, same class at every term position, same
    pattern of equal term texts) implies `sameShapeT` -/
theorem sameShapeT_of_sameSyntaxT : ∀ (s1 s2 : Script), sameSyntaxT s1 s2 → sameShapeT s1 s2
  | [], [], _ => rfl
  | [], _ :: _, h => by simp [sameSyntaxT, sameSyntaxTB] at h
  | _ :: _, [], h => by simp [sameSyntaxT, sameSyntaxTB] at h
  | (x1, o1) :: r1, (x2, o2) :: r2, h => by
    simp only [sameSyntaxT, sameSyntaxTB, Bool.and_eq_true, decide_eq_true_eq] at h
    obtain ⟨⟨hx, ho⟩, hr⟩ := h
    have ih := sameShapeT_of_sameSyntaxT r1 r2 hr
    simp only [sameShapeT, skelT, List.map_cons, List.cons.injEq, Prod.mk.injEq] at ih ⊢
    exact ⟨⟨skel_of_sameSelector x1 x2 hx, ho⟩, ih⟩

/-! ### non-vacuity -/
namespace SameShapeEx

/-- a context for the examples: one hour, limit 20, no random filter -/
def ctx0 : Ctx :=
  ⟨1700000000000000000, 1700003600000000000, 0, 20, false, "tempo_traces_attrs_gin", "tempo_traces_attrs_gin_dist",
    "tempo_traces", "tempo_traces_dist", 0, 0, []⟩

/-- two requests that differ in EVERY string leaf (quotes and backslashes included) have the same shape … -/
theorem sameShape_A_B : sameShapeT scriptA scriptB := by decide +kernel
theorem sameSyntax_A_B : sameSyntaxT scriptA scriptB := by decide +kernel
theorem scripts_differ : scriptA ≠ scriptB := by decide +kernel
/-- … and the planner accepts both: the hypotheses of `plan_sameShape` hold for them -/
theorem plan_A_ok : (plan ctx0 scriptA).isOk = true := by decide +kernel
theorem plan_B_ok : (plan ctx0 scriptB).isOk = true := by decide +kernel
theorem planTags_tail_ok : (planTags ctx0 "tempo_traces_kv" scriptA.tail).isOk = true ∧
    (planTags ctx0 "tempo_traces_kv" scriptB.tail).isOk = true := by decide +kernel
theorem sameShape_tails : sameShapeT scriptA.tail scriptB.tail := by decide +kernel
theorem sameShape_empty : sameShapeT scriptEmpty scriptEmpty := by decide +kernel
theorem plan_empty_ok : (plan ctx0 scriptEmpty).isOk = true := by decide +kernel

/-- refused: a term repeated in the one request and not in the other (another number of condition bits) -/
theorem notSameShape_B_C : ¬ sameShapeT scriptB scriptC := by decide +kernel
theorem notSameSyntax_B_C : ¬ sameSyntaxT scriptB scriptC := by decide +kernel
/-- refused: `||` in place of `&&` -/
theorem notSameShape_A_D : ¬ sameShapeT scriptA scriptD := by decide +kernel
/-- refused: another number literal -/
theorem notSameShape_A_E : ¬ sameShapeT scriptA scriptE := by decide +kernel
/-- refused: another number of selectors -/
theorem notSameShape_A_tail : ¬ sameShapeT scriptA scriptA.tail := by decide +kernel

end SameShapeEx

end Qryn.TraceQL
