import Qryn.Proofs.TraceQLOrder
/-! C11: what a trace select carries besides WHICH traces it returns — the recency key `ORDER BY max(…) DESC`
    sorts by, the span arrays — for one selector (`IndexGroupByPlanner` over the index scan), for `&&` / `||` nodes
    and for the tree of a script. -/
namespace Qryn.TraceQL
open Qryn Qryn.Sql

/-! ### lists -/
theorem nodup_subset_length {α} [DecidableEq α] : ∀ (l s : List α), l.Nodup → (∀ x ∈ l, x ∈ s) → l.length ≤ s.length
  | [], _, _, _ => by simp
  | x :: xs, s, hn, hs => by
    rw [List.nodup_cons] at hn
    have hx : x ∈ s := hs x (by simp)
    have := nodup_subset_length xs (s.erase x) hn.2 (by
      intro y hy
      have hyx : y ≠ x := fun h => hn.1 (h ▸ hy)
      exact (List.mem_erase_of_ne hyx).mpr (hs y (List.mem_cons_of_mem _ hy)))
    rw [List.length_erase_of_mem hx] at this
    have hpos : 0 < s.length := List.length_pos_of_mem hx
    simp only [List.length_cons]
    omega

theorem dedup_length_mono {α} [DecidableEq α] (a b : List α) : (dedup a).length ≤ (dedup (a ++ b)).length :=
  nodup_subset_length _ _ (nodup_dedup a) (fun x hx => (mem_dedup _ _).mpr (List.mem_append_left _ ((mem_dedup _ _).mp hx)))

theorem dedup_length_mono_right {α} [DecidableEq α] (a b : List α) : (dedup b).length ≤ (dedup (a ++ b)).length :=
  nodup_subset_length _ _ (nodup_dedup b) (fun x hx => (mem_dedup _ _).mpr (List.mem_append_right _ ((mem_dedup _ _).mp hx)))

theorem strsOf_map_str {α} (f : α → Bytes) (l : List α) : strsOf (l.map (fun a => Val.str (f a))) = l.map f := by
  induction l with
  | nil => rfl
  | cons x xs ih => simp only [List.map_cons, strsOf, List.filterMap_cons] at ih ⊢; rw [ih]

/-- `groupArray(100)` of a list that is, up to order, the list `U` without repetition -/
theorem spanSet_take (U l : List Bytes) (hp : l.Perm U) (hn : U.Nodup) (hne : U ≠ []) :
    SpanSetOk U [U] (l.take 100) := by
  have hln : l.Nodup := hp.nodup_iff.mpr hn
  refine ⟨?_, List.Nodup.sublist (List.take_sublist _ _) hln, ?_, List.length_take_le _ _, ?_⟩
  · intro h
    have : l = [] := by
      cases l with
      | nil => rfl
      | cons x xs => simp at h
    rw [this] at hp
    exact hne hp.symm.eq_nil
  · intro v hv; exact hp.mem_iff.mp (List.mem_of_mem_take hv)
  · intro h1 _ u hu
    have : l.length ≤ 100 := by rw [hp.length_eq]; exact h1 U (by simp)
    rw [List.take_of_length_le this]
    exact hp.mem_iff.mpr hu

/-! ### one selector -/
/-- `any(timestamp_ns)` of the row the index scan returns for a span: the span's start time -/
theorem rowA_ts (o : Oracles) (env : Env) (c : Ctx) (d : TraceDb) (wh : List Expr) (aggAttr : String) (k : SpanKey)
    (hts : TsConsistent d) (hne : grpA o env c d wh k ≠ []) :
    (rowA o env c d wh aggAttr k).lookup "timestamp_ns" = some (.int (spanTs c d k)) := by
  simp only [rowA, projG, idxCols, simpleCol, colName, List.lookup, List.map_append, List.map_cons, List.map_nil,
    List.cons_append, List.nil_append]
  simp only [show ("timestamp_ns" == "trace_id") = false from by decide, show ("timestamp_ns" == "span_id") = false from by decide,
    show ("timestamp_ns" == "duration") = false from by decide, show ("timestamp_ns" == "timestamp_ns") = true from by decide,
    evalGrp]
  obtain ⟨r0, rest, hg⟩ := List.ne_nil_iff_exists_cons.mp hne
  obtain ⟨a, ha, rfl, hk, hok⟩ := grpA_mem o env c d wh k r0 (by rw [hg]; simp)
  have hd : evalE o env a.qrow (.raw "timestamp_ns") = .int a.ts := by simp [evalE, qrow_ts]
  rw [hg]
  simp only [if_true, List.map_cons, firstNonNull, hd]
  simp only [List.find?, show (Val.int a.ts != Val.null) = true from by simp, Option.getD_some]
  unfold spanTs
  cases hf : d.attrs.find? (fun a => a.span == k && admissible c a) with
  | none =>
    have := List.find?_eq_none.mp hf a ha
    simp [hk, rowOk_admissible o env c wh a hok] at this
  | some a' =>
    have hp := List.find?_some hf
    simp only [Bool.and_eq_true, beq_iff_eq] at hp
    have := hts a ha a' (List.mem_of_find?_eq_some hf) (by rw [hk, hp.1])
    simp [this]

/-! ### selects grouped by `trace_id` -/
/-- the two columns every trace select starts with; `arr` is `groupArray(100)` or `groupUniqArray(100)` -/
def tcols (arr : String) : List Expr :=
  [simpleCol "trace_id" "trace_id", .col (.call arr [.raw "span_id"]) "span_id"]

/-- the shape of every trace select: grouped by `trace_id`, newest `max(n0)` first -/
def tsel (ws : List (Alias × Sel)) (arr : String) (extra : List Expr) (f : Expr) (hav : Option Expr) (n0 : String) : Sel :=
  .mk ws false (tcols arr ++ extra) (some f) [] none none [.raw "trace_id"] hav
    [.orderBy (.call "max" [.raw n0]) .desc] none

/-- what is known of the group of one key value: it is the group of a trace `tr`; `max(n)` over it is the
    greatest element of `vals tr`; the span array over it is an admissible choice among `U tr` -/
def GroupOk (o : Oracles) (env : Env) (arr : String) (names : List String) (vals : Bytes → List Int)
    (U : Bytes → List Bytes) (per : Bytes → List (List Bytes)) (v : Val) (g : List Row) : Prop :=
  ∃ tr, v = .str tr ∧
    (∀ n ∈ names, ∃ m, evalGrp o env g (.call "max" [.raw n]) = .int m ∧ IsMaxOf m (vals tr)) ∧
    ∃ vs, evalGrp o env g (.call arr [.raw "span_id"]) = .strs vs ∧ SpanSetOk (U tr) (per tr) vs

def traceIdOf (r : Row) : Option Bytes := match r.get "trace_id" with | .str t => some t | _ => none

/-- newest first: a later trace is not more recent than an earlier one (`vals` lists the start times the
    recency of a trace is the greatest of) -/
def NewestFirst (vals : Bytes → List Int) (l : List Bytes) : Prop :=
  l.Pairwise (fun a b => ∀ ma mb, IsMaxOf ma (vals a) → IsMaxOf mb (vals b) → mb ≤ ma)

section
variable (o : Oracles) (ao : AggOracles) (db : Db) (own : Bool) (env0 : Env) (ws : List (Alias × Sel)) (arr : String)
  (f : Expr) (hav : Option Expr) (n0 : String) (names : List String) (vals : Bytes → List Int)
  (U : Bytes → List Bytes) (per : Bytes → List (List Bytes))

/-- the scope the body of the select is evaluated in -/
abbrev scopeOf : Env := if own then evalWithsG o ao db env0 ws else env0

theorem tsel_row (extra : List Expr) (r : Row) (hr : r ∈ evalSelG o ao db own env0 (tsel ws arr extra f hav n0))
    (hG : ∀ v ∈ (sourceRowsG o ao db (scopeOf o ao db own env0 ws) f).map (fun r => evalE o (scopeOf o ao db own env0 ws) r (.raw "trace_id")),
      havingG o ao (scopeOf o ao db own env0 ws) (rowsWith o (scopeOf o ao db own env0 ws) (sourceRowsG o ao db (scopeOf o ao db own env0 ws) f) (.raw "trace_id") v) hav = true →
      GroupOk o (scopeOf o ao db own env0 ws) arr names vals U per v
        (rowsWith o (scopeOf o ao db own env0 ws) (sourceRowsG o ao db (scopeOf o ao db own env0 ws) f) (.raw "trace_id") v)) :
    ∃ g tr vs, r = projG o (scopeOf o ao db own env0 ws) (tcols arr ++ extra) g ∧ r.get "trace_id" = .str tr ∧
      r.get "span_id" = .strs vs ∧ SpanSetOk (U tr) (per tr) vs ∧
      (∀ n ∈ names, ∃ m, evalGrp o (scopeOf o ao db own env0 ws) g (.call "max" [.raw n]) = .int m ∧ IsMaxOf m (vals tr)) := by
  unfold tsel at hr
  obtain ⟨v, hv, hhav, rfl⟩ := row_group o ao db own env0 ws false _ f (.raw "trace_id") hav _ r hr
  obtain ⟨tr, rfl, hmax, vs, hvs, hok⟩ := hG v hv hhav
  obtain ⟨hne, hall⟩ := rowsWith_spec o _ _ (.raw "trace_id") _ hv
  obtain ⟨r0, rest, hg⟩ := List.ne_nil_iff_exists_cons.mp hne
  have hr0 := hall r0 (by rw [hg]; simp)
  refine ⟨_, tr, vs, rfl, ?_, ?_, hok, hmax⟩
  · simp only [projG, tcols, simpleCol, colName, Row.get, List.lookup, List.map_cons, List.cons_append, evalGrp, hg]
    simpa [evalE, Row.get] using hr0
  · have : ∀ g : List Row, (projG o (scopeOf o ao db own env0 ws) (tcols arr ++ extra) g).get "span_id" =
        evalGrp o (scopeOf o ao db own env0 ws) g (.call arr [.raw "span_id"]) := by
      intro g
      simp [projG, tcols, simpleCol, colName, Row.get, List.lookup, evalGrp]
    rw [this, hvs]

/-- the groups of a trace select are the groups of key values whose group passes HAVING -/
theorem tsel_groups (extra ob : List Expr) (g : List Row)
    (hg : g ∈ groupsG o ao db (scopeOf o ao db own env0 ws) f none [.raw "trace_id"] hav (tcols arr ++ extra) ob none) :
    ∃ v, v ∈ (sourceRowsG o ao db (scopeOf o ao db own env0 ws) f).map (fun r => evalE o (scopeOf o ao db own env0 ws) r (.raw "trace_id")) ∧
      havingG o ao (scopeOf o ao db own env0 ws) (rowsWith o (scopeOf o ao db own env0 ws) (sourceRowsG o ao db (scopeOf o ao db own env0 ws) f) (.raw "trace_id") v) hav = true ∧
      g = rowsWith o (scopeOf o ao db own env0 ws) (sourceRowsG o ao db (scopeOf o ao db own env0 ws) f) (.raw "trace_id") v := by
  have := (groupsG_single o ao db _ f (.raw "trace_id") hav (tcols arr ++ extra) ob).mem_iff.mp hg
  obtain ⟨v, hv, rfl⟩ := List.mem_map.mp this
  obtain ⟨hv1, hv2⟩ := List.mem_filter.mp hv
  exact ⟨v, (mem_dedup _ _).mp hv1, hv2, rfl⟩

/-- **ORDER BY max(n0) DESC**: the traces come newest first -/
theorem tsel_sorted (extra : List Expr) (hn0 : n0 ∈ names)
    (hG : ∀ v ∈ (sourceRowsG o ao db (scopeOf o ao db own env0 ws) f).map (fun r => evalE o (scopeOf o ao db own env0 ws) r (.raw "trace_id")),
      havingG o ao (scopeOf o ao db own env0 ws) (rowsWith o (scopeOf o ao db own env0 ws) (sourceRowsG o ao db (scopeOf o ao db own env0 ws) f) (.raw "trace_id") v) hav = true →
      GroupOk o (scopeOf o ao db own env0 ws) arr names vals U per v
        (rowsWith o (scopeOf o ao db own env0 ws) (sourceRowsG o ao db (scopeOf o ao db own env0 ws) f) (.raw "trace_id") v)) :
    NewestFirst vals ((evalSelG o ao db own env0 (tsel ws arr extra f hav n0)).filterMap traceIdOf) := by
  unfold tsel NewestFirst
  rw [evalSelG_grouped, List.filterMap_map, List.pairwise_filterMap]
  have hint : ∀ g ∈ groupsG o ao db (scopeOf o ao db own env0 ws) f none [.raw "trace_id"] hav (tcols arr ++ extra) [] none,
      ∃ i, evalGrp o (scopeOf o ao db own env0 ws) g (.call "max" [.raw n0]) = .int i := by
    intro g hg
    obtain ⟨v, hv, hhav, rfl⟩ := tsel_groups o ao db own env0 ws arr f hav extra [] g hg
    obtain ⟨tr, _, hmax, _⟩ := hG v hv hhav
    obtain ⟨m, hm, _⟩ := hmax n0 hn0
    exact ⟨m, hm⟩
  have hs := grouped_sorted o ao db (scopeOf o ao db own env0 ws) f none [.raw "trace_id"] hav (tcols arr ++ extra) "max" [.raw n0] hint
  refine List.Pairwise.imp_of_mem ?_ hs
  intro a b ha hb hab ta hta tb htb ma mb hma hmb
  obtain ⟨va, hva, hhava, rfl⟩ := tsel_groups o ao db own env0 ws arr f hav extra _ a ha
  obtain ⟨vb, hvb, hhavb, rfl⟩ := tsel_groups o ao db own env0 ws arr f hav extra _ b hb
  obtain ⟨tra, rfl, hmaxa, _⟩ := hG va hva hhava
  obtain ⟨trb, rfl, hmaxb, _⟩ := hG vb hvb hhavb
  obtain ⟨ia, hia, hia'⟩ := hmaxa n0 hn0
  obtain ⟨ib, hib, hib'⟩ := hmaxb n0 hn0
  have key : ∀ (v : Val) (t : Bytes) (hv : Val.str t ∈ (sourceRowsG o ao db (scopeOf o ao db own env0 ws) f).map (fun r => evalE o (scopeOf o ao db own env0 ws) r (.raw "trace_id"))),
      (traceIdOf ∘ projG o (scopeOf o ao db own env0 ws) (tcols arr ++ extra))
        (rowsWith o (scopeOf o ao db own env0 ws) (sourceRowsG o ao db (scopeOf o ao db own env0 ws) f) (.raw "trace_id") (.str t)) = some t := by
    intro _ t hv
    obtain ⟨hne, hall⟩ := rowsWith_spec o _ _ (.raw "trace_id") _ hv
    obtain ⟨r0, rest, hg⟩ := List.ne_nil_iff_exists_cons.mp hne
    have hr0 := hall r0 (by rw [hg]; simp)
    have : (projG o (scopeOf o ao db own env0 ws) (tcols arr ++ extra)
        (rowsWith o (scopeOf o ao db own env0 ws) (sourceRowsG o ao db (scopeOf o ao db own env0 ws) f) (.raw "trace_id") (.str t))).get "trace_id" = .str t := by
      simp only [projG, tcols, simpleCol, colName, Row.get, List.lookup, List.map_cons, List.cons_append, evalGrp, hg]
      simpa [evalE, Row.get] using hr0
    simp only [Function.comp, traceIdOf, this]
  rw [key (.str tra) tra hva] at hta
  rw [key (.str trb) trb hvb] at htb
  cases hta; cases htb
  have e1 := hia'.unique hma
  have e2 := hib'.unique hmb
  subst e1; subst e2
  exact hab _ _ hia hib

/-- the value of an added column `max(n) as a` in the row of a trace -/
theorem tsel_key (n a : String) (hn : n ∈ names) (ha1 : (a == "trace_id") = false) (ha2 : (a == "span_id") = false)
    (r : Row) (hr : r ∈ evalSelG o ao db own env0 (tsel ws arr [.col (.call "max" [.raw n]) a] f hav n0))
    (hG : ∀ v ∈ (sourceRowsG o ao db (scopeOf o ao db own env0 ws) f).map (fun r => evalE o (scopeOf o ao db own env0 ws) r (.raw "trace_id")),
      havingG o ao (scopeOf o ao db own env0 ws) (rowsWith o (scopeOf o ao db own env0 ws) (sourceRowsG o ao db (scopeOf o ao db own env0 ws) f) (.raw "trace_id") v) hav = true →
      GroupOk o (scopeOf o ao db own env0 ws) arr names vals U per v
        (rowsWith o (scopeOf o ao db own env0 ws) (sourceRowsG o ao db (scopeOf o ao db own env0 ws) f) (.raw "trace_id") v))
    (tr : Bytes) (htr : r.get "trace_id" = .str tr) : ∃ m, r.get a = .int m ∧ IsMaxOf m (vals tr) := by
  obtain ⟨g, tr', vs, rfl, htr', _, _, hmax⟩ := tsel_row o ao db own env0 ws arr f hav n0 names vals U per _ r hr hG
  rw [htr'] at htr
  cases htr
  obtain ⟨m, hm, hm'⟩ := hmax n hn
  refine ⟨m, ?_, hm'⟩
  simp only [projG, tcols, simpleCol, colName, Row.get, List.lookup, List.map_cons, List.map_nil, List.cons_append, List.nil_append,
    ha1, ha2, beq_self_eq_true, Option.getD_some, evalGrp]
  simpa [evalGrp] using hm
end

/-! ### one selector -/
theorem grpSel_tsel (pfx : String) (extra : List Expr) (hav : Option Expr) (SA : Sel) :
    grpSel pfx extra hav SA =
      tsel [(.named (pfx ++ "index_search"), SA)] "groupArray(100)" extra (.withRef (.named (pfx ++ "index_search"))) hav
        (pfx ++ "index_search.timestamp_ns") := rfl

/-- recency values and selected span ids of a trace under one selector's conditions -/
def selVals (o : Oracles) (c : Ctx) (d : TraceDb) (e : AttrExp) (tr : Bytes) : List Int :=
  (matchedSpans o c d e tr).map (spanTs c d)
def selIds (o : Oracles) (c : Ctx) (d : TraceDb) (e : AttrExp) (tr : Bytes) : List Bytes :=
  (matchedSpans o c d e tr).map (·.2)

theorem matchedSpans_nodup (o : Oracles) (c : Ctx) (d : TraceDb) (e : AttrExp) (tr : Bytes) : (matchedSpans o c d e tr).Nodup :=
  List.Nodup.sublist List.filter_sublist (nodup_dedup _)

theorem selIds_nodup (o : Oracles) (c : Ctx) (d : TraceDb) (e : AttrExp) (tr : Bytes) : (selIds o c d e tr).Nodup := by
  unfold selIds
  apply nodup_map_of_inj_on _ _ (matchedSpans_nodup o c d e tr)
  intro a ha b hb hab
  simp only [matchedSpans, List.mem_filter, Bool.and_eq_true, beq_iff_eq] at ha hb
  exact Prod.ext (ha.2.1.trans hb.2.1.symm) hab

/-- **the groups of the select planned for one selector**: the group of a trace holds one row per selected span;
    `max(timestamp_ns)` over it (named bare or through the CTE alias) is the start of the newest selected span, the span
    array holds the first 100 selected span ids -/
theorem simple_groupOk (o : Oracles) (ao : AggOracles) (c : Ctx) (d : TraceDb) (hts : TsConsistent (d.seen o c))
    (pfx : String) (s : Selector) (op : ScriptOp) (rest : Script) (X : Sel)
    (h : simpleSel c pfx ((s, op) :: rest) = .ok X) (hs : SelOk s) (env : Env) :
    ∃ hav SA e, s.attrs = some e ∧ X = grpSel pfx [] hav SA ∧
      ∀ v ∈ (sourceRowsG o ao (d.toDb c) ((.named (pfx ++ "index_search"), evalSelG o ao (d.toDb c) false env SA) :: env)
              (.withRef (.named (pfx ++ "index_search")))).map
            (fun r => evalE o ((.named (pfx ++ "index_search"), evalSelG o ao (d.toDb c) false env SA) :: env) r (.raw "trace_id")),
        GroupOk o ((.named (pfx ++ "index_search"), evalSelG o ao (d.toDb c) false env SA) :: env) "groupArray(100)"
          ["timestamp_ns", pfx ++ "index_search.timestamp_ns"]
          (selVals o c (d.seen o c) e) (selIds o c (d.seen o c) e) (fun tr => [selIds o c (d.seen o c) e tr]) v
          (rowsWith o ((.named (pfx ++ "index_search"), evalSelG o ao (d.toDb c) false env SA) :: env)
            (sourceRowsG o ao (d.toDb c) ((.named (pfx ++ "index_search"), evalSelG o ao (d.toDb c) false env SA) :: env)
              (.withRef (.named (pfx ++ "index_search")))) (.raw "trace_id") v) := by
  obtain ⟨e, he, hinj⟩ := hs.attrs
  obtain ⟨es, hm, h64, hX⟩ := simpleSel_shape c pfx s op rest X e h he
  have hstage := fun (aggAttr : String) => stageA_perm o ao c d false env e es aggAttr hinj hm h64
  generalize d.seen o c = ds at hts hstage ⊢
  -- the common part, for either shape of HAVING
  have key : ∀ (aggAttr : String),
      ∀ v ∈ (sourceRowsG o ao (d.toDb c) ((.named (pfx ++ "index_search"), evalSelG o ao (d.toDb c) false env (idxSel c es (analyzeCond [] e).2 aggAttr)) :: env)
              (.withRef (.named (pfx ++ "index_search")))).map
            (fun r => evalE o ((.named (pfx ++ "index_search"), evalSelG o ao (d.toDb c) false env (idxSel c es (analyzeCond [] e).2 aggAttr)) :: env) r (.raw "trace_id")),
        GroupOk o ((.named (pfx ++ "index_search"), evalSelG o ao (d.toDb c) false env (idxSel c es (analyzeCond [] e).2 aggAttr)) :: env) "groupArray(100)"
          ["timestamp_ns", pfx ++ "index_search.timestamp_ns"]
          (selVals o c ds e) (selIds o c ds e) (fun tr => [selIds o c ds e tr]) v
          (rowsWith o ((.named (pfx ++ "index_search"), evalSelG o ao (d.toDb c) false env (idxSel c es (analyzeCond [] e).2 aggAttr)) :: env)
            (sourceRowsG o ao (d.toDb c) ((.named (pfx ++ "index_search"), evalSelG o ao (d.toDb c) false env (idxSel c es (analyzeCond [] e).2 aggAttr)) :: env)
              (.withRef (.named (pfx ++ "index_search")))) (.raw "trace_id") v) := by
    intro aggAttr v hv
    generalize hA : evalSelG o ao (d.toDb c) false env (idxSel c es (analyzeCond [] e).2 aggAttr) = A at hv ⊢
    generalize henv : ((Alias.named (pfx ++ "index_search"), A) :: env : Env) = env' at hv ⊢
    have hne : ∀ k ∈ (spans c ds).filter (spanHolds o c ds e), grpA o env c ds (es ++ aggWhere aggAttr) k ≠ [] := by
      intro k hk
      obtain ⟨a, ha, hka, hok⟩ := spanHolds_rowOk o env c ds e es (es ++ aggWhere aggAttr) hinj hm
        (fun x hx => List.mem_append_left _ hx) k (List.mem_filter.mp hk).2
      exact grpA_ne_nil o env c ds _ k a ha hka hok
    have hSR : SpanRows A ((spans c ds).filter (spanHolds o c ds e)) (rowA o env c ds (es ++ aggWhere aggAttr) aggAttr) := by
      rw [← hA]
      exact ⟨hstage aggAttr, List.Nodup.sublist List.filter_sublist (nodup_dedup _),
        fun k hk => rowA_trace o env c ds _ aggAttr k (hne k hk),
        fun k hk => rowA_span o env c ds _ aggAttr k (hne k hk)⟩
    have hsrc : sourceRowsG o ao (d.toDb c) env' (.withRef (.named (pfx ++ "index_search"))) = A.map (qualify (pfx ++ "index_search")) := by
      rw [← henv]; simp [sourceRowsG, Alias.text, List.lookup]
    rw [hsrc] at hv ⊢
    obtain ⟨k0, hk0, rfl⟩ := (tids_mem o env' (pfx ++ "index_search") A _ _ hSR v).mp hv
    have hcanon := rowsWith_trace o env' (pfx ++ "index_search") A _ _ hSR k0.1
    simp only [matchedSpans_eq] at hcanon
    have hk0m : k0 ∈ matchedSpans o c ds e k0.1 := by
      rw [← matchedSpans_eq]
      exact List.mem_filter.mpr ⟨hk0, by simp⟩
    have hmem : ∀ k ∈ matchedSpans o c ds e k0.1, k ∈ (spans c ds).filter (spanHolds o c ds e) := by
      intro k hk; rw [← matchedSpans_eq] at hk; exact (List.mem_filter.mp hk).1
    refine ⟨k0.1, rfl, ?_, ?_⟩
    · -- max(timestamp_ns), bare or through the alias
      have hvals : ∀ (n : String),
          (∀ k ∈ matchedSpans o c ds e k0.1, (qualify (pfx ++ "index_search") (rowA o env c ds (es ++ aggWhere aggAttr) aggAttr k)).get n = .int (spanTs c ds k)) →
          ∃ m, evalGrp o env' (rowsWith o env' (A.map (qualify (pfx ++ "index_search"))) (.raw "trace_id") (.str k0.1)) (.call "max" [.raw n]) = .int m ∧
            IsMaxOf m (selVals o c ds e k0.1) := by
        intro n hn
        apply evalGrp_max o env' _ n (selVals o c ds e k0.1)
        · simp only [selVals]; intro h0
          have := List.map_eq_nil_iff.mp h0
          rw [this] at hk0m; simp at hk0m
        · intro i
          rw [(hcanon.map (fun r => r.get n)).mem_iff]
          simp only [List.map_map, List.mem_map, Function.comp, selVals]
          constructor
          · rintro ⟨k, hk, hki⟩
            rw [hn k hk] at hki
            exact ⟨k, hk, by simpa using hki⟩
          · rintro ⟨k, hk, hki⟩
            exact ⟨k, hk, by rw [hn k hk, hki]⟩
      intro n hn
      simp only [List.mem_cons, List.not_mem_nil, or_false] at hn
      rcases hn with rfl | rfl
      · apply hvals
        intro k hk
        rw [get_qualify_nodot _ _ _ (by decide)]
        have := rowA_ts o env c ds (es ++ aggWhere aggAttr) aggAttr k hts (hne k (hmem k hk))
        simp [Row.get, this]
      · apply hvals
        intro k hk
        have hq := get_qualify_dot (pfx ++ "index_search") (rowA o env c ds (es ++ aggWhere aggAttr) aggAttr k) "timestamp_ns"
        have hname : pfx ++ "index_search.timestamp_ns" = (pfx ++ "index_search") ++ "." ++ "timestamp_ns" := by
          simp [String.append_assoc]
        rw [hname, hq, rowA_ts o env c ds (es ++ aggWhere aggAttr) aggAttr k hts (hne k (hmem k hk))]
    · -- the span array
      refine ⟨(strsOf ((rowsWith o env' (A.map (qualify (pfx ++ "index_search"))) (.raw "trace_id") (.str k0.1)).map
          (fun r => evalE o env' r (.raw "span_id")))).take 100, by simp [evalGrp], ?_⟩
      apply spanSet_take
      · have h1 := (hcanon.map (fun r => evalE o env' r (.raw "span_id")))
        have h2 : (((matchedSpans o c ds e k0.1).map (rowA o env c ds (es ++ aggWhere aggAttr) aggAttr)).map (qualify (pfx ++ "index_search"))).map
            (fun r => evalE o env' r (.raw "span_id")) = (matchedSpans o c ds e k0.1).map (fun k => Val.str k.2) := by
          rw [List.map_map, List.map_map]
          apply List.map_congr_left
          intro k hk
          simp only [Function.comp, evalE, get_qualify_nodot _ _ _ sid_nodot]
          exact rowA_span o env c ds _ aggAttr k (hne k (hmem k hk))
        rw [h2] at h1
        have h3 : (strsOf ((rowsWith o env' (A.map (qualify (pfx ++ "index_search"))) (.raw "trace_id") (.str k0.1)).map
            (fun r => evalE o env' r (.raw "span_id")))).Perm (strsOf ((matchedSpans o c ds e k0.1).map (fun k => Val.str k.2))) := by
          unfold strsOf; exact h1.filterMap _
        have h4 : strsOf ((matchedSpans o c ds e k0.1).map (fun k => Val.str k.2)) = selIds o c ds e k0.1 := by
          simp only [selIds]; exact strsOf_map_str (fun k : SpanKey => k.2) _
        rw [h4] at h3
        exact h3
      · exact selIds_nodup o c ds e k0.1
      · simp only [selIds]; intro h0
        have := List.map_eq_nil_iff.mp h0
        rw [this] at hk0m; simp at hk0m
  rcases hX with ⟨_, rfl⟩ | ⟨a, f, v, _, _, _, _, rfl⟩
  · exact ⟨none, _, e, he, rfl, key ""⟩
  · exact ⟨aggHaving pfx a.fn f v, _, e, he, rfl, key a.attr⟩

/-! ### the invariant of the induction over the planner's tree -/
/-- a trace select `X` returning the traces with `p tr = true`, together with: the start times `vals tr` whose
    maximum is the recency key of `tr` (it is what `max(timestamp_ns)` evaluates to in the row of `tr`, and the rows come
    newest first), and the span ids `U tr` the span array of `tr` is an admissible choice of -/
structure RecSel (o : Oracles) (ao : AggOracles) (db : Db) (X : Sel) (p : Bytes → Bool) (vals : Bytes → List Int)
    (U : Bytes → List Bytes) (per : Bytes → List (List Bytes)) : Prop where
  base : TraceSel o ao db X (fun tr => p tr = true)
  key : ∀ (env : Env) (r : Row) (tr : Bytes), r ∈ evalSelG o ao db true env (X.addCols [maxCol]) → r.get "trace_id" = .str tr →
    ∃ m, r.get "max_timestamp_ns" = .int m ∧ IsMaxOf m (vals tr)
  spans : ∀ (env : Env) (extra : List Expr) (r : Row) (tr : Bytes) (vs : List Bytes), r ∈ evalSelG o ao db true env (X.addCols extra) →
    r.get "trace_id" = .str tr → r.get "span_id" = .strs vs → SpanSetOk (U tr) (per tr) vs
  sorted : ∀ (env : Env), NewestFirst vals ((evalSelG o ao db true env X).filterMap traceIdOf)

theorem addCols_nil (X : Sel) : X.addCols [] = X := by
  obtain ⟨ws, d', c', f, j, p, w, g, h', ob, l⟩ := X; simp [Sel.addCols]

/-- **one selector** -/
theorem simple_recSel (o : Oracles) (ao : AggOracles) (hp : PermInv ao) (c : Ctx) (d : TraceDb)
    (hcons : DurConsistent (d.seen o c)) (hts : TsConsistent (d.seen o c))
    (pfx : String) (s : Selector) (op : ScriptOp) (rest : Script) (X : Sel)
    (h : simpleSel c pfx ((s, op) :: rest) = .ok X) (hs : SelOk s) :
    ∃ e, s.attrs = some e ∧
      RecSel o ao (d.toDb c) X (fun tr => selMatches o ao c (d.seen o c) s tr)
        (selVals o c (d.seen o c) e) (selIds o c (d.seen o c) e) (fun tr => [selIds o c (d.seen o c) e tr]) := by
  have hbase := simple_traceSel o ao hp c d hcons pfx s op rest X h hs
  obtain ⟨hav0, SA0, e, he, hX0, _⟩ := simple_groupOk o ao c d hts pfx s op rest X h hs []
  refine ⟨e, he, hbase, ?_, ?_, ?_⟩
  · intro env r tr hr htr
    obtain ⟨hav, SA, e', he', hX, hG⟩ := simple_groupOk o ao c d hts pfx s op rest X h hs env
    rw [he] at he'; cases he'
    rw [hX, grpSel_addCols, grpSel_tsel] at hr
    exact tsel_key o ao (d.toDb c) true env _ "groupArray(100)" _ hav _ ["timestamp_ns", pfx ++ "index_search.timestamp_ns"]
      _ _ _ "timestamp_ns" "max_timestamp_ns" (by simp) (by decide) (by decide) r hr
      (by intro v hv _; simpa [scopeOf, evalWithsG] using hG v (by simpa [scopeOf, evalWithsG] using hv)) tr htr
  · intro env extra r tr vs hr htr hvs
    obtain ⟨hav, SA, e', he', hX, hG⟩ := simple_groupOk o ao c d hts pfx s op rest X h hs env
    rw [he] at he'; cases he'
    rw [hX, grpSel_addCols, grpSel_tsel] at hr
    obtain ⟨g, tr', vs', _, htr', hvs', hok, _⟩ := tsel_row o ao (d.toDb c) true env _ "groupArray(100)" _ hav _
      ["timestamp_ns", pfx ++ "index_search.timestamp_ns"] _ _ _ extra r hr
      (by intro v hv _; simpa [scopeOf, evalWithsG] using hG v (by simpa [scopeOf, evalWithsG] using hv))
    rw [htr'] at htr; cases htr
    rw [hvs'] at hvs; cases hvs
    exact hok
  · intro env
    obtain ⟨hav, SA, e', he', hX, hG⟩ := simple_groupOk o ao c d hts pfx s op rest X h hs env
    rw [he] at he'; cases he'
    have : X = grpSel pfx [] hav SA := hX
    rw [this, grpSel_tsel]
    exact tsel_sorted o ao (d.toDb c) true env _ "groupArray(100)" _ hav _ ["timestamp_ns", pfx ++ "index_search.timestamp_ns"]
      _ _ _ [] (by simp)
      (by intro v hv _; simpa [scopeOf, evalWithsG] using hG v (by simpa [scopeOf, evalWithsG] using hv))

/-! ### `&&` / `||` nodes -/
/-- what a node makes of per-trace lists of its operands: `&&` (both operands return the trace) joins them, `||` joins
    those of the operands that return the trace -/
def nodeList {α} (isAnd : Bool) (pL pR : Bytes → Bool) (vL vR : Bytes → List α) (tr : Bytes) : List α :=
  if isAnd then (if pL tr && pR tr then vL tr ++ vR tr else [])
  else (if pL tr then vL tr else []) ++ (if pR tr then vR tr else [])

def nodeP (isAnd : Bool) (pL pR : Bytes → Bool) (tr : Bytes) : Bool :=
  if isAnd then pL tr && pR tr else pL tr || pR tr

theorem nodeList_sub {α} (isAnd : Bool) (pL pR : Bytes → Bool) (vL vR : Bytes → List α) (tr : Bytes) (x : α)
    (hx : x ∈ nodeList isAnd pL pR vL vR tr) : (pL tr = true ∧ x ∈ vL tr) ∨ (pR tr = true ∧ x ∈ vR tr) := by
  unfold nodeList at hx
  cases isAnd <;> cases hl : pL tr <;> cases hr : pR tr <;> simp [hl, hr] at hx ⊢ <;> exact hx

theorem nodeList_supL {α} (isAnd : Bool) (pL pR : Bytes → Bool) (vL vR : Bytes → List α) (tr : Bytes)
    (hp : nodeP isAnd pL pR tr = true) (hl : pL tr = true) (x : α) (hx : x ∈ vL tr) : x ∈ nodeList isAnd pL pR vL vR tr := by
  unfold nodeList; unfold nodeP at hp
  cases isAnd <;> cases hr : pR tr <;> simp [hl, hr] at hp ⊢ <;> simp [hx]

theorem nodeList_supR {α} (isAnd : Bool) (pL pR : Bytes → Bool) (vL vR : Bytes → List α) (tr : Bytes)
    (hp : nodeP isAnd pL pR tr = true) (hr : pR tr = true) (x : α) (hx : x ∈ vR tr) : x ∈ nodeList isAnd pL pR vL vR tr := by
  unfold nodeList; unfold nodeP at hp
  cases isAnd <;> cases hl : pL tr <;> simp [hl, hr] at hp ⊢ <;> simp [hx]

theorem mem_opRows (isAnd : Bool) (i : Nat) (T : Table) (x : Row) :
    x ∈ opRows isAnd i T ↔ ∃ r ∈ T, ∃ vs, r.get "span_id" = .strs vs ∧ ∃ v ∈ vs, x = opRow isAnd i r v := by
  simp only [opRows, List.mem_flatMap]
  constructor
  · rintro ⟨r, hr, hx⟩
    cases hs : r.get "span_id" with
    | strs vs =>
      rw [hs] at hx
      obtain ⟨v, hv, rfl⟩ := List.mem_map.mp hx
      exact ⟨r, hr, vs, hs, v, hv, rfl⟩
    | _ => rw [hs] at hx; simp at hx
  · rintro ⟨r, hr, vs, hs, v, hv, rfl⟩
    exact ⟨r, hr, by rw [hs]; exact List.mem_map.mpr ⟨v, hv, rfl⟩⟩

theorem opRow_ts (isAnd : Bool) (i : Nat) (r : Row) (v : Bytes) :
    (opRow isAnd i r v).get "timestamp_ns" = r.get "max_timestamp_ns" := by
  simp [opRow, Row.get, List.lookup]

theorem ts_nodot : '.' ∉ "timestamp_ns".toList := by decide

/-- a group of key value `v` that passes HAVING has its row in the select -/
theorem tsel_group_row (o : Oracles) (ao : AggOracles) (db : Db) (own : Bool) (env0 : Env) (ws : List (Alias × Sel)) (arr : String)
    (f : Expr) (hav : Option Expr) (n0 : String) (extra : List Expr) (v : Val)
    (hv : v ∈ (sourceRowsG o ao db (scopeOf o ao db own env0 ws) f).map (fun r => evalE o (scopeOf o ao db own env0 ws) r (.raw "trace_id")))
    (hhav : havingG o ao (scopeOf o ao db own env0 ws) (rowsWith o (scopeOf o ao db own env0 ws) (sourceRowsG o ao db (scopeOf o ao db own env0 ws) f) (.raw "trace_id") v) hav = true) :
    ∃ r ∈ evalSelG o ao db own env0 (tsel ws arr extra f hav n0), r.get "trace_id" = v := by
  unfold tsel
  rw [evalSelG_grouped]
  refine ⟨projG o (scopeOf o ao db own env0 ws) (tcols arr ++ extra)
    (rowsWith o (scopeOf o ao db own env0 ws) (sourceRowsG o ao db (scopeOf o ao db own env0 ws) f) (.raw "trace_id") v), ?_, ?_⟩
  · apply List.mem_map.mpr
    refine ⟨_, ?_, rfl⟩
    apply (groupsG_single o ao db _ f (.raw "trace_id") hav (tcols arr ++ extra) _).mem_iff.mpr
    exact List.mem_map.mpr ⟨v, List.mem_filter.mpr ⟨(mem_dedup _ _).mpr hv, hhav⟩, rfl⟩
  · obtain ⟨hne, hall⟩ := rowsWith_spec o _ _ (.raw "trace_id") _ hv
    obtain ⟨r0, rest, hg⟩ := List.ne_nil_iff_exists_cons.mp hne
    have hr0 := hall r0 (by rw [hg]; simp)
    simp only [projG, tcols, simpleCol, colName, Row.get, List.lookup, List.map_cons, List.cons_append, evalGrp, hg]
    simpa [evalE, Row.get] using hr0

theorem complexSel_tsel (isAnd : Bool) (pfx : String) (ops : List Sel) (extra : List Expr) :
    (complexSel isAnd pfx ops).addCols extra =
      tsel [] "groupUniqArray(100)" extra (.col (.setOp "UNION ALL" (operandSels isAnd 0 ops)) (pfx ++ "a"))
        (if isAnd then some (and_ [eq (.call "uniqExact" [.raw "_op"]) (.int ops.length)]) else none) "timestamp_ns" := by
  rw [complexSel_addCols]; rfl

def intOf : Val → Option Int
  | .int i => some i
  | _ => none

theorem mem_strsOf (vs : List Val) (b : Bytes) : b ∈ strsOf vs ↔ Val.str b ∈ vs := by
  unfold strsOf
  simp only [List.mem_filterMap]
  constructor
  · rintro ⟨v, hv, h⟩
    cases v <;> simp at h
    subst h; exact hv
  · intro h; exact ⟨_, h, rfl⟩

/-- **the groups of a `&&` / `||` node**: the group of a trace holds the rows of the operands that return the trace
    (one per span of their arrays, with the operand's recency): `max(timestamp_ns)` is the greatest recency value of those
    operands, the span array a choice among their spans -/
theorem complex_groupOk (o : Oracles) (ao : AggOracles) (db : Db) (isAnd : Bool) (pfx : String) (L R : Sel)
    (pL pR : Bytes → Bool) (vL vR : Bytes → List Int) (uL uR : Bytes → List Bytes) (perL perR : Bytes → List (List Bytes))
    (hL : RecSel o ao db L pL vL uL perL) (hR : RecSel o ao db R pR vR uR perR) (env : Env) :
    ∀ v ∈ (sourceRowsG o ao db env (.col (.setOp "UNION ALL" (operandSels isAnd 0 [L, R])) (pfx ++ "a"))).map
        (fun r => evalE o env r (.raw "trace_id")),
      havingG o ao env (rowsWith o env (sourceRowsG o ao db env (.col (.setOp "UNION ALL" (operandSels isAnd 0 [L, R])) (pfx ++ "a")))
          (.raw "trace_id") v)
        (if isAnd then some (and_ [eq (.call "uniqExact" [.raw "_op"]) (.int ([L, R] : List Sel).length)]) else none) = true →
      GroupOk o env "groupUniqArray(100)" ["timestamp_ns"] (nodeList isAnd pL pR vL vR) (nodeList isAnd pL pR uL uR)
        (nodeList isAnd pL pR perL perR) v
        (rowsWith o env (sourceRowsG o ao db env (.col (.setOp "UNION ALL" (operandSels isAnd 0 [L, R])) (pfx ++ "a"))) (.raw "trace_id") v) := by
  intro v hv hhav
  have hnode := complex_traceSel o ao db isAnd pfx L R _ _ hL.base hR.base
  have hTL := hL.base.rows [maxCol] env
  have hTR := hR.base.rows [maxCol] env
  have h0 := operandSel_eval o ao db env isAnd 0 L hL.base.withs (hL.base.own [maxCol] env)
    (fun r hr => by obtain ⟨tr, vs, h1, h2, _⟩ := hTL.shape r hr; exact ⟨tr, vs, h1, h2⟩)
  have h1 := operandSel_eval o ao db env isAnd 1 R hR.base.withs (hR.base.own [maxCol] env)
    (fun r hr => by obtain ⟨tr, vs, h1, h2, _⟩ := hTR.shape r hr; exact ⟨tr, vs, h1, h2⟩)
  have hsrc : sourceRowsG o ao db env (.col (.setOp "UNION ALL" (operandSels isAnd 0 [L, R])) (pfx ++ "a")) =
      (opRows isAnd 0 (evalSelG o ao db true env (L.addCols [maxCol])) ++
        opRows isAnd 1 (evalSelG o ao db true env (R.addCols [maxCol]))).map (qualify (pfx ++ "a")) := by
    simp [sourceRowsG, operandSels, evalSelsG, setOpRows, h0, h1, opRows]
  -- the node returns the trace
  obtain ⟨rn, hrn, hrnv⟩ := tsel_group_row o ao db true env [] "groupUniqArray(100)" _ _ "timestamp_ns" [] v
    hv hhav
  rw [← complexSel_tsel] at hrn
  obtain ⟨tr, _, htr, _, _⟩ := (hnode.rows [] env).shape rn hrn
  have hP : nodeP isAnd pL pR tr = true := by
    have := ((hnode.rows [] env).mem tr).mp ⟨rn, hrn, htr⟩
    unfold nodeP comb at *
    cases isAnd <;> simp at this ⊢ <;> exact this
  rw [htr] at hrnv
  subst hrnv
  rw [hsrc] at hv hhav ⊢
  generalize hTLe : evalSelG o ao db true env (L.addCols [maxCol]) = TL at hTL hv hhav ⊢
  generalize hTRe : evalSelG o ao db true env (R.addCols [maxCol]) = TR at hTR hv hhav ⊢
  generalize hg : rowsWith o env ((opRows isAnd 0 TL ++ opRows isAnd 1 TR).map (qualify (pfx ++ "a"))) (.raw "trace_id") (.str tr) = g
  have hget : ∀ (x : Row) (n : String), '.' ∉ n.toList → evalE o env (qualify (pfx ++ "a") x) (.raw n) = x.get n := by
    intro x n hn; simp [evalE, get_qualify_nodot _ _ _ hn]
  -- the rows of the group
  have hmemg : ∀ y, y ∈ g ↔ ∃ x, y = qualify (pfx ++ "a") x ∧ (x ∈ opRows isAnd 0 TL ∨ x ∈ opRows isAnd 1 TR) ∧ x.get "trace_id" = .str tr := by
    intro y
    rw [← hg]
    simp only [rowsWith, List.mem_filter, List.mem_map, List.mem_append, beq_iff_eq]
    constructor
    · rintro ⟨⟨x, hx, rfl⟩, hy⟩
      exact ⟨x, rfl, hx, by rw [hget _ _ tid_nodot] at hy; exact hy⟩
    · rintro ⟨x, rfl, hx, hy⟩
      exact ⟨⟨x, hx, rfl⟩, by rw [hget _ _ tid_nodot]; exact hy⟩
  -- what a row of an operand for this trace carries
  have hrowL : ∀ r ∈ TL, r.get "trace_id" = .str tr → pL tr = true ∧
      ∃ m, r.get "max_timestamp_ns" = .int m ∧ IsMaxOf m (vL tr) ∧ ∀ vs, r.get "span_id" = .strs vs → SpanSetOk (uL tr) (perL tr) vs := by
    intro r hr hrt
    rw [← hTLe] at hr
    obtain ⟨m, hm, hm'⟩ := hL.key env r tr hr hrt
    refine ⟨?_, m, hm, hm', fun vs hvs => hL.spans env [maxCol] r tr vs hr hrt hvs⟩
    rw [hTLe] at hr
    exact (hTL.mem tr).mp ⟨r, hr, hrt⟩
  have hrowR : ∀ r ∈ TR, r.get "trace_id" = .str tr → pR tr = true ∧
      ∃ m, r.get "max_timestamp_ns" = .int m ∧ IsMaxOf m (vR tr) ∧ ∀ vs, r.get "span_id" = .strs vs → SpanSetOk (uR tr) (perR tr) vs := by
    intro r hr hrt
    rw [← hTRe] at hr
    obtain ⟨m, hm, hm'⟩ := hR.key env r tr hr hrt
    refine ⟨?_, m, hm, hm', fun vs hvs => hR.spans env [maxCol] r tr vs hr hrt hvs⟩
    rw [hTRe] at hr
    exact (hTR.mem tr).mp ⟨r, hr, hrt⟩
  -- every row of the group: which operand row and which span it comes from
  have hrowg : ∀ y ∈ g, ∃ r vs v', r.get "trace_id" = .str tr ∧ r.get "span_id" = .strs vs ∧ v' ∈ vs ∧
      y.get "timestamp_ns" = r.get "max_timestamp_ns" ∧ evalE o env y (.raw "span_id") = .str v' ∧ (r ∈ TL ∨ r ∈ TR) := by
    intro y hy
    obtain ⟨x, rfl, hx, hxt⟩ := (hmemg y).mp hy
    rcases hx with hx | hx
    · obtain ⟨r, hr, vs, hvs, v', hv', rfl⟩ := (mem_opRows isAnd 0 TL x).mp hx
      rw [opRow_trace] at hxt
      exact ⟨r, vs, v', hxt, hvs, hv', by rw [get_qualify_nodot _ _ _ ts_nodot, opRow_ts], by rw [hget _ _ sid_nodot, opRow_span], Or.inl hr⟩
    · obtain ⟨r, hr, vs, hvs, v', hv', rfl⟩ := (mem_opRows isAnd 1 TR x).mp hx
      rw [opRow_trace] at hxt
      exact ⟨r, vs, v', hxt, hvs, hv', by rw [get_qualify_nodot _ _ _ ts_nodot, opRow_ts], by rw [hget _ _ sid_nodot, opRow_span], Or.inr hr⟩
  -- an operand that returns the trace has a row in the group for each span of its array
  have hinL : ∀ r ∈ TL, r.get "trace_id" = .str tr → ∀ vs, r.get "span_id" = .strs vs → ∀ v' ∈ vs,
      qualify (pfx ++ "a") (opRow isAnd 0 r v') ∈ g := by
    intro r hr hrt vs hvs v' hv'
    exact (hmemg _).mpr ⟨_, rfl, Or.inl ((mem_opRows isAnd 0 TL _).mpr ⟨r, hr, vs, hvs, v', hv', rfl⟩), by rw [opRow_trace]; exact hrt⟩
  have hinR : ∀ r ∈ TR, r.get "trace_id" = .str tr → ∀ vs, r.get "span_id" = .strs vs → ∀ v' ∈ vs,
      qualify (pfx ++ "a") (opRow isAnd 1 r v') ∈ g := by
    intro r hr hrt vs hvs v' hv'
    exact (hmemg _).mpr ⟨_, rfl, Or.inr ((mem_opRows isAnd 1 TR _).mpr ⟨r, hr, vs, hvs, v', hv', rfl⟩), by rw [opRow_trace]; exact hrt⟩
  have hexL : pL tr = true → ∃ r ∈ TL, r.get "trace_id" = .str tr ∧ ∃ vs, r.get "span_id" = .strs vs ∧ vs ≠ [] := by
    intro hp
    obtain ⟨r, hr, hrt⟩ := (hTL.mem tr).mpr hp
    obtain ⟨tr', vs, _, hvs, hne⟩ := hTL.shape r hr
    exact ⟨r, hr, hrt, vs, hvs, hne⟩
  have hexR : pR tr = true → ∃ r ∈ TR, r.get "trace_id" = .str tr ∧ ∃ vs, r.get "span_id" = .strs vs ∧ vs ≠ [] := by
    intro hp
    obtain ⟨r, hr, hrt⟩ := (hTR.mem tr).mpr hp
    obtain ⟨tr', vs, _, hvs, hne⟩ := hTR.shape r hr
    exact ⟨r, hr, hrt, vs, hvs, hne⟩
  have hgne : g ≠ [] := by
    rw [← hg]
    exact (rowsWith_spec o env _ (.raw "trace_id") _ hv).1
  refine ⟨tr, rfl, ?_, ?_⟩
  · -- max(timestamp_ns)
    intro n hn
    simp only [List.mem_singleton] at hn
    subst hn
    obtain ⟨m, hm, hm1, hm2⟩ := evalGrp_max o env g "timestamp_ns" ((g.map (fun r => r.get "timestamp_ns")).filterMap intOf)
      (by
        obtain ⟨y, hy⟩ := List.exists_mem_of_ne_nil g hgne
        obtain ⟨r, vs, v', hrt, hvs, hv', hyts, _, hr⟩ := hrowg y hy
        have : ∃ m, r.get "max_timestamp_ns" = .int m := by
          rcases hr with hr | hr
          · obtain ⟨_, m, hm, _⟩ := hrowL r hr hrt; exact ⟨m, hm⟩
          · obtain ⟨_, m, hm, _⟩ := hrowR r hr hrt; exact ⟨m, hm⟩
        obtain ⟨m, hm⟩ := this
        intro h0
        have : m ∈ (g.map (fun r => r.get "timestamp_ns")).filterMap intOf :=
          List.mem_filterMap.mpr ⟨.int m, List.mem_map.mpr ⟨y, hy, by rw [hyts, hm]⟩, rfl⟩
        rw [h0] at this; simp at this)
      (by
        intro i
        simp only [List.mem_filterMap]
        constructor
        · intro h; exact ⟨_, h, rfl⟩
        · rintro ⟨v', hv', h⟩
          cases v' <;> simp [intOf] at h
          subst h; exact hv')
    refine ⟨m, hm, ?_, ?_⟩
    · obtain ⟨v', hv', hi⟩ := List.mem_filterMap.mp hm1
      obtain ⟨y, hy, rfl⟩ := List.mem_map.mp hv'
      obtain ⟨r, vs, v'', hrt, hvs, _, hyts, _, hr⟩ := hrowg y hy
      rw [hyts] at hi
      rcases hr with hr | hr
      · obtain ⟨hp, m', hm', hmax, _⟩ := hrowL r hr hrt
        rw [hm'] at hi; simp [intOf] at hi; subst hi
        exact nodeList_supL isAnd pL pR vL vR tr hP hp _ hmax.1
      · obtain ⟨hp, m', hm', hmax, _⟩ := hrowR r hr hrt
        rw [hm'] at hi; simp [intOf] at hi; subst hi
        exact nodeList_supR isAnd pL pR vL vR tr hP hp _ hmax.1
    · intro x hx
      rcases nodeList_sub isAnd pL pR vL vR tr x hx with ⟨hp, hxl⟩ | ⟨hp, hxr⟩
      · obtain ⟨r, hr, hrt, vs, hvs, hne⟩ := hexL hp
        obtain ⟨_, m', hm', hmax, _⟩ := hrowL r hr hrt
        obtain ⟨v', hv'⟩ := List.exists_mem_of_ne_nil vs hne
        have hy := hinL r hr hrt vs hvs v' hv'
        have : m' ∈ (g.map (fun r => r.get "timestamp_ns")).filterMap intOf :=
          List.mem_filterMap.mpr ⟨.int m', List.mem_map.mpr ⟨_, hy, by rw [get_qualify_nodot _ _ _ ts_nodot, opRow_ts, hm']⟩, rfl⟩
        exact Int.le_trans (hmax.2 x hxl) (hm2 m' this)
      · obtain ⟨r, hr, hrt, vs, hvs, hne⟩ := hexR hp
        obtain ⟨_, m', hm', hmax, _⟩ := hrowR r hr hrt
        obtain ⟨v', hv'⟩ := List.exists_mem_of_ne_nil vs hne
        have hy := hinR r hr hrt vs hvs v' hv'
        have : m' ∈ (g.map (fun r => r.get "timestamp_ns")).filterMap intOf :=
          List.mem_filterMap.mpr ⟨.int m', List.mem_map.mpr ⟨_, hy, by rw [get_qualify_nodot _ _ _ ts_nodot, opRow_ts, hm']⟩, rfl⟩
        exact Int.le_trans (hmax.2 x hxr) (hm2 m' this)
  · -- the span array
    refine ⟨(dedup (strsOf (g.map (fun r => evalE o env r (.raw "span_id"))))).take 100, by simp [evalGrp], ?_⟩
    generalize hl' : strsOf (g.map (fun r => evalE o env r (.raw "span_id"))) = l'
    have hmeml : ∀ b, b ∈ l' ↔ ∃ y ∈ g, evalE o env y (.raw "span_id") = .str b := by
      intro b
      rw [← hl', mem_strsOf, List.mem_map]
    have hsound : ∀ b ∈ l', b ∈ nodeList isAnd pL pR uL uR tr := by
      intro b hb
      obtain ⟨y, hy, hyb⟩ := (hmeml b).mp hb
      obtain ⟨r, vs, v', hrt, hvs, hv', _, hys, hr⟩ := hrowg y hy
      rw [hys] at hyb; cases hyb
      rcases hr with hr | hr
      · obtain ⟨hp, _, _, _, hok⟩ := hrowL r hr hrt
        exact nodeList_supL isAnd pL pR uL uR tr hP hp _ ((hok vs hvs).sound _ hv')
      · obtain ⟨hp, _, _, _, hok⟩ := hrowR r hr hrt
        exact nodeList_supR isAnd pL pR uL uR tr hP hp _ ((hok vs hvs).sound _ hv')
    refine ⟨?_, List.Nodup.sublist (List.take_sublist _ _) (nodup_dedup _), ?_, List.length_take_le _ _, ?_⟩
    · obtain ⟨y, hy⟩ := List.exists_mem_of_ne_nil g hgne
      obtain ⟨r, vs, v', _, _, _, _, hys, _⟩ := hrowg y hy
      have hb : v' ∈ dedup l' := (mem_dedup _ _).mpr ((hmeml v').mpr ⟨y, hy, hys⟩)
      intro h0
      cases hd : dedup l' with
      | nil => rw [hd] at hb; simp at hb
      | cons a as => rw [hd] at h0; simp at h0
    · intro b hb
      exact hsound b ((mem_dedup _ _).mp (List.mem_of_mem_take hb))
    · intro hper hU u hu
      have hlen : (dedup l').length ≤ 100 :=
        Nat.le_trans (nodup_subset_length _ _ (nodup_dedup _)
          (fun b hb => (mem_dedup _ _).mpr (hsound b ((mem_dedup _ _).mp hb)))) hU
      rw [List.take_of_length_le hlen, mem_dedup]
      rcases nodeList_sub isAnd pL pR uL uR tr u hu with ⟨hp, hul⟩ | ⟨hp, hur⟩
      · obtain ⟨r, hr, hrt, vs, hvs, _⟩ := hexL hp
        obtain ⟨_, _, _, _, hok⟩ := hrowL r hr hrt
        have hu' := (hok vs hvs).complete
          (fun l hl => hper l (nodeList_supL isAnd pL pR perL perR tr hP hp l hl))
          (Nat.le_trans (nodup_subset_length _ _ (nodup_dedup _)
            (fun b hb => (mem_dedup _ _).mpr (nodeList_supL isAnd pL pR uL uR tr hP hp b ((mem_dedup _ _).mp hb)))) hU) u hul
        exact (hmeml u).mpr ⟨_, hinL r hr hrt vs hvs u hu', by rw [hget _ _ sid_nodot, opRow_span]⟩
      · obtain ⟨r, hr, hrt, vs, hvs, _⟩ := hexR hp
        obtain ⟨_, _, _, _, hok⟩ := hrowR r hr hrt
        have hu' := (hok vs hvs).complete
          (fun l hl => hper l (nodeList_supR isAnd pL pR perL perR tr hP hp l hl))
          (Nat.le_trans (nodup_subset_length _ _ (nodup_dedup _)
            (fun b hb => (mem_dedup _ _).mpr (nodeList_supR isAnd pL pR uL uR tr hP hp b ((mem_dedup _ _).mp hb)))) hU) u hur
        exact (hmeml u).mpr ⟨_, hinR r hr hrt vs hvs u hu', by rw [hget _ _ sid_nodot, opRow_span]⟩

/-- **`&&` and `||` nodes** carry the invariant -/
theorem complex_recSel (o : Oracles) (ao : AggOracles) (db : Db) (isAnd : Bool) (pfx : String) (L R : Sel)
    (pL pR : Bytes → Bool) (vL vR : Bytes → List Int) (uL uR : Bytes → List Bytes) (perL perR : Bytes → List (List Bytes))
    (hL : RecSel o ao db L pL vL uL perL) (hR : RecSel o ao db R pR vR uR perR) :
    RecSel o ao db (complexSel isAnd pfx [L, R]) (nodeP isAnd pL pR) (nodeList isAnd pL pR vL vR)
      (nodeList isAnd pL pR uL uR) (nodeList isAnd pL pR perL perR) := by
  have hbase := (complex_traceSel o ao db isAnd pfx L R _ _ hL.base hR.base).congr (P' := fun tr => nodeP isAnd pL pR tr = true)
    (fun tr => by unfold nodeP comb; cases isAnd <;> simp)
  refine ⟨hbase, ?_, ?_, ?_⟩
  · intro env r tr hr htr
    rw [complexSel_tsel] at hr
    exact tsel_key o ao db true env [] "groupUniqArray(100)" _ _ _ ["timestamp_ns"] _ _ _ "timestamp_ns" "max_timestamp_ns"
      (by simp) (by decide) (by decide) r hr (complex_groupOk o ao db isAnd pfx L R pL pR vL vR uL uR perL perR hL hR env) tr htr
  · intro env extra r tr vs hr htr hvs
    rw [complexSel_tsel] at hr
    obtain ⟨g, tr', vs', _, htr', hvs', hok, _⟩ := tsel_row o ao db true env [] "groupUniqArray(100)" _ _ _ ["timestamp_ns"] _ _ _ extra r hr
      (complex_groupOk o ao db isAnd pfx L R pL pR vL vR uL uR perL perR hL hR env)
    rw [htr'] at htr; cases htr
    rw [hvs'] at hvs; cases hvs
    exact hok
  · intro env
    have := complexSel_tsel isAnd pfx [L, R] []
    rw [addCols_nil] at this
    rw [this]
    exact tsel_sorted o ao db true env [] "groupUniqArray(100)" _ _ _ ["timestamp_ns"] _ _ _ [] (by simp)
      (complex_groupOk o ao db isAnd pfx L R pL pR vL vR uL uR perL perR hL hR env)

/-! ### the tree of a script -/
def treeP (m : Selector → Bytes → Bool) (t : XTree) (tr : Bytes) : Bool := treeHolds (fun s => m s tr) t

/-- a per-trace list over the tree: the leaf's list at a selector, `nodeList` at the nodes -/
def treeL {α} (m : Selector → Bytes → Bool) (leaf : Selector → Bytes → List α) : XTree → Bytes → List α
  | .simple sc _ => fun tr => match sc with | (s, _) :: _ => leaf s tr | [] => []
  | .complex isAnd _ l r => nodeList isAnd (treeP m l) (treeP m r) (treeL m leaf l) (treeL m leaf r)

def selIdsOf (o : Oracles) (c : Ctx) (d : TraceDb) (s : Selector) (tr : Bytes) : List Bytes := selSpans o c d s tr

section
variable (o : Oracles) (ao : AggOracles) (hp : PermInv ao) (c : Ctx) (d : TraceDb) (hcons : DurConsistent (d.seen o c))
  (hts : TsConsistent (d.seen o c))
include hp hcons hts

theorem tree_recSel : ∀ (t : XTree) (X : Sel), treeSel c t = .ok X →
    (∀ sc ∈ t.leaves, ∃ s op rest, sc = (s, op) :: rest ∧ SelOk s) →
    RecSel o ao (d.toDb c) X (treeP (fun s tr => selMatches o ao c (d.seen o c) s tr) t)
      (treeL (fun s tr => selMatches o ao c (d.seen o c) s tr) (selTs o c (d.seen o c)) t)
      (treeL (fun s tr => selMatches o ao c (d.seen o c) s tr) (selSpans o c (d.seen o c)) t)
      (treeL (fun s tr => selMatches o ao c (d.seen o c) s tr) (fun s tr => [selSpans o c (d.seen o c) s tr]) t)
  | .simple script k, X, h, hl => by
    obtain ⟨s, op, rest, rfl, hs⟩ := hl script (by simp [XTree.leaves])
    simp only [treeSel] at h
    obtain ⟨e, he, hrec⟩ := simple_recSel o ao hp c d hcons hts _ s op rest X h hs
    have e1 : treeP (fun s tr => selMatches o ao c (d.seen o c) s tr) (.simple ((s, op) :: rest) k) =
        fun tr => selMatches o ao c (d.seen o c) s tr := by funext tr; simp [treeP, treeHolds, headHolds]
    have e2 : treeL (fun s tr => selMatches o ao c (d.seen o c) s tr) (selTs o c (d.seen o c)) (.simple ((s, op) :: rest) k) =
        selVals o c (d.seen o c) e := by funext tr; simp [treeL, selTs, he, selVals]
    have e3 : treeL (fun s tr => selMatches o ao c (d.seen o c) s tr) (selSpans o c (d.seen o c)) (.simple ((s, op) :: rest) k) =
        selIds o c (d.seen o c) e := by funext tr; simp [treeL, selSpans, he, selIds]
    have e4 : treeL (fun s tr => selMatches o ao c (d.seen o c) s tr) (fun s tr => [selSpans o c (d.seen o c) s tr]) (.simple ((s, op) :: rest) k) =
        fun tr => [selIds o c (d.seen o c) e tr] := by funext tr; simp [treeL, selSpans, he, selIds]
    rw [e1, e2, e3, e4]
    exact hrec
  | .complex isAnd k l r, X, h, hl => by
    simp only [treeSel, bind, Except.bind] at h
    cases hls : treeSel c l with
    | error m => simp [hls] at h
    | ok ls =>
      cases hrs : treeSel c r with
      | error m => simp [hls, hrs] at h
      | ok rs =>
        simp [hls, hrs, pure, Except.pure] at h
        subst h
        have ihl := tree_recSel l ls hls (fun sc hsc => hl sc (by simp [XTree.leaves, hsc]))
        have ihr := tree_recSel r rs hrs (fun sc hsc => hl sc (by simp [XTree.leaves, hsc]))
        have := complex_recSel o ao (d.toDb c) isAnd (pfxText k) ls rs _ _ _ _ _ _ _ _ ihl ihr
        have ep : treeP (fun s tr => selMatches o ao c (d.seen o c) s tr) (.complex isAnd k l r) =
            nodeP isAnd (treeP (fun s tr => selMatches o ao c (d.seen o c) s tr) l) (treeP (fun s tr => selMatches o ao c (d.seen o c) s tr) r) := by
          funext tr; simp [treeP, treeHolds, nodeP]
        rw [ep]
        exact this
end

end Qryn.TraceQL
