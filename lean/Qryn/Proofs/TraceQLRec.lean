import Qryn.Proofs.TraceQLOrder
/-! C11: what a trace select carries besides WHICH traces it returns — the recency key `ORDER BY max(…) DESC`
    sorts by, the span arrays — for one selector (`IndexGroupByPlanner` over the index scan), for `&&` / `||` nodes
    and for the tree of a script. -/
namespace Qryn.TraceQL
open Qryn Qryn.Sql

/-! ### lists -/
theorem nodup_subset_length {α} [DecidableEq α] : ∀ (l s : List α), l.Nodup → (∀ x ∈ l, x ∈ s) → l.length ≤ s.length
  | [], _, _, _ => by simp
  | x :: xs, s, hn, hs => by
    rw [List.nodup_cons] at hn
    have hx : x ∈ s := hs x (by simp)
    have := nodup_subset_length xs (s.erase x) hn.2 (by
      intro y hy
      have hyx : y ≠ x := fun h => hn.1 (h ▸ hy)
      exact (List.mem_erase_of_ne hyx).mpr (hs y (List.mem_cons_of_mem _ hy)))
    rw [List.length_erase_of_mem hx] at this
    have hpos : 0 < s.length := List.length_pos_of_mem hx
    simp only [List.length_cons]
    omega

theorem dedup_length_mono {α} [DecidableEq α] (a b : List α) : (dedup a).length ≤ (dedup (a ++ b)).length :=
  nodup_subset_length _ _ (nodup_dedup a) (fun x hx => (mem_dedup _ _).mpr (List.mem_append_left _ ((mem_dedup _ _).mp hx)))

theorem dedup_length_mono_right {α} [DecidableEq α] (a b : List α) : (dedup b).length ≤ (dedup (a ++ b)).length :=
  nodup_subset_length _ _ (nodup_dedup b) (fun x hx => (mem_dedup _ _).mpr (List.mem_append_right _ ((mem_dedup _ _).mp hx)))

theorem strsOf_map_str {α} (f : α → Bytes) (l : List α) : strsOf (l.map (fun a => Val.str (f a))) = l.map f := by
  induction l with
  | nil => rfl
  | cons x xs ih => simp only [List.map_cons, strsOf, List.filterMap_cons] at ih ⊢; rw [ih]

/-- `groupArray(100)` of a list that is, up to order, the list `U` without repetition -/
theorem spanSet_take (U l : List Bytes) (hp : l.Perm U) (hn : U.Nodup) (hne : U ≠ []) :
    SpanSetOk U [U] (l.take 100) := by
  have hln : l.Nodup := hp.nodup_iff.mpr hn
  refine ⟨?_, List.Nodup.sublist (List.take_sublist _ _) hln, ?_, List.length_take_le _ _, ?_⟩
  · intro h
    have : l = [] := by
      cases l with
      | nil => rfl
      | cons x xs => simp at h
    rw [this] at hp
    exact hne hp.symm.eq_nil
  · intro v hv; exact hp.mem_iff.mp (List.mem_of_mem_take hv)
  · intro h1 _ u hu
    have : l.length ≤ 100 := by rw [hp.length_eq]; exact h1 U (by simp)
    rw [List.take_of_length_le this]
    exact hp.mem_iff.mpr hu

/-! ### one selector -/
/-- `any(timestamp_ns)` of the row the index scan returns for a span: the span's start time -/
theorem rowA_ts (o : Oracles) (env : Env) (c : Ctx) (d : TraceDb) (wh : List Expr) (aggAttr : String) (k : SpanKey)
    (hts : TsConsistent d) (hne : grpA o env c d wh k ≠ []) :
    (rowA o env c d wh aggAttr k).lookup "timestamp_ns" = some (.int (spanTs c d k)) := by
  simp only [rowA, projG, idxCols, simpleCol, colName, List.lookup, List.map_append, List.map_cons, List.map_nil,
    List.cons_append, List.nil_append]
  simp only [show ("timestamp_ns" == "trace_id") = false from by decide, show ("timestamp_ns" == "span_id") = false from by decide,
    show ("timestamp_ns" == "duration") = false from by decide, show ("timestamp_ns" == "timestamp_ns") = true from by decide,
    evalGrp]
  obtain ⟨r0, rest, hg⟩ := List.ne_nil_iff_exists_cons.mp hne
  obtain ⟨a, ha, rfl, hk, hok⟩ := grpA_mem o env c d wh k r0 (by rw [hg]; simp)
  have hd : evalE o env a.qrow (.raw "timestamp_ns") = .int a.ts := by simp [evalE, qrow_ts]
  rw [hg]
  simp only [if_true, List.map_cons, firstNonNull, hd]
  simp only [List.find?, show (Val.int a.ts != Val.null) = true from by simp, Option.getD_some]
  unfold spanTs
  cases hf : d.attrs.find? (fun a => a.span == k && admissible c a) with
  | none =>
    have := List.find?_eq_none.mp hf a ha
    simp [hk, rowOk_admissible o env c wh a hok] at this
  | some a' =>
    have hp := List.find?_some hf
    simp only [Bool.and_eq_true, beq_iff_eq] at hp
    have := hts a ha a' (List.mem_of_find?_eq_some hf) (by rw [hk, hp.1])
    simp [this]

/-! ### selects grouped by `trace_id` -/
/-- the two columns every trace select starts with; `arr` is `groupArray(100)` or `groupUniqArray(100)` -/
def tcols (arr : String) : List Expr :=
  [simpleCol "trace_id" "trace_id", .col (.call arr [.raw "span_id"]) "span_id"]

/-- the shape of every trace select: grouped by `trace_id`, newest `max(n0)` first -/
def tsel (ws : List (Alias × Sel)) (arr : String) (extra : List Expr) (f : Expr) (hav : Option Expr) (n0 : String) : Sel :=
  .mk ws false (tcols arr ++ extra) (some f) [] none none [.raw "trace_id"] hav
    [.orderBy (.call "max" [.raw n0]) .desc] none

/-- what is known of the group of one key value: it is the group of a trace `tr`; `max(n)` over it is the
    greatest element of `vals tr`; the span array over it is an admissible choice among `U tr` -/
def GroupOk (o : Oracles) (env : Env) (arr : String) (names : List String) (vals : Bytes → List Int)
    (U : Bytes → List Bytes) (per : Bytes → List (List Bytes)) (v : Val) (g : List Row) : Prop :=
  ∃ tr, v = .str tr ∧
    (∀ n ∈ names, ∃ m, evalGrp o env g (.call "max" [.raw n]) = .int m ∧ IsMaxOf m (vals tr)) ∧
    ∃ vs, evalGrp o env g (.call arr [.raw "span_id"]) = .strs vs ∧ SpanSetOk (U tr) (per tr) vs

def traceIdOf (r : Row) : Option Bytes := match r.get "trace_id" with | .str t => some t | _ => none

/-- newest first: a later trace is not more recent than an earlier one (`vals` lists the start times the
    recency of a trace is the greatest of) -/
def NewestFirst (vals : Bytes → List Int) (l : List Bytes) : Prop :=
  l.Pairwise (fun a b => ∀ ma mb, IsMaxOf ma (vals a) → IsMaxOf mb (vals b) → mb ≤ ma)

section
variable (o : Oracles) (ao : AggOracles) (db : Db) (own : Bool) (env0 : Env) (ws : List (Alias × Sel)) (arr : String)
  (f : Expr) (hav : Option Expr) (n0 : String) (names : List String) (vals : Bytes → List Int)
  (U : Bytes → List Bytes) (per : Bytes → List (List Bytes))

/-- the scope the body of the select is evaluated in -/
abbrev scopeOf : Env := if own then evalWithsG o ao db env0 ws else env0

theorem tsel_row (extra : List Expr) (r : Row) (hr : r ∈ evalSelG o ao db own env0 (tsel ws arr extra f hav n0))
    (hG : ∀ v ∈ (sourceRowsG o ao db (scopeOf o ao db own env0 ws) f).map (fun r => evalE o (scopeOf o ao db own env0 ws) r (.raw "trace_id")),
      havingG o ao (scopeOf o ao db own env0 ws) (rowsWith o (scopeOf o ao db own env0 ws) (sourceRowsG o ao db (scopeOf o ao db own env0 ws) f) (.raw "trace_id") v) hav = true →
      GroupOk o (scopeOf o ao db own env0 ws) arr names vals U per v
        (rowsWith o (scopeOf o ao db own env0 ws) (sourceRowsG o ao db (scopeOf o ao db own env0 ws) f) (.raw "trace_id") v)) :
    ∃ g tr vs, r = projG o (scopeOf o ao db own env0 ws) (tcols arr ++ extra) g ∧ r.get "trace_id" = .str tr ∧
      r.get "span_id" = .strs vs ∧ SpanSetOk (U tr) (per tr) vs ∧
      (∀ n ∈ names, ∃ m, evalGrp o (scopeOf o ao db own env0 ws) g (.call "max" [.raw n]) = .int m ∧ IsMaxOf m (vals tr)) := by
  unfold tsel at hr
  obtain ⟨v, hv, hhav, rfl⟩ := row_group o ao db own env0 ws false _ f (.raw "trace_id") hav _ r hr
  obtain ⟨tr, rfl, hmax, vs, hvs, hok⟩ := hG v hv hhav
  obtain ⟨hne, hall⟩ := rowsWith_spec o _ _ (.raw "trace_id") _ hv
  obtain ⟨r0, rest, hg⟩ := List.ne_nil_iff_exists_cons.mp hne
  have hr0 := hall r0 (by rw [hg]; simp)
  refine ⟨_, tr, vs, rfl, ?_, ?_, hok, hmax⟩
  · simp only [projG, tcols, simpleCol, colName, Row.get, List.lookup, List.map_cons, List.cons_append, evalGrp, hg]
    simpa [evalE, Row.get] using hr0
  · have : ∀ g : List Row, (projG o (scopeOf o ao db own env0 ws) (tcols arr ++ extra) g).get "span_id" =
        evalGrp o (scopeOf o ao db own env0 ws) g (.call arr [.raw "span_id"]) := by
      intro g
      simp [projG, tcols, simpleCol, colName, Row.get, List.lookup, evalGrp]
    rw [this, hvs]

/-- the groups of a trace select are the groups of key values whose group passes HAVING -/
theorem tsel_groups (extra ob : List Expr) (g : List Row)
    (hg : g ∈ groupsG o ao db (scopeOf o ao db own env0 ws) f none [.raw "trace_id"] hav (tcols arr ++ extra) ob none) :
    ∃ v, v ∈ (sourceRowsG o ao db (scopeOf o ao db own env0 ws) f).map (fun r => evalE o (scopeOf o ao db own env0 ws) r (.raw "trace_id")) ∧
      havingG o ao (scopeOf o ao db own env0 ws) (rowsWith o (scopeOf o ao db own env0 ws) (sourceRowsG o ao db (scopeOf o ao db own env0 ws) f) (.raw "trace_id") v) hav = true ∧
      g = rowsWith o (scopeOf o ao db own env0 ws) (sourceRowsG o ao db (scopeOf o ao db own env0 ws) f) (.raw "trace_id") v := by
  have := (groupsG_single o ao db _ f (.raw "trace_id") hav (tcols arr ++ extra) ob).mem_iff.mp hg
  obtain ⟨v, hv, rfl⟩ := List.mem_map.mp this
  obtain ⟨hv1, hv2⟩ := List.mem_filter.mp hv
  exact ⟨v, (mem_dedup _ _).mp hv1, hv2, rfl⟩

/-- **ORDER BY max(n0) DESC**: the traces come newest first -/
theorem tsel_sorted (extra : List Expr) (hn0 : n0 ∈ names)
    (hG : ∀ v ∈ (sourceRowsG o ao db (scopeOf o ao db own env0 ws) f).map (fun r => evalE o (scopeOf o ao db own env0 ws) r (.raw "trace_id")),
      havingG o ao (scopeOf o ao db own env0 ws) (rowsWith o (scopeOf o ao db own env0 ws) (sourceRowsG o ao db (scopeOf o ao db own env0 ws) f) (.raw "trace_id") v) hav = true →
      GroupOk o (scopeOf o ao db own env0 ws) arr names vals U per v
        (rowsWith o (scopeOf o ao db own env0 ws) (sourceRowsG o ao db (scopeOf o ao db own env0 ws) f) (.raw "trace_id") v)) :
    NewestFirst vals ((evalSelG o ao db own env0 (tsel ws arr extra f hav n0)).filterMap traceIdOf) := by
  unfold tsel NewestFirst
  rw [evalSelG_grouped, List.filterMap_map, List.pairwise_filterMap]
  have hint : ∀ g ∈ groupsG o ao db (scopeOf o ao db own env0 ws) f none [.raw "trace_id"] hav (tcols arr ++ extra) [] none,
      ∃ i, evalGrp o (scopeOf o ao db own env0 ws) g (.call "max" [.raw n0]) = .int i := by
    intro g hg
    obtain ⟨v, hv, hhav, rfl⟩ := tsel_groups o ao db own env0 ws arr f hav extra [] g hg
    obtain ⟨tr, _, hmax, _⟩ := hG v hv hhav
    obtain ⟨m, hm, _⟩ := hmax n0 hn0
    exact ⟨m, hm⟩
  have hs := grouped_sorted o ao db (scopeOf o ao db own env0 ws) f none [.raw "trace_id"] hav (tcols arr ++ extra) "max" [.raw n0] hint
  refine List.Pairwise.imp_of_mem ?_ hs
  intro a b ha hb hab ta hta tb htb ma mb hma hmb
  obtain ⟨va, hva, hhava, rfl⟩ := tsel_groups o ao db own env0 ws arr f hav extra _ a ha
  obtain ⟨vb, hvb, hhavb, rfl⟩ := tsel_groups o ao db own env0 ws arr f hav extra _ b hb
  obtain ⟨tra, rfl, hmaxa, _⟩ := hG va hva hhava
  obtain ⟨trb, rfl, hmaxb, _⟩ := hG vb hvb hhavb
  obtain ⟨ia, hia, hia'⟩ := hmaxa n0 hn0
  obtain ⟨ib, hib, hib'⟩ := hmaxb n0 hn0
  have key : ∀ (v : Val) (t : Bytes) (hv : Val.str t ∈ (sourceRowsG o ao db (scopeOf o ao db own env0 ws) f).map (fun r => evalE o (scopeOf o ao db own env0 ws) r (.raw "trace_id"))),
      (traceIdOf ∘ projG o (scopeOf o ao db own env0 ws) (tcols arr ++ extra))
        (rowsWith o (scopeOf o ao db own env0 ws) (sourceRowsG o ao db (scopeOf o ao db own env0 ws) f) (.raw "trace_id") (.str t)) = some t := by
    intro _ t hv
    obtain ⟨hne, hall⟩ := rowsWith_spec o _ _ (.raw "trace_id") _ hv
    obtain ⟨r0, rest, hg⟩ := List.ne_nil_iff_exists_cons.mp hne
    have hr0 := hall r0 (by rw [hg]; simp)
    have : (projG o (scopeOf o ao db own env0 ws) (tcols arr ++ extra)
        (rowsWith o (scopeOf o ao db own env0 ws) (sourceRowsG o ao db (scopeOf o ao db own env0 ws) f) (.raw "trace_id") (.str t))).get "trace_id" = .str t := by
      simp only [projG, tcols, simpleCol, colName, Row.get, List.lookup, List.map_cons, List.cons_append, evalGrp, hg]
      simpa [evalE, Row.get] using hr0
    simp only [Function.comp, traceIdOf, this]
  rw [key (.str tra) tra hva] at hta
  rw [key (.str trb) trb hvb] at htb
  cases hta; cases htb
  have e1 := hia'.unique hma
  have e2 := hib'.unique hmb
  subst e1; subst e2
  exact hab _ _ hia hib

/-- the value of an added column `max(n) as a` in the row of a trace -/
theorem tsel_key (n a : String) (hn : n ∈ names) (ha1 : (a == "trace_id") = false) (ha2 : (a == "span_id") = false)
    (r : Row) (hr : r ∈ evalSelG o ao db own env0 (tsel ws arr [.col (.call "max" [.raw n]) a] f hav n0))
    (hG : ∀ v ∈ (sourceRowsG o ao db (scopeOf o ao db own env0 ws) f).map (fun r => evalE o (scopeOf o ao db own env0 ws) r (.raw "trace_id")),
      havingG o ao (scopeOf o ao db own env0 ws) (rowsWith o (scopeOf o ao db own env0 ws) (sourceRowsG o ao db (scopeOf o ao db own env0 ws) f) (.raw "trace_id") v) hav = true →
      GroupOk o (scopeOf o ao db own env0 ws) arr names vals U per v
        (rowsWith o (scopeOf o ao db own env0 ws) (sourceRowsG o ao db (scopeOf o ao db own env0 ws) f) (.raw "trace_id") v))
    (tr : Bytes) (htr : r.get "trace_id" = .str tr) : ∃ m, r.get a = .int m ∧ IsMaxOf m (vals tr) := by
  obtain ⟨g, tr', vs, rfl, htr', _, _, hmax⟩ := tsel_row o ao db own env0 ws arr f hav n0 names vals U per _ r hr hG
  rw [htr'] at htr
  cases htr
  obtain ⟨m, hm, hm'⟩ := hmax n hn
  refine ⟨m, ?_, hm'⟩
  simp only [projG, tcols, simpleCol, colName, Row.get, List.lookup, List.map_cons, List.map_nil, List.cons_append, List.nil_append,
    ha1, ha2, beq_self_eq_true, Option.getD_some, evalGrp]
  simpa [evalGrp] using hm
end

/-! ### one selector -/
theorem grpSel_tsel (pfx : String) (extra : List Expr) (hav : Option Expr) (SA : Sel) :
    grpSel pfx extra hav SA =
      tsel [(.named (pfx ++ "index_search"), SA)] "groupArray(100)" extra (.withRef (.named (pfx ++ "index_search"))) hav
        (pfx ++ "index_search.timestamp_ns") := rfl

/-- recency values and selected span ids of a trace under one selector's conditions -/
def selVals (o : Oracles) (c : Ctx) (d : TraceDb) (e : AttrExp) (tr : Bytes) : List Int :=
  (matchedSpans o c d e tr).map (spanTs c d)
def selIds (o : Oracles) (c : Ctx) (d : TraceDb) (e : AttrExp) (tr : Bytes) : List Bytes :=
  (matchedSpans o c d e tr).map (·.2)

theorem matchedSpans_nodup (o : Oracles) (c : Ctx) (d : TraceDb) (e : AttrExp) (tr : Bytes) : (matchedSpans o c d e tr).Nodup :=
  List.Nodup.sublist List.filter_sublist (nodup_dedup _)

theorem selIds_nodup (o : Oracles) (c : Ctx) (d : TraceDb) (e : AttrExp) (tr : Bytes) : (selIds o c d e tr).Nodup := by
  unfold selIds
  apply nodup_map_of_inj_on _ _ (matchedSpans_nodup o c d e tr)
  intro a ha b hb hab
  simp only [matchedSpans, List.mem_filter, Bool.and_eq_true, beq_iff_eq] at ha hb
  exact Prod.ext (ha.2.1.trans hb.2.1.symm) hab

/-- **the groups of the select planned for one selector**: the group of a trace holds one row per selected span;
    `max(timestamp_ns)` over it (named bare or through the CTE alias) is the start of the newest selected span, the span
    array holds the first 100 selected span ids -/
theorem simple_groupOk (o : Oracles) (ao : AggOracles) (c : Ctx) (d : TraceDb) (hts : TsConsistent (d.seen o c))
    (pfx : String) (s : Selector) (op : ScriptOp) (rest : Script) (X : Sel)
    (h : simpleSel c pfx ((s, op) :: rest) = .ok X) (hs : SelOk s) (env : Env) :
    ∃ hav SA e, s.attrs = some e ∧ X = grpSel pfx [] hav SA ∧
      ∀ v ∈ (sourceRowsG o ao (d.toDb c) ((.named (pfx ++ "index_search"), evalSelG o ao (d.toDb c) false env SA) :: env)
              (.withRef (.named (pfx ++ "index_search")))).map
            (fun r => evalE o ((.named (pfx ++ "index_search"), evalSelG o ao (d.toDb c) false env SA) :: env) r (.raw "trace_id")),
        GroupOk o ((.named (pfx ++ "index_search"), evalSelG o ao (d.toDb c) false env SA) :: env) "groupArray(100)"
          ["timestamp_ns", pfx ++ "index_search.timestamp_ns"]
          (selVals o c (d.seen o c) e) (selIds o c (d.seen o c) e) (fun tr => [selIds o c (d.seen o c) e tr]) v
          (rowsWith o ((.named (pfx ++ "index_search"), evalSelG o ao (d.toDb c) false env SA) :: env)
            (sourceRowsG o ao (d.toDb c) ((.named (pfx ++ "index_search"), evalSelG o ao (d.toDb c) false env SA) :: env)
              (.withRef (.named (pfx ++ "index_search")))) (.raw "trace_id") v) := by
  obtain ⟨e, he, hinj⟩ := hs.attrs
  obtain ⟨es, hm, h64, hX⟩ := simpleSel_shape c pfx s op rest X e h he
  have hstage := fun (aggAttr : String) => stageA_perm o ao c d false env e es aggAttr hinj hm h64
  generalize d.seen o c = ds at hts hstage ⊢
  -- the common part, for either shape of HAVING
  have key : ∀ (aggAttr : String),
      ∀ v ∈ (sourceRowsG o ao (d.toDb c) ((.named (pfx ++ "index_search"), evalSelG o ao (d.toDb c) false env (idxSel c es (analyzeCond [] e).2 aggAttr)) :: env)
              (.withRef (.named (pfx ++ "index_search")))).map
            (fun r => evalE o ((.named (pfx ++ "index_search"), evalSelG o ao (d.toDb c) false env (idxSel c es (analyzeCond [] e).2 aggAttr)) :: env) r (.raw "trace_id")),
        GroupOk o ((.named (pfx ++ "index_search"), evalSelG o ao (d.toDb c) false env (idxSel c es (analyzeCond [] e).2 aggAttr)) :: env) "groupArray(100)"
          ["timestamp_ns", pfx ++ "index_search.timestamp_ns"]
          (selVals o c ds e) (selIds o c ds e) (fun tr => [selIds o c ds e tr]) v
          (rowsWith o ((.named (pfx ++ "index_search"), evalSelG o ao (d.toDb c) false env (idxSel c es (analyzeCond [] e).2 aggAttr)) :: env)
            (sourceRowsG o ao (d.toDb c) ((.named (pfx ++ "index_search"), evalSelG o ao (d.toDb c) false env (idxSel c es (analyzeCond [] e).2 aggAttr)) :: env)
              (.withRef (.named (pfx ++ "index_search")))) (.raw "trace_id") v) := by
    intro aggAttr v hv
    generalize hA : evalSelG o ao (d.toDb c) false env (idxSel c es (analyzeCond [] e).2 aggAttr) = A at hv ⊢
    generalize henv : ((Alias.named (pfx ++ "index_search"), A) :: env : Env) = env' at hv ⊢
    have hne : ∀ k ∈ (spans c ds).filter (spanHolds o c ds e), grpA o env c ds (es ++ aggWhere aggAttr) k ≠ [] := by
      intro k hk
      obtain ⟨a, ha, hka, hok⟩ := spanHolds_rowOk o env c ds e es (es ++ aggWhere aggAttr) hinj hm
        (fun x hx => List.mem_append_left _ hx) k (List.mem_filter.mp hk).2
      exact grpA_ne_nil o env c ds _ k a ha hka hok
    have hSR : SpanRows A ((spans c ds).filter (spanHolds o c ds e)) (rowA o env c ds (es ++ aggWhere aggAttr) aggAttr) := by
      rw [← hA]
      exact ⟨hstage aggAttr, List.Nodup.sublist List.filter_sublist (nodup_dedup _),
        fun k hk => rowA_trace o env c ds _ aggAttr k (hne k hk),
        fun k hk => rowA_span o env c ds _ aggAttr k (hne k hk)⟩
    have hsrc : sourceRowsG o ao (d.toDb c) env' (.withRef (.named (pfx ++ "index_search"))) = A.map (qualify (pfx ++ "index_search")) := by
      rw [← henv]; simp [sourceRowsG, Alias.text, List.lookup]
    rw [hsrc] at hv ⊢
    obtain ⟨k0, hk0, rfl⟩ := (tids_mem o env' (pfx ++ "index_search") A _ _ hSR v).mp hv
    have hcanon := rowsWith_trace o env' (pfx ++ "index_search") A _ _ hSR k0.1
    simp only [matchedSpans_eq] at hcanon
    have hk0m : k0 ∈ matchedSpans o c ds e k0.1 := by
      rw [← matchedSpans_eq]
      exact List.mem_filter.mpr ⟨hk0, by simp⟩
    have hmem : ∀ k ∈ matchedSpans o c ds e k0.1, k ∈ (spans c ds).filter (spanHolds o c ds e) := by
      intro k hk; rw [← matchedSpans_eq] at hk; exact (List.mem_filter.mp hk).1
    refine ⟨k0.1, rfl, ?_, ?_⟩
    · -- max(timestamp_ns), bare or through the alias
      have hvals : ∀ (n : String),
          (∀ k ∈ matchedSpans o c ds e k0.1, (qualify (pfx ++ "index_search") (rowA o env c ds (es ++ aggWhere aggAttr) aggAttr k)).get n = .int (spanTs c ds k)) →
          ∃ m, evalGrp o env' (rowsWith o env' (A.map (qualify (pfx ++ "index_search"))) (.raw "trace_id") (.str k0.1)) (.call "max" [.raw n]) = .int m ∧
            IsMaxOf m (selVals o c ds e k0.1) := by
        intro n hn
        apply evalGrp_max o env' _ n (selVals o c ds e k0.1)
        · simp only [selVals]; intro h0
          have := List.map_eq_nil_iff.mp h0
          rw [this] at hk0m; simp at hk0m
        · intro i
          rw [(hcanon.map (fun r => r.get n)).mem_iff]
          simp only [List.map_map, List.mem_map, Function.comp, selVals]
          constructor
          · rintro ⟨k, hk, hki⟩
            rw [hn k hk] at hki
            exact ⟨k, hk, by simpa using hki⟩
          · rintro ⟨k, hk, hki⟩
            exact ⟨k, hk, by rw [hn k hk, hki]⟩
      intro n hn
      simp only [List.mem_cons, List.not_mem_nil, or_false] at hn
      rcases hn with rfl | rfl
      · apply hvals
        intro k hk
        rw [get_qualify_nodot _ _ _ (by decide)]
        have := rowA_ts o env c ds (es ++ aggWhere aggAttr) aggAttr k hts (hne k (hmem k hk))
        simp [Row.get, this]
      · apply hvals
        intro k hk
        have hq := get_qualify_dot (pfx ++ "index_search") (rowA o env c ds (es ++ aggWhere aggAttr) aggAttr k) "timestamp_ns"
        have hname : pfx ++ "index_search.timestamp_ns" = (pfx ++ "index_search") ++ "." ++ "timestamp_ns" := by
          simp [String.append_assoc]
        rw [hname, hq, rowA_ts o env c ds (es ++ aggWhere aggAttr) aggAttr k hts (hne k (hmem k hk))]
    · -- the span array
      refine ⟨(strsOf ((rowsWith o env' (A.map (qualify (pfx ++ "index_search"))) (.raw "trace_id") (.str k0.1)).map
          (fun r => evalE o env' r (.raw "span_id")))).take 100, by simp [evalGrp], ?_⟩
      apply spanSet_take
      · have h1 := (hcanon.map (fun r => evalE o env' r (.raw "span_id")))
        have h2 : (((matchedSpans o c ds e k0.1).map (rowA o env c ds (es ++ aggWhere aggAttr) aggAttr)).map (qualify (pfx ++ "index_search"))).map
            (fun r => evalE o env' r (.raw "span_id")) = (matchedSpans o c ds e k0.1).map (fun k => Val.str k.2) := by
          rw [List.map_map, List.map_map]
          apply List.map_congr_left
          intro k hk
          simp only [Function.comp, evalE, get_qualify_nodot _ _ _ sid_nodot]
          exact rowA_span o env c ds _ aggAttr k (hne k (hmem k hk))
        rw [h2] at h1
        have h3 : (strsOf ((rowsWith o env' (A.map (qualify (pfx ++ "index_search"))) (.raw "trace_id") (.str k0.1)).map
            (fun r => evalE o env' r (.raw "span_id")))).Perm (strsOf ((matchedSpans o c ds e k0.1).map (fun k => Val.str k.2))) := by
          unfold strsOf; exact h1.filterMap _
        have h4 : strsOf ((matchedSpans o c ds e k0.1).map (fun k => Val.str k.2)) = selIds o c ds e k0.1 := by
          simp only [selIds]; exact strsOf_map_str (fun k : SpanKey => k.2) _
        rw [h4] at h3
        exact h3
      · exact selIds_nodup o c ds e k0.1
      · simp only [selIds]; intro h0
        have := List.map_eq_nil_iff.mp h0
        rw [this] at hk0m; simp at hk0m
  rcases hX with ⟨_, rfl⟩ | ⟨a, f, v, _, _, _, _, rfl⟩
  · exact ⟨none, _, e, he, rfl, key ""⟩
  · exact ⟨aggHaving pfx a.fn f v, _, e, he, rfl, key a.attr⟩

end Qryn.TraceQL
