import Qryn.Proofs.JsonEsc
/-! `Repr t v`: the text `t` is read by the parser as the value `v` (whatever follows, as long as it cannot
    extend a number). Combinators for strings, numbers, arrays, objects with optional whitespace; the
    compact printer; fuel adequacy. Core-only. -/
namespace Qryn.Json
open Qryn

/-! ### whitespace -/
def allWs (w : Bytes) : Prop := ∀ c ∈ w, isWs c = true

theorem allWs_nil : allWs [] := by intro c h; cases h

theorem skipWs_cons_of_not {c : UInt8} (h : isWs c = false) (r : Bytes) : skipWs (c :: r) = c :: r := by
  simp [skipWs, h]

theorem skipWs_append {w : Bytes} (h : allWs w) (x : Bytes) : skipWs (w ++ x) = skipWs x := by
  induction w with
  | nil => rfl
  | cons c w ih =>
    have hc : isWs c = true := h c (by simp)
    simp only [List.cons_append, skipWs, hc, if_true]
    exact ih (fun d hd => h d (by simp [hd]))

theorem skipWs_idem (x : Bytes) : skipWs (skipWs x) = skipWs x := by
  induction x with
  | nil => rfl
  | cons c r ih =>
    by_cases h : isWs c = true
    · simp [skipWs, h, ih]
    · have h' : isWs c = false := by simpa using h
      simp [skipWs, h']

theorem parseVal_skipWs (n : Nat) (x : Bytes) : parseVal n (skipWs x) = parseVal n x := by
  cases n with
  | zero => simp [parseVal]
  | succ n => simp only [parseVal, skipWs_idem]

theorem parseVal_ws (n : Nat) {w : Bytes} (h : allWs w) (x : Bytes) : parseVal n (w ++ x) = parseVal n x := by
  rw [← parseVal_skipWs, skipWs_append h, parseVal_skipWs]

theorem parseElems_skipWs (n : Nat) (x : Bytes) : parseElems n (skipWs x) = parseElems n x := by
  cases n with
  | zero => simp [parseElems]
  | succ n => simp only [parseElems, parseVal_skipWs]

/-! ### numbers -/
/-- the rest cannot extend a number token -/
def Stop (rest : Bytes) : Prop := ∀ c r, rest = c :: r → numChar c = false

theorem stop_nil : Stop [] := by intro c r h; cases h
theorem stop_cons {c : UInt8} (h : numChar c = false) (r : Bytes) : Stop (c :: r) := by
  intro c' r' h'; cases h'; exact h

theorem step_bad_of_not_numChar (st : NumSt) (c : UInt8) (h : numChar c = false) : st.step c = .bad := by
  simp only [numChar, Bool.or_eq_false_iff, decide_eq_false_iff_not] at h
  obtain ⟨⟨⟨⟨⟨hd, h43⟩, h45⟩, h46⟩, h101⟩, h69⟩ := h
  have h48 : c ≠ 48 := by intro h; subst h; simp [isDigit] at hd
  cases st <;> simp [NumSt.step, hd, h43, h45, h46, h101, h69, h48]

theorem foldl_bad (l : Bytes) : l.foldl NumSt.step .bad = .bad := by
  induction l with
  | nil => rfl
  | cons c l ih => simpa [NumSt.step] using ih

theorem all_numChar_of_accept (st : NumSt) (l : Bytes) (h : (l.foldl NumSt.step st).accept = true) :
    ∀ c ∈ l, numChar c = true := by
  induction l generalizing st with
  | nil => intro c hc; cases hc
  | cons d l ih =>
    intro c hc
    simp only [List.foldl_cons] at h
    by_cases hd : numChar d = true
    · rcases List.mem_cons.mp hc with rfl | hc
      · exact hd
      · exact ih _ h c hc
    · have hd' : numChar d = false := by simpa using hd
      rw [step_bad_of_not_numChar st d hd', foldl_bad] at h
      simp [NumSt.accept] at h

theorem parseNum_tok (tok rest : Bytes) (h : isNumTok tok = true) (hs : Stop rest) :
    parseNum (tok ++ rest) = some (tok, rest) := by
  have hall := all_numChar_of_accept _ _ h
  have h1 : (tok ++ rest).takeWhile numChar = tok := by
    rw [List.takeWhile_append_of_pos hall]
    cases rest with
    | nil => simp
    | cons c r => simp [List.takeWhile, hs c r rfl]
  have h2 : (tok ++ rest).dropWhile numChar = rest := by
    rw [List.dropWhile_append_of_pos hall]
    cases rest with
    | nil => simp
    | cons c r => simp [List.dropWhile, hs c r rfl]
  simp [parseNum, h1, h2, h]

theorem numTok_head (tok : Bytes) (h : isNumTok tok = true) :
    ∃ c t, tok = c :: t ∧ (c = 45 ∨ isDigit c = true) := by
  cases tok with
  | nil => simp [isNumTok, NumSt.accept] at h
  | cons c t =>
    refine ⟨c, t, rfl, ?_⟩
    by_cases h45 : c = 45
    · exact Or.inl h45
    · by_cases hd : isDigit c = true
      · exact Or.inr hd
      · have hd' : isDigit c = false := by simpa using hd
        have h48 : c ≠ 48 := by intro h; subst h; simp [isDigit] at hd'
        simp [isNumTok, NumSt.step, h45, hd', h48, foldl_bad, NumSt.accept] at h

/-! ### `Repr` -/
/-- The text `t` denotes the value `v`: with fuel ≥ `t.length`, whatever rest follows that cannot extend a
    number, the parser reads `v` from `t ++ rest` and leaves exactly `rest`. -/
def Repr (t : Bytes) (v : JVal) : Prop :=
  ∀ n rest, t.length ≤ n → Stop rest → parseVal n (t ++ rest) = some (v, rest)

theorem parse_of_repr {t : Bytes} {v : JVal} (h : Repr t v) (rest : Bytes) (hs : Stop rest) :
    parse (t ++ rest) = some (v, rest) := by
  unfold parse
  exact h _ rest (by simp; omega) hs

theorem parse_of_repr_nil {t : Bytes} {v : JVal} (h : Repr t v) : parse t = some (v, []) := by
  have := parse_of_repr h [] stop_nil
  simpa using this

theorem parseDoc_of_repr {t : Bytes} {v : JVal} (h : Repr t v) : parseDoc t = some v := by
  simp [parseDoc, parse_of_repr_nil h, skipWs]

theorem repr_ws {w t : Bytes} {v : JVal} (hw : allWs w) (h : Repr t v) : Repr (w ++ t) v := by
  intro n rest hn hs
  rw [List.append_assoc, parseVal_ws n hw]
  exact h n rest (by simp at hn; omega) hs

/-- a string token: opening quote, a body that the scanner reads as `s` up to and including the closing quote -/
def StrTok (t s : Bytes) : Prop :=
  ∃ body, t = 34 :: body ∧ ∀ rest, parseStrBody (body ++ rest) [] = some (s, rest)

theorem strTok_jstr (s : Bytes) : StrTok (jstr s) s :=
  ⟨escJ s ++ [34], rfl, fun rest => by simpa using parseStrBody_jstr s rest⟩

theorem strTok_stdstr (s : Bytes) : StrTok (stdstr s) (sanitize s) :=
  ⟨escStd s ++ [34], rfl, fun rest => by simpa using parseStrBody_stdstr s rest⟩

theorem repr_strTok {t s : Bytes} (h : StrTok t s) : Repr t (.str s) := by
  obtain ⟨body, rfl, hb⟩ := h
  intro n rest hn _
  cases n with
  | zero => simp at hn
  | succ n =>
    simp only [parseVal, List.cons_append]
    rw [skipWs_cons_of_not (by decide)]
    simp [hb rest]

theorem repr_jstr (s : Bytes) : Repr (jstr s) (.str s) := repr_strTok (strTok_jstr s)
theorem repr_stdstr (s : Bytes) : Repr (stdstr s) (.str (sanitize s)) := repr_strTok (strTok_stdstr s)

theorem isWs_false_of_numHead {c : UInt8} (h : c = 45 ∨ isDigit c = true) :
    isWs c = false ∧ c ≠ 34 ∧ c ≠ 91 ∧ c ≠ 123 ∧ c ≠ 116 ∧ c ≠ 102 ∧ c ≠ 110 := by
  rcases h with rfl | h
  · decide
  · simp only [isDigit, Bool.and_eq_true, decide_eq_true_eq] at h
    have h1 := UInt8.le_iff_toNat_le.mp h.1
    have h2 := UInt8.le_iff_toNat_le.mp h.2
    simp at h1 h2
    refine ⟨?_, ?_, ?_, ?_, ?_, ?_, ?_⟩
    · simp only [isWs, Bool.or_eq_false_iff, decide_eq_false_iff_not]
      refine ⟨⟨⟨?_, ?_⟩, ?_⟩, ?_⟩ <;> (intro h; subst h; simp at h1 h2)
    all_goals (intro h; subst h; simp at h1 h2)

theorem repr_num {t : Bytes} (h : isNumTok t = true) : Repr t (.num t) := by
  intro n rest hn hs
  obtain ⟨c, t', rfl, hc⟩ := numTok_head t h
  obtain ⟨hw, h34, h91, h123, h116, h102, h110⟩ := isWs_false_of_numHead hc
  cases n with
  | zero => simp at hn
  | succ n =>
    simp only [parseVal, List.cons_append]
    rw [skipWs_cons_of_not hw]
    simp only [h34, h91, h123, h116, h102, h110, if_false]
    have := parseNum_tok (c :: t') rest h hs
    simp only [List.cons_append] at this
    simp [this]

theorem repr_null : Repr [110, 117, 108, 108] .null := by
  intro n rest hn _
  cases n with
  | zero => simp at hn
  | succ n => simp [parseVal, skipWs, isWs]

theorem repr_true : Repr [116, 114, 117, 101] (.bool true) := by
  intro n rest hn _
  cases n with
  | zero => simp at hn
  | succ n => simp [parseVal, skipWs, isWs]

theorem repr_false : Repr [102, 97, 108, 115, 101] (.bool false) := by
  intro n rest hn _
  cases n with
  | zero => simp at hn
  | succ n => simp [parseVal, skipWs, isWs]

/-! ### arrays -/
/-- a successfully parsed value does not start (after whitespace) with `]` -/
theorem parseVal_some_head {n : Nat} {x : Bytes} {p : JVal × Bytes} (h : parseVal n x = some p) :
    ∃ d r, skipWs x = d :: r ∧ d ≠ 93 := by
  cases n with
  | zero => simp [parseVal] at h
  | succ n =>
    simp only [parseVal] at h
    cases hx : skipWs x with
    | nil => simp [hx] at h
    | cons d r =>
      refine ⟨d, r, rfl, ?_⟩
      intro hd
      subst hd
      simp [hx, parseNum, numChar, isDigit, isNumTok, NumSt.accept] at h

def joinTexts (ts : List Bytes) : Bytes := List.intercalate [44] ts

theorem joinTexts_cons2 (a b : Bytes) (r : List Bytes) :
    joinTexts (a :: b :: r) = a ++ 44 :: joinTexts (b :: r) := by
  simp [joinTexts, List.intercalate, List.intersperse]

theorem joinTexts_single (a : Bytes) : joinTexts [a] = a := by
  simp [joinTexts, List.intercalate, List.intersperse]

/-- fuel that suffices for a non-empty element list -/
def elemsFuel : List (Bytes × JVal) → Nat
  | [] => 0
  | p :: r => p.1.length + 1 + elemsFuel r

theorem elemsFuel_eq (items : List (Bytes × JVal)) (h : items ≠ []) :
    elemsFuel items = (joinTexts (items.map (·.1))).length + 1 := by
  induction items with
  | nil => exact absurd rfl h
  | cons p r ih =>
    cases r with
    | nil => simp [elemsFuel, joinTexts_single]
    | cons q r' =>
      have := ih (by simp)
      simp only [List.map_cons] at this ⊢
      rw [joinTexts_cons2]
      simp only [elemsFuel, List.length_append, List.length_cons] at this ⊢
      omega

theorem parseElems_items (items : List (Bytes × JVal)) (hne : items ≠ [])
    (h : ∀ p ∈ items, Repr p.1 p.2) (n : Nat) (rest : Bytes) (hn : elemsFuel items ≤ n) :
    parseElems n (joinTexts (items.map (·.1)) ++ 93 :: rest) = some (items.map (·.2), rest) := by
  induction items generalizing n with
  | nil => exact absurd rfl hne
  | cons p r ih =>
    cases n with
    | zero => simp [elemsFuel] at hn
    | succ n =>
      have hp : Repr p.1 p.2 := h p (by simp)
      cases r with
      | nil =>
        simp only [List.map_cons, List.map_nil, joinTexts_single, parseElems]
        rw [hp n (93 :: rest) (by simp [elemsFuel] at hn; omega) (stop_cons (by decide) _)]
        simp [skipWs, isWs]
      | cons q r' =>
        simp only [List.map_cons] at ih ⊢
        rw [joinTexts_cons2]
        simp only [parseElems, List.append_assoc, List.cons_append]
        rw [hp n _ (by simp [elemsFuel] at hn; omega) (stop_cons (by decide) _)]
        have := ih (by simp) (fun x hx => h x (by simp [hx])) n (by simp [elemsFuel] at hn ⊢; omega)
        simp [skipWs, isWs, this]

/-- an array text: `[`, the element texts separated by `,`, `]` -/
theorem repr_arr (items : List (Bytes × JVal)) (h : ∀ p ∈ items, Repr p.1 p.2) :
    Repr (91 :: joinTexts (items.map (·.1)) ++ [93]) (.arr (items.map (·.2))) := by
  intro n rest hn hs
  cases n with
  | zero => simp at hn
  | succ n =>
    simp only [parseVal, List.cons_append, List.append_assoc]
    rw [skipWs_cons_of_not (by decide)]
    simp only [show (91 : UInt8) ≠ 34 by decide, if_false, if_true]
    cases items with
    | nil => simp [joinTexts, skipWs, isWs]
    | cons p r =>
      have hfuel : elemsFuel (p :: r) ≤ n := by
        rw [elemsFuel_eq _ (by simp)]
        simp only [List.length_cons, List.length_append, List.length_nil] at hn
        omega
      have hpe := parseElems_items (p :: r) (by simp) h n rest hfuel
      -- the first element parses, so after whitespace the text does not start with `]`
      have hfirst : ∃ d r', skipWs (joinTexts ((p :: r).map (·.1)) ++ 93 :: rest) = d :: r' ∧ d ≠ 93 := by
        cases n with
        | zero => simp [elemsFuel] at hfuel
        | succ m =>
          simp only [parseElems] at hpe
          cases hv : parseVal m (joinTexts ((p :: r).map (·.1)) ++ 93 :: rest) with
          | none => rw [hv] at hpe; simp at hpe
          | some pr => exact parseVal_some_head hv
      obtain ⟨d, r', hsk, hd⟩ := hfirst
      simp only [List.nil_append]
      rw [hsk]
      simp only [hd, if_false]
      rw [← hsk, parseElems_skipWs, hpe]

/-! ### objects -/
theorem parseMembers_skipWs (n : Nat) (x : Bytes) : parseMembers n (skipWs x) = parseMembers n x := by
  cases n with
  | zero => simp [parseMembers]
  | succ n => simp only [parseMembers, skipWs_idem]

/-- one member of an object text: optional whitespace, a string token for the key, `:`, the value text
    (which may itself start with whitespace, see `repr_ws`) -/
structure Mem where
  ws : Bytes
  ktext : Bytes
  key : Bytes
  vtext : Bytes
  val : JVal

def Mem.text (m : Mem) : Bytes := m.ws ++ m.ktext ++ 58 :: m.vtext
def Mem.ok (m : Mem) : Prop := allWs m.ws ∧ StrTok m.ktext m.key ∧ Repr m.vtext m.val
def Mem.kv (m : Mem) : Bytes × JVal := (m.key, m.val)

def memsFuel : List Mem → Nat
  | [] => 0
  | m :: r => m.text.length + 1 + memsFuel r

theorem memsFuel_eq (ms : List Mem) (h : ms ≠ []) :
    memsFuel ms = (joinTexts (ms.map Mem.text)).length + 1 := by
  induction ms with
  | nil => exact absurd rfl h
  | cons p r ih =>
    cases r with
    | nil => simp [memsFuel, joinTexts_single]
    | cons q r' =>
      have := ih (by simp)
      simp only [List.map_cons] at this ⊢
      rw [joinTexts_cons2]
      simp only [memsFuel, List.length_append, List.length_cons] at this ⊢
      omega

theorem parseMembers_one (m : Mem) (hm : m.ok) (n : Nat) (tail : Bytes) (hn : m.text.length ≤ n)
    (hs : Stop tail) :
    parseMembers (n + 1) (m.text ++ tail) =
      match skipWs tail with
      | [] => none
      | c' :: r4 =>
        if c' = 44 then
          match parseMembers n r4 with
          | some (kvs, r5) => some ((m.key, m.val) :: kvs, r5)
          | none => none
        else if c' = 125 then some ([(m.key, m.val)], r4)
        else none := by
  obtain ⟨hw, ⟨body, hk, hb⟩, hv⟩ := hm
  have htext : m.text ++ tail = m.ws ++ (34 :: (body ++ (58 :: (m.vtext ++ tail)))) := by
    simp [Mem.text, hk]
  have hlen : m.vtext.length ≤ n := by
    simp only [Mem.text, List.length_append, List.length_cons] at hn; omega
  rw [htext]
  simp only [parseMembers]
  rw [skipWs_append hw, skipWs_cons_of_not (by decide)]
  simp only [if_true, hb]
  rw [skipWs_cons_of_not (by decide)]
  simp only [if_true]
  rw [hv n tail hlen hs]
  rfl

theorem parseMembers_items (ms : List Mem) (hne : ms ≠ []) (h : ∀ m ∈ ms, m.ok) (n : Nat) (rest : Bytes)
    (hn : memsFuel ms ≤ n) :
    parseMembers n (joinTexts (ms.map Mem.text) ++ 125 :: rest) = some (ms.map Mem.kv, rest) := by
  induction ms generalizing n with
  | nil => exact absurd rfl hne
  | cons p r ih =>
    cases n with
    | zero => simp [memsFuel] at hn
    | succ n =>
      have hp : p.ok := h p (by simp)
      cases r with
      | nil =>
        simp only [List.map_cons, List.map_nil, joinTexts_single]
        rw [parseMembers_one p hp n _ (by simp [memsFuel] at hn; omega) (stop_cons (by decide) _)]
        simp [skipWs, isWs, Mem.kv]
      | cons q r' =>
        simp only [List.map_cons] at ih ⊢
        rw [joinTexts_cons2, List.append_assoc, List.cons_append]
        rw [parseMembers_one p hp n _ (by simp [memsFuel] at hn; omega) (stop_cons (by decide) _)]
        have := ih (by simp) (fun x hx => h x (by simp [hx])) n (by simp [memsFuel] at hn ⊢; omega)
        simp [skipWs, isWs, this, Mem.kv]

/-- an object text: `{`, the member texts separated by `,`, `}` -/
theorem repr_obj (ms : List Mem) (h : ∀ m ∈ ms, m.ok) :
    Repr (123 :: joinTexts (ms.map Mem.text) ++ [125]) (.obj (ms.map Mem.kv)) := by
  intro n rest hn hs
  cases n with
  | zero => simp at hn
  | succ n =>
    simp only [parseVal, List.cons_append, List.append_assoc]
    rw [skipWs_cons_of_not (by decide)]
    simp only [show (123 : UInt8) ≠ 34 by decide, show (123 : UInt8) ≠ 91 by decide, if_false, if_true]
    cases ms with
    | nil => simp [joinTexts, skipWs, isWs]
    | cons p r =>
      have hfuel : memsFuel (p :: r) ≤ n := by
        rw [memsFuel_eq _ (by simp)]
        simp only [List.length_cons, List.length_append, List.length_nil] at hn
        omega
      have hpe := parseMembers_items (p :: r) (by simp) h n rest hfuel
      obtain ⟨hw, ⟨body, hk, _⟩, _⟩ := h p (by simp)
      -- after whitespace the first member starts with the quote of its key
      have hsk : ∃ r', skipWs (joinTexts ((p :: r).map Mem.text) ++ 125 :: rest) = 34 :: r' := by
        cases r with
        | nil =>
          simp only [List.map_cons, List.map_nil, joinTexts_single, Mem.text, hk, List.append_assoc,
            List.cons_append]
          rw [skipWs_append hw, skipWs_cons_of_not (by decide)]
          exact ⟨_, rfl⟩
        | cons q r' =>
          simp only [List.map_cons]
          rw [joinTexts_cons2]
          simp only [Mem.text, hk, List.append_assoc, List.cons_append]
          rw [skipWs_append hw, skipWs_cons_of_not (by decide)]
          exact ⟨_, rfl⟩
      obtain ⟨r', hsk⟩ := hsk
      simp only [List.nil_append]
      rw [hsk]
      simp only [show (34 : UInt8) ≠ 125 by decide, if_false]
      rw [← hsk, parseMembers_skipWs, hpe]

/-- a member written by jsoniter `WriteObjectField(k)` followed by the value text -/
def jmem (k : Bytes) (vt : Bytes) (v : JVal) : Mem := ⟨[], jstr k, k, vt, v⟩

theorem jmem_ok {k vt : Bytes} {v : JVal} (h : Repr vt v) : (jmem k vt v).ok :=
  ⟨allWs_nil, strTok_jstr k, h⟩

theorem jmem_text (k vt : Bytes) (v : JVal) : (jmem k vt v).text = jstr k ++ 58 :: vt := by
  simp [jmem, Mem.text]

/-! ### the compact printer -/
theorem printElems_eq (xs : List JVal) : printElems xs = joinTexts (xs.map print) := by
  induction xs with
  | nil => simp [printElems, joinTexts]
  | cons x r ih =>
    cases r with
    | nil => simp [printElems, joinTexts_single]
    | cons y r' =>
      simp only [List.map_cons] at ih ⊢
      rw [joinTexts_cons2, ← ih, printElems]

def kvMem (p : Bytes × JVal) : Mem := jmem p.1 (print p.2) p.2

theorem printMembers_eq (kvs : List (Bytes × JVal)) : printMembers kvs = joinTexts (kvs.map (fun p => (kvMem p).text)) := by
  induction kvs with
  | nil => simp [printMembers, joinTexts]
  | cons x r ih =>
    obtain ⟨k, v⟩ := x
    cases r with
    | nil => simp [printMembers, joinTexts_single, kvMem, jmem_text]
    | cons y r' =>
      simp only [List.map_cons] at ih ⊢
      rw [joinTexts_cons2, ← ih, printMembers]
      simp [kvMem, jmem_text]

mutual
/-- **print/parse round trip**: the compact text of any value whose number tokens are JSON numbers is read
    back as that value. -/
theorem repr_print : (v : JVal) → v.wf = true → Repr (print v) v
  | .null, _ => by simpa [print] using repr_null
  | .bool true, _ => by simpa [print] using repr_true
  | .bool false, _ => by simpa [print] using repr_false
  | .num t, h => by simpa [print] using repr_num (by simpa [JVal.wf] using h)
  | .str s, _ => by simpa [print] using repr_jstr s
  | .arr xs, h => by
    have hl := repr_print_list xs (by simpa [JVal.wf] using h)
    have := repr_arr (xs.map (fun x => (print x, x))) (by
      intro p hp
      obtain ⟨x, hx, rfl⟩ := List.mem_map.mp hp
      exact hl x hx)
    simpa [print, printElems_eq, List.map_map, Function.comp_def] using this
  | .obj kvs, h => by
    have hl := repr_print_members kvs (by simpa [JVal.wf] using h)
    have := repr_obj (kvs.map kvMem) (by
      intro m hm
      obtain ⟨p, hp, rfl⟩ := List.mem_map.mp hm
      exact jmem_ok (hl p hp))
    simpa [print, printMembers_eq, List.map_map, Function.comp_def, kvMem, jmem, Mem.kv] using this
theorem repr_print_list : (xs : List JVal) → wfList xs = true → ∀ x ∈ xs, Repr (print x) x
  | [], _ => by intro x hx; cases hx
  | y :: r, h => by
    simp only [wfList, Bool.and_eq_true] at h
    intro x hx
    rcases List.mem_cons.mp hx with h' | hx
    · rw [h']; exact repr_print y h.1
    · exact repr_print_list r h.2 x hx
theorem repr_print_members : (kvs : List (Bytes × JVal)) → wfMembers kvs = true →
    ∀ p ∈ kvs, Repr (print p.2) p.2
  | [], _ => by intro x hx; cases hx
  | (k, v) :: r, h => by
    simp only [wfMembers, Bool.and_eq_true] at h
    intro x hx
    rcases List.mem_cons.mp hx with h' | hx
    · rw [h']; exact repr_print v h.1
    · exact repr_print_members r h.2 x hx
end

/-- `parse (print v ++ rest) = some (v, rest)` for every well-formed value and every rest that cannot extend
    a number token -/
theorem parse_print (v : JVal) (h : v.wf = true) (rest : Bytes) (hs : Stop rest) :
    parse (print v ++ rest) = some (v, rest) :=
  parse_of_repr (repr_print v h) rest hs

theorem parseDoc_print (v : JVal) (h : v.wf = true) : parseDoc (print v) = some v :=
  parseDoc_of_repr (repr_print v h)

end Qryn.Json
