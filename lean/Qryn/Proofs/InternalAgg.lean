import Qryn.Proofs.InternalRun
/-! The generic aggregator (`AggregatorPlanner.process`) with its per-series `[value, count]` bucket arrays
    computes, for every series and bucket, the fold of the function's step over the entries of that series
    that fall into that bucket, in arrival order — `Stages.aggregate` keyed by the fingerprint. Core only. -/
namespace Qryn.Read
open Qryn Qryn.LogQL.Stages

variable {V : Type}

theorem snocInd {α : Type} {P : List α → Prop} (h0 : P []) (hs : ∀ l x, P l → P (l ++ [x])) : ∀ l, P l := by
  have : ∀ l : List α, P l.reverse := by
    intro l
    induction l with
    | nil => exact h0
    | cons x l ih => rw [List.reverse_cons]; exact hs _ _ ih
  intro l
  have := this l.reverse
  rwa [List.reverse_reverse] at this

theorem filterMap_congr' {α β : Type} {f g : α → Option β} {l : List α} (h : ∀ x ∈ l, f x = g x) :
    l.filterMap f = l.filterMap g := by
  induction l with
  | nil => rfl
  | cons x l ih =>
    simp only [List.filterMap_cons, h x List.mem_cons_self]
    rw [ih (fun y hy => h y (List.mem_cons_of_mem _ hy))]

/-! ### `firstBy` -/
theorem firstBy_subset {α κ : Type} [DecidableEq κ] (key : α → κ) (l : List α) : ∀ x, x ∈ firstBy key l → x ∈ l := by
  induction l with
  | nil => intro x h; simp [firstBy] at h
  | cons y l ih =>
    intro x h
    simp only [firstBy, List.mem_cons, List.mem_filter] at h
    rcases h with h | ⟨h, _⟩
    · exact h ▸ List.mem_cons_self
    · exact List.mem_cons_of_mem _ (ih x h)

theorem firstBy_any {α κ : Type} [DecidableEq κ] (key : α → κ) (k : κ) (l : List α) :
    (firstBy key l).any (fun z => key z == k) = l.any (fun z => key z == k) := by
  induction l with
  | nil => rfl
  | cons y l ih =>
    simp only [firstBy, List.any_cons, List.any_filter]
    by_cases h : key y = k
    · simp [h]
    · have : ∀ z, (decide (key z ≠ key y) && (key z == k)) = (key z == k) := by
        intro z
        by_cases hz : key z = k
        · have hk : ¬ k = key y := fun e => h e.symm
          simp [hz, hk]
        · simp [hz]
      simp only [this, ih]

theorem firstBy_snoc {α κ : Type} [DecidableEq κ] (key : α → κ) (l : List α) (x : α) :
    firstBy key (l ++ [x]) = if l.any (fun z => key z == key x) then firstBy key l else firstBy key l ++ [x] := by
  induction l with
  | nil => simp [firstBy]
  | cons y l ih =>
    simp only [List.cons_append, firstBy, ih, List.any_cons]
    by_cases hy : key y = key x
    · by_cases hl : l.any (fun z => key z == key x) = true
      · simp [hy, hl]
      · simp only [hy, hl, Bool.false_eq_true, if_false, List.filter_append, beq_self_eq_true, Bool.true_or, if_true]
        simp [firstBy]
    · by_cases hl : l.any (fun z => key z == key x) = true
      · simp [hy, hl]
      · have hxy : key x ≠ key y := fun e => hy e.symm
        simp [hy, hl, List.filter_append, hxy]

theorem firstBy_length_mono {α κ : Type} [DecidableEq κ] (key : α → κ) (l l' : List α) :
    (firstBy key l).length ≤ (firstBy key (l ++ l')).length := by
  induction l' using snocInd with
  | h0 => simp
  | hs l' x ih =>
    rw [← List.append_assoc, firstBy_snoc]
    split
    · exact ih
    · simp only [List.length_append, List.length_singleton]; omega

/-! ### the state after a list of proper entries -/
def selFp (g : Grid) (k : UInt64) (i : Nat) (l : List (Entry V)) : List (Entry V) :=
  l.filter (fun e => decide (e.fp = k) && (g.bucket e.ts == some i))

def streamOf (N : NumOps V) (g : Grid) (fn : AggFn V) (l : List (Entry V)) (r : Entry V) : UInt64 × AggStream V :=
  (r.fp, ⟨r.labels, (List.range g.n).map (fun i => (selFp g r.fp i l).foldl fn.step (N.zero, 0))⟩)

def stateOf (N : NumOps V) (g : Grid) (fn : AggFn V) (l : List (Entry V)) : AggState V :=
  (firstBy (fun e : Entry V => e.fp) l).map (streamOf N g fn l)

theorem modify_map_range {α : Type} (n i : Nat) (c : Nat → α) (h : α → α) :
    ((List.range n).map c).modify i h = (List.range n).map (fun j => if j = i then h (c j) else c j) := by
  apply List.ext_getElem?
  intro j
  simp only [List.getElem?_modify, List.getElem?_map]
  by_cases hj : j < n
  · simp only [List.getElem?_range hj, Option.map_some]
    by_cases hij : i = j
    · simp [hij]
    · have : ¬ j = i := fun e => hij e.symm
      simp [hij, this]
  · have : (List.range n)[j]? = none := by simp [List.getElem?_eq_none_iff]; omega
    simp [this]

theorem selFp_snoc (g : Grid) (k : UInt64) (i : Nat) (l : List (Entry V)) (e : Entry V) :
    selFp g k i (l ++ [e]) = selFp g k i l ++ (if e.fp = k ∧ g.bucket e.ts = some i then [e] else []) := by
  simp only [selFp, List.filter_append, List.filter_cons, List.filter_nil]
  by_cases h1 : e.fp = k <;> by_cases h2 : g.bucket e.ts = some i <;> simp [h1, h2]

theorem streamOf_snoc_other (N : NumOps V) (g : Grid) (fn : AggFn V) (l : List (Entry V)) (e r : Entry V)
    (h : ¬ (e.fp = r.fp ∧ (g.bucket e.ts).isSome)) : streamOf N g fn (l ++ [e]) r = streamOf N g fn l r := by
  simp only [streamOf, selFp_snoc]
  congr 2
  apply List.map_congr_left
  intro i _
  have : ¬ (e.fp = r.fp ∧ g.bucket e.ts = some i) := by
    intro ⟨h1, h2⟩
    exact h ⟨h1, by simp [h2]⟩
  simp [this]

theorem streamOf_snoc_same (N : NumOps V) (g : Grid) (fn : AggFn V) (l : List (Entry V)) (e r : Entry V) (i : Nat)
    (h1 : e.fp = r.fp) (h2 : g.bucket e.ts = some i) :
    streamOf N g fn (l ++ [e]) r = ((streamOf N g fn l r).1, updCell (fn.step · e) i (streamOf N g fn l r).2) := by
  simp only [streamOf, selFp_snoc, updCell, modify_map_range]
  congr 2
  apply List.map_congr_left
  intro j _
  by_cases hj : j = i
  · subst hj
    simp [h1, h2, List.foldl_append]
  · have : ¬ (some i = some j) := by simpa using fun e => hj e.symm
    simp [h1, h2, hj, this]

theorem stateOf_any (N : NumOps V) (g : Grid) (fn : AggFn V) (l : List (Entry V)) (k : UInt64) :
    (stateOf N g fn l).any (fun ks => ks.1 == k) = l.any (fun z => z.fp == k) := by
  simp only [stateOf, List.any_map]
  exact firstBy_any (fun e : Entry V => e.fp) k l

/-- one proper entry: the state for `l` becomes the state for `l ++ [e]` -/
theorem aggOnEntry_stateOf (N : NumOps V) (M : Nat) (g : Grid) (fn : AggFn V) (l : List (Entry V)) (e : Entry V)
    (he : e.err = none) (hcap : (firstBy (fun e : Entry V => e.fp) (l ++ [e])).length ≤ M) :
    aggOnEntry N M g fn (stateOf N g fn l) e = .ok (stateOf N g fn (l ++ [e]), e) := by
  simp only [aggOnEntry, he, stateOf_any]
  by_cases hs : l.any (fun z => z.fp == e.fp) = true
  · -- a known series
    simp only [hs, if_true]
    congr 2
    simp only [stateOf, firstBy_snoc, hs, if_true]
    cases hb : g.bucket e.ts with
    | none =>
      apply List.map_congr_left
      intro r _
      exact (streamOf_snoc_other N g fn l e r (by simp [hb])).symm
    | some i =>
      simp only [List.map_map]
      apply List.map_congr_left
      intro r _
      simp only [Function.comp]
      by_cases hr : r.fp = e.fp
      · rw [streamOf_snoc_same N g fn l e r i hr.symm hb]
        simp [streamOf, hr]
      · have : ¬ (e.fp = r.fp ∧ (g.bucket e.ts).isSome) := fun h => hr h.1.symm
        rw [streamOf_snoc_other N g fn l e r this]
        simp [streamOf, hr]
  · -- a new series
    have hs' : l.any (fun z => z.fp == e.fp) = false := by simpa using hs
    have hlen : (stateOf N g fn l).length + 1 ≤ M := by
      have := hcap
      rw [firstBy_snoc] at this
      simp only [hs', Bool.false_eq_true, if_false, List.length_append, List.length_singleton] at this
      simpa [stateOf] using this
    have hlt : ¬ M ≤ (stateOf N g fn l).length := by omega
    simp only [hs', Bool.false_eq_true, if_false, hlt]
    congr 2
    simp only [stateOf, firstBy_snoc, hs', Bool.false_eq_true, if_false, List.map_append, List.map_cons, List.map_nil]
    congr 1
    · apply List.map_congr_left
      intro r hr
      have hrl : r ∈ l := firstBy_subset _ l r hr
      have hne : ¬ e.fp = r.fp := by
        intro h
        have : l.any (fun z => z.fp == e.fp) = true := List.any_eq_true.mpr ⟨r, hrl, by simp [h]⟩
        rw [hs'] at this
        exact Bool.noConfusion this
      exact (streamOf_snoc_other N g fn l e r (fun h => hne h.1)).symm
    · -- the fresh stream
      have hnil : ∀ i, selFp g e.fp i l = [] := by
        intro i
        simp only [selFp, List.filter_eq_nil_iff]
        intro x hx
        have : ¬ x.fp = e.fp := by
          intro h
          have : l.any (fun z => z.fp == e.fp) = true := List.any_eq_true.mpr ⟨x, hx, by simp [h]⟩
          rw [hs'] at this
          exact Bool.noConfusion this
        simp [this]
      have hrep : List.replicate g.n (N.zero, 0) = (List.range g.n).map (fun _ => ((N.zero, 0) : Cell V)) := by
        apply List.ext_getElem?
        intro j
        by_cases hj : j < g.n
        · simp [List.getElem?_replicate, hj, List.getElem?_range hj]
        · have h1 : (List.range g.n)[j]? = none := by simp [List.getElem?_eq_none_iff]; omega
          simp [List.getElem?_replicate, hj, h1]
      cases hb : g.bucket e.ts with
      | none =>
        simp only [streamOf, selFp_snoc, hnil, hb, hrep]
        congr 3
      | some i =>
        simp only [streamOf, selFp_snoc, hnil, hb, hrep, updCell, modify_map_range]
        congr 3
        apply List.map_congr_left
        intro j _
        by_cases hj : j = i
        · subst hj; simp
        · have : ¬ (some i = some j) := by simpa using fun e => hj e.symm
          simp [hj, this]

@[simp] theorem aggOps_onEntry (N : NumOps V) (M : Nat) (g : Grid) (fn : AggFn V) :
    (aggOps N M g fn).onEntry = aggOnEntry N M g fn := rfl
@[simp] theorem aggOps_afterSlice (N : NumOps V) (M : Nat) (g : Grid) (fn : AggFn V) (st : AggState V) (b : List (Entry V)) :
    (aggOps N M g fn).afterSlice st b = (st, []) := rfl

theorem runBatch_aggOps (N : NumOps V) (M : Nat) (g : Grid) (fn : AggFn V) (l es : List (Entry V))
    (hp : ∀ e ∈ es, e.err = none) (hcap : (firstBy (fun e : Entry V => e.fp) (l ++ es)).length ≤ M) :
    runBatch (aggOps N M g fn) (stateOf N g fn l) es = .ok (stateOf N g fn (l ++ es), es) := by
  induction es generalizing l with
  | nil => simp [runBatch]
  | cons e es ih =>
    have he : e.err = none := hp e List.mem_cons_self
    have hcap1 : (firstBy (fun e : Entry V => e.fp) (l ++ [e])).length ≤ M := by
      have := firstBy_length_mono (fun e : Entry V => e.fp) (l ++ [e]) es
      rw [List.append_assoc] at this
      simp only [List.singleton_append] at this
      omega
    simp only [runBatch, aggOps_onEntry, aggOnEntry_stateOf N M g fn l e he hcap1]
    have hcap2 : (firstBy (fun e : Entry V => e.fp) ((l ++ [e]) ++ es)).length ≤ M := by
      simpa [List.append_assoc] using hcap
    rw [ih (l ++ [e]) (fun x hx => hp x (List.mem_cons_of_mem _ hx)) hcap2]
    simp [List.append_assoc]

theorem stateOf_nil (N : NumOps V) (g : Grid) (fn : AggFn V) : stateOf N g fn [] = [] := rfl

/-! ### emission -/
/-- every step of the function marks the bucket as used -/
def AggFn.Counts (fn : AggFn V) : Prop := ∀ c e, 0 < (fn.step c e).2

theorem foldl_count_pos (fn : AggFn V) (h : fn.Counts) (l : List (Entry V)) (c : Cell V) (hl : l ≠ []) :
    0 < (l.foldl fn.step c).2 := by
  induction l using snocInd with
  | h0 => exact absurd rfl hl
  | hs l x _ => simp only [List.foldl_append, List.foldl_cons, List.foldl_nil]; exact h _ _

/-- the LogQL value of a window according to a step function: fold, then finalise -/
def aggValue (N : NumOps V) (fn : AggFn V) (sel : List (Entry V)) : V := fn.fin (sel.foldl fn.step (N.zero, 0))

theorem zipIdx_map_range' {α : Type} (c : Nat → α) (s n : Nat) :
    ((List.range' s n).map c).zipIdx s = (List.range' s n).map (fun i => (c i, i)) := by
  induction n generalizing s with
  | zero => rfl
  | succ n ih => simp [List.range'_succ, List.zipIdx_cons, ih]

theorem emit_streamOf (N : NumOps V) (g : Grid) (fn : AggFn V) (h : fn.Counts) (l : List (Entry V)) (r : Entry V) :
    emitStream g fn (streamOf N g fn l r).1 (streamOf N g fn l r).2 =
      (List.range g.n).filterMap (fun i =>
        let sel := l.filter (fun e => decide (e.fp = r.fp) && (g.bucket e.ts == some i))
        if sel.isEmpty then none
        else some (⟨g.start + (i : Int) * g.dur, r.fp, r.labels, [], aggValue N fn sel, none⟩ : Entry V)) := by
  simp only [emitStream, streamOf]
  rw [List.range_eq_range', zipIdx_map_range', List.filterMap_map]
  apply filterMap_congr'
  intro i _
  simp only [Function.comp, selFp, aggValue]
  by_cases hsel : l.filter (fun e => decide (e.fp = r.fp) && (g.bucket e.ts == some i)) = []
  · simp [hsel]
  · have := foldl_count_pos fn h _ ((N.zero, 0) : Cell V) hsel
    simp [hsel, this]

/-- **the aggregator computes `aggregate` keyed by the fingerprint**, for any batching of proper entries
    that stay under the series cap -/
theorem run_aggOps (N : NumOps V) (M : Nat) (g : Grid) (fn : AggFn V) (h : fn.Counts) (bs : List (List (Entry V)))
    (hp : ∀ e ∈ bs.flatten, e.err = none) (hcap : (firstBy (fun e : Entry V => e.fp) bs.flatten).length ≤ M) :
    run N (aggOps N M g fn) [] bs = aggregate (fun e : Entry V => e.fp) g (aggValue N fn) bs.flatten := by
  rw [run_collect N _ (aggOps_afterSlice N M g fn)]
  have := runBatch_aggOps N M g fn [] bs.flatten hp (by simpa using hcap)
  rw [stateOf_nil] at this
  rw [this]
  simp only [List.nil_append, aggOps, stateOf, aggregate, List.map_map]
  congr 1
  apply List.map_congr_left
  intro r _
  exact emit_streamOf N g fn h bs.flatten r

end Qryn.Read
