import Qryn.Proofs.MetricSource
/-! C08 plan-level proofs, part 2: what each matrix planner's SELECT returns over the table of the stage before it,
    in terms of the stages of the direct reading (`LogQL.SemMetric`). -/
namespace Qryn.LogQL
open Qryn Qryn.Sql

/-! ### the range stage without unwrap (`LRAPlanner`) -/
def lraKeyOf (d : Nat) (s : Sample) : Int × Int := (s.fp, bucketOf d s.ts)

/-- the points of the range stage over the participating entries `es` -/
def lraPts (fn : RangeFn) (d : Nat) (es : List Sample) : List Pt :=
  (groupsBy (lraKeyOf d) es).map (fun g => ⟨.int g.1.1, .null, g.1.2, lraVal fn d g.2⟩)

theorem rangePoints_lra (o : Oracles) (c : Ctx) (d : LokiDb) (r : RangeAgg) (fn : RangeFn) (lo hi : Int)
    (hk : r.kind = .lra fn) :
    rangePoints o c d r lo hi = lraPts fn r.durNs (d.samples.filter (entryMatchesW o c d r.sel lo hi)) := by
  unfold rangePoints lraPts groupsBy lraKeyOf
  simp only [hk, List.map_map, Function.comp_def]

/-- the row `LRAPlanner`'s select returns for a point -/
def lraRow (p : Pt) : Row :=
  [("timestamp_ns", .int p.ts), ("fingerprint", p.key), ("string", .str []), ("value", .rat p.value)]

def lraCols (fn : RangeFn) (d : Nat) : List Expr :=
  [bucketCol "time_series.timestamp_ns" d, simpleCol "fingerprint" "fingerprint", emptyStr,
   .col (lraValue fn (.int d)) "value"]

theorem lra_aliasVals (o : Oracles) (env : Env) (fn : RangeFn) (d : Nat) (hd : 0 < d) (s : Sample) :
    aliasVals o env (lraCols fn d) (qualify "time_series" (sampleRow "_string" s)) =
      [("timestamp_ns", .int (bucketOf d s.ts)), ("fingerprint", .int s.fp), ("string", .str [])] := by
  have hd' : (d : Int) ≠ 0 := by omega
  have hd0 : d ≠ 0 := by omega
  cases fn <;>
    simp [lraCols, aliasVals, hasAgg, aggNames, lraValue, perSecond, countF, bytesF, bucketCol, simpleCol, emptyStr, evalE, evalEs,
      qualify, sampleRow, Row.get, List.lookup, mulVal, bucketOf, hd0]

theorem lra_group_row (o : Oracles) (env : Env) (fn : RangeFn) (d : Nat) (hd : 0 < d)
    (k : Int × Int) (grp : List Sample) (s0 : Sample) (rest : List Sample) (hg : grp = s0 :: rest)
    (hk : lraKeyOf d s0 = k) :
    grow o env (lraCols fn d) (grp.map (fun s => qualify "time_series" (sampleRow "_string" s))) =
      lraRow ⟨.int k.1, .null, k.2, lraVal fn d grp⟩ := by
  have hd0 : d ≠ 0 := by omega
  have hval := range_fn_lra o env ((grp.map (fun s => qualify "time_series" (sampleRow "_string" s))).map
      (fun r => aliasVals o env (lraCols fn d) r ++ r))
    (scope o env (lraCols fn d) "value" ((grp.map (fun s => qualify "time_series" (sampleRow "_string" s))).headD []))
    grp fn d (by
      unfold LraRows
      simp only [List.map_map, Function.comp_def]
      apply List.map_congr_left
      intro s _
      rw [lra_aliasVals o env fn d hd]
      simp [qualify, sampleRow, Row.get, List.lookup]) hd
  subst hg
  have hk1 : s0.fp = k.1 := by rw [← hk]; rfl
  have hk2 : bucketOf d s0.ts = k.2 := by rw [← hk]; rfl
  unfold grow
  simp only [lraCols, List.map_cons, List.map_nil, colName, bucketCol, simpleCol, emptyStr, lraRow] at hval ⊢
  rw [hval]
  cases fn <;>
  simp [scope, aliasVals, hasAgg, aggNames, evalAgg, aggCall, evalE, evalEs, qualify, sampleRow, Row.get, List.lookup, mulVal,
    bucketOf, hd0, ← hk1, ← hk2, lraValue, perSecond, countF, bytesF]

/-- **range stage (LRAPlanner).** Over the entries of `agg_a`, the select returns one row per (stream, range bucket) in
    order of first occurrence, carrying the range function of the direct reading. -/
theorem lra_eval (o : Oracles) (db : Db) (env : Env) (fn : RangeFn) (d : Nat) (hd : 0 < d)
    (es : List Sample) (hA : env.lookup (.named "agg_a") = some (es.map (sampleRow "_string")))
    (ws : List (Alias × Sel)) (hv : Option Expr) :
    evalBodyA o db env (.mk ws false (lraCols fn d) (some (.col (.withRef (.named "agg_a")) "time_series")) [] none none
        [.raw "fingerprint", .raw "timestamp_ns"] hv [] none) =
      havingFilter o env hv ((lraPts fn d es).map lraRow) := by
  rw [evalBodyA_grouped o db env ws (lraCols fn d) _ (es.map (fun s => qualify "time_series" (sampleRow "_string" s)))
    (by simp [sourceRowsA, hA]) _ rfl]
  congr 1
  rw [groupsBy_map]
  have hkey : ∀ s ∈ es, gkey o env (lraCols fn d) [.raw "fingerprint", .raw "timestamp_ns"]
        (qualify "time_series" (sampleRow "_string" s)) =
      (fun (k : Int × Int) => [Val.int k.1, Val.int k.2]) (lraKeyOf d s) := by
    intro s _
    unfold gkey
    rw [lra_aliasVals o env fn d hd]
    simp [evalE, Row.get, List.lookup, lraKeyOf]
  rw [groupsBy_congr _ _ es hkey, groupsBy_enc (lraKeyOf d) (fun (k : Int × Int) => [Val.int k.1, Val.int k.2])
    (by intro a b h; simp at h; exact Prod.ext h.1 h.2)]
  unfold lraPts
  simp only [List.map_map]
  apply List.map_congr_left
  intro g hg
  obtain ⟨⟨s0, rest, hgr, hk0⟩, _⟩ := groupsBy_head (lraKeyOf d) es g hg
  simp only [Function.comp_apply]
  exact lra_group_row o env fn d hd g.1 g.2 s0 rest hgr hk0

theorem lraRow_rep (pts : List Pt) (hl : ∀ p ∈ pts, p.labels = .null) : Rep (pts.map lraRow) pts := by
  apply rep_of_map
  intro p hp
  refine ⟨by simp [rview, Pt.view, lraRow, Row.get, List.lookup, numOf?, hl p hp], ?_⟩
  intro q hq
  simp only [lraRow, List.mem_cons, List.not_mem_nil, or_false] at hq
  rcases hq with rfl | rfl | rfl | rfl <;> simp [Std5]

theorem lraPts_labels (fn : RangeFn) (d : Nat) (es : List Sample) : ∀ p ∈ lraPts fn d es, p.labels = .null := by
  intro p hp
  unfold lraPts at hp
  obtain ⟨g, _, rfl⟩ := List.mem_map.mp hp
  rfl

end Qryn.LogQL

namespace Qryn.LogQL
open Qryn Qryn.Sql

/-! ### comparison (`ComparisonPlanner`: HAVING on the select of the stage before) -/
def cmpHaving : Option Comparison → Option Expr
  | none => none
  | some cm => some (and_ [cmpExpr cm])

theorem comparisonSel_eq (cm : Comparison) (ws : List (Alias × Sel)) (dist : Bool) (cols : List Expr) (f : Option Expr)
    (j : List (String × Alias × Expr)) (p w : Option Expr) (gb ob : List Expr) (l : Option Expr) :
    comparisonSel cm (.mk ws dist cols f j p w gb none ob l) = .mk ws dist cols f j p w gb (cmpHaving (some cm)) ob l := rfl

/-- the optional comparison step after a stage -/
def cmpOpt (cm : Option Comparison) (s : Sel) : Sel :=
  match cm with
  | none => s
  | some c => comparisonSel c s

theorem cmpOpt_eq (cm : Option Comparison) (ws : List (Alias × Sel)) (dist : Bool) (cols : List Expr) (f : Option Expr)
    (j : List (String × Alias × Expr)) (p w : Option Expr) (gb ob : List Expr) (l : Option Expr) :
    cmpOpt cm (.mk ws dist cols f j p w gb none ob l) = .mk ws dist cols f j p w gb (cmpHaving cm) ob l := by
  cases cm <;> rfl

theorem cmpOpt_withs (cm : Option Comparison) (s : Sel) : (cmpOpt cm s).withs = s.withs := by
  cases cm with
  | none => rfl
  | some c => cases s; rfl

/-- **comparison.** HAVING keeps exactly the points whose value satisfies the written comparison. -/
theorem having_rep (o : Oracles) (env : Env) (cm : Option Comparison) (T : Table) (pts : List Pt) (h : Rep T pts) :
    Rep (havingFilter o env (cmpHaving cm) T) (cmpStage cm pts) := by
  cases cm with
  | none => exact h
  | some c =>
    simp only [cmpHaving, havingFilter, cmpStage]
    refine ⟨?_, fun r hr => h.std r (List.mem_filter.mp hr).1⟩
    apply filter_rel rview Pt.view _ _ T pts h.view
    intro r _ p _ hv
    have hx : (r.get "value").toRat? = some p.value := by
      have : numOf? (r.get "value") = some p.value := by
        have := congrArg (fun v => v.2.2.1) hv
        simpa [rview, Pt.view] using this
      exact toRat_of_numOf this
    exact comparison_holds o env r p.value c hx

/-! ### the final select (`MainFinalizerPlanner.processMatrix`) -/
def matrixFinalCols : List Expr :=
  [simpleCol "prefinal.fingerprint" "fingerprint", simpleCol "prefinal.labels" "labels",
   simpleCol "prefinal.value" "value", simpleCol "prefinal.timestamp_ns" "timestamp_ns"]

theorem projectA_final (o : Oracles) (env : Env) (r : Row) (h : StdRow r) :
    projectA o env matrixFinalCols (qualify "prefinal" r) =
      [("fingerprint", r.get "fingerprint"), ("labels", r.get "labels"), ("value", r.get "value"),
       ("timestamp_ns", r.get "timestamp_ns")] := by
  have e1 := get_q "prefinal" "fingerprint" "prefinal.fingerprint" rfl r h
  have e2 := get_q "prefinal" "labels" "prefinal.labels" rfl r h
  have e3 := get_q "prefinal" "value" "prefinal.value" rfl r h
  have e4 := get_q "prefinal" "timestamp_ns" "prefinal.timestamp_ns" rfl r h
  simp [projectA, matrixFinalCols, scope, aliasVals, hasAgg, simpleCol, colName, get_cons, e1, e2, e3, e4]

theorem normRow_get (r : Row) (k : String) (hk : k ≠ "value") : (normRow r).get k = r.get k := by
  unfold Row.get normRow
  congr 1
  induction r with
  | nil => rfl
  | cons p r ih =>
    obtain ⟨k', v⟩ := p
    simp only [List.map_cons, List.lookup]
    by_cases hkk : k' = "value"
    · subst hkk
      have : (k == "value") = false := by simpa using hk
      simp only [if_true, this]
      exact ih
    · simp only [hkk, if_false]
      cases k == k' <;> simp [ih]

theorem rowLe_normRow (a b : Row) : rowLe matrixKeys (normRow a) (normRow b) = rowLe matrixKeys a b := by
  simp [rowLe, matrixKeys, normRow_get]

/-- **final select.** ORDER BY fingerprint, timestamp_ns over the points, values read as numbers. -/
theorem final_eval (o : Oracles) (db : Db) (env : Env) (T : Table) (pts : List Pt) (h : Rep T pts)
    (hT : env.lookup (.named "prefinal") = some T) (ws : List (Alias × Sel)) :
    (evalBodyA o db env (.mk ws false matrixFinalCols (some (.withRef (.named "prefinal"))) [] none none [] none
        [.orderBy (.raw "fingerprint") .asc, .orderBy (.raw "timestamp_ns") .asc] none)).map normRow =
      sortBy (rowLe matrixKeys) (pts.map Pt.row) := by
  have hagg : (matrixFinalCols.any hasAgg) = false := by decide
  simp only [evalBodyA, sourceRowsA, sourceRows, hT, Option.getD_some, List.foldl_nil, optB, Bool.and_self, filter_true,
    List.isEmpty_nil, hagg, Bool.not_false, if_true, Alias.text, List.isEmpty_cons, Bool.false_eq_true, if_false,
    orderKeys, List.map_map]
  rw [show [("fingerprint", Dir.asc), ("timestamp_ns", Dir.asc)] = matrixKeys from rfl]
  rw [← sortBy_map (rowLe matrixKeys) (rowLe matrixKeys) normRow rowLe_normRow]
  congr 1
  rw [List.map_map]
  apply map_rel rview Pt.view _ _ T pts h.view
  intro r hr p _ hv
  simp only [Function.comp_apply]
  rw [projectA_final o env r (h.std r hr)]
  simp only [rview, Pt.view, Prod.mk.injEq] at hv
  obtain ⟨h1, h2, h3, h4⟩ := hv
  simp [normRow, Pt.row, h1, h2, h4, toRat_of_numOf h3]

end Qryn.LogQL

namespace Qryn.LogQL
open Qryn Qryn.Sql

/-! ### `_time_series` and the labels join (`LabelsJoinPlanner`) -/
theorem timeSeriesA_eval (o : Oracles) (c : MCtx) (hn : c.namesOk) (d : LokiDb) (q : LogQuery) (env : Env) (T : Table)
    (hT : env.lookup (.named "fp_sel") = some T) (hP : FpTable T (fpSelected o c.toCtx d q)) (ws : List (Alias × Sel)) :
    evalBodyA o (d.toDbM c) env ((timeSeriesSel c.toCtx).setWiths ws) =
      (d.ts.filter (tsOk o c.toCtx d q)).map (tsOut o) := by
  have hproj : ∀ t : TsRow, projectA o env [simpleCol "time_series.fingerprint" "fingerprint", .col .tsLabels "labels"]
      (qualify "time_series" t.row) = tsOut o t := by
    intro t
    have h1 : Row.get (qualify "time_series" t.row) "time_series.labels" = .str t.labels := qts_labels t
    have h2 : Row.get (qualify "time_series" t.row) "time_series.fingerprint" = .int t.fp := qts_fp t
    have h1' : Row.get (("fingerprint", Val.int t.fp) :: qualify "time_series" t.row) "time_series.labels" = .str t.labels := by
      rw [get_cons]; simpa using h1
    simp [projectA, scope, aliasVals, hasAgg, colName, simpleCol, tsOut, get_cons, h2,
      evalE_tsLabels o env _ t.labels h1']
  have hagg : ([simpleCol "time_series.fingerprint" "fingerprint", Expr.col .tsLabels "labels"].any hasAgg) = false := by
    simp [simpleCol, hasAgg]
  simp only [timeSeriesSel, Sel.setWiths, evalBodyA, List.isEmpty_nil, hagg, Bool.not_false, Bool.and_self, if_true,
    List.foldl_nil, sourceRowsA, sourceRows, toDbM_tsDist d c hn, List.map_map, List.filter_map, Function.comp_def, hproj,
    optB, Bool.and_true, evalB_and, evalAll_cons, evalAll_nil, evalB_ge, evalE_raw, evalE_str, qts_date, cmpOp_ge_str,
    getTypes_eval o env _ c.toCtx _ (qts_type _), evalB_isIn_ref, hT, Option.getD_some, qts_fp, hP.contains]
  refine congrArg _ (List.filter_congr ?_)
  intro t _
  simp only [tsOk, Bool.and_assoc]
  rfl

/-- the labels attached by the join: those of the stream's first admissible series row -/
def withStreamLabels (o : Oracles) (c : Ctx) (d : LokiDb) (q : LogQuery) (p : Pt) : Pt :=
  { p with labels := ptLabels o c d q p }

theorem joinRow_get_main (r rr : Row) (h : StdRow r) (k ak : String) (hak : ak = "main" ++ "." ++ k) :
    (qualify "main" r ++ rr).get ak = match r.lookup k with | some v => v | none => rr.get ak := by
  subst hak
  rw [get_append, lookup_qualified "main" k r h]
  rfl

theorem joinRow_get_ts (r rr : Row) (h : StdRow r) : (qualify "main" r ++ rr).get "_time_series.labels" = rr.get "_time_series.labels" := by
  rw [get_append, lookup_qualified_other "main" "_time_series.labels" r h (by decide)
    (by intro k' hk'; rcases hk' with rfl | rfl | rfl | rfl | rfl <;> decide)]

theorem joinRow_get_tsfp (r rr : Row) (h : StdRow r) :
    (qualify "main" r ++ rr).get "_time_series.fingerprint" = rr.get "_time_series.fingerprint" := by
  rw [get_append, lookup_qualified_other "main" "_time_series.fingerprint" r h (by decide)
    (by intro k' hk'; rcases hk' with rfl | rfl | rfl | rfl | rfl <;> decide)]

theorem tsJoin_get_main (o : Oracles) (t : TsRow) (k : String) (hk : Std5 k) : (tsJoin o t).get ("main" ++ "." ++ k) = .null := by
  rcases hk with rfl | rfl | rfl | rfl | rfl <;> simp [tsJoin, Row.get, List.lookup]

theorem projectA_join (o : Oracles) (env : Env) (r rr : Row) (h : StdRow r)
    (hrr : ∀ k, Std5 k → rr.get ("main" ++ "." ++ k) = .null) :
    projectA o env preCols (qualify "main" r ++ rr) =
      [("fingerprint", r.get "fingerprint"), ("timestamp_ns", r.get "timestamp_ns"), ("labels", rr.get "_time_series.labels"),
       ("string", r.get "string"), ("value", r.get "value")] := by
  have g : ∀ k, Std5 k → ∀ ak, ak = "main" ++ "." ++ k → (qualify "main" r ++ rr).get ak = r.get k := by
    intro k hk ak hak
    rw [joinRow_get_main r rr h k ak hak]
    subst hak
    unfold Row.get
    cases r.lookup k with
    | some v => rfl
    | none => exact hrr k hk
  have e1 := g "fingerprint" (by simp [Std5]) "main.fingerprint" rfl
  have e2 := g "timestamp_ns" (by simp [Std5]) "main.timestamp_ns" rfl
  have e3 := g "string" (by simp [Std5]) "main.string" rfl
  have e4 := g "value" (by simp [Std5]) "main.value" rfl
  have e5 := joinRow_get_ts r rr h
  simp [projectA, preCols, scope, aliasVals, hasAgg, simpleCol, colName, get_cons, e1, e2, e3, e4, e5]

/-- **labels join.** `ANY LEFT JOIN _time_series` gives every point of a stream the labels of the stream's first
    admissible series row (none: no labels), and changes nothing else. -/
theorem labelsJoin_eval (o : Oracles) (c : MCtx) (d : LokiDb) (q : LogQuery) (env : Env) (T : Table) (pts : List Pt)
    (h : Rep T pts) (hl : ∀ p ∈ pts, p.labels = .null)
    (hM : env.lookup (.named "main") = some T)
    (hTS : env.lookup (.named "_time_series") = some ((d.ts.filter (tsOk o c.toCtx d q)).map (tsOut o)))
    (ws : List (Alias × Sel)) :
    Rep (evalBodyA o (d.toDbM c) env ((joinedSel c.toCtx).setWiths ws)) (pts.map (withStreamLabels o c.toCtx d q)) := by
  have hagg : (preCols.any hasAgg) = false := by decide
  have hcols : [simpleCol "main.fingerprint" "fingerprint", simpleCol "main.timestamp_ns" "timestamp_ns",
     simpleCol "_time_series.labels" "labels", simpleCol "main.string" "string", simpleCol "main.value" "value"] = preCols := rfl
  simp only [joinedSel, Sel.setWiths, hcols, evalBodyA, List.isEmpty_nil, hagg, Bool.not_false, Bool.and_self, if_true,
    List.foldl_cons, List.foldl_nil, sourceRowsA, sourceRows, hM, Option.getD_some, optB, filter_true, anyLeftJoin_eq, hTS,
    List.map_map, Alias.text]
  -- the row the join finds for a left row
  have hfind : ∀ r ∈ T, ∀ p ∈ pts, rview r = p.view →
      List.find? (fun rr => evalB o env (qualify "main" r ++ rr) (eq (.raw "main.fingerprint") (.raw "_time_series.fingerprint")))
        (List.map (prefixRow "_time_series" ∘ tsOut o) (List.filter (tsOk o c.toCtx d q) d.ts)) =
      ((d.ts.filter (tsOk o c.toCtx d q)).find? (fun t => p.key == .int t.fp)).map (tsJoin o) := by
    intro r hr p _ hv
    have hkey : r.get "fingerprint" = p.key := by
      have := congrArg (fun v => v.1) hv; simpa [rview, Pt.view] using this
    have hpre : ∀ t, (prefixRow "_time_series" ∘ tsOut o) t = tsJoin o t := fun t => prefix_tsOut o t
    rw [show (prefixRow "_time_series" ∘ tsOut o) = tsJoin o from funext hpre, List.find?_map]
    congr 1
    congr 1
    funext t
    simp only [Function.comp_apply, evalB_eq, evalE_raw]
    rw [joinRow_get_tsfp r _ (h.std r hr)]
    have e1 : (qualify "main" r ++ tsJoin o t).get "main.fingerprint" = r.get "fingerprint" := by
      rw [joinRow_get_main r _ (h.std r hr) "fingerprint" "main.fingerprint" rfl]
      unfold Row.get
      cases r.lookup "fingerprint" with
      | some v => rfl
      | none => simp [tsJoin, List.lookup]
    have e2 : (tsJoin o t).get "_time_series.fingerprint" = .int t.fp := by simp [tsJoin, get_cons]
    rw [e1, e2, hkey]
    cases hk : p.key <;> simp [cmpOp]
  refine ⟨?_, ?_⟩
  · rw [List.map_map, List.map_map]
    apply map_rel rview Pt.view _ _ T pts h.view
    intro r hr p hp hv
    simp only [Function.comp_apply]
    rw [hfind r hr p hp hv]
    simp only [rview, Pt.view, Prod.mk.injEq] at hv
    obtain ⟨h1, h2, h3, h4⟩ := hv
    have hpl := hl p hp
    cases hf : List.find? (fun t => p.key == Val.int t.fp) (List.filter (tsOk o c.toCtx d q) d.ts) with
    | none =>
      have := projectA_join o env r [] (h.std r hr) (by intro k _; rfl)
      simp only [List.append_nil] at this
      simp only [Option.map_none, this]
      have hlab : ptLabels o c.toCtx d q p = .null := by
        unfold ptLabels
        rw [hpl]
        cases hk : p.key with
        | int fp =>
          simp only [labelsOf]
          rw [hk] at hf
          rw [List.find?_filter] at hf
          have : (List.find? (fun t => decide (fromDate c.toCtx ≤ t.date) && typeOk c.toCtx t.tp && fpSelected o c.toCtx d q t.fp && t.fp == fp) d.ts) = none := by
            rw [← hf]
            congr 1
            funext t
            rw [Bool.eq_iff_iff]
            simp only [tsOk, int_beq, Bool.and_eq_true, beq_iff_eq, decide_eq_true_eq]
            constructor <;> (rintro ⟨a, b⟩; exact ⟨a, b.symm⟩)
          rw [this]
        | _ => rfl
      simp [rview, withStreamLabels, Pt.view, get_cons, get_nil, h1, h2, h3, hlab]
    | some t =>
      have := projectA_join o env r (tsJoin o t) (h.std r hr) (fun k hk => tsJoin_get_main o t k hk)
      simp only [Option.map_some, this]
      have hlab : ptLabels o c.toCtx d q p = .map (o.jsonLabels t.labels) := by
        unfold ptLabels
        rw [hpl]
        cases hk : p.key with
        | int fp =>
          simp only [labelsOf]
          rw [hk] at hf
          rw [List.find?_filter] at hf
          have : (List.find? (fun t => decide (fromDate c.toCtx ≤ t.date) && typeOk c.toCtx t.tp && fpSelected o c.toCtx d q t.fp && t.fp == fp) d.ts) = some t := by
            rw [← hf]
            congr 1
            funext t
            rw [Bool.eq_iff_iff]
            simp only [tsOk, int_beq, Bool.and_eq_true, beq_iff_eq, decide_eq_true_eq]
            constructor <;> (rintro ⟨a, b⟩; exact ⟨a, b.symm⟩)
          rw [this]
        | _ =>
          rw [hk] at hf
          have := List.find?_some hf
          simp at this
      simp [rview, withStreamLabels, Pt.view, get_cons, h1, h2, h3, hlab, tsJoin]
  · intro r hr
    obtain ⟨r0, _, rfl⟩ := List.mem_map.mp hr
    simp only [Function.comp_apply]
    intro kv hkv
    simp only [projectA, preCols, List.map_cons, List.map_nil, colName, simpleCol, List.mem_cons, List.not_mem_nil, or_false] at hkv
    rcases hkv with rfl | rfl | rfl | rfl | rfl <;> simp [Std5]

end Qryn.LogQL
