import Qryn.Read.Tail
namespace Qryn.Tail

theorem advance_cons (from_ t : Int) (rest : List Int) :
    advance from_ (t :: rest) = advance (if from_ < t then t + 1 else from_) rest := rfl

theorem advance_ge (from_ : Int) (tss : List Int) : from_ ≤ advance from_ tss := by
  induction tss generalizing from_ with
  | nil => exact Int.le_refl _
  | cons t rest ih =>
    rw [advance_cons]
    by_cases h : from_ < t
    · simp only [h, if_true]; have := ih (t + 1); omega
    · simp only [h, if_false]; exact ih from_

/-- every entry of the result lies at or before the next `from` (strictly before it unless it sits exactly on a value
    `from` takes: such an entry does not move `from` and is read again by the next tick) -/
theorem advance_covers (from_ : Int) (tss : List Int) : ∀ t ∈ tss, t ≤ advance from_ tss := by
  induction tss generalizing from_ with
  | nil => intro t ht; cases ht
  | cons x rest ih =>
    intro t ht
    rw [advance_cons]
    rcases List.mem_cons.mp ht with rfl | hm
    · by_cases h : from_ < t
      · simp only [h, if_true]; have := advance_ge (t + 1) rest; omega
      · simp only [h, if_false]; have := advance_ge from_ rest; omega
    · exact ih _ t hm

theorem froms_ge (from0 : Int) (results : List (List Int)) : ∀ f ∈ froms from0 results, from0 ≤ f := by
  induction results generalizing from0 with
  | nil => intro f hf; simp only [froms, List.mem_singleton] at hf; subst hf; exact Int.le_refl _
  | cons tss rest ih =>
    intro f hf
    simp only [froms, List.mem_cons] at hf
    rcases hf with rfl | hf
    · exact Int.le_refl _
    · exact Int.le_trans (advance_ge from0 tss) (ih _ f hf)

end Qryn.Tail
