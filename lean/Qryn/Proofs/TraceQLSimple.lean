import Qryn.Proofs.TraceQLAgg
/-! C11: one selector — `simpleExpressionPlanner.planner` end to end. -/
namespace Qryn.TraceQL
open Qryn Qryn.Sql

/-- the text of the number a span contributes, read off the index-scan row -/
def aggText (o : Oracles) (v : Val) : Option Bytes :=
  match v with
  | .int i => some (intText i)
  | .num s => if o.isNum s then some s else none
  | _ => none

theorem aggTexts_eq (o : Oracles) (vs : List Val) : aggTexts o vs = vs.filterMap (aggText o) := by
  unfold aggTexts aggText; rfl

theorem get_of_lookup_str {r : Row} {n : String} {s : Bytes} (h : r.get n = .str s) : r.lookup n = some (.str s) := by
  unfold Row.get at h
  cases hl : r.lookup n with
  | none => rw [hl] at h; simp at h
  | some v => rw [hl] at h; simp at h; rw [h]

theorem anyIf_find (o : Oracles) (l : List AttrRow) (P Q : AttrRow → Bool) (hPQ : ∀ a, P a = Q a)
    (hQ : ∀ a, Q a = true → o.isNum a.val = true) :
    aggText o (match Option.map AttrRow.qrow (l.find? P) with
      | some r => (match r.get "val" with | .str s => .num s | _ => .null)
      | none => .null) = Option.map (fun x => x.val) (l.find? Q) := by
  have : P = Q := funext hPQ
  subst this
  cases hf : l.find? P with
  | none => simp [aggText]
  | some a =>
    have hv : a.qrow.get "val" = .str a.val := qrow_val a
    simp only [Option.map_some, hv, aggText, hQ a (List.find?_some hf), if_true]

/-- `agg_val` of the row of span `k`, for an aggregated attribute -/
theorem rowA_agg_attr (o : Oracles) (env : Env) (c : Ctx) (d : TraceDb) (es : List Expr) (attr : String) (k : SpanKey)
    (h1 : attr ≠ "") (h2 : attr ≠ "duration") :
    aggText o ((rowA o env c d (es ++ aggWhere attr) attr k).get "agg_val") = aggValue o c d attr k := by
  have hcol : aggCol attr = [.col (.anyIfNum (aggKey attr).toUTF8.toList) "agg_val"] := by simp [aggCol, h1, h2]
  have hwh : aggWhere attr = [keyIs (aggKey attr)] := by simp [aggWhere, h1, h2]
  simp only [rowA, hcol, hwh, projG, idxCols, simpleCol, colName, Row.get, List.lookup, List.map_append, List.map_cons,
    List.map_nil, List.cons_append, List.nil_append]
  simp only [show ("agg_val" == "trace_id") = false from by decide, show ("agg_val" == "span_id") = false from by decide,
    show ("agg_val" == "duration") = false from by decide, show ("agg_val" == "timestamp_ns") = false from by decide,
    show ("agg_val" == "agg_val") = true from by decide, Option.getD_some, evalGrp]
  unfold aggValue
  simp only [h2, if_false]
  simp only [grpA, List.find?_map, List.find?_filter, Function.comp_def]
  apply anyIf_find
  · intro a
    have hk : a.qrow.get "key" = .str a.key := qrow_key a
    have hv : a.qrow.get "val" = .str a.val := qrow_val a
    rw [hk, hv, val_str_beq]
    simp only [aggAttrKey, aggKey]
    by_cases hkey : (a.key == ((attrKey attr).getD attr).toUTF8.toList) = true
    · have hw : evalAny o env a.qrow (es ++ [keyIs ((attrKey attr).getD attr)]) = true :=
        evalAny_of_mem o env a.qrow (keyIs ((attrKey attr).getD attr)) _ (by simp) (by rw [evalB_keyIs]; exact hkey)
      simp only [rowOk, hw, hkey]
      cases admissible c a <;> cases (a.span == k) <;> cases o.isNum a.val <;> simp
    · simp only [Bool.not_eq_true] at hkey
      simp only [hkey]
      simp
  · intro a ha
    simp only [Bool.and_eq_true] at ha
    exact ha.2

/-- `agg_val` of the row of span `k`, for `duration` -/
theorem rowA_agg_dur (o : Oracles) (env : Env) (c : Ctx) (d : TraceDb) (wh : List Expr) (k : SpanKey)
    (hcons : DurConsistent d) (hne : grpA o env c d wh k ≠ []) :
    aggText o ((rowA o env c d wh "duration" k).get "agg_val") = aggValue o c d "duration" k := by
  have hcol : aggCol "duration" = [.col (.call "toFloat64" [.raw "duration"]) "agg_val"] := by simp [aggCol]
  simp only [rowA, hcol, projG, idxCols, simpleCol, colName, Row.get, List.lookup, List.map_cons,
    List.map_nil, List.cons_append, List.nil_append]
  simp only [show ("agg_val" == "trace_id") = false from by decide, show ("agg_val" == "span_id") = false from by decide,
    show ("agg_val" == "duration") = false from by decide, show ("agg_val" == "timestamp_ns") = false from by decide,
    show ("agg_val" == "agg_val") = true from by decide, Option.getD_some, evalGrp]
  obtain ⟨r0, rest, hg⟩ := List.ne_nil_iff_exists_cons.mp hne
  obtain ⟨a, ha, rfl, hk, hok⟩ := grpA_mem o env c d wh k r0 (by rw [hg]; simp)
  have hd : evalE o env a.qrow (.raw "duration") = .int a.dur := by simp [evalE, qrow_dur]
  rw [hg]
  simp only [show ("toFloat64" = "any") = False from by decide, if_false, if_true, List.map_cons, firstNonNull, hd]
  simp only [List.find?, show (Val.int a.dur != Val.null) = true from by simp, Option.getD_some, aggText]
  unfold aggValue
  simp only [if_true]
  cases hf : d.attrs.find? (fun a => a.span == k && admissible c a) with
  | none =>
    have := List.find?_eq_none.mp hf a ha
    simp [hk, rowOk_admissible o env c wh a hok] at this
  | some a' =>
    have hp := List.find?_some hf
    simp only [Bool.and_eq_true, beq_iff_eq] at hp
    have := hcons a ha a' (List.mem_of_find?_eq_some hf) (by rw [hk, hp.1])
    simp [this]

theorem indexGroupBy_idx (pfx : String) (c : Ctx) (es : List Expr) (cond : Cond) (aggAttr : String) :
    indexGroupBy pfx (idxSel c es cond aggAttr) = grpSel pfx [] none (idxSel c es cond aggAttr) := by
  simp [indexGroupBy, grpSel, Sel.with_, addWith1, hasAlias, Sel.withs, idxSel, Sel.setWiths, grpCols]

/-- `check` refuses an aggregator other than `count` that names no attribute -/
theorem check_agg (s : Selector) (op : ScriptOp) (rest : Script) (u : Unit) (h : check ((s, op) :: rest) = .ok u)
    (a : Agg) (ha : s.agg = some a) (hfn : a.fn ≠ .count) : a.attr ≠ "" := by
  intro hattr
  unfold check at h
  simp only [ha, bind, Except.bind] at h
  rw [if_pos ⟨hfn, hattr⟩] at h
  simp [throw, throwThe, MonadExceptOf.throw] at h

/-- the shape of what `simpleExpressionPlanner.planner` builds for a selector with conditions -/
theorem simpleSel_shape (c : Ctx) (pfx : String) (s : Selector) (op : ScriptOp) (rest : Script) (X : Sel) (e : AttrExp)
    (h : simpleSel c pfx ((s, op) :: rest) = .ok X) (he : s.attrs = some e) :
    ∃ es, mapOk termSql (analyzeCond [] e).1 = .ok es ∧ (analyzeCond [] e).1.length ≤ 64 ∧
      ((s.agg = none ∧ X = grpSel pfx [] none (idxSel c es (analyzeCond [] e).2 "")) ∨
       (∃ a f v, s.agg = some a ∧ cmpSql a.cmp = some f ∧ aggCmpText a = .ok v ∧ (a.fn ≠ .count → a.attr ≠ "") ∧
          X = grpSel pfx [] (aggHaving pfx a.fn f v) (idxSel c es (analyzeCond [] e).2 a.attr))) := by
  unfold simpleSel at h
  cases hc : check ((s, op) :: rest) with
  | error m => simp [hc, bind, Except.bind] at h
  | ok u =>
    simp only [hc, bind, Except.bind, he] at h
    cases hagg : s.agg with
    | none =>
      simp only [hagg] at h
      cases ha : attrCondition c (analyzeCond [] e).1 (analyzeCond [] e).2 "" with
      | error m => simp [ha] at h
      | ok SA =>
        obtain ⟨es, hm, rfl, h64⟩ := attrCondition_shape c _ _ _ SA ha
        refine ⟨es, hm, h64, Or.inl ⟨rfl, ?_⟩⟩
        simp [ha, pure, Except.pure, indexGroupBy_idx] at h
        exact h.symm
    | some a =>
      simp only [hagg] at h
      cases ha : attrCondition c (analyzeCond [] e).1 (analyzeCond [] e).2 a.attr with
      | error m => simp [ha] at h
      | ok SA =>
        obtain ⟨es, hm, rfl, h64⟩ := attrCondition_shape c _ _ _ SA ha
        refine ⟨es, hm, h64, Or.inr ?_⟩
        simp only [ha, pure, Except.pure, indexGroupBy_idx] at h
        unfold aggregator at h
        cases hf : cmpSql a.cmp with
        | none => simp [hf, bind, Except.bind] at h
        | some f =>
          cases hv : aggCmpText a with
          | error m => simp [hf, hv, bind, Except.bind, pure, Except.pure] at h
          | ok v =>
            simp [hf, hv, bind, Except.bind, pure, Except.pure] at h
            refine ⟨a, f, v, rfl, hf, hv, check_agg s op rest u hc a hagg, ?_⟩
            rw [← h]
            simp [grpSel, Sel.andHaving, andCond, aggHaving]

theorem evalSelG_true (o : Oracles) (ao : AggOracles) (db : Db) (env : Env) (ws : List (Alias × Sel)) (d : Bool)
    (c : List Expr) (f : Expr) (w : Option Expr) (k0 : Expr) (ks : List Expr)
    (h : Option Expr) (ob : List Expr) (l : Option Expr) :
    evalSelG o ao db true env (.mk ws d c (some f) [] none w (k0 :: ks) h ob l) =
      evalSelG o ao db false (evalWithsG o ao db env ws) (.mk ws d c (some f) [] none w (k0 :: ks) h ob l) := by
  rw [evalSelG_grouped, evalSelG_grouped]
  simp

theorem TraceRows.congr {T : Table} {P P' : Bytes → Prop} (h : TraceRows T P) (hpp : ∀ tr, P tr ↔ P' tr) : TraceRows T P' :=
  ⟨h.nodup, h.shape, fun tr => (h.mem tr).trans (hpp tr)⟩

theorem qualified_span_name (pfx : String) : pfx ++ "index_search.span_id" = (pfx ++ "index_search") ++ "." ++ "span_id" := by
  simp [String.append_assoc]

/-- `count(distinct <prefix>index_search.span_id)` over the rows of one trace: the number of its selected spans -/
theorem canon_count (pfx : String) (rowOf : SpanKey → Row) (tr : Bytes) (L : List SpanKey) (hn : L.Nodup)
    (htr : ∀ k ∈ L, k.1 = tr) (hsp : ∀ k ∈ L, (rowOf k).get "span_id" = .str k.2) :
    (dedup (((L.map rowOf).map (qualify (pfx ++ "index_search"))).map
      (fun r => r.get (pfx ++ "index_search.span_id")))).length = L.length := by
  have h1 : ((L.map rowOf).map (qualify (pfx ++ "index_search"))).map (fun r => r.get (pfx ++ "index_search.span_id")) =
      L.map (fun k => Val.str k.2) := by
    rw [List.map_map, List.map_map]
    apply List.map_congr_left
    intro k hk
    simp only [Function.comp, qualified_span_name, get_qualify_dot, get_of_lookup_str (hsp k hk)]
  rw [h1, dedup_eq_self_of_nodup, List.length_map]
  apply nodup_map_of_inj_on _ _ hn
  intro a ha b hb hab
  have h2 : a.2 = b.2 := by simpa using hab
  exact Prod.ext ((htr a ha).trans (htr b hb).symm) h2

theorem matchedSpans_eq (o : Oracles) (c : Ctx) (d : TraceDb) (e : AttrExp) (tr : Bytes) :
    ((spans c d).filter (spanHolds o c d e)).filter (fun k => k.1 == tr) = matchedSpans o c d e tr := by
  rw [List.filter_filter, matchedSpans]

theorem filterMap_congr_mem {α β} (f g : α → Option β) : ∀ (l : List α), (∀ x ∈ l, f x = g x) → l.filterMap f = l.filterMap g
  | [], _ => rfl
  | x :: xs, h => by
    simp only [List.filterMap_cons, h x (by simp)]
    rw [filterMap_congr_mem f g xs (fun y hy => h y (List.mem_cons_of_mem _ hy))]

theorem grpSel_addCols (pfx : String) (hav : Option Expr) (SA : Sel) (extra : List Expr) :
    (grpSel pfx [] hav SA).addCols extra = grpSel pfx extra hav SA := by
  simp [grpSel, Sel.addCols]

/-- **one selector**: the select planned for a selector (with whatever columns a parent node adds) returns
    one row per trace the selector matches -/
theorem simple_traceRows (o : Oracles) (ao : AggOracles) (hp : PermInv ao) (c : Ctx) (d : TraceDb)
    (hcons : DurConsistent (d.seen o c)) (pfx : String) (s : Selector) (op : ScriptOp) (rest : Script) (X : Sel)
    (h : simpleSel c pfx ((s, op) :: rest) = .ok X) (hs : SelOk s) (extra : List Expr) (env : Env) :
    TraceRows (evalSelG o ao (d.toDb c) true env (X.addCols extra)) (fun tr => selMatches o ao c (d.seen o c) s tr = true) := by
  obtain ⟨e, he, hinj⟩ := hs.attrs
  obtain ⟨es, hm, h64, hX⟩ := simpleSel_shape c pfx s op rest X e h he
  have hstage := fun (own : Bool) (env0 : Env) (aggAttr : String) => stageA_perm o ao c d own env0 e es aggAttr hinj hm h64
  generalize d.seen o c = ds at hcons hstage ⊢
  -- the common part: stage A feeding stage B
  have key : ∀ (aggAttr : String) (hav : Option Expr),
      (∀ env' : Env, ∀ g g' : List Row, g.Perm g' → havingG o ao env' g hav = havingG o ao env' g' hav) →
      TraceRows (evalSelG o ao (d.toDb c) true env (grpSel pfx extra hav (idxSel c es (analyzeCond [] e).2 aggAttr)))
        (fun tr => matchedSpans o c ds e tr ≠ [] ∧
          havingG o ao ((.named (pfx ++ "index_search"), evalSelG o ao (d.toDb c) false env (idxSel c es (analyzeCond [] e).2 aggAttr)) :: env)
            (((matchedSpans o c ds e tr).map (rowA o env c ds (es ++ aggWhere aggAttr) aggAttr)).map (qualify (pfx ++ "index_search"))) hav = true) := by
    intro aggAttr hav hperm
    unfold grpSel
    rw [evalSelG_true]
    simp only [evalWithsG]
    have hSR : SpanRows (evalSelG o ao (d.toDb c) false env (idxSel c es (analyzeCond [] e).2 aggAttr))
        ((spans c ds).filter (spanHolds o c ds e)) (rowA o env c ds (es ++ aggWhere aggAttr) aggAttr) := by
      have hne : ∀ k ∈ (spans c ds).filter (spanHolds o c ds e), grpA o env c ds (es ++ aggWhere aggAttr) k ≠ [] := by
        intro k hk
        obtain ⟨a, ha, hka, hok⟩ := spanHolds_rowOk o env c ds e es (es ++ aggWhere aggAttr) hinj hm
          (fun x hx => List.mem_append_left _ hx) k (List.mem_filter.mp hk).2
        exact grpA_ne_nil o env c ds _ k a ha hka hok
      exact ⟨hstage false env aggAttr,
        List.Nodup.sublist List.filter_sublist (nodup_dedup _),
        fun k hk => rowA_trace o env c ds _ aggAttr k (hne k hk),
        fun k hk => rowA_span o env c ds _ aggAttr k (hne k hk)⟩
    have := stageB o ao (d.toDb c) _ pfx _ _ _ hSR extra hav (idxSel c es (analyzeCond [] e).2 aggAttr)
      (lookup_head _ _ env) (hperm _)
    simp only [matchedSpans_eq] at this
    exact this
  have hmne : ∀ tr, (matchedSpans o c ds e tr ≠ []) ↔ (!(matchedSpans o c ds e tr).isEmpty) = true := by
    intro tr; cases matchedSpans o c ds e tr <;> simp
  rcases hX with ⟨hagg, rfl⟩ | ⟨a, f, v, hagg, hf, hv, hattr0, rfl⟩
  · rw [grpSel_addCols]
    refine (key "" none (fun _ _ _ _ => rfl)).congr ?_
    intro tr
    simp only [selMatches, he, hagg, havingG, and_true, Bool.and_true]
    exact hmne tr
  · rw [grpSel_addCols]
    refine (key a.attr (aggHaving pfx a.fn f v) (fun env' g g' hg => havingG_agg_perm o ao hp env' pfx a.fn a.cmp f v hf g g' hg)).congr ?_
    intro tr
    simp only [selMatches, he, hagg, hv, Bool.and_eq_true, ← hmne]
    apply and_congr_right
    intro hne
    rw [havingG_agg o ao _ pfx a.fn a.cmp f v hf]
    unfold aggHolds
    rw [cmpName_eq_cmpSql, hf]
    have hMn : (matchedSpans o c ds e tr).Nodup := by
      rw [← matchedSpans_eq]
      exact List.Nodup.sublist List.filter_sublist (List.Nodup.sublist List.filter_sublist (nodup_dedup _))
    have hMt : ∀ k ∈ matchedSpans o c ds e tr, k.1 = tr ∧ spanHolds o c ds e k = true := by
      intro k hk
      simp only [matchedSpans, List.mem_filter, Bool.and_eq_true, beq_iff_eq] at hk
      exact hk.2
    have hgne : ∀ k ∈ matchedSpans o c ds e tr, grpA o env c ds (es ++ aggWhere a.attr) k ≠ [] := by
      intro k hk
      obtain ⟨x, hx, hkx, hok⟩ := spanHolds_rowOk o env c ds e es (es ++ aggWhere a.attr) hinj hm
        (fun x hx => List.mem_append_left _ hx) k (hMt k hk).2
      exact grpA_ne_nil o env c ds _ k x hx hkx hok
    cases hfn : a.fn with
    | count =>
      simp only
      rw [canon_count pfx _ tr _ hMn (fun k hk => (hMt k hk).1)
        (fun k hk => rowA_span o env c ds _ a.attr k (hgne k hk))]
    | sum | min | max | avg =>
      simp only
      have hattr : a.attr ≠ "" := hattr0 (by rw [hfn]; decide)
      rw [aggTexts_eq, List.map_map, List.map_map, List.filterMap_map]
      rw [filterMap_congr_mem _ (aggValue o c ds a.attr) (matchedSpans o c ds e tr)]
      intro k hk
      simp only [Function.comp, get_qualify_nodot _ _ _ (show '.' ∉ "agg_val".toList from by decide)]
      by_cases hd : a.attr = "duration"
      · rw [hd]
        have hg := hgne k hk
        rw [hd] at hg
        exact rowA_agg_dur o env c ds _ k hcons hg
      · exact rowA_agg_attr o env c ds es a.attr k hattr hd

end Qryn.TraceQL
