import Qryn.Http.Router
import Qryn.Proofs.Auth
/-! Lemmas about the router and middleware model. Core-only. -/
namespace Qryn.Http
open Qryn

/-! ### status of a call list -/

theorem statusOf?_append (a b : List WOp) :
    statusOf? (a ++ b) = match statusOf? a with | some c => some c | none => statusOf? b := by
  induction a with
  | nil => simp [statusOf?]
  | cons op a ih => cases op <;> simp [statusOf?, ih]

theorem foldl_wstep_status (ops : List WOp) : ∀ s : WState,
    (ops.foldl wstep s).status = match s.status with | some c => some c | none => statusOf? ops := by
  induction ops with
  | nil => intro s; cases h : s.status <;> simp [statusOf?, h]
  | cons op ops ih =>
    intro s
    rw [List.foldl_cons, ih]
    cases op with
    | setHeader k v => simp [wstep, statusOf?]
    | delHeader k => simp [wstep, statusOf?]
    | writeHeader c => cases h : s.status <;> simp [wstep, statusOf?, h]
    | write b => cases h : s.status <;> simp [wstep, statusOf?, h]

/-- the status the client sees is `statusOf` of the calls that reach the outermost writer -/
theorem respond_status (r : Run) : (respond r).status = statusOf r.ops := by
  simp [respond, statusOf, foldl_wstep_status]

theorem respond_effects (r : Run) : (respond r).effects = r.effects := rfl

/-! ### the gzip writer never changes the status -/

theorem gz_phase2 (ops : List WOp) : ∀ s : GzState, s.codeSet = true → s.code / 100 = 2 → statusOf? s.out = none →
    (ops.foldl gzStep s).code = s.code ∧ statusOf? (ops.foldl gzStep s).out = none := by
  induction ops with
  | nil => intro s _ _ h; exact ⟨rfl, h⟩
  | cons op ops ih =>
    intro s hs hc ho
    rw [List.foldl_cons]
    cases op with
    | setHeader k v =>
      have := ih { s with out := s.out ++ [.setHeader k v] } hs hc (by simp [statusOf?_append, ho, statusOf?])
      simpa [gzStep] using this
    | delHeader k =>
      have := ih { s with out := s.out ++ [.delHeader k] } hs hc (by simp [statusOf?_append, ho, statusOf?])
      simpa [gzStep] using this
    | writeHeader c =>
      have := ih s hs hc ho
      simpa [gzStep, hs] using this
    | write b =>
      have := ih { s with codeSet := true, out := s.out ++ [.setHeader "Content-Encoding" "gzip"],
                          written := s.written + b.length, touched := true, buf := s.buf ++ b } rfl hc
        (by simp [statusOf?_append, ho, statusOf?])
      simpa [gzStep, hc] using this

theorem gz_phase3 (ops : List WOp) : ∀ (s : GzState) (c : Nat), s.codeSet = true → s.code / 100 ≠ 2 →
    statusOf? s.out = some c →
    (ops.foldl gzStep s).code = s.code ∧ statusOf? (ops.foldl gzStep s).out = some c := by
  induction ops with
  | nil => intro s c _ _ h; exact ⟨rfl, h⟩
  | cons op ops ih =>
    intro s c hs hc ho
    rw [List.foldl_cons]
    cases op with
    | setHeader k v =>
      have := ih { s with out := s.out ++ [.setHeader k v] } c hs hc (by simp [statusOf?_append, ho])
      simpa [gzStep] using this
    | delHeader k =>
      have := ih { s with out := s.out ++ [.delHeader k] } c hs hc (by simp [statusOf?_append, ho])
      simpa [gzStep] using this
    | writeHeader c' =>
      have := ih s c hs hc ho
      simpa [gzStep, hs] using this
    | write b =>
      have := ih { s with codeSet := true, out := s.out ++ [.write b] } c rfl hc (by simp [statusOf?_append, ho])
      simpa [gzStep, hc] using this

theorem gz_phase1 (gz : Bytes → Bytes) (gzHdr : Bytes) (ops : List WOp) : ∀ s : GzState,
    s.codeSet = false → s.code = 200 → statusOf? s.out = none →
    statusOf (gzClose gz gzHdr (ops.foldl gzStep s)) = statusOf ops := by
  induction ops with
  | nil =>
    intro s _ hc ho
    simp [gzClose, hc, statusOf, statusOf?_append, ho, statusOf?]
  | cons op ops ih =>
    intro s hs hc ho
    rw [List.foldl_cons]
    cases op with
    | setHeader k v =>
      have := ih { s with out := s.out ++ [.setHeader k v] } hs hc (by simp [statusOf?_append, ho, statusOf?])
      simpa [gzStep, statusOf, statusOf?] using this
    | delHeader k =>
      have := ih { s with out := s.out ++ [.delHeader k] } hs hc (by simp [statusOf?_append, ho, statusOf?])
      simpa [gzStep, statusOf, statusOf?] using this
    | writeHeader c =>
      by_cases h2 : c / 100 = 2
      · have := gz_phase2 ops { s with codeSet := true, code := c, out := s.out ++ [.setHeader "Content-Encoding" "gzip"] }
          rfl h2 (by simp [statusOf?_append, ho, statusOf?])
        simp only [gzStep, hs, Bool.false_eq_true, if_false, h2, if_true]
        simp only [gzClose, this.1, h2, ne_eq, not_true_eq_false, if_false, statusOf, statusOf?_append, this.2, statusOf?]
      · have := gz_phase3 ops { s with codeSet := true, code := c, out := s.out ++ [.writeHeader c] } c
          rfl h2 (by simp [statusOf?_append, ho, statusOf?])
        simp only [gzStep, hs, Bool.false_eq_true, if_false, h2]
        simp only [gzClose, this.1, ne_eq, h2, not_false_eq_true, if_true, statusOf, this.2, statusOf?]
    | write b =>
      have h2 : s.code / 100 = 2 := by rw [hc]
      have := gz_phase2 ops (gzStep s (.write b)) (by simp [gzStep, h2]) (by simp [gzStep, h2])
        (by simp [gzStep, h2, statusOf?_append, ho, statusOf?])
      have hcode : (gzStep s (.write b)).code = 200 := by simp [gzStep, hc]
      simp only [gzClose, this.1, hcode, ne_eq, not_true_eq_false, if_false, statusOf, statusOf?_append, this.2, statusOf?]

/-- **the gzip wrapper preserves the status** of whatever the wrapped handler does -/
theorem gzip_status (gz : Bytes → Bytes) (gzHdr : Bytes) (ops : List WOp) :
    statusOf (gzClose gz gzHdr (ops.foldl gzStep {})) = statusOf ops :=
  gz_phase1 gz gzHdr ops {} rfl rfl rfl

/-! ### transparent middlewares -/

/-- a middleware that runs the next handler exactly as it is and leaves its status alone -/
def Transparent (m : Middleware) : Prop :=
  ∀ (next : Handler) (req : Req), (m next req).effects = (next req).effects ∧
    statusOf (m next req).ops = statusOf (next req).ops

theorem gzipMw_transparent (gz : Bytes → Bytes) (gzHdr : Bytes) : Transparent (gzipMw gz gzHdr) := by
  intro next req
  unfold gzipMw
  by_cases h : containsSub gzipWord req.acceptEncoding = true
  · simp [h, gzip_status]
  · simp [h]

theorem corsMw_transparent (o : String) : Transparent (corsMw o) := by
  intro next req
  simp [corsMw, statusOf, statusOf?]

theorem loggingMw_transparent : Transparent loggingMw := fun _ _ => ⟨rfl, rfl⟩

theorem chain_nil (h : Handler) : chain [] h = h := rfl
theorem chain_cons (m : Middleware) (ms : List Middleware) (h : Handler) : chain (m :: ms) h = m (chain ms h) := rfl
theorem chain_append (a b : List Middleware) (h : Handler) : chain (a ++ b) h = chain a (chain b h) := by
  simp [chain, List.foldr_append]

theorem chain_transparent (pre : List Middleware) (hp : ∀ m ∈ pre, Transparent m) (h : Handler) (req : Req) :
    (chain pre h req).effects = (h req).effects ∧ statusOf (chain pre h req).ops = statusOf (h req).ops := by
  induction pre with
  | nil => exact ⟨rfl, rfl⟩
  | cons m ms ih =>
    have t := hp m (by simp) (chain ms h) req
    have r := ih (fun x hx => hp x (by simp [hx]))
    rw [chain_cons]
    exact ⟨t.1.trans r.1, t.2.trans r.2⟩

/-! ### the auth middleware -/

theorem statusOf_httpError (msg : Bytes) (code : Nat) : statusOf (httpError msg code) = code := rfl

theorem rejectRun_effects (h : Option Bytes) (d : Decision) : (rejectRun h d).effects = [] := by
  cases d <;> simp only [rejectRun] <;> split <;> rfl

theorem rejectRun_status (h : Option Bytes) (d : Decision) : statusOf (rejectRun h d).ops = rejectCode d := by
  cases d <;> simp only [rejectRun, rejectCode] <;> first | rfl | (split <;> rfl)

theorem authMw_reject {login pass : Bytes} {req : Req} (next : Handler)
    (h : authDecision login pass req.auth ≠ .pass) :
    authMw login pass next req = rejectRun req.auth (authDecision login pass req.auth) := by
  unfold authMw
  cases hd : authDecision login pass req.auth <;> simp_all

theorem authMw_pass {login pass : Bytes} {req : Req} (next : Handler)
    (h : authDecision login pass req.auth = .pass) : authMw login pass next req = next req := by
  simp [authMw, h]

theorem rejectCode_cases {d : Decision} (h : d ≠ .pass) : rejectCode d = 401 ∨ rejectCode d = 400 := by
  cases d <;> simp_all [rejectCode]

/-! ### route matching -/

def Route.accepts (r : Route) (req : Req) : Prop :=
  r.path req.path = true ∧ (r.methods = [] ∨ req.method ∈ r.methods)

instance (r : Route) (req : Req) : Decidable (r.accepts req) := by unfold Route.accepts; infer_instance

theorem routeMatch_true {r : Route} {req : Req} {m : Bool} :
    (routeMatch r req m).1 = true ↔ r.accepts req := by
  unfold routeMatch Route.accepts
  by_cases hp : r.path req.path = true
  · by_cases hm : r.methods ≠ [] ∧ req.method ∉ r.methods
    · rw [if_neg (by simp [hp]), if_pos hm]
      simp only [Bool.false_eq_true, false_iff]
      rintro ⟨_, h | h⟩
      · exact hm.1 h
      · exact hm.2 h
    · rw [if_neg (by simp [hp]), if_neg hm]
      simp only [true_iff]
      refine ⟨hp, ?_⟩
      by_cases he : r.methods = []
      · exact .inl he
      · exact .inr (Decidable.byContradiction fun x => hm ⟨he, x⟩)
  · simp [hp]

/-- a found route is a registered route that accepts the request -/
theorem matchRoutes_route {rs : List Route} {req : Req} {m : Bool} {r : Route}
    (h : matchRoutes rs req m = .route r) : r ∈ rs ∧ r.accepts req := by
  induction rs generalizing m with
  | nil => simp only [matchRoutes] at h; split at h <;> cases h
  | cons x xs ih =>
    simp only [matchRoutes] at h
    split at h
    · rename_i b hb
      cases h
      exact ⟨by simp, routeMatch_true.mp (by rw [hb])⟩
    · rename_i b hb
      have := ih h
      exact ⟨by simp [this.1], this.2⟩

/-- whenever some registered route accepts the request, a route is found (so the middlewares run) -/
theorem matchRoutes_complete {rs : List Route} {req : Req} {m : Bool} {r : Route}
    (hr : r ∈ rs) (ha : r.accepts req) : ∃ r', matchRoutes rs req m = .route r' := by
  induction rs generalizing m with
  | nil => cases hr
  | cons x xs ih =>
    simp only [matchRoutes]
    cases hx : routeMatch x req m with
    | mk b m' =>
      cases b with
      | true => exact ⟨x, rfl⟩
      | false =>
        have hne : r ≠ x := fun e => by
          subst e
          have := (routeMatch_true (m := m)).mpr ha
          rw [hx] at this; cases this
        rcases List.mem_cons.mp hr with e | hmem
        · exact absurd e hne
        · exact ih hmem

end Qryn.Http
