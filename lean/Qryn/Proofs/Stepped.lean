import Qryn.Prom.Stepped
import Qryn.Proofs.Assembly
/-! Lemmas about the stepped sample path (`Qryn.Prom.Stepped`): arithmetic of the bucket end, the group keys,
    `argMax`, soundness / completeness / order of `bucket`, the lookback selection over bucketed samples,
    the range filter. -/
namespace Qryn.Prom.Stepped
open Qryn Qryn.Read.Assembly Qryn.Read.Cursor

/-! ## arithmetic of `bucketEnd` -/

theorem mul_lt_grid {a b step : Int} (hs : 0 < step) (h : a * step < b * step) : a < b := by
  rcases Int.lt_or_le a b with hlt | hge
  · exact hlt
  · have := Int.mul_le_mul_of_nonneg_right hge (Int.le_of_lt hs)
    omega

theorem mul_le_grid {a b step : Int} (hs : 0 < step) (h : a ≤ b) : a * step ≤ b * step :=
  Int.mul_le_mul_of_nonneg_right h (Int.le_of_lt hs)

/-- the bucket end is the grid point `start + k·step` (k ≥ 0) with `ts ≤ start + k·step < ts + step` -/
theorem bucketEnd_spec (start step ts : Int) (hs : 0 < step) (ht : start ≤ ts) :
    ∃ k : Int, 0 ≤ k ∧ bucketEnd start step ts = start + k * step ∧ ts ≤ start + k * step ∧
      start + k * step < ts + step := by
  refine ⟨(ts - start + step - 1) / step, Int.ediv_nonneg (by omega) (Int.le_of_lt hs), ?_, ?_, ?_⟩
  · simp [bucketEnd]; omega
  · have h1 := Int.mul_ediv_add_emod (ts - start + step - 1) step
    have h2 := Int.emod_lt_of_pos (ts - start + step - 1) hs
    have h3 : step * ((ts - start + step - 1) / step) = (ts - start + step - 1) / step * step := Int.mul_comm _ _
    omega
  · have h1 := Int.mul_ediv_add_emod (ts - start + step - 1) step
    have h2 := Int.emod_nonneg (ts - start + step - 1) (Int.ne_of_gt hs)
    have h3 : step * ((ts - start + step - 1) / step) = (ts - start + step - 1) / step * step := Int.mul_comm _ _
    omega

theorem bucketEnd_ge (start step ts : Int) (hs : 0 < step) (ht : start ≤ ts) : ts ≤ bucketEnd start step ts := by
  obtain ⟨k, _, e, h1, _⟩ := bucketEnd_spec start step ts hs ht; omega

theorem bucketEnd_lt (start step ts : Int) (hs : 0 < step) (ht : start ≤ ts) :
    bucketEnd start step ts < ts + step := by
  obtain ⟨k, _, e, _, h2⟩ := bucketEnd_spec start step ts hs ht; omega

/-- against a grid point `t = start + m·step`: the bucket end is `≤ t` exactly when the sample is -/
theorem bucketEnd_le_grid (start step ts m : Int) (hs : 0 < step) (ht : start ≤ ts) :
    bucketEnd start step ts ≤ start + m * step ↔ ts ≤ start + m * step := by
  obtain ⟨k, _, e, h1, h2⟩ := bucketEnd_spec start step ts hs ht
  constructor
  · intro h; omega
  · intro h
    rw [e]
    rcases Int.lt_or_le m k with hlt | hge
    · exfalso
      have : (m + 1) * step ≤ k * step := mul_le_grid hs (by omega)
      have e2 : (m + 1) * step = m * step + step := by rw [Int.add_mul]; omega
      omega
    · have := mul_le_grid hs hge
      omega

/-- … and it is `≥ lo = start + j·step` exactly when the sample is later than `lo − step` -/
theorem grid_le_bucketEnd (start step ts j : Int) (hs : 0 < step) (ht : start ≤ ts) :
    start + j * step ≤ bucketEnd start step ts ↔ start + j * step - step < ts := by
  obtain ⟨k, _, e, h1, h2⟩ := bucketEnd_spec start step ts hs ht
  constructor
  · intro h; omega
  · intro h
    rw [e]
    rcases Int.lt_or_le k j with hlt | hge
    · exfalso
      have : (k + 1) * step ≤ j * step := mul_le_grid hs (by omega)
      have e2 : (k + 1) * step = k * step + step := by rw [Int.add_mul]; omega
      omega
    · have := mul_le_grid hs hge
      omega

theorem bucketEnd_mono (start step a b : Int) (hs : 0 < step) (ha : start ≤ a) (hab : a ≤ b) :
    bucketEnd start step a ≤ bucketEnd start step b := by
  obtain ⟨k, _, e, h1, _⟩ := bucketEnd_spec start step b hs (by omega)
  rw [e]
  exact (bucketEnd_le_grid start step a k hs ha).mpr (by omega)

/-! ## group keys -/

theorem keyLt_trans {a b c : Key} (h1 : keyLt a b) (h2 : keyLt b c) : keyLt a c := by
  unfold keyLt at *; omega

theorem keyLt_trichotomy {a b : Key} (h1 : ¬ keyLt a b) (h2 : a ≠ b) : keyLt b a := by
  unfold keyLt at *
  have : a.1 ≠ b.1 ∨ a.2 ≠ b.2 := by
    by_cases h : a.1 = b.1
    · right; intro h'; exact h2 (Prod.ext h h')
    · left; exact h
  omega

theorem keyLt_irrefl (a : Key) : ¬ keyLt a a := by unfold keyLt; omega

theorem mem_insertKey (k a : Key) (l : List Key) : a ∈ insertKey k l ↔ a = k ∨ a ∈ l := by
  induction l with
  | nil => simp [insertKey]
  | cons x xs ih =>
    simp only [insertKey]
    split
    · simp
    · split
      · rename_i _ h; subst h; simp
      · simp only [List.mem_cons, ih]
        constructor
        · rintro (h | h | h) <;> simp [h]
        · rintro (h | h | h) <;> simp [h]

theorem insertKey_pairwise (k : Key) (l : List Key) (h : l.Pairwise keyLt) : (insertKey k l).Pairwise keyLt := by
  induction l with
  | nil => simp [insertKey]
  | cons x xs ih =>
    have hx := List.pairwise_cons.mp h
    simp only [insertKey]
    split
    · rename_i hk
      refine List.Pairwise.cons ?_ h
      intro a ha
      rcases List.mem_cons.mp ha with rfl | ha
      · exact hk
      · exact keyLt_trans hk (hx.1 a ha)
    · split
      · exact h
      · rename_i hk hne
        refine List.Pairwise.cons ?_ (ih hx.2)
        intro a ha
        rcases (mem_insertKey k a xs).mp ha with rfl | ha
        · exact keyLt_trichotomy hk hne
        · exact hx.1 a ha

theorem mem_keys (start step : Int) (rows : List Row) (k : Key) :
    k ∈ keys start step rows ↔ ∃ r ∈ rows, keyOf start step r = k := by
  induction rows with
  | nil => simp [keys]
  | cons r rs ih =>
    have : keys start step (r :: rs) = insertKey (keyOf start step r) (keys start step rs) := rfl
    rw [this, mem_insertKey, ih]
    constructor
    · rintro (h | ⟨x, hx, e⟩)
      · exact ⟨r, List.mem_cons_self, h.symm⟩
      · exact ⟨x, List.mem_cons_of_mem _ hx, e⟩
    · rintro ⟨x, hx, e⟩
      rcases List.mem_cons.mp hx with rfl | hx
      · exact Or.inl e.symm
      · exact Or.inr ⟨x, hx, e⟩

theorem keys_pairwise (start step : Int) (rows : List Row) : (keys start step rows).Pairwise keyLt := by
  induction rows with
  | nil => simp [keys]
  | cons r rs ih => exact insertKey_pairwise _ _ ih

/-! ## `argMax` -/

theorem foldl_max_spec (rs : List Row) (best : Row) :
    let res := rs.foldl (fun best x => if best.ts < x.ts then x else best) best
    res ∈ best :: rs ∧ ∀ x ∈ best :: rs, x.ts ≤ res.ts := by
  induction rs generalizing best with
  | nil => simp
  | cons y ys ih =>
    simp only [List.foldl_cons]
    by_cases h : best.ts < y.ts
    · simp only [h, if_true]
      obtain ⟨h1, h2⟩ := ih y
      refine ⟨List.mem_cons_of_mem _ h1, ?_⟩
      intro x hx
      rcases List.mem_cons.mp hx with rfl | hx
      · have := h2 y List.mem_cons_self; omega
      · exact h2 x hx
    · simp only [h, if_false]
      obtain ⟨h1, h2⟩ := ih best
      refine ⟨?_, ?_⟩
      · rcases List.mem_cons.mp h1 with e | h1
        · rw [e]; exact List.mem_cons_self
        · exact List.mem_cons_of_mem _ (List.mem_cons_of_mem _ h1)
      · intro x hx
        rcases List.mem_cons.mp hx with rfl | hx
        · exact h2 _ List.mem_cons_self
        · rcases List.mem_cons.mp hx with rfl | hx
          · have := h2 best List.mem_cons_self; omega
          · exact h2 x (List.mem_cons_of_mem _ hx)

theorem argMax_spec (l : List Row) (hne : l ≠ []) :
    ∃ r, argMax l = some r ∧ r ∈ l ∧ ∀ x ∈ l, x.ts ≤ r.ts := by
  cases l with
  | nil => exact absurd rfl hne
  | cons a as =>
    obtain ⟨h1, h2⟩ := foldl_max_spec as a
    exact ⟨_, rfl, h1, h2⟩

theorem argMax_some {l : List Row} {r : Row} (h : argMax l = some r) : r ∈ l ∧ ∀ x ∈ l, x.ts ≤ r.ts := by
  cases l with
  | nil => simp [argMax] at h
  | cons a as =>
    obtain ⟨r', e, h1, h2⟩ := argMax_spec (a :: as) (by simp)
    rw [h] at e
    cases e
    exact ⟨h1, h2⟩

/-! ## the per-step aggregation -/

theorem mem_group (start step : Int) (rows : List Row) (k : Key) (r : Row) :
    r ∈ group start step rows k ↔ r ∈ rows ∧ keyOf start step r = k := by
  simp [group]

/-- **soundness**: every row of the aggregation carries the fingerprint and the value of a row of the raw scan
    whose bucket end is the row's time and whose timestamp is the greatest of its (fingerprint, bucket) -/
theorem bucket_sound (start step : Int) (rows : List Row) (o : Row) (ho : o ∈ bucket start step rows) :
    ∃ r ∈ rows, r.fp = o.fp ∧ bucketEnd start step r.ts = o.ts ∧ r.val = o.val ∧
      ∀ x ∈ rows, x.fp = o.fp → bucketEnd start step x.ts = o.ts → x.ts ≤ r.ts := by
  simp only [bucket, List.mem_filterMap, Option.map_eq_some_iff] at ho
  obtain ⟨k, _, r, hr, rfl⟩ := ho
  obtain ⟨hmem, hmax⟩ := argMax_some hr
  obtain ⟨hrows, hk⟩ := (mem_group start step rows k r).mp hmem
  have e1 : r.fp = k.1 := by rw [← hk]; rfl
  have e2 : bucketEnd start step r.ts = k.2 := by rw [← hk]; rfl
  refine ⟨r, hrows, e1, e2, rfl, ?_⟩
  intro x hx hfp hb
  apply hmax x
  apply (mem_group start step rows k x).mpr
  refine ⟨hx, ?_⟩
  show (x.fp, bucketEnd start step x.ts) = k
  exact Prod.ext hfp hb

/-- **completeness**: every (fingerprint, bucket) that holds a row of the raw scan yields a row -/
theorem bucket_complete (start step : Int) (rows : List Row) (r : Row) (hr : r ∈ rows) :
    ∃ o ∈ bucket start step rows, o.fp = r.fp ∧ o.ts = bucketEnd start step r.ts := by
  have hk : keyOf start step r ∈ keys start step rows := (mem_keys _ _ _ _).mpr ⟨r, hr, rfl⟩
  have hne : group start step rows (keyOf start step r) ≠ [] := by
    intro h
    have : r ∈ group start step rows (keyOf start step r) := (mem_group _ _ _ _ _).mpr ⟨hr, rfl⟩
    rw [h] at this; cases this
  obtain ⟨m, hm, _, _⟩ := argMax_spec _ hne
  refine ⟨⟨r.fp, m.val, bucketEnd start step r.ts⟩, ?_, rfl, rfl⟩
  simp only [bucket, List.mem_filterMap, Option.map_eq_some_iff]
  exact ⟨keyOf start step r, hk, m, hm, rfl⟩

/-- strict order of the output: ascending fingerprints, inside a fingerprint strictly ascending times —
    one row per (fingerprint, bucket) -/
def RowLt (a b : Row) : Prop := a.fp < b.fp ∨ (a.fp = b.fp ∧ a.ts < b.ts)

theorem bucket_pairwise (start step : Int) (rows : List Row) : (bucket start step rows).Pairwise RowLt := by
  unfold bucket
  refine List.Pairwise.filterMap (R := keyLt) (S := RowLt) _ ?_ (keys_pairwise start step rows)
  intro a a' hlt b hb b' hb'
  simp only [Option.map_eq_some_iff] at hb hb'
  obtain ⟨_, _, rfl⟩ := hb
  obtain ⟨_, _, rfl⟩ := hb'
  exact hlt

theorem RowLt.le {a b : Row} (h : RowLt a b) : RowLe a b := by
  unfold RowLt at h; unfold RowLe; omega

/-! ## the per-step aggregation that keeps the sample's own time (`bucketLast`) -/

/-- **soundness**: every row of the aggregation is a row of the raw scan, the one with the greatest timestamp of its
    (fingerprint, bucket) -/
theorem bucketLast_sound (start step : Int) (rows : List Row) (o : Row) (ho : o ∈ bucketLast start step rows) :
    o ∈ rows ∧ ∀ x ∈ rows, x.fp = o.fp → bucketEnd start step x.ts = bucketEnd start step o.ts → x.ts ≤ o.ts := by
  simp only [bucketLast, List.mem_filterMap] at ho
  obtain ⟨k, _, hr⟩ := ho
  obtain ⟨hmem, hmax⟩ := argMax_some hr
  obtain ⟨hrows, hk⟩ := (mem_group start step rows k o).mp hmem
  refine ⟨hrows, ?_⟩
  intro x hx hfp hb
  apply hmax x
  apply (mem_group start step rows k x).mpr
  refine ⟨hx, ?_⟩
  rw [← hk]
  show (x.fp, bucketEnd start step x.ts) = (o.fp, bucketEnd start step o.ts)
  rw [hfp, hb]

/-- **completeness**: every (fingerprint, bucket) that holds a row of the raw scan yields its last row -/
theorem bucketLast_complete (start step : Int) (rows : List Row) (r : Row) (hr : r ∈ rows) :
    ∃ o ∈ bucketLast start step rows, o.fp = r.fp ∧ bucketEnd start step o.ts = bucketEnd start step r.ts ∧ r.ts ≤ o.ts := by
  have hk : keyOf start step r ∈ keys start step rows := (mem_keys _ _ _ _).mpr ⟨r, hr, rfl⟩
  have hne : group start step rows (keyOf start step r) ≠ [] := by
    intro h
    have : r ∈ group start step rows (keyOf start step r) := (mem_group _ _ _ _ _).mpr ⟨hr, rfl⟩
    rw [h] at this; cases this
  obtain ⟨m, hm, hmem, hmax⟩ := argMax_spec _ hne
  obtain ⟨_, hmk⟩ := (mem_group start step rows _ m).mp hmem
  have e1 : m.fp = r.fp := congrArg Prod.fst hmk
  have e2 : bucketEnd start step m.ts = bucketEnd start step r.ts := congrArg Prod.snd hmk
  refine ⟨m, ?_, e1, e2, hmax r ((mem_group _ _ _ _ _).mpr ⟨hr, rfl⟩)⟩
  simp only [bucketLast, List.mem_filterMap]
  exact ⟨keyOf start step r, hk, hm⟩

/-- the rows come ordered by fingerprint and strictly ascending in their own time: buckets are disjoint intervals -/
theorem bucketLast_pairwise (start step : Int) (hs : 0 < step) (rows : List Row) (hin : ∀ r ∈ rows, start ≤ r.ts) :
    (bucketLast start step rows).Pairwise RowLt := by
  unfold bucketLast
  refine List.Pairwise.filterMap (R := keyLt) (S := RowLt) _ ?_ (keys_pairwise start step rows)
  intro a a' hlt b hb b' hb'
  obtain ⟨hbm, _⟩ := argMax_some hb
  obtain ⟨hb'm, _⟩ := argMax_some hb'
  obtain ⟨hbr, hbk⟩ := (mem_group start step rows a b).mp hbm
  obtain ⟨hb'r, hb'k⟩ := (mem_group start step rows a' b').mp hb'm
  have e1 : b.fp = a.1 := congrArg Prod.fst hbk
  have e2 : bucketEnd start step b.ts = a.2 := congrArg Prod.snd hbk
  have e1' : b'.fp = a'.1 := congrArg Prod.fst hb'k
  have e2' : bucketEnd start step b'.ts = a'.2 := congrArg Prod.snd hb'k
  unfold keyLt at hlt
  unfold RowLt
  rcases hlt with h | ⟨h1, h2⟩
  · left; omega
  · right
    refine ⟨by omega, ?_⟩
    rcases Int.lt_or_le b.ts b'.ts with hc | hc
    · exact hc
    · have := bucketEnd_mono start step b'.ts b.ts hs (hin b' hb'r) hc
      omega


/-! ## lookback selection over the bucketed samples of one series -/

/-- the samples the row loop puts into the series of fingerprint `f` (see `series_assembly`) -/
def samplesOf (f : Nat) (rows : List Row) : List Sample := (rows.filter (fun r => r.fp == f)).map sampleOf

theorem mem_samplesOf (f : Nat) (rows : List Row) (s : Sample) :
    s ∈ samplesOf f rows ↔ ∃ r ∈ rows, r.fp = f ∧ r.ts = s.ts ∧ r.val = s.v := by
  simp only [samplesOf, List.mem_map, List.mem_filter, beq_iff_eq, sampleOf]
  constructor
  · rintro ⟨r, ⟨h1, h2⟩, rfl⟩; exact ⟨r, h1, h2, rfl, rfl⟩
  · rintro ⟨r, h1, h2, h3, h4⟩
    refine ⟨r, ⟨h1, h2⟩, ?_⟩
    cases s; simp_all

/-- `s` is what the engine's instant-vector selection picks from `l` for the window `[lo, hi]`: the latest
    sample inside it (promql `vectorSelectorSingle` of the pinned Prometheus: the sample at or before
    `hi = refTime`, dropped when older than `lo = refTime − lookbackDelta`) -/
def IsLatest (l : List Sample) (lo hi : Int) (s : Sample) : Prop :=
  s ∈ l ∧ lo ≤ s.ts ∧ s.ts ≤ hi ∧ ∀ x ∈ l, lo ≤ x.ts → x.ts ≤ hi → x.ts ≤ s.ts

/-- one value per timestamp inside the series `f` (Prometheus stores one sample per millisecond) -/
def OneValuePerTs (f : Nat) (rows : List Row) : Prop :=
  ∀ r ∈ rows, ∀ r' ∈ rows, r.fp = f → r'.fp = f → r.ts = r'.ts → r.val = r'.val

section Lookback
variable (start step : Int) (hs : 0 < step) (rows : List Row) (hin : ∀ r ∈ rows, start ≤ r.ts) (f : Nat)
include hs hin

/-- bucketed → raw: with the window ends on the bucket grid (`lo = start + j·step`, `t = start + m·step`),
    the sample the engine picks from the bucketed series is the re-timed latest raw sample of the *wider*
    window `(lo − step, t]` -/
theorem latest_bucket_raw (j m : Int) (o : Sample)
    (h : IsLatest (samplesOf f (bucket start step rows)) (start + j * step) (start + m * step) o) :
    ∃ r, IsLatest (samplesOf f rows) (start + j * step - step + 1) (start + m * step) r ∧ o.v = r.v ∧
      o.ts = bucketEnd start step r.ts := by
  obtain ⟨hmem, hlo, hhi, hmax⟩ := h
  obtain ⟨ob, hob, hobf, hobt, hobv⟩ := (mem_samplesOf _ _ _).mp hmem
  obtain ⟨r, hr, hrf, hrb, hrv, hrmax⟩ := bucket_sound start step rows ob hob
  have hrs := hin r hr
  refine ⟨sampleOf r, ⟨?_, ?_, ?_, ?_⟩, ?_, ?_⟩
  · exact (mem_samplesOf _ _ _).mpr ⟨r, hr, by omega, rfl, rfl⟩
  · have := (grid_le_bucketEnd start step r.ts j hs hrs).mp (by omega)
    simp only [sampleOf]; omega
  · have := (bucketEnd_le_grid start step r.ts m hs hrs).mp (by omega)
    simpa [sampleOf] using this
  · intro x hx hxlo hxhi
    obtain ⟨rx, hrx, hrxf, hrxt, _⟩ := (mem_samplesOf _ _ _).mp hx
    have hrxs := hin rx hrx
    -- the bucket of x lies in the window, so it is not after the picked one
    have b1 : start + j * step ≤ bucketEnd start step rx.ts :=
      (grid_le_bucketEnd start step rx.ts j hs hrxs).mpr (by omega)
    have b2 : bucketEnd start step rx.ts ≤ start + m * step :=
      (bucketEnd_le_grid start step rx.ts m hs hrxs).mpr (by omega)
    obtain ⟨ox, hox, hoxf, hoxt⟩ := bucket_complete start step rows rx hrx
    have hle : bucketEnd start step rx.ts ≤ o.ts := by
      have := hmax (sampleOf ox) ((mem_samplesOf _ _ _).mpr ⟨ox, hox, by omega, rfl, rfl⟩)
        (by simp only [sampleOf]; omega) (by simp only [sampleOf]; omega)
      simp only [sampleOf] at this; omega
    simp only [sampleOf]
    rcases Int.lt_or_le (bucketEnd start step rx.ts) o.ts with hlt | hge
    · -- an earlier bucket: the sample itself is earlier
      rcases Int.lt_or_le r.ts rx.ts with hc | hc
      · have := bucketEnd_mono start step r.ts rx.ts hs hrs (by omega); omega
      · omega
    · have := hrmax rx hrx (by omega) (by omega); omega
  · simp only [sampleOf]; omega
  · simp only [sampleOf]; omega

/-- raw → bucketed: the latest raw sample of the wider window `(lo − step, t]` is what the engine picks (re-timed,
    same value) from the bucketed series for `[lo, t]` -/
theorem latest_raw_bucket (hone : OneValuePerTs f rows) (j m : Int) (r : Sample)
    (h : IsLatest (samplesOf f rows) (start + j * step - step + 1) (start + m * step) r) :
    ∃ o, IsLatest (samplesOf f (bucket start step rows)) (start + j * step) (start + m * step) o ∧ o.v = r.v ∧
      o.ts = bucketEnd start step r.ts := by
  obtain ⟨hmem, hlo, hhi, hmax⟩ := h
  obtain ⟨rr, hrr, hrrf, hrrt, hrrv⟩ := (mem_samplesOf _ _ _).mp hmem
  have hrrs := hin rr hrr
  obtain ⟨ob, hob, hobf, hobt⟩ := bucket_complete start step rows rr hrr
  obtain ⟨r', hr', hr'f, hr'b, hr'v, hr'max⟩ := bucket_sound start step rows ob hob
  have hr's := hin r' hr'
  have b1 : start + j * step ≤ bucketEnd start step rr.ts :=
    (grid_le_bucketEnd start step rr.ts j hs hrrs).mpr (by omega)
  have b2 : bucketEnd start step rr.ts ≤ start + m * step :=
    (bucketEnd_le_grid start step rr.ts m hs hrrs).mpr (by omega)
  -- r' is the last of the bucket of rr; it lies in the wide window, so it is rr's timestamp
  have hge : rr.ts ≤ r'.ts := hr'max rr hrr (by omega) (by omega)
  have hr'hi : r'.ts ≤ start + m * step :=
    (bucketEnd_le_grid start step r'.ts m hs hr's).mp (by omega)
  have hle : r'.ts ≤ r.ts := by
    have := hmax (sampleOf r') ((mem_samplesOf _ _ _).mpr ⟨r', hr', by omega, rfl, rfl⟩)
      (by simp only [sampleOf]; omega) (by simpa [sampleOf] using hr'hi)
    simpa [sampleOf] using this
  have hval : r'.val = rr.val := hone r' hr' rr hrr (by omega) hrrf (by omega)
  refine ⟨sampleOf ob, ⟨?_, ?_, ?_, ?_⟩, ?_, ?_⟩
  · exact (mem_samplesOf _ _ _).mpr ⟨ob, hob, by omega, rfl, rfl⟩
  · simp only [sampleOf]; omega
  · simp only [sampleOf]; omega
  · intro x hx hxlo hxhi
    obtain ⟨ox, hox, hoxf, hoxt, _⟩ := (mem_samplesOf _ _ _).mp hx
    obtain ⟨rx, hrx, hrxf, hrxb, _, _⟩ := bucket_sound start step rows ox hox
    have hrxs := hin rx hrx
    have w1 := (grid_le_bucketEnd start step rx.ts j hs hrxs).mp (by omega)
    have w2 := (bucketEnd_le_grid start step rx.ts m hs hrxs).mp (by omega)
    have := hmax (sampleOf rx) ((mem_samplesOf _ _ _).mpr ⟨rx, hrx, by omega, rfl, rfl⟩)
      (by simp only [sampleOf]; omega) (by simpa [sampleOf] using w2)
    simp only [sampleOf] at this
    have hm := bucketEnd_mono start step rx.ts rr.ts hs hrxs (by omega)
    simp only [sampleOf]; omega
  · simp only [sampleOf]; omega
  · simp only [sampleOf]; rw [hobt, hrrt]

end Lookback

section LookbackLast
variable (start step : Int) (hs : 0 < step) (rows : List Row) (hin : ∀ r ∈ rows, start ≤ r.ts) (f : Nat)
include hs hin

/-- **the lookback selection is unchanged**: with the evaluation time on the bucket grid (`t = start + m·step`) the
    engine picks, for ANY lower window edge `lo`, the same sample from the series that keeps only the last sample of
    every bucket as from the raw series -/
theorem latest_bucketLast_iff (hone : OneValuePerTs f rows) (lo m : Int) (s : Sample) :
    IsLatest (samplesOf f (bucketLast start step rows)) lo (start + m * step) s ↔
      IsLatest (samplesOf f rows) lo (start + m * step) s := by
  -- the kept rows are raw rows
  have hsub : ∀ x, x ∈ samplesOf f (bucketLast start step rows) → x ∈ samplesOf f rows := by
    intro x hx
    obtain ⟨o, ho, h1, h2, h3⟩ := (mem_samplesOf _ _ _).mp hx
    exact (mem_samplesOf _ _ _).mpr ⟨o, (bucketLast_sound start step rows o ho).1, h1, h2, h3⟩
  -- a raw sample that is the latest of the window is kept
  have hkept : ∀ r, IsLatest (samplesOf f rows) lo (start + m * step) r → r ∈ samplesOf f (bucketLast start step rows) := by
    intro r ⟨hmem, hlo, hhi, hmax⟩
    obtain ⟨rr, hrr, hrrf, hrrt, hrrv⟩ := (mem_samplesOf _ _ _).mp hmem
    obtain ⟨o, ho, hof, hob, hge⟩ := bucketLast_complete start step rows rr hrr
    have hor := (bucketLast_sound start step rows o ho).1
    -- o lies in the bucket of rr, which ends at or before the evaluation time
    have hoh : o.ts ≤ start + m * step := by
      have b2 : bucketEnd start step rr.ts ≤ start + m * step :=
        (bucketEnd_le_grid start step rr.ts m hs (hin rr hrr)).mpr (by omega)
      exact (bucketEnd_le_grid start step o.ts m hs (hin o hor)).mp (by omega)
    have hle : o.ts ≤ r.ts := by
      have := hmax (sampleOf o) ((mem_samplesOf _ _ _).mpr ⟨o, hor, by omega, rfl, rfl⟩)
        (by simp only [sampleOf]; omega) (by simpa [sampleOf] using hoh)
      simpa [sampleOf] using this
    have hts : o.ts = rr.ts := by omega
    have hval : o.val = rr.val := hone o hor rr hrr (by omega) hrrf hts
    exact (mem_samplesOf _ _ _).mpr ⟨o, ho, by omega, by omega, by omega⟩
  constructor
  · rintro ⟨hmem, hlo, hhi, hmax⟩
    refine ⟨hsub s hmem, hlo, hhi, ?_⟩
    intro x hx hxlo hxhi
    -- the latest raw sample of the window among those ≥ x is kept, hence ≤ s
    obtain ⟨rx, hrx, hrxf, hrxt, _⟩ := (mem_samplesOf _ _ _).mp hx
    obtain ⟨o, ho, hof, hob, hge⟩ := bucketLast_complete start step rows rx hrx
    have hor := (bucketLast_sound start step rows o ho).1
    have hoh : o.ts ≤ start + m * step := by
      have b2 : bucketEnd start step rx.ts ≤ start + m * step :=
        (bucketEnd_le_grid start step rx.ts m hs (hin rx hrx)).mpr (by omega)
      exact (bucketEnd_le_grid start step o.ts m hs (hin o hor)).mp (by omega)
    have := hmax (sampleOf o) ((mem_samplesOf _ _ _).mpr ⟨o, ho, by omega, rfl, rfl⟩)
      (by simp only [sampleOf]; omega) (by simpa [sampleOf] using hoh)
    simp only [sampleOf] at this
    omega
  · intro h
    obtain ⟨hmem, hlo, hhi, hmax⟩ := h
    refine ⟨hkept s ⟨hmem, hlo, hhi, hmax⟩, hlo, hhi, ?_⟩
    intro x hx hxlo hxhi
    exact hmax x (hsub x hx) hxlo hxhi

end LookbackLast

/-! ## the range filter -/

/-- `(ts − start) % step ≤ range` ⇔ `ts` lies in one of the windows `[start + i·step, start + i·step + range]` -/
theorem keep_iff (start step range ts : Int) (hs : 0 < step) (_hr : 0 ≤ range) (hrs : range < step)
    (ht : start ≤ ts) :
    keep start step range ts = true ↔ ∃ i : Int, 0 ≤ i ∧ start + i * step ≤ ts ∧ ts ≤ start + i * step + range := by
  simp only [keep, decide_eq_true_eq]
  have h1 := Int.mul_ediv_add_emod (ts - start) step
  have h2 := Int.emod_nonneg (ts - start) (Int.ne_of_gt hs)
  have h3 := Int.emod_lt_of_pos (ts - start) hs
  have hc : step * ((ts - start) / step) = (ts - start) / step * step := Int.mul_comm _ _
  constructor
  · intro h
    exact ⟨(ts - start) / step, Int.ediv_nonneg (by omega) (Int.le_of_lt hs), by omega, by omega⟩
  · rintro ⟨i, _, hlo, hhi⟩
    have e : (ts - start) % step = ts - start - i * step := by
      have : ts - start = (ts - start - i * step) + i * step := by omega
      rw [this, Int.add_mul_emod_self_right]
      have e2 : ts - start - i * step + i * step - i * step = ts - start - i * step := by omega
      rw [Int.emod_eq_of_lt (by omega) (by omega)]
      omega
    omega

instance (l : List Sample) (lo hi : Int) (s : Sample) : Decidable (IsLatest l lo hi s) := by
  unfold IsLatest; infer_instance

theorem IsLatest.widen {l : List Sample} {lo lo' hi : Int} {s : Sample} (h : IsLatest l lo hi s) (hle : lo' ≤ lo) :
    IsLatest l lo' hi s := by
  obtain ⟨h1, h2, h3, h4⟩ := h
  refine ⟨h1, by omega, h3, ?_⟩
  intro x hx hxlo hxhi
  rcases Int.lt_or_le x.ts lo with hlt | hge
  · omega
  · exact h4 x hx hge hxhi

theorem samplesOf_strict (f : Nat) (rows : List Row) (h : rows.Pairwise RowLt) :
    (samplesOf f rows).Pairwise (fun a b => a.ts < b.ts) := by
  unfold samplesOf
  rw [List.pairwise_map]
  have := List.Pairwise.filter (fun r => r.fp == f) h
  refine List.Pairwise.imp_of_mem ?_ this
  intro a b ha hb hab
  have ea : a.fp = f := by simpa using (List.mem_filter.mp ha).2
  have eb : b.fp = f := by simpa using (List.mem_filter.mp hb).2
  unfold RowLt at hab
  simp only [sampleOf]
  omega

/-- the rows `run` returns are ordered by (fingerprint, time) when the raw scan's are (rows inside `[Start, …]`, as the
    scan delivers them) -/
theorem run_sorted (h : Hints) (rows : List Row) (hs : SortedRows rows) (hin : ∀ r ∈ rows, h.start ≤ r.ts)
    (hstep : 0 ≤ h.step) : SortedRows (run h rows) := by
  unfold run
  by_cases h0 : h.step = 0
  · rw [if_pos h0]; exact hs
  · rw [if_neg h0]
    dsimp only
    have h1 : SortedRows (if bucketed h then bucketNow h rows else rows) := by
      split
      · unfold bucketNow
        split
        · exact List.Pairwise.imp RowLt.le (bucketLast_pairwise _ _ (by omega) rows hin)
        · exact List.Pairwise.imp RowLt.le (bucket_pairwise _ _ _)
      · exact hs
    by_cases hf : filtered h = true
    · rw [if_pos hf]; exact List.Pairwise.filter _ h1
    · rw [if_neg hf]; exact h1

/-! ## the key of a label set in `ReshuffleSeries` -/

/-- after `fix: ReshuffleSeries tells label sets apart …`: `enc name = enc value` + blank per label, `enc` = Go's
    `strconv.Quote` -/
def labelsKey (enc : Bytes → Bytes) (ls : List (Bytes × Bytes)) : Bytes :=
  ls.flatMap (fun kv => enc kv.1 ++ 61 :: (enc kv.2 ++ [32]))

/-- the pinned tree: `name=value` joined by blanks -/
def labelsKeyW (ls : List (Bytes × Bytes)) : Bytes :=
  joinWith [32] (ls.map (fun kv => kv.1 ++ 61 :: kv.2))

/-- a self-delimiting encoding: where an encoded string ends can be read off the text -/
def SelfDelimiting (enc : Bytes → Bytes) : Prop := ∀ a b x y, enc a ++ x = enc b ++ y → a = b ∧ x = y

theorem labelsKey_injective (enc : Bytes → Bytes) (h : SelfDelimiting enc) :
    ∀ l₁ l₂, labelsKey enc l₁ = labelsKey enc l₂ → l₁ = l₂ := by
  intro l₁
  induction l₁ with
  | nil =>
    intro l₂ e
    cases l₂ with
    | nil => rfl
    | cons kv t =>
      exfalso
      have : (labelsKey enc (kv :: t)).length = 0 := by rw [← e]; rfl
      simp [labelsKey] at this
  | cons kv t ih =>
    intro l₂ e
    cases l₂ with
    | nil =>
      exfalso
      have : (labelsKey enc (kv :: t)).length = 0 := by rw [e]; rfl
      simp [labelsKey] at this
    | cons kv' t' =>
      have e' : enc kv.1 ++ (61 :: (enc kv.2 ++ 32 :: labelsKey enc t)) =
          enc kv'.1 ++ (61 :: (enc kv'.2 ++ 32 :: labelsKey enc t')) := by
        simpa [labelsKey, List.append_assoc] using e
      obtain ⟨h1, h2⟩ := h _ _ _ _ e'
      have h3 : enc kv.2 ++ 32 :: labelsKey enc t = enc kv'.2 ++ 32 :: labelsKey enc t' := by
        simpa using h2
      obtain ⟨h4, h5⟩ := h _ _ _ _ h3
      have h6 : labelsKey enc t = labelsKey enc t' := by simpa using h5
      rw [ih t' h6]
      congr 1
      exact Prod.ext h1 h4

/-- a self-delimiting encoding exists (unary length prefix): the hypothesis is satisfiable -/
def encUnary (a : Bytes) : Bytes := List.replicate a.length 1 ++ 0 :: a

theorem encUnary_selfDelimiting : SelfDelimiting encUnary := by
  intro a b x y e
  have key : ∀ (n m : Nat) (p q : Bytes), List.replicate n (1 : UInt8) ++ 0 :: p = List.replicate m 1 ++ 0 :: q →
      n = m ∧ p = q := by
    intro n
    induction n with
    | zero =>
      intro m p q e
      cases m with
      | zero => simpa using e
      | succ m => simp [List.replicate_succ] at e
    | succ n ih =>
      intro m p q e
      cases m with
      | zero => simp [List.replicate_succ] at e
      | succ m =>
        simp only [List.replicate_succ, List.cons_append, List.cons.injEq, true_and] at e
        obtain ⟨h1, h2⟩ := ih m p q e
        exact ⟨by omega, h2⟩
  unfold encUnary at e
  simp only [List.append_assoc, List.cons_append] at e
  obtain ⟨hlen, hrest⟩ := key _ _ _ _ e
  have := List.append_inj hrest hlen
  exact this

end Qryn.Prom.Stepped
