import Qryn.Proofs.ProfMerge
/-! `BFS` level layout of C16: the bars of level k+1 are the children of the bars of level k, laid out
    contiguously from their parent's offset; with non-negative weights they nest and do not overlap. -/
namespace Qryn.Prof

/-- children laid out contiguously from `lo` -/
def contig (lo : Int) (cs : List Row) : List (Row × Int × Int) := spans lo (cs.map (fun c => (c, 0)))

/-- the cursor after the bars of a level -/
def spansEnd : Int → List (Row × Int) → Int
  | x, [] => x
  | x, (r, d) :: rest => spansEnd (x + d + r.total) rest

theorem spans_append (x : Int) (a b : List (Row × Int)) :
    spans x (a ++ b) = spans x a ++ spans (spansEnd x a) b := by
  induction a generalizing x with
  | nil => rfl
  | cons h t ih => obtain ⟨r, d⟩ := h; simp [spans, spansEnd, ih]

theorem contig_cons (lo : Int) (c : Row) (cs : List Row) :
    contig lo (c :: cs) = (c, lo, lo + c.total) :: contig (lo + c.total) cs := by
  simp [contig, spans]

theorem sumTotals_cons (c : Row) (cs : List Row) : sumTotals (c :: cs) = c.total + sumTotals cs := by
  simp [sumTotals]

/-- what the inner loop over one parent's children emits -/
theorem emitChildren_spans : ∀ (cs : List Row) (rv : List Nat) (pre : Int) out rv' pre',
    emitChildren rv pre cs = some (out, rv', pre') →
    ∀ x : Int, spans x out = contig (x + pre) cs ∧ spansEnd x out + pre' = x + pre + sumTotals cs := by
  intro cs
  induction cs with
  | nil =>
    intro rv pre out rv' pre' h x
    simp only [emitChildren, Option.some.injEq, Prod.mk.injEq] at h
    obtain ⟨rfl, _, rfl⟩ := h
    simp [spans, contig, spansEnd, sumTotals]
  | cons c cs ih =>
    intro rv pre out rv' pre' h x
    simp only [emitChildren] at h
    split at h
    · exact absurd h (by simp)
    · split at h
      · exact absurd h (by simp)
      · rename_i out0 rv0 pre0 hrec
        simp only [Option.some.injEq, Prod.mk.injEq] at h
        obtain ⟨rfl, _, rfl⟩ := h
        have := ih _ _ _ _ _ hrec (x + pre + c.total)
        simp only [Int.add_zero] at this
        refine ⟨?_, ?_⟩
        · simp only [spans, contig_cons, this.1]
        · simp only [spansEnd, sumTotals_cons]; omega

theorem emitChildren_mem : ∀ (cs : List Row) (rv : List Nat) (pre : Int) out rv' pre',
    emitChildren rv pre cs = some (out, rv', pre') → out.map (·.1) = cs := by
  intro cs
  induction cs with
  | nil =>
    intro rv pre out rv' pre' h
    simp only [emitChildren, Option.some.injEq, Prod.mk.injEq] at h
    simp [← h.1]
  | cons c cs ih =>
    intro rv pre out rv' pre' h
    simp only [emitChildren] at h
    split at h
    · exact absurd h (by simp)
    · split at h
      · exact absurd h (by simp)
      · rename_i out0 rv0 pre0 hrec
        simp only [Option.some.injEq, Prod.mk.injEq] at h
        obtain ⟨rfl, _, _⟩ := h
        simp [ih _ _ _ _ _ hrec]

theorem emitChildren_pre_nonneg : ∀ (cs : List Row) (rv : List Nat) (pre : Int) out rv' pre',
    emitChildren rv pre cs = some (out, rv', pre') → 0 ≤ pre → (∀ b ∈ out, 0 ≤ b.2) ∧ 0 ≤ pre' := by
  intro cs
  induction cs with
  | nil =>
    intro rv pre out rv' pre' h hp
    simp only [emitChildren, Option.some.injEq, Prod.mk.injEq] at h
    obtain ⟨rfl, _, rfl⟩ := h
    simp [hp]
  | cons c cs ih =>
    intro rv pre out rv' pre' h hp
    simp only [emitChildren] at h
    split at h
    · exact absurd h (by simp)
    · split at h
      · exact absurd h (by simp)
      · rename_i out0 rv0 pre0 hrec
        simp only [Option.some.injEq, Prod.mk.injEq] at h
        obtain ⟨rfl, _, rfl⟩ := h
        have := ih _ _ _ _ _ hrec (Int.le_refl 0)
        refine ⟨?_, this.2⟩
        intro b hb
        rcases List.mem_cons.mp hb with rfl | hb
        · exact hp
        · exact this.1 b hb

/-- a bar conserves weight over its children (nothing is asked of a bar without children) -/
def BarConserves (T : List Row) (p : Row) : Prop :=
  children T p.node ≠ [] → p.total = p.self + sumTotals (children T p.node)

/-- the layout relation between a level and the next one -/
def Layout (T : List Row) (L L' : List (Row × Int)) : Prop :=
  spans 0 L' = (spans 0 L).flatMap (fun s => contig s.2.1 (children T s.1.node))

/-- one `BFS` level: the next level's bars are the current bars' children, contiguous from each parent's
    offset, provided every current bar conserves weight over its children -/
theorem bfsLevel_spans (T : List Row) : ∀ (cur : List (Row × Int)) (pre : Int) (rv : List Nat) next rv',
    bfsLevel T cur pre rv = some (next, rv') → (∀ b ∈ cur, BarConserves T b.1) →
    ∀ x y : Int, x + pre = y →
      spans x next = (spans y cur).flatMap (fun s => contig s.2.1 (children T s.1.node)) := by
  intro cur
  induction cur with
  | nil =>
    intro pre rv next rv' h _ x y _
    simp only [bfsLevel, Option.some.injEq, Prod.mk.injEq] at h
    simp [← h.1, spans]
  | cons b rest ih =>
    obtain ⟨p, d⟩ := b
    intro pre rv next rv' h hc x y hxy
    simp only [bfsLevel] at h
    have hp : BarConserves T p := hc (p, d) (by simp)
    have hrest : ∀ b ∈ rest, BarConserves T b.1 := fun b hb => hc b (by simp [hb])
    split at h
    · rename_i hch
      have := ih _ _ _ _ h hrest x (y + d + p.total) (by omega)
      simp [spans, List.flatMap_cons, hch, contig, this]
    · rename_i c cs hch
      split at h
      · exact absurd h (by simp)
      · rename_i out rv1 pre1 hemit
        split at h
        · exact absurd h (by simp)
        · rename_i out2 rv2 hlev
          simp only [Option.some.injEq, Prod.mk.injEq] at h
          obtain ⟨rfl, _⟩ := h
          have he := emitChildren_spans _ _ _ _ _ _ hemit x
          have hcons : p.total = p.self + sumTotals (c :: cs) := by
            have := hp (by rw [hch]; simp)
            rwa [hch] at this
          have := ih _ _ _ _ hlev hrest (spansEnd x out) (y + d + p.total) (by omega)
          rw [spans_append, this, he.1]
          simp only [spans, List.flatMap_cons, hch]
          congr 2
          omega

theorem bfsLevel_mem (T : List Row) : ∀ (cur : List (Row × Int)) (pre : Int) (rv : List Nat) next rv',
    bfsLevel T cur pre rv = some (next, rv') → ∀ b ∈ next, b.1 ∈ T := by
  intro cur
  induction cur with
  | nil =>
    intro pre rv next rv' h
    simp only [bfsLevel, Option.some.injEq, Prod.mk.injEq] at h
    simp [← h.1]
  | cons b rest ih =>
    obtain ⟨p, d⟩ := b
    intro pre rv next rv' h
    simp only [bfsLevel] at h
    split at h
    · exact ih _ _ _ _ h
    · rename_i c cs hch
      split at h
      · exact absurd h (by simp)
      · rename_i out rv1 pre1 hemit
        split at h
        · exact absurd h (by simp)
        · rename_i out2 rv2 hlev
          simp only [Option.some.injEq, Prod.mk.injEq] at h
          obtain ⟨rfl, _⟩ := h
          intro b hb
          rcases List.mem_append.mp hb with hb | hb
          · have hm := emitChildren_mem _ _ _ _ _ _ hemit
            have : b.1 ∈ c :: cs := hm ▸ List.mem_map.mpr ⟨b, hb, rfl⟩
            have : b.1 ∈ children T p.node := hch ▸ this
            exact (List.mem_filter.mp this).1
          · exact ih _ _ _ _ hlev b hb

theorem bfsLevel_pre_nonneg (T : List Row) : ∀ (cur : List (Row × Int)) (pre : Int) (rv : List Nat) next rv',
    bfsLevel T cur pre rv = some (next, rv') → 0 ≤ pre →
    (∀ b ∈ cur, 0 ≤ b.2 ∧ 0 ≤ b.1.total ∧ 0 ≤ b.1.self) → ∀ b ∈ next, 0 ≤ b.2 := by
  intro cur
  induction cur with
  | nil =>
    intro pre rv next rv' h _ _
    simp only [bfsLevel, Option.some.injEq, Prod.mk.injEq] at h
    simp [← h.1]
  | cons b rest ih =>
    obtain ⟨p, d⟩ := b
    intro pre rv next rv' h hpre hcur
    have hp := hcur (p, d) (by simp)
    have hrest : ∀ b ∈ rest, 0 ≤ b.2 ∧ 0 ≤ b.1.total ∧ 0 ≤ b.1.self := fun b hb => hcur b (by simp [hb])
    simp only [bfsLevel] at h
    split at h
    · exact ih _ _ _ _ h (by simp only [] at hp; omega) hrest
    · rename_i c cs hch
      split at h
      · exact absurd h (by simp)
      · rename_i out rv1 pre1 hemit
        split at h
        · exact absurd h (by simp)
        · rename_i out2 rv2 hlev
          simp only [Option.some.injEq, Prod.mk.injEq] at h
          obtain ⟨rfl, _⟩ := h
          have he := emitChildren_pre_nonneg _ _ _ _ _ _ hemit (by simp only [] at hp; omega)
          intro b hb
          rcases List.mem_append.mp hb with hb | hb
          · exact he.1 b hb
          · exact ih _ _ _ _ hlev (by simp only [] at hp; omega) hrest b hb

/-- the outer loop: an invariant `I` of a level that is passed on to the next level relates every pair of
    consecutive levels by `R` -/
theorem bfsLoop_chain (T : List Row) (I : List (Row × Int) → Prop) (R : List (Row × Int) → List (Row × Int) → Prop)
    (hstep : ∀ cur rv next rv', I cur → bfsLevel T cur 0 rv = some (next, rv') → I next ∧ R cur next) :
    ∀ (fuel : Nat) (cur : List (Row × Int)) (rv : List Nat), I cur →
    ∀ (k : Nat) (L L' : List (Row × Int)), (cur :: bfsLoop T fuel cur rv)[k]? = some L →
      (cur :: bfsLoop T fuel cur rv)[k + 1]? = some L' → R L L' := by
  intro fuel
  induction fuel with
  | zero => intro cur rv _ k L L' _ h2; simp [bfsLoop] at h2
  | succ fuel ih =>
    intro cur rv hI k L L' h1 h2
    by_cases hne : cur.isEmpty = true
    · simp [bfsLoop, hne] at h2
    · cases hlev : bfsLevel T cur 0 rv with
      | none => simp [bfsLoop, hne, hlev] at h2
      | some res =>
        obtain ⟨next, rv'⟩ := res
        simp only [bfsLoop, hne, hlev, Bool.false_eq_true, if_false] at h1 h2
        have hs := hstep cur rv next rv' hI hlev
        cases k with
        | zero =>
          simp only [List.getElem?_cons_zero, Option.some.injEq] at h1
          simp only [Nat.zero_add, List.getElem?_cons_succ, List.getElem?_cons_zero, Option.some.injEq] at h2
          subst h1 h2
          exact hs.2
        | succ k =>
          simp only [List.getElem?_cons_succ] at h1 h2
          exact ih next rv' hs.1 k L L' h1 h2

/-- every entry of the tree conserves weight over its children -/
def Conserving (T : List Row) : Prop := ∀ e ∈ T, BarConserves T e

theorem rootBar_conserves (T : List Row) : BarConserves T (rootBar T).1 := by
  intro _
  simp [rootBar, rootTotal]

/-- **layout of consecutive levels** (any sign of the weights) -/
theorem bfs_layout (T : List Row) (hT : Conserving T) (k : Nat) (L L' : List (Row × Int))
    (h1 : (bfs T)[k]? = some L) (h2 : (bfs T)[k + 1]? = some L') : Layout T L L' := by
  apply bfsLoop_chain T (fun cur => ∀ b ∈ cur, BarConserves T b.1) (Layout T) ?_ (T.length + 2) [rootBar T] []
    ?_ k L L' h1 h2
  · intro cur rv next rv' hI hlev
    refine ⟨fun b hb => hT b.1 (bfsLevel_mem T _ _ _ _ _ hlev b hb), ?_⟩
    exact bfsLevel_spans T cur 0 rv next rv' hlev hI 0 0 (by simp)
  · intro b hb
    simp only [List.mem_singleton] at hb
    subst hb
    exact rootBar_conserves T

/-! ### nesting and non-overlap for non-negative weights -/

def NonNeg (T : List Row) : Prop := ∀ e ∈ T, 0 ≤ e.self ∧ 0 ≤ e.total

theorem sumTotals_nonneg {cs : List Row} (h : ∀ c ∈ cs, 0 ≤ c.total) : 0 ≤ sumTotals cs := by
  induction cs with
  | nil => simp [sumTotals]
  | cons c cs ih =>
    have := ih (fun x hx => h x (by simp [hx]))
    have := h c (by simp)
    rw [sumTotals_cons]; omega

theorem contig_bounds : ∀ (cs : List Row) (a : Int), (∀ c ∈ cs, 0 ≤ c.total) →
    ∀ s ∈ contig a cs, s.1 ∈ cs ∧ a ≤ s.2.1 ∧ s.2.2 = s.2.1 + s.1.total ∧ s.2.2 ≤ a + sumTotals cs := by
  intro cs
  induction cs with
  | nil => intro a _ s hs; simp [contig, spans] at hs
  | cons c cs ih =>
    intro a hnn s hs
    rw [contig_cons] at hs
    have hc := hnn c (by simp)
    have hrest : ∀ c ∈ cs, 0 ≤ c.total := fun x hx => hnn x (by simp [hx])
    have hsum := sumTotals_nonneg hrest
    rw [sumTotals_cons]
    rcases List.mem_cons.mp hs with rfl | hs
    · simp only [List.mem_cons, true_or, true_and]; omega
    · have := ih (a + c.total) hrest s hs
      refine ⟨by simp [this.1], by omega, this.2.2.1, by omega⟩

theorem spans_hi : ∀ (l : List (Row × Int)) (x : Int), ∀ s ∈ spans x l, s.2.2 = s.2.1 + s.1.total := by
  intro l
  induction l with
  | nil => intro x s hs; simp [spans] at hs
  | cons b l ih =>
    obtain ⟨r, d⟩ := b
    intro x s hs
    simp only [spans, List.mem_cons] at hs
    rcases hs with rfl | hs
    · rfl
    · exact ih _ s hs

theorem spans_row_mem : ∀ (l : List (Row × Int)) (x : Int), ∀ s ∈ spans x l, ∃ b ∈ l, b.1 = s.1 := by
  intro l
  induction l with
  | nil => intro x s hs; simp [spans] at hs
  | cons b l ih =>
    obtain ⟨r, d⟩ := b
    intro x s hs
    simp only [spans, List.mem_cons] at hs
    rcases hs with rfl | hs
    · exact ⟨(r, d), by simp, rfl⟩
    · obtain ⟨b, hb, e⟩ := ih _ s hs
      exact ⟨b, by simp [hb], e⟩

/-- bars of one level with non-negative prepends and totals are ordered left to right without overlap -/
theorem spans_ordered : ∀ (l : List (Row × Int)) (x : Int), (∀ b ∈ l, 0 ≤ b.2 ∧ 0 ≤ b.1.total) →
    (∀ s ∈ spans x l, x ≤ s.2.1) ∧ (spans x l).Pairwise (fun s t => s.2.2 ≤ t.2.1) := by
  intro l
  induction l with
  | nil => intro x _; simp [spans]
  | cons b l ih =>
    obtain ⟨r, d⟩ := b
    intro x h
    have hb := h (r, d) (by simp)
    have := ih (x + d + r.total) (fun b hb => h b (by simp [hb]))
    simp only [spans]
    constructor
    · intro s hs
      rcases List.mem_cons.mp hs with rfl | hs
      · simp only [] at hb ⊢; omega
      · have := this.1 s hs; simp only [] at hb; omega
    · exact List.pairwise_cons.mpr ⟨fun s hs => this.1 s hs, this.2⟩

/-- **nesting**: consecutive levels of `BFS` over a weight-conserving tree with non-negative weights -/
theorem bfs_nest (T : List Row) (hT : Conserving T) (hnn : NonNeg T) (k : Nat) (L L' : List (Row × Int))
    (h1 : (bfs T)[k]? = some L) (h2 : (bfs T)[k + 1]? = some L') :
    (∀ c ∈ spans 0 L', ∃ p ∈ spans 0 L, c.1.parent = p.1.node ∧ p.2.1 ≤ c.2.1 ∧ c.2.2 ≤ p.2.2)
      ∧ (spans 0 L').Pairwise (fun s t => s.2.2 ≤ t.2.1) := by
  -- invariant of the levels: bars are the root or entries of T, prepends are non-negative
  have hroot : 0 ≤ rootTotal T := sumTotals_nonneg (fun c hc => (hnn c (List.mem_filter.mp hc).1).2)
  have key := bfsLoop_chain T
    (fun cur => ∀ b ∈ cur, BarConserves T b.1 ∧ 0 ≤ b.2 ∧ 0 ≤ b.1.total ∧ 0 ≤ b.1.self)
    (fun L L' => Layout T L L' ∧ (∀ b ∈ L, BarConserves T b.1 ∧ 0 ≤ b.1.self) ∧ (∀ b ∈ L', 0 ≤ b.2 ∧ 0 ≤ b.1.total))
    (by
      intro cur rv next rv' hI hlev
      have hmem := bfsLevel_mem T _ _ _ _ _ hlev
      have hpre := bfsLevel_pre_nonneg T _ _ _ _ _ hlev (Int.le_refl 0) (fun b hb => (hI b hb).2)
      refine ⟨fun b hb => ⟨hT b.1 (hmem b hb), hpre b hb, (hnn b.1 (hmem b hb)).2, (hnn b.1 (hmem b hb)).1⟩, ?_, ?_, ?_⟩
      · exact bfsLevel_spans T cur 0 rv next rv' hlev (fun b hb => (hI b hb).1) 0 0 (by simp)
      · exact fun b hb => ⟨(hI b hb).1, (hI b hb).2.2.2⟩
      · exact fun b hb => ⟨hpre b hb, (hnn b.1 (hmem b hb)).2⟩)
    (T.length + 2) [rootBar T] []
    (by
      intro b hb
      simp only [List.mem_singleton] at hb
      subst hb
      exact ⟨rootBar_conserves T, by simp [rootBar], by simpa [rootBar] using hroot, by simp [rootBar]⟩)
    k L L' h1 h2
  obtain ⟨hlay, hL, hL'⟩ := key
  refine ⟨?_, (spans_ordered L' 0 hL').2⟩
  intro c hc
  rw [hlay] at hc
  obtain ⟨p, hp, hcp⟩ := List.mem_flatMap.mp hc
  refine ⟨p, hp, ?_⟩
  have hch : ∀ x ∈ children T p.1.node, 0 ≤ x.total := fun x hx => (hnn x (List.mem_filter.mp hx).1).2
  have hb := contig_bounds _ _ hch c hcp
  have hpar : c.1.parent = p.1.node := by simpa [children] using (List.mem_filter.mp hb.1).2
  obtain ⟨b, hbL, hbe⟩ := spans_row_mem L 0 p hp
  have hcons := (hL b hbL).1
  have hself := (hL b hbL).2
  rw [hbe] at hcons hself
  have hne : children T p.1.node ≠ [] := fun e => by rw [e] at hb; simp at hb
  have := hcons hne
  have hhi := spans_hi L 0 p hp
  exact ⟨hpar, hb.2.1, by omega⟩

end Qryn.Prof

namespace Qryn.Prof

/-! ### the loop's fuel suffices: every iteration but the last two reviews at least one new node -/

theorem emitChildren_reviewed : ∀ (cs : List Row) (rv : List Nat) (pre : Int) out rv' pre',
    emitChildren rv pre cs = some (out, rv', pre') →
    rv'.length = rv.length + out.length ∧ (rv.Nodup → rv'.Nodup) ∧ (∀ n ∈ rv', n ∈ rv ∨ n ∈ cs.map (·.node)) := by
  intro cs
  induction cs with
  | nil =>
    intro rv pre out rv' pre' h
    simp only [emitChildren, Option.some.injEq, Prod.mk.injEq] at h
    obtain ⟨rfl, rfl, _⟩ := h
    simp
  | cons c cs ih =>
    intro rv pre out rv' pre' h
    simp only [emitChildren] at h
    split at h
    · exact absurd h (by simp)
    · rename_i hnot
      split at h
      · exact absurd h (by simp)
      · rename_i out0 rv0 pre0 hrec
        simp only [Option.some.injEq, Prod.mk.injEq] at h
        obtain ⟨rfl, rfl, _⟩ := h
        have := ih _ _ _ _ _ hrec
        refine ⟨by simp only [List.length_cons] at this ⊢; omega, ?_, ?_⟩
        · intro hnd
          apply this.2.1
          refine List.nodup_cons.mpr ⟨?_, hnd⟩
          simpa using hnot
        · intro n hn
          rcases this.2.2 n hn with h1 | h1
          · rcases List.mem_cons.mp h1 with rfl | h1
            · exact Or.inr (by simp)
            · exact Or.inl h1
          · exact Or.inr (by simp only [List.map_cons, List.mem_cons]; exact Or.inr h1)

theorem bfsLevel_reviewed (T : List Row) : ∀ (cur : List (Row × Int)) (pre : Int) (rv : List Nat) next rv',
    bfsLevel T cur pre rv = some (next, rv') →
    rv'.length = rv.length + next.length ∧ (rv.Nodup → rv'.Nodup) ∧ (∀ n ∈ rv', n ∈ rv ∨ n ∈ T.map (·.node)) := by
  intro cur
  induction cur with
  | nil =>
    intro pre rv next rv' h
    simp only [bfsLevel, Option.some.injEq, Prod.mk.injEq] at h
    obtain ⟨rfl, rfl⟩ := h
    exact ⟨by simp, fun h => h, fun n hn => Or.inl hn⟩
  | cons b rest ih =>
    obtain ⟨p, d⟩ := b
    intro pre rv next rv' h
    simp only [bfsLevel] at h
    split at h
    · exact ih _ _ _ _ h
    · rename_i c cs hch
      split at h
      · exact absurd h (by simp)
      · rename_i out rv1 pre1 hemit
        split at h
        · exact absurd h (by simp)
        · rename_i out2 rv2 hlev
          simp only [Option.some.injEq, Prod.mk.injEq] at h
          obtain ⟨rfl, rfl⟩ := h
          have h1 := emitChildren_reviewed _ _ _ _ _ _ hemit
          have h2 := ih _ _ _ _ hlev
          refine ⟨by simp only [List.length_append]; omega, fun hnd => h2.2.1 (h1.2.1 hnd), ?_⟩
          intro n hn
          rcases h2.2.2 n hn with h3 | h3
          · rcases h1.2.2 n h3 with h4 | h4
            · exact Or.inl h4
            · right
              obtain ⟨x, hx, rfl⟩ := List.mem_map.mp h4
              have : x ∈ children T p.node := hch ▸ hx
              exact List.mem_map.mpr ⟨x, (List.mem_filter.mp this).1, rfl⟩
          · exact Or.inr h3

/-- more fuel than `T.length - rv.length + 2` changes nothing -/
theorem bfsLoop_fuel_stable (T : List Row) : ∀ (fuel : Nat) (cur : List (Row × Int)) (rv : List Nat),
    rv.Nodup → (∀ n ∈ rv, n ∈ T.map (·.node)) → T.length - rv.length + 2 ≤ fuel →
    bfsLoop T (fuel + 1) cur rv = bfsLoop T fuel cur rv := by
  intro fuel
  induction fuel with
  | zero => intro cur rv _ _ h; omega
  | succ f ih =>
    intro cur rv hnd hsub hf
    rw [bfsLoop, bfsLoop]
    by_cases hne : cur.isEmpty = true
    · simp [hne]
    · simp only [hne, Bool.false_eq_true, if_false]
      cases hlev : bfsLevel T cur 0 rv with
      | none => rfl
      | some res =>
        obtain ⟨next, rv'⟩ := res
        simp only []
        congr 1
        have hr := bfsLevel_reviewed T _ _ _ _ _ hlev
        have hnd' := hr.2.1 hnd
        have hsub' : ∀ n ∈ rv', n ∈ T.map (·.node) := fun n hn => (hr.2.2 n hn).elim (hsub n) id
        have hlen : rv'.length ≤ T.length := by
          have := List.Nodup.length_le_of_subset hnd' (fun n hn => hsub' n hn)
          simpa using this
        cases hnext : next with
        | nil =>
          cases f with
          | zero => simp [bfsLoop]
          | succ f' => simp [bfsLoop]
        | cons b bs =>
          have : next.length ≥ 1 := by rw [hnext]; simp
          rw [← hnext]
          exact ih next rv' hnd' hsub' (by omega)

/-- **the fuel `T.length + 2` of `bfs` is enough**: any larger fuel yields the same levels, i.e. the model's loop
    stops for the same reason the Go loop does (an empty level or a node id seen twice), never for lack of fuel -/
theorem bfsLoop_fuel (T : List Row) (extra : Nat) :
    bfsLoop T (T.length + 2 + extra) [rootBar T] [] = bfsLoop T (T.length + 2) [rootBar T] [] := by
  induction extra with
  | zero => rfl
  | succ e ih =>
    rw [← ih]
    exact bfsLoop_fuel_stable T (T.length + 2 + e) _ [] (by simp) (by simp) (by simp)

end Qryn.Prof
