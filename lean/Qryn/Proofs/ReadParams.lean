import Qryn.ReadSide.Params
/-! Lemmas for the read-side arithmetic: with the guard of `FixPeriodPlanner.Process` the detached goroutine
    cannot fault, whatever rows arrive; guarded bucket indexes, limit slicing and the scanner buffer never fault. -/
namespace Qryn.ReadSide

theorem wrap_id {x : Int} (h : -9223372036854775808 ≤ x) (h' : x < 9223372036854775808) : wrap x = x := by
  unfold wrap; omega

theorem wrap_range (x : Int) : -9223372036854775808 ≤ wrap x ∧ wrap x < 9223372036854775808 := by
  unfold wrap; omega

/-! ### FixPeriodPlanner -/

theorem fillRange_length (v : List Int) (lo hi : Nat) (val : Int) (h1 : lo ≤ hi) (h2 : hi ≤ v.length) :
    (fillRange v lo hi val).length = v.length := by
  simp [fillRange, List.length_take, List.length_drop, List.length_replicate]
  omega

/-- facts the guard establishes -/
theorem fixGuard_facts {M : Int} {p : FixParams} (h : fixGuard M p = true) :
    0 < p.step ∧ 0 < p.dur ∧ 0 ≤ wrap (p.to_ - p.from_) ∧ (wrap (p.to_ - p.from_)).tdiv p.step < M := by
  simp [fixGuard] at h
  exact ⟨h.1.1.1.1, h.1.1.1.2, h.1.2, h.2⟩

/-- with the guard, the per-series slice can always be allocated and has at least one slot -/
theorem fixAlloc_ok {M : Int} {p : FixParams} (hM : M ≤ 35184372088832) (h : fixGuard M p = true) :
    ∃ n, fixAlloc p = .ok n ∧ 1 ≤ n := by
  obtain ⟨hs, _, hsp, hlt⟩ := fixGuard_facts h
  have hnn : 0 ≤ (wrap (p.to_ - p.from_)).tdiv p.step := Int.tdiv_nonneg hsp (Int.le_of_lt hs)
  have hw1 : wrap ((wrap (p.to_ - p.from_)).tdiv p.step) = (wrap (p.to_ - p.from_)).tdiv p.step :=
    wrap_id (by omega) (by omega)
  have hw2 : wrap ((wrap (p.to_ - p.from_)).tdiv p.step + 1) = (wrap (p.to_ - p.from_)).tdiv p.step + 1 :=
    wrap_id (by omega) (by omega)
  have hne : p.step ≠ 0 := by omega
  refine ⟨((wrap (p.to_ - p.from_)).tdiv p.step + 1).toNat, ?_, by omega⟩
  simp only [fixAlloc, hne, if_false, hw1, hw2, makeLen]
  have : ¬ ((wrap (p.to_ - p.from_)).tdiv p.step + 1 < 0 ∨ 35184372088832 < (wrap (p.to_ - p.from_)).tdiv p.step + 1) := by omega
  simp [this]

theorem fixIdx_ok {M : Int} {p : FixParams} (h : fixGuard M p = true) (ts : Int) :
    ∃ i j, fixIdx p ts = .ok (i, j) := by
  obtain ⟨hs, hd, _, _⟩ := fixGuard_facts h
  have h1 : p.dur ≠ 0 := by omega
  have h2 : p.step ≠ 0 := by omega
  simp [fixIdx, h1, h2]

/-- the skip test of the fixed code leaves only index pairs for which the slice expression and `fastFill` are
    in bounds — for every pair of int64 indexes, however they were computed -/
theorem fixFill_ok (s : FixSt) (v : List Int) (hv : s.values = some v) (hl : 1 ≤ v.length) (i j val : Int) :
    ∃ v', fixFill FixCode.fixed s i j val = .ok { s with values := some v' } ∧ v'.length = v.length := by
  have hlen : s.len = v.length := by simp [FixSt.len, hv]
  unfold fixFill
  simp only [hlen, FixCode.fixed, true_and]
  by_cases hskip : j < 0 ∨ (v.length : Int) ≤ i ∨ j < i
  · refine ⟨v, ?_, rfl⟩
    simp [hskip, ← hv]
  · simp only [hskip, if_false]
    have h1 : ¬ ((if i < 0 then (0 : Int) else i) < 0 ∨
        (if (v.length : Int) ≤ j then (v.length : Int) - 1 else j) + 1 < (if i < 0 then (0 : Int) else i) ∨
        (v.length : Int) < (if (v.length : Int) ≤ j then (v.length : Int) - 1 else j) + 1) := by
      split <;> split <;> omega
    have h2 : ¬ ((if (v.length : Int) ≤ j then (v.length : Int) - 1 else j) + 1 - (if i < 0 then (0 : Int) else i) = 0) := by
      split <;> split <;> omega
    simp only [h1, h2, if_false, hv]
    refine ⟨_, rfl, ?_⟩
    apply fillRange_length
    · split <;> split <;> omega
    · split <;> omega

/-- what holds of the goroutine's state between rows in the fixed code -/
def FixSt.Good (s : FixSt) : Prop := ∀ v, s.values = some v → 1 ≤ v.length

theorem fixEntry_ok {M : Int} {p : FixParams} (hM : M ≤ 35184372088832) (h : fixGuard M p = true)
    (s : FixSt) (hs : s.Good) (e : Entry) : ∃ s', fixEntry FixCode.fixed p s e = .ok s' ∧ s'.Good := by
  obtain ⟨n, hn, hn1⟩ := fixAlloc_ok hM h
  obtain ⟨i, j, hij⟩ := fixIdx_ok h e.ts
  unfold fixEntry
  simp only [FixCode.fixed, true_and, hn, hij]
  by_cases hc : s.values = none ∨ e.fp ≠ s.fp
  · simp only [hc, if_true]
    obtain ⟨v', hf, hl⟩ := fixFill_ok ⟨some (List.replicate n 0), e.fp, fixExport p s⟩ (List.replicate n 0) rfl
      (by simp; omega) i j e.val
    refine ⟨_, hf, ?_⟩
    intro w hw
    simp at hw
    subst hw
    simp at hl
    omega
  · simp only [hc, if_false]
    have hsome : ∃ v, s.values = some v := by
      cases hv : s.values with
      | none => exact absurd (Or.inl hv) hc
      | some v => exact ⟨v, rfl⟩
    obtain ⟨v, hv⟩ := hsome
    obtain ⟨v', hf, hl⟩ := fixFill_ok s v hv (hs v hv) i j e.val
    refine ⟨_, hf, ?_⟩
    intro w hw
    simp at hw
    subst hw
    have := hs v hv
    omega

theorem fixLoop_ok {M : Int} {p : FixParams} (hM : M ≤ 35184372088832) (h : fixGuard M p = true)
    (es : List Entry) : ∀ s : FixSt, s.Good → ∃ s', fixLoop FixCode.fixed p s es = .ok s' := by
  induction es with
  | nil => intro s _; exact ⟨s, rfl⟩
  | cons e es ih =>
    intro s hs
    obtain ⟨s1, h1, hg1⟩ := fixEntry_ok hM h s hs e
    obtain ⟨s2, h2⟩ := ih s1 hg1
    exact ⟨s2, by simp [fixLoop, h1, h2]⟩

theorem fixGoroutine_ok {M : Int} {p : FixParams} (hM : M ≤ 35184372088832) (h : fixGuard M p = true)
    (es : List Entry) : ∃ out, fixGoroutine FixCode.fixed p es = .ok out := by
  obtain ⟨s', hs'⟩ := fixLoop_ok hM h es FixSt.init (by intro v hv; simp [FixSt.init] at hv)
  simp [fixGoroutine, hs']

/-! ### aggregator bucket index, limit, scanner -/

theorem lraAddValue_ok (fromNs dur ts : Int) (len : Nat) (hd : dur ≠ 0) :
    ∃ r, lraAddValue AggCode.fixed fromNs dur ts len = .ok r := by
  unfold lraAddValue
  simp only [hd, if_false, AggCode.fixed, true_and]
  split
  · exact ⟨_, rfl⟩
  · rename_i hg
    split
    · rename_i h; exfalso; omega
    · split
      · rename_i h; exfalso; omega
      · exact ⟨_, rfl⟩

theorem aggOpAddValue_ok (fromNs dur ts : Int) (len : Nat) (hd : dur ≠ 0) (hlen : (len : Int) < 9223372036854775808) :
    ∃ r, aggOpAddValue AggCode.fixed fromNs dur ts len = .ok r := by
  unfold aggOpAddValue
  simp only [hd, if_false, AggCode.fixed, if_true]
  split
  · exact ⟨_, rfl⟩
  · rename_i hg
    have hidx : 0 ≤ wrap ((wrap (ts - fromNs)).tdiv dur) ∧ wrap ((wrap (ts - fromNs)).tdiv dur) < ((len / 2 : Nat) : Int) := by
      omega
    have h2 : ((len / 2 : Nat) : Int) * 2 ≤ len := by omega
    have hw : wrap (wrap ((wrap (ts - fromNs)).tdiv dur) * 2) = wrap ((wrap (ts - fromNs)).tdiv dur) * 2 :=
      wrap_id (by omega) (by omega)
    have hw1 : wrap (wrap ((wrap (ts - fromNs)).tdiv dur) * 2 + 1) = wrap ((wrap (ts - fromNs)).tdiv dur) * 2 + 1 :=
      wrap_id (by omega) (by omega)
    rw [hw, hw1]
    split
    · rename_i h; exfalso; omega
    · split
      · rename_i h; exfalso; omega
      · exact ⟨_, rfl⟩

/-- the slice expression `entries[:limit-sent]` is in bounds as long as fewer than 2^63 entries went through -/
theorem limitBatch_ok (limit sent : Int) (n : Nat) (hl : -9223372036854775808 ≤ limit ∧ limit < 9223372036854775808)
    (hs : 0 ≤ sent) (hn : sent + n < 9223372036854775808) :
    ∃ sent' k c, limitBatch limit sent n = .ok (sent', k, c) ∧ 0 ≤ sent' ∧ sent' ≤ sent + n := by
  have hw : wrap (sent + n) = sent + n := wrap_id (by omega) (by omega)
  unfold limitBatch
  rw [hw]
  split
  · exact ⟨_, _, _, rfl, hs, by omega⟩
  split
  · exact ⟨_, _, _, rfl, hs, by omega⟩
  · split
    · exact ⟨_, _, _, rfl, by omega, by omega⟩
    · rename_i h0 h1 h2
      have hk : wrap (limit - sent) = limit - sent := wrap_id (by omega) (by omega)
      rw [hk]
      have : ¬ (limit - sent < 0 ∨ (n : Int) < limit - sent) := by omega
      simp only [this, if_false]
      exact ⟨_, _, _, rfl, by omega, by omega⟩

def sumN : List Nat → Int
  | [] => 0
  | n :: ns => (n : Int) + sumN ns

theorem sumN_nonneg (ns : List Nat) : 0 ≤ sumN ns := by
  induction ns with
  | nil => simp [sumN]
  | cons n ns ih => simp [sumN]; omega

theorem limitRun_ok (limit : Int) (hl : -9223372036854775808 ≤ limit ∧ limit < 9223372036854775808) (ns : List Nat) :
    ∀ sent : Int, 0 ≤ sent → sent + sumN ns < 9223372036854775808 → ∃ r, limitRun limit sent ns = .ok r := by
  induction ns with
  | nil => intro _ _ _; exact ⟨_, rfl⟩
  | cons n ns ih =>
    intro sent hs hsum
    have := sumN_nonneg ns
    simp only [sumN] at hsum
    obtain ⟨s', k, c, hb, h0, h1⟩ := limitBatch_ok limit sent n hl hs (by omega)
    obtain ⟨r, hr'⟩ := ih s' h0 (by omega)
    simp [limitRun, hb, hr']

theorem scanLoop_ok (bufLen : Nat) (hb : 0 < bufLen) (evs : List RowEv) :
    ∀ i, i < bufLen → ∃ r, scanLoop bufLen i evs = .ok r := by
  induction evs with
  | nil => intro i hi; simp [scanLoop, hi]
  | cons e es ih =>
    intro i hi
    cases e with
    | ctxDone => simp [scanLoop, Nat.le_of_lt hi]
    | scanErr => simp [scanLoop, hi]
    | row =>
      simp only [scanLoop, hi, if_true]
      split
      · obtain ⟨r, hr⟩ := ih 0 hb
        simp [hr, Except.map]
      · rename_i h
        exact ih (i + 1) (by omega)

theorem matrixStepLoop_terminates (step : Int) (hs : 0 < step) (lim : Int) :
    ∀ (fuel : Nat) (i : Int), (lim - i).toNat < fuel → ∃ r, matrixStepLoop fuel i lim step = some r := by
  intro fuel
  induction fuel with
  | zero => intro i h; omega
  | succ f ih =>
    intro i h
    simp only [matrixStepLoop]
    split
    · rename_i hlt
      obtain ⟨r, hr⟩ := ih (i + step) (by omega)
      simp [hr]
    · exact ⟨_, rfl⟩

theorem matrixStepLoop_diverges (step : Int) (hs : step ≤ 0) (lim : Int) :
    ∀ (fuel : Nat) (i : Int), i < lim → matrixStepLoop fuel i lim step = none := by
  intro fuel
  induction fuel with
  | zero => intro i _; rfl
  | succ f ih =>
    intro i h
    simp only [matrixStepLoop, h, if_true]
    rw [ih (i + step) (by omega)]
    rfl

end Qryn.ReadSide
