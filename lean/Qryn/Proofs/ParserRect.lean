import Qryn.Ingest.ParserRect
import Qryn.Proofs.Wire
/-! Lemmas for `Qryn.Ingest.ParserRect`: the `…Issued` decoders agree with C03's `…Decode` on success, every call any
    of them issues — also before an error — is well formed, and the column-level span / profile builders keep their
    requests rectangular. -/
namespace Qryn.ParserRect
open Qryn Qryn.Ingest Qryn.Ingest.Wire

/-! ### `issueAll` -/

theorem issueAll_forall {α} (P : Call → Prop) (f : α → List Call × Bool) (h : ∀ x, ∀ c ∈ (f x).1, P c) :
    ∀ xs, ∀ c ∈ (issueAll f xs).1, P c := by
  intro xs
  induction xs with
  | nil => intro c hc; simp [issueAll] at hc
  | cons x xs ih =>
    intro c hc
    unfold issueAll at hc
    have hx := h x
    cases hf : f x with
    | mk cs ok =>
      rw [hf] at hx
      cases ok with
      | true =>
        simp only [hf] at hc
        rcases List.mem_append.mp hc with h' | h'
        · exact hx c h'
        · exact ih c h'
      | false =>
        simp only [hf] at hc
        exact hx c hc

theorem ofOpt_forall (P : Call → Prop) (o : Option (List Call)) (h : ∀ cs, o = some cs → ∀ c ∈ cs, P c) :
    ∀ c ∈ (ofOpt o).1, P c := by
  intro c hc
  cases o with
  | none => simp [ofOpt] at hc
  | some cs => exact h cs rfl c hc

/-- a fold that appends the calls of every step to its state, and fails when a step fails, is `issueAll` of the steps -/
theorem foldOpt_issueAll {α} (f : α → List Call × Bool) (g : List Call → α → Option (List Call))
    (hg : ∀ acc x, g acc x = if (f x).2 then some (acc ++ (f x).1) else none) :
    ∀ xs acc, foldOpt g acc xs = if (issueAll f xs).2 then some (acc ++ (issueAll f xs).1) else none := by
  intro xs
  induction xs with
  | nil => intro acc; simp [foldOpt, issueAll]
  | cons x xs ih =>
    intro acc
    unfold foldOpt issueAll
    rw [hg acc x]
    cases hf : f x with
    | mk cs ok =>
      cases ok with
      | true =>
        simp only [if_true]
        rw [ih]
        split <;> simp [List.append_assoc]
      | false => simp

theorem ofOpt_snd (o : Option (List Call)) : (ofOpt o).2 = o.isSome := by cases o <;> rfl
theorem ofOpt_fst (o : Option (List Call)) : (ofOpt o).1 = o.getD [] := by cases o <;> rfl

/-- a step `(item …).map (fun r => acc ++ [call r])` in the shape `foldOpt_issueAll` wants -/
theorem step_ofOpt {ρ} (o : Option ρ) (mk : ρ → Call) (acc : List Call) :
    o.map (fun r => acc ++ [mk r]) =
      if (ofOpt (o.map (fun r => [mk r]))).2 then some (acc ++ (ofOpt (o.map (fun r => [mk r]))).1) else none := by
  cases o <;> simp [ofOpt]

/-! ### agreement with C03's decoders -/

/-- result of an `…Issued` run as the `Option` the decoder returns -/
def asOption (r : List Call × Bool) : Option (List Call) := if r.2 then some r.1 else none

theorem lokiStreams_agrees (scan : Bytes → List Tok) (acc : List Call) (x : Json) :
    jxArr (fun calls s => (jxObj (streamMember scan) {} s).map (fun p => calls ++ [p.call])) acc x =
      if (lokiStreamsIssued scan x).2 then some (acc ++ (lokiStreamsIssued scan x).1) else none := by
  cases x with
  | arr ss =>
    simp only [jxArr_arr, lokiStreamsIssued]
    exact foldOpt_issueAll (lokiStreamStep scan) _
      (fun acc s => step_ofOpt (jxObj (streamMember scan) {} s) PushSt.call acc) ss acc
  | null => rfl
  | bool b => rfl
  | num t f i => rfl
  | str s => rfl
  | obj o => rfl

theorem lokiJsonIssued_agrees (scan : Bytes → List Tok) (j : Json) :
    lokiJsonDecode scan j = asOption (lokiJsonIssued scan j) := by
  cases j with
  | obj ms =>
    simp only [lokiJsonDecode, lokiJsonIssued, asOption, jxObj_obj]
    rw [foldOpt_issueAll (lokiMemberIssued scan)]
    · simp only [List.nil_append]; rfl
    · intro acc kv
      unfold lokiMemberIssued
      by_cases hk : kv.1 = k_streams
      · simp only [hk, if_true]
        exact lokiStreams_agrees scan acc kv.2
      · simp [hk]
  | null => rfl
  | bool b => rfl
  | num t f i => rfl
  | str s => rfl
  | arr a => rfl

theorem ddLogsIssued_agrees (tagsOf : Bytes → Labels) (now : Int) (j : Json) :
    ddLogsDecode tagsOf now j = asOption (ddLogsIssued tagsOf now j) := by
  cases j with
  | arr xs =>
    simp only [ddLogsDecode, ddLogsIssued, asOption, jxArr_arr]
    rw [foldOpt_issueAll (ddLogStep tagsOf now) _
      (fun acc x => step_ofOpt (jxObj (ddMember tagsOf) {} x) (ddEntryCall now) acc)]
    simp only [List.nil_append]; rfl
  | null => rfl
  | bool b => rfl
  | num t f i => rfl
  | str s => rfl
  | obj o => rfl

theorem dsItems_agrees (now : Int) (acc : List Call) (x : Json) :
    jxArr (fun calls it => (jxObj (dsItemMember now) {} it).map (fun st => calls ++ [dsCall st])) acc x =
      if (dsItemsIssued now x).2 then some (acc ++ (dsItemsIssued now x).1) else none := by
  cases x with
  | arr xs =>
    simp only [jxArr_arr, dsItemsIssued]
    exact foldOpt_issueAll (dsItemStep now) _
      (fun acc it => step_ofOpt (jxObj (dsItemMember now) {} it) dsCall acc) xs acc
  | null => rfl
  | bool b => rfl
  | num t f i => rfl
  | str s => rfl
  | obj o => rfl

theorem ddSeriesIssued_agrees (now : Int) (j : Json) : ddSeriesDecode now j = asOption (ddSeriesIssued now j) := by
  cases j with
  | obj ms =>
    simp only [ddSeriesDecode, ddSeriesIssued, asOption, jxObj_obj]
    rw [foldOpt_issueAll (dsMemberIssued now)]
    · simp only [List.nil_append]; rfl
    · intro acc kv
      unfold dsMemberIssued
      by_cases hk : kv.1 = k_series
      · simp only [hk, if_true]
        exact dsItems_agrees now acc kv.2
      · simp [hk]
  | null => rfl
  | bool b => rfl
  | num t f i => rfl
  | str s => rfl
  | arr a => rfl

theorem lokiProtoIssued_agrees (scan : Bytes → List Tok) (d : List PbStream) :
    lokiProtoDecode scan d = asOption (lokiProtoIssued scan d) := by
  simp only [lokiProtoDecode, lokiProtoIssued, asOption]
  rw [foldOpt_issueAll (lokiProtoStep scan)]
  · simp only [List.nil_append]; rfl
  · intro acc s
    exact step_ofOpt (labelPairs (scan s.labels)) (fun ls => lokiProtoCall ls s) acc

theorem mapOpt_issueAll {α} (h : α → Option (List Call)) :
    ∀ xs, (mapOpt h xs).map List.flatten = asOption (issueAll (fun x => ofOpt (h x)) xs) := by
  intro xs
  induction xs with
  | nil => rfl
  | cons x xs ih =>
    cases hx : h x with
    | none => simp [mapOpt, issueAll, hx, ofOpt, asOption]
    | some cs =>
      have e1 : mapOpt h (x :: xs) = (mapOpt h xs).map (fun ys => cs :: ys) := by
        simp only [mapOpt, hx]
        cases mapOpt h xs <;> rfl
      have e2 : issueAll (fun x => ofOpt (h x)) (x :: xs) =
          (cs ++ (issueAll (fun x => ofOpt (h x)) xs).1, (issueAll (fun x => ofOpt (h x)) xs).2) := by
        simp only [issueAll, hx, ofOpt]
      rw [e1, e2]
      cases hm : mapOpt h xs with
      | none =>
        rw [hm] at ih
        simp only [Option.map_none, asOption] at ih ⊢
        split at ih
        · cases ih
        · rename_i hno
          simp only [hno, if_false, Bool.false_eq_true]
      | some ys =>
        rw [hm] at ih
        simp only [Option.map_some, asOption] at ih ⊢
        split at ih
        · rename_i hok
          simp only [Option.some.injEq] at ih
          simp only [hok, if_true, List.flatten_cons, ih]
        · cases ih

theorem influxIssued_agrees (ms : List Metric) : influxDecode ms = asOption (influxIssued ms) :=
  mapOpt_issueAll influxMetricCalls ms

/-! ### every issued call is well formed -/

theorem lokiStreamCall_WF (scan : Bytes → List Tok) (s : Json) (p : PushSt)
    (h : jxObj (streamMember scan) {} s = some p) : p.call.WF := by
  have hs := decodeStream_spec scan s
  rw [h] at hs
  cases hsp : specStream scan s with
  | none => rw [hsp] at hs; cases hs
  | some st =>
    rw [hsp] at hs
    simp only [Option.map_some, Option.some.injEq] at hs
    rw [hs]
    apply Call.ofEntries_WF
    intro e he
    simp only [LokiStream.sub, List.mem_map] at he
    obtain ⟨le, _, rfl⟩ := he
    exact lokiType_le _ _

theorem lokiJsonIssued_WF (scan : Bytes → List Tok) (j : Json) : ∀ c ∈ (lokiJsonIssued scan j).1, c.WF := by
  have hstep : ∀ s, ∀ c ∈ (lokiStreamStep scan s).1, c.WF := by
    intro s
    apply ofOpt_forall
    intro cs hcs c hc
    cases hj : jxObj (streamMember scan) {} s with
    | none => rw [hj] at hcs; cases hcs
    | some p =>
      rw [hj] at hcs
      simp only [Option.map_some, Option.some.injEq] at hcs
      subst hcs
      simp only [List.mem_singleton] at hc
      subst hc
      exact lokiStreamCall_WF scan s p hj
  have hstreams : ∀ x, ∀ c ∈ (lokiStreamsIssued scan x).1, c.WF := by
    intro x
    cases x with
    | arr ss => exact issueAll_forall Call.WF _ hstep ss
    | null => intro c hc; simp [lokiStreamsIssued] at hc
    | bool b => intro c hc; simp [lokiStreamsIssued] at hc
    | num t f i => intro c hc; simp [lokiStreamsIssued] at hc
    | str s => intro c hc; simp [lokiStreamsIssued] at hc
    | obj o => intro c hc; simp [lokiStreamsIssued] at hc
  cases j with
  | obj ms =>
    simp only [lokiJsonIssued]
    apply issueAll_forall
    intro kv c hc
    unfold lokiMemberIssued at hc
    by_cases hk : kv.1 = k_streams
    · simp only [hk, if_true] at hc
      exact hstreams _ c hc
    · simp [hk] at hc
  | null => intro c hc; simp [lokiJsonIssued] at hc
  | bool b => intro c hc; simp [lokiJsonIssued] at hc
  | num t f i => intro c hc; simp [lokiJsonIssued] at hc
  | str s => intro c hc; simp [lokiJsonIssued] at hc
  | arr a => intro c hc; simp [lokiJsonIssued] at hc

theorem single_WF (l : Labels) (ts : Int) (m : Bytes) (v : UInt64) (t : Nat) (ht : t ≤ 2) :
    (⟨l, [ts], [m], [v], [t]⟩ : Call).WF := by
  refine ⟨rfl, rfl, rfl, ?_⟩
  intro x hx
  simp only [List.mem_singleton] at hx
  subst hx
  exact ht

theorem ddLogsIssued_WF (tagsOf : Bytes → Labels) (now : Int) (j : Json) :
    ∀ c ∈ (ddLogsIssued tagsOf now j).1, c.WF := by
  cases j with
  | arr xs =>
    simp only [ddLogsIssued]
    apply issueAll_forall
    intro x
    apply ofOpt_forall
    intro cs hcs c hc
    cases hj : jxObj (ddMember tagsOf) {} x with
    | none => rw [hj] at hcs; cases hcs
    | some d =>
      rw [hj] at hcs
      simp only [Option.map_some, Option.some.injEq] at hcs
      subst hcs
      simp only [List.mem_singleton] at hc
      subst hc
      exact single_WF _ _ _ _ _ (by decide)
  | null => intro c hc; simp [ddLogsIssued] at hc
  | bool b => intro c hc; simp [ddLogsIssued] at hc
  | num t f i => intro c hc; simp [ddLogsIssued] at hc
  | str s => intro c hc; simp [ddLogsIssued] at hc
  | obj o => intro c hc; simp [ddLogsIssued] at hc

/-- the point arrays of a series item are appended together -/
theorem dsItem_lengths (now : Int) (it : Json) (st : DSSt) (h : jxObj (dsItemMember now) {} it = some st) :
    st.ts.length = st.vals.length := by
  cases it with
  | obj m =>
    rw [jxObj_obj, foldOpt_spec (fun st kv => dsItemMember now st kv.1 kv.2) (dsSpecItemMember now) appI
      (dsItemMember_part now)] at h
    cases hm : mapOpt (dsSpecItemMember now) m with
    | none => rw [hm] at h; cases h
    | some ps =>
      rw [hm] at h
      simp only [Option.map_some, Option.some.injEq, item_fold] at h
      subst h
      simp
  | null => cases h
  | bool b => cases h
  | num t f i => cases h
  | str s => cases h
  | arr a => cases h

theorem dsCall_WF (st : DSSt) (h : st.ts.length = st.vals.length) : (dsCall st).WF := by
  refine ⟨?_, ?_, ?_, ?_⟩
  · simp [dsCall, h]
  · simp [dsCall, h]
  · simp [dsCall, fastFill, h]
  · intro t ht
    simp only [dsCall, fastFill, List.mem_replicate] at ht
    rw [ht.2]
    decide

theorem ddSeriesIssued_WF (now : Int) (j : Json) : ∀ c ∈ (ddSeriesIssued now j).1, c.WF := by
  have hstep : ∀ it, ∀ c ∈ (dsItemStep now it).1, c.WF := by
    intro it
    apply ofOpt_forall
    intro cs hcs c hc
    cases hj : jxObj (dsItemMember now) {} it with
    | none => rw [hj] at hcs; cases hcs
    | some st =>
      rw [hj] at hcs
      simp only [Option.map_some, Option.some.injEq] at hcs
      subst hcs
      simp only [List.mem_singleton] at hc
      subst hc
      exact dsCall_WF st (dsItem_lengths now it st hj)
  have hitems : ∀ x, ∀ c ∈ (dsItemsIssued now x).1, c.WF := by
    intro x
    cases x with
    | arr xs => exact issueAll_forall Call.WF _ hstep xs
    | null => intro c hc; simp [dsItemsIssued] at hc
    | bool b => intro c hc; simp [dsItemsIssued] at hc
    | num t f i => intro c hc; simp [dsItemsIssued] at hc
    | str s => intro c hc; simp [dsItemsIssued] at hc
    | obj o => intro c hc; simp [dsItemsIssued] at hc
  cases j with
  | obj ms =>
    simp only [ddSeriesIssued]
    apply issueAll_forall
    intro kv c hc
    unfold dsMemberIssued at hc
    by_cases hk : kv.1 = k_series
    · simp only [hk, if_true] at hc
      exact hitems _ c hc
    · simp [hk] at hc
  | null => intro c hc; simp [ddSeriesIssued] at hc
  | bool b => intro c hc; simp [ddSeriesIssued] at hc
  | num t f i => intro c hc; simp [ddSeriesIssued] at hc
  | str s => intro c hc; simp [ddSeriesIssued] at hc
  | arr a => intro c hc; simp [ddSeriesIssued] at hc

theorem lokiProtoCall_WF (ls : Labels) (s : PbStream) : (lokiProtoCall ls s).WF := by
  refine ⟨by simp [lokiProtoCall], by simp [lokiProtoCall, fastFill], by simp [lokiProtoCall, fastFill], ?_⟩
  intro t ht
  simp only [lokiProtoCall, fastFill, List.mem_replicate] at ht
  rw [ht.2]
  decide

theorem lokiProtoIssued_WF (scan : Bytes → List Tok) (d : List PbStream) : ∀ c ∈ (lokiProtoIssued scan d).1, c.WF := by
  apply issueAll_forall
  intro s
  apply ofOpt_forall
  intro cs hcs c hc
  cases hl : labelPairs (scan s.labels) with
  | none => rw [hl] at hcs; cases hcs
  | some ls =>
    rw [hl] at hcs
    simp only [Option.map_some, Option.some.injEq] at hcs
    subst hcs
    simp only [List.mem_singleton] at hc
    subst hc
    exact lokiProtoCall_WF ls s

theorem influxMetricCalls_WF (m : Metric) (cs : List Call) (h : influxMetricCalls m = some cs) : ∀ c ∈ cs, c.WF := by
  unfold influxMetricCalls at h
  split at h
  · cases hg : getMessage m.fields with
    | none => rw [hg] at h; cases h
    | some line =>
      rw [hg] at h
      simp only [Option.map_some, Option.some.injEq] at h
      subst h
      intro c hc
      simp only [List.mem_singleton] at hc
      subst hc
      exact single_WF _ _ _ _ _ (by decide)
  · simp only [Option.some.injEq] at h
    subst h
    intro c hc
    simp only [List.mem_filterMap] at hc
    obtain ⟨f, _, hf⟩ := hc
    cases hn : fieldNum f.val with
    | none => rw [hn] at hf; cases hf
    | some v =>
      rw [hn] at hf
      simp only [Option.map_some, Option.some.injEq] at hf
      subst hf
      exact single_WF _ _ _ _ _ (by decide)

theorem influxIssued_WF (ms : List Metric) : ∀ c ∈ (influxIssued ms).1, c.WF := by
  apply issueAll_forall
  intro m
  apply ofOpt_forall
  intro cs hcs
  exact influxMetricCalls_WF m cs hcs

theorem linesIssued_WF (items : List (Option (Option (Labels × Int × Bytes)))) : ∀ c ∈ (linesIssued items).1, c.WF := by
  apply issueAll_forall
  intro it c hc
  match it, hc with
  | none, hc => simp [lineStep] at hc
  | some none, hc => simp [lineStep] at hc
  | some (some (l, t, line)), hc =>
    simp only [lineStep, List.mem_singleton] at hc
    subst hc
    exact single_WF _ _ _ _ _ (by decide)

/-! ### what is sent is rectangular -/

/-- **the builder under any prefix of well-formed calls**: whether the decoder ended well or not, for every flush
    test, everything the goroutine sent is rectangular -/
theorem sent_rect (env : Env) (r : List Call × Bool) (h : ∀ c ∈ r.1, c.WF) :
    ∃ chunks, sent env r = some chunks ∧ ∀ ch ∈ chunks, ch.spl.Rect := by
  obtain ⟨st, out, e, i, ok, _⟩ := runCalls_spec env r.1 {} (Inv.init env) h
  unfold sent
  rw [e]
  cases r.2 with
  | false => exact ⟨out, rfl, fun ch hch => (ok ch hch).rect⟩
  | true =>
    refine ⟨out ++ [⟨st.spl, st.ts⟩], rfl, ?_⟩
    intro ch hch
    rcases List.mem_append.mp hch with h' | h'
    · exact (ok ch h').rect
    · simp only [List.mem_singleton] at h'
      subst h'
      exact i.rect

/-! ### spans -/

theorem SpanCols.push_rect (s : SpanCols) (ptype : Int) (a : SpanArgs) (h : s.Rect) : (s.push ptype a).Rect := by
  obtain ⟨h1, h2, h3, h4, h5, h6, h7, h8⟩ := h
  simp only [SpanCols.Rect, SpanCols.push, List.length_append, List.length_cons, List.length_nil]
  omega

theorem attrLoop_rect (a : SpanArgs) : ∀ (ks vs : List Bytes) (st st' : AttrCols), st.Rect →
    attrLoop a st ks vs = .ok st' → st'.Rect := by
  intro ks
  induction ks with
  | nil => intro vs st st' h e; simp only [attrLoop] at e; cases e; exact h
  | cons k ks ih =>
    intro vs st st' h e
    cases vs with
    | nil => simp [attrLoop] at e
    | cons v vs' =>
      simp only [attrLoop] at e
      refine ih vs' _ st' ?_ e
      obtain ⟨h1, h2, h3, h4, h5, h6⟩ := h
      simp only [AttrCols.Rect, List.length_append, List.length_cons, List.length_nil]
      omega

/-- invariant of the open span requests -/
def SpanSt.Rect (st : SpanSt) : Prop := st.spans.Rect ∧ st.attrs.Rect

theorem SpanSt.init_rect : ({} : SpanSt).Rect :=
  ⟨⟨rfl, rfl, rfl, rfl, rfl, rfl, rfl, rfl⟩, ⟨rfl, rfl, rfl, rfl, rfl, rfl⟩⟩

theorem onSpanCols_rect (flush : Nat → Bool) (ptype : Int) (st : SpanSt) (a : SpanArgs) (h : st.Rect) :
    ∀ st' out, onSpanCols flush ptype st a = .ok st' out → st'.Rect ∧ ∀ p ∈ out, p.1.Rect ∧ p.2.Rect := by
  intro st' out e
  unfold onSpanCols at e
  split at e
  · cases e
  · cases hl : attrLoop a st.attrs a.keys a.vals with
    | error x => simp [hl] at e
    | ok attrs =>
      simp only [hl] at e
      have hs := SpanCols.push_rect st.spans ptype a h.1
      have ha := attrLoop_rect a a.keys a.vals st.attrs attrs h.2 hl
      split at e
      · cases e
        refine ⟨SpanSt.init_rect, ?_⟩
        intro p hp
        simp only [List.mem_singleton] at hp
        subst hp
        exact ⟨hs, ha⟩
      · cases e
        exact ⟨⟨hs, ha⟩, by simp⟩

theorem spansSent_rect (flush : Nat → Bool) (ptype : Int) (as : List SpanArgs) (decodeOk : Bool) :
    ∀ st : SpanSt, st.Rect → ∀ p ∈ spansSent flush ptype st as decodeOk, p.1.Rect ∧ p.2.Rect := by
  induction as with
  | nil =>
    intro st h p hp
    simp only [spansSent] at hp
    split at hp
    · simp only [List.mem_singleton] at hp
      subst hp
      exact h
    · simp at hp
  | cons a as ih =>
    intro st h p hp
    simp only [spansSent] at hp
    cases ho : onSpanCols flush ptype st a with
    | ok st' out =>
      rw [ho] at hp
      obtain ⟨h', hout⟩ := onSpanCols_rect flush ptype st a h st' out ho
      rcases List.mem_append.mp hp with q | q
      · exact hout p q
      · exact ih st' h' p q
    | reject => rw [ho] at hp; simp at hp
    | fault x => rw [ho] at hp; simp at hp

/-! ### profiles -/

theorem ProfCols.push_rect (p : ProfCols) (a : ProfArgs) (h : p.Rect) : (p.push a).Rect := by
  obtain ⟨h1, h2, h3, h4, h5, h6, h7⟩ := h
  simp only [ProfCols.Rect, ProfCols.push, List.length_append, List.length_cons, List.length_nil]
  omega

theorem profilesSent_rect (big : ProfCols → Bool) (as : List ProfArgs) (decodeOk : Bool) :
    ∀ st : ProfCols, st.Rect → ∀ p ∈ profilesSent big st as decodeOk, p.Rect := by
  induction as with
  | nil =>
    intro st h p hp
    simp only [profilesSent] at hp
    split at hp
    · simp only [List.mem_singleton] at hp
      subst hp
      exact h
    · simp at hp
  | cons a as ih =>
    intro st h p hp
    simp only [profilesSent] at hp
    have h' := ProfCols.push_rect st a h
    split at hp
    · rcases List.mem_cons.mp hp with q | q
      · subst q; exact h'
      · exact ih {} ⟨rfl, rfl, rfl, rfl, rfl, rfl, rfl⟩ p q
    · exact ih _ h' p hp

end Qryn.ParserRect
