import Qryn.Proofs.TraceQLMatched
import Qryn.Proofs.TraceQLLimit
/-! C11: `index_grouped` — the root select of a script with `IndexLimitPlanner`'s LIMIT — is a choice of the `limit`
    most recent traces the script describes, each with an admissible array of the spans the script selects. -/
namespace Qryn.TraceQL
open Qryn Qryn.Sql

def idsOf (T : Table) : List Bytes := T.filterMap traceIdOf

theorem idsOf_take (T : Table) (hs : ∀ r ∈ T, ∃ tr, r.get "trace_id" = .str tr) (n : Nat) :
    idsOf (T.take n) = (idsOf T).take n := by
  induction T generalizing n with
  | nil => simp [idsOf]
  | cons r rs ih =>
    cases n with
    | zero => simp [idsOf]
    | succ k =>
      obtain ⟨tr, htr⟩ := hs r (by simp)
      have := ih (fun x hx => hs x (List.mem_cons_of_mem _ hx)) k
      simp only [idsOf, List.take_succ_cons, List.filterMap_cons, traceIdOf, htr] at this ⊢
      rw [this]

theorem idsOf_length (T : Table) (hs : ∀ r ∈ T, ∃ tr, r.get "trace_id" = .str tr) : (idsOf T).length = T.length := by
  induction T with
  | nil => rfl
  | cons r rs ih =>
    obtain ⟨tr, htr⟩ := hs r (by simp)
    simp only [idsOf, List.filterMap_cons, traceIdOf, htr, List.length_cons]
    have := ih (fun x hx => hs x (List.mem_cons_of_mem _ hx))
    simp only [idsOf] at this
    rw [this]

theorem mem_idsOf (T : Table) (tr : Bytes) : tr ∈ idsOf T ↔ ∃ r ∈ T, r.get "trace_id" = .str tr := by
  simp only [idsOf, List.mem_filterMap, traceIdOf]
  constructor
  · rintro ⟨r, hr, h⟩
    cases hv : r.get "trace_id" <;> rw [hv] at h <;> simp at h
    subst h; exact ⟨r, hr, hv⟩
  · rintro ⟨r, hr, h⟩
    exact ⟨r, hr, by rw [h]⟩

theorem idsOf_nodup (T : Table) (P : Bytes → Prop) (h : TraceRows T P) : (idsOf T).Nodup := by
  have hn := h.nodup
  have hs : ∀ r ∈ T, ∃ tr, r.get "trace_id" = .str tr := fun r hr => by
    obtain ⟨tr, _, htr, _⟩ := h.shape r hr; exact ⟨tr, htr⟩
  clear h
  induction T with
  | nil => simp [idsOf]
  | cons r rs ih =>
    obtain ⟨tr, htr⟩ := hs r (by simp)
    rw [List.map_cons, List.nodup_cons] at hn
    simp only [idsOf, List.filterMap_cons, traceIdOf, htr]
    rw [List.nodup_cons]
    refine ⟨?_, ih hn.2 (fun x hx => hs x (List.mem_cons_of_mem _ hx))⟩
    intro hm
    obtain ⟨r', hr', htr'⟩ := (mem_idsOf rs tr).mp hm
    exact hn.1 (List.mem_map.mpr ⟨r', hr', by rw [htr', htr]⟩)

/-- **a prefix of a list sorted newest first is a choice of the most recent** -/
theorem topN_of_sorted (rec : Bytes → Int) (P : Bytes → Prop) (l : List Bytes) (n : Nat)
    (hn : l.Nodup) (hmem : ∀ tr, tr ∈ l ↔ P tr) (hs : l.Pairwise (fun a b => rec b ≤ rec a)) :
    IsTopN rec P n (l.take n) := by
  refine ⟨List.Nodup.sublist (List.take_sublist _ _) hn, fun k hk => (hmem k).mp (List.mem_of_mem_take hk),
    List.length_take_le _ _, ?_, List.Pairwise.sublist (List.take_sublist _ _) hs⟩
  intro m hm hnot
  have hml : m ∈ l := (hmem m).mpr hm
  rw [← List.take_append_drop n l, List.mem_append] at hml
  rcases hml with h | h
  · exact absurd h hnot
  · have hlen : n < l.length := by
      by_cases hlt : n < l.length
      · exact hlt
      · rw [List.drop_eq_nil_of_le (by omega)] at h; simp at h
    refine ⟨by rw [List.length_take]; omega, ?_⟩
    intro k hk
    rw [← List.take_append_drop n l, List.pairwise_append] at hs
    exact hs.2.2 k hk m h

/-! ### the invariant read at the script -/
theorem RecSel.congrOn {o : Oracles} {ao : AggOracles} {db : Db} {X : Sel} {p p' : Bytes → Bool} {vals vals' : Bytes → List Int}
    {U U' : Bytes → List Bytes} {per per' : Bytes → List (List Bytes)} (h : RecSel o ao db X p vals U per)
    (hp : ∀ tr, p tr = p' tr) (hl : ∀ tr, p tr = true → vals tr = vals' tr ∧ U tr = U' tr ∧ per tr = per' tr) :
    RecSel o ao db X p' vals' U' per' := by
  have hpf : p = p' := funext hp
  subst hpf
  refine ⟨h.base, ?_, ?_, ?_⟩
  · intro env r tr hr htr
    have hpt := ((h.base.rows [maxCol] env).mem tr).mp ⟨r, hr, htr⟩
    rw [← (hl tr hpt).1]
    exact h.key env r tr hr htr
  · intro env extra r tr vs hr htr hvs
    have hpt := ((h.base.rows extra env).mem tr).mp ⟨r, hr, htr⟩
    rw [← (hl tr hpt).2.1, ← (hl tr hpt).2.2]
    exact h.spans env extra r tr vs hr htr hvs
  · intro env
    have hT := h.base.rows [] env
    rw [addCols_nil] at hT
    refine List.Pairwise.imp_of_mem ?_ (h.sorted env)
    intro a b ha hb hab ma mb hma hmb
    obtain ⟨ra, hra, htra⟩ := (mem_idsOf _ a).mp ha
    obtain ⟨rb, hrb, htrb⟩ := (mem_idsOf _ b).mp hb
    have hpa := (hT.mem a).mp ⟨ra, hra, htra⟩
    have hpb := (hT.mem b).mp ⟨rb, hrb, htrb⟩
    rw [← (hl a hpa).1] at hma
    rw [← (hl b hpb).1] at hmb
    exact hab ma mb hma hmb

/-- the per-trace list of a script: the selectors' lists over the matching groups -/
def scriptL {α} (m : Selector → Bytes → Bool) (leaf : Selector → Bytes → List α) (script : Script) (tr : Bytes) : List α :=
  (matchedSels (fun s => m s tr) script).flatMap (fun s => leaf s tr)

section
variable (o : Oracles) (ao : AggOracles) (hp : PermInv ao) (c : Ctx) (d : TraceDb) (hcons : DurConsistent (d.seen o c))
  (hts : TsConsistent (d.seen o c))
include hp hcons hts

/-- **the root select of a script** carries the invariant with the lists read off the script -/
theorem root_recSel (script : Script) (X : Sel) (h : rootSel c script = .ok X) (hok : ∀ p ∈ script, SelOk p.1) :
    RecSel o ao (d.toDb c) X (fun tr => traceMatches o ao c (d.seen o c) script tr)
      (scriptL (fun s tr => selMatches o ao c (d.seen o c) s tr) (selTs o c (d.seen o c)) script)
      (scriptL (fun s tr => selMatches o ao c (d.seen o c) s tr) (selSpans o c (d.seen o c)) script)
      (scriptL (fun s tr => selMatches o ao c (d.seen o c) s tr) (fun s tr => [selSpans o c (d.seen o c) s tr]) script) := by
  match script, h, hok with
  | [], h, _ => simp [rootSel] at h
  | [(s, op)], h, hok =>
    simp only [rootSel] at h
    obtain ⟨e, he, hrec⟩ := simple_recSel o ao hp c d hcons hts "" s op [] X h (hok (s, op) (by simp))
    refine hrec.congrOn (fun tr => by simp [traceMatches, scriptHolds_single]) ?_
    intro tr hpt
    have hg : matchedSels (fun s => selMatches o ao c (d.seen o c) s tr) [(s, op)] = [s] := by
      cases op <;> simp [matchedSels, groups, hpt]
    simp [scriptL, hg, selTs, selSpans, he, selVals, selIds]
  | p1 :: p2 :: rest, h, hok =>
    simp only [rootSel, bind, Except.bind] at h
    cases hpt : planTree (p1 :: p2 :: rest) with
    | error m => simp [hpt] at h
    | ok t =>
      simp only [hpt] at h
      have hpt' := hpt
      simp only [planTree, bind, Except.bind] at hpt'
      cases hg : groupsS (p1 :: p2 :: rest) with
      | error m => simp [hg] at hpt'
      | ok gs =>
        simp [hg, pure, Except.pure] at hpt'
        obtain ⟨h1, h2, h3, h4⟩ := groupsS_spec (fun s => true) (p1 :: p2 :: rest) gs hg
        have hleaves : ∀ sc ∈ t.leaves, ∃ s op rest', sc = (s, op) :: rest' ∧ SelOk s := by
          intro sc hsc
          rw [← hpt'] at hsc
          rcases (orFold_spec (fun s => true) gs 0 none h3 h2).2 sc hsc with ⟨g, hg', hscg⟩ | ⟨p, l, hl, _⟩
          · obtain ⟨s, op, rest', e1, e2⟩ := h4 g hg' sc hscg
            exact ⟨s, op, rest', e1, hok (s, op) e2⟩
          · simp at hl
        have hrec := tree_recSel o ao hp c d hcons hts t X h hleaves
        have hpeq : ∀ tr, treeP (fun s tr => selMatches o ao c (d.seen o c) s tr) t tr = traceMatches o ao c (d.seen o c) (p1 :: p2 :: rest) tr := by
          intro tr
          rw [← hpt']
          exact tree_means_script' (fun s => selMatches o ao c (d.seen o c) s tr) (p1 :: p2 :: rest) gs hg
        refine hrec.congrOn hpeq ?_
        intro tr hptr
        exact ⟨planTree_lists _ _ _ t hpt tr hptr, planTree_lists _ _ _ t hpt tr hptr, planTree_lists _ _ _ t hpt tr hptr⟩
end

section
variable (o : Oracles) (ao : AggOracles) (hp : PermInv ao) (c : Ctx) (d : TraceDb) (hcons : DurConsistent (d.seen o c))
  (hts : TsConsistent (d.seen o c))
include hp hcons hts

/-- **`index_grouped`** (the root select with `IndexLimitPlanner`'s LIMIT): its traces are a choice of the `limit` most
    recent traces the script describes — recency = start of the newest span selected by a selector of a matching group,
    ties free —, newest first, and every span array is an admissible choice of the spans the script selects of the trace -/
theorem index_grouped_topN (script : Script) (X : Sel) (h : rootSel c script = .ok X) (hok : ∀ p ∈ script, SelOk p.1)
    (env : Env) (hlim : 0 < c.limit) :
    IsTopN (traceRec o ao c (d.seen o c) script) (fun tr => traceMatches o ao c (d.seen o c) script tr = true) c.limit.toNat
      (idsOf (evalSelG o ao (d.toDb c) true env (indexLimit c X))) ∧
    (∀ r ∈ evalSelG o ao (d.toDb c) true env (indexLimit c X), ∃ tr vs, r.get "trace_id" = .str tr ∧ r.get "span_id" = .strs vs ∧
      SpanSetOk (traceSpans o ao c (d.seen o c) script tr)
        (scriptL (fun s tr => selMatches o ao c (d.seen o c) s tr) (fun s tr => [selSpans o c (d.seen o c) s tr]) script tr) vs) ∧
    evalSelG o ao (d.toDb c) true env (indexLimit c X) = (evalSelG o ao (d.toDb c) true env X).take c.limit.toNat := by
  have hrec := root_recSel o ao hp c d hcons hts script X h hok
  have hT0 := hrec.base.rows [] env
  rw [addCols_nil] at hT0
  have hl : evalSelG o ao (d.toDb c) true env (indexLimit c X) = (evalSelG o ao (d.toDb c) true env X).take c.limit.toNat := by
    rw [indexLimit_eval o ao (d.toDb c) true env c X (rootSel_grouped c script X h)]
    have : c.limit ≠ 0 := by omega
    simp [this]
  have hshape : ∀ r ∈ evalSelG o ao (d.toDb c) true env X, ∃ tr, r.get "trace_id" = .str tr := fun r hr => by
    obtain ⟨tr, _, htr, _⟩ := hT0.shape r hr; exact ⟨tr, htr⟩
  refine ⟨?_, ?_, hl⟩
  · rw [hl, idsOf_take _ hshape]
    apply topN_of_sorted _ _ _ _ (idsOf_nodup _ _ hT0)
    · intro tr; rw [mem_idsOf]; exact hT0.mem tr
    · refine List.Pairwise.imp_of_mem ?_ (hrec.sorted env)
      intro a b ha hb hab
      have hmax : ∀ x ∈ idsOf (evalSelG o ao (d.toDb c) true env X),
          IsMaxOf (traceRec o ao c (d.seen o c) script x)
            (scriptL (fun s tr => selMatches o ao c (d.seen o c) s tr) (selTs o c (d.seen o c)) script x) := by
        intro x hx
        obtain ⟨r, hr, hrx⟩ := (mem_idsOf _ x).mp hx
        have hpx := (hT0.mem x).mp ⟨r, hr, hrx⟩
        obtain ⟨r', hr', hrx'⟩ := ((hrec.base.rows [maxCol] env).mem x).mpr hpx
        obtain ⟨m, _, hm⟩ := hrec.key env r' x hr' hrx'
        have hne : scriptL (fun s tr => selMatches o ao c (d.seen o c) s tr) (selTs o c (d.seen o c)) script x ≠ [] := by
          intro h0; rw [h0] at hm; exact absurd hm.1 (by simp)
        exact listMax_isMax _ hne
      exact hab _ _ (hmax a ha) (hmax b hb)
  · intro r hr
    rw [hl] at hr
    have hr0 := List.mem_of_mem_take hr
    obtain ⟨tr, vs, htr, hvs, _⟩ := hT0.shape r hr0
    have := hrec.spans env [] r tr vs (by rw [addCols_nil]; exact hr0) htr hvs
    exact ⟨tr, vs, htr, hvs, this⟩
end

end Qryn.TraceQL
