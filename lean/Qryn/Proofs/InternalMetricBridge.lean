import Qryn.Proofs.InternalEndToEnd
import Qryn.LogQL.SemMetric
/-! The range aggregations both engines implement — `rate`, `count_over_time`, `bytes_rate`, `bytes_over_time` — : the
    LogQL reading of the in-process plan (`LogQL.Stages.aggregate`, which `metricPlan_meets_logql` proves the engine
    computes) over the rows ClickHouse hands over is, series by series (label set) and bucket by bucket, the set of points
    `LogQL.rangePoints` — the direct reading C08's `plan_metric_correct` proves the ClickHouse statement of the whole
    metric query against. Numbers are exact rationals on both sides. Core only. -/
namespace Qryn.Read
open Qryn Qryn.Sql Qryn.LogQL Qryn.LogQL.Stages

/-- float64 idealised as exact rationals (as C08 does), the duration in seconds as `LRAPlanner.finalize` computes it for
    a range of whole milliseconds -/
def ratOps (parse : Bytes → Option Rat) : NumOps Rat :=
  { zero := 0, one := 1, add := (· + ·), div := (· / ·), lt := fun a b => decide (a < b), le := fun a b => decide (a ≤ b),
    eq := fun a b => decide (a = b), ofNat := fun n => ((n : Int) : Rat), parse := parse,
    durSeconds := fun d => (d : Rat) / 1000000000 }

/-- the function names of `LRAPlanner` as C08 names them -/
def toLra : Read.RangeFn → Option LogQL.RangeFn
  | .rate => some .rate
  | .countOverTime => some .countOverTime
  | .bytesRate => some .bytesRate
  | .bytesOverTime => some .bytesOverTime
  | .other => none

/-! ### the two bucket grids coincide on a window of whole range buckets (what `FixPeriodPlanner` hands to both engines) -/
theorem grid_n (fromNs : Int) (dur n : Nat) (hd : 0 < dur) :
    (Grid.of fromNs (fromNs + (n : Int) * dur) dur).n = n := by
  simp only [Grid.of]
  have : fromNs + (n : Int) * dur - fromNs = (n : Int) * dur := by omega
  rw [this, Int.mul_tdiv_cancel _ (by omega)]
  simp

theorem grid_bucket (fromNs : Int) (dur k n : Nat) (hd : 0 < dur) (hfrom : fromNs = (k : Int) * dur) (ts : Int)
    (h1 : fromNs ≤ ts) (h2 : ts < fromNs + (n : Int) * dur) :
    ∃ i : Nat, i < n ∧ (Grid.of fromNs (fromNs + (n : Int) * dur) dur).bucket ts = some i ∧
      bucketOf dur ts = fromNs + (i : Int) * dur := by
  have hdpos : (0 : Int) < dur := by exact_mod_cast hd
  have hdne : (dur : Int) ≠ 0 := by omega
  have hnn : 0 ≤ ts - fromNs := by omega
  have hq0 : 0 ≤ (ts - fromNs) / (dur : Int) := Int.ediv_nonneg hnn (by omega)
  have hqlt : (ts - fromNs) / (dur : Int) < n := Int.ediv_lt_of_lt_mul hdpos (by omega)
  refine ⟨((ts - fromNs) / (dur : Int)).toNat, by omega, ?_, ?_⟩
  · have hgn := grid_n fromNs dur n hd
    have hi : (ts - fromNs).tdiv (dur : Int) = (ts - fromNs) / (dur : Int) := Int.tdiv_eq_ediv_of_nonneg hnn
    simp only [Grid.of] at hgn
    simp only [Grid.bucket, Grid.of, hi, hgn]
    rw [if_pos ⟨hq0, by omega⟩]
  · simp only [bucketOf]
    have hts : 0 ≤ ts := by
      have : (0 : Int) ≤ (k : Int) * dur := Int.mul_nonneg (by omega) (by omega)
      omega
    rw [Int.tdiv_eq_ediv_of_nonneg hts]
    have hsplit : ts = (ts - fromNs) + (k : Int) * dur := by omega
    have hdiv : ts / (dur : Int) = (ts - fromNs) / (dur : Int) + k := by
      conv => lhs; rw [hsplit]
      exact Int.add_mul_ediv_right _ _ hdne
    rw [hdiv, Int.toNat_of_nonneg hq0, Int.add_mul, hfrom]
    omega

theorem grid_inj (fromNs : Int) (dur : Nat) (hd : 0 < dur) (i j : Nat) (h : fromNs + (i : Int) * dur = fromNs + (j : Int) * dur) : i = j := by
  have hdpos : (0 : Int) < dur := by exact_mod_cast hd
  have h' : (i : Int) * dur = (j : Int) * dur := by omega
  have := Int.eq_of_mul_eq_mul_right (by omega : (dur : Int) ≠ 0) h'
  omega

/-! ### the values -/
theorem countOf_length (parse : Bytes → Option Rat) (l : List (Entry Rat)) :
    countOf (ratOps parse) l = ((l.length : Int) : Rat) := by
  have key : ∀ (acc : Rat), l.foldl (fun a _ => (ratOps parse).add a (ratOps parse).one) acc = acc + ((l.length : Int) : Rat) := by
    induction l with
    | nil => intro acc; simp [Rat.add_zero]
    | cons x xs ih =>
      intro acc
      rw [List.foldl_cons, ih]
      simp only [ratOps, List.length_cons]
      have : (((xs.length + 1 : Nat) : Int) : Rat) = ((xs.length : Int) : Rat) + 1 := by
        rw [Int.natCast_add]; simp [Rat.intCast_add]
      rw [this]
      simp only [Rat.add_assoc, Rat.add_comm 1]
  have := key 0
  rw [Rat.zero_add] at this
  simpa [countOf, ratOps] using this

theorem foldl_add_rat (l : List Rat) (acc : Rat) : l.foldl (· + ·) acc = acc + l.foldl (· + ·) 0 := by
  induction l generalizing acc with
  | nil => simp [Rat.add_zero]
  | cons x xs ih =>
    rw [List.foldl_cons, ih, List.foldl_cons, ih (0 + x), Rat.zero_add, Rat.add_assoc]

theorem foldl_add_rat_perm (a b : List Rat) (h : a.Perm b) : a.foldl (· + ·) 0 = b.foldl (· + ·) 0 := by
  induction h with
  | nil => rfl
  | cons x _ ih => rw [List.foldl_cons, List.foldl_cons, foldl_add_rat _ (0 + x), foldl_add_rat _ (0 + x), ih]
  | swap x y l =>
    simp only [List.foldl_cons, Rat.zero_add]
    rw [foldl_add_rat _ (y + x), foldl_add_rat _ (x + y), Rat.add_comm x y]
  | trans _ _ ih1 ih2 => rw [ih1, ih2]

theorem int_sum_cast (l : List Int) : ((l.foldl (· + ·) 0 : Int) : Rat) = (l.map (fun i : Int => (i : Rat))).foldl (· + ·) 0 := by
  have key : ∀ acc : Int, ((l.foldl (· + ·) acc : Int) : Rat) = (l.map (fun i : Int => (i : Rat))).foldl (· + ·) (acc : Rat) := by
    induction l with
    | nil => intro acc; rfl
    | cons x xs ih =>
      intro acc
      simp only [List.foldl_cons, List.map_cons]
      rw [ih, Rat.intCast_add]
  simpa using key 0

/-- the LogQL value of a window as the in-process reading has it = C08's `lraVal`, when the entries are (a permutation
    of) the scanned samples -/
theorem rangeValue_lraVal (parse : Bytes → Option Rat) (fn : Read.RangeFn) (fn' : LogQL.RangeFn) (hfn : toLra fn = some fn')
    (dur : Nat) (g : Sample → Entry Rat) (hg : ∀ s, (g s).msg = s.str) (grp : List Sample) (l : List (Entry Rat))
    (hl : l.Perm (grp.map g)) :
    rangeValue (ratOps parse) dur fn l = lraVal fn' dur grp := by
  have hlen : l.length = grp.length := by rw [hl.length_eq, List.length_map]
  have hbytes : bytesOf (ratOps parse) l = (((grp.map (fun s => (s.str.length : Int))).foldl (· + ·) 0 : Int) : Rat) := by
    rw [int_sum_cast]
    simp only [bytesOf, sumOf, ratOps]
    have h1 : (l.map (fun e : Entry Rat => (((e.msg.length : Nat) : Int) : Rat))).Perm
        ((grp.map g).map (fun e : Entry Rat => (((e.msg.length : Nat) : Int) : Rat))) := hl.map _
    rw [foldl_add_rat_perm _ _ h1]
    simp only [List.map_map]
    congr 1
    apply List.map_congr_left
    intro s _
    simp only [Function.comp, hg]
  have hsec : (ratOps parse).durSeconds (dur : Int) = secondsOf dur := by
    simp [ratOps, secondsOf]
  cases fn with
  | rate =>
    simp only [toLra, Option.some.injEq] at hfn; subst hfn
    simp only [rangeValue, lraVal, countOf_length, hlen, hsec]
    rfl
  | countOverTime =>
    simp only [toLra, Option.some.injEq] at hfn; subst hfn
    simp only [rangeValue, lraVal, countOf_length, hlen]
  | bytesRate =>
    simp only [toLra, Option.some.injEq] at hfn; subst hfn
    simp only [rangeValue, lraVal, hbytes, hsec]
    rfl
  | bytesOverTime =>
    simp only [toLra, Option.some.injEq] at hfn; subst hfn
    simp only [rangeValue, lraVal, hbytes]
  | other => simp [toLra] at hfn

/-! ### membership in `aggregate` -/
theorem firstBy_rep {α κ : Type} [DecidableEq κ] (key : α → κ) (l : List α) (x : α) (hx : x ∈ l) :
    ∃ r ∈ firstBy key l, key r = key x := by
  have h1 : l.any (fun z => key z == key x) = true := List.any_eq_true.mpr ⟨x, hx, by simp⟩
  rw [← firstBy_any] at h1
  obtain ⟨r, hr, he⟩ := List.any_eq_true.mp h1
  exact ⟨r, hr, by simpa using he⟩

theorem mem_aggregate_iff {V κ : Type} [DecidableEq κ] (key : Entry V → κ) (g : Grid) (value : List (Entry V) → V)
    (es : List (Entry V)) (e : Entry V) :
    e ∈ (aggregate key g value es).flatten ↔
      ∃ r ∈ firstBy key es, ∃ i, i < g.n ∧
        (es.filter (fun x => key x = key r && g.bucket x.ts == some i)) ≠ [] ∧
        e = ⟨g.start + (i : Int) * g.dur, r.fp, r.labels, [], value (es.filter (fun x => key x = key r && g.bucket x.ts == some i)), none⟩ := by
  simp only [aggregate, List.mem_flatten, List.mem_filter, List.mem_map]
  constructor
  · rintro ⟨b, ⟨⟨r, hr, rfl⟩, _⟩, heb⟩
    simp only [List.mem_filterMap, List.mem_range] at heb
    obtain ⟨i, hi, hsome⟩ := heb
    refine ⟨r, hr, i, hi, ?_⟩
    by_cases hemp : (es.filter (fun x => key x = key r && g.bucket x.ts == some i)).isEmpty = true
    · simp [hemp] at hsome
    · simp only [hemp, Bool.false_eq_true, if_false, Option.some.injEq] at hsome
      exact ⟨by simpa using hemp, hsome.symm⟩
  · rintro ⟨r, hr, i, hi, hne, rfl⟩
    have hmem : (⟨g.start + (i : Int) * g.dur, r.fp, r.labels, [], value (es.filter (fun x => key x = key r && g.bucket x.ts == some i)), none⟩ : Entry V) ∈
        (List.range g.n).filterMap (fun i =>
          let sel := es.filter (fun e => key e = key r && g.bucket e.ts == some i)
          if sel.isEmpty then none
          else some (⟨g.start + (i : Int) * g.dur, r.fp, r.labels, [], value sel, none⟩ : Entry V)) := by
      simp only [List.mem_filterMap, List.mem_range]
      refine ⟨i, hi, ?_⟩
      have : (es.filter (fun x => key x = key r && g.bucket x.ts == some i)).isEmpty = false := by
        cases h : es.filter (fun x => key x = key r && g.bucket x.ts == some i) with
        | nil => exact absurd h hne
        | cons _ _ => rfl
      simp [this]
    refine ⟨_, ⟨⟨r, hr, rfl⟩, ?_⟩, hmem⟩
    cases h : (List.range g.n).filterMap (fun i =>
          let sel := es.filter (fun e => key e = key r && g.bucket e.ts == some i)
          if sel.isEmpty then none
          else some (⟨g.start + (i : Int) * g.dur, r.fp, r.labels, [], value sel, none⟩ : Entry V)) with
    | nil => rw [h] at hmem; cases hmem
    | cons _ _ => rfl

/-! ### the stored data: labels of the scanned samples -/
theorem sample_row (N : NumOps Rat) (o : Oracles) (c : LogQL.Ctx) (d : LokiDb) (hd : SeriesStoreOk o c d) (q0 : LogQuery)
    (s : Sample) (hs : s ∈ d.samples.filter (entryMatches o c d q0)) :
    ∃ t ∈ d.ts, t.fp = s.fp ∧ (scanX N (toX o c d q0 s)).labels = canonLabels (o.jsonLabels t.labels) ∧
      canonLabels (asMap (labelsOf o c d q0 s.fp)) = canonLabels (o.jsonLabels t.labels) := by
  obtain ⟨hsm, hmatch⟩ := List.mem_filter.mp hs
  obtain ⟨t, ht, hfp⟩ := hd.present s hsm
  have hsel : fpSelected o c d q0 s.fp = true := by
    simp only [entryMatches, Bool.and_eq_true] at hmatch
    exact hmatch.1.2
  refine ⟨t, ht, hfp, ?_, ?_⟩
  · simp only [scanX, toX, labelsOf_of_row o c d hd.toSeriesTableOk q0 s.fp hsel t ht hfp, asMap]
  · simp only [labelsOf_of_row o c d hd.toSeriesTableOk q0 s.fp hsel t ht hfp, asMap]

theorem sample_labels_iff (N : NumOps Rat) (o : Oracles) (c : LogQL.Ctx) (d : LokiDb) (hd : SeriesStoreOk o c d) (q0 : LogQuery)
    (s s' : Sample) (hs : s ∈ d.samples.filter (entryMatches o c d q0)) (hs' : s' ∈ d.samples.filter (entryMatches o c d q0)) :
    (scanX N (toX o c d q0 s)).labels = (scanX N (toX o c d q0 s')).labels ↔ s.fp = s'.fp := by
  obtain ⟨t, ht, hfp, hl, _⟩ := sample_row N o c d hd q0 s hs
  obtain ⟨t', ht', hfp', hl', _⟩ := sample_row N o c d hd q0 s' hs'
  rw [hl, hl']
  constructor
  · intro h
    rw [← hfp, ← hfp', hd.fpOfLabels t ht t' ht' h]
  · intro h
    rw [hd.oneDoc t ht t' ht' (by rw [hfp, hfp', h])]

/-- **the range aggregations both engines implement, on the same data.** Window `[from, to)` of whole range buckets
    (`FixPeriodPlanner` hands such a window to both engines), selector and filters `⟨ms, fs⟩` run by ClickHouse. `rows`: what
    the getter hands to the in-process engine (any order). For every label set, bucket and value: the LogQL reading of the
    in-process range aggregation (`aggregate`, = what the engine sends: `metricPlan_meets_logql`) has that sample iff
    `LogQL.rangePoints` — the reading C08 proves the ClickHouse statement of the whole metric query returns — has it for
    the stream with those labels. Under `SeriesStoreOk`. -/
theorem range_agree (parse : Bytes → Option Rat) (o : Oracles) (c : LogQL.Ctx) (d : LokiDb) (hd : SeriesStoreOk o c d)
    (ms : List Matcher) (fs : List Stage) (fn : Read.RangeFn) (fn' : LogQL.RangeFn) (hfn : toLra fn = some fn')
    (dur k n : Nat) (hdur : 0 < dur) (hfrom : c.fromNs = (k : Int) * dur) (hto : c.toNs = c.fromNs + (n : Int) * dur)
    (rows : List (Entry Rat)) (hrows : rows.Perm ((baseX o c d ms (fs.map .fl)).map (scanX (ratOps parse))))
    (l : Labels) (t : Int) (v : Rat) :
    (∃ e ∈ (aggregate (fun e : Entry Rat => e.labels) (Grid.of c.fromNs c.toNs dur) (rangeValue (ratOps parse) dur fn) rows).flatten,
        e.labels = l ∧ e.ts = t ∧ e.val = v) ↔
    (∃ pt ∈ rangePoints o c d ⟨.lra fn', ⟨ms, fs⟩, dur, none, none, none⟩ c.fromNs c.toNs,
        ∃ fp, pt.key = .int fp ∧ canonLabels (asMap (labelsOf o c d ⟨ms, fs⟩ fp)) = l ∧ pt.ts = t ∧ pt.value = v) := by
  -- the samples both readings start from
  let q0 : LogQuery := ⟨ms, fs⟩
  let es := d.samples.filter (entryMatches o c d q0)
  let g : Sample → Entry Rat := fun s => scanX (ratOps parse) (toX o c d q0 s)
  have hbase : (baseX o c d ms (fs.map .fl)).map (scanX (ratOps parse)) = es.map g := by
    simp only [baseX, splitPre_fl, stagesX, List.foldl_nil, List.map_map]
    rfl
  rw [hbase] at hrows
  have hmemrows : ∀ x, x ∈ rows ↔ ∃ s ∈ es, g s = x := by
    intro x; rw [hrows.mem_iff]; simp [List.mem_map]
  have hwin : ∀ s ∈ es, c.fromNs ≤ s.ts ∧ s.ts < c.fromNs + (n : Int) * dur := by
    intro s hs
    have := (List.mem_filter.mp hs).2
    simp only [entryMatches, Bool.and_eq_true, decide_eq_true_eq] at this
    rw [← hto]
    exact ⟨this.1.1.1.1, this.1.1.1.2⟩
  have hgrid : Grid.of c.fromNs c.toNs dur = Grid.of c.fromNs (c.fromNs + (n : Int) * dur) dur := by rw [hto]
  have hgstart : (Grid.of c.fromNs (c.fromNs + (n : Int) * dur) dur).start = c.fromNs := rfl
  have hgdur : (Grid.of c.fromNs (c.fromNs + (n : Int) * dur) dur).dur = dur := rfl
  have hes : d.samples.filter (entryMatchesW o c d q0 c.fromNs c.toNs) = es := rfl
  -- the entries of one (series, bucket): the same samples on both sides
  have hsel : ∀ (sx : Sample) (hsx : sx ∈ es) (i : Nat),
      (Grid.of c.fromNs (c.fromNs + (n : Int) * dur) dur).bucket sx.ts = some i →
      ∀ r : Entry Rat, r.labels = (g sx).labels →
      (rows.filter (fun x => x.labels = r.labels && (Grid.of c.fromNs (c.fromNs + (n : Int) * dur) dur).bucket x.ts == some i)).Perm
        ((es.filter (fun s => (s.fp, bucketOf dur s.ts) == (sx.fp, bucketOf dur sx.ts))).map g) := by
    intro sx hsx i hbi r hr
    refine (hrows.filter _).trans ?_
    rw [List.filter_map]
    apply List.Perm.of_eq
    congr 1
    apply List.filter_congr
    intro s hs
    obtain ⟨j, _, hbj, hbo⟩ := grid_bucket c.fromNs dur k n hdur hfrom s.ts (hwin s hs).1 (hwin s hs).2
    obtain ⟨i', _, hbi', hbo'⟩ := grid_bucket c.fromNs dur k n hdur hfrom sx.ts (hwin sx hsx).1 (hwin sx hsx).2
    have hii : i' = i := by rw [hbi'] at hbi; exact Option.some.inj hbi
    subst hii
    simp only [Function.comp, hr]
    have h1 : ((g s).labels = (g sx).labels) ↔ s.fp = sx.fp := sample_labels_iff (ratOps parse) o c d hd q0 s sx hs hsx
    have hts : (g s).ts = s.ts := rfl
    rw [hts, hbj, hbo, hbo']
    by_cases hfp : s.fp = sx.fp
    · have hl : (g s).labels = (g sx).labels := h1.mpr hfp
      by_cases hj : j = i'
      · subst hj; simp [hl, hfp]
      · have : ¬ (c.fromNs + (j : Int) * dur = c.fromNs + (i' : Int) * dur) := fun e => hj (grid_inj c.fromNs dur hdur j i' e)
        have h2 : (j == i') = false := by simpa using hj
        have h3 : ((sx.fp, c.fromNs + (j : Int) * dur) == (sx.fp, c.fromNs + (i' : Int) * dur)) = false := by
          apply Bool.eq_false_iff.mpr
          intro h
          exact this (Prod.mk.inj (beq_iff_eq.mp h)).2
        simp [hl, hfp, h2, h3]
    · have hl : ¬ (g s).labels = (g sx).labels := fun e => hfp (h1.mp e)
      simp [hl, hfp]
  constructor
  · rintro ⟨e, he, hel, het, hev⟩
    rw [hgrid] at he
    obtain ⟨r, hr, i, hi, hne, rfl⟩ := (mem_aggregate_iff _ _ _ _ e).mp he
    -- a sample of the series in the bucket
    obtain ⟨x, hx⟩ := List.exists_mem_of_ne_nil _ hne
    obtain ⟨hxrows, hxp⟩ := List.mem_filter.mp hx
    obtain ⟨sx, hsx, rfl⟩ := (hmemrows x).mp hxrows
    simp only [Bool.and_eq_true, decide_eq_true_eq, beq_iff_eq] at hxp
    obtain ⟨hxl, hxb⟩ := hxp
    have hxts : (g sx).ts = sx.ts := rfl
    rw [hxts] at hxb
    obtain ⟨i', _, hbi', hbo'⟩ := grid_bucket c.fromNs dur k n hdur hfrom sx.ts (hwin sx hsx).1 (hwin sx hsx).2
    have hii : i' = i := by rw [hbi'] at hxb; exact Option.some.inj hxb
    subst hii
    refine ⟨⟨.int sx.fp, .null, bucketOf dur sx.ts, lraVal fn' dur (es.filter (fun s => (s.fp, bucketOf dur s.ts) == (sx.fp, bucketOf dur sx.ts)))⟩, ?_, sx.fp, rfl, ?_, ?_, ?_⟩
    · simp only [rangePoints, hes, List.mem_map]
      refine ⟨(sx.fp, bucketOf dur sx.ts), ?_, rfl⟩
      rw [List.mem_eraseDups]
      exact List.mem_map.mpr ⟨sx, hsx, rfl⟩
    · obtain ⟨t0, _, _, hl1, hl2⟩ := sample_row (ratOps parse) o c d hd q0 sx hsx
      rw [hl2, ← hl1, hxl, ← hel]
    · rw [← het, hbo', hgstart, hgdur]
    · rw [← hev]
      simp only
      exact (rangeValue_lraVal parse fn fn' hfn dur g (fun _ => rfl) _ _ (hsel sx hsx i' hbi' r hxl.symm)).symm
  · rintro ⟨pt, hpt, fp, hkey, hlbl, hts, hval⟩
    simp only [rangePoints, hes, List.mem_map] at hpt
    obtain ⟨kk, hkk, rfl⟩ := hpt
    rw [List.mem_eraseDups] at hkk
    obtain ⟨sx, hsx, rfl⟩ := List.mem_map.mp hkk
    simp only [Val.int.injEq] at hkey
    obtain ⟨i, hi, hbi, hbo⟩ := grid_bucket c.fromNs dur k n hdur hfrom sx.ts (hwin sx hsx).1 (hwin sx hsx).2
    obtain ⟨r, hr, hrl⟩ := firstBy_rep (fun e : Entry Rat => e.labels) rows (g sx) ((hmemrows _).mpr ⟨sx, hsx, rfl⟩)
    have hperm := hsel sx hsx i hbi r hrl
    have hne : rows.filter (fun x => x.labels = r.labels && (Grid.of c.fromNs (c.fromNs + (n : Int) * dur) dur).bucket x.ts == some i) ≠ [] := by
      intro hnil
      rw [hnil] at hperm
      have := hperm.symm.eq_nil
      have hmem : g sx ∈ (es.filter (fun s => (s.fp, bucketOf dur s.ts) == (sx.fp, bucketOf dur sx.ts))).map g :=
        List.mem_map.mpr ⟨sx, List.mem_filter.mpr ⟨hsx, by simp⟩, rfl⟩
      rw [this] at hmem
      cases hmem
    refine ⟨⟨(Grid.of c.fromNs (c.fromNs + (n : Int) * dur) dur).start + (i : Int) * (Grid.of c.fromNs (c.fromNs + (n : Int) * dur) dur).dur,
      r.fp, r.labels, [],
      rangeValue (ratOps parse) dur fn (rows.filter (fun x => x.labels = r.labels && (Grid.of c.fromNs (c.fromNs + (n : Int) * dur) dur).bucket x.ts == some i)),
      none⟩, ?_, ?_, ?_, ?_⟩
    · rw [hgrid]
      exact (mem_aggregate_iff _ _ _ _ _).mpr ⟨r, hr, i, by rw [grid_n c.fromNs dur n hdur]; exact hi, hne, rfl⟩
    · simp only
      obtain ⟨t0, _, _, hl1, hl2⟩ := sample_row (ratOps parse) o c d hd q0 sx hsx
      rw [hrl, hl1, ← hl2, ← hlbl, hkey]
    · simp only [hgstart, hgdur]
      rw [← hts, hbo]
    · simp only
      rw [← hval]
      exact rangeValue_lraVal parse fn fn' hfn dur g (fun _ => rfl) _ _ hperm

end Qryn.Read
