import Qryn.ReadSide.Pipeline
/-! Lemmas for the pipeline model: the measure decreases with every move, the invariant is kept,
    a non-final state of a draining pipeline always has a move. -/
namespace Qryn.ReadSide.Pipe

theorem Item.size_pos (it : Item) : 0 < it.size := by
  cases it; simp [Item.size]; omega

theorem sizeL_nonneg (l : List Item) : 0 ≤ sizeL l := Nat.zero_le _

theorem sizeL_append (a b : List Item) : sizeL (a ++ b) = sizeL a + sizeL b := by
  induction a with
  | nil => simp [sizeL]
  | cons x xs ih => simp [sizeL, ih]; omega

theorem sizeL_take_lt (l : List Item) (k : Nat) (h : k < l.length) : sizeL (l.take k) < sizeL l := by
  induction l generalizing k with
  | nil => simp at h
  | cons x xs ih =>
    cases k with
    | zero => simp [sizeL]; have := Item.size_pos x; omega
    | succ k =>
      simp [List.take, sizeL]
      have := ih k (by simpa using h)
      omega

theorem sizeL_take_add_drop (l : List Item) (k : Nat) : sizeL (l.take k) + sizeL (l.drop k) = sizeL l := by
  rw [← sizeL_append, List.take_append_drop]

theorem sizeL_pos_of_ne_nil (l : List Item) (h : l ≠ []) : 0 < sizeL l := by
  cases l with
  | nil => exact absurd rfl h
  | cons x xs => simp [sizeL]; have := Item.size_pos x; omega

/-- dropping the batches between position `k` and the last one shrinks the work -/
theorem sizeL_cancel_lt (l : List Item) (k : Nat) (h : k + 1 < l.length) :
    sizeL (l.take k ++ l.drop (l.length - 1)) < sizeL l := by
  have h1 := sizeL_take_add_drop l k
  have h2 := sizeL_take_add_drop (l.drop k) (l.length - 1 - k)
  have h3 : (l.drop k).drop (l.length - 1 - k) = l.drop (l.length - 1) := by
    rw [List.drop_drop]; congr 1; omega
  have h4 : (l.drop k).take (l.length - 1 - k) ≠ [] := by
    intro hc
    have := congrArg List.length hc
    simp at this
    omega
  have h5 := sizeL_pos_of_ne_nil _ h4
  rw [h3] at h2
  rw [sizeL_append]
  omega

theorem sumTo_congr (n : Nat) (f g : Nat → Nat) (h : ∀ i, i < n → f i = g i) : sumTo n f = sumTo n g := by
  induction n with
  | zero => rfl
  | succ n ih =>
    simp only [sumTo]
    rw [ih (fun i hi => h i (by omega)), h n (by omega)]

/-- replacing stage `i` changes the sum by the difference of the weights -/
theorem sumTo_upd (n : Nat) (f : Nat → Stg) (i : Nat) (s : Stg) (hi : i < n) :
    sumTo n (fun j => (upd f i s j).weight) + (f i).weight = sumTo n (fun j => (f j).weight) + s.weight := by
  induction n with
  | zero => omega
  | succ n ih =>
    simp only [sumTo]
    by_cases h : i = n
    · subst h
      have : sumTo i (fun j => (upd f i s j).weight) = sumTo i (fun j => (f j).weight) :=
        sumTo_congr _ _ _ (fun j hj => by
          have : j ≠ i := by omega
          simp [upd, this])
      rw [this]; simp [upd]; omega
    · have := ih (by omega)
      have hn : (upd f i s n).weight = (f n).weight := by
        have : n ≠ i := by omega
        simp [upd, this]
      rw [hn]; omega

theorem weight_recv_le (s : Stg) (it : Item) (hb : s.buf = []) :
    (s.recv it).weight + 1 ≤ s.weight + it.size := by
  cases it with
  | mk err kids =>
    simp only [Stg.recv, Item.size]
    by_cases h1 : s.stopped = true
    · simp [h1]
    · by_cases h2 : err = true
      · simp [h1, h2, Stg.weight, hb, sizeL]; omega
      · simp [h1, h2, Stg.weight, hb, sizeL]; omega

theorem weight_onClose (s : Stg) (hb : s.buf = []) (hc : s.inClosed = false) :
    s.onClose.weight + 1 = s.weight := by
  simp only [Stg.onClose]
  by_cases h1 : s.stopped = true
  · simp [h1, Stg.weight, hb, hc]; omega
  · simp [h1, Stg.weight, hb, hc, sizeL]; omega

theorem weight_setBuf (s : Stg) (it : Item) (rest : List Item) (hb : s.buf = it :: rest) :
    (s.setBuf rest).weight + it.size = s.weight := by
  unfold Stg.weight Stg.setBuf
  simp only [hb, sizeL]
  omega

theorem weight_closeOut (s : Stg) (hc : s.outClosed = false) : s.closeOut.weight + 1 = s.weight := by
  unfold Stg.weight Stg.closeOut
  simp only [hc]
  simp

/-- **every move decreases the measure** -/
theorem step_measure {S S' : Sys} (h : Step S S') : S'.measure < S.measure := by
  cases h with
  | srcSend it rest hs hn hr =>
    have hw := weight_recv_le (S.stg 0) it hr.1
    have hu := sumTo_upd S.n S.stg 0 ((S.stg 0).recv it) hn
    simp only [Sys.measure, hs, sizeL]
    omega
  | cancel k hk =>
    have := sizeL_cancel_lt S.src k hk
    simp only [Sys.measure]; omega
  | srcClose hs hc =>
    simp [Sys.measure, hc]
  | seeClose i hi hr hu =>
    have hw := weight_onClose (S.stg i) hr.1 hr.2.1
    have hu := sumTo_upd S.n S.stg i (S.stg i).onClose hi
    simp only [Sys.measure]; omega
  | send i it rest hi hb hr =>
    have hw := weight_recv_le (S.stg (i + 1)) it hr.1
    have h1 := sumTo_upd S.n S.stg i ((S.stg i).setBuf rest) (by omega)
    have h2 := sumTo_upd S.n (upd S.stg i ((S.stg i).setBuf rest)) (i + 1) ((S.stg (i + 1)).recv it) hi
    have h3 : (upd S.stg i ((S.stg i).setBuf rest) (i + 1)) = S.stg (i + 1) := by simp [upd]
    rw [h3] at h2
    have h4 := weight_setBuf (S.stg i) it rest hb
    simp only [Sys.measure]; omega
  | sendLast i it rest hi hb =>
    have h1 := sumTo_upd S.n S.stg i ((S.stg i).setBuf rest) (by omega)
    have h4 := weight_setBuf (S.stg i) it rest hb
    have := Item.size_pos it
    simp only [Sys.measure]; omega
  | close i hi hb hc hs =>
    have h1 := sumTo_upd S.n S.stg i (S.stg i).closeOut hi
    have h4 := weight_closeOut (S.stg i) hc
    simp only [Sys.measure]; omega

theorem recv_props (s : Stg) (it : Item) :
    (s.recv it).inClosed = s.inClosed ∧ (s.recv it).outClosed = s.outClosed ∧ (s.recv it).drains = s.drains := by
  cases it with
  | mk err kids =>
    simp only [Stg.recv]
    by_cases h1 : s.stopped = true
    · simp [h1]
    · by_cases h2 : err = true <;> simp [h1, h2]

theorem onClose_props (s : Stg) :
    s.onClose.inClosed = true ∧ s.onClose.outClosed = s.outClosed ∧ s.onClose.drains = s.drains := by
  simp only [Stg.onClose]
  by_cases h1 : s.stopped = true <;> simp [h1]


theorem recv_flags (s : Stg) (it : Item) :
    (s.recv it).inClosed = s.inClosed ∧ (s.recv it).outClosed = s.outClosed ∧ (s.recv it).drains = s.drains ∧
    (s.stopped = true → s.recv it = s) ∧ (s.stopped = true → (s.recv it).stopped = true) := by
  cases it with
  | mk err kids =>
    simp only [Stg.recv]
    by_cases h1 : s.stopped = true
    · simp [h1]
    · by_cases h2 : err = true <;> simp [h1, h2]

theorem onClose_flags (s : Stg) :
    s.onClose.inClosed = true ∧ s.onClose.outClosed = s.outClosed ∧ s.onClose.drains = s.drains ∧
    s.onClose.stopped = s.stopped ∧ (s.stopped = true → s.onClose.buf = s.buf) := by
  simp only [Stg.onClose]
  by_cases h1 : s.stopped = true <;> simp [h1]

/-- a stage at its receive whose output is already closed is a stopped one: receiving leaves it as it is -/
theorem recv_of_closed {S : Sys} (hI : Inv S) {i : Nat} (hi : i < S.n) (hr : (S.stg i).ready) (it : Item)
    (ho : (S.stg i).outClosed = true) : (S.stg i).recv it = S.stg i := by
  have := hI.outStop i hi ho
  have hc := hr.2.1
  rcases this with h | h
  · exact (recv_flags _ it).2.2.2.1 h
  · rw [hc] at h; cases h

/-- **the invariant is kept by every move** -/
theorem step_inv {S S' : Sys} (hI : Inv S) (h : Step S S') : Inv S' := by
  cases h with
  | srcSend it rest hs hn hr =>
    have hf := recv_flags (S.stg 0) it
    refine ⟨hI.pos, ?_, ?_, ?_, ?_, ?_, ?_⟩
    · intro i hi ho
      by_cases h0 : i = 0
      · subst h0
        simp only [upd, if_true] at ho ⊢
        rw [hf.2.1] at ho
        rw [recv_of_closed hI hn hr it ho]; exact hr.1
      · simp only [upd, h0, if_false] at ho ⊢; exact hI.closedEmpty i hi ho
    · intro i hi ho
      by_cases h0 : i = 0
      · subst h0
        simp only [upd, if_true] at ho ⊢
        rw [hf.2.1] at ho
        rw [recv_of_closed hI hn hr it ho]; exact hI.outStop 0 hn ho
      · simp only [upd, h0, if_false] at ho ⊢; exact hI.outStop i hi ho
    · intro i hi hc
      have h1 : i + 1 ≠ 0 := by omega
      simp only [upd, h1, if_false] at hc
      by_cases h0 : i = 0
      · subst h0; simp only [upd, if_true]; rw [hf.2.1]; exact hI.inAfterOut 0 hi hc
      · simp only [upd, h0, if_false]; exact hI.inAfterOut i hi hc
    · intro hc
      simp only [upd, if_true] at hc
      rw [hf.1] at hc
      exact hI.in0 hc
    · intro hc
      have := hI.srcEmpty hc
      rw [hs] at this; cases this
    · intro i hi
      by_cases h0 : i = 0
      · subst h0; simp only [upd, if_true]; rw [hf.2.2.1]; exact hI.drains 0 hn
      · simp only [upd, h0, if_false]; exact hI.drains i hi
  | cancel k hk =>
    refine ⟨hI.pos, hI.closedEmpty, hI.outStop, hI.inAfterOut, hI.in0, ?_, hI.drains⟩
    intro hc
    have := hI.srcEmpty hc
    rw [this] at hk
    simp at hk
  | srcClose hs hc =>
    exact ⟨hI.pos, hI.closedEmpty, hI.outStop, hI.inAfterOut, fun _ => rfl, fun _ => hs, hI.drains⟩
  | seeClose i hi hr hu =>
    have hf := onClose_flags (S.stg i)
    refine ⟨hI.pos, ?_, ?_, ?_, ?_, hI.srcEmpty, ?_⟩
    · intro j hj ho
      by_cases h0 : j = i
      · subst h0
        simp only [upd, if_true] at ho ⊢
        rw [hf.2.1] at ho
        have := hI.outStop j hj ho
        rcases this with h | h
        · rw [hf.2.2.2.2 h]; exact hr.1
        · rw [hr.2.1] at h; cases h
      · simp only [upd, h0, if_false] at ho ⊢; exact hI.closedEmpty j hj ho
    · intro j hj ho
      by_cases h0 : j = i
      · subst h0
        simp only [upd, if_true] at ho ⊢
        exact Or.inr hf.1
      · simp only [upd, h0, if_false] at ho ⊢; exact hI.outStop j hj ho
    · intro j hj hc
      have goal : (S.stg j).outClosed = true := by
        by_cases h1 : j + 1 = i
        · subst h1; exact hu
        · simp only [upd, h1, if_false] at hc; exact hI.inAfterOut j hj hc
      by_cases h0 : j = i
      · subst h0; simp only [upd, if_true]; rw [hf.2.1]; exact goal
      · simp only [upd, h0, if_false]; exact goal
    · intro hc
      by_cases h0 : i = 0
      · subst h0; exact hu
      · have : (0 : Nat) ≠ i := fun h => h0 h.symm
        simp only [upd, this, if_false] at hc; exact hI.in0 hc
    · intro j hj
      by_cases h0 : j = i
      · subst h0; simp only [upd, if_true]; rw [hf.2.2.1]; exact hI.drains j hj
      · simp only [upd, h0, if_false]; exact hI.drains j hj
  | send i it rest hi hb hr =>
    have hf := recv_flags (S.stg (i + 1)) it
    have hne : i ≠ i + 1 := by omega
    -- the sender's output is open (its buffer is not empty)
    have hopen : (S.stg i).outClosed = false := by
      cases h : (S.stg i).outClosed with
      | false => rfl
      | true => have := hI.closedEmpty i (by omega) h; rw [hb] at this; cases this
    have get : ∀ j, (upd (upd S.stg i ((S.stg i).setBuf rest)) (i + 1) ((S.stg (i + 1)).recv it)) j =
        if j = i + 1 then (S.stg (i + 1)).recv it else if j = i then (S.stg i).setBuf rest else S.stg j := by
      intro j; simp only [upd]
    refine ⟨hI.pos, ?_, ?_, ?_, ?_, hI.srcEmpty, ?_⟩
    · intro j hj ho
      simp only [get] at ho ⊢
      by_cases h1 : j = i + 1
      · subst h1
        simp only [if_true] at ho ⊢
        rw [hf.2.1] at ho
        rw [recv_of_closed hI hi hr it ho]; exact hr.1
      · by_cases h2 : j = i
        · subst h2
          simp only [h1, if_false, if_true, Stg.setBuf] at ho
          rw [hopen] at ho; cases ho
        · simp only [h1, h2, if_false] at ho ⊢; exact hI.closedEmpty j hj ho
    · intro j hj ho
      simp only [get] at ho ⊢
      by_cases h1 : j = i + 1
      · subst h1
        simp only [if_true] at ho ⊢
        rw [hf.2.1] at ho
        rw [recv_of_closed hI hi hr it ho]; exact hI.outStop _ hi ho
      · by_cases h2 : j = i
        · subst h2
          simp only [h1, if_false, if_true, Stg.setBuf] at ho
          rw [hopen] at ho; cases ho
        · simp only [h1, h2, if_false] at ho ⊢; exact hI.outStop j hj ho
    · intro j hj hc
      simp only [get] at hc ⊢
      have hcj : (S.stg (j + 1)).inClosed = true := by
        by_cases h1 : j + 1 = i + 1
        · simp only [h1, if_true] at hc; rw [hf.1] at hc; rw [h1]; exact hc
        · by_cases h2 : j + 1 = i
          · rw [h2] at hc ⊢; simp only [hne, if_false, if_true, Stg.setBuf] at hc; exact hc
          · simp only [h1, h2, if_false] at hc; exact hc
      have := hI.inAfterOut j hj hcj
      by_cases h1 : j = i + 1
      · subst h1; simp only [if_true]; rw [hf.2.1]; exact this
      · by_cases h2 : j = i
        · subst h2; simp only [h1, if_false, if_true, Stg.setBuf]; exact this
        · simp only [h1, h2, if_false]; exact this
    · intro hc
      simp only [get] at hc
      have h1 : (0 : Nat) ≠ i + 1 := by omega
      by_cases h2 : 0 = i
      · subst h2; simp only [h1, if_false, if_true, Stg.setBuf] at hc; exact hI.in0 hc
      · simp only [h1, h2, if_false] at hc; exact hI.in0 hc
    · intro j hj
      simp only [get]
      by_cases h1 : j = i + 1
      · subst h1; simp only [if_true]; rw [hf.2.2.1]; exact hI.drains _ hi
      · by_cases h2 : j = i
        · subst h2; simp only [h1, if_false, if_true, Stg.setBuf]; exact hI.drains j hj
        · simp only [h1, h2, if_false]; exact hI.drains j hj
  | sendLast i it rest hi hb =>
    have hopen : (S.stg i).outClosed = false := by
      cases h : (S.stg i).outClosed with
      | false => rfl
      | true => have := hI.closedEmpty i (by omega) h; rw [hb] at this; cases this
    refine ⟨hI.pos, ?_, ?_, ?_, ?_, hI.srcEmpty, ?_⟩
    · intro j hj ho
      by_cases h2 : j = i
      · subst h2; simp only [upd, if_true, Stg.setBuf] at ho; rw [hopen] at ho; cases ho
      · simp only [upd, h2, if_false] at ho ⊢; exact hI.closedEmpty j hj ho
    · intro j hj ho
      by_cases h2 : j = i
      · subst h2; simp only [upd, if_true, Stg.setBuf] at ho; rw [hopen] at ho; cases ho
      · simp only [upd, h2, if_false] at ho ⊢; exact hI.outStop j hj ho
    · intro j hj hc
      have hcj : (S.stg (j + 1)).inClosed = true := by
        by_cases h2 : j + 1 = i
        · simp only [upd, h2, if_true, Stg.setBuf] at hc; rw [h2]; exact hc
        · simp only [upd, h2, if_false] at hc; exact hc
      have := hI.inAfterOut j hj hcj
      by_cases h2 : j = i
      · subst h2; simp only [upd, if_true, Stg.setBuf]; exact this
      · simp only [upd, h2, if_false]; exact this
    · intro hc
      by_cases h2 : 0 = i
      · subst h2; simp only [upd, if_true, Stg.setBuf] at hc; exact hI.in0 hc
      · simp only [upd, h2, if_false] at hc; exact hI.in0 hc
    · intro j hj
      by_cases h2 : j = i
      · subst h2; simp only [upd, if_true, Stg.setBuf]; exact hI.drains j hj
      · simp only [upd, h2, if_false]; exact hI.drains j hj
  | close i hi hb hc hs =>
    refine ⟨hI.pos, ?_, ?_, ?_, ?_, hI.srcEmpty, ?_⟩
    · intro j hj ho
      by_cases h2 : j = i
      · subst h2; simp only [upd, if_true, Stg.closeOut]; exact hb
      · simp only [upd, h2, if_false] at ho ⊢; exact hI.closedEmpty j hj ho
    · intro j hj ho
      by_cases h2 : j = i
      · subst h2; simp only [upd, if_true, Stg.closeOut]; exact hs
      · simp only [upd, h2, if_false] at ho ⊢; exact hI.outStop j hj ho
    · intro j hj hc'
      have hcj : (S.stg (j + 1)).inClosed = true := by
        by_cases h2 : j + 1 = i
        · simp only [upd, h2, if_true, Stg.closeOut] at hc'; rw [h2]; exact hc'
        · simp only [upd, h2, if_false] at hc'; exact hc'
      have := hI.inAfterOut j hj hcj
      by_cases h2 : j = i
      · subst h2; simp only [upd, if_true, Stg.closeOut]
      · simp only [upd, h2, if_false]; exact this
    · intro hc'
      by_cases h2 : 0 = i
      · subst h2; simp only [upd, if_true, Stg.closeOut] at hc'; exact hI.in0 hc'
      · simp only [upd, h2, if_false] at hc'; exact hI.in0 hc'
    · intro j hj
      by_cases h2 : j = i
      · subst h2; simp only [upd, if_true, Stg.closeOut]; exact hI.drains j hj
      · simp only [upd, h2, if_false]; exact hI.drains j hj


theorem exists_max (P : Nat → Prop) (n : Nat) (h : ∃ i, i < n ∧ P i) :
    ∃ i, i < n ∧ P i ∧ ∀ j, i < j → j < n → ¬ P j := by
  induction n with
  | zero => obtain ⟨i, hi, _⟩ := h; omega
  | succ n ih =>
    by_cases hn : P n
    · exact ⟨n, by omega, hn, fun j h1 h2 => by omega⟩
    · obtain ⟨i, hi, hp⟩ := h
      have hin : i < n := by
        by_cases h' : i = n
        · subst h'; exact absurd hp hn
        · omega
      obtain ⟨m, hm, hpm, hmax⟩ := ih ⟨i, hin, hp⟩
      refine ⟨m, by omega, hpm, fun j h1 h2 => ?_⟩
      by_cases hj : j = n
      · subst hj; exact hn
      · exact hmax j h1 (by omega)

theorem exists_min (P : Nat → Prop) (n : Nat) (h : ∃ i, i < n ∧ P i) :
    ∃ i, i < n ∧ P i ∧ ∀ j, j < i → ¬ P j := by
  induction n with
  | zero => obtain ⟨i, hi, _⟩ := h; omega
  | succ n ih =>
    by_cases hex : ∃ i, i < n ∧ P i
    · obtain ⟨m, hm, hpm, hmin⟩ := ih hex
      exact ⟨m, by omega, hpm, hmin⟩
    · obtain ⟨i, hi, hp⟩ := h
      have hin : i = n := by
        by_cases h' : i < n
        · exact absurd ⟨i, h', hp⟩ hex
        · omega
      subst hin
      exact ⟨i, by omega, hp, fun j hj hpj => hex ⟨j, hj, hpj⟩⟩

/-- **no deadlock**: a state of a pipeline in which every stage keeps its input consumed has a move
    unless everything has terminated -/
theorem progress {S : Sys} (hI : Inv S) (hF : ¬ Final S) : ∃ S', Step S S' := by
  by_cases hA : ∃ i, i < S.n ∧ (S.stg i).buf ≠ []
  · obtain ⟨i, hi, hne, hmax⟩ := exists_max _ _ hA
    obtain ⟨it, rest, hb⟩ : ∃ it rest, (S.stg i).buf = it :: rest := by
      cases h : (S.stg i).buf with
      | nil => exact absurd h hne
      | cons a b => exact ⟨a, b, rfl⟩
    by_cases hl : i + 1 = S.n
    · exact ⟨_, Step.sendLast S i it rest hl hb⟩
    · have hi1 : i + 1 < S.n := by omega
      have hbe : (S.stg (i + 1)).buf = [] := by
        by_cases h : (S.stg (i + 1)).buf = []
        · exact h
        · exact absurd h (hmax (i + 1) (by omega) hi1)
      have hnc : (S.stg (i + 1)).inClosed = false := by
        cases h : (S.stg (i + 1)).inClosed with
        | false => rfl
        | true =>
          have h1 := hI.inAfterOut i hi1 h
          have h2 := hI.closedEmpty i hi h1
          rw [hb] at h2; cases h2
      exact ⟨_, Step.send S i it rest hi1 hb ⟨hbe, hnc, Or.inr (hI.drains _ hi1)⟩⟩
  · have hall : ∀ i, i < S.n → (S.stg i).buf = [] := fun i hi => by
      by_cases h : (S.stg i).buf = []
      · exact h
      · exact absurd ⟨i, hi, h⟩ hA
    cases hsrc : S.src with
    | cons it rest =>
      have hnc : (S.stg 0).inClosed = false := by
        cases h : (S.stg 0).inClosed with
        | false => rfl
        | true => have := hI.srcEmpty (hI.in0 h); rw [hsrc] at this; cases this
      exact ⟨_, Step.srcSend S it rest hsrc hI.pos ⟨hall 0 hI.pos, hnc, Or.inr (hI.drains 0 hI.pos)⟩⟩
    | nil =>
      cases hsc : S.srcClosed with
      | false => exact ⟨_, Step.srcClose S hsrc hsc⟩
      | true =>
        have hB : ∃ i, i < S.n ∧ ¬ ((S.stg i).inClosed = true ∧ (S.stg i).outClosed = true) := by
          by_cases h : ∃ i, i < S.n ∧ ¬ ((S.stg i).inClosed = true ∧ (S.stg i).outClosed = true)
          · exact h
          · exfalso
            apply hF
            refine ⟨hsrc, hsc, fun i hi => ⟨hall i hi, ?_⟩⟩
            by_cases h2 : (S.stg i).inClosed = true ∧ (S.stg i).outClosed = true
            · exact h2
            · exact absurd ⟨i, hi, h2⟩ h
        obtain ⟨i, hi, hnd, hmin⟩ := exists_min _ _ hB
        cases hic : (S.stg i).inClosed with
        | false =>
          have hu : S.upClosed i := by
            cases i with
            | zero => exact hsc
            | succ j =>
              have := hmin j (by omega)
              by_cases h2 : (S.stg j).inClosed = true ∧ (S.stg j).outClosed = true
              · exact h2.2
              · exact absurd h2 this
          exact ⟨_, Step.seeClose S i hi ⟨hall i hi, hic, Or.inr (hI.drains i hi)⟩ hu⟩
        | true =>
          have hoc : (S.stg i).outClosed = false := by
            cases h : (S.stg i).outClosed with
            | false => rfl
            | true => exact absurd ⟨hic, h⟩ hnd
          exact ⟨_, Step.close S i hi (hall i hi) hoc (Or.inr hic)⟩

theorem start_inv (n : Nat) (hn : 0 < n) (rows : List Item) (flush : Nat → List Item) :
    Inv (start n rows flush (fun _ => true)) := by
  refine ⟨hn, ?_, ?_, ?_, ?_, ?_, ?_⟩ <;> simp [start]

theorem run_inv {S S' : Sys} (hI : Inv S) (h : Run S S') : Inv S' := by
  induction h with
  | refl => exact hI
  | step hs _ ih => exact ih (step_inv hI hs)

theorem run_measure {S S' : Sys} (h : Run S S') : S'.measure ≤ S.measure := by
  induction h with
  | refl => exact Nat.le_refl _
  | step hs _ ih => have := step_measure hs; omega

theorem run_trans {A B C : Sys} (h1 : Run A B) (h2 : Run B C) : Run A C := by
  induction h1 with
  | refl => exact h2
  | step hs _ ih => exact Run.step hs (ih h2)

/-- from every state of a draining pipeline some schedule reaches the final state -/
theorem reaches_final (S : Sys) (hI : Inv S) : ∃ S', Run S S' ∧ Final S' := by
  generalize hm : S.measure = m
  induction m using Nat.strongRecOn generalizing S with
  | _ m ih =>
    by_cases hF : Final S
    · exact ⟨S, Run.refl S, hF⟩
    · obtain ⟨S1, hs⟩ := progress hI hF
      have hlt := step_measure hs
      obtain ⟨S2, hr, hf⟩ := ih S1.measure (by omega) S1 (step_inv hI hs) rfl
      exact ⟨S2, Run.step hs hr, hf⟩

end Qryn.ReadSide.Pipe
