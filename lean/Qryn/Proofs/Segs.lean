import Qryn.Sql.Segs
import Qryn.Proofs.Escape
namespace Qryn.Sql
open Qryn Qryn.Lex

theorem runSegs_eq_run (q : St) (segs : List Seg) : runSegs q segs = run q (renderSegs segs) := by
  induction segs generalizing q with
  | nil => simp [runSegs, renderSegs, run]
  | cons sg rest ih =>
    simp only [runSegs, renderSegs, List.flatMap_cons, run_append] at ih ⊢
    rw [ih]

theorem eraseS_append (a b : List Ev) : eraseS (a ++ b) = eraseS a ++ eraseS b := by
  simp [eraseS]

theorem eraseS_map_sByte (s : Bytes) : eraseS (s.map .sByte) = [] := by
  induction s with
  | nil => rfl
  | cons c s ih => simp [eraseS]

theorem safeSegs_shape (q : St) (segs : List Seg) : safeSegs q (segs.map Seg.shape) = safeSegs q segs := by
  induction segs generalizing q with
  | nil => rfl
  | cons sg rest ih => cases sg <;> simp [safeSegs, Seg.shape, ih]

/-- Structure invariance at the event level: under a well-formed template the lexer ends in the same
    state and emits the same events, apart from the decoded bytes of the string leaves, whatever the
    string leaves contain. -/
theorem runSegs_shape (q : St) (segs : List Seg) (h : safeSegs q segs = true) :
    (runSegs q segs).1 = (runSegs q (segs.map Seg.shape)).1 ∧
    eraseS (runSegs q segs).2 = eraseS (runSegs q (segs.map Seg.shape)).2 := by
  induction segs generalizing q with
  | nil => simp [runSegs]
  | cons sg rest ih =>
    cases sg with
    | raw b =>
      simp only [safeSegs, Bool.and_eq_true] at h
      have := ih _ h.2
      simp only [runSegs, List.map_cons, Seg.shape, Seg.render, eraseS_append]
      exact ⟨this.1, by rw [this.2]⟩
    | str s =>
      simp only [safeSegs, Bool.and_eq_true] at h
      have := ih _ h.2
      simp only [runSegs, List.map_cons, Seg.shape, Seg.render, run_quote q h.1, eraseS_append,
        eraseS_map_sByte, List.map_nil]
      exact ⟨this.1, by rw [this.2]; simp [eraseS]⟩

end Qryn.Sql

namespace Qryn.Sql
open Qryn Qryn.Lex

theorem assemble_kind (cur : Option Tok) (es : List Ev) :
    (assemble cur es).map Tok.kind = (assemble (cur.map Tok.kind) (eraseS es)).map Tok.kind := by
  induction es generalizing cur with
  | nil => cases cur with
    | none => simp [assemble, eraseS]
    | some t => cases t <;> simp [assemble, eraseS, Tok.kind]
  | cons e es ih =>
    cases e <;> cases cur <;> try (rename_i t; cases t)
    all_goals simp [assemble, eraseS, Tok.kind, ih]

end Qryn.Sql
