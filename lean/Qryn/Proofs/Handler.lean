import Qryn.Ingest.BatcherSpec
/-! Handler level (`doPush` = retry-go loop, `doParse`, status): lemmas for C01. -/
namespace Qryn.Ingest.Batcher

theorem outcome_ne_ok {o : Outcome} : o ≠ .ok ↔ o = .err := by cases o <;> simp

theorem retryFrom_exhausted (out : Nat → Outcome) (n k : Nat) (h : ∀ j, j < n → out (k + j) = .err) :
    retryFrom out n k = (.err, k + n) := by
  induction n generalizing k with
  | zero => rfl
  | succ n ih =>
    have h0 : out k = .err := by simpa using h 0 (Nat.succ_pos n)
    simp only [retryFrom, h0]
    have := ih (k + 1) (fun j hj => by have := h (j + 1) (by omega); rwa [show k + (j + 1) = k + 1 + j by omega] at this)
    simp only [reduceCtorEq, if_false]
    rw [this]; congr 1; omega

theorem retryFrom_ok_iff (out : Nat → Outcome) (n k : Nat) :
    (retryFrom out n k).1 = .ok ↔ ∃ j, j < n ∧ out (k + j) = .ok ∧ ∀ i, i < j → out (k + i) = .err := by
  induction n generalizing k with
  | zero => simp [retryFrom]
  | succ n ih =>
    simp only [retryFrom]
    by_cases h0 : out k = .ok
    · simp only [h0, if_true, true_iff]
      exact ⟨0, Nat.succ_pos n, by simpa using h0, by intro i hi; omega⟩
    · simp only [h0, if_false]
      rw [ih (k + 1)]
      constructor
      · rintro ⟨j, hj, hok, hpre⟩
        refine ⟨j + 1, by omega, by rwa [show k + (j + 1) = k + 1 + j by omega], ?_⟩
        intro i hi
        cases i with
        | zero => simpa using outcome_ne_ok.mp h0
        | succ i => have := hpre i (by omega); rwa [show k + 1 + i = k + (i + 1) by omega] at this
      · rintro ⟨j, hj, hok, hpre⟩
        cases j with
        | zero => simp at hok; exact absurd hok h0
        | succ j =>
          refine ⟨j, by omega, by rwa [show k + 1 + j = k + (j + 1) by omega], ?_⟩
          intro i hi
          have := hpre (i + 1) (by omega)
          rwa [show k + 1 + i = k + (i + 1) by omega]

/-- attempts made when the loop succeeds: one more than the index of the first success -/
theorem retryFrom_attempts_le (out : Nat → Outcome) (n k : Nat) : (retryFrom out n k).2 ≤ k + n := by
  induction n generalizing k with
  | zero => simp [retryFrom]
  | succ n ih =>
    simp only [retryFrom]
    split
    · simp only; omega
    · have := ih (k + 1); omega

theorem all_ok_append (a b : List Outcome) : (a ++ b).all (· == .ok) = (a.all (· == .ok) && b.all (· == .ok)) := by
  simp [List.all_append]

theorem doParse_ok_iff (attempts : Nat) (chunks : List Chunk) (acc : List Outcome) :
    doParse attempts chunks acc = .ok ↔
      (∀ c ∈ chunks, ∃ ps, c = .response ps) ∧ (∀ o ∈ acc, o = .ok) ∧
      ∀ ps, Chunk.response ps ∈ chunks → ∀ p ∈ ps, (doPush attempts p).1 = .ok := by
  induction chunks generalizing acc with
  | nil =>
    simp only [doParse, List.not_mem_nil, false_implies, implies_true, true_and, and_true]
    constructor
    · intro h
      split at h
      · rename_i hall
        simpa [List.all_eq_true] using hall
      · cases h
    · intro h
      have : acc.all (· == .ok) = true := by simpa [List.all_eq_true] using h
      simp [this]
  | cons c rest ih =>
    cases c with
    | error =>
      simp only [doParse, reduceCtorEq, false_iff]
      rintro ⟨h, _⟩
      obtain ⟨ps, hps⟩ := h .error (by simp)
      cases hps
    | response ps =>
      simp only [doParse]
      rw [ih]
      constructor
      · rintro ⟨h1, h2, h3⟩
        refine ⟨?_, ?_, ?_⟩
        · intro c hc
          rcases List.mem_cons.mp hc with rfl | hc
          · exact ⟨ps, rfl⟩
          · exact h1 c hc
        · intro o ho; exact h2 o (List.mem_append.mpr (Or.inl ho))
        · intro ps' hps' p hp
          rcases List.mem_cons.mp hps' with h | h
          · cases h
            exact h2 _ (List.mem_append.mpr (Or.inr (List.mem_map.mpr ⟨p, hp, rfl⟩)))
          · exact h3 ps' h p hp
      · rintro ⟨h1, h2, h3⟩
        refine ⟨fun c hc => h1 c (List.mem_cons_of_mem _ hc), ?_, fun ps' hps' => h3 ps' (List.mem_cons_of_mem _ hps')⟩
        intro o ho
        rcases List.mem_append.mp ho with ho | ho
        · exact h2 o ho
        · obtain ⟨p, hp, rfl⟩ := List.mem_map.mp ho
          exact h3 ps (by simp) p hp

/-- a completed-ok promise splits the trace at its completion -/
theorem resolution_ok_split {evs : List Event} {id : ReqId} (h : resolution evs id = some .ok) :
    ∃ pre post, evs = pre ++ Event.resolved id .ok :: post := by
  induction evs with
  | nil => simp [resolution] at h
  | cons e t ih =>
    cases e with
    | resolved i o =>
      by_cases hi : i = id
      · subst hi
        simp only [resolution, List.findSome?_cons, if_true, Option.some.injEq] at h
        subst h
        exact ⟨[], t, rfl⟩
      · simp only [resolution, List.findSome?_cons, hi, if_false] at h
        obtain ⟨pre, post, hp⟩ := ih h
        exact ⟨_ :: pre, post, by rw [hp]; rfl⟩
    | insert b w o =>
      simp only [resolution, List.findSome?_cons] at h
      obtain ⟨pre, post, hp⟩ := ih h
      exact ⟨_ :: pre, post, by rw [hp]; rfl⟩
    | crash =>
      simp only [resolution, List.findSome?_cons] at h
      obtain ⟨pre, post, hp⟩ := ih h
      exact ⟨_ :: pre, post, by rw [hp]; rfl⟩

end Qryn.Ingest.Batcher
