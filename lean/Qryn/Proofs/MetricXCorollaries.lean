import Qryn.Proofs.MetricXPlan
/-! C08 ext, part 6: what the plan-level theorem of the labelled path gives for the other clauses of the property:
    no entry outside the window contributes; output series are identified by exactly the grouped label set. -/
namespace Qryn.LogQL
open Qryn Qryn.Sql

theorem sortedMatches_inside (o : Oracles) (c : Ctx) (d d' : LokiDb) (q : LogQuery) (h : SameInside d d' c.fromNs c.toNs) :
    sortedMatches o c d q = sortedMatches o c d' q := by
  unfold sortedMatches
  have := matches_inside o c d d' q c.fromNs c.toNs h
  rw [entryMatchesW_window, entryMatchesW_window] at this
  rw [this]

theorem entriesAtJoin_inside (o : Oracles) (c : Ctx) (d d' : LokiDb) (q : LogQuery) (h : SameInside d d' c.fromNs c.toNs) :
    entriesAtJoin o c d q = entriesAtJoin o c d' q := by
  rw [entriesAtJoin_eq, entriesAtJoin_eq, sortedMatches_inside o c d d' q h]
  have hl := labelsOf_congr o c d d' q h.1 h.2.1
  unfold joinEntry
  rw [hl]

/-- the direct reading of the labelled path looks only at the entries inside `[from, to)` -/
theorem evalMetricX_inside (o : Oracles) (c : MCtx) (d d' : LokiDb) (q : MetricQueryX)
    (h : SameInside d d' c.fromNs c.toNs) : evalMetricX o c d q = evalMetricX o c d' q := by
  have he : entriesX o c.toCtx d q.range = entriesX o c.toCtx d' q.range := by
    unfold entriesX; rw [entriesAtJoin_inside o c.toCtx d d' q.range.sel h]
  have hp : ∀ label, entryPtsX o c.toCtx d q.range label = entryPtsX o c.toCtx d' q.range label := by
    intro label
    unfold entryPtsX
    rw [he, limited0, limited0, sortedMatches_inside o c.toCtx d d' q.range.sel h,
      labelsOf_congr o c.toCtx d d' q.range.sel h.1 h.2.1]
  have hr : rangePointsX o c.toCtx d q.range = rangePointsX o c.toCtx d' q.range := by
    unfold rangePointsX
    simp only [he, hp]
  unfold evalMetricX metricPointsX
  rw [hr]

theorem outside_window_irrelevantX (o : Oracles) (c : MCtx) (hn : c.namesOk) (d d' : LokiDb) (q : MetricQueryX)
    (hsup : supportedX q = true) (h : SameInside d d' c.fromNs c.toNs) :
    (evalSelA o (d.toDbM c) (planMetricX c q)).map normRow = (evalSelA o (d'.toDbM c) (planMetricX c q)).map normRow := by
  rw [planMetricX_correct o c hn d q hsup, planMetricX_correct o c hn d' q hsup, evalMetricX_inside o c d d' q h]

/-! ### grouped label sets -/
theorem regroupL_groupedKL (o : Oracles) (g : Grouping) (p : Pt) : GroupedKL o g (regroupL o g p).key (regroupL o g p).labels := by
  unfold regroupL regroup
  cases p.labels with
  | map m => exact Or.inl ⟨m, rfl, rfl⟩
  | _ => exact Or.inr ⟨rfl, rfl⟩

theorem upperX_grouped (o : Oracles) (a : VecOp) (g : Grouping) (hg : a.grouping = g)
    (topk : Option TopOp) (p0 : List Pt) : ∀ p ∈ upperX o (some a) topk p0, GroupedKL o g p.key p.labels := by
  have h1 : ∀ p ∈ cmpStage a.cmp (aggStageX o a p0), GroupedKL o g p.key p.labels := by
    apply cmpStage_labels
    intro p hp
    rw [aggStageX_eq, hg] at hp
    obtain ⟨x, hx, h1, h2⟩ := aggCore_kl _ _ p hp
    obtain ⟨y, _, rfl⟩ := List.mem_map.mp hx
    rw [h1, h2]
    exact regroupL_groupedKL ..
  intro p hp
  unfold upperX at hp
  cases topk with
  | none => exact h1 p hp
  | some t => exact h1 p (topkStage_sub _ _ _ p (cmpStage_labels _ _ (fun x => x ∈ _) (fun x hx => hx) p hp))

theorem output_series_groupedX (o : Oracles) (c : MCtx) (hn : c.namesOk) (d : LokiDb) (q : MetricQueryX) (a : VecOp)
    (g : Grouping) (hsup : supportedX q = true) (ha : q.agg = some a) (hg : a.grouping = g) :
    ∀ r ∈ evalSelA o (d.toDbM c) (planMetricX c q), GroupedKL o g (r.get "fingerprint") (r.get "labels") := by
  intro r hr
  have hmem : normRow r ∈ evalMetricX o c d q := by
    rw [← planMetricX_correct o c hn d q hsup]
    exact List.mem_map_of_mem hr
  unfold evalMetricX at hmem
  rw [metricPointsX_eq, ha] at hmem
  have hr' := (mem_sortBy _ _ _).mp hmem
  obtain ⟨p, hp, he⟩ := List.mem_map.mp hr'
  have hkl := stepStage_pred _ _ _ (GroupedKL o g) (upperX_grouped o a g hg q.topk _) p hp
  have h1 : (normRow r).get "fingerprint" = p.key := by rw [← he]; simp [Pt.row, get_cons]
  have h2 : (normRow r).get "labels" = p.labels := by rw [← he]; simp [Pt.row, get_cons]
  rw [normRow_get _ _ (by decide)] at h1 h2
  rw [h1, h2]
  exact hkl

end Qryn.LogQL
