import Qryn.Http.AuthConfig
/-! Lemmas about plans of independent overrides (`Qryn.Http.AuthConfig`), for every plan of that shape, every
environment and every byte string. -/
namespace Qryn.Http.AuthConfig
open Qryn Qryn.Http

theorem Creds.get_set (c : Creds) (g f : Field) (b : Bytes) :
    (c.set g b).get f = if g = f then b else c.get f := by
  cases g <;> cases f <;> simp [Creds.set, Creds.get]

theorem Creds.ext' {a b : Creds} (hu : a.get .user = b.get .user) (hp : a.get .pass = b.get .pass) : a = b := by
  cases a; cases b; simp [Creds.get] at hu hp; simp [hu, hp]

theorem getenv_update (env : Env) (v : String) (x : Option Bytes) (w : String) :
    getenv (env.update v x) w = if w = v then x.getD [] else getenv env w := by
  unfold getenv Env.update; split <;> rfl

/-- an empty-but-set variable reads like an unset one -/
theorem getenv_update_empty (env : Env) (v w : String) :
    getenv (env.update v (some [])) w = getenv (env.update v none) w := by
  simp [getenv_update]

theorem override?_some {s : Stmt} {k : String} {f : Field} (h : s.override? = some (k, f)) :
    s = ⟨.nonEmpty (.env k), [(f, .env k)]⟩ := by
  obtain ⟨g, as⟩ := s
  unfold Stmt.override? at h
  split at h
  · rename_i k₁ f₁ k₂ hg ha
    simp only at hg ha
    split at h
    · rename_i hk
      simp only [Option.some.injEq, Prod.mk.injEq] at h
      obtain ⟨rfl, rfl⟩ := h
      subst hk; subst hg; subst ha; rfl
    · exact absurd h (by simp)
  · exact absurd h (by simp)

/-- one independent override: the field takes the variable's value iff that value is non-empty -/
theorem run_override {s : Stmt} {k : String} {f : Field} (h : s.override? = some (k, f)) (env : Env) (c : Creds) :
    s.run env c = if getenv env k ≠ [] then c.set f (getenv env k) else c := by
  rw [override?_some h]
  simp [Stmt.run, Cond.eval, Val.eval]

theorem lastNonEmpty_cons (base x : Bytes) (xs : List Bytes) :
    lastNonEmpty base (x :: xs) = lastNonEmpty (if x ≠ [] then x else base) xs := by
  simp [lastNonEmpty]

/-- **the effective value of a field under a plan of independent overrides** = the last non-empty one of: what the
    configuration file gave, then the values of the overriding variables in program order -/
theorem runPlan_get (env : Env) (f : Field) : ∀ (plan : List Stmt) (c : Creds), allOverrides plan = true →
    (runPlan env plan c).get f = lastNonEmpty (c.get f) ((sources plan f).map (getenv env)) := by
  intro plan
  induction plan with
  | nil => intro c _; rfl
  | cons s rest ih =>
    intro c h
    simp only [allOverrides, List.all_cons, Bool.and_eq_true] at h
    obtain ⟨hs, hr⟩ := h
    obtain ⟨⟨k, g⟩, hk⟩ := Option.isSome_iff_exists.mp hs
    have hrun : runPlan env (s :: rest) c = runPlan env rest (s.run env c) := rfl
    rw [hrun, ih (s.run env c) (by simpa [allOverrides] using hr), run_override hk]
    have hsrc : sources (s :: rest) f = if g = f then k :: sources rest f else sources rest f := by
      by_cases hgf : g = f <;> simp [sources, hk, hgf]
    rw [hsrc]
    by_cases hgf : g = f
    · subst hgf
      simp only [if_true, List.map_cons, lastNonEmpty_cons]
      by_cases hne : getenv env k ≠ []
      · simp [hne, Creds.get_set]
      · simp [hne]
    · simp only [hgf, if_false]
      by_cases hne : getenv env k ≠ []
      · simp [hne, Creds.get_set, hgf]
      · simp [hne]

/-- the last non-empty candidate is non-empty iff some candidate is -/
theorem lastNonEmpty_ne_nil (xs : List Bytes) : ∀ base : Bytes,
    lastNonEmpty base xs ≠ [] ↔ base ≠ [] ∨ ∃ x ∈ xs, x ≠ [] := by
  induction xs with
  | nil => intro base; simp [lastNonEmpty]
  | cons x xs ih =>
    intro base
    rw [lastNonEmpty_cons, ih]
    by_cases hx : x = []
    · subst hx; simp
    · simp [hx]

/-- the last non-empty candidate is one of the candidates -/
theorem lastNonEmpty_mem (xs : List Bytes) : ∀ base : Bytes, lastNonEmpty base xs = base ∨ lastNonEmpty base xs ∈ xs := by
  induction xs with
  | nil => intro base; exact .inl rfl
  | cons x xs ih =>
    intro base
    rw [lastNonEmpty_cons]
    rcases ih (if x ≠ [] then x else base) with h | h
    · rw [h]
      by_cases hx : x ≠ []
      · simp [hx]
      · simp [hx]
    · exact .inr (List.mem_cons_of_mem _ h)

/-- the standard guard installs the middleware with the two fields iff both are non-empty -/
theorem stdInstall_eval (env : Env) (c : Creds) :
    stdInstall.eval env c = if c.user ≠ [] ∧ c.pass ≠ [] then some (c.user, c.pass) else none := by
  simp only [Install.eval, stdInstall, Cond.eval, Val.eval, Creds.get]
  by_cases hu : c.user = [] <;> by_cases hp : c.pass = [] <;> simp [hu, hp]

end Qryn.Http.AuthConfig
