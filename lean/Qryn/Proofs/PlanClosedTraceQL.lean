import Qryn.Proofs.WfBuild
import Qryn.TraceQL.Planner
/-! C10: the atoms of the TraceQL planner model (`plan`, `planTags`, `planValues`) are well formed (`wfSel`) for
    every context and every script the planner accepts. Attribute names and values, regular expressions, the key of
    an aggregated attribute, the tag of a values request are string leaves (escaped); number literals, durations,
    limits, bit-set constants, operand numbers and prefixes are numbers (digits, at most a leading minus). -/
namespace Qryn.TraceQL
open Qryn Qryn.Sql Qryn.Lex

/-- what is assumed of the context: table names are closed text (configuration); the cached trace ids of a complex
    request portion — hex strings read back from the database, second-order text — contain no quote or backslash -/
structure CtxOK (c : Ctx) : Prop where
  attrs : rawE (b c.attrsTable) = true
  attrsDist : rawE (b c.attrsDistTable) = true
  traces : rawE (b c.tracesTable) = true
  tracesDist : rawE (b c.tracesDistTable) = true
  cached : ∀ t ∈ c.cached, (b t).all litSafe = true

theorem kw_cmp (op : Op) (fn : String) (h : cmpSql op = some fn) : rawC (b " " ++ b fn ++ b " ") = true := by
  cases op <;> simp [cmpSql] at h <;> subst h <;> decide +kernel

theorem wf_keyIs (k : String) : wfExpr (keyIs k) = true := by
  simp only [keyIs, eq, wfExpr, wfExprs, Bool.and_true, Bool.and_eq_true]; decide +kernel

theorem b_minus : b "-" = [45] := by decide +kernel

theorem digitsText_word (ds : List Nat) : allWord (b (digitsText ds)) = true := allWord_joinNats ds

theorem rawE_numText (n : Num) : rawE (b (numText n)) = true := by
  unfold numText
  have hw : allWord (natDigits (natOfDigits n.int) ++ (b "." ++ b (digitsText ((n.frac ++ List.replicate 6 0).take 6)))) = true :=
    allWord_append (allWord_natDigits _) (allWord_append (by rw [b_dot]; decide) (digitsText_word _))
  have hne : natDigits (natOfDigits n.int) ++ (b "." ++ b (digitsText ((n.frac ++ List.replicate 6 0).take 6))) ≠ [] := by
    intro h; exact natDigits_ne_nil _ (List.append_eq_nil_iff.mp h).1
  simp only [b_append, List.append_assoc]
  cases n.neg
  · simp only [Bool.false_eq_true, if_false, b_empty, List.nil_append]
    exact rawE_word hw
  · simp only [if_true, b_minus]
    exact rawE_minus_word hw hne

theorem rawE_intText_word (i : Int) (w : Bytes) (hw : allWord w = true) : rawE (intText i ++ w) = true := by
  rw [intText_eq]
  by_cases h : i < 0
  · simp only [h, if_true]
    exact rawE_minus_word (allWord_append (allWord_natDigits _) hw)
      (fun h0 => natDigits_ne_nil _ (List.append_eq_nil_iff.mp h0).1)
  · simp only [h, if_false]
    exact rawE_word (allWord_append (allWord_natDigits _) hw)

/-! ### terms -/
theorem wf_termSql (t : Term) (e : Expr) (h : termSql t = .ok e) : wfExpr e = true := by
  have hstr : ∀ k, termStr t k = .ok e → wfExpr e = true := by
    intro k hs
    unfold termStr at hs
    cases hg : getString t.val with
    | error m => simp [hg, bind, Except.bind] at hs
    | ok s =>
      have hk := wf_keyIs k
      cases hop : t.op <;> simp [hg, hop, bind, Except.bind, pure, Except.pure] at hs <;> subst hs <;>
        simp only [and_, eq, neq, wfExpr, wfExprs, hk, Bool.and_true, Bool.and_eq_true] <;> decide +kernel
  have hnum : ∀ k n, termNum t k n = .ok e → wfExpr e = true := by
    intro k n hs
    unfold termNum at hs
    cases hc : cmpSql t.op with
    | none => simp [hc] at hs
    | some fn =>
      simp [hc, pure, Except.pure] at hs
      subst hs
      have hk := wf_keyIs k
      have hfn := kw_cmp t.op fn hc
      have hn := rawE_numText n
      simp only [and_, eq, wfExpr, wfExprs, hk, hfn, hn, Bool.and_true, Bool.and_eq_true]
      decide +kernel
  have hkey : ∀ k, (match t.val with
      | .str _ _ => termStr t k | .num n => termNum t k n | .dur _ _ => throw "unsupported statement") = .ok e → wfExpr e = true := by
    intro k hk
    cases hv : t.val with
    | str raw unq => simp only [hv] at hk; exact hstr k hk
    | num n => simp only [hv] at hk; exact hnum k n hk
    | dur n u => simp [hv, throw, throwThe, MonadExceptOf.throw] at hk
  unfold termSql at h
  cases hk : attrKey t.label with
  | some k => simp only [hk] at h; exact hkey k h
  | none =>
    simp only [hk] at h
    by_cases hd : t.label = "duration"
    · simp only [hd, if_true] at h
      unfold termDuration at h
      cases hv : t.val with
      | dur n u =>
        simp only [hv] at h
        cases hp : parseDuration n (some u) with
        | error m => simp [hp, bind, Except.bind] at h
        | ok ns =>
          cases hc : cmpSql t.op with
          | none => simp [hp, hc, bind, Except.bind] at h
          | some fn =>
            simp [hp, hc, bind, Except.bind, pure, Except.pure] at h
            subst h
            have hfn := kw_cmp t.op fn hc
            simp only [wfExpr, wfExprs, hfn, rawE_intText, Bool.and_true, Bool.true_and]
            decide +kernel
      | num n => simp [hv, throw, throwThe, MonadExceptOf.throw] at h
      | str raw unq => simp [hv, throw, throwThe, MonadExceptOf.throw] at h
    · simp only [hd, if_false] at h
      by_cases hn : t.label = "name"
      · simp only [hn, if_true] at h; exact hkey "name" h
      · simp [hn, throw, throwThe, MonadExceptOf.throw] at h

theorem wf_mapOk : ∀ (ts : List Term) (es : List Expr), mapOk termSql ts = .ok es → wfExprs es = true
  | [], es, h => by simp [mapOk] at h; subst h; simp [wfExprs]
  | t :: ts, es, h => by
    simp only [mapOk] at h
    cases ht : termSql t with
    | error m => simp [ht] at h
    | ok e =>
      cases hts : mapOk termSql ts with
      | error m => simp [ht, hts] at h
      | ok es' =>
        simp [ht, hts] at h
        subst h
        simp [wfExprs, wf_termSql t e ht, wf_mapOk ts es' hts]

theorem kw_shiftCloseT : rawC (b "),") = true := by decide +kernel

theorem wfShiftT_of : ∀ (i : Nat) (cs : List Expr), wfExprs cs = true → wfShiftT i cs = true
  | _, [], _ => by simp [wfShiftT]
  | i, o :: os, h => by
    simp only [wfExprs, Bool.and_eq_true] at h
    have hr : rawC (b ")," ++ natDigits i ++ b ")") = true := rawC_wrap kw_shiftCloseT (rawE_natDigits i) kw_close
    simp only [wfShiftT, h.1, hr, wfShiftT_of (i + 1) os h.2, Bool.and_self]

theorem wf_condSql (es : List Expr) (hes : wfExprs es = true) : ∀ (c : Cond) (al : Bool), wfExpr (condSql es al c).1 = true
  | .leaf i, al => by
    have hs := wfShiftT_of 0 es hes
    cases al <;>
      simp only [condSql, neq, wfExpr, wfExprs, hs, rawE_intText, if_true, if_false, Bool.false_eq_true, Bool.and_true,
        Bool.true_and, Bool.and_eq_true] <;> decide +kernel
  | .node op l r, al => by
    have h1 := wf_condSql es hes l al
    have h2 := wf_condSql es hes r (condSql es al l).2
    cases op <;> simp only [condSql, wfExpr_and, wfExpr_or, wfExprs, h1, h2, Bool.and_self]

theorem wf_initIndex (c : Ctx) (h : CtxOK c) : wfSel (initIndex c) = true := by
  simp only [initIndex, simpleCol, and_, ge, le, lt, wfSel, wfWiths, wfSelBody, wfExprs, wfExpr, wfJoins, h.attrs, rawE_intText,
    Bool.and_eq_true, Bool.and_true, Bool.true_and]
  decide +kernel

theorem wf_aggCol (a : String) : wfExprs (aggCol a) = true := by
  unfold aggCol; split
  · simp [wfExprs]
  · split <;> simp only [wfExprs, wfExpr, Bool.and_true, Bool.and_eq_true] <;> decide +kernel

theorem wf_aggWhere (a : String) : wfExprs (aggWhere a) = true := by
  unfold aggWhere; split
  · simp [wfExprs]
  · split
    · simp [wfExprs]
    · simp only [wfExprs, wf_keyIs, Bool.and_self]

theorem b_unhexOpen : b "unhex('" = b "unhex(" ++ [39] := by decide +kernel
theorem b_quoteClose : b "')" = [39] ++ b ")" := by decide +kernel
theorem kw_unhex : rawC (b "unhex(") = true := by decide +kernel

/-- `unhex('<t>')` for a quote- and backslash-free `t` -/
theorem rawE_unhex (t : String) (ht : (b t).all litSafe = true) : rawE (b ("unhex('" ++ t ++ "')")) = true := by
  rw [rawE_iff]
  intro q hq
  have hs : ∀ c ∈ b t, litSafe c = true := by simpa using ht
  have h1 := ((rawC_iff _).mp kw_unhex).2 q (ground_entry hq)
  have h2 := run_rawQuoted (run q (b "unhex(")).1 (ground_safe h1) (b t) hs
  have : b ("unhex('" ++ t ++ "')") = b "unhex(" ++ ((39 :: b t ++ [39]) ++ b ")") := by
    simp only [b_append, b_unhexOpen, b_quoteClose]; simp
  have hf : ∀ (q : St) (x y : Bytes), (run q (x ++ y)).1 = (run (run q x).1 y).1 := fun q x y => by rw [run_append]
  rw [this, hf, hf, h2]
  show (run .strQ (b ")")).1.entry = true
  decide +kernel

theorem kw_cityHash : rawC (b "cityHash64(trace_id) % ") = true := by decide +kernel

theorem wf_randomFilter (c : Ctx) (h : CtxOK c) : wfExprs (randomFilter c) = true := by
  have hhash : wfExpr (eq (.raw ("cityHash64(trace_id) % " ++ toString c.rndMax)) (.int c.rndI)) = true := by
    have : rawE (b ("cityHash64(trace_id) % " ++ toString c.rndMax)) = true := by
      rw [b_append]; exact rawC_appE kw_cityHash (rawE_intText c.rndMax)
    simp only [eq, wfExpr, wfExprs, this, rawE_intText, Bool.and_true, Bool.true_and]
    decide +kernel
  unfold randomFilter
  simp only
  split
  · have hall : wfExprs (c.cached.map (fun t => Expr.raw ("unhex('" ++ t ++ "')"))) = true := by
      rw [wfExprs_eq_all, List.all_map, List.all_eq_true]
      intro t ht
      simp only [Function.comp, wfExpr]
      exact rawE_unhex t (h.cached t ht)
    simp only [wfExprs, wfExpr_or, hhash, wfExpr, hall, Bool.and_true, Bool.true_and]
    decide +kernel
  · split
    · simp only [wfExprs, hhash, Bool.and_self]
    · simp [wfExprs]

theorem wf_attrCondition (c : Ctx) (hc : CtxOK c) (terms : List Term) (cond : Cond) (aggAttr : String) (S : Sel)
    (h : attrCondition c terms cond aggAttr = .ok S) : wfSel S = true := by
  obtain ⟨_, h⟩ := attrCondition_core h
  unfold attrConditionCore at h
  cases hm : mapOk termSql terms with
  | error e => simp [hm, bind, Except.bind] at h
  | ok es =>
    have hes := wf_mapOk terms es hm
    simp only [hm, bind, Except.bind, pure, Except.pure, Except.ok.injEq] at h
    have hbase : wfSel ((((initIndex c).addCols (aggCol aggAttr)).andWhere [or_ (es ++ aggWhere aggAttr)]).andHaving
        [(condSql es false cond).1]) = true := by
      refine wfSel_andHaving _ _ (wfSel_andWhere _ _ (wfSel_addCols _ _ (wf_initIndex c hc) (wf_aggCol aggAttr)) ?_) ?_
      · simp only [wfExprs, wfExpr_or, wfExprs_append, hes, wf_aggWhere, Bool.and_self]
      · simp only [wfExprs, wf_condSql es hes, Bool.and_self]
    rw [← h]
    split
    · exact hbase
    · exact wfSel_andWhere _ _ hbase (wf_randomFilter c hc)

theorem word_trace_ids : WordS "trace_ids" := by constructor <;> decide +kernel
theorem word_trace_and_span_ids : WordS "trace_and_span_ids" := by constructor <;> decide +kernel
theorem word_trace_and_span_ids_unnested : WordS "trace_and_span_ids_unnested" := by constructor <;> decide +kernel

theorem wfSel_nowith {s : Sel} (hw : s.withs = []) (hb : wfSelBody s = true) : wfSel s = true := by
  rw [wfSel_eq, hw, hb]; simp [wfWiths]

theorem wf_attrless (c : Ctx) (h : CtxOK c) : wfSel (attrless c) = true := by
  unfold attrless
  simp only
  refine wfSel_with_ _ _ ?_ ?_
  · simp only [simpleCol, and_, ge, lt, wfSelBody, wfExprs, wfExpr, wfJoins, Alias.text, h.traces, rawE_intText,
      Bool.and_eq_true, Bool.and_true, Bool.true_and]
    decide +kernel
  · intro w hw
    simp only [List.mem_cons, List.not_mem_nil, or_false] at hw
    rcases hw with rfl | rfl | rfl
    · refine ⟨word_trace_ids.withAlias, wfSel_nowith rfl ?_⟩
      simp only [simpleCol, and_, ge, lt, wfSelBody, wfExprs, wfExpr, wfJoins, h.traces, rawE_intText,
        Bool.and_eq_true, Bool.and_true, Bool.true_and]
      decide +kernel
    · refine ⟨word_trace_and_span_ids.withAlias, wfSel_nowith rfl ?_⟩
      simp only [simpleCol, and_, ge, lt, wfSelBody, wfExprs, wfExpr, wfJoins, Alias.text, h.traces, rawE_intText,
        Bool.and_eq_true, Bool.and_true, Bool.true_and]
      decide +kernel
    · refine ⟨word_trace_and_span_ids_unnested.withAlias, wfSel_nowith rfl ?_⟩
      simp only [simpleCol, wfSelBody, wfExprs, wfExpr, wfJoins, Alias.text, Bool.and_eq_true, Bool.and_true, Bool.true_and]
      decide +kernel

/-! ### prefixes -/
theorem WordS.pre {p s : String} (hp : allWord (b p) = true) (hs : WordS s) : WordS (p ++ s) := by
  refine ⟨by rw [b_append]; exact allWord_append hp hs.1, ?_⟩
  rw [b_append]
  intro h
  exact hs.2 (List.append_eq_nil_iff.mp h).2

theorem word_index_search : WordS "index_search" := by constructor <;> decide +kernel
theorem word_index_search_ts : WordS "index_search.timestamp_ns" := by constructor <;> decide +kernel
theorem word_index_search_span : WordS "index_search.span_id" := by constructor <;> decide +kernel
theorem word_a : WordS "a" := by constructor <;> decide +kernel

theorem wf_indexGroupBy (pfx : String) (hp : allWord (b pfx) = true) (main : Sel) (hm : wfSel main = true) :
    wfSel (indexGroupBy pfx main) = true := by
  unfold indexGroupBy
  simp only
  have ha := WordS.pre hp word_index_search
  refine wfSel_with_ _ _ ?_ ?_
  · have f := ha.isRawE
    have o := (WordS.pre hp word_index_search_ts).isRawE
    simp only [simpleCol, wfSelBody, wfExprs, wfExpr, wfJoins, Alias.text, f, o, Bool.and_eq_true, Bool.and_true, Bool.true_and]
    decide +kernel
  · intro w hw
    simp only [List.mem_singleton] at hw
    subst hw
    exact ⟨ha.withAlias, hm⟩

theorem wf_aggregatorSql (pfx : String) (hp : allWord (b pfx) = true) (fn : AggFn) : wfExpr (aggregatorSql pfx fn) = true := by
  have o := (WordS.pre hp word_index_search_span).isRawE
  cases fn <;> simp only [aggregatorSql, AggFn.text, wfExpr, wfExprs, o, Bool.and_true, Bool.and_eq_true] <;> decide +kernel

theorem aw_zeros : allWord (b ".000000") = true := by decide +kernel

theorem rawE_aggCmpText (a : Agg) (v : String) (h : aggCmpText a = .ok v) : rawE (b v) = true := by
  unfold aggCmpText at h
  split at h
  · cases hp : parseDuration a.num a.unit with
    | error m => simp [hp, bind, Except.bind] at h
    | ok ns =>
      simp [hp, bind, Except.bind, pure, Except.pure] at h
      subst h
      unfold Units.f64Text
      rw [b_append]
      exact rawE_intText_word _ _ aw_zeros
  · split at h
    · simp [throw, throwThe, MonadExceptOf.throw] at h
    · simp [pure, Except.pure] at h
      subst h
      exact rawE_numText _

theorem wf_aggregator (pfx : String) (hp : allWord (b pfx) = true) (a : Agg) (main X : Sel) (hm : wfSel main = true)
    (h : aggregator pfx a main = .ok X) : wfSel X = true := by
  unfold aggregator at h
  cases hf : cmpSql a.cmp with
  | none => simp [hf, bind, Except.bind, throw, throwThe, MonadExceptOf.throw] at h
  | some f =>
    cases hv : aggCmpText a with
    | error m => simp [hf, hv, bind, Except.bind, pure, Except.pure] at h
    | ok v =>
      simp [hf, hv, bind, Except.bind, pure, Except.pure] at h
      rw [← h]
      refine wfSel_andHaving _ _ hm ?_
      simp only [wfExprs, wfExpr, kw_cmp a.cmp f hf, wf_aggregatorSql pfx hp, rawE_aggCmpText a v hv, Bool.and_self]

theorem wf_simpleSel (c : Ctx) (hc : CtxOK c) (pfx : String) (hp : allWord (b pfx) = true) (script : Script) (X : Sel)
    (h : simpleSel c pfx script = .ok X) : wfSel X = true := by
  unfold simpleSel at h
  cases hck : check script with
  | error m => simp [hck, bind, Except.bind] at h
  | ok u =>
    simp only [hck, bind, Except.bind] at h
    cases script with
    | nil => simp [throw, throwThe, MonadExceptOf.throw] at h
    | cons p rest =>
      obtain ⟨s, op⟩ := p
      simp only at h
      cases ha : s.agg with
      | none =>
        cases he : s.attrs with
        | none =>
          simp only [ha, he, pure, Except.pure, Except.ok.injEq] at h
          rw [← h]; exact wf_indexGroupBy pfx hp _ (wf_attrless c hc)
        | some e =>
          simp only [ha, he] at h
          cases hat : attrCondition c (analyzeCond [] e).1 (analyzeCond [] e).2 "" with
          | error m => simp [hat] at h
          | ok SA =>
            simp only [hat, pure, Except.pure, Except.ok.injEq] at h
            rw [← h]
            exact wf_indexGroupBy pfx hp _ (wf_attrCondition c hc _ _ _ SA hat)
      | some a =>
        cases he : s.attrs with
        | none =>
          simp only [ha, he, pure, Except.pure] at h
          exact wf_aggregator pfx hp a _ X (wf_indexGroupBy pfx hp _ (wf_attrless c hc)) h
        | some e =>
          simp only [ha, he] at h
          cases hat : attrCondition c (analyzeCond [] e).1 (analyzeCond [] e).2 a.attr with
          | error m => simp [hat] at h
          | ok SA =>
            simp only [hat] at h
            exact wf_aggregator pfx hp a _ X (wf_indexGroupBy pfx hp _ (wf_attrCondition c hc _ _ _ SA hat)) h

/-! ### complex requests -/
theorem word_us : WordS "_" := by constructor <;> decide +kernel
theorem aw_pre_ : allWord (b "_pre_") = true := by decide +kernel
theorem aw_dot_span_id : allWord (b ".span_id") = true := by decide +kernel
theorem word__span_id : WordS "_span_id" := by constructor <;> decide +kernel

theorem wf_operandSel (isAnd : Bool) (i : Nat) (s : Sel) (hs : wfSel s = true) : wfSel (operandSel isAnd i s) = true := by
  unfold operandSel
  simp only
  have ha : WordS ("_" ++ toString i ++ "_pre_") := (word_us.nat i).app aw_pre_
  refine wfSel_with_ _ _ ?_ ?_
  · have f := ha.isRawE
    have g := (ha.app aw_dot_span_id).isRawE
    cases isAnd <;>
      simp only [simpleCol, wfSelBody, wfExprs, wfExpr, wfJoins, Alias.text, f, g, rawE_intText, List.append_nil, List.cons_append,
        List.nil_append, if_true, if_false, Bool.false_eq_true, Bool.and_eq_true, Bool.and_true, Bool.true_and] <;>
      decide +kernel
  · intro w hw
    simp only [List.mem_singleton] at hw
    subst hw
    refine ⟨ha.withAlias, wfSel_addCols s _ hs ?_⟩
    simp only [wfExprs, wfExpr, Bool.and_true, Bool.and_eq_true]; decide +kernel

theorem wf_operandSels (isAnd : Bool) : ∀ (ss : List Sel) (i : Nat), wfSels ss = true → wfSels (operandSels isAnd i ss) = true
  | [], _, _ => by simp [operandSels, wfSels]
  | s :: ss, i, h => by
    simp only [wfSels, Bool.and_eq_true] at h
    simp only [operandSels, wfSels, wf_operandSel isAnd i s h.1, wf_operandSels isAnd ss (i + 1) h.2, Bool.and_self]

theorem wf_complexSel (isAnd : Bool) (pfx : String) (hp : allWord (b pfx) = true) (ops : List Sel) (h : wfSels ops = true) :
    wfSel (complexSel isAnd pfx ops) = true := by
  have ho := wf_operandSels isAnd ops 0 h
  have ha := (WordS.pre hp word_a).asAlias
  cases isAnd <;>
    simp only [complexSel, simpleCol, and_, eq, wfSel, wfWiths, wfSelBody, wfExprs, wfExpr, wfJoins, ho, ha, rawE_intText,
      if_true, if_false, Bool.false_eq_true, Bool.and_eq_true, Bool.and_true, Bool.true_and, Bool.or_true] <;>
    decide +kernel

theorem aw_pfxText (k : Nat) : allWord (b (pfxText k)) = true := (word_us.nat k).1

theorem wf_treeSel (c : Ctx) (hc : CtxOK c) : ∀ (t : XTree) (X : Sel), treeSel c t = .ok X → wfSel X = true
  | .simple script k, X, h => wf_simpleSel c hc _ (aw_pfxText k) script X (by simpa [treeSel] using h)
  | .complex isAnd k l r, X, h => by
    simp only [treeSel, bind, Except.bind] at h
    cases hl : treeSel c l with
    | error m => simp [hl] at h
    | ok ls =>
      cases hr : treeSel c r with
      | error m => simp [hl, hr] at h
      | ok rs =>
        simp [hl, hr, pure, Except.pure] at h
        rw [← h]
        exact wf_complexSel isAnd _ (aw_pfxText k) [ls, rs]
          (by simp [wfSels, wf_treeSel c hc l ls hl, wf_treeSel c hc r rs hr])

theorem wf_rootSel (c : Ctx) (hc : CtxOK c) (script : Script) (X : Sel) (h : rootSel c script = .ok X) : wfSel X = true := by
  unfold rootSel at h
  split at h
  · simp [throw, throwThe, MonadExceptOf.throw] at h
  · exact wf_simpleSel c hc "" (by decide +kernel) _ X h
  · simp only [bind, Except.bind] at h
    cases hp : planTree script with
    | error m => simp [hp] at h
    | ok t => simp only [hp] at h; exact wf_treeSel c hc t X h

theorem wf_indexLimit (c : Ctx) (s : Sel) (h : wfSel s = true) : wfSel (indexLimit c s) = true := by
  unfold indexLimit
  split
  · exact h
  · exact wfSel_setLimit s _ h (by simp only [wfExpr]; exact rawE_intText _)

theorem word_index_grouped : WordS "index_grouped" := by constructor <;> decide +kernel
theorem word_trace_span_ids : WordS "trace_span_ids" := by constructor <;> decide +kernel
theorem word_traces_info : WordS "traces_info" := by constructor <;> decide +kernel

theorem wf_tracesData (c : Ctx) (hc : CtxOK c) (main : Sel) (hm : wfSel main = true) : wfSel (tracesData c main) = true := by
  unfold tracesData
  simp only
  have htbl : rawE (b (if c.isCluster then c.tracesDistTable else c.tracesTable)) = true := by
    cases c.isCluster <;> simp only [if_true, if_false, Bool.false_eq_true, hc.traces, hc.tracesDist]
  refine wfSel_with_ _ _ ?_ ?_
  · simp only [simpleCol, and_, eq, wfSelBody, wfExprs, wfExpr, wfJoins, Alias.text, htbl, Bool.and_eq_true, Bool.and_true, Bool.true_and]
    decide +kernel
  · intro w hw
    simp only [List.mem_cons, List.not_mem_nil, or_false] at hw
    rcases hw with rfl | rfl | rfl | rfl
    · exact ⟨word_index_grouped.withAlias, hm⟩
    · refine ⟨word_trace_ids.withAlias, wfSel_nowith rfl ?_⟩
      simp only [wfSelBody, wfExprs, wfExpr, wfJoins, Alias.text, Bool.and_eq_true, Bool.and_true, Bool.true_and]
      decide +kernel
    · refine ⟨word_trace_span_ids.withAlias, wfSel_nowith rfl ?_⟩
      simp only [wfSelBody, wfExprs, wfExpr, wfJoins, Alias.text, Bool.and_eq_true, Bool.and_true, Bool.true_and]
      decide +kernel
    · refine ⟨word_traces_info.withAlias, wfSel_nowith rfl ?_⟩
      simp only [simpleCol, and_, wfSelBody, wfExprs, wfExpr, wfJoins, Alias.text, hc.traces, Bool.and_eq_true, Bool.and_true, Bool.true_and]
      decide +kernel

/-- **the atoms of every statement `plan` builds are well formed** -/
theorem wf_plan (c : Ctx) (hc : CtxOK c) (script : Script) (X : Sel) (h : plan c script = .ok X) : wfSel X = true := by
  simp only [plan, indexGrouped, bind, Except.bind, pure, Except.pure] at h
  cases hr : rootSel c script with
  | error m => simp [hr] at h
  | ok R =>
    simp [hr] at h
    rw [← h]
    exact wf_indexLimit c _ (wf_tracesData c hc _ (wf_indexLimit c _ (wf_rootSel c hc script R hr)))

/-! ### tags / values -/
theorem word_select_spans : WordS "select_spans" := by constructor <;> decide +kernel
theorem word_pre_select_tags : WordS "pre_select_tags" := by constructor <;> decide +kernel
theorem word_key : WordS "key" := by constructor <;> decide +kernel
theorem word_val : WordS "val" := by constructor <;> decide +kernel

theorem wf_selectTags (c : Ctx) (hc : CtxOK c) (col : String) (hcol : WordS col) (main : Sel) (hm : wfSel main = true) :
    wfSel (selectTags c col main) = true := by
  unfold selectTags
  simp only
  refine wfSel_with_ _ _ ?_ ?_
  · have c1 := wfExpr_simpleCol hcol hcol
    have c2 : rawE (b col) = true := hcol.isRawE
    simp only [and_, ge, le, lt, wfSelBody, wfExprs, wfExpr, wfJoins, Alias.text, c1, c2, hc.attrsDist, rawE_intText,
      Bool.and_eq_true, Bool.and_true, Bool.true_and]
    decide +kernel
  · intro w hw
    simp only [List.mem_cons, List.not_mem_nil, or_false] at hw
    rcases hw with rfl | rfl
    · exact ⟨word_select_spans.withAlias, hm⟩
    · refine ⟨word_pre_select_tags.withAlias, wfSel_nowith rfl ?_⟩
      simp only [wfSelBody, wfExprs, wfExpr, wfJoins, Alias.text, Bool.and_eq_true, Bool.and_true, Bool.true_and]
      decide +kernel

theorem wf_tagsOrder (c : Ctx) (col : String) (hcol : WordS col) (s : Sel) (hs : wfSel s = true) :
    wfSel (tagsOrder c col s) = true := by
  unfold tagsOrder
  split
  · refine wfSel_setLimit _ _ (wfSel_setOrderBy _ _ hs ?_) (by simp only [wfExpr]; exact rawE_intText _)
    have := wfExpr_raw_word hcol
    simp only [wfExprs, wfExpr, Bool.and_true] at this ⊢
    exact this
  · exact hs

theorem wf_tagsMain (c : Ctx) (hc : CtxOK c) (script : Script) (m : Sel) (h : tagsMain c script = .ok (some m)) :
    wfSel m = true := by
  unfold tagsMain at h
  split at h
  · simp [throw, throwThe, MonadExceptOf.throw] at h
  · simp [throw, throwThe, MonadExceptOf.throw] at h
  · rename_i s op
    cases hck : check [(s, op)] with
    | error e => simp [hck, bind, Except.bind] at h
    | ok u =>
      simp only [hck, bind, Except.bind] at h
      cases he : s.attrs with
      | none => simp [he, pure, Except.pure] at h
      | some e =>
        simp only [he] at h
        cases hag : s.agg with
        | none =>
          simp only [hag] at h
          cases hat : attrCondition c (analyzeCond [] e).1 (analyzeCond [] e).2 "" with
          | error m => simp [hat] at h
          | ok SA =>
            simp [hat, pure, Except.pure] at h
            subst h
            exact wf_attrCondition c hc _ _ _ SA hat
        | some a =>
          simp only [hag] at h
          cases hat : attrCondition c (analyzeCond [] e).1 (analyzeCond [] e).2 a.attr with
          | error m => simp [hat] at h
          | ok SA =>
            simp [hat, pure, Except.pure] at h
            subst h
            exact wf_attrCondition c hc _ _ _ SA hat

/-- **`planTags`**; `kvTable` is the name of the key/value table (configuration) -/
theorem wf_planTags (c : Ctx) (hc : CtxOK c) (kvTable : String) (hkv : rawE (b kvTable) = true) (script : Script) (X : Sel)
    (h : planTags c kvTable script = .ok X) : wfSel X = true := by
  unfold planTags at h
  cases hm : tagsMain c script with
  | error e => simp [hm, bind, Except.bind] at h
  | ok om =>
    cases om with
    | none =>
      simp [hm, bind, Except.bind, pure, Except.pure] at h
      rw [← h]
      simp only [allTags, simpleCol, and_, ge, le, wfSel, wfWiths, wfSelBody, wfExprs, wfExpr, wfJoins, hkv,
        Bool.and_eq_true, Bool.and_true, Bool.true_and]
      decide +kernel
    | some m =>
      simp [hm, bind, Except.bind, pure, Except.pure] at h
      rw [← h]
      exact wf_tagsOrder c _ word_key _ (wf_selectTags c hc _ word_key m (wf_tagsMain c hc script m hm))

theorem wf_keyEq (key : Bytes) : wfExprs [eq (.raw "key") (.str key)] = true := by
  simp only [eq, wfExprs, wfExpr, Bool.and_true, Bool.and_eq_true]; decide +kernel

theorem wfSel_setGroupBy (s : Sel) (g : List Expr) (hs : wfSel s = true) (hg : wfExprs g = true) :
    wfSel (s.setGroupBy g) = true := by
  cases s
  simp only [Sel.setGroupBy, wfSel] at hs ⊢; unfold wfSelBody at hs ⊢; simp only [Bool.and_eq_true] at hs ⊢
  obtain ⟨hw, ⟨⟨⟨⟨⟨⟨⟨h1, h2⟩, h3⟩, h4⟩, _⟩, h6⟩, h7⟩, h8⟩⟩ := hs
  exact ⟨hw, ⟨⟨⟨⟨⟨⟨⟨h1, h2⟩, h3⟩, h4⟩, hg⟩, h6⟩, h7⟩, h8⟩⟩

/-- **`planValues`**; `kvTable` is the name of the key/value table (configuration), `key` the requested tag: a leaf -/
theorem wf_planValues (c : Ctx) (hc : CtxOK c) (kvTable : String) (hkv : rawE (b kvTable) = true) (key : Bytes)
    (script : Script) (X : Sel) (h : planValues c kvTable key script = .ok X) : wfSel X = true := by
  unfold planValues at h
  cases hm : tagsMain c script with
  | error e => simp [hm, bind, Except.bind] at h
  | ok om =>
    cases om with
    | none =>
      simp [hm, bind, Except.bind, pure, Except.pure] at h
      rw [← h]
      simp only [allValues, simpleCol, and_, eq, ge, le, wfSel, wfWiths, wfSelBody, wfExprs, wfExpr, wfJoins, hkv,
        Bool.and_eq_true, Bool.and_true, Bool.true_and]
      decide +kernel
    | some m =>
      simp [hm, bind, Except.bind, pure, Except.pure] at h
      rw [← h]
      have ht := wf_tagsOrder c _ word_key _ (wf_selectTags c hc _ word_key m (wf_tagsMain c hc script m hm))
      refine wf_tagsOrder c _ word_val _ (wfSel_setGroupBy _ _ (wfSel_andWhere _ _ ?_ (wf_keyEq key)) ?_)
      · exact wfSel_setCols _ _ ht (by simp only [wfExprs, wfExpr_simpleCol word_val word_val, Bool.and_self])
      · have := wfExpr_raw_word word_val
        simp only [wfExprs, this, Bool.and_self]

end Qryn.TraceQL
