import Qryn.Ctrl.RotateCluster
import Qryn.Proofs.RotateRun
/-! The cluster model of `Rotate` refines the single-database model node by node: seen from a node that takes part
    (the connected node; on a configured cluster — `ON CLUSTER` ALTERs, `settings_dist` reads — every node), a cluster
    run with a failure point that took effect on any set of nodes is that node's own single-database run with the
    same failing statement, applied or not (`crun_refines`). For an arbitrary group list. -/
set_option linter.unusedSimpArgs false
set_option linter.unusedVariables false
namespace Qryn.Ctrl.Rotate
open Qryn

theorem latest_append (vis : Nat → Bool) (fp : Nat) (rows : List (Nat × Nat × Bytes)) (h fp' : Nat) (v : Bytes) :
    latest vis fp (rows ++ [(h, fp', v)]) = if vis h && fp' == fp then v else latest vis fp rows := by
  simp [latest, List.foldl_append]

/-- the statement's `ON CLUSTER` clause is that of a run with cluster name `cl` -/
def FromCfg (cl : Bytes) (x : Stmt) : Prop := x.isAlter = true → x.onCluster = decide (cl ≠ [])

/-- node `i` takes part in a run connected to `conn` with cluster name `cl` reading `settings_dist` iff `dist` -/
def Part (dist : Bool) (cl : Bytes) (n conn i : Nat) : Prop := i < n ∧ (i = conn ∨ (dist = true ∧ cl ≠ []))

/-- whether the failing statement counts as applied on node `i` -/
def effOn (conn i : Nat) (sel : Nat → Bool) : Stmt → Bool
  | .put .. => sel conn
  | .read .. => false
  | _ => sel i

theorem cview_capply {dist : Bool} {cl : Bytes} {conn i : Nat} (sel : Nat → Bool) (x : Stmt) (cs : CSt)
    (hP : Part dist cl cs.n conn i) (hx : FromCfg cl x) :
    cview dist (capply conn sel x cs) i = if effOn conn i sel x then apply x (cview dist cs i) else cview dist cs i := by
  have hvis : visNodes dist i conn = true := by
    rcases hP.2 with h | h
    · subst h; simp [visNodes]
    · simp [visNodes, h.1]
  have hlt : decide (i < cs.n) = true := by simpa using hP.1
  have htg : x.isAlter = true → ctarget cs.n conn x i = true := by
    intro ha
    have := hx ha
    simp only [ctarget, hlt, Bool.true_and, Bool.or_eq_true, beq_iff_eq]
    rcases hP.2 with h | h
    · right; exact h
    · left; rw [this]; simpa using h.2
  cases x with
  | read d fp =>
    simp only [effOn, Bool.false_eq_true, if_false]
    apply St.ext' <;> simp only [cview, capply]
    · funext y; split <;> rfl
    · funext y; split <;> rfl
  | put fp tp nm v =>
    simp only [effOn]
    by_cases hs : sel conn = true
    · simp only [hs, if_true]
      apply St.ext'
      · funext fp'
        simp only [cview, capply, hs, if_true, latest_append, hvis, Bool.true_and, apply]
        by_cases e : fp' = fp
        · subst e; simp
        · have : (fp == fp') = false := by simpa using fun h => e h.symm
          simp [this, e]
      · funext y; simp only [cview, capply, apply]; split <;> rfl
      · funext y; simp only [cview, capply, apply]; split <;> rfl
    · simp only [hs, Bool.false_eq_true, if_false]
      apply St.ext' <;> simp only [cview, capply, hs, Bool.false_eq_true, if_false]
      · funext y; split <;> rfl
      · funext y; split <;> rfl
  | alterPolicy t c p =>
    have := htg rfl
    simp only [effOn]
    by_cases hs : sel i = true
    · simp only [hs, if_true]
      apply St.ext' <;> simp only [cview, capply, this, hs, Bool.and_self, if_true, apply]
    · simp only [hs, Bool.false_eq_true, if_false]
      apply St.ext' <;> simp only [cview, capply, this, hs, Bool.and_false, Bool.false_eq_true, if_false]
  | alterTune t c =>
    have := htg rfl
    simp only [effOn]
    by_cases hs : sel i = true
    · simp only [hs, if_true]
      apply St.ext' <;> simp only [cview, capply, this, hs, Bool.and_self, if_true, apply]
    · simp only [hs, Bool.false_eq_true, if_false]
      apply St.ext' <;> simp only [cview, capply, this, hs, Bool.and_false, Bool.false_eq_true, if_false]
  | alterTTL t c e =>
    have := htg rfl
    simp only [effOn]
    by_cases hs : sel i = true
    · simp only [hs, if_true]
      apply St.ext' <;> simp only [cview, capply, this, hs, Bool.and_self, if_true, apply]
    · simp only [hs, Bool.false_eq_true, if_false]
      apply St.ext' <;> simp only [cview, capply, this, hs, Bool.and_false, Bool.false_eq_true, if_false]

theorem capply_n (conn : Nat) (sel : Nat → Bool) (x : Stmt) (cs : CSt) : (capply conn sel x cs).n = cs.n := rfl

theorem apply_read (d : Bool) (fp : Nat) (s : St) : apply (.read d fp) s = s := rfl

theorem cview_capply_all {dist : Bool} {cl : Bytes} {conn i : Nat} (x : Stmt) (cs : CSt)
    (hP : Part dist cl cs.n conn i) (hx : FromCfg cl x) :
    cview dist (capply conn allNodes x cs) i = apply x (cview dist cs i) := by
  rw [cview_capply allNodes x cs hP hx]
  cases x <;> simp [effOn, allNodes, apply_read]

/-! ## simulation -/

/-- the single-database failure point a node sees -/
def sf (f : Option CFault) (b : Bool) : Option Fault := f.map (fun g => ⟨g.idx, b⟩)

/-- a cluster run in progress and node `i`'s own run in progress agree -/
def RelC (dist : Bool) (i n : Nat) (cc : CCtx) (c : Ctx) : Prop := cview dist cc.cs i = c.st ∧ cc.log = c.log ∧ cc.cs.n = n

/-- a cluster computation and the node's own computation: if the cluster computation reported success, the node's is
    one and the same whatever "applied" flag its failure point carries, and agrees; if it reported the failure, the
    node's reports it too and agrees for one of the flags -/
def Sim (dist : Bool) (i n : Nat) (f : Option CFault) (R : CCtx × Bool) (S : Option Fault → Ctx × Bool) : Prop :=
  (R.2 = true → ∃ c', (∀ b, S (sf f b) = (c', true)) ∧ RelC dist i n R.1 c') ∧
  (R.2 = false → ∃ b c', S (sf f b) = (c', false) ∧ RelC dist i n R.1 c')

theorem sim_issue {dist : Bool} {cl : Bytes} {n conn i : Nat} (f : Option CFault) (x : Stmt) (cc : CCtx) (c : Ctx)
    (hrel : RelC dist i n cc c) (hP : Part dist cl n conn i) (hx : FromCfg cl x) :
    Sim dist i n f (cissue conn f x cc) (fun sf' => issue sf' x c) := by
  obtain ⟨hst, hlog, hn⟩ := hrel
  have hP' : Part dist cl cc.cs.n conn i := by rw [hn]; exact hP
  have hall : RelC dist i n ⟨capply conn allNodes x cc.cs, cc.log ++ [x]⟩ ⟨apply x c.st, c.log ++ [x]⟩ :=
    ⟨by rw [← hst]; exact cview_capply_all x cc.cs hP' hx, by simp only [hlog], hn⟩
  cases f with
  | none =>
    refine ⟨fun _ => ⟨⟨apply x c.st, c.log ++ [x]⟩, fun b => ?_, ?_⟩, fun h => by simp [cissue] at h⟩
    · simp only [sf, Option.map_none, issue]
    · simp only [cissue]; exact hall
  | some ft =>
    by_cases hidx : ft.idx = cc.log.length
    · refine ⟨fun h => by simp [cissue, hidx] at h, fun _ => ⟨effOn conn i ft.selFn x, ?_⟩⟩
      have hidx' : ft.idx = c.log.length := by rw [← hlog]; exact hidx
      refine ⟨⟨if effOn conn i ft.selFn x then apply x c.st else c.st, c.log ++ [x]⟩, ?_, ?_⟩
      · simp only [sf, Option.map_some, issue, hidx', if_true]
      · simp only [cissue, hidx, if_true]
        refine ⟨?_, by simp only [hlog], hn⟩
        simp only []
        rw [cview_capply ft.selFn x cc.cs hP' hx, hst]
    · have hidx' : ¬ ft.idx = c.log.length := by rw [← hlog]; exact hidx
      refine ⟨fun _ => ⟨⟨apply x c.st, c.log ++ [x]⟩, fun b => ?_, ?_⟩, fun h => by simp [cissue, hidx] at h⟩
      · simp only [sf, Option.map_some, issue, hidx', if_false]
      · simp only [cissue, hidx, if_false]; exact hall

theorem sim_execPlan {dist : Bool} {cl : Bytes} {n conn i : Nat} (f : Option CFault) (hP : Part dist cl n conn i) :
    ∀ (xs : List Stmt) (cc : CCtx) (c : Ctx), RelC dist i n cc c → (∀ x ∈ xs, FromCfg cl x) →
    Sim dist i n f (cexecPlan conn f xs cc) (fun sf' => execPlan sf' xs c) := by
  intro xs
  induction xs with
  | nil =>
    intro cc c hrel _
    exact ⟨fun _ => ⟨c, fun b => rfl, hrel⟩, fun h => by simp [cexecPlan] at h⟩
  | cons x rest ih =>
    intro cc c hrel hx
    have h1 := sim_issue f x cc c hrel hP (hx x (by simp))
    simp only [cexecPlan]
    rcases hi : cissue conn f x cc with ⟨cc', ok⟩
    rw [hi] at h1
    cases ok with
    | false =>
      refine ⟨fun h => by simp at h, fun _ => ?_⟩
      obtain ⟨b, c', hs, hr⟩ := h1.2 rfl
      exact ⟨b, c', by simp only [execPlan, hs], hr⟩
    | true =>
      simp only []
      obtain ⟨c1, hs1, hr1⟩ := h1.1 rfl
      have h2 := ih cc' c1 hr1 (fun y hy => hx y (List.mem_cons_of_mem _ hy))
      constructor
      · intro hok
        obtain ⟨c2, hs2, hr2⟩ := h2.1 hok
        exact ⟨c2, fun b => by simp only [execPlan, hs1 b]; exact hs2 b, hr2⟩
      · intro hok
        obtain ⟨b, c2, hs2, hr2⟩ := h2.2 hok
        exact ⟨b, c2, by simp only [execPlan, hs1 b]; exact hs2, hr2⟩

theorem plan_fromCfg (c : Cfg) (g : GroupDef) : ∀ x ∈ plan c g, FromCfg c.cluster x := by
  intro x hx ha
  simp only [plan, List.mem_cons, List.mem_append, List.mem_singleton, List.not_mem_nil, or_false] at hx
  rcases hx with rfl | hx | rfl
  · simp [putEmpty, Stmt.isAlter] at ha
  · obtain ⟨t, _, hm⟩ := mem_alters hx
    unfold alterOne at hm
    cases hk : g.kind <;> simp only [hk] at hm <;> simp at hm
    · subst hm; simp [Stmt.onCluster]
    · rcases hm with rfl | rfl <;> simp [Stmt.onCluster]
  · simp [putWant, Stmt.isAlter] at ha

theorem read_fromCfg (cl : Bytes) (c : Cfg) (g : GroupDef) : FromCfg cl (readStmt c g) := by
  intro ha; simp [readStmt, Stmt.isAlter] at ha

theorem marker_view {dist : Bool} {cl : Bytes} {n conn i : Nat} (hP : Part dist cl n conn i) (cs : CSt) (fp : Nat) :
    (cview dist cs conn).marker fp = (cview dist cs i).marker fp := by
  rcases hP.2 with h | h
  · subst h; rfl
  · obtain ⟨h1, _⟩ := h
    subst h1
    have : visNodes true conn = visNodes true i := by funext y; simp [visNodes]
    simp only [cview, this]

theorem sim_runGroup {n conn i : Nat} (f : Option CFault) (c : Cfg) (hP : Part c.dist c.cluster n conn i) (g : GroupDef)
    (cc : CCtx) (x : Ctx) (hrel : RelC c.dist i n cc x) :
    Sim c.dist i n f (crunGroup conn f c g cc) (fun sf' => runGroup sf' c g x) := by
  have h1 := sim_issue f (readStmt c g) cc x hrel hP (read_fromCfg c.cluster c g)
  have hmark : (cview c.dist cc.cs conn).marker g.fp = x.st.marker g.fp := by
    rw [marker_view hP, hrel.1]
  simp only [crunGroup]
  rcases hi : cissue conn f (readStmt c g) cc with ⟨cc', ok⟩
  rw [hi] at h1
  cases ok with
  | false =>
    refine ⟨fun h => by simp at h, fun _ => ?_⟩
    obtain ⟨b, c', hs, hr⟩ := h1.2 rfl
    exact ⟨b, c', by simp only [runGroup, hs], hr⟩
  | true =>
    simp only []
    obtain ⟨c1, hs1, hr1⟩ := h1.1 rfl
    by_cases hskip : active c g = false ∨ x.st.marker g.fp = desired c g
    · have hskip' : active c g = false ∨ (cview c.dist cc.cs conn).marker g.fp = desired c g := by rw [hmark]; exact hskip
      simp only [hskip', if_true]
      refine ⟨fun _ => ⟨c1, fun b => by simp only [runGroup, hs1 b, hskip, if_true], hr1⟩, fun h => by simp at h⟩
    · have hskip' : ¬ (active c g = false ∨ (cview c.dist cc.cs conn).marker g.fp = desired c g) := by rw [hmark]; exact hskip
      simp only [hskip', if_false]
      have h2 := sim_execPlan f hP (plan c g) cc' c1 hr1 (plan_fromCfg c g)
      constructor
      · intro hok
        obtain ⟨c2, hs2, hr2⟩ := h2.1 hok
        exact ⟨c2, fun b => by simp only [runGroup, hs1 b, hskip, if_false]; exact hs2 b, hr2⟩
      · intro hok
        obtain ⟨b, c2, hs2, hr2⟩ := h2.2 hok
        exact ⟨b, c2, by simp only [runGroup, hs1 b, hskip, if_false]; exact hs2, hr2⟩

theorem sim_runGroups {n conn i : Nat} (f : Option CFault) (c : Cfg) (hP : Part c.dist c.cluster n conn i) :
    ∀ (gs : List GroupDef) (cc : CCtx) (x : Ctx), RelC c.dist i n cc x →
    Sim c.dist i n f (crunGroups conn f c gs cc) (fun sf' => runGroups sf' c gs x) := by
  intro gs
  induction gs with
  | nil =>
    intro cc x hrel
    exact ⟨fun _ => ⟨x, fun b => rfl, hrel⟩, fun h => by simp [crunGroups] at h⟩
  | cons g gs ih =>
    intro cc x hrel
    have h1 := sim_runGroup f c hP g cc x hrel
    simp only [crunGroups]
    rcases hi : crunGroup conn f c g cc with ⟨cc', ok⟩
    rw [hi] at h1
    cases ok with
    | false =>
      refine ⟨fun h => by simp at h, fun _ => ?_⟩
      obtain ⟨b, c', hs, hr⟩ := h1.2 rfl
      exact ⟨b, c', by simp only [runGroups, hs], hr⟩
    | true =>
      simp only []
      obtain ⟨c1, hs1, hr1⟩ := h1.1 rfl
      have h2 := ih cc' c1 hr1
      constructor
      · intro hok
        obtain ⟨c2, hs2, hr2⟩ := h2.1 hok
        exact ⟨c2, fun b => by simp only [runGroups, hs1 b]; exact hs2 b, hr2⟩
      · intro hok
        obtain ⟨b, c2, hs2, hr2⟩ := h2.2 hok
        exact ⟨b, c2, by simp only [runGroups, hs1 b]; exact hs2, hr2⟩

/-- **Refinement, node by node.** A run of `Rotate` on the cluster, connected to `conn`, with any failure point taking
    effect on any set of nodes, is — on the connected node, and with `ON CLUSTER` ALTERs and `settings_dist` reads on
    every node — that node's own single-database run of `Rotate` with the same failing statement, for one of the two
    "applied" flags: same database afterwards, same statement log, same reported result. -/
theorem crun_refines (defs : List GroupDef) (c : Cfg) (conn : Nat) (f : Option CFault) (cs : CSt) (i : Nat)
    (hc : conn < cs.n) (hP : Part c.dist c.cluster cs.n conn i) :
    ∃ b, cview c.dist (crun defs c conn f cs).cs i = (run defs c (sf f b) (cview c.dist cs i)).st ∧
      (crun defs c conn f cs).log = (run defs c (sf f b) (cview c.dist cs i)).log ∧
      (crun defs c conn f cs).ok = (run defs c (sf f b) (cview c.dist cs i)).ok ∧
      (crun defs c conn f cs).cs.n = cs.n := by
  have h := sim_runGroups f c hP defs ⟨cs, []⟩ ⟨cview c.dist cs i, []⟩ ⟨rfl, rfl, rfl⟩
  simp only [crun, hc, if_true, run]
  cases hok : (crunGroups conn f c defs ⟨cs, []⟩).2 with
  | true =>
    obtain ⟨c', hs, hr⟩ := h.1 hok
    refine ⟨false, ?_⟩
    have hs' := hs false
    simp only [] at hs'
    rw [hs']
    exact ⟨hr.1, hr.2.1, rfl, hr.2.2⟩
  | false =>
    obtain ⟨b, c', hs, hr⟩ := h.2 hok
    refine ⟨b, ?_⟩
    simp only [] at hs
    rw [hs]
    exact ⟨hr.1, hr.2.1, rfl, hr.2.2⟩

/-- without a failure point the node's own run has none either -/
theorem crun_refines_clean (defs : List GroupDef) (c : Cfg) (conn : Nat) (cs : CSt) (i : Nat)
    (hc : conn < cs.n) (hP : Part c.dist c.cluster cs.n conn i) :
    cview c.dist (crun defs c conn none cs).cs i = (run defs c none (cview c.dist cs i)).st ∧
      (crun defs c conn none cs).log = (run defs c none (cview c.dist cs i)).log ∧
      (crun defs c conn none cs).ok = (run defs c none (cview c.dist cs i)).ok := by
  obtain ⟨b, h1, h2, h3, _⟩ := crun_refines defs c conn none cs i hc hP
  exact ⟨h1, h2, h3⟩

theorem crun_n (defs : List GroupDef) (c : Cfg) (conn : Nat) (f : Option CFault) (cs : CSt) :
    (crun defs c conn f cs).cs.n = cs.n := by
  by_cases hc : conn < cs.n
  · exact (crun_refines defs c conn f cs conn hc ⟨hc, Or.inl rfl⟩).choose_spec.2.2.2
  · simp [crun, hc]

/-! ## nodes that do not take part: without a cluster a run leaves every other node alone -/

/-- what a process connected to node `i` would see of a cluster state -/
def NodeSame (i : Nat) (cs cs' : CSt) : Prop := cview false cs' i = cview false cs i

theorem capply_frame {conn i : Nat} (hi : i ≠ conn) (sel : Nat → Bool) (x : Stmt) (cs : CSt) (hx : FromCfg [] x) :
    cview false (capply conn sel x cs) i = cview false cs i := by
  have hinv : visNodes false i conn = false := by simpa [visNodes] using fun e => hi e.symm
  have htg : ctarget cs.n conn x i = false := by
    have hoc : x.onCluster = false := by
      cases x with
      | read _ _ => rfl
      | put _ _ _ _ => rfl
      | alterPolicy _ _ _ => simpa using hx rfl
      | alterTune _ _ => simpa using hx rfl
      | alterTTL _ _ _ => simpa using hx rfl
    have : (i == conn) = false := by simpa using hi
    simp [ctarget, hoc, this]
  apply St.ext'
  · funext fp
    simp only [cview, capply]
    cases x <;> try rfl
    rename_i fp' tp nm v
    simp only []
    by_cases hs : sel conn = true
    · simp only [hs, if_true, latest_append, hinv, Bool.false_and, Bool.false_eq_true, if_false]
    · simp [hs]
  · funext y; simp only [cview, capply, htg, Bool.false_and, Bool.false_eq_true, if_false]
  · funext y; simp only [cview, capply, htg, Bool.false_and, Bool.false_eq_true, if_false]

theorem cissue_frame {conn i : Nat} (hi : i ≠ conn) (f : Option CFault) (x : Stmt) (cc : CCtx) (hx : FromCfg [] x) :
    cview false (cissue conn f x cc).1.cs i = cview false cc.cs i := by
  unfold cissue
  cases f with
  | none => exact capply_frame hi _ x cc.cs hx
  | some ft =>
    simp only []
    split
    · exact capply_frame hi _ x cc.cs hx
    · exact capply_frame hi _ x cc.cs hx

theorem cexecPlan_frame {conn i : Nat} (hi : i ≠ conn) (f : Option CFault) : ∀ (xs : List Stmt) (cc : CCtx),
    (∀ x ∈ xs, FromCfg [] x) → cview false (cexecPlan conn f xs cc).1.cs i = cview false cc.cs i := by
  intro xs
  induction xs with
  | nil => intro cc _; rfl
  | cons x rest ih =>
    intro cc hx
    have h1 := cissue_frame hi f x cc (hx x (by simp))
    simp only [cexecPlan]
    rcases hs : cissue conn f x cc with ⟨cc', ok⟩
    rw [hs] at h1
    cases ok with
    | false => exact h1
    | true => simp only []; rw [ih cc' (fun y hy => hx y (List.mem_cons_of_mem _ hy))]; exact h1

theorem crunGroups_frame {conn i : Nat} (hi : i ≠ conn) (f : Option CFault) (c : Cfg) (hcl : c.cluster = []) :
    ∀ (gs : List GroupDef) (cc : CCtx), cview false (crunGroups conn f c gs cc).1.cs i = cview false cc.cs i := by
  intro gs
  induction gs with
  | nil => intro cc; rfl
  | cons g gs ih =>
    intro cc
    have hg : cview false (crunGroup conn f c g cc).1.cs i = cview false cc.cs i := by
      have h1 := cissue_frame hi f (readStmt c g) cc (read_fromCfg [] c g)
      simp only [crunGroup]
      rcases hs : cissue conn f (readStmt c g) cc with ⟨cc', ok⟩
      rw [hs] at h1
      cases ok with
      | false => exact h1
      | true =>
        simp only []
        split
        · exact h1
        · rw [cexecPlan_frame hi f (plan c g) cc' (by rw [← hcl]; exact plan_fromCfg c g)]; exact h1
    simp only [crunGroups]
    rcases hs : crunGroup conn f c g cc with ⟨cc', ok⟩
    rw [hs] at hg
    cases ok with
    | false => exact hg
    | true => simp only []; rw [ih cc']; exact hg

/-- Without a configured cluster (`clusterName == ""`) a run of `Rotate` connected to `conn` changes nothing a process
    connected to any other node sees: not its tables, not its settings. -/
theorem crun_frame (defs : List GroupDef) (c : Cfg) (hcl : c.cluster = []) (conn : Nat) (f : Option CFault) (cs : CSt)
    (i : Nat) (hi : i ≠ conn) : cview false (crun defs c conn f cs).cs i = cview false cs i := by
  unfold crun
  split
  · exact crunGroups_frame hi f c hcl defs ⟨cs, []⟩
  · rfl

end Qryn.Ctrl.Rotate
