import Qryn.Read.Regroup
import Qryn.Proofs.Encode
/-! Lemmas about `ResponseOptimizerPlanner` as the encoders see it: a portion regrouped per fingerprint is contiguous. Core-only. -/
namespace Qryn.Encode
open Qryn

theorem optSegments_hold (thr : Nat) (pend : List Entry) (batches : List (List Entry)) :
    optSegments true thr pend batches =
      if (pend ++ batches.flatten).length = 0 then [] else [pend ++ batches.flatten] := by
  induction batches generalizing pend with
  | nil => simp [optSegments]
  | cons b r ih => simp [optSegments, ih]

theorem mem_dropWhile_replicate_append (a n : Nat) (l : List Nat) (b : Nat)
    (h : b ∈ (List.replicate n a ++ l).dropWhile (fun x => decide (x = a))) : b ∈ l := by
  induction n with
  | zero => exact (List.dropWhile_sublist _).subset (by simpa using h)
  | succ n ih =>
    apply ih
    simpa [List.replicate_succ, List.dropWhile_cons] using h

theorem contig_replicate_append (a n : Nat) (l : List Nat) (ha : a ∉ l) (hl : Contig l) :
    Contig (List.replicate n a ++ l) := by
  induction n with
  | zero => simpa using hl
  | succ n ih =>
    rw [List.replicate_succ, List.cons_append]
    refine ⟨?_, ih⟩
    intro b hb hba
    subst hba
    exact ha (mem_dropWhile_replicate_append b n l b hb)

theorem map_fp_filter (es : List Entry) (fp : Nat) :
    (es.filter (fun e => decide (e.fp = fp))).map (·.fp) =
      List.replicate (es.filter (fun e => decide (e.fp = fp))).length fp := by
  induction es with
  | nil => rfl
  | cons e r ih =>
    by_cases h : e.fp = fp
    · simp [h, List.replicate_succ] at ih ⊢; exact ih
    · simp [h] at ih ⊢; exact ih

/-- the entries of a list regrouped per fingerprint under a duplicate-free visiting order are contiguous -/
theorem contig_grouped (order : List Nat) (hn : order.Nodup) (es : List Entry) :
    Contig ((order.flatMap (fun fp => es.filter (fun e => decide (e.fp = fp)))).map (·.fp)) := by
  induction order with
  | nil => trivial
  | cons fp r ih =>
    have hn' := List.nodup_cons.mp hn
    simp only [List.flatMap_cons, List.map_append]
    rw [map_fp_filter]
    apply contig_replicate_append _ _ _ _ (ih hn'.2)
    intro hmem
    obtain ⟨e, he, hfp⟩ := List.mem_map.mp hmem
    obtain ⟨fp', hfp', hin⟩ := List.mem_flatMap.mp he
    have := (List.mem_filter.mp hin).2
    simp at this
    rw [this] at hfp
    subst hfp
    exact hn'.1 hfp'

theorem regroup_flatten (order : List Nat) (seg : List Entry) :
    (regroup order seg).flatten = order.flatMap (fun fp => seg.filter (fun e => decide (e.fp = fp))) := by
  induction order with
  | nil => rfl
  | cons fp r ih =>
    simp only [regroup, List.map_cons, List.flatMap_cons] at ih ⊢
    cases hg : seg.filter (fun e => decide (e.fp = fp)) with
    | nil => simp [ih]
    | cons x g => simp [ih]

theorem rowsOf_grouped (order : List Nat) (seg : List Entry) :
    rowsOf (order.flatMap (fun fp => seg.filter (fun e => decide (e.fp = fp)))) =
      order.flatMap (fun fp => (rowsOf seg).filter (fun e => decide (e.fp = fp))) := by
  induction order with
  | nil => rfl
  | cons fp r ih =>
    simp only [List.flatMap_cons, rowsOf, List.filter_append] at ih ⊢
    rw [ih, List.filter_filter, List.filter_filter]
    congr 1
    apply List.filter_congr
    intro e _
    exact Bool.and_comm _ _

/-- the rows of one stream come out once, in their order -/
theorem grouped_keeps_stream (order : List Nat) (hn : order.Nodup) (es : List Entry) (fp : Nat) (hfp : fp ∈ order) :
    (order.flatMap (fun k => es.filter (fun e => decide (e.fp = k)))).filter (fun e => decide (e.fp = fp)) =
      es.filter (fun e => decide (e.fp = fp)) := by
  induction order with
  | nil => cases hfp
  | cons k r ih =>
    have hn' := List.nodup_cons.mp hn
    simp only [List.flatMap_cons, List.filter_append, List.filter_filter]
    by_cases hk : k = fp
    · subst hk
      have hrest : (r.flatMap (fun k' => es.filter (fun e => decide (e.fp = k')))).filter (fun e => decide (e.fp = k)) = [] := by
        rw [List.filter_eq_nil_iff]
        intro e he
        obtain ⟨k', hk', hin⟩ := List.mem_flatMap.mp he
        have := (List.mem_filter.mp hin).2
        simp at this ⊢
        intro h
        rw [this] at h
        subst h
        exact hn'.1 hk'
      rw [hrest]
      simp
    · have hfp' : fp ∈ r := by
        rcases List.mem_cons.mp hfp with h | h
        · exact absurd h.symm hk
        · exact h
      rw [ih hn'.2 hfp']
      have : es.filter (fun e => decide (e.fp = fp) && decide (e.fp = k)) = [] := by
        rw [List.filter_eq_nil_iff]
        intro e _
        simp
        intro h1 h2
        exact hk (h2.symm.trans h1)
      rw [this]
      simp

end Qryn.Encode
