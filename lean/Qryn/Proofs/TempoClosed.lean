import Qryn.Tempo.SearchSegs
import Qryn.Proofs.Closed
import Qryn.Proofs.RawAtoms
import Qryn.Proofs.WfBuild
/-! C10 for the legacy Tempo search: the statement `TempoService.Search` sends is closed for EVERY list of tags (names and
    values any byte strings), every window / duration / limit and version flag; hypothesis: the two table names are closed
    text (configuration). -/
namespace Qryn.TempoSegs
open Qryn Qryn.Sql Qryn.Lex

theorem litSafe_digit (n : Nat) : litSafe (Time.digit n) = true := by
  have h : n % 10 < 10 := Nat.mod_lt _ (by decide)
  unfold Time.digit
  generalize n % 10 = k at h
  have : k = 0 ∨ k = 1 ∨ k = 2 ∨ k = 3 ∨ k = 4 ∨ k = 5 ∨ k = 6 ∨ k = 7 ∨ k = 8 ∨ k = 9 := by omega
  rcases this with rfl | rfl | rfl | rfl | rfl | rfl | rfl | rfl | rfl | rfl <;> decide

/-- a formatted date consists of digits and `-` for EVERY second: no quote, no backslash -/
theorem litSafe_formatDate (s : Int) : ∀ c ∈ Time.formatDate s, litSafe c = true := by
  intro c hc
  unfold Time.formatDate at hc
  simp only [Time.pad4, Time.pad2, List.mem_append, List.mem_cons, List.mem_singleton, List.not_mem_nil, or_false] at hc
  rcases hc with ((((h | h | h | h) | h) | (h | h)) | h) | (h | h) <;> subst h <;> first | exact litSafe_digit _ | decide

/-- `pre` does not start with a quote and opens a literal from every entry state -/
def opensLit (pre : Bytes) : Bool :=
  pre.head? != some 39 && !pre.isEmpty && [St.normal, .word, .strQ].all (fun q => (run q pre).1 == .str)

/-- raw text `pre ++ d ++ post` where `pre` opens a literal (from every entry state), `d` is free of quote and backslash
    and `post` closes it and ends between tokens -/
theorem rawC_inLit (pre d post : Bytes) (hpre : opensLit pre = true) (hd : ∀ c ∈ d, litSafe c = true)
    (hpost : (run .str post).1.ground = true) : rawC (pre ++ d ++ post) = true := by
  simp only [opensLit, Bool.and_eq_true, List.all_eq_true, bne_iff_ne, ne_eq, Bool.not_eq_true', beq_iff_eq] at hpre
  obtain ⟨⟨hh, hne⟩, hall⟩ := hpre
  have hne' : pre ≠ [] := by intro h; simp [h] at hne
  rw [rawC_iff]
  refine ⟨?_, ?_⟩
  · rw [List.append_assoc, head?_append_of_ne_nil _ hne']
    exact hh
  · intro q hq
    have hq' : q ∈ [St.normal, .word, .strQ] := by cases q <;> simp_all [St.entry]
    rw [List.append_assoc, run_append, hall q hq', run_append, run_str_litSafe d hd]
    exact hpost

theorem kw_dateGe : opensLit (b "(date) " ++ b ">=" ++ b " (toDate('") = true := by decide +kernel
theorem kw_dateLe : opensLit (b "(date) " ++ b "<=" ++ b " (toDate('") = true := by decide +kernel
theorem kw_datePost : (run .str (b "'))")).1.ground = true := by decide +kernel

theorem PC_dateGe (s : Int) : PC (dateClause ">=" s) := by
  unfold dateClause
  exact PC_raw (rawC_inLit _ _ _ kw_dateGe (litSafe_formatDate s) kw_datePost)
theorem PC_dateLe (s : Int) : PC (dateClause "<=" s) := by
  unfold dateClause
  exact PC_raw (rawC_inLit _ _ _ kw_dateLe (litSafe_formatDate s) kw_datePost)

/-- `(col) op (n)` for the column / operator pairs of the code, every integer -/
theorem PC_numClause (col op : String) (n : Int) (hpre : rawC (b "(" ++ b col ++ b ") " ++ b op ++ b " (") = true) :
    PC (numClause col op n) := by
  unfold numClause
  have := rawC_wrap hpre (rawE_intText n) kw_close
  exact PC_raw (by simpa [List.append_assoc] using this)

theorem PC_leaf3 (x z : Bytes) (v : Bytes) (hx : rawC x = true) (hz : rawC z = true) : PC [.raw x, .str v, .raw z] := by
  simpa using PC.wrap (PC_raw hx) (PE_str v) (PC_raw hz)

theorem PC_opSegs (t : Tag) : PC (opSegs t) := by
  unfold opSegs
  cases t.op <;> simp only
  · exact PC_leaf3 _ _ _ (by decide +kernel) kw_close
  · exact PC_leaf3 _ _ _ (by decide +kernel) kw_close
  · exact PC_leaf3 _ _ _ (by decide +kernel) (by decide +kernel)
  · exact PC_leaf3 _ _ _ (by decide +kernel) (by decide +kernel)

theorem PC_paren {c : List Seg} (h : PE c) : PC (paren c) := PC.wrap (PC_raw kw_open) h (PC_raw kw_close)

theorem clauses_PE (x : Idx) (t : Tag) : ∀ c ∈ clauses x t, PE c := by
  intro c hc
  unfold clauses at hc
  simp only [List.mem_append, List.mem_cons, List.not_mem_nil, or_false] at hc
  rcases hc with ((((h | h) | h) | h) | h) | h
  · subst h
    exact (PC_leaf3 _ _ _ (by decide +kernel) kw_close).toPE
  · subst h; exact (PC_opSegs t).toPE
  · split at h
    · simp only [List.mem_append, List.mem_singleton] at h
      rcases h with h | h
      · subst h; exact (PC_dateGe _).toPE
      · split at h
        · simp only [List.mem_singleton] at h; subst h
          exact (PC_numClause _ _ _ (by decide +kernel)).toPE
        · cases h
    · cases h
  · split at h
    · simp only [List.mem_append, List.mem_singleton] at h
      rcases h with h | h
      · subst h; exact (PC_dateLe _).toPE
      · split at h
        · simp only [List.mem_singleton] at h; subst h
          exact (PC_numClause _ _ _ (by decide +kernel)).toPE
        · cases h
    · cases h
  · split at h
    · simp only [List.mem_singleton] at h; subst h
      exact (PC_numClause _ _ _ (by decide +kernel)).toPE
    · cases h
  · split at h
    · simp only [List.mem_singleton] at h; subst h
      exact (PC_numClause _ _ _ (by decide +kernel)).toPE
    · cases h

theorem kw_andSep : rawC (b " and ") = true := by decide +kernel

theorem rawC_tagHead (x : Idx) (ht : rawE x.table = true) : rawC (tagHead x) = true := by
  unfold tagHead
  have hw : rawC (b " WHERE ") = true := kw_where
  split
  · have h := rawC_wrap (x := b " SELECT trace_id, span_id" ++ b ", timestamp_ns" ++ b " FROM ") (by decide +kernel) ht hw
    simpa [List.append_assoc] using h
  · have h := rawC_wrap (x := b " SELECT trace_id, span_id" ++ [] ++ b " FROM ") (by decide +kernel) ht hw
    simpa [List.append_assoc] using h

theorem PX_tagSelSegs (x : Idx) (t : Tag) (ht : rawE x.table = true) : PX (tagSelSegs x t) := by
  unfold tagSelSegs
  refine PC.appendPE (PC_raw (rawC_tagHead x ht)) (PE_joinS (PC_raw kw_andSep) _ ?_)
  exact PE_of_mem_map (fun c hc => (PC_paren (clauses_PE x t c hc)).toPE)

theorem allWord_subAlias (i : Nat) : allWord (subAlias i) = true :=
  allWord_append (by decide +kernel) (allWord_natDigits i)
theorem subAlias_ne (i : Nat) : subAlias i ≠ [] := by
  unfold subAlias
  intro h
  have := (List.append_eq_nil_iff.mp h).1
  exact absurd this (by decide +kernel)

theorem rawC_joinOn (i : Nat) : rawC (joinOn i) = true := by
  unfold joinOn
  have hw := rawC_word (allWord_subAlias i) (subAlias_ne i)
  exact rawC_append (rawC_append (rawC_append (rawC_append (by decide +kernel) hw) (by decide +kernel)) hw) (by decide +kernel)

theorem PX_joinsSegs (x : Idx) (ht : rawE x.table = true) : ∀ (ts : List Tag) (i : Nat), PX (joinsSegs x i ts)
  | [], _ => PX_nil
  | t :: rest, i => by
    have hj : rawC (b ") as " ++ subAlias i ++ b " ON " ++ joinOn i) = true :=
      rawC_append (rawC_append (rawC_append (by decide +kernel) (rawC_word (allWord_subAlias i) (subAlias_ne i))) (by decide +kernel))
        (rawC_joinOn i)
    have h1 : PC ([Seg.raw (b " INNER ANY JOIN (")] ++ tagSelSegs x t ++ [.raw (b ") as " ++ subAlias i ++ b " ON " ++ joinOn i)]) :=
      PC.wrap (PC_raw (by decide +kernel)) (PX_tagSelSegs x t ht).toPE (PC_raw hj)
    simpa [joinsSegs] using PX.append h1.toPX (PX_joinsSegs x ht rest (i + 1))

theorem rawE_nil : rawE [] = true := by decide +kernel

theorem PE_raw_nil : PX [Seg.raw []] := fun q hq => by simp [safeSegs, runSegs, Seg.render, run, hq]

theorem PX_idxTail (x : Idx) : PX [.raw (idxTail x)] := by
  unfold idxTail
  split
  · intro q hq
    have h := rawC_appE (by decide +kernel : rawC (b " ORDER BY subsel_0.timestamp_ns desc LIMIT ") = true) (rawE_intText x.limit)
    rw [rawE_iff] at h
    have hc : rawC (b " ORDER BY subsel_0.timestamp_ns desc LIMIT ") = true := by decide +kernel
    rw [rawC_iff] at hc
    refine ⟨?_, ?_⟩
    · simp only [safeSegs, Bool.and_true, Bool.or_eq_true, bne_iff_ne, ne_eq]
      right
      rw [head?_append_of_ne_nil _ (by decide +kernel)]
      exact hc.1
    · simp only [runSegs, Seg.render, List.append_nil]
      rw [run_append]
      have hg := hc.2 q hq
      have := (rawE_iff (intText x.limit)).mp (rawE_intText x.limit) _ hg
      simpa using this
  · exact PE_raw_nil

/-- **the index query** (`SQLIndexQuery.String`) is closed for every tag list -/
theorem PX_idxSegs (x : Idx) (t0 : Tag) (rest : List Tag) (ht : rawE x.table = true) : PX (idxSegs x t0 rest) := by
  unfold idxSegs
  have h1 : PC ([Seg.raw (b " SELECT subsel_0.trace_id, subsel_0.span_id FROM (")] ++ tagSelSegs x t0 ++ [.raw (b ") as subsel_0")]) :=
    PC.wrap (PC_raw (by decide +kernel)) (PX_tagSelSegs x t0 ht).toPE (PC_raw (by decide +kernel))
  exact PX.append (PX.append h1.toPX (PX_joinsSegs x ht rest 1)) (PX_idxTail x)

/-! ### the whole search statement -/

theorem searchClauses_PE (s : Search) (idx : Option (List Seg)) (hi : ∀ i, idx = some i → PE i) : ∀ c ∈ searchClauses s idx, PE c := by
  intro c hc
  unfold searchClauses at hc
  simp only [List.mem_append] at hc
  rcases hc with (((h | h) | h) | h) | h
  · cases idx with
    | none => cases h
    | some i =>
      simp only [List.mem_singleton] at h; subst h
      exact (PC.wrap (PC_raw (by decide +kernel : rawC (b "(trace_id, span_id) IN (") = true)) (hi i rfl) (PC_raw kw_close)).toPE
  all_goals
    split at h
    · simp only [List.mem_singleton] at h; subst h
      exact (PC_numClause _ _ _ (by decide +kernel)).toPE
    · cases h

theorem rawC_searchHead (s : Search) (ht : rawE s.tracesTable = true) : rawE (searchHead s) = true := by
  unfold searchHead
  exact rawC_appE (by decide +kernel) ht

theorem intText_ne_nil (i : Int) : intText i ≠ [] := by
  rw [intText_eq]
  split
  · simp
  · exact natDigits_ne_nil _

theorem PC_searchTail (s : Search) : PC [.raw (searchTail s)] := by
  unfold searchTail
  split
  · rename_i h
    have hw : rawC (intText s.limit) = true := rawC_word (allWord_intText_nonneg _ (by omega)) (intText_ne_nil _)
    have := rawC_append (rawC_append (by decide +kernel : rawC (b " ORDER BY start_time_unix_nano DESC") = true)
      (by decide +kernel : rawC (b " LIMIT ") = true)) hw
    exact PC_raw (by simpa [List.append_assoc] using this)
  · exact PC_raw (by decide +kernel)

/-- **the statement of `TempoService.Search`** is closed: for every tag list (names, values: any bytes), window, durations,
    limit, version flag; the two table names are closed text -/
theorem PE_searchSegs (s : Search) (x : Idx) (tags : List Tag) (hs : rawE s.tracesTable = true) (hx : rawE x.table = true) :
    PE (searchSegs s (idxOf x tags)) := by
  have hi : ∀ i, idxOf x tags = some i → PE i := by
    intro i h
    cases tags with
    | nil => cases h
    | cons t0 rest =>
      simp only [idxOf, Option.some.injEq] at h
      subst h
      exact (PX_idxSegs x t0 rest hx).toPE
  generalize idxOf x tags = idx at hi
  unfold searchSegs
  have hh : PE [Seg.raw (searchHead s)] := PE_raw (rawC_searchHead s hs)
  split
  · simpa using PE.appendPC hh (PC_searchTail s)
  · have hj := PE_joinS (PC_raw kw_andSep) _ (PE_of_mem_map (fun c hc => (PC_paren (searchClauses_PE s idx hi c hc)).toPE))
    have h1 := PE.sep hh (PC_raw kw_where) hj
    have := PE.appendPC h1 (PC_searchTail s)
    simpa [List.append_assoc] using this

theorem wf_traceCols : wfExprs traceCols = true := by
  simp only [traceCols, wfExprs, wfExpr, Bool.and_eq_true, Bool.and_true]; decide +kernel

/-- trace by id: closed for EVERY byte string in the place of the trace id, every window -/
theorem wf_traceSel (table : String) (traceId : Bytes) (startNs endNs : Int) (ht : rawE (b table) = true) :
    wfSel (traceSel table traceId startNs endNs) = true := by
  have hc := wf_traceCols
  have h1 := rawE_intText startNs
  have h2 := rawE_intText endNs
  by_cases hs : startNs = 0 <;> by_cases he : endNs = 0 <;>
    simp only [traceSel, wfSel, wfWiths, wfSelBody, wfExprs, wfExpr, wfJoins, and_, eq, ge, lt, hs, he, if_true, if_false, hc, ht, h1, h2,
      List.append_nil, List.cons_append, List.nil_append, Bool.and_eq_true, Bool.and_true, Alias.text, not_false_eq_true, not_true_eq_false] <;>
    decide +kernel

/-- tag values: closed for EVERY tag -/
theorem wf_tagValuesSel (table : String) (tag : Bytes) (ht : rawE (b table) = true) : wfSel (tagValuesSel table tag) = true := by
  simp only [tagValuesSel, wfSel, wfWiths, wfSelBody, wfExprs, wfExpr, wfJoins, and_, eq, ht, Bool.and_eq_true, Bool.and_true]
  decide +kernel

end Qryn.TempoSegs
