import Qryn.Proofs.InternalSpec
/-! `| json name="path"`: following the path (`LogQL.Stages.lookupPath`) finds the text of the LAST value of the document
    (document order, a composite before its members) whose address is the path — the link between the reading by lookup
    and the document-order definition `jsonPathFound`. Label-map lemmas (`set`, `get`). Core only. -/
namespace Qryn.Read
open Qryn Qryn.LogQL.Stages

theorem set_set (l : Labels) (k x y : Bytes) : (l.set k x).set k y = l.set k y := by
  induction l with
  | nil => simp [Labels.set]
  | cons p rest ih =>
    obtain ⟨k', v'⟩ := p
    simp only [Labels.set]
    by_cases h1 : k' = k
    · simp [h1, Labels.set]
    · by_cases h2 : k < k'
      · simp [h1, h2, Labels.set]
      · simp [h1, h2, Labels.set, ih]

theorem get_nil (k : Bytes) : Labels.get [] k = [] := rfl

theorem get_set_self (l : Labels) (k x : Bytes) : (l.set k x).get k = x := by
  induction l with
  | nil => simp [Labels.set, Labels.get, List.lookup]
  | cons p rest ih =>
    obtain ⟨k', v'⟩ := p
    simp only [Labels.set]
    by_cases h1 : k' = k
    · simp [h1, Labels.get, List.lookup]
    · by_cases h2 : k < k'
      · simp [h1, h2, Labels.get, List.lookup]
      · have hne : (k == k') = false := by simpa using fun e : k = k' => h1 e.symm
        simp only [h1, h2, if_false, Labels.get, List.lookup, hne]
        exact ih

theorem get_set_ne (l : Labels) (k k2 x : Bytes) (h : k2 ≠ k) : (l.set k x).get k2 = l.get k2 := by
  induction l with
  | nil =>
    have : (k2 == k) = false := by simpa using h
    simp [Labels.set, Labels.get, List.lookup, this]
  | cons p rest ih =>
    obtain ⟨k', v'⟩ := p
    simp only [Labels.set]
    by_cases h1 : k' = k
    · subst h1
      have : (k2 == k') = false := by simpa using h
      simp [Labels.get, List.lookup, this]
    · by_cases h2 : k < k'
      · have : (k2 == k) = false := by simpa using h
        simp [h1, h2, Labels.get, List.lookup, this]
      · simp only [h1, h2, if_false, Labels.get, List.lookup]
        cases hk : k2 == k' with
        | true => rfl
        | false => exact ih

/-- the label after the walk, given what the path leads to -/
def setFound (l : Labels) (n : Bytes) : Option Bytes → Labels
  | some x => l.set n x
  | none => l

theorem setFound_setFound (l : Labels) (n : Bytes) (a b : Option Bytes) :
    setFound (setFound l n a) n b = setFound l n (match b with | some y => some y | none => a) := by
  cases a <;> cases b <;> simp [setFound, set_set]

/-- the text of the last value in the list whose address is `p` -/
def lastAt : List (List PathSeg × Bytes) → List PathSeg → Option Bytes
  | [], _ => none
  | pv :: rest, p =>
    match lastAt rest p with
    | some x => some x
    | none => if pv.1 = p then some pv.2 else none

theorem lastAt_append (a b : List (List PathSeg × Bytes)) (p : List PathSeg) :
    lastAt (a ++ b) p = match lastAt b p with | some x => some x | none => lastAt a p := by
  induction a with
  | nil => simp only [List.nil_append, lastAt]; cases lastAt b p <;> rfl
  | cons pv rest ih =>
    simp only [List.cons_append, lastAt, ih]
    cases lastAt b p <;> rfl

theorem lastAt_map_nil (seg : PathSeg) (lv : List (List PathSeg × Bytes)) :
    lastAt (lv.map (fun pv => (seg :: pv.1, pv.2))) [] = none := by
  induction lv with
  | nil => rfl
  | cons pv rest ih => simp [lastAt, ih]

theorem lastAt_map_cons (seg seg' : PathSeg) (r : List PathSeg) (lv : List (List PathSeg × Bytes)) :
    lastAt (lv.map (fun pv => (seg :: pv.1, pv.2))) (seg' :: r) = if seg = seg' then lastAt lv r else none := by
  induction lv with
  | nil => simp [lastAt]
  | cons pv rest ih =>
    simp only [List.map_cons, lastAt, ih]
    by_cases h : seg = seg'
    · subst h
      simp only [if_true, List.cons.injEq, true_and]
    · simp [h]

/-- one parameter: the document-order pass leaves the text of the last value at its path -/
theorem foldl_setMatching_single (n : Bytes) (p : List PathSeg) (lv : List (List PathSeg × Bytes)) (l : Labels) :
    lv.foldl (setMatching [(n, p)]) l = setFound l n (lastAt lv p) := by
  induction lv generalizing l with
  | nil => rfl
  | cons pv rest ih =>
    simp only [List.foldl_cons, ih, lastAt]
    simp only [setMatching, List.foldl_cons, List.foldl_nil]
    by_cases h : p = pv.1
    · have h' : pv.1 = p := h.symm
      simp only [h, if_true]
      cases hl : lastAt rest pv.1 with
      | none => rfl
      | some x => simp [setFound, set_set]
    · have h' : ¬ pv.1 = p := fun e => h e.symm
      simp only [h, h', if_false]
      cases lastAt rest p <;> rfl

/-! ### `lookupPath` finds the last value at the path -/
theorem kvs_no_root (kvs : JKvs) : lastAt (pleavesKvs kvs) [] = none := by
  cases kvs with
  | nil => rfl
  | cons k v rest => simp only [pleavesKvs, lastAt_append, kvs_no_root rest, lastAt_map_nil]

theorem arr_no_root (i : Nat) (xs : JList) : lastAt (pleavesArr i xs) [] = none := by
  cases xs with
  | nil => rfl
  | cons v rest => simp only [pleavesArr, lastAt_append, arr_no_root (i + 1) rest, lastAt_map_nil]

theorem kvs_no_idx (kvs : JKvs) (i : Nat) (r : List PathSeg) : lastAt (pleavesKvs kvs) (.idx i :: r) = none := by
  cases kvs with
  | nil => rfl
  | cons k v rest => simp [pleavesKvs, lastAt_append, kvs_no_idx rest i r, lastAt_map_cons]

theorem arr_no_key (j : Nat) (xs : JList) (k : Bytes) (r : List PathSeg) : lastAt (pleavesArr j xs) (.key k :: r) = none := by
  cases xs with
  | nil => rfl
  | cons v rest => simp [pleavesArr, lastAt_append, arr_no_key (j + 1) rest k r, lastAt_map_cons]

theorem arr_no_lower (j : Nat) (xs : JList) (m : Nat) (hm : m < j) (r : List PathSeg) :
    lastAt (pleavesArr j xs) (.idx m :: r) = none := by
  cases xs with
  | nil => rfl
  | cons v rest =>
    have h1 : ¬ j = m := by omega
    simp [pleavesArr, lastAt_append, arr_no_lower (j + 1) rest m (by omega) r, lastAt_map_cons, h1]

mutual
theorem lookupPath_last (v : JVal) (p : List PathSeg) : lookupPath v p = lastAt (pleavesVal v) p := by
  cases v with
  | obj text kvs =>
    cases p with
    | nil => simp [lookupPath, pleavesVal, lastAt, kvs_no_root]
    | cons s r =>
      cases s with
      | key k =>
        simp only [lookupPath, pleavesVal, lastAt, lookupKvs_last kvs k r]
        cases lastAt (pleavesKvs kvs) (.key k :: r) <;> simp
      | idx i => simp [lookupPath, pleavesVal, lastAt, kvs_no_idx]
  | arr text xs =>
    cases p with
    | nil => simp [lookupPath, pleavesVal, lastAt, arr_no_root]
    | cons s r =>
      cases s with
      | key k => simp [lookupPath, pleavesVal, lastAt, arr_no_key]
      | idx i =>
        simp only [lookupPath, pleavesVal, lastAt]
        have := lookupList_last xs i 0 r
        simp only [Nat.zero_add] at this
        rw [this]
        cases lastAt (pleavesArr 0 xs) (.idx i :: r) <;> simp
  | str s => cases p <;> simp [lookupPath, pleavesVal, lastAt]
  | raw t => cases p <;> simp [lookupPath, pleavesVal, lastAt]
  | bad => cases p <;> simp [lookupPath, pleavesVal, lastAt]
theorem lookupKvs_last (kvs : JKvs) (k : Bytes) (r : List PathSeg) :
    lookupKvs kvs k r = lastAt (pleavesKvs kvs) (.key k :: r) := by
  cases kvs with
  | nil => rfl
  | cons k' v rest =>
    simp only [lookupKvs, pleavesKvs, lastAt_append, lookupKvs_last rest k r, lastAt_map_cons, lookupPath_last v r]
    cases lastAt (pleavesKvs rest) (.key k :: r) with
    | some x => rfl
    | none =>
      by_cases h : k' = k
      · subst h; simp
      · have : ¬ PathSeg.key k' = PathSeg.key k := fun e => h (PathSeg.key.inj e)
        simp [h, this]
theorem lookupList_last (xs : JList) (i j : Nat) (r : List PathSeg) :
    lookupList xs i r = lastAt (pleavesArr j xs) (.idx (j + i) :: r) := by
  cases xs with
  | nil => rfl
  | cons v rest =>
    cases i with
    | zero =>
      simp only [lookupList, pleavesArr, lastAt_append, Nat.add_zero, lastAt_map_cons, if_true, lookupPath_last v r,
        arr_no_lower (j + 1) rest j (by omega) r]
    | succ i' =>
      have h1 : ¬ j = j + (i' + 1) := by omega
      have h2 : PathSeg.idx j ≠ PathSeg.idx (j + (i' + 1)) := fun e => h1 (PathSeg.idx.inj e)
      simp only [lookupList, pleavesArr, lastAt_append, lastAt_map_cons, h2, if_false]
      rw [lookupList_last rest i' (j + 1) r]
      have : j + 1 + i' = j + (i' + 1) := by omega
      rw [this]
      cases lastAt (pleavesArr (j + 1) rest) (.idx (j + (i' + 1)) :: r) <;> rfl
end

/-- **one parameter**: the document-order definition leaves what following the path finds -/
theorem jsonPathFound_single (n : Bytes) (p : List PathSeg) (doc : JVal) :
    jsonPathFound [(n, p)] doc = setFound [] n (lookupPath doc p) := by
  simp only [jsonPathFound, foldl_setMatching_single, lookupPath_last]

end Qryn.Read
