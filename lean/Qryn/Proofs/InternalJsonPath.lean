import Qryn.Proofs.InternalSpec
/-! `| json name="path"` with one parameter: the streaming walk of `jsonPathProcessor` sets the label to the
    scalar `LogQL.Stages.lookupPath` finds (for a key that occurs twice: the last occurrence leading to a
    scalar), on documents the decoder reads to the end. Core only. -/
namespace Qryn.Read
open Qryn Qryn.LogQL.Stages

theorem set_set (l : Labels) (k x y : Bytes) : (l.set k x).set k y = l.set k y := by
  induction l with
  | nil => simp [Labels.set]
  | cons p rest ih =>
    obtain ⟨k', v'⟩ := p
    simp only [Labels.set]
    by_cases h1 : k' = k
    · simp [h1, Labels.set]
    · by_cases h2 : k < k'
      · simp [h1, h2, Labels.set]
      · simp [h1, h2, Labels.set, ih]

/-- the label after the walk, given what the path leads to -/
def setFound (l : Labels) (n : Bytes) : Option Bytes → Labels
  | some x => l.set n x
  | none => l

theorem setFound_setFound (l : Labels) (n : Bytes) (a b : Option Bytes) :
    setFound (setFound l n a) n b = setFound l n (match b with | some y => some y | none => a) := by
  cases a <;> cases b <;> simp [setFound, set_set]

theorem aheadsFor_single (seg : PathSeg) (n : Bytes) (p : List PathSeg) :
    aheadsFor seg [(n, p)] = match p with | s :: rest => if s = seg then [(n, rest)] else [] | [] => [] := by
  cases p with
  | nil => rfl
  | cons s rest => by_cases h : s = seg <;> simp [aheadsFor, h]

theorem setAll_single (l : Labels) (n : Bytes) (p : List PathSeg) (v : Bytes) :
    setAll l [(n, p)] v = if p.isEmpty then l.set n v else l := by
  simp [setAll]

/-- where the array walk is: elements from index `j` on -/
def lookupFrom (xs : JList) (j : Nat) : List PathSeg → Option Bytes
  | .idx i :: r => if j ≤ i then lookupList xs (i - j) r else none
  | _ => none

def lookupKey (kvs : JKvs) : List PathSeg → Option Bytes
  | .key k :: r => lookupKvs kvs k r
  | _ => none

mutual
theorem jppVal_single (n : Bytes) (p : List PathSeg) (l : Labels) (v : JVal) (hb : hasBad v = false) :
    jppVal [(n, p)] (l, true) v = (setFound l n (lookupPath v p), true) := by
  cases v with
  | obj kvs =>
    simp only [jppVal, List.isEmpty_cons, Bool.false_eq_true, if_false]
    rw [jppKvs_single n p l kvs (by simpa [hasBad] using hb)]
    cases p with
    | nil => simp [lookupKey, lookupPath]
    | cons s r => cases s <;> simp [lookupKey, lookupPath]
  | arr xs =>
    simp only [jppVal, List.isEmpty_cons, Bool.false_eq_true, if_false]
    rw [jppArr_single n p l xs 0 (by simpa [hasBad] using hb)]
    cases p with
    | nil => simp [lookupFrom, lookupPath]
    | cons s r => cases s <;> simp [lookupFrom, lookupPath]
  | str s =>
    simp only [jppVal, setAll_single]
    cases p <;> simp [lookupPath, setFound]
  | raw t =>
    simp only [jppVal, setAll_single]
    cases p <;> simp [lookupPath, setFound]
  | bad => simp [hasBad] at hb
theorem jppKvs_single (n : Bytes) (p : List PathSeg) (l : Labels) (kvs : JKvs) (hb : hasBadKvs kvs = false) :
    jppKvs [(n, p)] (l, true) kvs = (setFound l n (lookupKey kvs p), true) := by
  cases kvs with
  | nil => cases p with
    | nil => simp [jppKvs, lookupKey, setFound]
    | cons s r => cases s <;> simp [jppKvs, lookupKey, lookupKvs, setFound]
  | cons k v rest =>
    have hbv : hasBad v = false := by
      simp only [hasBadKvs, Bool.or_eq_false_iff] at hb; exact hb.1
    have hbr : hasBadKvs rest = false := by
      simp only [hasBadKvs, Bool.or_eq_false_iff] at hb; exact hb.2
    simp only [jppKvs, aheadsFor_single]
    cases p with
    | nil =>
      simp only [List.isEmpty_nil, if_true, hbv, Bool.not_false]
      rw [jppKvs_single n [] l rest hbr]
      simp [lookupKey]
    | cons s r =>
      by_cases hs : s = PathSeg.key k
      · subst hs
        simp only [if_true, List.isEmpty_cons, Bool.false_eq_true, if_false]
        rw [jppVal_single n r l v hbv]
        simp only [if_true]
        rw [jppKvs_single n (PathSeg.key k :: r) _ rest hbr, setFound_setFound]
        simp only [lookupKey, lookupKvs, if_true]
        cases lookupKvs rest k r <;> rfl
      · simp only [hs, if_false, List.isEmpty_nil, if_true, hbv, Bool.not_false]
        rw [jppKvs_single n (s :: r) l rest hbr]
        cases s with
        | key k' =>
          have : ¬ k = k' := fun e => hs (by rw [e])
          simp only [lookupKey, lookupKvs, this, if_false]
          cases lookupKvs rest k' r <;> rfl
        | idx i => simp [lookupKey]
theorem jppArr_single (n : Bytes) (p : List PathSeg) (l : Labels) (xs : JList) (j : Nat) (hb : hasBadList xs = false) :
    jppArr [(n, p)] j (l, true) xs = (setFound l n (lookupFrom xs j p), true) := by
  cases xs with
  | nil => cases p with
    | nil => simp [jppArr, lookupFrom, setFound]
    | cons s r =>
      cases s with
      | key k => simp [jppArr, lookupFrom, setFound]
      | idx i => by_cases h : j ≤ i <;> simp [jppArr, lookupFrom, lookupList, setFound, h]
  | cons v rest =>
    have hbv : hasBad v = false := by
      simp only [hasBadList, Bool.or_eq_false_iff] at hb; exact hb.1
    have hbr : hasBadList rest = false := by
      simp only [hasBadList, Bool.or_eq_false_iff] at hb; exact hb.2
    simp only [jppArr, aheadsFor_single]
    cases p with
    | nil =>
      simp only [List.isEmpty_nil, if_true, hbv, Bool.not_false]
      rw [jppArr_single n [] l rest (j + 1) hbr]
      simp [lookupFrom]
    | cons s r =>
      by_cases hs : s = PathSeg.idx j
      · subst hs
        simp only [if_true, List.isEmpty_cons, Bool.false_eq_true, if_false]
        rw [jppVal_single n r l v hbv]
        simp only [if_true]
        rw [jppArr_single n (PathSeg.idx j :: r) _ rest (j + 1) hbr, setFound_setFound]
        have : ¬ (j + 1 ≤ j) := by omega
        simp [lookupFrom, this, lookupList]
      · simp only [hs, if_false, List.isEmpty_nil, if_true, hbv, Bool.not_false]
        rw [jppArr_single n (s :: r) l rest (j + 1) hbr]
        cases s with
        | key k => simp [lookupFrom]
        | idx i =>
          have hij : ¬ i = j := fun e => hs (by rw [e])
          simp only [lookupFrom]
          by_cases h1 : j + 1 ≤ i
          · have h2 : j ≤ i := by omega
            have h3 : i - j = (i - (j + 1)) + 1 := by omega
            simp [h1, h2, h3, lookupList]
          · have h2 : ¬ j ≤ i := by omega
            simp [h1, h2]
end

theorem jsonParams_single (n : Bytes) (p : List PathSeg) (doc : JVal) (l : Labels) (hb : hasBad doc = false) :
    jsonParams [(n, p)] doc l = jsonParamLabels [(n, p)] doc l := by
  simp only [jsonParams, jppVal_single n p l doc hb, jsonParamLabels, List.foldl_cons, List.foldl_nil, setFound]
  cases lookupPath doc p <;> rfl

end Qryn.Read
