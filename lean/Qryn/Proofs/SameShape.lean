import Qryn.LogQL.SameShape
import Qryn.Proofs.Closed
import Qryn.Proofs.PlanClosedX
import Qryn.Proofs.SelParts
import Qryn.Proofs.PlanLogXSplit
/-! C10, two requests of the same shape: `sameShapeX q1 q2 →` the statements `planLogX c fin q1` and `planLogX c fin q2`
    have the same segment list once the string leaves are emptied — derived from the relation on QUERIES by walking the
    planner, not assumed. With `plan_closed_logx` this gives equal token structure. -/
namespace Qryn.LogQL
open Qryn Qryn.Sql Qryn.Lex

/-- equal once the leaves are emptied -/
def SEq (x y : List Seg) : Prop := x.map Seg.shape = y.map Seg.shape

theorem SEq.rfl' (x : List Seg) : SEq x x := rfl
theorem SEq.append {a a' c c' : List Seg} (h1 : SEq a a') (h2 : SEq c c') : SEq (a ++ c) (a' ++ c') := by
  unfold SEq at *
  simp only [List.map_append, h1, h2]
theorem SEq.str (x y : Bytes) : SEq [.str x] [.str y] := rfl
theorem SEq.cons (s : Seg) {a a' : List Seg} (h : SEq a a') : SEq (s :: a) (s :: a') := by
  simp only [SEq, List.map_cons] at *; rw [h]

theorem SEq_joinS (sep : Bytes) : ∀ (xs ys : List (List Seg)), All2 SEq xs ys → SEq (joinS sep xs) (joinS sep ys)
  | [], [], _ => rfl
  | [x], [y], h => by simpa [joinS] using h.1
  | x :: x' :: xs, y :: y' :: ys, h => by
    have ih := SEq_joinS sep (x' :: xs) (y' :: ys) h.2
    simpa [joinS] using SEq.append (SEq.append h.1 (SEq.rfl' [.raw sep])) ih
  | [], _ :: _, h => by cases h
  | _ :: _, [], h => by cases h
  | [_], _ :: _ :: _, h => by cases h.2
  | _ :: _ :: _, [_], h => by cases h.2

theorem All2_map {α β γ δ : Type} {R : α → β → Prop} {S : γ → δ → Prop} (f : α → γ) (g : β → δ)
    (hfg : ∀ a b, R a b → S (f a) (g b)) : ∀ (xs : List α) (ys : List β), All2 R xs ys → All2 S (xs.map f) (ys.map g)
  | [], [], _ => trivial
  | a :: as, b :: bs, h => ⟨hfg a b h.1, All2_map f g hfg as bs h.2⟩
  | [], _ :: _, h => by cases h
  | _ :: _, [], h => by cases h

theorem All2_length {α β : Type} {R : α → β → Prop} : ∀ (xs : List α) (ys : List β), All2 R xs ys → xs.length = ys.length
  | [], [], _ => rfl
  | _ :: as, _ :: bs, h => by simp [All2_length as bs h.2]
  | [], _ :: _, h => by cases h
  | _ :: _, [], h => by cases h

/-- expressions whose segment lists agree once the leaves are emptied -/
def EEq (e e' : Expr) : Prop := SEq (segsExpr e) (segsExpr e')

theorem EEq.rfl' (e : Expr) : EEq e e := rfl

theorem segsExprs_eq_map : ∀ es : List Expr, segsExprs es = es.map segsExpr
  | [] => by simp [segsExprs]
  | e :: es => by simp [segsExprs, segsExprs_eq_map es]
theorem segsParens_eq_map : ∀ es : List Expr, segsParens es = es.map (fun e => [.raw (b "(")] ++ segsExpr e ++ [.raw (b ")")])
  | [] => by simp [segsParens]
  | e :: es => by simp [segsParens, segsParens_eq_map es]

theorem All2_segsExprs (xs ys : List Expr) (h : All2 EEq xs ys) : All2 SEq (segsExprs xs) (segsExprs ys) := by
  rw [segsExprs_eq_map, segsExprs_eq_map]
  exact All2_map segsExpr segsExpr (fun _ _ h => h) xs ys h

theorem All2_segsParens (xs ys : List Expr) (h : All2 EEq xs ys) : All2 SEq (segsParens xs) (segsParens ys) := by
  rw [segsParens_eq_map, segsParens_eq_map]
  exact All2_map _ _ (fun a c h => SEq.append (SEq.append (SEq.rfl' _) h) (SEq.rfl' _)) xs ys h

theorem All2_segsShift : ∀ (i : Nat) (xs ys : List Expr), All2 EEq xs ys → All2 SEq (segsShift i xs) (segsShift i ys)
  | _, [], [], _ => by simp [segsShift, All2]
  | i, x :: xs, y :: ys, h => by
    simp only [segsShift, All2]
    exact ⟨SEq.append (SEq.append (SEq.rfl' _) h.1) (SEq.rfl' _), All2_segsShift (i + 1) xs ys h.2⟩
  | _, [], _ :: _, h => by cases h
  | _, _ :: _, [], h => by cases h

theorem EEq_logical (fn : String) (xs ys : List Expr) (h : All2 EEq xs ys) : EEq (.logical fn xs) (.logical fn ys) := by
  simp only [EEq, segsExpr]
  exact SEq_joinS _ _ _ (All2_segsParens xs ys h)

theorem EEq_call (fn : String) (xs ys : List Expr) (h : All2 EEq xs ys) : EEq (.call fn xs) (.call fn ys) := by
  simp only [EEq, segsExpr]
  exact SEq.append (SEq.append (SEq.rfl' _) (SEq_joinS _ _ _ (All2_segsExprs xs ys h))) (SEq.rfl' _)

theorem EEq_isIn (l l' : Expr) (xs ys : List Expr) (hl : EEq l l') (h : All2 EEq xs ys) : EEq (.isIn l xs) (.isIn l' ys) := by
  simp only [EEq, segsExpr]
  exact SEq.append (SEq.append (SEq.append hl (SEq.rfl' _)) (SEq_joinS _ _ _ (All2_segsExprs xs ys h))) (SEq.rfl' _)

theorem EEq_col (e e' : Expr) (a : String) (h : EEq e e') : EEq (.col e a) (.col e' a) := by
  by_cases ha : a.isEmpty = true
  · simpa only [EEq, segsExpr, ha, if_true] using h
  · simp only [EEq, segsExpr, ha]
    exact SEq.append h (SEq.rfl' _)

theorem EEq_str (x y : Bytes) : EEq (.str x) (.str y) := by simp [EEq, segsExpr, SEq, Seg.shape]
theorem EEq_matchFn (c : Expr) (p p' : Bytes) : EEq (.matchFn c p) (.matchFn c p') := by simp [EEq, segsExpr, SEq, Seg.shape]
theorem EEq_mapAt (m : Expr) (k k' : Bytes) : EEq (.mapAt m k) (.mapAt m k') := by
  simp [EEq, segsExpr, SEq, Seg.shape]
theorem EEq_notNull (e e' : Expr) (h : EEq e e') : EEq (.notNull e) (.notNull e') := by
  simpa [EEq, segsExpr] using SEq.append h (SEq.rfl' _)
theorem EEq_bitSetAnd (xs ys : List Expr) (h : All2 EEq xs ys) : EEq (.bitSetAnd xs) (.bitSetAnd ys) := by
  simp only [EEq, segsExpr]
  exact SEq.append (SEq.append (SEq.rfl' _) (SEq_joinS _ _ _ (All2_segsShift 0 xs ys h))) (SEq.rfl' _)

theorem EEq_eq {x x' y y' : Expr} (h1 : EEq x x') (h2 : EEq y y') : EEq (eq x y) (eq x' y') := EEq_logical _ _ _ ⟨h1, h2, trivial⟩
theorem EEq_neq {x x' y y' : Expr} (h1 : EEq x x') (h2 : EEq y y') : EEq (neq x y) (neq x' y') := EEq_logical _ _ _ ⟨h1, h2, trivial⟩

/-! ### SELECT bodies -/

/-- optional clauses: both absent, or both present and equal up to leaves -/
def OEq : Option Expr → Option Expr → Prop
  | none, none => True
  | some e, some e' => EEq e e'
  | _, _ => False

theorem OEq.rfl' : ∀ o : Option Expr, OEq o o
  | none => trivial
  | some e => EEq.rfl' e

theorem SEq_optPart (kw : String) : ∀ (o o' : Option Expr), OEq o o' → SEq (optPart kw o) (optPart kw o')
  | none, none, _ => rfl
  | some e, some e', h => SEq.append (SEq.rfl' _) h
  | none, some _, h => by cases h
  | some _, none, h => by cases h

theorem SEq_fromPart (j : List (String × Alias × Expr)) : ∀ (o o' : Option Expr), OEq o o' → SEq (fromPart o j) (fromPart o' j)
  | none, none, _ => rfl
  | some e, some e', h => SEq.append (SEq.append (SEq.rfl' _) h) (SEq.rfl' _)
  | none, some _, h => by cases h
  | some _, none, h => by cases h

theorem SEq_listPart (kw : String) (es es' : List Expr) (h : All2 EEq es es') : SEq (listPart kw es) (listPart kw es') := by
  have hl := All2_length es es' h
  have he : es.isEmpty = es'.isEmpty := by
    cases es <;> cases es' <;> simp_all
  unfold listPart
  rw [he]
  split
  · rfl
  · exact SEq.append (SEq.rfl' _) (SEq_joinS _ _ _ (All2_segsExprs es es' h))

/-- SELECT bodies equal up to leaves -/
def BEq (s s' : Sel) : Prop := SEq (segsSelBody s) (segsSelBody s')
theorem BEq.rfl' (s : Sel) : BEq s s := rfl

theorem BEq_mk (ws ws' : List (Alias × Sel)) (d : Bool) (cols cols' : List Expr) (f f' : Option Expr)
    (j : List (String × Alias × Expr)) (p p' w w' : Option Expr) (g g' : List Expr) (h h' : Option Expr) (o o' : List Expr)
    (l l' : Option Expr) (hc : All2 EEq cols cols') (hf : OEq f f') (hp : OEq p p') (hw : OEq w w') (hg : All2 EEq g g')
    (hh : OEq h h') (ho : All2 EEq o o') (hl : OEq l l') :
    BEq (.mk ws d cols f j p w g h o l) (.mk ws' d cols' f' j p' w' g' h' o' l') := by
  unfold BEq
  rw [segsSelBody_parts, segsSelBody_parts]
  exact SEq.append (SEq.append (SEq.append (SEq.append (SEq.append (SEq.append (SEq.append (SEq.append (SEq.rfl' _)
    (SEq_joinS _ _ _ (All2_segsExprs _ _ hc))) (SEq_fromPart j _ _ hf)) (SEq_optPart _ _ _ hp)) (SEq_optPart _ _ _ hw))
    (SEq_listPart _ _ _ hg)) (SEq_optPart _ _ _ hh)) (SEq_listPart _ _ _ ho)) (SEq_optPart _ _ _ hl)

theorem All2_refl {α : Type} {R : α → α → Prop} (h : ∀ a, R a a) : ∀ xs : List α, All2 R xs xs
  | [] => trivial
  | a :: as => ⟨h a, All2_refl h as⟩

/-- WITH entries: same alias, bodies equal up to leaves -/
def WEq (w w' : Alias × Sel) : Prop := w.1 = w'.1 ∧ BEq w.2 w'.2

theorem All2_segsWiths : ∀ (ws ws' : List (Alias × Sel)), All2 WEq ws ws' → All2 SEq (segsWiths ws) (segsWiths ws')
  | [], [], _ => by simp [segsWiths, All2]
  | (a, s) :: ws, (a', s') :: ws', h => by
    simp only [segsWiths, All2]
    have ha : a = a' := h.1.1
    subst ha
    exact ⟨SEq.append (SEq.append (SEq.rfl' _) h.1.2) (SEq.rfl' _), All2_segsWiths ws ws' h.2⟩
  | [], _ :: _, h => by cases h
  | _ :: _, [], h => by cases h

theorem All2_append {α β : Type} {R : α → β → Prop} : ∀ (xs : List α) (ys : List β) (xs' : List α) (ys' : List β),
    All2 R xs ys → All2 R xs' ys' → All2 R (xs ++ xs') (ys ++ ys')
  | [], [], _, _, _, h => by simpa using h
  | a :: as, c :: cs, xs', ys', h, h' => ⟨h.1, All2_append as cs xs' ys' h.2 h'⟩
  | [], _ :: _, _, _, h, _ => by cases h
  | _ :: _, [], _, _, h, _ => by cases h

/-- whole statements: WITH lists pointwise equal up to leaves, the same leaf-free final SELECT -/
theorem SEq_segsSel (ws ws' : List (Alias × Sel)) (d : Bool) (cols : List Expr) (f : Option Expr)
    (j : List (String × Alias × Expr)) (p w : Option Expr) (g : List Expr) (h : Option Expr) (o : List Expr) (l : Option Expr)
    (hw : All2 WEq ws ws') : SEq (segsSel (.mk ws d cols f j p w g h o l)) (segsSel (.mk ws' d cols f j p w g h o l)) := by
  have he : ws.isEmpty = ws'.isEmpty := by
    have := All2_length ws ws' hw
    cases ws <;> cases ws' <;> simp_all
  have hb : BEq (.mk ws d cols f j p w g h o l) (.mk ws' d cols f j p w g h o l) :=
    BEq_mk ws ws' d cols cols f f j p p w w g g h h o o l l (All2_refl EEq.rfl' _) (OEq.rfl' _) (OEq.rfl' _) (OEq.rfl' _)
      (All2_refl EEq.rfl' _) (OEq.rfl' _) (All2_refl EEq.rfl' _) (OEq.rfl' _)
  simp only [segsSel]
  rw [he]
  refine SEq.append ?_ hb
  split
  · rfl
  · exact SEq.append (SEq.rfl' _) (SEq_joinS _ _ _ (All2_segsWiths ws ws' hw))

/-! ### the builders of the LogQL log planner -/

theorem EEq_matcherClause (m m' : Matcher) (h : m.same m') : EEq (matcherClause m) (matcherClause m') := by
  obtain ⟨l, op, v⟩ := m
  obtain ⟨l', op', v'⟩ := m'
  have : op = op' := h
  subst this
  cases op <;> simp only [matcherClause, and_] <;>
    refine EEq_logical _ _ _ ⟨EEq_eq (EEq.rfl' _) (EEq_str _ _), ?_, trivial⟩
  · exact EEq_eq (EEq.rfl' _) (EEq_str _ _)
  · exact EEq_neq (EEq.rfl' _) (EEq_str _ _)
  · exact EEq_eq (EEq_matchFn _ _ _) (EEq.rfl' _)
  · exact EEq_eq (EEq_matchFn _ _ _) (EEq.rfl' _)

theorem All2_clauses (ms ms' : List Matcher) (h : All2 Matcher.same ms ms') :
    All2 EEq (ms.map matcherClause) (ms'.map matcherClause) :=
  All2_map _ _ EEq_matcherClause ms ms' h

theorem BEq_streamSelect (c : Ctx) (ms ms' : List Matcher) (h : All2 Matcher.same ms ms') :
    BEq (streamSelect c ms) (streamSelect c ms') := by
  have hc := All2_clauses ms ms' h
  have hlen : (ms.map matcherClause).length = (ms'.map matcherClause).length := All2_length _ _ hc
  unfold streamSelect
  simp only
  rw [hlen]
  refine BEq_mk _ _ _ _ _ _ _ _ _ _ _ _ _ _ _ _ _ _ _ _ (All2_refl EEq.rfl' _) (OEq.rfl' _) (OEq.rfl' _) ?_ (All2_refl EEq.rfl' _) ?_
    (All2_refl EEq.rfl' _) (OEq.rfl' _)
  · exact EEq_logical _ _ _ ⟨EEq.rfl' _, EEq.rfl' _, EEq_logical _ _ _ hc, trivial⟩
  · exact EEq_logical _ _ _ ⟨EEq_eq (EEq_bitSetAnd _ _ hc) (EEq.rfl' _), trivial⟩

theorem EEq_labelCondSql (g : String → Expr) : ∀ (lc lc' : LabelCond), lc.same lc' → EEq (labelCondSql g lc) (labelCondSql g lc')
  | .str l op v, .str l' op' v', h => by
    obtain ⟨rfl, rfl⟩ := h
    cases op <;> simp only [labelCondSql]
    · exact EEq_eq (EEq.rfl' _) (EEq_str _ _)
    · exact EEq_neq (EEq.rfl' _) (EEq_str _ _)
    · exact EEq_eq (EEq_call _ _ _ ⟨EEq.rfl' _, EEq_str _ _, trivial⟩) (EEq.rfl' _)
    · exact EEq_eq (EEq_call _ _ _ ⟨EEq.rfl' _, EEq_str _ _, trivial⟩) (EEq.rfl' _)
  | .num l op v, .num l' op' v', h => by
    obtain ⟨rfl, rfl, rfl⟩ := h
    exact EEq.rfl' _
  | .and l r, .and l' r', h => by
    simp only [labelCondSql, and_]
    exact EEq_logical _ _ _ ⟨EEq_labelCondSql g l l' h.1, EEq_labelCondSql g r r' h.2, trivial⟩
  | .or l r, .or l' r', h => by
    simp only [labelCondSql, or_]
    exact EEq_logical _ _ _ ⟨EEq_labelCondSql g l l' h.1, EEq_labelCondSql g r r' h.2, trivial⟩
  | .str _ _ _, .num _ _ _, h => by cases h
  | .str _ _ _, .and _ _, h => by cases h
  | .str _ _ _, .or _ _, h => by cases h
  | .num _ _ _, .str _ _ _, h => by cases h
  | .num _ _ _, .and _ _, h => by cases h
  | .num _ _ _, .or _ _, h => by cases h
  | .and _ _, .str _ _ _, h => by cases h
  | .and _ _, .num _ _ _, h => by cases h
  | .and _ _, .or _ _, h => by cases h
  | .or _ _, .str _ _ _, h => by cases h
  | .or _ _, .num _ _ _, h => by cases h
  | .or _ _, .and _ _, h => by cases h

theorem BEq_labelFilterBody (c : Ctx) (k : Nat) (lc lc' : LabelCond) (h : lc.same lc') :
    BEq (labelFilterBody c k lc) (labelFilterBody c k lc') := by
  unfold labelFilterBody
  refine BEq_mk _ _ _ _ _ _ _ _ _ _ _ _ _ _ _ _ _ _ _ _ (All2_refl EEq.rfl' _) (OEq.rfl' _) (OEq.rfl' _) ?_ (All2_refl EEq.rfl' _)
    (OEq.rfl' _) (All2_refl EEq.rfl' _) (OEq.rfl' _)
  exact EEq_logical _ _ _ ⟨EEq.rfl' _, EEq_labelCondSql _ lc lc' h, trivial⟩

theorem All2_fpChain (c : Ctx) : ∀ (conds conds' : List LabelCond) (k : Nat) (cur cur' : Sel), BEq cur cur' →
    All2 LabelCond.same conds conds' → All2 WEq (fpChain c cur k conds) (fpChain c cur' k conds')
  | [], [], _, _, _, hc, _ => ⟨⟨rfl, hc⟩, trivial⟩
  | lc :: rest, lc' :: rest', k, cur, cur', hc, h =>
    ⟨⟨rfl, hc⟩, All2_fpChain c rest rest' (k + 1) _ _ (BEq_labelFilterBody c (k + 1) lc lc' h.1) h.2⟩
  | [], _ :: _, _, _, _, _, h => by cases h
  | _ :: _, [], _, _, _, _, h => by cases h

theorem EEq_likeClause (fn : String) (x y : Bytes) : EEq (likeClause fn x) (likeClause fn y) :=
  EEq_eq (EEq_call _ _ _ ⟨EEq.rfl' _, EEq_str _ _, trivial⟩) (EEq.rfl' _)

theorem EEq_lineClause (f g : LineFilter) (h : f.same g) : EEq (lineClause f) (lineClause g) := by
  obtain ⟨op, v, like⟩ := f
  obtain ⟨op', v', like'⟩ := g
  unfold LineFilter.same LineFilter.skel at h
  cases op <;> cases op' <;> simp only [Prod.mk.injEq, reduceCtorEq, false_and] at h
  · exact EEq_likeClause _ _ _
  · exact EEq_likeClause _ _ _
  · cases like <;> cases like' <;> simp only [Option.map, true_and, reduceCtorEq, Option.some.injEq] at h
    · exact EEq_eq (EEq_matchFn _ _ _) (EEq.rfl' _)
    · simp only [lineClause, h]
      exact EEq_likeClause _ _ _
  · cases like <;> cases like' <;> simp only [Option.map, true_and, reduceCtorEq, Option.some.injEq] at h
    · exact EEq_eq (EEq_matchFn _ _ _) (EEq.rfl' _)
    · simp only [lineClause, h]
      exact EEq_likeClause _ _ _

/-- the line filters / label filters among stages of the same shape -/
theorem All2_lineFilters : ∀ (ss ss' : List Stage), All2 Stage.same ss ss' →
    All2 LineFilter.same (lineFilters ⟨[], ss⟩) (lineFilters ⟨[], ss'⟩)
  | [], [], _ => trivial
  | .line f :: ss, .line g :: ss', h => ⟨h.1, All2_lineFilters ss ss' h.2⟩
  | .label _ :: ss, .label _ :: ss', h => All2_lineFilters ss ss' h.2
  | .line _ :: _, .label _ :: _, h => by cases h.1
  | .label _ :: _, .line _ :: _, h => by cases h.1
  | [], _ :: _, h => by cases h
  | _ :: _, [], h => by cases h

theorem All2_labelConds : ∀ (ss ss' : List Stage), All2 Stage.same ss ss' →
    All2 LabelCond.same (labelConds ⟨[], ss⟩) (labelConds ⟨[], ss'⟩)
  | [], [], _ => trivial
  | .line _ :: ss, .line _ :: ss', h => All2_labelConds ss ss' h.2
  | .label c :: ss, .label d :: ss', h => ⟨h.1, All2_labelConds ss ss' h.2⟩
  | .line _ :: _, .label _ :: _, h => by cases h.1
  | .label _ :: _, .line _ :: _, h => by cases h.1
  | [], _ :: _, h => by cases h
  | _ :: _, [], h => by cases h

theorem lineFilters_stages (ms : List Matcher) (ss : List Stage) : lineFilters ⟨ms, ss⟩ = lineFilters ⟨[], ss⟩ := rfl
theorem labelConds_stages (ms : List Matcher) (ss : List Stage) : labelConds ⟨ms, ss⟩ = labelConds ⟨[], ss⟩ := rfl

theorem BEq_mainSel (c : Ctx) (q q' : LogQuery) (h : All2 Stage.same q.stages q'.stages) : BEq (mainSel c q) (mainSel c q') := by
  obtain ⟨ms, ss⟩ := q
  obtain ⟨ms', ss'⟩ := q'
  have hl := All2_map lineClause lineClause EEq_lineClause _ _ (All2_lineFilters ss ss' h)
  unfold mainSel
  rw [lineFilters_stages ms ss, lineFilters_stages ms' ss']
  refine BEq_mk _ _ _ _ _ _ _ _ _ _ _ _ _ _ _ _ _ _ _ _ (All2_refl EEq.rfl' _) (OEq.rfl' _) (OEq.rfl' _) ?_ (All2_refl EEq.rfl' _)
    (OEq.rfl' _) (All2_refl EEq.rfl' _) (OEq.rfl' _)
  exact EEq_logical _ _ _ ⟨EEq.rfl' _, hl⟩

/-! ### the label-rewriting stages -/

theorem SEq_jargs : ∀ (p p' : List JArg), All2 JArg.same p p' → All2 SEq (p.map jargSegs) (p'.map jargSegs)
  | [], [], _ => trivial
  | .key _ :: p, .key _ :: p', h => ⟨rfl, SEq_jargs p p' h.2⟩
  | .idx i :: p, .idx j :: p', h => by
    have : i = j := h.1
    subst this
    exact ⟨rfl, SEq_jargs p p' h.2⟩
  | .key _ :: _, .idx _ :: _, h => by cases h.1
  | .idx _ :: _, .key _ :: _, h => by cases h.1
  | [], _ :: _, h => by cases h
  | _ :: _, [], h => by cases h

theorem SEq_jsonGetSegs (p p' : List JArg) (h : All2 JArg.same p p') : SEq (jsonGetSegs p) (jsonGetSegs p') := by
  have hj := SEq_joinS (b ",") _ _ (SEq_jargs p p' h)
  unfold jsonGetSegs
  exact SEq.append (SEq.append (SEq.append (SEq.append (SEq.append (SEq.append (SEq.rfl' _) hj) (SEq.rfl' _)) hj) (SEq.rfl' _)) hj)
    (SEq.rfl' _)

theorem EEq_jsonMap (ps ps' : List (Bytes × List JArg)) (h : All2 (fun p p' => All2 JArg.same p.2 p'.2) ps ps') :
    EEq (.jsonMap ps) (.jsonMap ps') := by
  simp only [EEq, segsExpr, jsonMapSegs]
  have hk : All2 SEq (ps.map (fun p => [Seg.str p.1])) (ps'.map (fun p => [Seg.str p.1])) :=
    All2_map _ _ (fun _ _ _ => SEq.str _ _) ps ps' h
  have hv : All2 SEq (ps.map (fun p => jsonGetSegs p.2)) (ps'.map (fun p => jsonGetSegs p.2)) :=
    All2_map _ _ (fun a c h => SEq_jsonGetSegs a.2 c.2 h) ps ps' h
  exact SEq.append (SEq.append (SEq.append (SEq.append (SEq.rfl' _) (SEq_joinS _ _ _ hk)) (SEq.rfl' _)) (SEq_joinS _ _ _ hv)) (SEq.rfl' _)

theorem All2_strs : ∀ (xs ys : List Bytes), xs.length = ys.length →
    All2 SEq (xs.map (fun l => [Seg.str l])) (ys.map (fun l => [Seg.str l]))
  | [], [], _ => trivial
  | _ :: xs, _ :: ys, h => ⟨rfl, All2_strs xs ys (by simpa using h)⟩
  | [], _ :: _, h => by simp at h
  | _ :: _, [], h => by simp at h

theorem EEq_regexMap (names names' : List Bytes) (re re' : Bytes) (id : Nat) (h : names.length = names'.length) :
    EEq (.regexMap names re id) (.regexMap names' re' id) := by
  simp only [EEq, segsExpr, regexMapSegs]
  refine SEq.append (SEq.append (SEq.rfl' _) (SEq_joinS _ _ _ (All2_strs names names' h))) ?_
  exact SEq.cons _ (SEq.append (SEq.str re re') (SEq.rfl' _))

theorem SEq_dropClause (p p' : Bytes × Bytes) (h : p.2.isEmpty = p'.2.isEmpty) : SEq (dropClauseSegs p) (dropClauseSegs p') := by
  unfold dropClauseSegs
  rw [h]
  split <;> rfl

theorem EEq_mapDrop (m m' : Expr) (ps ps' : List (Bytes × Bytes)) (hm : EEq m m')
    (h : All2 (fun p p' => p.2.isEmpty = p'.2.isEmpty) ps ps') : EEq (.mapDrop m ps) (.mapDrop m' ps') := by
  simp only [EEq, segsExpr]
  have hc := All2_map dropClauseSegs dropClauseSegs SEq_dropClause ps ps' h
  exact SEq.append (SEq.append (SEq.append (SEq.append (SEq.rfl' _) (SEq_joinS _ _ _ hc)) (SEq.rfl' _)) hm) (SEq.rfl' _)

theorem EEq_chExpr : ∀ (cs cs' : List Changer) (rid : Nat) (base base' : Expr), EEq base base' → All2 Changer.same cs cs' →
    EEq (chExpr rid base cs).1 (chExpr rid base' cs').1 ∧ (chExpr rid base cs).2 = (chExpr rid base' cs').2
  | [], [], _, _, _, hb, _ => ⟨hb, rfl⟩
  | .json ps :: cs, .json ps' :: cs', rid, base, base', hb, h => by
    simp only [chExpr]
    exact EEq_chExpr cs cs' rid _ _ (EEq_call _ _ _ ⟨hb, EEq_jsonMap ps ps' h.1, trivial⟩) h.2
  | .regexp names re :: cs, .regexp names' re' :: cs', rid, base, base', hb, h => by
    simp only [chExpr]
    exact EEq_chExpr cs cs' (rid + 1) _ _ (EEq_call _ _ _ ⟨hb, EEq_regexMap names names' re re' rid h.1, trivial⟩) h.2
  | .drop ps :: cs, .drop ps' :: cs', rid, base, base', hb, h => by
    simp only [chExpr]
    exact EEq_chExpr cs cs' rid _ _ (EEq_mapDrop _ _ ps ps' hb h.1) h.2
  | .json _ :: _, .regexp _ _ :: _, _, _, _, _, h => by cases h.1
  | .json _ :: _, .drop _ :: _, _, _, _, _, h => by cases h.1
  | .regexp _ _ :: _, .json _ :: _, _, _, _, _, h => by cases h.1
  | .regexp _ _ :: _, .drop _ :: _, _, _, _, _, h => by cases h.1
  | .drop _ :: _, .json _ :: _, _, _, _, _, h => by cases h.1
  | .drop _ :: _, .regexp _ _ :: _, _, _, _, _, h => by cases h.1
  | [], _ :: _, _, _, _, _, h => by cases h
  | _ :: _, [], _, _, _, _, h => by cases h

theorem EEq_stageClause (s t : Stage) (h : s.same t) : EEq (stageClause s) (stageClause t) := by
  cases s <;> cases t
  · exact EEq_lineClause _ _ h
  · cases h
  · cases h
  · exact EEq_labelCondSql _ _ _ h

/-! ### runs -/

def Run.same : Run → Run → Prop
  | .ch cs, .ch cs' => All2 Changer.same cs cs'
  | .fl fs, .fl fs' => All2 Stage.same fs fs'
  | _, _ => False

theorem same_consCh (c c' : Changer) (h : c.same c') : ∀ (rs rs' : List Run), All2 Run.same rs rs' →
    All2 Run.same (consCh c rs) (consCh c' rs')
  | [], [], _ => ⟨⟨h, trivial⟩, trivial⟩
  | .ch cs :: more, .ch cs' :: more', hr => ⟨⟨h, hr.1⟩, hr.2⟩
  | .fl fs :: more, .fl fs' :: more', hr => ⟨⟨h, trivial⟩, hr⟩
  | .ch _ :: _, .fl _ :: _, hr => by cases hr.1
  | .fl _ :: _, .ch _ :: _, hr => by cases hr.1
  | [], _ :: _, hr => by cases hr
  | _ :: _, [], hr => by cases hr

theorem same_consFl (s s' : Stage) (h : s.same s') : ∀ (rs rs' : List Run), All2 Run.same rs rs' →
    All2 Run.same (consFl s rs) (consFl s' rs')
  | [], [], _ => ⟨⟨h, trivial⟩, trivial⟩
  | .fl fs :: more, .fl fs' :: more', hr => ⟨⟨h, hr.1⟩, hr.2⟩
  | .ch cs :: more, .ch cs' :: more', hr => ⟨⟨h, trivial⟩, hr⟩
  | .ch _ :: _, .fl _ :: _, hr => by cases hr.1
  | .fl _ :: _, .ch _ :: _, hr => by cases hr.1
  | [], _ :: _, hr => by cases hr
  | _ :: _, [], hr => by cases hr

theorem same_groupRuns : ∀ (ss ss' : List StageX), All2 StageX.same ss ss' → All2 Run.same (groupRuns ss) (groupRuns ss')
  | [], [], _ => trivial
  | .ch c :: ss, .ch c' :: ss', h => same_consCh c c' h.1 _ _ (same_groupRuns ss ss' h.2)
  | .fl s :: ss, .fl s' :: ss', h => same_consFl s s' h.1 _ _ (same_groupRuns ss ss' h.2)
  | .ch _ :: _, .fl _ :: _, h => by cases h.1
  | .fl _ :: _, .ch _ :: _, h => by cases h.1
  | [], _ :: _, h => by cases h
  | _ :: _, [], h => by cases h

theorem same_splitPre : ∀ (ss ss' : List StageX), All2 StageX.same ss ss' →
    All2 Stage.same (splitPre ss).1 (splitPre ss').1 ∧ All2 StageX.same (splitPre ss).2 (splitPre ss').2
  | [], [], _ => ⟨trivial, trivial⟩
  | .fl s :: ss, .fl s' :: ss', h => by
    have ih := same_splitPre ss ss' h.2
    simp only [splitPre]
    exact ⟨⟨h.1, ih.1⟩, ih.2⟩
  | .ch c :: ss, .ch c' :: ss', h => by
    simp only [splitPre]
    exact ⟨trivial, h⟩
  | .ch _ :: _, .fl _ :: _, h => by cases h.1
  | .fl _ :: _, .ch _ :: _, h => by cases h.1
  | [], _ :: _, h => by cases h
  | _ :: _, [], h => by cases h

theorem BEq_runSel (c : Ctx) (src : Option Nat) (rid : Nat) (r r' : Run) (ob : List Expr) (lim : Option Expr) (h : r.same r') :
    BEq (runSel c src rid r ob lim).1 (runSel c src rid r' ob lim).1 ∧ (runSel c src rid r ob lim).2 = (runSel c src rid r' ob lim).2 := by
  cases src <;> cases r <;> cases r' <;> first | exact False.elim h | skip
  · rename_i cs cs'
    have hc := EEq_chExpr cs cs' rid (.raw "_time_series.labels") (.raw "_time_series.labels") (EEq.rfl' _) h
    simp only [runSel]
    refine ⟨BEq_mk _ _ _ _ _ _ _ _ _ _ _ _ _ _ _ _ _ _ _ _ ?_ (OEq.rfl' _) (OEq.rfl' _) (OEq.rfl' _) (All2_refl EEq.rfl' _)
      (OEq.rfl' _) (All2_refl EEq.rfl' _) (OEq.rfl' _), hc.2⟩
    exact ⟨EEq.rfl' _, EEq.rfl' _, EEq_col _ _ _ hc.1, EEq.rfl' _, EEq.rfl' _, trivial⟩
  · rename_i fs fs'
    simp only [runSel]
    refine ⟨BEq_mk _ _ _ _ _ _ _ _ _ _ _ _ _ _ _ _ _ _ _ _ (All2_refl EEq.rfl' _) (OEq.rfl' _) (OEq.rfl' _) ?_ (All2_refl EEq.rfl' _)
      (OEq.rfl' _) (All2_refl EEq.rfl' _) (OEq.rfl' _), trivial⟩
    exact EEq_logical _ _ _ (All2_map stageClause stageClause EEq_stageClause fs fs' h)
  · rename_i k cs cs'
    have hc := EEq_chExpr cs cs' rid (.raw "samples.labels") (.raw "samples.labels") (EEq.rfl' _) h
    simp only [runSel]
    refine ⟨BEq_mk _ _ _ _ _ _ _ _ _ _ _ _ _ _ _ _ _ _ _ _ ?_ (OEq.rfl' _) (OEq.rfl' _) (OEq.rfl' _) (All2_refl EEq.rfl' _)
      (OEq.rfl' _) (All2_refl EEq.rfl' _) (OEq.rfl' _), hc.2⟩
    exact ⟨EEq.rfl' _, EEq.rfl' _, EEq_col _ _ _ hc.1, EEq.rfl' _, EEq.rfl' _, trivial⟩
  · rename_i k fs fs'
    simp only [runSel]
    refine ⟨BEq_mk _ _ _ _ _ _ _ _ _ _ _ _ _ _ _ _ _ _ _ _ (All2_refl EEq.rfl' _) (OEq.rfl' _) (OEq.rfl' _) ?_ (All2_refl EEq.rfl' _)
      (OEq.rfl' _) (All2_refl EEq.rfl' _) (OEq.rfl' _), trivial⟩
    exact EEq_logical _ _ _ (All2_map stageClause stageClause EEq_stageClause fs fs' h)

theorem All2_planRuns (c : Ctx) (ob : List Expr) (lim : Option Expr) : ∀ (rs rs' : List Run) (src : Option Nat) (k rid : Nat),
    All2 Run.same rs rs' → All2 WEq (planRuns c ob lim src k rid rs) (planRuns c ob lim src k rid rs')
  | [], [], _, _, _, _ => trivial
  | [r], [r'], src, k, rid, h => by
    simp only [planRuns]
    exact ⟨⟨rfl, (BEq_runSel c src rid r r' ob lim h.1).1⟩, trivial⟩
  | r :: r2 :: rest, r' :: r2' :: rest', src, k, rid, h => by
    have h1 := BEq_runSel c src rid r r' [] none h.1
    have ih := All2_planRuns c ob lim (r2 :: rest) (r2' :: rest') (some k) (k + 1) (runSel c src rid r [] none).2 h.2
    simp only [planRuns]
    rw [← h1.2]
    exact ⟨⟨rfl, h1.1⟩, ih⟩
  | [], _ :: _, _, _, _, h => by cases h
  | _ :: _, [], _, _, _, h => by cases h
  | [_], _ :: _ :: _, _, _, _, h => by cases h.2
  | _ :: _ :: _, [_], _, _, _, h => by cases h.2

/-! ### whole plans -/

theorem All2_nil_iff {α β : Type} {R : α → β → Prop} : ∀ (xs : List α) (ys : List β), All2 R xs ys → (xs = [] ↔ ys = [])
  | [], [], _ => by simp
  | _ :: _, _ :: _, _ => by simp
  | [], _ :: _, h => by cases h
  | _ :: _, [], h => by cases h

/-- **`planLogX`**: queries of the same shape give statements with the same emptied segment list -/
theorem planLogX_sameShape (c : Ctx) (fin : Bool) (q1 q2 : LogQueryX) (h : sameShapeX q1 q2) :
    SEq (segsSel (planLogX c fin q1)) (segsSel (planLogX c fin q2)) := by
  obtain ⟨hm, hs⟩ := h
  have hsp := same_splitPre q1.stages q2.stages hs
  have hlc := All2_labelConds _ _ hsp.1
  have hchain := All2_fpChain c _ _ 0 _ _ (BEq_streamSelect c q1.matchers q2.matchers hm) hlc
  have hlen : (labelConds ⟨q1.matchers, (splitPre q1.stages).1⟩).length = (labelConds ⟨q2.matchers, (splitPre q2.stages).1⟩).length :=
    All2_length _ _ hlc
  rw [planLogX_eq_split, planLogX_eq_split]
  unfold planLogXSplit
  simp only
  cases hp1 : (splitPre q1.stages).2 with
  | nil =>
    have hp2 : (splitPre q2.stages).2 = [] := (All2_nil_iff _ _ hsp.2).mp hp1
    rw [hp2]
    simp only
    refine SEq_segsSel _ _ _ _ _ _ _ _ _ _ _ _ (All2_append _ _ _ _ hchain ?_)
    exact ⟨⟨rfl, BEq_mainSel (limCtx c fin) ⟨q1.matchers, (splitPre q1.stages).1⟩ ⟨q2.matchers, (splitPre q2.stages).1⟩ hsp.1⟩,
      ⟨rfl, BEq.rfl' _⟩, ⟨rfl, BEq.rfl' _⟩, trivial⟩
  | cons st rest =>
    cases hp2 : (splitPre q2.stages).2 with
    | nil => exact absurd ((All2_nil_iff _ _ hsp.2).mpr hp2) (by simp [hp1])
    | cons st' rest' =>
      simp only
      have hruns : All2 Run.same (groupRuns (st :: rest)) (groupRuns (st' :: rest')) := by
        rw [← hp1, ← hp2]; exact same_groupRuns _ _ hsp.2
      rw [hlen]
      refine SEq_segsSel _ _ _ _ _ _ _ _ _ _ _ _ (All2_append _ _ _ _ (All2_append _ _ _ _ hchain ?_) ?_)
      · exact ⟨⟨rfl, BEq_mainSel { c with limit := 0 } ⟨q1.matchers, (splitPre q1.stages).1⟩ ⟨q2.matchers, (splitPre q2.stages).1⟩ hsp.1⟩,
          ⟨rfl, BEq.rfl' _⟩, trivial⟩
      · exact All2_planRuns c _ _ _ _ none _ 1 hruns

theorem sqlPrefix_same : ∀ (ss ss' : List ScriptStage), All2 ScriptStage.same ss ss' → All2 StageX.same (sqlPrefix ss) (sqlPrefix ss')
  | [], [], _ => trivial
  | .sql s :: ss, .sql t :: ss', h => ⟨h.1, sqlPrefix_same ss ss' h.2⟩
  | .inproc _ :: _, .inproc _ :: _, _ => trivial
  | .sql _ :: _, .inproc _ :: _, h => by cases h.1
  | .inproc _ :: _, .sql _ :: _, h => by cases h.1
  | [], _ :: _, h => by cases h
  | _ :: _, [], h => by cases h

theorem finalizes_same : ∀ (ss ss' : List ScriptStage), All2 ScriptStage.same ss ss' → finalizes ss = finalizes ss'
  | [], [], _ => rfl
  | .sql s :: ss, .sql t :: ss', h => by
    have := finalizes_same ss ss' h.2
    simpa [finalizes, ScriptStage.breaks] using this
  | .inproc _ :: _, .inproc _ :: _, _ => by simp [finalizes, ScriptStage.breaks]
  | .sql _ :: _, .inproc _ :: _, h => by cases h.1
  | .inproc _ :: _, .sql _ :: _, h => by cases h.1
  | [], _ :: _, h => by cases h
  | _ :: _, [], h => by cases h

/-- **`planScript`** (what `logql_transpiler_v2.Plan` hands to ClickHouse): scripts of the same shape, in-process stages included -/
theorem planScript_sameShape (c : Ctx) (ms ms' : List Matcher) (ss ss' : List ScriptStage) (hm : All2 Matcher.same ms ms')
    (hs : All2 ScriptStage.same ss ss') : SEq (segsSel (planScript c ms ss)) (segsSel (planScript c ms' ss')) := by
  unfold planScript
  rw [finalizes_same ss ss' hs]
  exact planLogX_sameShape c _ _ _ ⟨hm, sqlPrefix_same ss ss' hs⟩

theorem splitPre_fl : ∀ ss : List Stage, splitPre (ss.map StageX.fl) = (ss, [])
  | [] => rfl
  | s :: ss => by simp [splitPre, splitPre_fl ss]

/-- `planLog` is `planLogX` without label-rewriting stages, final -/
theorem planLog_eq_planLogX (c : Ctx) (q : LogQuery) : planLog c q = planLogX c true ⟨q.matchers, q.stages.map .fl⟩ := by
  rw [planLogX_eq_split]
  unfold planLogXSplit
  simp only [splitPre_fl]
  rfl

theorem All2_map_fl : ∀ (ss ss' : List Stage), All2 Stage.same ss ss' → All2 StageX.same (ss.map .fl) (ss'.map .fl)
  | [], [], _ => trivial
  | _ :: ss, _ :: ss', h => ⟨h.1, All2_map_fl ss ss' h.2⟩
  | [], _ :: _, h => by cases h
  | _ :: _, [], h => by cases h

/-- **`planLog`** -/
theorem planLog_sameShape (c : Ctx) (q1 q2 : LogQuery) (h : sameShape q1 q2) :
    SEq (segsSel (planLog c q1)) (segsSel (planLog c q2)) := by
  rw [planLog_eq_planLogX, planLog_eq_planLogX]
  exact planLogX_sameShape c true _ _ ⟨h.1, All2_map_fl _ _ h.2⟩

/-! ### series / label values: the `match[]` selectors -/

theorem SEq_with1 (s : Sel) (w w' : Alias × Sel) (hw : WEq w w') (hnw : w.2.withs = []) (hnw' : w'.2.withs = []) :
    SEq (segsSel (s.with_ [w])) (segsSel (s.with_ [w'])) := by
  obtain ⟨ws, d, c, f, j, p, wh, g, h, o, l⟩ := s
  have e1 : (Sel.mk ws d c f j p wh g h o l).with_ [w] = .mk [w] d c f j p wh g h o l := by
    simp [Sel.with_, Sel.setWiths, addWith1, hasAlias, hnw]
  have e2 : (Sel.mk ws d c f j p wh g h o l).with_ [w'] = .mk [w'] d c f j p wh g h o l := by
    simp [Sel.with_, Sel.setWiths, addWith1, hasAlias, hnw']
  rw [e1, e2]
  exact SEq_segsSel _ _ _ _ _ _ _ _ _ _ _ _ ⟨hw, trivial⟩

theorem WEq_fpSelWith (c : Ctx) (ms ms' : List Matcher) (h : All2 Matcher.same ms ms') : WEq (fpSelWith c ms) (fpSelWith c ms') :=
  ⟨rfl, BEq_streamSelect c ms ms' h⟩

theorem SEq_segsSel_gen (s s' : Sel) (hw : All2 WEq s.withs s'.withs) (hb : BEq s s') : SEq (segsSel s) (segsSel s') := by
  obtain ⟨ws, d, c, f, j, p, wh, g, h, o, l⟩ := s
  obtain ⟨ws', d', c', f', j', p', wh', g', h', o', l'⟩ := s'
  simp only [Sel.withs] at hw
  have he : ws.isEmpty = ws'.isEmpty := by
    have := All2_length ws ws' hw
    cases ws <;> cases ws' <;> simp_all
  simp only [segsSel]
  rw [he]
  refine SEq.append ?_ hb
  split
  · rfl
  · exact SEq.append (SEq.rfl' _) (SEq_joinS _ _ _ (All2_segsWiths ws ws' hw))

theorem with_fp (s : Sel) (c : Ctx) (ms : List Matcher) : s.with_ [fpSelWith c ms] = s.setWiths [fpSelWith c ms] := by
  simp [Sel.with_, addWith1, hasAlias, fpSelWith, streamSelect, Sel.withs]

/-- **`planSeries`**: two `match[]` selectors of the same shape -/
theorem planSeries_sameShape (c : Ctx) (ms ms' : List Matcher) (h : All2 Matcher.same ms ms') :
    SEq (segsSel (planSeries c ms)) (segsSel (planSeries c ms')) := by
  unfold planSeries
  simp only [with_fp, Sel.setWiths, Sel.setLimit]
  exact SEq_segsSel _ _ _ _ _ _ _ _ _ _ _ _ ⟨WEq_fpSelWith c ms ms' h, trivial⟩

theorem EEq_valuesWhere (c : Ctx) (key key' : Bytes) (extra : List Expr) :
    EEq (.logical "and" ([ge (.raw "date") (.str (Time.formatFromDate c.fromNs)), le (.raw "date") (.str (toDate c)),
        eq (.raw "key") (.str key), getTypes c] ++ extra))
      (.logical "and" ([ge (.raw "date") (.str (Time.formatFromDate c.fromNs)), le (.raw "date") (.str (toDate c)),
        eq (.raw "key") (.str key'), getTypes c] ++ extra)) :=
  EEq_logical _ _ _ (All2_append _ _ _ _ ⟨EEq.rfl' _, EEq.rfl' _, EEq_eq (EEq.rfl' _) (EEq_str _ _), EEq.rfl' _, trivial⟩
    (All2_refl EEq.rfl' extra))

/-- **`planValues`**: any two label names, selectors of the same shape (or both absent) -/
theorem planValues_sameShape (c : Ctx) (key key' : Bytes) (ms ms' : List Matcher) (h : All2 Matcher.same ms ms') :
    SEq (segsSel (planValues c key (some ms))) (segsSel (planValues c key' (some ms'))) ∧
    SEq (segsSel (planValues c key none)) (segsSel (planValues c key' none)) := by
  constructor
  · refine SEq_segsSel_gen _ _ ?_ ?_
    · simp only [planValues, valuesBase, with_fp, Sel.setWiths, Sel.setLimit, Sel.andWhere, Sel.withs]
      exact ⟨WEq_fpSelWith c ms ms' h, trivial⟩
    · simp only [planValues, valuesBase, with_fp, Sel.setWiths, Sel.setLimit, Sel.andWhere, andCond, and_, if_true]
      exact BEq_mk _ _ _ _ _ _ _ _ _ _ _ _ _ _ _ _ _ _ _ _ (All2_refl EEq.rfl' _) (OEq.rfl' _) (OEq.rfl' _)
        (EEq_valuesWhere c key key' _) (All2_refl EEq.rfl' _) (OEq.rfl' _) (All2_refl EEq.rfl' _) (OEq.rfl' _)
  · refine SEq_segsSel_gen _ _ ?_ ?_
    · simp only [planValues, valuesBase, Sel.setLimit, Sel.withs]
      trivial
    · simp only [planValues, valuesBase, Sel.setLimit, and_]
      exact BEq_mk _ _ _ _ _ _ _ _ _ _ _ _ _ _ _ _ _ _ _ _ (All2_refl EEq.rfl' _) (OEq.rfl' _) (OEq.rfl' _)
        (show EEq _ _ from by simpa using EEq_valuesWhere c key key' []) (All2_refl EEq.rfl' _) (OEq.rfl' _) (All2_refl EEq.rfl' _) (OEq.rfl' _)

end Qryn.LogQL
