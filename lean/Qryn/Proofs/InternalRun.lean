import Qryn.LogQL.SemStages
/-! Lemmas about `Read.run` (the model of `WrapProcess`) for the four shapes of stage: accumulate-and-send
    per batch, rewrite in place, limit, collect-then-emit. Core only. -/
namespace Qryn.Read
open Qryn

variable {V : Type}

/-! ### stages that send a filtered copy of every batch -/
@[simp] theorem accOps_onEntry (f : Entry V → Option (Entry V)) (acc : List (Entry V)) (e : Entry V) :
    (accOps f).onEntry acc e = .ok (match f e with | some e' => acc ++ [e'] | none => acc, e) := rfl
@[simp] theorem accOps_afterSlice (f : Entry V → Option (Entry V)) (acc b : List (Entry V)) :
    (accOps f).afterSlice acc b = ([], [acc]) := rfl
@[simp] theorem accOps_afterAll (f : Entry V → Option (Entry V)) (acc : List (Entry V)) :
    (accOps f).afterAll acc = [] := rfl

theorem runBatch_accOps (f : Entry V → Option (Entry V)) (acc b : List (Entry V)) :
    runBatch (accOps f) acc b = .ok (acc ++ b.filterMap f, b) := by
  induction b generalizing acc with
  | nil => simp [runBatch]
  | cons e es ih =>
    simp only [runBatch, accOps_onEntry, ih]
    cases h : f e with
    | none => simp [h]
    | some e' => simp [h]

theorem run_accOps (N : NumOps V) (f : Entry V → Option (Entry V)) (bs : List (List (Entry V))) :
    run N (accOps f) [] bs = bs.map (fun b => b.filterMap f) := by
  induction bs with
  | nil => simp [run]
  | cons b bs ih => simp [run, runBatch_accOps, ih]

/-! ### stages that rewrite the entries of a batch in place and forward it -/
@[simp] theorem mapOps_onEntry (f : Entry V → Entry V) (u : Unit) (e : Entry V) :
    (mapOps f).onEntry u e = .ok ((), f e) := rfl
@[simp] theorem mapOps_afterSlice (f : Entry V → Entry V) (u : Unit) (b : List (Entry V)) :
    (mapOps f).afterSlice u b = ((), [b]) := rfl
@[simp] theorem mapOps_afterAll (f : Entry V → Entry V) (u : Unit) : (mapOps f).afterAll u = [] := rfl

theorem runBatch_mapOps (f : Entry V → Entry V) (b : List (Entry V)) :
    runBatch (mapOps f) () b = .ok ((), b.map f) := by
  induction b with
  | nil => rfl
  | cons e es ih => simp only [runBatch, mapOps_onEntry, ih, List.map_cons]

theorem run_mapOps (N : NumOps V) (f : Entry V → Entry V) (bs : List (List (Entry V))) :
    run N (mapOps f) () bs = bs.map (fun b => b.map f) := by
  induction bs with
  | nil => rfl
  | cons b bs ih =>
    simp only [run, runBatch_mapOps, mapOps_afterSlice, ih, List.map_cons, List.singleton_append]

theorem flatten_map_filterMap (f : Entry V → Option (Entry V)) (bs : List (List (Entry V))) :
    (bs.map (fun b => b.filterMap f)).flatten = bs.flatten.filterMap f := by
  induction bs with
  | nil => rfl
  | cons b bs ih => simp only [List.map_cons, List.flatten_cons, List.filterMap_append, ih]

theorem flatten_map_map (f : Entry V → Entry V) (bs : List (List (Entry V))) :
    (bs.map (fun b => b.map f)).flatten = bs.flatten.map f := by
  induction bs with
  | nil => rfl
  | cons b bs ih => simp only [List.map_cons, List.flatten_cons, List.map_append, ih]

/-! ### the limit stage -/
@[simp] theorem limitOps_onEntry (limit : Int) (s : Nat) (e : Entry V) :
    (limitOps limit).onEntry s e = .ok (s, e) := rfl
theorem limitOps_afterSlice (limit : Int) (sent : Nat) (b : List (Entry V)) :
    (limitOps limit).afterSlice sent b =
      if limit = 0 then (sent, [b])
      else if limit ≤ sent then (sent, [])
      else if (sent + b.length : Int) < limit then (sent + b.length, [b])
      else (limit.toNat, [b.take (limit.toNat - sent)]) := rfl
@[simp] theorem limitOps_afterAll (limit : Int) (s : Nat) : (limitOps (V := V) limit).afterAll s = [] := rfl

theorem runBatch_limitOps (limit : Int) (s : Nat) (b : List (Entry V)) :
    runBatch (limitOps limit) s b = .ok (s, b) := by
  induction b with
  | nil => simp [runBatch]
  | cons e es ih => simp [runBatch, ih]

/-- what is still let through after `sent` entries -/
def limitRest (limit : Int) (sent : Nat) (es : List (Entry V)) : List (Entry V) :=
  if limit = 0 then es else es.take (limit.toNat - sent)

theorem run_limitOps_flatten (N : NumOps V) (limit : Int) (sent : Nat) (bs : List (List (Entry V))) :
    (run N (limitOps limit) sent bs).flatten = limitRest limit sent bs.flatten := by
  induction bs generalizing sent with
  | nil => simp [run, limitRest]
  | cons b bs ih =>
    simp only [run, runBatch_limitOps, limitOps_afterSlice]
    by_cases h0 : limit = 0
    · subst h0
      simp [limitRest, ih]
    · by_cases h1 : limit ≤ (sent : Int)
      · have hz : limit.toNat - sent = 0 := by omega
        simp [h0, h1, ih, limitRest, hz]
      · by_cases h2 : ((sent : Int) + (b.length : Int)) < limit
        · simp only [h0, h1, h2, if_true, if_false, List.flatten_cons, List.flatten_nil, List.append_nil, ih,
            List.singleton_append]
          simp only [limitRest, h0, if_false]
          have hle : b.length ≤ limit.toNat - sent := by omega
          rw [List.take_append, List.take_of_length_le hle]
          congr 2
          omega
        · simp only [h0, h1, h2, if_true, if_false, List.flatten_cons, List.flatten_nil, List.append_nil, ih,
            List.singleton_append]
          have hz : limit.toNat - limit.toNat = 0 := by omega
          simp only [limitRest, h0, if_false, hz, List.take_zero, List.append_nil]
          have hle : limit.toNat - sent - b.length = 0 := by omega
          rw [List.take_append, hle, List.take_zero, List.append_nil]

/-! ### stages that only collect and emit at the end (the aggregators) -/
theorem runBatch_append {σ : Type} (ops : Ops V σ) (s : σ) (a b : List (Entry V)) :
    runBatch ops s (a ++ b) =
      match runBatch ops s a with
      | .error x => .error x
      | .ok (s', a') =>
        match runBatch ops s' b with
        | .error x => .error x
        | .ok (s'', b') => .ok (s'', a' ++ b') := by
  induction a generalizing s with
  | nil =>
    simp only [List.nil_append, runBatch]
    cases runBatch ops s b with
    | error x => rfl
    | ok r => rfl
  | cons e es ih =>
    simp only [List.cons_append, runBatch]
    cases h : ops.onEntry s e with
    | error x => rfl
    | ok r =>
      simp only []
      rw [ih]
      cases runBatch ops r.1 es with
      | error x => rfl
      | ok r2 =>
        simp only []
        cases runBatch ops r2.1 b with
        | error x => rfl
        | ok r3 => rfl

/-- a stage whose `OnAfterEntriesSlice` sends nothing and keeps the state sees only the concatenation of its input -/
theorem run_collect {σ : Type} (N : NumOps V) (ops : Ops V σ) (hs : ∀ s b, ops.afterSlice s b = (s, []))
    (s : σ) (bs : List (List (Entry V))) :
    run N ops s bs =
      match runBatch ops s bs.flatten with
      | .error x => [[errEntry N x]]
      | .ok (s', _) => ops.afterAll s' := by
  induction bs generalizing s with
  | nil => simp [run, runBatch]
  | cons b bs ih =>
    simp only [run, List.flatten_cons, runBatch_append]
    cases h : runBatch ops s b with
    | error x => rfl
    | ok r =>
      simp only [hs, List.nil_append]
      rw [ih]
      cases runBatch ops r.1 bs.flatten with
      | error x => rfl
      | ok r2 => rfl

end Qryn.Read
