import Qryn.Proofs.ClausesX
/-! `Sql.SemX` on the WITH entries `planLogX` shares with `planLog`: the fingerprint chain, `main`, `_time_series`. -/
namespace Qryn.Sql

theorem Row.get_cons (k : String) (v : Val) (r : Row) (n : String) :
    Row.get ((k, v) :: r) n = if n == k then v else Row.get r n := by
  simp only [Row.get, List.lookup]
  by_cases h : n == k <;> simp [h]

theorem firstCol_map_projectX (o : Oracles) (env : Env) (c : Expr) (cs : List Expr) (f : Row → Row) (l : List Row) :
    firstCol (l.map (fun r => project o env (c :: cs) (f r))) = l.map (fun r => evalE o env (f r) c) := by
  have := firstCol_map_project o env c cs (l.map f)
  simpa [List.map_map, Function.comp_def] using this

end Qryn.Sql

namespace Qryn.LogQL
open Qryn Qryn.Sql

theorem labelFilterX_eval (o : Oracles) (c : Ctx) (hn : c.namesOk) (d : LokiDb) (env : Env) (k : Nat) (lc : LabelCond)
    (T : Table) (P : Int → Bool) (hT : env.lookup (.sub k) = some T) (hP : FpTable T P) :
    FpTable (evalBodyX o (d.toDb c) env (labelFilterBody c k lc))
      (fun fp => d.ts.any (fun t => t.fp == fp && P t.fp && labelCondHolds o (o.jsonLabels t.labels) lc)) := by
  intro v
  unfold labelFilterBody
  rw [evalBodyX_flat, finish_none, firstCol_map_projectX]
  have hrow : ∀ t : TsRow, aliasRow o env [.raw "fingerprint"] t.row = ("fingerprint", .int t.fp) :: t.row := by
    intro t; simp [aliasRow, project, colName]
  have hl : ∀ t : TsRow, Row.get (("fingerprint", Val.int t.fp) :: t.row) "labels" = .str t.labels := by
    intro t; simp [Row.get_cons]
  have hf : ∀ t : TsRow, Row.get (("fingerprint", Val.int t.fp) :: t.row) "fingerprint" = .int t.fp := by
    intro t; simp [Row.get_cons]
  simp only [List.foldl_nil, sourceRowsX, sourceRows, toDb_ts d c hn, optB, Bool.true_and, List.filter_map, List.map_map,
    List.mem_map, List.mem_filter, Function.comp_def, hrow, evalB_and, evalAll_cons, evalAll_nil, Bool.and_true,
    evalB_isIn_ref, hT, Option.getD_some, evalE_raw, hf, hP.contains, labelCondTS_row o env _ _ (hl _), List.any_eq_true,
    Bool.and_eq_true, beq_iff_eq]
  constructor
  · rintro ⟨t, ⟨ht, hp, hl⟩, rfl⟩; exact ⟨t.fp, rfl, t, ht, ⟨rfl, hp⟩, hl⟩
  · rintro ⟨fp, rfl, t, ht, ⟨rfl, hp⟩, hl⟩; exact ⟨t, ⟨ht, hp, hl⟩, rfl⟩

theorem fpChainX_eval (o : Oracles) (c : Ctx) (hn : c.namesOk) (d : LokiDb) (conds : List LabelCond) :
    ∀ (cur : Sel) (k : Nat) (env : Env) (P : Int → Bool), FpTable (evalBodyX o (d.toDb c) env cur) P →
      ∃ T rest, evalWithsX o (d.toDb c) env (fpChain c cur k conds) = (.named "fp_sel", T) :: rest ∧
        FpTable T (chainSelected o d P conds) := by
  induction conds with
  | nil => intro cur k env P h; exact ⟨_, env, rfl, h⟩
  | cons lc rest ih =>
    intro cur k env P h
    simp only [fpChain, evalWithsX, chainSelected]
    apply ih
    exact labelFilterX_eval o c hn d _ (k + 1) lc _ P (by simp [List.lookup]) h

theorem streamSelectX_eval (o : Oracles) (c : Ctx) (hn : c.namesOk) (d : LokiDb) (ms : List Matcher)
    (hm : ms.length ≤ 63) (env : Env) :
    FpTable (evalBodyX o (d.toDb c) env (streamSelect c ms)) (streamSelected o c d ms) := by
  intro v
  have : evalBodyX o (d.toDb c) env (streamSelect c ms) = evalBody o (d.toDb c) env (streamSelect c ms) := rfl
  rw [this]
  exact streamSelect_eval' o c hn d ms hm env v

end Qryn.LogQL

namespace Qryn.LogQL
open Qryn Qryn.Sql

def mainCols : List Expr :=
  [simpleCol "samples.timestamp_ns" "timestamp_ns", simpleCol "samples.fingerprint" "fingerprint",
   simpleCol "samples.string" "string", simpleCol "toFloat64(0)" "value"]

/-- the row the expressions of `main` see for a sample: aliases first -/
def mainARow (s : Sample) : Row := mainRow s ++ qualify "samples" s.row

section
variable (s : Sample)
theorem aliasRow_main (o : Oracles) (env : Env) : aliasRow o env mainCols (qualify "samples" s.row) = mainARow s := by
  simp [aliasRow, mainCols, project_main, mainARow]
@[simp] theorem mar_ts : Row.get (mainARow s) "samples.timestamp_ns" = .int s.ts := by
  simp [mainARow, mainRow, Row.get_cons]
@[simp] theorem mar_fp : Row.get (mainARow s) "samples.fingerprint" = .int s.fp := by
  simp [mainARow, mainRow, Row.get_cons]
@[simp] theorem mar_str : Row.get (mainARow s) "samples.string" = .str s.str := by
  simp [mainARow, mainRow, Row.get_cons]
@[simp] theorem mar_str' : Row.get (mainARow s) "string" = .str s.str := by
  simp [mainARow, mainRow, Row.get_cons]
@[simp] theorem mar_type : Row.get (mainARow s) "type" = .int s.tp := by
  simp [mainARow, mainRow, Row.get_cons]
@[simp] theorem mar_val : Row.get (mainARow s) "toFloat64(0)" = .null := by
  simp [mainARow, mainRow, Row.get_cons]
theorem project_mainA (o : Oracles) (env : Env) : project o env mainCols (mainARow s) = mainRow s := by
  simp [project, mainCols, mainRow, colName, simpleCol]
end

theorem mainWhereX_eval (o : Oracles) (c : Ctx) (d : LokiDb) (q : LogQuery) (env : Env) (T : Table)
    (hT : env.lookup (.named "fp_sel") = some T) (hP : FpTable T (fpSelected o c d q)) (s : Sample) :
    (optB o env (mainARow s) (some (and_ [ge (.raw "samples.timestamp_ns") (.int c.fromNs),
                 lt (.raw "samples.timestamp_ns") (.int c.toNs), getTypes c])) &&
     optB o env (mainARow s) (some (and_ (.isIn (.raw "samples.fingerprint") [.withRef (.named "fp_sel")] ::
        (lineFilters q).map lineClause)))) = entryMatches o c d q s := by
  simp only [optB, evalB_and, evalAll_cons, evalAll_nil, evalAll_map, lineClause_row o env _ _ s.str (mar_str s) (mar_str' s),
    evalB_ge, evalB_lt, evalE_raw,
    evalE_int, mar_ts, mar_fp, cmpOp_ge_int, cmpOp_lt_int, getTypes_eval o env _ c s.tp (mar_type s), evalB_isIn_ref, hT,
    Option.getD_some, hP.contains, entryMatches, Bool.and_true, Bool.and_assoc]

theorem mainX_eval (o : Oracles) (c : Ctx) (d : LokiDb) (q : LogQuery) (env : Env) (T : Table)
    (hT : env.lookup (.named "fp_sel") = some T) (hP : FpTable T (fpSelected o c d q)) :
    evalBodyX o (d.toDb c) env (mainSel c q) = (limited o c d q).map mainRow := by
  have hsrc : (List.map (fun r => project o env mainCols (aliasRow o env mainCols r))
      (List.filter (fun r => optB o env (aliasRow o env mainCols r) (some (and_ [ge (.raw "samples.timestamp_ns") (.int c.fromNs),
                 lt (.raw "samples.timestamp_ns") (.int c.toNs), getTypes c])) &&
          optB o env (aliasRow o env mainCols r) (some (and_ (.isIn (.raw "samples.fingerprint") [.withRef (.named "fp_sel")] ::
            (lineFilters q).map lineClause))))
        (sourceRowsX (d.toDb c) env (.col (.raw c.samplesTable) "samples")))) =
      (d.samples.filter (entryMatches o c d q)).map mainRow := by
    simp only [sourceRowsX, sourceRows, toDb_samples, List.map_map, List.filter_map, Function.comp_def, aliasRow_main,
      project_mainA, mainWhereX_eval o c d q env T hT hP]
  unfold mainSel limited
  rw [evalBodyX_flat]
  simp only [List.foldl_nil]
  have hsrc' := hsrc
  simp only [mainCols] at hsrc'
  rw [hsrc']
  by_cases h0 : c.limit = 0
  · simp only [h0, if_true, finish, List.isEmpty_cons, Bool.false_eq_true, if_false, orderKeys]
    rw [sortBy_map (tsLe c) _ mainRow (rowLe_main c)]
  · simp only [h0, if_false, finish, List.isEmpty_cons, Bool.false_eq_true, orderKeys]
    rw [sortBy_map (tsLe c) _ mainRow (rowLe_main c), List.map_take]

/-! ### _time_series -/
def tsCols : List Expr := [simpleCol "time_series.fingerprint" "fingerprint", .col .tsLabels "labels"]

def tsARow (o : Oracles) (t : TsRow) : Row := tsOut o t ++ qualify "time_series" t.row

section
variable (o : Oracles) (t : TsRow)
@[simp] theorem tar_date : Row.get (tsARow o t) "time_series.date" = .str t.date := by
  simp [tsARow, tsOut, Row.get_cons]
@[simp] theorem tar_fp : Row.get (tsARow o t) "time_series.fingerprint" = .int t.fp := by
  simp [tsARow, tsOut, Row.get_cons]
@[simp] theorem tar_labels : Row.get (tsARow o t) "time_series.labels" = .str t.labels := by
  simp [tsARow, tsOut, Row.get_cons]
@[simp] theorem tar_type : Row.get (tsARow o t) "type" = .int t.tp := by
  simp [tsARow, tsOut, Row.get_cons]
end

theorem timeSeriesX_eval (o : Oracles) (c : Ctx) (hn : c.namesOk) (d : LokiDb) (q : LogQuery) (env : Env) (T : Table)
    (hT : env.lookup (.named "fp_sel") = some T) (hP : FpTable T (fpSelected o c d q)) :
    evalBodyX o (d.toDb c) env (timeSeriesSel c) = (d.ts.filter (tsOk o c d q)).map (tsOut o) := by
  unfold timeSeriesSel
  rw [evalBodyX_flat, finish_none]
  have hproj : ∀ t : TsRow, project o env tsCols (qualify "time_series" t.row) = tsOut o t := by
    intro t
    simp [project, colName, simpleCol, tsOut, tsCols, evalE_tsLabels o env _ t.labels (qts_labels t)]
  have halias : ∀ t : TsRow, aliasRow o env tsCols (qualify "time_series" t.row) = tsARow o t := by
    intro t; simp [aliasRow, hproj, tsARow]
  have hproj2 : ∀ t : TsRow, project o env tsCols (tsARow o t) = tsOut o t := by
    intro t
    simp [project, colName, simpleCol, tsOut, tsCols, evalE_tsLabels o env _ t.labels (tar_labels o t)]
  have halias' := halias
  have hproj2' := hproj2
  simp only [tsCols] at halias' hproj2'
  simp only [List.foldl_nil, sourceRowsX, sourceRows, toDb_tsDist d c hn, List.map_map, List.filter_map, Function.comp_def,
    halias', hproj2', optB, Bool.and_true,
    evalB_and, evalAll_cons, evalAll_nil, evalB_ge, evalE_raw, evalE_str, tar_date, cmpOp_ge_str,
    getTypes_eval o env _ c _ (tar_type o _), evalB_isIn_ref, hT, Option.getD_some, tar_fp, hP.contains]
  refine congrArg _ (List.filter_congr ?_)
  intro t _
  simp only [tsOk, Bool.and_assoc]
  rfl

end Qryn.LogQL
