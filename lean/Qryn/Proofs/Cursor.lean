import Qryn.Read.Cursor
/-! Lemmas about the series cursor: the binary-search loop invariant, the one-call contracts, and the
    invariant kept along every call sequence. -/
namespace Qryn.Read.Cursor

/-- ascending timestamps, equal neighbours allowed (what `ORDER BY fingerprint, timestamp_ns` delivers after
    `intDiv(timestamp_ns, 1000000)`: two samples of one millisecond keep their order and compare equal) -/
def Sorted (ss : List Sample) : Prop :=
  ∀ i j, i ≤ j → j < ss.length → tsAt ss i ≤ tsAt ss j

theorem tsAt_of_getElem? {ss : List Sample} {i : Nat} {s : Sample} (h : ss[i]? = some s) :
    tsAt ss i = s.ts := by
  simp [tsAt, List.getD, h]

theorem getElem?_of_lt {ss : List Sample} {i : Nat} (h : i < ss.length) :
    ∃ s, ss[i]? = some s ∧ tsAt ss i = s.ts := by
  refine ⟨ss[i], by simp [h], ?_⟩
  simp [tsAt, List.getD, h]

/-- loop invariant ⇒ postcondition: with `[lo, l)` all `< t` and `[u, len)` all `≥ t`, the loop does not
    fault, uses at most `u - l` rounds and returns the exact boundary. -/
theorem loop_spec (ss : List Sample) (t : Int) (hs : Sorted ss) (lo : Nat) :
    ∀ fuel l u, l ≤ u → u ≤ ss.length → u - l ≤ fuel →
      (∀ i, lo ≤ i → i < l → tsAt ss i < t) → (∀ i, u ≤ i → i < ss.length → t ≤ tsAt ss i) →
      ∃ r, loop ss t fuel l u = some r ∧ l ≤ r ∧ r ≤ u ∧
        (∀ i, lo ≤ i → i < r → tsAt ss i < t) ∧ (∀ i, r ≤ i → i < ss.length → t ≤ tsAt ss i) := by
  intro fuel
  induction fuel with
  | zero =>
    intro l u hlu hu hf hL hU
    have : l = u := by omega
    subst this
    exact ⟨l, rfl, Nat.le_refl _, Nat.le_refl _, hL, hU⟩
  | succ fuel ih =>
    intro l u hlu hu hf hL hU
    simp only [loop]
    by_cases hgt : u > l
    · simp only [hgt, if_true]
      have hm : (u + l) / 2 < u := by omega
      have hm' : l ≤ (u + l) / 2 := by omega
      obtain ⟨s, hsome, hts⟩ := getElem?_of_lt (ss := ss) (i := (u + l) / 2) (by omega)
      simp only [hsome]
      by_cases hlt : s.ts < t
      · simp only [hlt, if_true]
        obtain ⟨r, hr, h1, h2, h3, h4⟩ := ih ((u + l) / 2 + 1) u (by omega) hu (by omega)
          (by
            intro i hlo hi
            have := hs i ((u + l) / 2) (by omega) (by omega)
            omega) hU
        exact ⟨r, hr, by omega, h2, h3, h4⟩
      · simp only [hlt, if_false]
        obtain ⟨r, hr, h1, h2, h3, h4⟩ := ih l ((u + l) / 2) hm' (by omega) (by omega) hL
          (by
            intro i hi hlen
            have := hs ((u + l) / 2) i hi hlen
            omega)
        exact ⟨r, hr, h1, by omega, h3, h4⟩
    · simp only [hgt, if_false]
      have : l = u := by omega
      subst this
      exact ⟨l, rfl, Nat.le_refl _, Nat.le_refl _, hL, hU⟩

/-- with `u ≤ l` the loop is not entered -/
theorem loop_skip (ss : List Sample) (t : Int) (fuel l u : Nat) (h : u ≤ l) : loop ss t fuel l u = some l := by
  cases fuel with
  | zero => rfl
  | succ f => simp [loop]; omega

/-- `j` is the first index at or after `p` whose timestamp is `≥ t` -/
def FirstAtOrAfter (ss : List Sample) (p : Nat) (t : Int) (j : Nat) : Prop :=
  p ≤ j ∧ j < ss.length ∧ t ≤ tsAt ss j ∧ ∀ k, p ≤ k → k < j → tsAt ss k < t

/-- what one `Seek t` does from *any* state (p = current position, 0 before the first advance) -/
theorem seek_spec (it : It) (t : Int) (hs : Sorted it.samples) :
    ∃ r : Nat, seek it t = ({ it with idx := (r : Int) }, .bool (decide (r < it.samples.length))) ∧
      it.idx.toNat ≤ r ∧
      (∀ k, it.idx.toNat ≤ k → k < r → tsAt it.samples k < t) ∧
      (∀ k, r ≤ k → k < it.samples.length → t ≤ tsAt it.samples k) ∧
      (r < it.samples.length ∨ r = max it.idx.toNat it.samples.length) := by
  obtain ⟨ss, idx⟩ := it
  have hs : Sorted ss := hs
  simp only [seek]
  by_cases hl : idx.toNat < ss.length
  · simp only [hl, if_true]
    obtain ⟨s, hsome, hts⟩ := getElem?_of_lt hl
    simp only [hsome]
    by_cases hle : t ≤ s.ts
    · simp only [hle, if_true]
      refine ⟨idx.toNat, by simp [hl], Nat.le_refl _, by intro k h1 h2; omega, ?_, Or.inl hl⟩
      intro k hk hlen
      have := hs idx.toNat k hk hlen
      omega
    · simp only [hle, if_false]
      obtain ⟨r, hr, h1, h2, h3, h4⟩ := loop_spec ss t hs idx.toNat ss.length idx.toNat ss.length
        (by omega) (Nat.le_refl _) (by omega) (by intro i a b; omega) (by intro i a b; omega)
      simp only [hr]
      refine ⟨r, rfl, h1, h3, h4, ?_⟩
      by_cases hrl : r < ss.length
      · exact Or.inl hrl
      · right; omega
  · simp only [hl, if_false]
    rw [loop_skip ss t ss.length idx.toNat ss.length (by omega)]
    refine ⟨idx.toNat, rfl, Nat.le_refl _, by intro k h1 h2; omega, by intro k h1 h2; omega, ?_⟩
    right; omega

/-- the invariant of every reachable state: the Go index never drops below −1 -/
def Inv (it : It) : Prop := -1 ≤ it.idx

theorem step_samples (it : It) (op : Op) : (step it op).1.samples = it.samples := by
  cases op with
  | next => rfl
  | seek t =>
    simp only [step, seek]
    split
    · split
      · rfl
      · split
        · rfl
        · split <;> rfl
    · split <;> rfl
  | «at» =>
    simp only [step, at_]
    split
    · rfl
    · split <;> rfl

theorem step_mono (it : It) (op : Op) (hs : Sorted it.samples) (hi : Inv it) :
    it.idx ≤ (step it op).1.idx ∧ Inv (step it op).1 := by
  cases op with
  | next => simp only [step, next, Inv] at *; omega
  | seek t =>
    obtain ⟨r, hr, h1, _⟩ := seek_spec it t hs
    simp only [step, hr, Inv] at *
    omega
  | «at» =>
    have : (step it .at).1 = it := by
      simp only [step, at_]
      split
      · rfl
      · split <;> rfl
    rw [this]; exact ⟨Int.le_refl _, hi⟩

theorem run_append (it : It) (a b : List Op) :
    run it (a ++ b) = ((run (run it a).1 b).1, (run it a).2 ++ (run (run it a).1 b).2) := by
  induction a generalizing it with
  | nil => simp [run]
  | cons op a ih => simp [run, ih]

theorem run_samples (it : It) (ops : List Op) : (run it ops).1.samples = it.samples := by
  induction ops generalizing it with
  | nil => rfl
  | cons op ops ih => simp only [run]; rw [ih, step_samples]

/-- the invariant holds after every call sequence, and the index never decreases -/
theorem run_inv (it : It) (ops : List Op) (hs : Sorted it.samples) (hi : Inv it) :
    Inv (run it ops).1 ∧ it.idx ≤ (run it ops).1.idx := by
  induction ops generalizing it with
  | nil => exact ⟨hi, Int.le_refl _⟩
  | cons op ops ih =>
    simp only [run]
    have h1 := step_mono it op hs hi
    have h2 := ih (step it op).1 (by rw [step_samples]; exact hs) h1.2
    exact ⟨h2.1, Int.le_trans h1.1 h2.2⟩

theorem after_samples (ss : List Sample) (ops : List Op) : (after ss ops).samples = ss := by
  simp [after, run_samples, init]

theorem after_inv (ss : List Sample) (ops : List Op) (hs : Sorted ss) : Inv (after ss ops) :=
  (run_inv (init ss) ops hs (by simp [Inv, init])).1

/-- cursor on a sample -/
def Valid (it : It) : Prop := 0 ≤ it.idx ∧ it.idx < (it.samples.length : Int)

/-- `lowerBoundFrom` is the first index at or after `p` with timestamp ≥ t (no sortedness needed) -/
theorem lowerBoundFrom_spec (ss : List Sample) (p : Nat) (t : Int) :
    p ≤ lowerBoundFrom ss p t ∧
    (∀ k, p ≤ k → k < lowerBoundFrom ss p t → tsAt ss k < t) ∧
    (lowerBoundFrom ss p t < ss.length → t ≤ tsAt ss (lowerBoundFrom ss p t)) ∧
    (lowerBoundFrom ss p t ≤ max p ss.length) := by
  induction ss generalizing p with
  | nil =>
    simp only [lowerBoundFrom, List.drop_nil, List.takeWhile_nil, List.length_nil, Nat.add_zero]
    exact ⟨Nat.le_refl _, by intro k a b; omega, by intro a; omega, by omega⟩
  | cons s ss ih =>
    cases p with
    | zero =>
      simp only [lowerBoundFrom, List.drop_zero, Nat.zero_add]
      by_cases h : s.ts < t
      · have ih0 := ih 0
        simp only [lowerBoundFrom, List.drop_zero, Nat.zero_add] at ih0
        simp only [List.takeWhile_cons, h, decide_true, if_true, List.length_cons]
        refine ⟨Nat.zero_le _, ?_, ?_, ?_⟩
        · intro k _ hk
          cases k with
          | zero => simpa [tsAt] using h
          | succ k =>
            have := ih0.2.1 k (Nat.zero_le _) (by omega)
            simpa [tsAt] using this
        · intro hlt
          have := ih0.2.2.1 (by omega)
          simpa [tsAt] using this
        · have := ih0.2.2.2; omega
      · have e : List.takeWhile (fun s => decide (s.ts < t)) (s :: ss) = [] := by
          simp [h]
        rw [e]
        refine ⟨Nat.le_refl _, by intro k _ hk; simp at hk, ?_, Nat.zero_le _⟩
        intro _
        simp [tsAt]
        omega
    | succ p =>
      have ihp := ih p
      simp only [lowerBoundFrom, List.drop_succ_cons] at ihp ⊢
      have e : p + 1 + (List.takeWhile (fun s => decide (s.ts < t)) (List.drop p ss)).length
          = (p + (List.takeWhile (fun s => decide (s.ts < t)) (List.drop p ss)).length) + 1 := by omega
      rw [e]
      refine ⟨by omega, ?_, ?_, ?_⟩
      · intro k hk hlt
        cases k with
        | zero => omega
        | succ k =>
          have := ihp.2.1 k (by omega) (by omega)
          simpa [tsAt] using this
      · intro hlt
        have := ihp.2.2.1 (by simpa using hlt)
        simpa [tsAt] using this
      · have := ihp.2.2.2
        simp only [List.length_cons]
        omega

end Qryn.Read.Cursor
