import Qryn.Proofs.InternalLabels
import Qryn.Proofs.InternalEngines
import Qryn.Proofs.InternalCompose
import Qryn.Proofs.LogQLPlanX
/-! The two readings of a pipeline stage — C07's `stageX` (what the ClickHouse statement computes, `plan_correct_ext`) and
    C09's `LogQL.Stages.stage` (what the in-process engine computes, `stages_meet_logql`) — are the same function on the
    entries the getter hands over, for the stages both engines have: line filter, label filter, `| json` with path
    parameters (pairwise different names), `| drop`. Fingerprint values apart: ClickHouse hashes the sorted pairs with
    cityHash64, the in-process engine with its own `fingerprint`; `core` forgets the value. Core only. -/
namespace Qryn.Read
open Qryn Qryn.Sql Qryn.LogQL Qryn.LogQL.Stages

variable {V : Type}

/-- an entry without its fingerprint value -/
def core (e : Entry V) : Entry V := { e with fp := 0 }

/-- what ties the two engines' uninterpreted functions together: the same RE2 / number oracles, and ClickHouse's JSON
    path extraction (`if(JSONType(s, path) == 'String', JSONExtractString(s, path), JSONExtractRaw(s, path))`) reads the
    text the decoder's tree has at that path — nothing from a line that is not one JSON document, the empty string when
    the path leads nowhere -/
structure Bridge (o : Oracles) (E : Env V) : Prop where
  oracles : E.o = o
  jsonField : ∀ (line : Bytes) (p : List PathSeg), o.jsonField line (p.map toJArg) =
    if E.jsonValid line && !hasBad (E.jsonDecode line) then (lookupPath (E.jsonDecode line) p).getD [] else []

/-- a label map without a key twice (true of what ClickHouse returns unless a `| json` / `| regexp` names a label twice) -/
def NodupKeys (l : List (Bytes × Bytes)) : Prop := (l.map (·.1)).Nodup

theorem lookup_none_of_not_key (l : List (Bytes × Bytes)) (k : Bytes) (h : k ∉ l.map (·.1)) : l.lookup k = none := by
  induction l with
  | nil => rfl
  | cons p rest ih =>
    obtain ⟨k', v'⟩ := p
    have hne : (k == k') = false := by
      have : k ≠ k' := fun e => h (by simp [e])
      simpa using this
    simp only [List.lookup, hne]
    exact ih (fun hm => h (by simp only [List.map_cons, List.mem_cons]; exact Or.inr hm))

theorem lookupLast_filter_of (l : List (Bytes × Bytes)) (g : Bytes × Bytes → Bool) (k : Bytes)
    (hg : ∀ p ∈ l, p.1 = k → g p = true) : lookupLast (l.filter g) k = lookupLast l k := by
  induction l with
  | nil => rfl
  | cons p rest ih =>
    have ih' := ih (fun q hq => hg q (List.mem_cons_of_mem _ hq))
    by_cases hp : g p = true
    · simp only [List.filter_cons, hp, if_true, lookupLast, ih']
    · have hk : ¬ p.1 = k := fun e => hp (hg p List.mem_cons_self e)
      simp only [List.filter_cons, hp, Bool.false_eq_true, if_false, lookupLast, ih', hk]
      cases lookupLast rest k <;> rfl

theorem lookupLast_of_nodup (l : List (Bytes × Bytes)) (h : NodupKeys l) (k : Bytes) : lookupLast l k = l.lookup k := by
  induction l with
  | nil => rfl
  | cons p rest ih =>
    obtain ⟨k', v'⟩ := p
    have hn := List.nodup_cons.mp h
    simp only [lookupLast, ih hn.2]
    by_cases hk : k' = k
    · subst hk
      have : rest.lookup k' = none := lookup_none_of_not_key rest k' hn.1
      simp [this, List.lookup]
    · have : (k == k') = false := by simpa using fun e : k = k' => hk e.symm
      simp only [hk, if_false, List.lookup, this]
      cases rest.lookup k <;> rfl

theorem lookup_canon_nodup (l : List (Bytes × Bytes)) (h : NodupKeys l) (k : Bytes) :
    (canonLabels l).lookup k = l.lookup k := by
  rw [lookup_canon, lookupLast_of_nodup l h]

theorem labelCond_canon (o : Oracles) (l : List (Bytes × Bytes)) (h : NodupKeys l) (lc : LabelCond) :
    labelCondHolds o (canonLabels l) lc = labelCondHolds o l lc := by
  induction lc with
  | str n op v => simp only [labelCondHolds, labelValue, lookup_canon_nodup l h]
  | num n op v => simp only [labelCondHolds, labelValue, lookup_canon_nodup l h]
  | and a b iha ihb => simp only [labelCondHolds, iha, ihb]
  | or a b iha ihb => simp only [labelCondHolds, iha, ihb]

/-! ### `mapUpdate` and `mapFilter` on the scanned form -/
theorem canon_mapUpdate (l pairs : List (Bytes × Bytes)) :
    canonLabels (mapUpdate l pairs) = pairs.foldl (fun acc kv => acc.set kv.1 kv.2) (canonLabels l) := by
  apply sorted_ext _ _ (canon_sorted _) (foldl_set_sorted pairs _ (canon_sorted l))
  intro k
  rw [lookup_canon, lookup_foldl_set, lookup_canon, mapUpdate, lookupLast_append]
  cases hp : lookupLast pairs k with
  | some x => rfl
  | none =>
    have hk := (lookupLast_none_iff pairs k).mp hp
    simp only
    apply lookupLast_filter_of
    intro p _ hpk
    have : pairs.any (fun q => q.1 == p.1) = false := by
      apply Bool.eq_false_iff.mpr
      intro h
      obtain ⟨q, hq, he⟩ := List.any_eq_true.mp h
      exact hk q hq (by rw [← hpk]; simpa using he)
    simp [this]

theorem lookup_filter_sorted (m : Labels) (hs : KeysSorted m) (f : Bytes × Bytes → Bool) (k : Bytes) :
    (m.filter f).lookup k = match m.lookup k with | some v => if f (k, v) then some v else none | none => none := by
  induction m with
  | nil => rfl
  | cons p rest ih =>
    obtain ⟨k', v'⟩ := p
    have hs' := List.pairwise_cons.mp hs
    by_cases hk : k = k'
    · subst hk
      have hnone : rest.lookup k = none := lookup_none_of_lt rest k hs'.1
      have hnone' : (rest.filter f).lookup k = none :=
        lookup_none_of_lt _ k (fun p hp => hs'.1 p (List.mem_filter.mp hp).1)
      by_cases hf : f (k, v') = true
      · simp [List.filter_cons, hf, List.lookup]
      · simp [List.filter_cons, hf, List.lookup, hnone']
    · have hb : (k == k') = false := by simpa using hk
      by_cases hf : f (k', v') = true
      · simp only [List.filter_cons, hf, if_true, List.lookup, hb]
        exact ih hs'.2
      · simp only [List.filter_cons, hf, Bool.false_eq_true, if_false, List.lookup, hb]
        exact ih hs'.2

theorem lookup_filter_nodup (l : List (Bytes × Bytes)) (h : NodupKeys l) (f : Bytes × Bytes → Bool) (k : Bytes) :
    (l.filter f).lookup k = match l.lookup k with | some v => if f (k, v) then some v else none | none => none := by
  induction l with
  | nil => rfl
  | cons p rest ih =>
    obtain ⟨k', v'⟩ := p
    have hn := List.nodup_cons.mp h
    by_cases hk : k = k'
    · subst hk
      have hnone : rest.lookup k = none := lookup_none_of_not_key rest k hn.1
      have hnone' : (rest.filter f).lookup k = none := by
        apply lookup_none_of_not_key
        intro hm
        obtain ⟨p, hp, he⟩ := List.mem_map.mp hm
        exact hn.1 (List.mem_map.mpr ⟨p, (List.mem_filter.mp hp).1, he⟩)
      by_cases hf : f (k, v') = true
      · simp [List.filter_cons, hf, List.lookup]
      · simp [List.filter_cons, hf, List.lookup, hnone']
    · have hb : (k == k') = false := by simpa using hk
      by_cases hf : f (k', v') = true
      · simp only [List.filter_cons, hf, if_true, List.lookup, hb]
        exact ih hn.2
      · simp only [List.filter_cons, hf, Bool.false_eq_true, if_false, List.lookup, hb]
        exact ih hn.2

theorem nodupKeys_filter (l : List (Bytes × Bytes)) (h : NodupKeys l) (f : Bytes × Bytes → Bool) : NodupKeys (l.filter f) := by
  unfold NodupKeys at *
  exact (List.Sublist.map _ List.filter_sublist).nodup h

theorem canon_filter (l : List (Bytes × Bytes)) (h : NodupKeys l) (f : Bytes × Bytes → Bool) :
    canonLabels (l.filter f) = (canonLabels l).filter f := by
  apply sorted_ext _ _ (canon_sorted _) ((canon_sorted l).filter _)
  intro k
  rw [lookup_canon_nodup _ (nodupKeys_filter l h f), lookup_filter_nodup l h, lookup_filter_sorted _ (canon_sorted l),
    lookup_canon_nodup l h]

theorem nodupKeys_mapUpdate (l pairs : List (Bytes × Bytes)) (hl : NodupKeys l) (hp : NodupKeys pairs) :
    NodupKeys (mapUpdate l pairs) := by
  unfold NodupKeys mapUpdate at *
  rw [List.map_append]
  refine List.nodup_append.mpr ⟨(List.Sublist.map _ List.filter_sublist).nodup hl, hp, ?_⟩
  intro a ha b hb hab
  obtain ⟨p, hp1, hp2⟩ := List.mem_map.mp ha
  obtain ⟨q, hq1, hq2⟩ := List.mem_map.mp hb
  have := (List.mem_filter.mp hp1).2
  have hany : pairs.any (fun q => q.1 == p.1) = true :=
    List.any_eq_true.mpr ⟨q, hq1, by simp [hq2, hp2, hab]⟩
  simp [hany] at this

/-! ### one stage, two readings -/
/-- what the shared fragment asks of a stage: the parameters of one `| json` name pairwise different labels (a repeated
    name is the recorded finding `C09/engines/json-parameter-name-repeated`) -/
def SharedOk : StageK V → Prop
  | .parser (.jsonParams ps) => (ps.map (·.1)).Nodup
  | _ => True

/-- the LIKE shortcut of `LineFilterPlanner` (a pattern regexp/syntax reduces to one literal is rendered as LIKE / position)
    decides as RE2 does -/
def LikeOk (o : Oracles) (like : Bytes → Option LikeInfo) : Prop :=
  ∀ (op : LineOp) (val line : Bytes), lineHolds o ⟨op, val, like val⟩ line = lineHolds o ⟨op, val, none⟩ line

theorem lineHolds_like_irrelevant (o : Oracles) (like : Bytes → Option LikeInfo) (hl : LikeOk o like) (op : LineOp) (val line : Bytes) :
    lineHolds o ⟨op, val, match op with | .re | .nre => like val | _ => none⟩ line = lineHolds o ⟨op, val, none⟩ line := by
  cases op with
  | contains => rfl
  | notContains => rfl
  | re => exact hl .re val line
  | nre => exact hl .nre val line

theorem bytes_beq_symm (a b : Bytes) : (a == b) = (b == a) := by
  by_cases h : a = b
  · subst h; rfl
  · have h1 : (a == b) = false := by simpa using h
    have h2 : (b == a) = false := by simpa using fun e : b = a => h e.symm
    rw [h1, h2]

theorem dropKeeps_eq (ns vs : List Bytes) (kv : Bytes × Bytes) : dropKeeps (ns.zip vs) kv = !dropMatches ns vs kv := by
  simp only [dropKeeps, dropMatches]
  induction ns.zip vs with
  | nil => rfl
  | cons p rest ih =>
    simp only [List.all_cons, List.any_cons, ih, Bool.not_or]
    congr 1
    rw [bytes_beq_symm p.1 kv.1, bytes_beq_symm p.2 kv.2]
    by_cases he : p.2 = []
    · have hb : (p.2 == ([] : Bytes)) = true := by simp [he]
      simp [he, bne]
    · have hne : p.2.isEmpty = false := by cases h : p.2 with | nil => exact absurd h he | cons _ _ => rfl
      have hb : (p.2 == ([] : Bytes)) = false := by simpa using he
      simp only [hne, Bool.false_eq_true, if_false, hb, Bool.false_or]

theorem core_scanX_eq (N : NumOps V) (a : EntryX) (b : Entry V) (hts : b.ts = a.ts) (hl : b.labels = canonLabels a.labels)
    (hm : b.msg = a.line) (hv : b.val = N.zero) (he : b.err = none) : core (scanX N a) = core b := by
  cases b
  simp only [core, scanX] at *
  simp [hts, hl, hm, hv, he]

/-- **the two readings of a shared stage coincide** on the entries ClickHouse hands over (fingerprint values apart), and the
    stage leaves no label map with a key twice -/
theorem bridge_stage (o : Oracles) (E : Env V) (hb : Bridge o E) (like : Bytes → Option LikeInfo) (hl : LikeOk o like)
    (s : StageK V) (sx : StageX) (hs : toStageX like s = some sx) (hok : SharedOk s)
    (es : List EntryX) (hnd : ∀ e ∈ es, NodupKeys e.labels) :
    ((stageX o es sx).map (scanX E.num)).map core = (Stages.stage E s (es.map (scanX E.num))).map core ∧
    (∀ e ∈ stageX o es sx, NodupKeys e.labels) := by
  cases s with
  | line op val =>
    simp only [toStageX, Option.some.injEq] at hs
    subst hs
    refine ⟨?_, fun e he => hnd e (List.mem_filter.mp he).1⟩
    simp only [stageX, stageHolds, Stages.stage, lineStage, List.filter_map, hb.oracles]
    congr 2
    apply List.filter_congr
    intro e _
    simp only [Function.comp, scanX]
    exact lineHolds_like_irrelevant o like hl op val e.line
  | labelFilter c =>
    simp only [toStageX, Option.some.injEq] at hs
    subst hs
    refine ⟨?_, fun e he => hnd e (List.mem_filter.mp he).1⟩
    simp only [stageX, stageHolds, Stages.stage, labelStage, List.filter_map, hb.oracles]
    congr 2
    apply List.filter_congr
    intro e he
    simp only [Function.comp, scanX]
    exact (labelCond_canon o e.labels (hnd e he) c).symm
  | parser k =>
    cases k with
    | json => simp [toStageX] at hs
    | logfmt => simp [toStageX] at hs
    | logfmtParams ps => simp [toStageX] at hs
    | jsonParams ps =>
      simp only [toStageX, Option.some.injEq] at hs
      subst hs
      have hnames : (ps.map (·.1)).Nodup := hok
      constructor
      · simp only [stageX, Stages.stage, parserStage, List.map_map]
        apply List.map_congr_left
        intro e he
        simp only [Function.comp]
        apply core_scanX_eq
        · rfl
        · simp only [LogQL.relabel, Stages.relabel, scanX, applyChanger, parserLabels, List.map_map, Function.comp]
          rw [canon_mapUpdate, jsonParams_distinct_lookup _ ps hnames, jsonParamLabels, List.foldl_map]
          apply foldl_congr_mem
          intro acc a _
          simp only [Function.comp, hb.jsonField]
        · rfl
        · rfl
        · rfl
      · intro e he
        simp only [stageX, List.mem_map] at he
        obtain ⟨e0, he0, rfl⟩ := he
        simp only [LogQL.relabel, applyChanger]
        apply nodupKeys_mapUpdate _ _ (hnd e0 he0)
        have : (List.map (fun x => x.1) (List.map (fun p => (p.1, o.jsonField e0.line p.2))
            (List.map (fun a : Ahead => (a.1, List.map toJArg a.2)) ps))) = ps.map (·.1) := by
          simp only [List.map_map]; rfl
        unfold NodupKeys
        rw [this]
        exact hnames
  | labelFormat ops => simp [toStageX] at hs
  | lineFormat t => simp [toStageX] at hs
  | unwrap l => simp [toStageX] at hs
  | drop ns vs =>
    simp only [toStageX, Option.some.injEq] at hs
    subst hs
    constructor
    · simp only [stageX, Stages.stage, dropStage, List.map_map]
      apply List.map_congr_left
      intro e he
      simp only [Function.comp]
      apply core_scanX_eq
      · rfl
      · simp only [LogQL.relabel, Stages.relabel, scanX, applyChanger]
        rw [canon_filter _ (hnd e he)]
        apply List.filter_congr
        intro kv _
        exact (dropKeeps_eq ns vs kv).symm
      · rfl
      · rfl
      · rfl
    · intro e he
      simp only [stageX, List.mem_map] at he
      obtain ⟨e0, he0, rfl⟩ := he
      simp only [LogQL.relabel, applyChanger]
      exact nodupKeys_filter _ (hnd e0 he0) _

end Qryn.Read
