import Qryn.TraceQL.Sem
/-! C11: `analyzeCond` — de-duplication of conditions into indices keeps the meaning of the selector. -/
namespace Qryn.TraceQL
open Qryn Qryn.Sql

theorem Cond.bounded_mono {n m : Nat} (h : n ≤ m) : ∀ c : Cond, c.bounded n → c.bounded m
  | .leaf i, hc => by simp only [Cond.bounded] at hc ⊢; omega
  | .node _ l r, hc => by
    simp only [Cond.bounded] at hc ⊢
    exact ⟨Cond.bounded_mono h l hc.1, Cond.bounded_mono h r hc.2⟩

theorem Cond.eval_congr {n : Nat} (f g : Nat → Bool) (hfg : ∀ i, i < n → f i = g i) :
    ∀ c : Cond, c.bounded n → c.eval f = c.eval g
  | .leaf i, hc => by simp only [Cond.bounded] at hc; simp [Cond.eval, hfg i hc]
  | .node _ l r, hc => by
    simp only [Cond.bounded] at hc
    simp [Cond.eval, Cond.eval_congr f g hfg l hc.1, Cond.eval_congr f g hfg r hc.2]

theorem KeyInj.mono {u v : List Term} (h : ∀ x ∈ u, x ∈ v) (hv : KeyInj v) : KeyInj u :=
  fun a ha b hb hk => hv a (h a ha) b (h b hb) hk

/-- looking a condition up by its text finds the condition itself -/
theorem internTerm_spec (ts : List Term) (t : Term) (hinj : KeyInj (ts ++ [t])) :
    ∃ extra, (internTerm ts t).1 = ts ++ extra ∧ (∀ u ∈ extra, u = t) ∧
      (ts ++ extra)[(internTerm ts t).2]? = some t := by
  unfold internTerm
  cases h : ts.findIdx? (fun u => u.key == t.key) with
  | none =>
    refine ⟨[t], rfl, by simp, ?_⟩
    simp
  | some i =>
    refine ⟨[], by simp, by simp, ?_⟩
    rw [List.findIdx?_eq_some_iff_getElem] at h
    obtain ⟨hi, hp, _⟩ := h
    simp only [List.append_nil]
    have hk : ts[i].key = t.key := by simpa using hp
    have := hinj ts[i] (by simp) t (by simp) hk
    rw [List.getElem?_eq_getElem hi, this]

theorem analyzeCond_spec (f : Term → Bool) (e : AttrExp) :
    ∀ (ts0 : List Term), KeyInj (ts0 ++ termsOf e) →
    ∃ extra, (analyzeCond ts0 e).1 = ts0 ++ extra ∧ (∀ u ∈ extra, u ∈ termsOf e) ∧
      (analyzeCond ts0 e).2.bounded (ts0 ++ extra).length ∧
      ∀ more, (analyzeCond ts0 e).2.eval (fun i => (((ts0 ++ extra ++ more)[i]?).map f).getD false) = expHolds f e := by
  induction e with
  | leaf t =>
    intro ts0 hinj
    obtain ⟨extra, h1, h2, h3⟩ := internTerm_spec ts0 t (by simpa [termsOf] using hinj)
    refine ⟨extra, by simp [analyzeCond, h1], ?_, ?_, ?_⟩
    · intro u hu; simp [termsOf, h2 u hu]
    · simp only [analyzeCond, Cond.bounded]
      exact (List.getElem?_eq_some_iff.mp h3).1
    · intro more
      simp only [analyzeCond, Cond.eval, expHolds]
      have : (ts0 ++ extra ++ more)[(internTerm ts0 t).2]? = some t := by
        have hlt : (internTerm ts0 t).2 < (ts0 ++ extra).length := (List.getElem?_eq_some_iff.mp h3).1
        rw [List.getElem?_append_left hlt]; exact h3
      simp only [List.append_assoc] at this ⊢
      simp [this]
  | paren e ih =>
    intro ts0 hinj
    simpa [analyzeCond, termsOf, expHolds] using ih ts0 (by simpa [termsOf] using hinj)
  | leafOp t op tail ih =>
    intro ts0 hinj
    have hinj1 : KeyInj (ts0 ++ [t]) := by
      refine KeyInj.mono ?_ hinj
      intro x hx
      simp only [List.mem_append, List.mem_singleton, termsOf, List.mem_cons, List.not_mem_nil, or_false] at hx ⊢
      rcases hx with hx | hx
      · exact Or.inl hx
      · exact Or.inr (Or.inl hx)
    obtain ⟨ex1, h1, h2, h3⟩ := internTerm_spec ts0 t hinj1
    have hinj2 : KeyInj ((ts0 ++ ex1) ++ termsOf tail) := by
      intro a ha b hb
      refine hinj a ?_ b ?_
      · simp only [List.mem_append, termsOf, List.mem_cons] at ha ⊢
        rcases ha with (ha | ha) | ha
        · exact Or.inl ha
        · exact Or.inr (Or.inl (h2 a ha))
        · exact Or.inr (Or.inr ha)
      · simp only [List.mem_append, termsOf, List.mem_cons] at hb ⊢
        rcases hb with (hb | hb) | hb
        · exact Or.inl hb
        · exact Or.inr (Or.inl (h2 b hb))
        · exact Or.inr (Or.inr hb)
    obtain ⟨ex2, g1, g2, g3, g4⟩ := ih (ts0 ++ ex1) hinj2
    have hlt : (internTerm ts0 t).2 < (ts0 ++ ex1).length := (List.getElem?_eq_some_iff.mp h3).1
    refine ⟨ex1 ++ ex2, ?_, ?_, ?_, ?_⟩
    · simp [analyzeCond, h1, g1, List.append_assoc]
    · intro u hu
      simp only [List.mem_append] at hu
      rcases hu with hu | hu
      · simp [termsOf, h2 u hu]
      · simp [termsOf, g2 u hu]
    · simp only [analyzeCond, h1, Cond.bounded]
      refine ⟨?_, ?_⟩
      · simp only [List.length_append] at hlt ⊢; omega
      · simpa [List.append_assoc] using g3
    · intro more
      simp only [analyzeCond, h1, Cond.eval, expHolds]
      have e1 : (ts0 ++ (ex1 ++ ex2) ++ more)[(internTerm ts0 t).2]? = some t := by
        rw [show ts0 ++ (ex1 ++ ex2) ++ more = (ts0 ++ ex1) ++ (ex2 ++ more) by simp [List.append_assoc]]
        rw [List.getElem?_append_left hlt]; exact h3
      have e2 := g4 more
      rw [show ts0 ++ ex1 ++ ex2 ++ more = ts0 ++ (ex1 ++ ex2) ++ more by simp [List.append_assoc]] at e2
      simp only [List.append_assoc] at e1 e2 ⊢
      simp [e1, e2]
  | parenOp e op tail ihe iht =>
    intro ts0 hinj
    have hinj1 : KeyInj (ts0 ++ termsOf e) := by
      refine KeyInj.mono ?_ hinj
      intro x hx
      simp only [List.mem_append, termsOf] at hx ⊢
      rcases hx with hx | hx
      · exact Or.inl hx
      · exact Or.inr (Or.inl hx)
    obtain ⟨ex1, h1, h2, h3, h4⟩ := ihe ts0 hinj1
    have hinj2 : KeyInj ((ts0 ++ ex1) ++ termsOf tail) := by
      intro a ha b hb
      refine hinj a ?_ b ?_
      · simp only [List.mem_append, termsOf] at ha ⊢
        rcases ha with (ha | ha) | ha
        · exact Or.inl ha
        · exact Or.inr (Or.inl (h2 a ha))
        · exact Or.inr (Or.inr ha)
      · simp only [List.mem_append, termsOf] at hb ⊢
        rcases hb with (hb | hb) | hb
        · exact Or.inl hb
        · exact Or.inr (Or.inl (h2 b hb))
        · exact Or.inr (Or.inr hb)
    obtain ⟨ex2, g1, g2, g3, g4⟩ := iht (ts0 ++ ex1) hinj2
    refine ⟨ex1 ++ ex2, ?_, ?_, ?_, ?_⟩
    · simp [analyzeCond, h1, g1, List.append_assoc]
    · intro u hu
      simp only [List.mem_append] at hu
      rcases hu with hu | hu
      · simp [termsOf, h2 u hu]
      · simp [termsOf, g2 u hu]
    · simp only [analyzeCond, h1, Cond.bounded]
      refine ⟨Cond.bounded_mono (by simp) _ h3, ?_⟩
      simpa [List.append_assoc] using g3
    · intro more
      simp only [analyzeCond, h1, Cond.eval, expHolds]
      have e1 := h4 (ex2 ++ more)
      rw [show ts0 ++ ex1 ++ (ex2 ++ more) = ts0 ++ (ex1 ++ ex2) ++ more by simp [List.append_assoc]] at e1
      have e2 := g4 more
      rw [show ts0 ++ ex1 ++ ex2 ++ more = ts0 ++ (ex1 ++ ex2) ++ more by simp [List.append_assoc]] at e2
      simp only [List.append_assoc] at e1 e2 ⊢
      simp [e1, e2]

end Qryn.TraceQL
