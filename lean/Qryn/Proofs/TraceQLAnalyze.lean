import Qryn.TraceQL.Sem
/-! C11: `analyzeCond` — de-duplication of conditions into indices keeps the meaning of the selector. -/
namespace Qryn.TraceQL
open Qryn Qryn.Sql

theorem Cond.bounded_mono {n m : Nat} (h : n ≤ m) : ∀ c : Cond, c.bounded n → c.bounded m
  | .leaf i, hc => by simp only [Cond.bounded] at hc ⊢; omega
  | .node _ l r, hc => by
    simp only [Cond.bounded] at hc ⊢
    exact ⟨Cond.bounded_mono h l hc.1, Cond.bounded_mono h r hc.2⟩

theorem Cond.eval_congr {n : Nat} (f g : Nat → Bool) (hfg : ∀ i, i < n → f i = g i) :
    ∀ c : Cond, c.bounded n → c.eval f = c.eval g
  | .leaf i, hc => by simp only [Cond.bounded] at hc; simp [Cond.eval, hfg i hc]
  | .node _ l r, hc => by
    simp only [Cond.bounded] at hc
    simp [Cond.eval, Cond.eval_congr f g hfg l hc.1, Cond.eval_congr f g hfg r hc.2]

theorem KeyInj.mono {u v : List Term} (h : ∀ x ∈ u, x ∈ v) (hv : KeyInj v) : KeyInj u :=
  fun a ha b hb hk => hv a (h a ha) b (h b hb) hk

/-- looking a condition up by its text finds the condition itself -/
theorem internTerm_spec (ts : List Term) (t : Term) (hinj : KeyInj (ts ++ [t])) :
    ∃ extra, (internTerm ts t).1 = ts ++ extra ∧ (∀ u ∈ extra, u = t) ∧
      (ts ++ extra)[(internTerm ts t).2]? = some t := by
  unfold internTerm
  cases h : ts.findIdx? (fun u => u.key == t.key) with
  | none =>
    refine ⟨[t], rfl, by simp, ?_⟩
    simp
  | some i =>
    refine ⟨[], by simp, by simp, ?_⟩
    rw [List.findIdx?_eq_some_iff_getElem] at h
    obtain ⟨hi, hp, _⟩ := h
    simp only [List.append_nil]
    have hk : ts[i].key = t.key := by simpa using hp
    have := hinj ts[i] (by simp) t (by simp) hk
    rw [List.getElem?_eq_getElem hi, this]

/-! ### `joinConds`, `consHead` -/
theorem joinConds_eval_and (F : Nat → Bool) : ∀ (cs : List Cond), cs ≠ [] →
    (joinConds .and cs).eval F = (cs.map (Cond.eval F)).all id
  | [], h => absurd rfl h
  | [c], _ => by simp [joinConds]
  | c :: c' :: cs, _ => by
    have ih := joinConds_eval_and F (c' :: cs) (by simp)
    simp only [joinConds, Cond.eval, bop, ih]
    simp

theorem joinConds_eval_or (F : Nat → Bool) : ∀ (cs : List Cond), cs ≠ [] →
    (joinConds .or cs).eval F = (cs.map (Cond.eval F)).any id
  | [], h => absurd rfl h
  | [c], _ => by simp [joinConds]
  | c :: c' :: cs, _ => by
    have ih := joinConds_eval_or F (c' :: cs) (by simp)
    simp only [joinConds, Cond.eval, bop, ih]
    simp

theorem joinConds_bounded (op : BoolOp) (n : Nat) : ∀ (cs : List Cond), cs ≠ [] → (∀ c ∈ cs, c.bounded n) →
    (joinConds op cs).bounded n
  | [], h, _ => absurd rfl h
  | [c], _, hb => by simpa [joinConds] using hb c (by simp)
  | c :: c' :: cs, _, hb => by
    simp only [joinConds, Cond.bounded]
    exact ⟨hb c (by simp), joinConds_bounded op n (c' :: cs) (by simp) (fun x hx => hb x (List.mem_cons_of_mem _ hx))⟩

/-- groups as the loop of `analyzeCond` leaves them: at least one, none empty -/
def GroupsOk {α} (gs : List (List α)) : Prop := gs ≠ [] ∧ ∀ g ∈ gs, g ≠ []

theorem consHead_ok {α} (h : α) (op : BoolOp) (gs : List (List α)) (hg : GroupsOk gs) : GroupsOk (consHead h op gs) := by
  obtain ⟨h1, h2⟩ := hg
  cases gs with
  | nil => exact absurd rfl h1
  | cons g gs' =>
    cases op <;> simp only [consHead] <;> refine ⟨by simp, ?_⟩ <;> intro x hx <;>
      simp only [List.mem_cons] at hx
    · rcases hx with rfl | hx
      · simp
      · exact h2 x (by simp [hx])
    · rcases hx with rfl | hx
      · simp
      · exact h2 x (by simpa using hx)
    · rcases hx with rfl | hx
      · simp
      · exact h2 x (by simpa using hx)

theorem consHead_map {α β} (φ : α → β) (h : α) (op : BoolOp) (gs : List (List α)) :
    (consHead h op gs).map (fun g => g.map φ) = consHead (φ h) op (gs.map (fun g => g.map φ)) := by
  cases gs <;> cases op <;> simp [consHead]

theorem consHead_mem {α} (h : α) (op : BoolOp) (gs : List (List α)) (P : α → Prop) (hh : P h)
    (hg : ∀ g ∈ gs, ∀ x ∈ g, P x) : ∀ g ∈ consHead h op gs, ∀ x ∈ g, P x := by
  cases gs with
  | nil =>
    cases op <;> simp only [consHead] <;> intro g hg' x hx <;> simp only [List.mem_singleton] at hg' <;> subst hg' <;>
      simp only [List.mem_singleton] at hx <;> subst hx <;> exact hh
  | cons g0 gs' =>
    cases op <;> simp only [consHead] <;> intro g hg' x hx <;> simp only [List.mem_cons] at hg'
    · rcases hg' with rfl | hg'
      · simp only [List.mem_cons] at hx
        rcases hx with rfl | hx
        · exact hh
        · exact hg g0 (by simp) x hx
      · exact hg g (by simp [hg']) x hx
    · rcases hg' with rfl | hg'
      · simp only [List.mem_singleton] at hx; subst hx; exact hh
      · exact hg g (by simpa using hg') x hx
    · rcases hg' with rfl | hg'
      · simp only [List.mem_singleton] at hx; subst hx; exact hh
      · exact hg g (by simpa using hg') x hx

theorem any_congr_mem {α} (p q : α → Bool) : ∀ (l : List α), (∀ x ∈ l, p x = q x) → l.any p = l.any q
  | [], _ => rfl
  | x :: xs, h => by
    simp only [List.any_cons, h x (by simp), any_congr_mem p q xs (fun y hy => h y (List.mem_cons_of_mem _ hy))]

theorem joinGroups_eval (F : Nat → Bool) (gs : List (List Cond)) (hg : GroupsOk gs) :
    (joinGroups gs).eval F = holdsG (gs.map (fun g => g.map (Cond.eval F))) := by
  obtain ⟨h1, h2⟩ := hg
  unfold joinGroups holdsG
  rw [joinConds_eval_or F _ (by simpa using h1)]
  simp only [List.map_map, List.any_map]
  apply any_congr_mem
  intro g hgm
  simp only [Function.comp, id]
  rw [joinConds_eval_and F g (h2 g hgm)]

theorem joinGroups_bounded (n : Nat) (gs : List (List Cond)) (hg : GroupsOk gs) (hb : ∀ g ∈ gs, ∀ c ∈ g, c.bounded n) :
    (joinGroups gs).bounded n := by
  obtain ⟨h1, h2⟩ := hg
  unfold joinGroups
  apply joinConds_bounded _ _ _ (by simpa using h1)
  intro c hc
  obtain ⟨g, hgm, rfl⟩ := List.mem_map.mp hc
  exact joinConds_bounded _ _ g (h2 g hgm) (hb g hgm)

/-- the loop of `analyzeCond`: the heads, interned left to right, in the groups of the TraceQL reading -/
theorem analyzeChain_spec (f : Term → Bool) (e : AttrExp) :
    ∀ (ts0 : List Term), KeyInj (ts0 ++ termsOf e) →
    ∃ extra, (analyzeChain ts0 e).1 = ts0 ++ extra ∧ (∀ u ∈ extra, u ∈ termsOf e) ∧
      GroupsOk (analyzeChain ts0 e).2 ∧
      (∀ g ∈ (analyzeChain ts0 e).2, ∀ c ∈ g, c.bounded (ts0 ++ extra).length) ∧
      ∀ more, (analyzeChain ts0 e).2.map (fun g => g.map (Cond.eval (fun i => (((ts0 ++ extra ++ more)[i]?).map f).getD false))) =
        expGroups f e := by
  induction e with
  | leaf t =>
    intro ts0 hinj
    obtain ⟨extra, h1, h2, h3⟩ := internTerm_spec ts0 t (by simpa [termsOf] using hinj)
    refine ⟨extra, by simp [analyzeChain, h1], ?_, ?_, ?_, ?_⟩
    · intro u hu; simp [termsOf, h2 u hu]
    · simp [analyzeChain, GroupsOk]
    · intro g hg c hc
      simp only [analyzeChain, List.mem_singleton] at hg
      subst hg
      simp only [List.mem_singleton] at hc
      subst hc
      simp only [Cond.bounded]
      exact (List.getElem?_eq_some_iff.mp h3).1
    · intro more
      simp only [analyzeChain, List.map_cons, List.map_nil, Cond.eval, expGroups]
      have : (ts0 ++ extra ++ more)[(internTerm ts0 t).2]? = some t := by
        have hlt : (internTerm ts0 t).2 < (ts0 ++ extra).length := (List.getElem?_eq_some_iff.mp h3).1
        rw [List.getElem?_append_left hlt]; exact h3
      simp only [List.append_assoc] at this ⊢
      simp [this]
  | paren e ih =>
    intro ts0 hinj
    obtain ⟨extra, h1, h2, h3, h4, h5⟩ := ih ts0 (by simpa [termsOf] using hinj)
    refine ⟨extra, by simp [analyzeChain, h1], by simpa [termsOf] using h2, by simp [analyzeChain, GroupsOk], ?_, ?_⟩
    · intro g hg c hc
      simp only [analyzeChain, List.mem_singleton] at hg
      subst hg
      simp only [List.mem_singleton] at hc
      subst hc
      exact joinGroups_bounded _ _ h3 h4
    · intro more
      simp only [analyzeChain, List.map_cons, List.map_nil, expGroups]
      rw [joinGroups_eval _ _ h3, h5 more]
  | leafOp t op tail ih =>
    intro ts0 hinj
    have hinj1 : KeyInj (ts0 ++ [t]) := by
      refine KeyInj.mono ?_ hinj
      intro x hx
      simp only [List.mem_append, List.mem_singleton, termsOf, List.mem_cons, List.not_mem_nil, or_false] at hx ⊢
      rcases hx with hx | hx
      · exact Or.inl hx
      · exact Or.inr (Or.inl hx)
    obtain ⟨ex1, h1, h2, h3⟩ := internTerm_spec ts0 t hinj1
    have hinj2 : KeyInj ((ts0 ++ ex1) ++ termsOf tail) := by
      intro a ha b hb
      refine hinj a ?_ b ?_
      · simp only [List.mem_append, termsOf, List.mem_cons] at ha ⊢
        rcases ha with (ha | ha) | ha
        · exact Or.inl ha
        · exact Or.inr (Or.inl (h2 a ha))
        · exact Or.inr (Or.inr ha)
      · simp only [List.mem_append, termsOf, List.mem_cons] at hb ⊢
        rcases hb with (hb | hb) | hb
        · exact Or.inl hb
        · exact Or.inr (Or.inl (h2 b hb))
        · exact Or.inr (Or.inr hb)
    obtain ⟨ex2, g1, g2, g3, g4, g5⟩ := ih (ts0 ++ ex1) hinj2
    have hlt : (internTerm ts0 t).2 < (ts0 ++ ex1).length := (List.getElem?_eq_some_iff.mp h3).1
    have hlen : (ts0 ++ ex1 ++ ex2).length = (ts0 ++ (ex1 ++ ex2)).length := by simp [List.append_assoc]
    refine ⟨ex1 ++ ex2, ?_, ?_, ?_, ?_, ?_⟩
    · simp [analyzeChain, h1, g1, List.append_assoc]
    · intro u hu
      simp only [List.mem_append] at hu
      rcases hu with hu | hu
      · simp [termsOf, h2 u hu]
      · simp [termsOf, g2 u hu]
    · simp only [analyzeChain, h1]
      exact consHead_ok _ _ _ g3
    · simp only [analyzeChain, h1]
      apply consHead_mem
      · simp only [Cond.bounded, List.length_append] at hlt ⊢; omega
      · intro g hg c hc
        have := g4 g hg c hc
        rwa [hlen] at this
    · intro more
      simp only [analyzeChain, h1, expGroups]
      rw [consHead_map]
      have e1 : (ts0 ++ (ex1 ++ ex2) ++ more)[(internTerm ts0 t).2]? = some t := by
        rw [show ts0 ++ (ex1 ++ ex2) ++ more = (ts0 ++ ex1) ++ (ex2 ++ more) by simp [List.append_assoc]]
        rw [List.getElem?_append_left hlt]; exact h3
      have e2 := g5 more
      rw [show ts0 ++ ex1 ++ ex2 ++ more = ts0 ++ (ex1 ++ ex2) ++ more by simp [List.append_assoc]] at e2
      rw [e2]
      simp only [List.append_assoc] at e1 ⊢
      simp [Cond.eval, e1]
  | parenOp e op tail ihe iht =>
    intro ts0 hinj
    have hinj1 : KeyInj (ts0 ++ termsOf e) := by
      refine KeyInj.mono ?_ hinj
      intro x hx
      simp only [List.mem_append, termsOf] at hx ⊢
      rcases hx with hx | hx
      · exact Or.inl hx
      · exact Or.inr (Or.inl hx)
    obtain ⟨ex1, h1, h2, h3, h4, h5⟩ := ihe ts0 hinj1
    have hinj2 : KeyInj ((ts0 ++ ex1) ++ termsOf tail) := by
      intro a ha b hb
      refine hinj a ?_ b ?_
      · simp only [List.mem_append, termsOf] at ha ⊢
        rcases ha with (ha | ha) | ha
        · exact Or.inl ha
        · exact Or.inr (Or.inl (h2 a ha))
        · exact Or.inr (Or.inr ha)
      · simp only [List.mem_append, termsOf] at hb ⊢
        rcases hb with (hb | hb) | hb
        · exact Or.inl hb
        · exact Or.inr (Or.inl (h2 b hb))
        · exact Or.inr (Or.inr hb)
    obtain ⟨ex2, g1, g2, g3, g4, g5⟩ := iht (ts0 ++ ex1) hinj2
    have hlen : (ts0 ++ ex1 ++ ex2).length = (ts0 ++ (ex1 ++ ex2)).length := by simp [List.append_assoc]
    refine ⟨ex1 ++ ex2, ?_, ?_, ?_, ?_, ?_⟩
    · simp [analyzeChain, h1, g1, List.append_assoc]
    · intro u hu
      simp only [List.mem_append] at hu
      rcases hu with hu | hu
      · simp [termsOf, h2 u hu]
      · simp [termsOf, g2 u hu]
    · simp only [analyzeChain, h1]
      exact consHead_ok _ _ _ g3
    · simp only [analyzeChain, h1]
      apply consHead_mem
      · exact Cond.bounded_mono (by simp) _ (joinGroups_bounded _ _ h3 h4)
      · intro g hg c hc
        have := g4 g hg c hc
        rwa [hlen] at this
    · intro more
      simp only [analyzeChain, h1, expGroups]
      rw [consHead_map]
      have e1 := h5 (ex2 ++ more)
      rw [show ts0 ++ ex1 ++ (ex2 ++ more) = ts0 ++ (ex1 ++ ex2) ++ more by simp [List.append_assoc]] at e1
      have e2 := g5 more
      rw [show ts0 ++ ex1 ++ ex2 ++ more = ts0 ++ (ex1 ++ ex2) ++ more by simp [List.append_assoc]] at e2
      rw [e2, joinGroups_eval _ _ h3, e1]

theorem analyzeCond_spec (f : Term → Bool) (e : AttrExp) :
    ∀ (ts0 : List Term), KeyInj (ts0 ++ termsOf e) →
    ∃ extra, (analyzeCond ts0 e).1 = ts0 ++ extra ∧ (∀ u ∈ extra, u ∈ termsOf e) ∧
      (analyzeCond ts0 e).2.bounded (ts0 ++ extra).length ∧
      ∀ more, (analyzeCond ts0 e).2.eval (fun i => (((ts0 ++ extra ++ more)[i]?).map f).getD false) = expHolds f e := by
  intro ts0 hinj
  obtain ⟨extra, h1, h2, h3, h4, h5⟩ := analyzeChain_spec f e ts0 hinj
  refine ⟨extra, by simpa [analyzeCond] using h1, h2, ?_, ?_⟩
  · simp only [analyzeCond]; exact joinGroups_bounded _ _ h3 h4
  · intro more
    simp only [analyzeCond, expHolds]
    rw [joinGroups_eval _ _ h3, h5 more]

end Qryn.TraceQL
