import Qryn.Ingest.ErrorHandler
import Qryn.Proofs.Handler
/-! Lemmas about `Ingest.ErrorHandler` for C01: a text that starts with a known header can only be matched by a
    prefix guard compatible with that header; safe tables answer an error status; shape of the error values the
    push path produces; erasure to the outcome-only handler model. -/
namespace Qryn.Ingest.ErrorHandler
open Qryn.Ingest.Batcher (Outcome Push Chunk doPush doParse handler retryFrom Status)

/-! ### prefixes -/

theorem isPrefixOf_append_compatible (p h s : Text) (hp : p.isPrefixOf (h ++ s) = true) : compatible p h = true := by
  induction p generalizing h with
  | nil => simp [compatible]
  | cons a p ih =>
    cases h with
    | nil => simp [compatible]
    | cons b h =>
      simp only [List.cons_append, List.isPrefixOf, Bool.and_eq_true] at hp
      have := ih h hp.2
      simp only [compatible, Bool.or_eq_true] at this ⊢
      rcases this with h1 | h1
      · left; simp [List.isPrefixOf, hp.1, h1]
      · right
        have hba : (b == a) = true := by
          have := hp.1
          simp only [beq_iff_eq] at this ⊢
          exact this.symm
        simp [List.isPrefixOf, hba, h1]

theorem isPrefixOf_self_append (h s : Text) : h.isPrefixOf (h ++ s) = true := by
  induction h with
  | nil => simp
  | cons a h ih => simp [ih]

/-! ### safe tables -/

theorem actErr_status {a : Action} (h : actErr a = true) : ∃ c, act a = .status c ∧ 400 ≤ c ∧ c ≤ 599 := by
  cases a with
  | silent => simp [actErr] at h
  | write c =>
    simp only [actErr, Bool.and_eq_true, decide_eq_true_eq] at h
    refine ⟨c, ?_, h.1, h.2⟩
    have : 100 ≤ c ∧ c ≤ 999 := ⟨by omega, by omega⟩
    simp [act, answerOf, this]

/-- **a safe table answers an error status** to every untyped error whose text starts with `h`, whatever
    follows the header. -/
theorem classify_safe (h : Text) (rs : List Rule) (hs : tableSafe h rs = true) (e : ErrVal) (has : e.as = [])
    (s : Text) (ht : e.text = h ++ s) : ∃ c, classify rs e = .status c ∧ 400 ≤ c ∧ c ≤ 599 := by
  simp only [tableSafe, Bool.and_eq_true] at hs
  obtain ⟨hall, hany⟩ := hs
  induction rs with
  | nil => simp at hany
  | cons r rest ih =>
    simp only [List.all_cons, Bool.and_eq_true] at hall
    cases r with
    | typed ty =>
      simp only [classify, has, List.lookup]
      apply ih hall.2
      simpa [Rule.isOtherwise] using hany
    | otherwise a =>
      simp only [classify]
      exact actErr_status (by simpa [ruleSafe] using hall.1)
    | text pred p a =>
      simp only [classify]
      by_cases hm : pred.holds e.text p = true
      · simp only [hm, if_true]
        apply actErr_status
        cases pred with
        | hasPrefix =>
          have hsafe := hall.1
          simp only [ruleSafe, Bool.or_eq_true, Bool.not_eq_true'] at hsafe
          rcases hsafe with h1 | h1
          · simp only [TextPred.holds, ht] at hm
            rw [isPrefixOf_append_compatible p h s hm] at h1
            cases h1
          · exact h1
        | contains => simpa [ruleSafe] using hall.1
        | hasSuffix => simpa [ruleSafe] using hall.1
      · simp only [hm]
        apply ih hall.2
        simpa [Rule.isOtherwise] using hany

theorem retryErr_shape (f : RetryFmt) (errs : List Text) :
    (retryErr f errs).as = [] ∧ ∃ s, (retryErr f errs).text = f.header ++ s :=
  ⟨rfl, _, rfl⟩

theorem panicErr_shape (t : Text) : (panicErr t).as = [] ∧ ∃ s, (panicErr t).text = panicHeader ++ s :=
  ⟨rfl, _, rfl⟩

/-- an error value produced by the push path (exhausted retries with any texts, or a recovered panic) -/
def IsPushErr (f : RetryFmt) (e : ErrVal) : Prop := (∃ errs, e = retryErr f errs) ∨ ∃ t, e = panicErr t

theorem classify_pushErr (f : RetryFmt) (rs : List Rule) (h1 : tableSafe f.header rs = true)
    (h2 : tableSafe panicHeader rs = true) (e : ErrVal) (he : IsPushErr f e) :
    ∃ c, classify rs e = .status c ∧ 400 ≤ c ∧ c ≤ 599 := by
  rcases he with ⟨errs, rfl⟩ | ⟨t, rfl⟩
  · exact classify_safe f.header rs h1 _ rfl _ rfl
  · exact classify_safe panicHeader rs h2 _ rfl _ rfl

/-! ### the retry loop with texts -/

theorem retryFromT_some (f : RetryFmt) (out : Nat → Attempt) (n k : Nat) (acc : List Text) (e : ErrVal)
    (h : retryFromT f out n k acc = some e) :
    (∃ errs, errs.length = n ∧ e = retryErr f (acc.reverse ++ errs) ∧ ∀ j (hj : j < errs.length), out (k + j) = .fail errs[j]) ∨
    (∃ t j, j < n ∧ e = panicErr t ∧ out (k + j) = .panic t) := by
  induction n generalizing k acc with
  | zero =>
    simp only [retryFromT, Option.some.injEq] at h
    exact Or.inl ⟨[], rfl, by simp [h], by intro j hj; simp at hj⟩
  | succ n ih =>
    simp only [retryFromT] at h
    cases ho : out k with
    | ok => simp [ho] at h
    | panic t =>
      simp only [ho, Option.some.injEq] at h
      exact Or.inr ⟨t, 0, by omega, h.symm, by simpa using ho⟩
    | fail t =>
      simp only [ho] at h
      rcases ih (k + 1) (t :: acc) h with ⟨errs, hl, he, hout⟩ | ⟨t', j, hj, he, hout⟩
      · refine Or.inl ⟨t :: errs, by simp [hl], by simp [he], ?_⟩
        intro j hj
        cases j with
        | zero => simpa using ho
        | succ j =>
          have := hout j (by simpa using hj)
          simpa [show k + (j + 1) = k + 1 + j by omega] using this
      · exact Or.inr ⟨t', j + 1, by omega, he, by rwa [show k + (j + 1) = k + 1 + j by omega]⟩

theorem retryFromT_isPushErr (f : RetryFmt) (out : Nat → Attempt) (n k : Nat) (acc : List Text) (e : ErrVal)
    (h : retryFromT f out n k acc = some e) : IsPushErr f e := by
  rcases retryFromT_some f out n k acc e h with ⟨errs, _, he, _⟩ | ⟨t, _, _, he, _⟩
  · exact Or.inl ⟨_, he⟩
  · exact Or.inr ⟨t, he⟩

theorem doPushT_isPushErr (f : RetryFmt) (a : Nat) (p : PushT) (e : ErrVal) (h : doPushT f a p = some e) :
    IsPushErr f e := by
  unfold doPushT at h
  split at h
  · cases h
  · exact retryFromT_isPushErr f _ _ _ _ e h

/-- all attempts fail (with any texts): the loop ends with the `retry.Error` of exactly these texts -/
theorem retryFromT_exhausted (f : RetryFmt) (out : Nat → Attempt) (ts : Nat → Text) (n k : Nat) (acc : List Text)
    (h : ∀ j, j < n → out (k + j) = .fail (ts (k + j))) :
    retryFromT f out n k acc = some (retryErr f (acc.reverse ++ (List.range n).map (fun j => ts (k + j)))) := by
  induction n generalizing k acc with
  | zero => simp [retryFromT]
  | succ n ih =>
    have h0 : out k = .fail (ts k) := by simpa using h 0 (Nat.succ_pos n)
    simp only [retryFromT, h0]
    rw [ih (k + 1) (ts k :: acc) (fun j hj => by
      have := h (j + 1) (by omega); rwa [show k + (j + 1) = k + 1 + j by omega] at this)]
    congr 2
    simp only [List.reverse_cons, List.append_assoc, List.singleton_append, List.range_succ_eq_map, List.map_cons,
      List.map_map, Nat.add_zero]
    congr 2
    apply List.map_congr_left
    intro j _
    simp only [Function.comp]
    congr 1; omega

theorem doPushT_none_iff (f : RetryFmt) (a : Nat) (p : PushT) (hr : p.hasReq = true) (hs : p.hasSvc = true) :
    doPushT f a p = none ↔ ∃ k, k < a ∧ p.out k = .ok ∧ ∀ i, i < k → ∃ t, p.out i = .fail t := by
  have key : ∀ n k acc, retryFromT f p.out n k acc = none ↔
      ∃ j, j < n ∧ p.out (k + j) = .ok ∧ ∀ i, i < j → ∃ t, p.out (k + i) = .fail t := by
    intro n
    induction n with
    | zero => intro k acc; simp [retryFromT]
    | succ n ih =>
      intro k acc
      simp only [retryFromT]
      cases ho : p.out k with
      | ok =>
        simp only [true_iff]
        exact ⟨0, by omega, by simpa using ho, by intro i hi; omega⟩
      | panic t =>
        simp only [reduceCtorEq, false_iff]
        rintro ⟨j, hj, hok, hpre⟩
        cases j with
        | zero => simp [ho] at hok
        | succ j => obtain ⟨t', ht'⟩ := hpre 0 (by omega); simp [ho] at ht'
      | fail t =>
        simp only
        rw [ih (k + 1) (t :: acc)]
        constructor
        · rintro ⟨j, hj, hok, hpre⟩
          refine ⟨j + 1, by omega, by rwa [show k + (j + 1) = k + 1 + j by omega], ?_⟩
          intro i hi
          cases i with
          | zero => exact ⟨t, by simpa using ho⟩
          | succ i => have := hpre i (by omega); rwa [show k + 1 + i = k + (i + 1) by omega] at this
        · rintro ⟨j, hj, hok, hpre⟩
          cases j with
          | zero => simp [ho] at hok
          | succ j =>
            refine ⟨j, by omega, by rwa [show k + 1 + j = k + (j + 1) by omega], ?_⟩
            intro i hi
            have := hpre (i + 1) (by omega)
            rwa [show k + 1 + i = k + (i + 1) by omega]
  have := key a 0 []
  simpa [doPushT, hr, hs] using this

/-! ### `doParse` with error values -/

theorem findSome_id_none {α} (l : List (Option α)) : l.findSome? id = none ↔ ∀ o ∈ l, o = none := by
  induction l with
  | nil => simp
  | cons x t ih => cases x <;> simp [ih]

theorem findSome_id_mem {α} (l : List (Option α)) (e : α) (h : l.findSome? id = some e) : some e ∈ l := by
  induction l with
  | nil => simp at h
  | cons x t ih =>
    cases x with
    | none => simp only [List.findSome?_cons, id] at h; exact List.mem_cons_of_mem _ (ih h)
    | some y => simp only [List.findSome?_cons, id, Option.some.injEq] at h; subst h; simp

theorem doParseT_none_iff (f : RetryFmt) (a : Nat) (chunks : List ChunkT) (acc : List (Option ErrVal)) :
    doParseT f a chunks acc = none ↔
      (∀ c ∈ chunks, ∃ ps, c = .response ps) ∧ (∀ o ∈ acc, o = none) ∧
      ∀ ps, ChunkT.response ps ∈ chunks → ∀ p ∈ ps, doPushT f a p = none := by
  induction chunks generalizing acc with
  | nil => simp [doParseT]
  | cons c rest ih =>
    cases c with
    | error e =>
      simp only [doParseT, reduceCtorEq, false_iff]
      rintro ⟨h, _⟩
      obtain ⟨ps, hps⟩ := h (.error e) (by simp)
      cases hps
    | response ps =>
      simp only [doParseT]
      rw [ih]
      constructor
      · rintro ⟨h1, h2, h3⟩
        refine ⟨?_, ?_, ?_⟩
        · intro c hc
          rcases List.mem_cons.mp hc with rfl | hc
          · exact ⟨ps, rfl⟩
          · exact h1 c hc
        · intro o ho; exact h2 o (List.mem_append.mpr (Or.inl ho))
        · intro ps' hps' p hp
          rcases List.mem_cons.mp hps' with h | h
          · cases h
            exact h2 _ (List.mem_append.mpr (Or.inr (List.mem_map.mpr ⟨p, hp, rfl⟩)))
          · exact h3 ps' h p hp
      · rintro ⟨h1, h2, h3⟩
        refine ⟨fun c hc => h1 c (List.mem_cons_of_mem _ hc), ?_, fun ps' hps' => h3 ps' (List.mem_cons_of_mem _ hps')⟩
        intro o ho
        rcases List.mem_append.mp ho with ho | ho
        · exact h2 o ho
        · obtain ⟨p, hp, rfl⟩ := List.mem_map.mp ho
          exact h3 ps (by simp) p hp

/-- where an error returned by `doParse` comes from: the parser, or one of the pushes -/
theorem doParseT_some (f : RetryFmt) (a : Nat) (chunks : List ChunkT) (acc : List (Option ErrVal)) (e : ErrVal)
    (h : doParseT f a chunks acc = some e) :
    ChunkT.error e ∈ chunks ∨ some e ∈ acc ∨ ∃ ps p, ChunkT.response ps ∈ chunks ∧ p ∈ ps ∧ doPushT f a p = some e := by
  induction chunks generalizing acc with
  | nil => exact Or.inr (Or.inl (findSome_id_mem acc e (by simpa [doParseT] using h)))
  | cons c rest ih =>
    cases c with
    | error e' =>
      simp only [doParseT, Option.some.injEq] at h
      subst h
      exact Or.inl (by simp)
    | response ps =>
      simp only [doParseT] at h
      rcases ih _ h with h1 | h1 | ⟨ps', p, h1, h2, h3⟩
      · exact Or.inl (List.mem_cons_of_mem _ h1)
      · rcases List.mem_append.mp h1 with h1 | h1
        · exact Or.inr (Or.inl h1)
        · obtain ⟨p, hp, hpe⟩ := List.mem_map.mp h1
          exact Or.inr (Or.inr ⟨ps, p, by simp, hp, hpe⟩)
      · exact Or.inr (Or.inr ⟨ps', p, List.mem_cons_of_mem _ h1, h2, h3⟩)

/-! ### erasure -/

theorem retryFromT_none_erase (f : RetryFmt) (out : Nat → Attempt) (n k : Nat) (acc : List Text)
    (h : retryFromT f out n k acc = none) : (retryFrom (fun j => (out j).outcome) n k).1 = .ok := by
  induction n generalizing k acc with
  | zero => simp [retryFromT] at h
  | succ n ih =>
    simp only [retryFromT] at h
    cases ho : out k with
    | ok => simp [retryFrom, ho, Attempt.outcome]
    | panic t => simp [ho] at h
    | fail t =>
      simp only [ho] at h
      simp only [retryFrom, ho, Attempt.outcome, reduceCtorEq, if_false]
      exact ih (k + 1) _ h

/-- a push that succeeds with error values succeeds in the outcome-only model (`Batcher.doPush`) -/
theorem doPushT_none_erase (f : RetryFmt) (a : Nat) (p : PushT) (h : doPushT f a p = none) :
    (doPush a p.erase).1 = .ok := by
  unfold doPushT at h
  unfold doPush
  simp only [PushT.erase]
  split at h
  · rename_i hc; simp [hc]
  · rename_i hc
    simp only [hc]
    exact retryFromT_none_erase f p.out a 0 [] h

theorem retryFromT_erase_panicFree (f : RetryFmt) (out : Nat → Attempt) (hpf : ∀ k t, out k ≠ .panic t) (n k : Nat)
    (acc : List Text) : (retryFromT f out n k acc).isNone = ((retryFrom (fun j => (out j).outcome) n k).1 == .ok) := by
  induction n generalizing k acc with
  | zero => simp [retryFromT, retryFrom]
  | succ n ih =>
    cases ho : out k with
    | ok => simp [retryFromT, retryFrom, ho, Attempt.outcome]
    | panic t => exact absurd ho (hpf k t)
    | fail t =>
      simp only [retryFromT, retryFrom, ho, Attempt.outcome, reduceCtorEq, if_false]
      exact ih (k + 1) _

/-- without panics the two models of `doPush` agree on success -/
theorem doPushT_erase_panicFree (f : RetryFmt) (a : Nat) (p : PushT) (hpf : p.panicFree) :
    (doPushT f a p).isNone = ((doPush a p.erase).1 == .ok) := by
  unfold doPushT doPush
  simp only [PushT.erase]
  by_cases hc : (!p.hasReq || !p.hasSvc) = true
  · simp [hc]
  · simp only [hc]
    exact retryFromT_erase_panicFree f p.out hpf a 0 []


/-! ### the pinned rule table on the three kinds of error value -/

/-- how a typed error value of the writer answers to `errors.As`: `*UnMarshalError` to both targets,
    `*QrynError` to the interface only; everything else (retry.Error, fmt.Errorf, net errors, …) to none -/
inductive Shape (codes : List Nat) : ErrVal → Prop
  | untyped (t : Text) : Shape codes { as := [], text := t }
  | unmarshal (c : Nat) (t : Text) (hc : c ∈ codes) :
      Shape codes { as := [("*customErrors.UnMarshalError", c), ("customErrors.IQrynError", c)], text := t }
  | qryn (c : Nat) (t : Text) (hc : c ∈ codes) : Shape codes { as := [("customErrors.IQrynError", c)], text := t }

theorem classify_untyped (t : Text) :
    classify rules { as := [], text := t } = if resetText.isPrefixOf t then .silent else .status 500 := by
  simp [rules, classify, List.lookup, TextPred.holds, act, answerOf]

theorem not_prefix_of_incompatible (p h s : Text) (hc : compatible p h = false) : p.isPrefixOf (h ++ s) = false := by
  cases hp : p.isPrefixOf (h ++ s) with
  | false => rfl
  | true => rw [isPrefixOf_append_compatible p h s hp] at hc; cases hc

theorem classify_pushErr_500 (f : RetryFmt) (hf : compatible resetText f.header = false) (e : ErrVal)
    (he : IsPushErr f e) : classify rules e = .status 500 := by
  rcases he with ⟨errs, rfl⟩ | ⟨t, rfl⟩
  · show classify rules { as := [], text := f.header ++ _ } = _
    rw [classify_untyped, not_prefix_of_incompatible _ _ _ hf]; rfl
  · show classify rules { as := [], text := panicHeader ++ t } = _
    rw [classify_untyped, not_prefix_of_incompatible _ _ _ (by decide)]; rfl

theorem classify_shape {codes : List Nat} (hcodes : ∀ c ∈ codes, 100 ≤ c ∧ c ≤ 999) (e : ErrVal) (h : Shape codes e) :
    (e.as = [] ∧ classify rules e = if resetText.isPrefixOf e.text then .silent else .status 500) ∨
    (∃ c ∈ codes, classify rules e = .status c) := by
  cases h with
  | untyped t => exact Or.inl ⟨rfl, classify_untyped t⟩
  | unmarshal c t hc =>
    refine Or.inr ⟨c, hc, ?_⟩
    have := hcodes c hc
    simp [rules, classify, List.lookup, answerOf, this]
  | qryn c t hc =>
    refine Or.inr ⟨c, hc, ?_⟩
    have := hcodes c hc
    simp [rules, classify, List.lookup, answerOf, this]

/-! ### the handler -/

/-- **what the handler can answer** (pinned table): the route's ok status, 500, the code of a typed
    request-side error, or nothing at all — the last only for an *untyped request-side* error (pre-request step or
    parser) whose text begins with "connection reset by peer". Never for an error of the push path. -/
theorem handlerT_cases (f : RetryFmt) (hf : compatible resetText f.header = false) {codes : List Nat}
    (hcodes : ∀ c ∈ codes, 100 ≤ c ∧ c ≤ 999) (attempts okStatus : Nat) (pre : Option ErrVal) (chunks : List ChunkT)
    (hpre : ∀ e, pre = some e → Shape codes e) (hch : ∀ e, ChunkT.error e ∈ chunks → Shape codes e) :
    (handlerT rules f attempts pre okStatus chunks = answerOf okStatus ∧ pre = none ∧
        doParseT f attempts chunks [] = none) ∨
    (handlerT rules f attempts pre okStatus chunks = .status 500) ∨
    (∃ c ∈ codes, handlerT rules f attempts pre okStatus chunks = .status c) ∨
    (handlerT rules f attempts pre okStatus chunks = .silent ∧
        ∃ e, (pre = some e ∨ (pre = none ∧ ChunkT.error e ∈ chunks)) ∧ e.as = [] ∧ resetText.isPrefixOf e.text = true) := by
  have req : ∀ e, Shape codes e → (pre = some e ∨ (pre = none ∧ ChunkT.error e ∈ chunks)) →
      classify rules e = .status 500 ∨ (∃ c ∈ codes, classify rules e = .status c) ∨
      (classify rules e = .silent ∧ ∃ e', (pre = some e' ∨ (pre = none ∧ ChunkT.error e' ∈ chunks)) ∧ e'.as = [] ∧
        resetText.isPrefixOf e'.text = true) := by
    intro e hs hwhere
    rcases classify_shape hcodes e hs with ⟨has, hc⟩ | hc
    · cases hpfx : resetText.isPrefixOf e.text with
      | false => left; rw [hc, hpfx]; rfl
      | true => right; right; exact ⟨by rw [hc, hpfx]; rfl, e, hwhere, has, hpfx⟩
    · exact Or.inr (Or.inl hc)
  unfold handlerT
  cases pre with
  | some e =>
    rcases req e (hpre e rfl) (Or.inl rfl) with h | h | h
    · exact Or.inr (Or.inl h)
    · exact Or.inr (Or.inr (Or.inl h))
    · exact Or.inr (Or.inr (Or.inr h))
  | none =>
    cases hd : doParseT f attempts chunks [] with
    | none => exact Or.inl ⟨rfl, rfl, rfl⟩
    | some e =>
      rcases doParseT_some f attempts chunks [] e hd with h | h | ⟨ps, p, _, _, h⟩
      · rcases req e (hch e h) (Or.inr ⟨rfl, h⟩) with h | h | h
        · exact Or.inr (Or.inl h)
        · exact Or.inr (Or.inr (Or.inl h))
        · exact Or.inr (Or.inr (Or.inr h))
      · simp at h
      · exact Or.inr (Or.inl (classify_pushErr_500 f hf e (doPushT_isPushErr f attempts p e h)))

/-- a failing push with no parser error before the answer: status 500 -/
theorem handlerT_push_failure (f : RetryFmt) (hf : compatible resetText f.header = false) (attempts okStatus : Nat)
    (chunks : List ChunkT) (hparse : ∀ c ∈ chunks, ∃ ps, c = ChunkT.response ps)
    (hfail : ∃ ps p, ChunkT.response ps ∈ chunks ∧ p ∈ ps ∧ doPushT f attempts p ≠ none) :
    handlerT rules f attempts none okStatus chunks = .status 500 := by
  unfold handlerT
  cases hd : doParseT f attempts chunks [] with
  | none =>
    obtain ⟨ps, p, h1, h2, h3⟩ := hfail
    exact absurd (((doParseT_none_iff f attempts chunks []).mp hd).2.2 ps h1 p h2) h3
  | some e =>
    rcases doParseT_some f attempts chunks [] e hd with h | h | ⟨ps, p, _, _, h⟩
    · obtain ⟨ps, hps⟩ := hparse _ h; cases hps
    · simp at h
    · exact classify_pushErr_500 f hf e (doPushT_isPushErr f attempts p e h)

theorem erase_mem {chunks : List ChunkT} {ps : List Push} (h : Chunk.response ps ∈ chunks.map ChunkT.erase) :
    ∃ pts, ChunkT.response pts ∈ chunks ∧ ps = pts.map PushT.erase := by
  obtain ⟨c, hc, he⟩ := List.mem_map.mp h
  cases c with
  | error e => simp [ChunkT.erase] at he
  | response pts => simp only [ChunkT.erase, Chunk.response.injEq] at he; exact ⟨pts, hc, he.symm⟩

end Qryn.Ingest.ErrorHandler
