import Qryn.Proofs.LogQLMetric
import Qryn.Proofs.LogQLPlan
/-! Plumbing for the plan-level theorems of C08: rows with the five standard column names and their
    qualified copies, GROUP BY as "distinct keys in order of first occurrence", the WITH list that
    `Select.With` builds (hoisting, de-duplication by alias) and its evaluation. -/
namespace Qryn.Sql

/-! ### rows with the standard columns -/
def Std5 (k : String) : Prop :=
  k = "timestamp_ns" ∨ k = "fingerprint" ∨ k = "string" ∨ k = "value" ∨ k = "labels"

theorem Std5.noDot {k : String} (h : Std5 k) : '.' ∉ k.toList := by
  rcases h with h | h | h | h | h <;> subst h <;> decide

/-- every column of the row has one of the five standard names -/
def StdRow (r : Row) : Prop := ∀ p ∈ r, Std5 p.1

theorem dotted_ne_std (a k k' : String) (h : Std5 k') : (a ++ "." ++ k == k') = false := by
  rw [beq_eq_false_iff_ne]
  intro e
  have h1 : '.' ∈ (a ++ "." ++ k).toList := by simp
  rw [e] at h1
  exact h.noDot h1

theorem std_ne_dotted (a k k' : String) (h : Std5 k') : (k' == a ++ "." ++ k) = false := by
  rw [beq_eq_false_iff_ne]
  intro e
  have h1 : '.' ∈ (a ++ "." ++ k).toList := by simp
  rw [← e] at h1
  exact h.noDot h1

theorem lookup_prefixed (a k : String) (r : Row) :
    List.lookup (a ++ "." ++ k) (r.map (fun (p : String × Val) => (a ++ "." ++ p.1, p.2))) = List.lookup k r := by
  induction r with
  | nil => rfl
  | cons p r ih =>
    obtain ⟨k', v⟩ := p
    simp only [List.map_cons, List.lookup]
    have : (a ++ "." ++ k == a ++ "." ++ k') = (k == k') := by
      rw [Bool.eq_iff_iff]; simp
    rw [this]
    cases k == k' <;> simp [ih]

theorem lookup_dotted_std (a k : String) (r : Row) (h : StdRow r) : List.lookup (a ++ "." ++ k) r = none := by
  induction r with
  | nil => rfl
  | cons p r ih =>
    obtain ⟨k', v⟩ := p
    simp only [List.lookup]
    rw [dotted_ne_std a k k' (h (k', v) (List.mem_cons_self ..))]
    exact ih (fun q hq => h q (List.mem_cons_of_mem _ hq))

theorem lookup_std_prefixed (a k : String) (r : Row) (hk : Std5 k) :
    List.lookup k (r.map (fun (p : String × Val) => (a ++ "." ++ p.1, p.2))) = none := by
  induction r with
  | nil => rfl
  | cons p r ih =>
    obtain ⟨k', v⟩ := p
    simp only [List.map_cons, List.lookup]
    rw [std_ne_dotted a k' k hk]
    exact ih

theorem qualify_eq (a : String) (r : Row) :
    qualify a r = r.map (fun (p : String × Val) => (a ++ "." ++ p.1, p.2)) ++ r := by
  unfold qualify
  congr 1

/-- `alias.col` of a qualified standard row is the row's column -/
theorem get_qualified (a k : String) (r : Row) (h : StdRow r) : (qualify a r).get (a ++ "." ++ k) = r.get k := by
  unfold Row.get
  rw [qualify_eq, List.lookup_append, lookup_prefixed]
  cases hl : List.lookup k r with
  | some v => rfl
  | none => simp [lookup_dotted_std a k r h]

/-- an unqualified standard name reads the row's column as well -/
theorem get_unqualified (a k : String) (r : Row) (hk : Std5 k) : (qualify a r).get k = r.get k := by
  unfold Row.get
  rw [qualify_eq, List.lookup_append, lookup_std_prefixed a k r hk]
  simp

end Qryn.Sql

namespace Qryn.Sql

/-! ### distinct keys in order of first occurrence -/
theorem eraseDups_map_inj {α β} [BEq α] [LawfulBEq α] [BEq β] [LawfulBEq β] (f : α → β)
    (hf : ∀ a b, f a = f b → a = b) (l : List α) : (l.map f).eraseDups = l.eraseDups.map f := by
  generalize hn : l.length = n
  induction n using Nat.strongRecOn generalizing l with
  | _ n ih =>
    cases l with
    | nil => rfl
    | cons a as =>
      simp only [List.map_cons, List.eraseDups_cons, List.filter_map]
      congr 1
      have hfl : (as.filter ((fun b => !b == f a) ∘ f)) = as.filter (fun b => !b == a) := by
        apply List.filter_congr
        intro x _
        simp only [Function.comp_apply]
        congr 1
        rw [Bool.eq_iff_iff]
        simp only [beq_iff_eq]
        exact ⟨hf x a, fun h => by rw [h]⟩
      rw [hfl]
      have hlen : (as.filter (fun b => !b == a)).length < n := by
        have := List.length_filter_le (fun b => !b == a) as
        simp only [List.length_cons] at hn
        omega
      exact ih _ hlen _ rfl

/-- the groups of a list under a key: distinct keys in order of first occurrence, each with its members in order -/
def groupsBy {α κ} [BEq κ] (key : α → κ) (l : List α) : List (κ × List α) :=
  (l.map key).eraseDups.map (fun k => (k, l.filter (fun a => key a == k)))

theorem groupsBy_enc {α κ β} [BEq κ] [LawfulBEq κ] [BEq β] [LawfulBEq β] (key : α → κ) (enc : κ → β)
    (hinj : ∀ a b, enc a = enc b → a = b) (l : List α) :
    groupsBy (fun a => enc (key a)) l = (groupsBy key l).map (fun g => (enc g.1, g.2)) := by
  unfold groupsBy
  rw [show l.map (fun a => enc (key a)) = (l.map key).map enc by simp, eraseDups_map_inj enc hinj]
  simp only [List.map_map]
  apply List.map_congr_left
  intro k _
  simp only [Function.comp_apply, Prod.mk.injEq, true_and]
  apply List.filter_congr
  intro x _
  rw [Bool.eq_iff_iff]
  simp only [beq_iff_eq]
  exact ⟨hinj _ _, fun h => by rw [h]⟩

/-- every group is non-empty, its members carry the group's key -/
theorem groupsBy_mem {α κ} [BEq κ] [LawfulBEq κ] (key : α → κ) (l : List α) (g : κ × List α) (h : g ∈ groupsBy key l) :
    g.2 = l.filter (fun a => key a == g.1) ∧ ∃ a, a ∈ l ∧ key a = g.1 := by
  unfold groupsBy at h
  obtain ⟨k, hk, rfl⟩ := List.mem_map.mp h
  refine ⟨rfl, ?_⟩
  rw [List.mem_eraseDups] at hk
  obtain ⟨a, ha, rfl⟩ := List.mem_map.mp hk
  exact ⟨a, ha, rfl⟩

theorem groupsBy_map {α β κ} [BEq κ] (key : β → κ) (f : α → β) (l : List α) :
    groupsBy key (l.map f) = (groupsBy (fun a => key (f a)) l).map (fun g => (g.1, g.2.map f)) := by
  unfold groupsBy
  simp only [List.map_map, Function.comp_def, List.filter_map]

theorem groupsBy_congr {α κ} [BEq κ] (k1 k2 : α → κ) (l : List α) (h : ∀ a ∈ l, k1 a = k2 a) :
    groupsBy k1 l = groupsBy k2 l := by
  unfold groupsBy
  rw [List.map_congr_left h]
  apply List.map_congr_left
  intro k _
  simp only [Prod.mk.injEq, true_and]
  apply List.filter_congr
  intro a ha
  rw [h a ha]

/-! ### the WITH list `Select.With` builds -/
def als (ws : List (Alias × Sel)) : List Alias := ws.map (·.1)

theorem hasAlias_iff (ws : List (Alias × Sel)) (a : Alias) : hasAlias ws a = true ↔ a ∈ als ws := by
  simp only [hasAlias, als, List.any_eq_true, beq_iff_eq, List.mem_map]

theorem hasAlias_false (ws : List (Alias × Sel)) (a : Alias) (h : a ∉ als ws) : hasAlias ws a = false := by
  cases hh : hasAlias ws a
  · rfl
  · exact absurd ((hasAlias_iff ws a).mp hh) h

def dedupStep (acc : List (Alias × Sel)) (w' : Alias × Sel) : List (Alias × Sel) :=
  if hasAlias acc w'.1 then acc else acc ++ [w']

theorem addWith1_eq (cur : List (Alias × Sel)) (w : Alias × Sel) :
    addWith1 cur w = if hasAlias cur w.1 then cur else w.2.withs.foldl dedupStep cur ++ [w] := rfl

/-- hoisting a WITH list none of whose names is there yet appends it -/
theorem dedup_fresh (ws acc : List (Alias × Sel)) (h1 : (als ws).Nodup) (h2 : ∀ a ∈ als ws, a ∉ als acc) :
    ws.foldl dedupStep acc = acc ++ ws := by
  induction ws generalizing acc with
  | nil => simp
  | cons w ws ih =>
    simp only [als, List.map_cons, List.nodup_cons] at h1
    simp only [List.foldl_cons, dedupStep]
    rw [hasAlias_false acc w.1 (h2 w.1 (by simp [als]))]
    simp only [Bool.false_eq_true, if_false]
    rw [ih _ h1.2]
    · simp
    · intro a ha
      simp only [als, List.map_append, List.map_cons, List.map_nil, List.mem_append, List.mem_singleton, not_or]
      refine ⟨h2 a (by simp only [als, List.map_cons, List.mem_cons]; right; exact ha), ?_⟩
      rintro rfl
      exact h1.1 ha

/-- hoisting a WITH list all of whose names are already there changes nothing -/
theorem dedup_present (ws acc : List (Alias × Sel)) (h : ∀ a ∈ als ws, a ∈ als acc) :
    ws.foldl dedupStep acc = acc := by
  induction ws generalizing acc with
  | nil => rfl
  | cons w ws ih =>
    simp only [List.foldl_cons, dedupStep]
    rw [(hasAlias_iff acc w.1).mpr (h w.1 (by simp [als]))]
    simp only [if_true]
    exact ih _ (fun a ha => h a (by simp only [als, List.map_cons, List.mem_cons]; right; exact ha))

theorem withs_setWiths (s : Sel) (ws : List (Alias × Sel)) : (s.setWiths ws).withs = ws := by
  cases s; rfl

/-- `s.With(m as a)` when `m`'s own WITH list has distinct names and `a` is new -/
theorem with_one (s m : Sel) (a : Alias) (hn : (als m.withs).Nodup) :
    s.with_ [(a, m)] = s.setWiths (m.withs ++ [(a, m)]) := by
  unfold Sel.with_
  simp only [List.foldl_cons, List.foldl_nil, addWith1_eq, hasAlias, List.any_nil, Bool.false_eq_true, if_false]
  rw [dedup_fresh _ _ hn (by simp [als])]
  simp

/-- `s.With(m as a, m2 as a2)` when `m2` brings no new WITH of its own -/
theorem with_two (s m m2 : Sel) (a a2 : Alias) (hn : (als m.withs).Nodup)
    (hf2 : a2 ∉ als m.withs) (hne : a2 ≠ a) (h2 : ∀ x ∈ als m2.withs, x ∈ als m.withs) :
    s.with_ [(a, m), (a2, m2)] = s.setWiths (m.withs ++ [(a, m), (a2, m2)]) := by
  unfold Sel.with_
  simp only [List.foldl_cons, List.foldl_nil, addWith1_eq, hasAlias, List.any_nil, Bool.false_eq_true, if_false]
  rw [dedup_fresh _ _ hn (by simp [als])]
  simp only [List.nil_append]
  have hh : (List.any (m.withs ++ [(a, m)]) fun w => w.1 == a2) = false := by
    have := hasAlias_false (m.withs ++ [(a, m)]) a2 (by
      simp only [als, List.map_append, List.map_cons, List.map_nil, List.mem_append, List.mem_singleton, not_or]
      exact ⟨hf2, hne⟩)
    simpa [hasAlias] using this
  simp only [hh, Bool.false_eq_true, if_false]
  rw [dedup_present]
  · simp
  · intro x hx
    simp only [als, List.map_append, List.mem_append]
    left; exact h2 x hx

/-! ### evaluation of a WITH list -/
theorem evalWithsA_append (o : Oracles) (db : Db) (env : Env) (a b : List (Alias × Sel)) :
    evalWithsA o db env (a ++ b) = evalWithsA o db (evalWithsA o db env a) b := by
  induction a generalizing env with
  | nil => rfl
  | cons x a ih => obtain ⟨al, s⟩ := x; simp only [List.cons_append, evalWithsA, ih]

/-- the tables of the WITH list of a statement -/
def envOf (o : Oracles) (db : Db) (s : Sel) : Env := evalWithsA o db [] s.withs

theorem evalSelA_eq (o : Oracles) (db : Db) (s : Sel) : evalSelA o db s = evalBodyM o db (envOf o db s) s := by
  cases s; rfl

def isBitSetHaving : Option Expr → Bool
  | some (.logical "and" [.logical "==" [.bitSetAnd _, _]]) => true
  | _ => false

theorem isBitSetSel_eq (s : Sel) : isBitSetSel s = isBitSetHaving s.having := by
  cases s with
  | mk w d c f j p wh g h ob l =>
    simp only [Sel.having]
    unfold isBitSetSel isBitSetHaving
    split
    · rename_i heq
      injection heq with _ _ _ _ _ _ _ _ h9 _ _
      subst h9
      rfl
    · rename_i x hx
      split
      · exact absurd rfl (hx _ _ _ _ _ _ _ _ _ _ _ _)
      · rfl

theorem isBitSetSel_setWiths (s : Sel) (ws : List (Alias × Sel)) : isBitSetSel (s.setWiths ws) = isBitSetSel s := by
  rw [isBitSetSel_eq, isBitSetSel_eq]
  cases s; rfl

theorem evalBody_setWiths (o : Oracles) (db : Db) (env : Env) (s : Sel) (ws : List (Alias × Sel)) :
    evalBody o db env (s.setWiths ws) = evalBody o db env s := by
  cases s; rfl

theorem evalBodyA_setWiths (o : Oracles) (db : Db) (env : Env) (s : Sel) (ws : List (Alias × Sel)) :
    evalBodyA o db env (s.setWiths ws) = evalBodyA o db env s := by
  cases s; rfl

theorem evalBodyM_setWiths (o : Oracles) (db : Db) (env : Env) (s : Sel) (ws : List (Alias × Sel)) :
    evalBodyM o db env (s.setWiths ws) = evalBodyM o db env s := by
  unfold evalBodyM
  rw [isBitSetSel_setWiths, evalBody_setWiths, evalBodyA_setWiths]

/-- a statement `s WITH (…m's WITH list…, m as a)`: `s`'s body over `m`'s tables plus `m`'s own table under `a` -/
theorem evalSelA_setWiths_snoc (o : Oracles) (db : Db) (s m : Sel) (a : Alias) :
    evalSelA o db (s.setWiths (m.withs ++ [(a, m)])) =
      evalBodyM o db ((a, evalSelA o db m) :: envOf o db m) s := by
  rw [evalSelA_eq, evalBodyM_setWiths]
  unfold envOf
  rw [withs_setWiths, evalWithsA_append]
  simp only [evalWithsA]
  rw [evalSelA_eq]
  rfl

theorem envOf_setWiths_snoc (o : Oracles) (db : Db) (s m : Sel) (a : Alias) :
    envOf o db (s.setWiths (m.withs ++ [(a, m)])) = (a, evalSelA o db m) :: envOf o db m := by
  unfold envOf
  rw [withs_setWiths, evalWithsA_append]
  simp only [evalWithsA]
  rw [evalSelA_eq]
  rfl

end Qryn.Sql

namespace Qryn.LogQL
open Qryn Qryn.Sql

/-! ### a table as a list of points -/
/-- a Float64/UInt64 cell read as a number -/
def numOf? : Val → Option Rat
  | .int i => some i
  | .rat q => some q
  | _ => none

theorem toRat_of_numOf {v : Val} {q : Rat} (h : numOf? v = some q) : v.toRat? = some q := by
  cases v <;> simp_all [numOf?, Val.toRat?]

/-- what later stages read of a row -/
def rview (r : Row) : Val × Val × Option Rat × Val :=
  (r.get "fingerprint", r.get "timestamp_ns", numOf? (r.get "value"), r.get "labels")

def Pt.view (p : Pt) : Val × Val × Option Rat × Val := (p.key, .int p.ts, some p.value, p.labels)

/-- the table holds the points, in order: same series key, timestamp, value (as a number) and labels, row by row,
    under the standard column names -/
structure Rep (T : Table) (pts : List Pt) : Prop where
  view : T.map rview = pts.map Pt.view
  std : ∀ r ∈ T, StdRow r

theorem Rep.map {T pts} (h : Rep T pts) {β} (g : Val × Val × Option Rat × Val → β) :
    T.map (fun r => g (rview r)) = pts.map (fun p => g p.view) := by
  have := congrArg (List.map g) h.view
  simpa [List.map_map, Function.comp_def] using this

theorem map_filter_view {α β γ} (f : α → γ) (f' : β → γ) (l : List α) (l' : List β) (h : l.map f = l'.map f')
    (p : γ → Bool) : (l.filter (fun a => p (f a))).map f = (l'.filter (fun b => p (f' b))).map f' := by
  induction l generalizing l' with
  | nil =>
    cases l' with
    | nil => rfl
    | cons b l' => simp at h
  | cons a l ih =>
    cases l' with
    | nil => simp at h
    | cons b l' =>
      simp only [List.map_cons, List.cons.injEq] at h
      simp only [List.filter_cons, h.1]
      split
      · simp only [List.map_cons, h.1, ih l' h.2]
      · exact ih l' h.2

theorem Rep.filter {T pts} (h : Rep T pts) (p : Val × Val × Option Rat × Val → Bool) :
    Rep (T.filter (fun r => p (rview r))) (pts.filter (fun q => p q.view)) :=
  ⟨map_filter_view rview Pt.view T pts h.view p, fun r hr => h.std r (List.mem_filter.mp hr).1⟩

theorem Rep.length {T pts} (h : Rep T pts) : T.length = pts.length := by
  have := congrArg List.length h.view
  simpa using this

end Qryn.LogQL

namespace Qryn.Sql

theorem groupsBy_head {α κ} [BEq κ] [LawfulBEq κ] (key : α → κ) (l : List α) (g : κ × List α) (h : g ∈ groupsBy key l) :
    (∃ a rest, g.2 = a :: rest ∧ key a = g.1) ∧ (∀ x ∈ g.2, x ∈ l ∧ key x = g.1) := by
  obtain ⟨h1, a, ha, hk⟩ := groupsBy_mem key l g h
  have hall : ∀ x ∈ g.2, x ∈ l ∧ key x = g.1 := by
    intro x hx
    rw [h1] at hx
    have := List.mem_filter.mp hx
    exact ⟨this.1, by simpa using this.2⟩
  refine ⟨?_, hall⟩
  have hin : a ∈ g.2 := by
    rw [h1]; exact List.mem_filter.mpr ⟨ha, by simp [hk]⟩
  cases hg : g.2 with
  | nil => rw [hg] at hin; simp at hin
  | cons b rest => exact ⟨b, rest, rfl, (hall b (by rw [hg]; simp)).2⟩

/-- GROUP BY as `evalBodyA` computes it, in terms of `groupsBy` -/
theorem eraseDups_map_groups {α κ β} [BEq κ] (key : α → κ) (l : List α) (F : κ → List α → β) :
    (l.map key).eraseDups.map (fun k => F k (l.filter (fun a => key a == k))) =
      (groupsBy key l).map (fun g => F g.1 g.2) := by
  unfold groupsBy
  simp only [List.map_map, Function.comp_def]

end Qryn.Sql

namespace Qryn.LogQL
open Qryn Qryn.Sql

theorem rep_of_map (f : Pt → Row) (pts : List Pt) (h : ∀ p ∈ pts, rview (f p) = p.view ∧ StdRow (f p)) :
    Rep (pts.map f) pts := by
  refine ⟨?_, ?_⟩
  · rw [List.map_map]
    exact List.map_congr_left (fun p hp => (h p hp).1)
  · intro r hr
    obtain ⟨p, hp, rfl⟩ := List.mem_map.mp hr
    exact (h p hp).2

end Qryn.LogQL

namespace Qryn.Sql

/-- the GROUP BY key of a source row -/
def gkey (o : Oracles) (env : Env) (cols gb : List Expr) (r : Row) : List Val :=
  gb.map (fun g => evalE o env (aliasVals o env cols r ++ r) g)

/-- the output row of a group -/
def grow (o : Oracles) (env : Env) (cols : List Expr) (grp : List Row) : Row :=
  cols.map (fun c => (colName c,
    evalAgg o env (grp.map (fun r => aliasVals o env cols r ++ r)) (scope o env cols (colName c) (grp.headD [])) c))

def havingFilter (o : Oracles) (env : Env) (hv : Option Expr) (out : Table) : Table :=
  match hv with
  | some h => out.filter (fun r => havingA o env r h)
  | none => out

/-- a grouping select without joins, WHERE, ORDER BY, LIMIT: one row per group, then HAVING -/
theorem evalBodyA_grouped (o : Oracles) (db : Db) (env : Env) (ws : List (Alias × Sel)) (cols : List Expr) (f : Expr)
    (S : Table) (hsrc : sourceRowsA o db env f = S) (gb : List Expr) (hgb : gb.isEmpty = false) (hv : Option Expr) :
    evalBodyA o db env (.mk ws false cols (some f) [] none none gb hv [] none) =
      havingFilter o env hv ((groupsBy (gkey o env cols gb) S).map (fun g => grow o env cols g.2)) := by
  simp only [evalBodyA, hsrc, List.foldl_nil, optB, Bool.and_self, filter_true, hgb, Bool.false_and, Bool.false_eq_true,
    if_false, List.isEmpty_nil, if_true]
  have : (List.map (fun k =>
            List.map (fun c => (colName c,
                  evalAgg o env (List.map (fun r => aliasVals o env cols r ++ r)
                      (List.filter (fun r => List.map (fun g => evalE o env (aliasVals o env cols r ++ r) g) gb == k) S))
                    (scope o env cols (colName c)
                      ((List.filter (fun r => List.map (fun g => evalE o env (aliasVals o env cols r ++ r) g) gb == k) S).headD []))
                    c)) cols)
          (List.map (fun r => List.map (fun g => evalE o env (aliasVals o env cols r ++ r) g) gb) S).eraseDups) =
      (groupsBy (gkey o env cols gb) S).map (fun g => grow o env cols g.2) := by
    unfold groupsBy gkey grow
    simp only [List.map_map, Function.comp_def]
  rw [this]
  cases hv <;> rfl

end Qryn.Sql

namespace Qryn.Sql

theorem get_append (l r : Row) (k : String) :
    (l ++ r).get k = match l.lookup k with | some v => v | none => r.get k := by
  unfold Row.get
  rw [List.lookup_append]
  cases l.lookup k <;> rfl

/-- a name qualified by another alias is not a column of a qualified standard row -/
theorem lookup_qualified_other (a k : String) (r : Row) (h : StdRow r) (hk : '.' ∈ k.toList)
    (hne : ∀ k', Std5 k' → a ++ "." ++ k' ≠ k) : (qualify a r).lookup k = none := by
  rw [qualify_eq, List.lookup_append]
  have h1 : List.lookup k (r.map (fun (p : String × Val) => (a ++ "." ++ p.1, p.2))) = none := by
    induction r with
    | nil => rfl
    | cons p r ih =>
      obtain ⟨k', v⟩ := p
      simp only [List.map_cons, List.lookup]
      have : (k == a ++ "." ++ k') = false := by
        rw [beq_eq_false_iff_ne]
        exact fun e => hne k' (h (k', v) (List.mem_cons_self ..)) e.symm
      rw [this]
      exact ih (fun q hq => h q (List.mem_cons_of_mem _ hq))
  have h2 : List.lookup k r = none := by
    clear h1
    induction r with
    | nil => rfl
    | cons p r ih =>
      obtain ⟨k', v⟩ := p
      simp only [List.lookup]
      have : (k == k') = false := by
        rw [beq_eq_false_iff_ne]
        intro e
        exact (h (k', v) (List.mem_cons_self ..)).noDot (e ▸ hk)
      rw [this]
      exact ih (fun q hq => h q (List.mem_cons_of_mem _ hq))
  rw [h1, h2]; rfl

theorem lookup_qualified (a k : String) (r : Row) (h : StdRow r) : (qualify a r).lookup (a ++ "." ++ k) = r.lookup k := by
  rw [qualify_eq, List.lookup_append, lookup_prefixed]
  cases hl : List.lookup k r with
  | some v => rfl
  | none => simp [lookup_dotted_std a k r h]

end Qryn.Sql

namespace Qryn.Sql

theorem map_rel {α β γ δ} (f : α → γ) (f' : β → γ) (F : α → δ) (F' : β → δ) (l : List α) (l' : List β)
    (h : l.map f = l'.map f') (hF : ∀ a ∈ l, ∀ b ∈ l', f a = f' b → F a = F' b) : l.map F = l'.map F' := by
  induction l generalizing l' with
  | nil =>
    cases l' with
    | nil => rfl
    | cons b l' => simp at h
  | cons a l ih =>
    cases l' with
    | nil => simp at h
    | cons b l' =>
      simp only [List.map_cons, List.cons.injEq] at h ⊢
      exact ⟨hF a (List.mem_cons_self ..) b (List.mem_cons_self ..) h.1,
        ih l' h.2 (fun a ha b hb => hF a (List.mem_cons_of_mem _ ha) b (List.mem_cons_of_mem _ hb))⟩

theorem filter_rel {α β γ} (f : α → γ) (f' : β → γ) (P : α → Bool) (P' : β → Bool) (l : List α) (l' : List β)
    (h : l.map f = l'.map f') (hP : ∀ a ∈ l, ∀ b ∈ l', f a = f' b → P a = P' b) :
    (l.filter P).map f = (l'.filter P').map f' := by
  induction l generalizing l' with
  | nil =>
    cases l' with
    | nil => rfl
    | cons b l' => simp at h
  | cons a l ih =>
    cases l' with
    | nil => simp at h
    | cons b l' =>
      simp only [List.map_cons, List.cons.injEq] at h
      have hp := hP a (List.mem_cons_self ..) b (List.mem_cons_self ..) h.1
      have ih' := ih l' h.2 (fun a ha b hb => hP a (List.mem_cons_of_mem _ ha) b (List.mem_cons_of_mem _ hb))
      simp only [List.filter_cons, hp]
      split
      · simp only [List.map_cons, h.1, ih']
      · exact ih'

/-- a literal `alias.col` name of a qualified standard row -/
theorem get_q (a k ak : String) (hak : ak = a ++ "." ++ k) (r : Row) (h : StdRow r) : (qualify a r).get ak = r.get k := by
  subst hak; exact get_qualified a k r h

end Qryn.Sql

namespace Qryn.Sql
theorem get_cons (k k' : String) (v : Val) (r : Row) : Row.get ((k', v) :: r) k = if k == k' then v else r.get k := by
  unfold Row.get
  simp only [List.lookup]
  cases k == k' <;> rfl
end Qryn.Sql

namespace Qryn.Sql
theorem get_nil (k : String) : Row.get [] k = .null := rfl
end Qryn.Sql

namespace Qryn.Sql

/-- groups of two lists that agree under `f`/`f'`, grouped by keys that are functions of that common image,
    correspond one to one (same order, members agreeing under `f`/`f'`) -/
theorem groups_rel {α β γ κ κ' δ} [BEq κ] [LawfulBEq κ] [BEq κ'] [LawfulBEq κ'] (f : α → γ) (f' : β → γ) (K : γ → κ')
    (enc : κ' → κ) (hinj : ∀ a b, enc a = enc b → a = b) (l : List α) (l' : List β) (h : l.map f = l'.map f')
    (F : List α → δ) (F' : List β → δ)
    (hF : ∀ A B, A ≠ [] → (∀ a ∈ A, a ∈ l) → (∀ b ∈ B, b ∈ l') → (∀ a ∈ A, ∀ a' ∈ A, K (f a) = K (f a')) →
      A.map f = B.map f' → F A = F' B) :
    (groupsBy (fun a => enc (K (f a))) l).map (fun g => F g.2) = (groupsBy (fun b => K (f' b)) l').map (fun g => F' g.2) := by
  unfold groupsBy
  have hk : l.map (fun a => enc (K (f a))) = (l'.map (fun b => K (f' b))).map enc := by
    have := congrArg (List.map (fun x => enc (K x))) h
    simpa [List.map_map, Function.comp_def] using this
  rw [hk, eraseDups_map_inj enc hinj]
  simp only [List.map_map, Function.comp_def]
  apply List.map_congr_left
  intro k hk'
  have hfr := filter_rel f f' (fun a => enc (K (f a)) == enc k) (fun b => K (f' b) == k) l l' h (by
    intro a _ b _ hab
    rw [hab, Bool.eq_iff_iff]
    simp only [beq_iff_eq]
    exact ⟨hinj _ _, fun e => by rw [e]⟩)
  apply hF _ _ _ (fun a ha => (List.mem_filter.mp ha).1) (fun b hb => (List.mem_filter.mp hb).1) ?_ hfr
  · rw [List.mem_eraseDups] at hk'
    obtain ⟨b, hb, rfl⟩ := List.mem_map.mp hk'
    intro he
    have : (List.filter (fun b' => K (f' b') == K (f' b)) l').map f' = [] := by rw [← hfr, he]; rfl
    have hb' : b ∈ List.filter (fun b' => K (f' b') == K (f' b)) l' := List.mem_filter.mpr ⟨hb, by simp⟩
    have := List.map_eq_nil_iff.mp this
    rw [this] at hb'
    simp at hb'
  · intro a ha a' ha'
    have h1 := (List.mem_filter.mp ha).2
    have h2 := (List.mem_filter.mp ha').2
    simp only [beq_iff_eq] at h1 h2
    rw [hinj _ _ h1, hinj _ _ h2]

end Qryn.Sql

namespace Qryn.Sql
/-- one cell of the output row of a group -/
def growCell (o : Oracles) (env : Env) (cols : List Expr) (grp : List Row) (c : Expr) : String × Val :=
  (colName c, evalAgg o env (grp.map (fun r => aliasVals o env cols r ++ r)) (scope o env cols (colName c) (grp.headD [])) c)

theorem grow_eq (o : Oracles) (env : Env) (cols : List Expr) (grp : List Row) :
    grow o env cols grp = cols.map (growCell o env cols grp) := rfl
end Qryn.Sql

namespace Qryn.Sql
theorem arrayJoin_rows_gen (o : Oracles) (db : Db) (env : Env) (T : Table) (h : env.lookup (.named "par_b") = some T) :
    sourceRowsA o db env (.arrayJoinFrom (.withRef (.named "par_b")) (simpleCol "par_b.slice" "arr_b")) =
      (T.map (qualify "par_b")).flatMap (fun r =>
        match r.get "par_b.slice" with
        | .tuples ts => ts.map (fun t => r ++ tupleCols "arr_b" t)
        | _ => []) := by
  simp [sourceRowsA, sourceRows, h, Alias.text, simpleCol, evalE, colName]
  congr 1
end Qryn.Sql

namespace Qryn.Sql
/-- a grouping select with PREWHERE/WHERE: the groups are formed of the rows that pass -/
theorem evalBodyA_grouped_where (o : Oracles) (db : Db) (env : Env) (ws : List (Alias × Sel)) (cols : List Expr) (f : Expr)
    (S : Table) (pre wher : Option Expr) (hsrc : (sourceRowsA o db env f).filter (fun r => optB o env r pre && optB o env r wher) = S)
    (gb : List Expr) (hgb : gb.isEmpty = false) (hv : Option Expr) :
    evalBodyA o db env (.mk ws false cols (some f) [] pre wher gb hv [] none) =
      havingFilter o env hv ((groupsBy (gkey o env cols gb) S).map (fun g => grow o env cols g.2)) := by
  simp only [evalBodyA, List.foldl_nil, hsrc, hgb, Bool.false_and, Bool.false_eq_true, if_false, List.isEmpty_nil, if_true]
  have : (List.map (fun k =>
            List.map (fun c => (colName c,
                  evalAgg o env (List.map (fun r => aliasVals o env cols r ++ r)
                      (List.filter (fun r => List.map (fun g => evalE o env (aliasVals o env cols r ++ r) g) gb == k) S))
                    (scope o env cols (colName c)
                      ((List.filter (fun r => List.map (fun g => evalE o env (aliasVals o env cols r ++ r) g) gb == k) S).headD []))
                    c)) cols)
          (List.map (fun r => List.map (fun g => evalE o env (aliasVals o env cols r ++ r) g) gb) S).eraseDups) =
      (groupsBy (gkey o env cols gb) S).map (fun g => grow o env cols g.2) := by
    unfold groupsBy gkey grow
    simp only [List.map_map, Function.comp_def]
  rw [this]
  cases hv <;> rfl
end Qryn.Sql
