import Qryn.Proofs.Batcher
/-! C02 lemmas: `ProcessRequest` keeps the columns rectangular for rectangular requests, and every block
    handed to `Do` is the column-wise concatenation of the requests it resolves. -/
namespace Qryn.Ingest.Batcher

theorem reqRect_cells {p : Plan} {r : Req} {n : Nat} (h : ReqRect p r n) {st : PStep} (hst : st ∈ p.steps) :
    (cellsOf r st).length = n ∧ stepFaults r st = false := by
  have := h st hst
  cases st with
  | arr c f => simpa [cellsOf, stepFaults] using this
  | zip c f lead =>
    simp only at this
    simp [cellsOf, stepFaults, this.1, this.2]
  | one c f => simp only at this; simp [cellsOf, stepFaults, this]

theorem reqRect_noFault {p : Plan} {r : Req} {n : Nat} (h : ReqRect p r n) : p.steps.any (stepFaults r) = false := by
  rw [List.any_eq_false]
  intro st hst
  simp [(reqRect_cells h hst).2]

theorem contrib_length {p : Plan} (hp : planOK p = true) {r : Req} {n : Nat} (h : ReqRect p r n)
    {name : String} (hn : name ∈ p.acquired) : (contrib p r name).length = n := by
  obtain ⟨st, hst, _, hf⟩ := planOK_unique hp hn
  rw [contrib_of_unique hf]
  exact (reqRect_cells h hst).1

/-- **process_rect**, generic in the plan -/
theorem processRequest_rect {p : Plan} (hp : planOK p = true) {r : Req} {n m : Nat} {cs : Columns}
    (hty : r.ptype = p.ptype) (hr : ReqRect p r n) (hc : RectCols p cs m) :
    ∃ cs', processRequest p r (some cs) = .ok ⟨n, some cs', false⟩ ∧ RectCols p cs' (m + n) ∧
      ∀ name ∈ p.acquired, colData cs' name = colData cs name ++ contrib p r name := by
  obtain ⟨hnames, hlen⟩ := hc
  refine ⟨applySteps r p.steps cs, ?_, ⟨by rw [names_applySteps]; exact hnames, ?_⟩, ?_⟩
  · rcases processRequest_cases p r (some cs) with ⟨h, _⟩ | ⟨_, h, _⟩ | ⟨_, cs', hcs', hf, _⟩ | ⟨_, cs', hcs', _, he⟩
    · exact absurd hty h
    · cases h
    · rw [reqRect_noFault hr] at hf; cases hf
    · cases hcs'
      rw [he]
      have hcnt : p.countCol ∈ names cs := hnames ▸ planOK_count hp
      rw [colData_applySteps_contrib p r cs _ hcnt]
      simp [contrib_length hp hr (planOK_count hp)]
  · intro name hn
    rw [colData_applySteps_contrib p r cs name (hnames ▸ hn)]
    simp [hlen name hn, contrib_length hp hr hn]
  · intro name hn
    exact colData_applySteps_contrib p r cs name (hnames ▸ hn)

/-! ### blocks are concatenations -/

def GoodOp (p : Plan) (R : ReqId → Req) : Op → Prop
  | .request r => r = R r.id ∧ GoodReq p r
  | _ => True

/-- what every INSERT of a trace must satisfy -/
def GoodBlock (p : Plan) (R : ReqId → Req) (b : Columns) (w : List ReqId) : Prop :=
  BlockIsConcat p R b w ∧ ∀ id ∈ w, GoodReq p (R id)

def AllInserts (P : Columns → List ReqId → Prop) (evs : List Event) : Prop :=
  ∀ b w o, Event.insert b w o ∈ evs → P b w

def CInv (p : Plan) (R : ReqId → Req) (s : Svc) : Prop :=
  s.plan = p ∧ s.crashed = false ∧
  (∃ cs, s.cols = some cs ∧ GoodBlock p R cs s.pending) ∧
  (∀ q, s.inflight = some q → GoodBlock p R q.cols q.waiting)

theorem CInv.of_same {p R} {s s' : Svc} (h0 : s'.crashed = s.crashed) (h1 : s'.plan = s.plan) (h2 : s'.cols = s.cols)
    (h3 : s'.pending = s.pending) (h4 : s'.inflight = s.inflight) (hI : CInv p R s) : CInv p R s' := by
  obtain ⟨hplan, hcr, hcols, hinf⟩ := hI
  exact ⟨h1 ▸ hplan, h0 ▸ hcr, by rw [h2, h3]; exact hcols, by rw [h4]; exact hinf⟩

theorem cinit {p R} (mq : Nat) : CInv p R (Svc.init p mq) := by
  refine ⟨rfl, rfl, ⟨acquire p, rfl, ⟨names_acquire p, ?_⟩, ?_⟩, ?_⟩
  · intro name _; simp [colData_acquire, Svc.init]
  · intro id hid; simp [Svc.init] at hid
  · intro q hq; simp [Svc.init] at hq

theorem allInserts_nil {P} : AllInserts P [] := by intro b w o h; simp at h

theorem allInserts_append {P} {a b : List Event} (ha : AllInserts P a) (hb : AllInserts P b) : AllInserts P (a ++ b) := by
  intro x w o h
  rcases List.mem_append.mp h with h | h
  · exact ha x w o h
  · exact hb x w o h

theorem step_concat {p R} (hp : planOK p = true) (s : Svc) (op : Op) (hI : CInv p R s) (hG : GoodOp p R op) :
    CInv p R (step s op).1 ∧ AllInserts (GoodBlock p R) (step s op).2 := by
  have hcr := hI.2.1
  cases op with
  | request r =>
    rw [step_request s r hcr]
    obtain ⟨hplan, _, ⟨cs, hc, ⟨hnames, hdata⟩, hgood⟩, hinf⟩ := hI
    obtain ⟨hW, hty, n, hrect⟩ := hG
    have hnf := reqRect_noFault hrect
    have hall : AllInserts (GoodBlock p R) (stepRequest s r).2 := by
      rcases stepRequest_cases s r with ⟨_, he⟩ | ⟨_, f, _, he⟩ | ⟨_, res, _, _, he⟩ | ⟨_, res, _, _, he⟩ <;>
        (rw [he]; intro b w o h; simp at h)
    refine ⟨?_, hall⟩
    rcases stepRequest_cases s r with ⟨_, he⟩ | ⟨_, f, hres, he⟩ | ⟨_, res, hres, hz, he⟩ | ⟨_, res, hres, hz, he⟩
    · rw [he]; exact ⟨hplan, hcr, ⟨cs, hc, ⟨hnames, hdata⟩, hgood⟩, hinf⟩
    · -- a good request cannot fault
      rw [hplan] at hres
      rcases processRequest_cases p r s.cols with ⟨h, _⟩ | ⟨_, h, _⟩ | ⟨_, cs', _, hf, _⟩ | ⟨_, cs', _, _, hpr⟩
      · exact absurd hty h
      · rw [hc] at h; cases h
      · rw [hnf] at hf; cases hf
      · rw [hpr] at hres; cases hres
    all_goals
      rw [he]
      rw [hplan] at hres
      rcases processRequest_cases p r s.cols with ⟨h, _⟩ | ⟨_, h, _⟩ | ⟨_, cs', _, hf, _⟩ | ⟨_, cs', hcs', _, hpr⟩
      · exact absurd hty h
      · rw [hc] at h; cases h
      · rw [hnf] at hf; cases hf
    · -- inserted = 0: a rectangular request then has no cell at all
      rw [hc] at hcs'; cases hcs'
      rw [hpr] at hres; cases hres
      simp only [Bool.false_or, beq_iff_eq] at hz
      have hcnt : p.countCol ∈ names cs := hnames ▸ planOK_count hp
      rw [colData_applySteps_contrib p r cs _ hcnt] at hz
      simp only [List.length_append, Nat.add_sub_cancel_left] at hz
      rw [contrib_length hp hrect (planOK_count hp)] at hz
      subst hz
      refine ⟨hplan, hcr, ⟨applySteps r p.steps cs, rfl, ⟨by rw [names_applySteps]; exact hnames, ?_⟩, hgood⟩, hinf⟩
      intro name hn
      rw [colData_applySteps_contrib p r cs name (hnames ▸ hn)]
      have : contrib p r name = [] := List.eq_nil_of_length_eq_zero (contrib_length hp hrect hn)
      rw [this, List.append_nil]
      exact hdata name hn
    · rw [hc] at hcs'; cases hcs'
      rw [hpr] at hres; cases hres
      refine ⟨hplan, hcr, ⟨applySteps r p.steps cs, rfl, ⟨by rw [names_applySteps]; exact hnames, ?_⟩, ?_⟩, hinf⟩
      · intro name hn
        rw [colData_applySteps_contrib p r cs name (hnames ▸ hn), hdata name hn]
        simp only [List.flatMap_append, List.flatMap_cons, List.flatMap_nil, List.append_nil]
        rw [← hW]
      · intro id hid
        rcases List.mem_append.mp hid with hid | hid
        · exact hgood id hid
        · simp only [List.mem_singleton] at hid; subst hid; rw [← hW]; exact ⟨hty, n, hrect⟩
  | trigger k => rw [step_trigger s k hcr]; exact ⟨CInv.of_same rfl rfl rfl rfl rfl hI, allInserts_nil⟩
  | connect ok =>
    rw [step_connect s ok hcr]
    unfold stepConnect
    by_cases h : (s.running && s.flushPlanned && !s.client && s.inflight.isNone) = true
    · simp only [h, if_true]; exact ⟨CInv.of_same rfl rfl rfl rfl rfl hI, allInserts_nil⟩
    · simp only [h]; exact ⟨hI, allInserts_nil⟩
  | swap =>
    rw [step_swap s hcr]
    obtain ⟨hplan, _, ⟨cs, hc, hblock⟩, hinf⟩ := hI
    unfold stepSwap
    by_cases h : (s.running && s.flushPlanned && s.client && s.inflight.isNone) = true
    · simp only [h, if_true]
      by_cases hz : s.size = 0
      · simp only [hz, if_true]
        exact ⟨⟨hplan, hcr, ⟨cs, hc, hblock⟩, hinf⟩, allInserts_nil⟩
      · simp only [hz, if_false, hc]
        refine ⟨⟨hplan, hcr, ⟨acquire s.plan, rfl, ⟨by rw [hplan]; exact names_acquire p, ?_⟩, ?_⟩, ?_⟩, allInserts_nil⟩
        · intro name _; simp [colData_acquire]
        · intro id hid; simp at hid
        · intro q hq
          simp only [Option.some.injEq] at hq
          subst hq
          exact hblock
    · simp only [h]; exact ⟨⟨hplan, hcr, ⟨cs, hc, hblock⟩, hinf⟩, allInserts_nil⟩
  | doResult o =>
    rw [step_doResult s o hcr]
    obtain ⟨hplan, _, hcols, hinf⟩ := hI
    unfold stepDoResult
    cases hq : s.inflight with
    | none => exact ⟨⟨hplan, hcr, hcols, by simpa [hq] using hinf⟩, allInserts_nil⟩
    | some q =>
      refine ⟨⟨hplan, hcr, hcols, by intro q' hq'; simp at hq'⟩, ?_⟩
      intro b w o' h
      simp only [List.mem_cons, List.mem_map] at h
      rcases h with h | ⟨_, _, h⟩
      · cases h; exact hinf q hq
      · cases h
  | ping ok =>
    rw [step_ping s ok hcr]
    unfold stepPing
    by_cases h : (s.running && s.client && s.inflight.isNone && !ok) = true
    · simp only [h, if_true]; exact ⟨CInv.of_same rfl rfl rfl rfl rfl hI, allInserts_nil⟩
    · simp only [h]; exact ⟨hI, allInserts_nil⟩
  | stop =>
    rw [step_stop s hcr]
    unfold stepStop
    by_cases h : s.inflight.isNone = true
    · simp only [h, if_true]; exact ⟨CInv.of_same rfl rfl rfl rfl rfl hI, allInserts_nil⟩
    · simp only [h]; exact ⟨hI, allInserts_nil⟩

theorem run_concat {p R} (hp : planOK p = true) (ops : List Op) (s : Svc) (hI : CInv p R s)
    (hG : ∀ op ∈ ops, GoodOp p R op) :
    CInv p R (run s ops).1 ∧ AllInserts (GoodBlock p R) (run s ops).2 := by
  induction ops generalizing s with
  | nil => exact ⟨hI, allInserts_nil⟩
  | cons op ops ih =>
    simp only [run]
    have h1 := step_concat hp s op hI (hG op (by simp))
    have h2 := ih _ h1.1 (fun o ho => hG o (by simp [ho]))
    exact ⟨h2.1, allInserts_append h1.2 h2.2⟩

/-- a block that is the concatenation of rectangular requests is rectangular; its row count is the sum of
    the requests' row counts -/
theorem goodBlock_rect {p R} (hp : planOK p = true) {b : Columns} {w : List ReqId} (h : GoodBlock p R b w) :
    RectCols p b ((w.map (fun id => (contrib p (R id) p.countCol).length)).sum) := by
  obtain ⟨⟨hnames, hdata⟩, hgood⟩ := h
  refine ⟨hnames, ?_⟩
  intro name hn
  rw [hdata name hn, List.length_flatMap]
  congr 1
  apply List.map_congr_left
  intro id hid
  obtain ⟨_, n, hr⟩ := hgood id hid
  rw [contrib_length hp hr hn, contrib_length hp hr (planOK_count hp)]

/-! ### the same for the multi-service machine -/

def GoodSysOp (p : Plan) (R : ReqId → Req) : SysOp → Prop
  | .request _ _ r => r = R r.id ∧ GoodReq p r
  | _ => True

theorem stepAt_concat {p R} (hp : planOK p = true) (subs : List Svc) (i : Nat) (op : Op)
    (hI : ∀ s ∈ subs, CInv p R s) (hG : GoodOp p R op) :
    (∀ s ∈ (stepAt subs i op).1, CInv p R s) ∧ AllInserts (GoodBlock p R) (stepAt subs i op).2 := by
  unfold stepAt
  cases hs : subs[i]? with
  | none => exact ⟨hI, allInserts_nil⟩
  | some s =>
    have hmem : s ∈ subs := List.mem_of_getElem? hs
    have h := step_concat hp s op (hI s hmem) hG
    refine ⟨?_, h.2⟩
    intro s' hs'
    rcases List.mem_or_eq_of_mem_set hs' with h1 | h1
    · exact hI s' h1
    · rw [h1]; exact h.1

theorem multi_step_concat {p R} (hp : planOK p = true) (m : Multi) (op : SysOp) (hI : ∀ s ∈ m.subs, CInv p R s)
    (hG : GoodSysOp p R op) :
    (∀ s ∈ (m.step op).1.subs, CInv p R s) ∧ AllInserts (GoodBlock p R) (m.step op).2 := by
  cases op with
  | request mode pick r =>
    simp only [Multi.step]
    cases (candidates m.subs (m.range mode).1 (m.range mode).2)[pick]? with
    | none => exact ⟨hI, allInserts_nil⟩
    | some i => exact stepAt_concat hp m.subs i (.request r) hI hG
  | sub i op =>
    cases op with
    | request r => exact ⟨hI, allInserts_nil⟩
    | trigger k => exact stepAt_concat hp m.subs i (.trigger k) hI trivial
    | connect ok => exact stepAt_concat hp m.subs i (.connect ok) hI trivial
    | swap => exact stepAt_concat hp m.subs i .swap hI trivial
    | doResult o => exact stepAt_concat hp m.subs i (.doResult o) hI trivial
    | ping ok => exact stepAt_concat hp m.subs i (.ping ok) hI trivial
    | stop => exact stepAt_concat hp m.subs i .stop hI trivial
  | planFlush =>
    simp only [Multi.step]
    refine ⟨?_, allInserts_nil⟩
    intro s hs
    simp only [List.mem_map] at hs
    obtain ⟨s0, hs0, rfl⟩ := hs
    exact (step_concat hp s0 (.trigger .forced) (hI s0 hs0) trivial).1

theorem multi_run_concat {p R} (hp : planOK p = true) (ops : List SysOp) (m : Multi) (hI : ∀ s ∈ m.subs, CInv p R s)
    (hG : ∀ op ∈ ops, GoodSysOp p R op) :
    (∀ s ∈ (m.run ops).1.subs, CInv p R s) ∧ AllInserts (GoodBlock p R) (m.run ops).2 := by
  induction ops generalizing m with
  | nil => exact ⟨hI, allInserts_nil⟩
  | cons op ops ih =>
    simp only [Multi.run]
    have h1 := multi_step_concat hp m op hI (hG op (by simp))
    have h2 := ih _ h1.1 (fun o ho => hG o (by simp [ho]))
    exact ⟨h2.1, allInserts_append h1.2 h2.2⟩

theorem multi_cinit {p R} (mq n : Nat) : ∀ s ∈ (Multi.init p mq n).subs, CInv p R s := by
  intro s hs
  simp only [Multi.init, List.mem_replicate] at hs
  rw [hs.2]; exact cinit mq

end Qryn.Ingest.Batcher
