import Qryn.Read.Confine
import Qryn.LogQL.Planner
/-! Helper lemmas for C13. -/
namespace Qryn.Confine
open Qryn Qryn.Sql

theorem evalAll_mem (o : Oracles) (env : Env) (r : Row) (cs : List Expr) (h : evalAll o env r cs = true)
    (e : Expr) (he : e ∈ cs) : evalB o env r e = true := by
  induction cs with
  | nil => cases he
  | cons c cs ih =>
    simp only [evalAll, Bool.and_eq_true] at h
    rcases List.mem_cons.mp he with rfl | hm
    · exact h.1
    · exact ih h.2 hm

/-- a row passing a condition passes each of its top-level conjuncts -/
theorem conjunct_holds (o : Oracles) (env : Env) (r : Row) (c : Option Expr) (h : optB o env r c = true)
    (e : Expr) (he : e ∈ conjuncts c) : evalB o env r e = true := by
  cases c with
  | none => simp [conjuncts] at he
  | some x =>
    simp only [optB] at h
    unfold conjuncts at he
    split at he
    · cases he
    · next cs heq =>
      injection heq with heq; subst heq
      have : evalAll o env r cs = true := by
        simpa [evalB, evalE, boolVal, Val.truthy] using h
      exact evalAll_mem o env r cs this e he
    · next e' hne =>
      injection ‹some x = some e'› with h'; subst h'
      simp only [List.mem_singleton] at he; subst he; exact h

theorem cmpLe_int (a : Int) (v : Val) (h : Val.cmpLe (.int a) v = true) : ∃ t, v = .int t ∧ a ≤ t := by
  cases v <;> simp_all [Val.cmpLe]
theorem cmpLe_int' (a : Int) (v : Val) (h : Val.cmpLe v (.int a) = true) : ∃ t, v = .int t ∧ t ≤ a := by
  cases v <;> simp_all [Val.cmpLe]
theorem not_cmpLe_int (a : Int) (v : Val) (hv : ∃ t, v = .int t) (h : Val.cmpLe v (.int a) = false) :
    ∃ t, v = .int t ∧ a < t := by
  obtain ⟨t, rfl⟩ := hv
  refine ⟨t, rfl, ?_⟩
  simp [Val.cmpLe] at h; omega

end Qryn.Confine
