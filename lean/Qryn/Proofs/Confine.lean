import Qryn.Read.Confine
import Qryn.Proofs.SqlSemLemmas
import Qryn.LogQL.Planner
/-! Helper lemmas for C13. -/
namespace Qryn.Confine
open Qryn Qryn.Sql

theorem evalAll_mem (o : Oracles) (env : Env) (r : Row) (cs : List Expr) (h : evalAll o env r cs = true)
    (e : Expr) (he : e ∈ cs) : evalB o env r e = true := by
  induction cs with
  | nil => cases he
  | cons c cs ih =>
    simp only [evalAll_cons, Bool.and_eq_true] at h
    rcases List.mem_cons.mp he with rfl | hm
    · exact h.1
    · exact ih h.2 hm

/-- a row passing a condition passes each of its top-level conjuncts -/
theorem conjunct1_holds (o : Oracles) (env : Env) (r : Row) (c : Option Expr) (h : optB o env r c = true)
    (e : Expr) (he : e ∈ conjuncts1 c) : evalB o env r e = true := by
  cases c with
  | none => simp [conjuncts1] at he
  | some x =>
    simp only [optB] at h
    by_cases hx : ∃ cs, x = .logical "and" cs
    · obtain ⟨cs, rfl⟩ := hx
      simp only [conjuncts1] at he
      have h' : evalAll o env r cs = true := by
        have := evalB_and (o := o) (env := env) (r := r) cs
        simpa [and_] using this ▸ h
      exact evalAll_mem o env r cs h' e he
    · have : conjuncts1 (some x) = [x] := by
        unfold conjuncts1
        split
        · rename_i heq; cases heq
        · rename_i cs heq; injection heq with heq; exact absurd ⟨cs, heq⟩ hx
        · rename_i e' _ heq; injection heq with heq; subst heq; rfl
      rw [this, List.mem_singleton] at he; subst he; exact h

theorem splice_holds (o : Oracles) (env : Env) (r : Row) (p : Expr) (hp : evalB o env r p = true)
    (e : Expr) (he : e ∈ splice p) : evalB o env r e = true := by
  by_cases hx : ∃ cs, p = .logical "and" cs
  · obtain ⟨cs, rfl⟩ := hx
    simp only [splice] at he
    have h' : evalAll o env r cs = true := by
      have := evalB_and (o := o) (env := env) (r := r) cs
      simpa [and_] using this ▸ hp
    exact evalAll_mem o env r cs h' e he
  · have : splice p = [p] := by
      unfold splice
      split
      · rename_i cs; exact absurd ⟨cs, rfl⟩ hx
      · rfl
    rw [this, List.mem_singleton] at he; subst he; exact hp

/-- … also looking through one nested `and` -/
theorem conjunct_holds (o : Oracles) (env : Env) (r : Row) (c : Option Expr) (h : optB o env r c = true)
    (e : Expr) (he : e ∈ conjuncts c) : evalB o env r e = true := by
  simp only [conjuncts, List.mem_flatMap] at he
  obtain ⟨p, hp, hep⟩ := he
  exact splice_holds o env r p (conjunct1_holds o env r c h p hp) e hep

end Qryn.Confine

namespace Qryn.Confine
open Qryn Qryn.Sql

theorem cmpLe_int_left (a : Int) (v : Val) (h : Val.cmpLe (.int a) v = true) : ∃ t, v = .int t ∧ a ≤ t := by
  cases v <;> simp_all [Val.cmpLe]
theorem cmpLe_int_right (a : Int) (v : Val) (h : Val.cmpLe v (.int a) = true) : ∃ t, v = .int t ∧ t ≤ a := by
  cases v <;> simp_all [Val.cmpLe]

/-- a recognised lower timestamp bound that holds of a row pins an integer timestamp column of that row
    at or above `from − slack` (a row whose column is not an integer does not pass) -/
theorem lower_sound (o : Oracles) (env : Env) (r : Row) (w : Window) (e : Expr)
    (h : isLowerTs w e = true) (he : evalB o env r e = true) :
    ∃ c ts, isTsCol c = true ∧ r.get c = .int ts ∧ w.fromNs - w.slackNs ≤ ts := by
  unfold isLowerTs at h
  split at h
  · next c f =>
    simp only [Bool.and_eq_true, decide_eq_true_eq] at h
    have : cmpOp o ">=" (r.get c) (.int f) = true := by
      have := evalE_cmp (o := o) (env := env) (r := r) ">=" (.raw c) (.int f) (by decide) (by decide)
      simpa [evalB, this] using he
    have hle : Val.cmpLe (.int f) (r.get c) = true := by
      cases hv : r.get c <;> simp_all [cmpOp]
    obtain ⟨t, ht, hft⟩ := cmpLe_int_left f _ hle
    exact ⟨c, t, h.1, ht, by omega⟩
  · next c f =>
    simp only [Bool.and_eq_true, decide_eq_true_eq] at h
    have : cmpOp o ">" (r.get c) (.int f) = true := by
      have := evalE_cmp (o := o) (env := env) (r := r) ">" (.raw c) (.int f) (by decide) (by decide)
      simpa [evalB, this] using he
    cases hv : r.get c with
    | int t =>
      refine ⟨c, t, h.1, hv, ?_⟩
      simp [cmpOp, hv, Val.cmpLt] at this
      omega
    | _ => simp_all [cmpOp, Val.cmpLt]
  · cases h

theorem upper_sound (o : Oracles) (env : Env) (r : Row) (w : Window) (e : Expr)
    (h : isUpperTs w e = true) (he : evalB o env r e = true) :
    ∃ c ts, isTsCol c = true ∧ r.get c = .int ts ∧ ts ≤ w.toNs + w.slackNs := by
  unfold isUpperTs at h
  split at h
  · next c f =>
    simp only [Bool.and_eq_true, decide_eq_true_eq] at h
    have : cmpOp o "<" (r.get c) (.int f) = true := by
      have := evalE_cmp (o := o) (env := env) (r := r) "<" (.raw c) (.int f) (by decide) (by decide)
      simpa [evalB, this] using he
    cases hv : r.get c with
    | int t =>
      refine ⟨c, t, h.1, hv, ?_⟩
      simp [cmpOp, hv, Val.cmpLt] at this
      omega
    | _ => simp_all [cmpOp, Val.cmpLt]
  · next c f =>
    simp only [Bool.and_eq_true, decide_eq_true_eq] at h
    have : cmpOp o "<=" (r.get c) (.int f) = true := by
      have := evalE_cmp (o := o) (env := env) (r := r) "<=" (.raw c) (.int f) (by decide) (by decide)
      simpa [evalB, this] using he
    have hle : Val.cmpLe (r.get c) (.int f) = true := by
      cases hv : r.get c <;> simp_all [cmpOp]
    obtain ⟨t, ht, hft⟩ := cmpLe_int_right f _ hle
    exact ⟨c, t, h.1, ht, by omega⟩
  · cases h

theorem type_sound (o : Oracles) (env : Env) (r : Row) (w : Window) (e : Expr)
    (h : isTypeFilter w e = true) (he : evalB o env r e = true) :
    r.get "type" = .int w.tp ∨ r.get "type" = .int 0 := by
  unfold isTypeFilter at h
  split at h
  · next a =>
    have ha : a = w.tp := by simpa using h
    have := evalB_isIn_ints (o := o) (env := env) (r := r) (.raw "type") a 0
    rw [this, ha] at he
    simp only [evalE_raw, Bool.or_eq_true, beq_iff_eq] at he
    exact he
  · cases h

end Qryn.Confine

namespace Qryn.Confine
open Qryn Qryn.Sql Qryn.LogQL

theorem splice_logical (fn : String) (cs : List Expr) (h : fn ≠ "and") : splice (.logical fn cs) = [.logical fn cs] := by
  unfold splice
  split
  · rename_i cs' heq; injection heq with h1 _; exact absurd h1 h
  · rfl
@[simp] theorem splice_isIn (l : Expr) (rs : List Expr) : splice (.isIn l rs) = [.isIn l rs] := rfl
@[simp] theorem conjuncts1_none : conjuncts1 none = [] := rfl
@[simp] theorem conjuncts_none : conjuncts none = [] := rfl

theorem flatMap_splice_flat (cs : List Expr) (h : ∀ e ∈ cs, splice e = [e]) : cs.flatMap splice = cs := by
  induction cs with
  | nil => rfl
  | cons c cs ih =>
    simp only [List.flatMap_cons, h c (by simp), List.singleton_append]
    rw [ih (fun e he => h e (by simp [he]))]

theorem conjuncts_and_flat (cs : List Expr) (h : ∀ e ∈ cs, splice e = [e]) : conjuncts (some (and_ cs)) = cs := by
  simp only [conjuncts, and_, conjuncts1]
  exact flatMap_splice_flat cs h

theorem conjuncts_and (cs : List Expr) : conjuncts (some (and_ cs)) = cs.flatMap splice := by
  simp only [conjuncts, and_, conjuncts1]

theorem labelCond_no_date (lc : LabelCond) : mentionsDate (labelCondSql labelGetterTS lc) = false := by
  cases lc with
  | str l op v => cases op <;> simp [labelCondSql, mentionsDate, eq, neq, labelGetterTS]
  | num l op v => simp [labelCondSql, mentionsDate, and_]
  | and a b => simp [labelCondSql, mentionsDate, and_]
  | or a b => simp [labelCondSql, mentionsDate, or_]

theorem splice_labelCond_noDate (lc : LabelCond) : ∀ e ∈ splice (labelCondSql labelGetterTS lc), mentionsDate e = false := by
  cases lc with
  | str l op v =>
    cases op <;> (intro e he; simp only [labelCondSql, eq, neq] at he; rw [splice_logical _ _ (by decide)] at he;
                  simp only [List.mem_singleton] at he; subst he; simp [mentionsDate, labelGetterTS])
  | num l op v =>
    intro e he
    simp only [labelCondSql, and_, splice, List.mem_cons, List.mem_singleton, List.not_mem_nil, or_false] at he
    rcases he with rfl | rfl
    · simp [mentionsDate]
    · cases op <;> simp [mentionsDate, eq, neq, gt, ge, lt, le]
  | and a b =>
    intro e he
    simp only [labelCondSql, and_, splice, List.mem_cons, List.mem_singleton, List.not_mem_nil, or_false] at he
    rcases he with rfl | rfl <;> exact labelCond_no_date _
  | or a b =>
    intro e he
    simp only [labelCondSql, or_] at he
    rw [splice_logical _ _ (by decide)] at he
    simp only [List.mem_singleton] at he; subst he; simp [mentionsDate]

theorem splice_getTypes (c : Ctx) : splice (getTypes c) = [getTypes c] := rfl
theorem splice_lineClause (f : LineFilter) : splice (lineClause f) = [lineClause f] := by
  unfold lineClause likeClause
  split <;> (try split) <;> exact splice_logical _ _ (by decide)
theorem splice_labelCond (lc : LabelCond) : ∀ e ∈ [labelCondSql labelGetterTS lc], e = labelCondSql labelGetterTS lc := by simp

/-- the planner context's tables are classified as the Loki tables they are -/
structure LokiCfg (cfg : Cfg) (c : Ctx) : Prop where
  samples : cfg.kind c.samplesTable = .data
  gin : cfg.kind c.ginTable = .index
  ts : cfg.kind c.tsTable = .index
  tsDist : cfg.kind c.tsDistTable = .index

/-- the window a log query asks for: exact bounds, type filter required -/
def winOf (c : Ctx) : Window := ⟨c.fromNs, c.toNs, 0, true, if c.tp = 0 then 1 else (c.tp : Int)⟩

theorem getTypes_isTypeFilter (c : Ctx) : isTypeFilter (winOf c) (getTypes c) = true := by
  unfold getTypes isTypeFilter winOf
  split <;> simp_all

theorem lowerDate_ok (c : Ctx) :
    (lowerInstants (winOf c)).any (fun t => Time.formatDate t == Time.formatFromDate c.fromNs) = true := by
  simp [lowerInstants, winOf, secOf, Time.formatFromDate]

theorem streamSelect_confined (cfg : Cfg) (c : Ctx) (h : LokiCfg cfg c) (ok : List Alias) (q_ms : List Matcher) :
    bodyConfined cfg (winOf c) ok (streamSelect c q_ms) = true ∧ isIndexSelection cfg (streamSelect c q_ms) = true := by
  constructor
  · have hc : conjuncts (some (and_ [ge (.raw "date") (.str (Time.formatFromDate c.fromNs)), getTypes c, or_ (q_ms.map matcherClause)])) =
        [ge (.raw "date") (.str (Time.formatFromDate c.fromNs)), getTypes c, or_ (q_ms.map matcherClause)] :=
      conjuncts_and_flat _ (by
        intro e he
        simp only [List.mem_cons, List.mem_singleton, List.not_mem_nil, or_false] at he
        rcases he with rfl | rfl | rfl
        · exact splice_logical _ _ (by decide)
        · rfl
        · exact splice_logical _ _ (by decide))
    simp only [streamSelect, bodyConfined, fromTable, h.gin, conjuncts_none, List.nil_append, hc]
    have h1 := getTypes_isTypeFilter c
    have h2 := lowerDate_ok c
    have h3 : isTypeFilter (winOf c) ((Expr.raw "type").isIn [Expr.int (if c.tp = 0 then 1 else ↑c.tp), Expr.int 0]) = true := h1
    simp only [Bool.and_eq_true, Bool.or_eq_true]
    refine ⟨?_, Or.inl ⟨?_, Or.inr ?_⟩⟩
    · simp [List.all, dateLower, dateUpper, mentionsDate, isDateCol, ge, h2, getTypes, or_]
    · simp [List.any, dateLower, isDateCol, ge]
    · simp [List.any, h3, getTypes]
  · simp [streamSelect, isIndexSelection, fromTable, h.gin]

theorem labelFilter_confined (cfg : Cfg) (c : Ctx) (h : LokiCfg cfg c) (ok : List Alias) (k : Nat) (lc : LabelCond)
    (hk : Alias.sub k ∈ ok) :
    bodyConfined cfg (winOf c) ok (labelFilterBody c k lc) = true ∧ isIndexSelection cfg (labelFilterBody c k lc) = true := by
  constructor
  · simp only [labelFilterBody, bodyConfined, fromTable, h.ts, conjuncts_none, List.nil_append, conjuncts_and,
      List.flatMap_cons, List.flatMap_nil, splice_isIn, List.append_nil, List.singleton_append]
    simp only [Bool.and_eq_true, Bool.or_eq_true]
    refine ⟨?_, Or.inr ?_⟩
    · simp only [List.all_cons, Bool.and_eq_true, List.all_eq_true]
      refine ⟨by simp [mentionsDate], ?_⟩
      intro e he
      simp [splice_labelCond_noDate lc e he]
    · simp [List.any, fpIn, isFpCol, hk]
  · simp [labelFilterBody, isIndexSelection, fromTable, h.ts]

/-- the fingerprint chain is confined, and leaves `fp_sel` among the confined index selections -/
theorem fpChain_confined (cfg : Cfg) (c : Ctx) (h : LokiCfg cfg c) (conds : List LabelCond) :
    ∀ (cur : Sel) (k : Nat) (ok : List Alias) (rest : List (Alias × Sel)),
      bodyConfined cfg (winOf c) ok cur = true → isIndexSelection cfg cur = true →
      (∀ ok', Alias.named "fp_sel" ∈ ok' → withsConfined cfg (winOf c) ok' rest = true) →
      withsConfined cfg (winOf c) ok (fpChain c cur k conds ++ rest) = true := by
  induction conds with
  | nil =>
    intro cur k ok rest hb hi hrest
    simp only [fpChain, List.cons_append, List.nil_append, withsConfined, hb, hi, if_true, Bool.true_and]
    exact hrest _ (by simp)
  | cons lc conds ih =>
    intro cur k ok rest hb hi hrest
    simp only [fpChain, List.cons_append, withsConfined, hb, hi, if_true, Bool.true_and]
    have := labelFilter_confined cfg c h (Alias.sub (k + 1) :: ok) (k + 1) lc (by simp)
    exact ih _ _ _ rest this.1 this.2 hrest

theorem okAfter_append (cfg : Cfg) (ok : List Alias) (a b : List (Alias × Sel)) :
    okAfter cfg ok (a ++ b) = okAfter cfg (okAfter cfg ok a) b := by
  induction a generalizing ok with
  | nil => rfl
  | cons x xs ih => simp [okAfter, ih]

end Qryn.Confine

namespace Qryn.Confine
open Qryn Qryn.Sql Qryn.LogQL

theorem mainSel_confined (cfg : Cfg) (c : Ctx) (h : LokiCfg cfg c) (ok : List Alias) (q : LogQuery) :
    bodyConfined cfg (winOf c) ok (mainSel c q) = true := by
  have h3 : isTypeFilter (winOf c) ((Expr.raw "type").isIn [Expr.int (if c.tp = 0 then 1 else ↑c.tp), Expr.int 0]) = true :=
    getTypes_isTypeFilter c
  have hpre : conjuncts (some (and_ [ge (.raw "samples.timestamp_ns") (.int c.fromNs), lt (.raw "samples.timestamp_ns") (.int c.toNs), getTypes c])) =
      [ge (.raw "samples.timestamp_ns") (.int c.fromNs), lt (.raw "samples.timestamp_ns") (.int c.toNs), getTypes c] :=
    conjuncts_and_flat _ (by
      intro e he
      simp only [List.mem_cons, List.mem_singleton, List.not_mem_nil, or_false] at he
      rcases he with rfl | rfl | rfl
      · exact splice_logical _ _ (by decide)
      · exact splice_logical _ _ (by decide)
      · rfl)
  simp only [mainSel, bodyConfined, fromTable, h.samples, hpre]
  simp only [Bool.or_eq_true, Bool.and_eq_true]
  refine Or.inl ⟨⟨?_, ?_⟩, Or.inr ?_⟩
  · simp [List.any, isLowerTs, isTsCol, ge, winOf]
  · simp [List.any, isUpperTs, isTsCol, lt, winOf]
  · simp [List.any, h3, getTypes]

theorem timeSeriesSel_confined (cfg : Cfg) (c : Ctx) (h : LokiCfg cfg c) (ok : List Alias)
    (hk : Alias.named "fp_sel" ∈ ok) :
    bodyConfined cfg (winOf c) ok (timeSeriesSel c) = true := by
  have hpre : conjuncts (some (and_ [ge (.raw "time_series.date") (.str (Time.formatFromDate c.fromNs)), getTypes c,
        .isIn (.raw "time_series.fingerprint") [.withRef (.named "fp_sel")]])) =
      [ge (.raw "time_series.date") (.str (Time.formatFromDate c.fromNs)), getTypes c,
        .isIn (.raw "time_series.fingerprint") [.withRef (.named "fp_sel")]] :=
    conjuncts_and_flat _ (by
      intro e he
      simp only [List.mem_cons, List.mem_singleton, List.not_mem_nil, or_false] at he
      rcases he with rfl | rfl | rfl
      · exact splice_logical _ _ (by decide)
      · rfl
      · rfl)
  simp only [timeSeriesSel, bodyConfined, fromTable, h.tsDist, hpre, conjuncts_none, List.append_nil]
  simp only [Bool.and_eq_true, Bool.or_eq_true]
  refine ⟨?_, Or.inr ?_⟩
  · have h2 := lowerDate_ok c
    simp [List.all, dateLower, dateUpper, mentionsDate, isDateCol, ge, h2, getTypes]
  · simp [List.any, fpIn, isFpCol, hk]

theorem planLog_confined (cfg : Cfg) (c : Ctx) (h : LokiCfg cfg c) (q : LogQuery) :
    confined cfg (winOf c) (planLog c q) = true := by
  unfold planLog confined
  simp only [Bool.and_eq_true]
  constructor
  · have hs := streamSelect_confined cfg c h [] q.matchers
    apply fpChain_confined cfg c h (labelConds q) _ 0 [] _ hs.1 hs.2
    intro ok' hfp
    simp only [withsConfined, mainSel_confined cfg c h, Bool.true_and, Bool.and_eq_true]
    refine ⟨?_, ?_, trivial⟩
    · apply timeSeriesSel_confined cfg c h
      split <;> simp [hfp]
    · simp [joinedSel, bodyConfined, fromTable]
  · simp [bodyConfined, fromTable]

end Qryn.Confine
