import Qryn.Ingest.WireDecode
import Qryn.Proofs.Ingest
/-! Proofs about the decoder models of `Ingest/WireDecode.lean`: each decoder model (state machine over the members in
    document order) computes exactly the specification reading of the intermediate value. -/
namespace Qryn.Ingest.Wire
open Qryn Qryn.Ingest

/-! ### the fold that stops at the first failure -/

/-- a walk whose every step either fails or applies a part computed from the element alone: the walk fails iff some
    element has no part, and otherwise applies all parts in order -/
theorem foldOpt_spec {σ α π} (step : σ → α → Option σ) (part : α → Option π) (app : σ → π → σ)
    (h : ∀ s x, step s x = (part x).map (app s)) (s : σ) (l : List α) :
    foldOpt step s l = (mapOpt part l).map (fun ps => ps.foldl app s) := by
  induction l generalizing s with
  | nil => rfl
  | cons x xs ih =>
    simp only [foldOpt, mapOpt, h]
    cases part x with
    | none => rfl
    | some p =>
      simp only [Option.map_some, ih]
      cases mapOpt part xs <;> rfl

theorem mapOpt_eq_some_map {α β} (f : α → β) (l : List α) : mapOpt (fun x => some (f x)) l = some (l.map f) := by
  induction l with
  | nil => rfl
  | cons x xs ih => simp [mapOpt, ih]

theorem lastOf_nil {π α} (f : π → Option α) : lastOf f [] = none := rfl

theorem lastOf_cons_getD {π α} (f : π → Option α) (p : π) (ps : List π) (d : α) :
    (lastOf f (p :: ps)).getD d = (lastOf f ps).getD ((f p).getD d) := by
  unfold lastOf
  cases hp : f p with
  | none => simp [List.filterMap_cons, hp]
  | some v =>
    simp only [List.filterMap_cons, hp, Option.getD_some]
    cases h : List.filterMap f ps with
    | nil => simp
    | cons y ys =>
      simp only [List.getLast?_cons_cons]
      cases hl : (y :: ys).getLast? with
      | none => simp at hl
      | some z => simp

theorem lastOf_cons {π α} (f : π → Option α) (p : π) (ps : List π) :
    lastOf f (p :: ps) = (lastOf f ps).or (f p) := by
  unfold lastOf
  cases hp : f p with
  | none => simp [List.filterMap_cons, hp]
  | some v =>
    simp only [List.filterMap_cons, hp]
    cases h : List.filterMap f ps with
    | nil => simp
    | cons y ys =>
      simp only [List.getLast?_cons_cons]
      cases hl : (y :: ys).getLast? with
      | none => simp at hl
      | some z => simp

/-! ### `sanitizeLabels` is idempotent (the Loki decoder applies it again after every label source) -/

theorem runeLen_ascii (b : UInt8) (rest : Bytes) (h : b < 0x80) : runeLen (b :: rest) = 1 := by
  have hl : lead b = .single := by
    unfold lead
    have : b < 0xC2 := by
      rw [UInt8.lt_iff_toNat_lt] at h ⊢
      simp at h ⊢; omega
    simp [this]
  simp only [runeLen, hl]

theorem isAlnum_lt (c : UInt8) (h : isAlnum c = true) : c < 0x80 := by
  simp only [isAlnum, isAlpha, Bool.or_eq_true, Bool.and_eq_true, decide_eq_true_eq, UInt8.le_iff_toNat_le] at h
  rw [UInt8.lt_iff_toNat_lt]
  rcases h with ((h | h) | h) | h
  · simp at h ⊢; omega
  · simp at h ⊢; omega
  · subst h; decide
  · simp at h ⊢; omega

theorem isAlpha_alnum (c : UInt8) (h : isAlpha c = true) : isAlnum c = true := by
  simp [isAlnum, h]

def okName (first : Bool) (c : UInt8) : Bool := if first then isAlpha c else isAlnum c

/-- the output of the replacement consists of accepted bytes only -/
def Clean : Bool → Bytes → Prop
  | _, [] => True
  | first, c :: rest => okName first c = true ∧ Clean false rest

theorem replaceRunes_clean (fuel : Nat) (first : Bool) (s : Bytes) : Clean first (replaceRunes okName fuel first s) := by
  induction fuel generalizing first s with
  | zero => simp [replaceRunes, Clean]
  | succ n ih =>
    cases s with
    | nil => simp [replaceRunes, Clean]
    | cons b rest =>
      simp only [replaceRunes]
      split
      · rename_i h
        simp only [Bool.and_eq_true] at h
        exact ⟨h.2, ih false rest⟩
      · refine ⟨?_, ih false _⟩
        cases first <;> decide

theorem replaceRunes_id_of_clean (fuel : Nat) (first : Bool) (s : Bytes) (h : Clean first s) (hf : s.length ≤ fuel) :
    replaceRunes okName fuel first s = s := by
  induction fuel generalizing first s with
  | zero =>
    cases s with
    | nil => rfl
    | cons _ _ => simp at hf
  | succ n ih =>
    cases s with
    | nil => rfl
    | cons b rest =>
      obtain ⟨hb, hr⟩ := h
      have hlt : b < 0x80 := by
        apply isAlnum_lt
        cases first
        · simpa [okName] using hb
        · exact isAlpha_alnum _ (by simpa [okName] using hb)
      simp only [replaceRunes, runeLen_ascii b rest hlt, hb, decide_true, Bool.and_self, if_true]
      rw [ih false rest hr (by simpa using hf)]

theorem replaceRunes_length_le (ok : Bool → UInt8 → Bool) (fuel : Nat) (first : Bool) (s : Bytes) :
    (replaceRunes ok fuel first s).length ≤ s.length := by
  induction fuel generalizing first s with
  | zero => simp [replaceRunes]
  | succ n ih =>
    cases s with
    | nil => simp [replaceRunes]
    | cons b rest =>
      simp only [replaceRunes]
      split
      · simpa using ih false rest
      · have := ih false (rest.drop (runeLen (b :: rest) - 1))
        simp only [List.length_cons, List.length_drop] at this ⊢
        omega

theorem sanitizeName_eq (s : Bytes) : sanitizeName s = replaceRunes okName s.length true s := rfl

theorem sanitizeName_idem (s : Bytes) : sanitizeName (sanitizeName s) = sanitizeName s := by
  rw [sanitizeName_eq (sanitizeName s)]
  exact replaceRunes_id_of_clean _ _ _ (by rw [sanitizeName_eq]; exact replaceRunes_clean _ _ _) (Nat.le_refl _)

theorem truncValue_idem (v : Bytes) : truncValue (truncValue v) = truncValue v := by
  have hc : Gen.labelValueCut ≤ Gen.labelValueMax := by decide
  have hs : Gen.labelValueMax < Gen.labelValueCut + Gen.labelValueSuffix.length := by decide
  unfold truncValue
  by_cases h : v.length > Gen.labelValueMax
  · simp only [h, if_true]
    have hl : (v.take Gen.labelValueCut).length = Gen.labelValueCut := by
      rw [List.length_take]; omega
    have h2 : (v.take Gen.labelValueCut ++ Gen.labelValueSuffix).length > Gen.labelValueMax := by
      rw [List.length_append, hl]; exact hs
    simp only [h2, if_true]
    rw [List.take_append_of_le_length (by omega), List.take_take, Nat.min_self]
  · simp [h]

theorem sanitizeLabels_idem (ls : Labels) : sanitizeLabels (sanitizeLabels ls) = sanitizeLabels ls := by
  simp [sanitizeLabels, sanitizeName_idem, truncValue_idem]

theorem sanitizeLabels_append (a b : Labels) : sanitizeLabels (a ++ b) = sanitizeLabels a ++ sanitizeLabels b := by
  simp [sanitizeLabels]

theorem sanitizeLabels_absorb (a b : Labels) : sanitizeLabels (sanitizeLabels a ++ b) = sanitizeLabels (a ++ b) := by
  rw [sanitizeLabels_append, sanitizeLabels_idem, sanitizeLabels_append]

/-! ### small list facts -/

theorem foldl_snoc {α} (l : List α) (init : List α) : l.foldl (fun acc x => acc ++ [x]) init = init ++ l := by
  induction l generalizing init with
  | nil => simp
  | cons x xs ih => simp [ih]

theorem foldl_snoc_map {α β} (g : α → β) (l : List α) (init : List β) :
    l.foldl (fun acc x => acc ++ [g x]) init = init ++ l.map g := by
  induction l generalizing init with
  | nil => simp
  | cons x xs ih => simp [ih]

theorem foldl_append_map {α β} (g : α → List β) (l : List α) (init : List β) :
    l.foldl (fun acc x => acc ++ g x) init = init ++ l.flatMap g := by
  induction l generalizing init with
  | nil => simp
  | cons x xs ih => simp [ih, List.append_assoc]

/-! ### Loki JSON -/

/-- the type bits before the collapse -/
def bits (a b : Bool) : Nat := (if a then Gen.sampleTypeLog else 0) ||| (if b then Gen.sampleTypeMetric else 0)

theorem lokiTypeB_eq (a b : Bool) : lokiTypeB a b = collapse (bits a b) := rfl
theorem bits_log (a b : Bool) : bits a b ||| Gen.sampleTypeLog = bits true b := by cases a <;> cases b <;> decide
theorem bits_metric (a b : Bool) : bits a b ||| Gen.sampleTypeMetric = bits a true := by cases a <;> cases b <;> decide

def PushSt.pushE (p : PushSt) (e : Entry) : PushSt :=
  { p with ts := p.ts ++ [e.ts], str := p.str ++ [e.line], val := p.val ++ [e.val], tp := p.tp ++ [e.tp] }

/-- the decoder's locals stand for the entry `le` -/
def Rep (e : EntSt) (le : LokiEntry) : Prop :=
  e.ts = le.ts ∧ e.str = le.line.getD [] ∧ e.val = le.val.getD 0 ∧ e.tp = bits le.line.isSome le.val.isSome

theorem push_of_rep (p : PushSt) (e : EntSt) (le : LokiEntry) (h : Rep e le) : p.push e = p.pushE le.entry := by
  obtain ⟨h1, h2, h3, h4⟩ := h
  simp [PushSt.push, PushSt.pushE, LokiEntry.entry, lokiType, lokiTypeB_eq, h1, h2, h3, h4]

theorem valueItem_tail (l : List Json) (n : Nat) (e : EntSt) :
    foldOpt valueItem (n + 3, e) l = some (n + 3 + l.length, e) := by
  induction l generalizing n with
  | nil => rfl
  | cons x xs ih =>
    have : valueItem (n + 3, e) x = some (n + 1 + 3, e) := rfl
    simp only [foldOpt, this, ih, List.length_cons]
    congr 2; omega

/-- **one element of `values`**: the decoder's index-driven walk reads exactly the positional specification -/
theorem decodeStreamValue_spec (p : PushSt) (x : Json) :
    decodeStreamValue p x = (specValue x).map (fun e => p.pushE e.entry) := by
  cases x with
  | arr items =>
    simp only [decodeStreamValue, jxArr]
    match items with
    | [] =>
      simp only [foldOpt, specValue, Option.map_some]
      exact congrArg some (push_of_rep p _ ⟨0, none, none⟩ ⟨rfl, rfl, rfl, by decide⟩)
    | [t] =>
      simp only [foldOpt, specValue, valueItem]
      cases jxStr t with
      | none => rfl
      | some s =>
        simp only [Option.bind_some]
        cases parseInt64 s with
        | none => rfl
        | some ts => exact congrArg some (push_of_rep p _ ⟨ts, none, none⟩ ⟨rfl, rfl, rfl, by show (0 : Nat) = bits false false; decide⟩)
    | [t, l] =>
      simp only [foldOpt, specValue, valueItem]
      cases jxStr t with
      | none => rfl
      | some s =>
        simp only [Option.bind_some]
        cases parseInt64 s with
        | none => rfl
        | some ts =>
          simp only [Option.map_some, Option.bind_some]
          cases jxStr l with
          | none => rfl
          | some ln => exact congrArg some (push_of_rep p _ ⟨ts, some ln, none⟩ ⟨rfl, rfl, rfl, by show (0 ||| Gen.sampleTypeLog) = bits true false; decide⟩)
    | t :: l :: v :: rest =>
      simp only [foldOpt, specValue, valueItem]
      cases jxStr t with
      | none => rfl
      | some s =>
        simp only [Option.bind_some]
        cases parseInt64 s with
        | none => rfl
        | some ts =>
          simp only [Option.map_some, Option.bind_some]
          cases jxStr l with
          | none => rfl
          | some ln =>
            simp only [Option.map_some, Option.bind_some]
            have tail := fun e => valueItem_tail rest 0 e
            simp only [Nat.zero_add] at tail
            cases v with
            | num text f i =>
              simp only [Json.next, ne_eq, not_true_eq_false, if_false, jxF64]
              cases f with
              | none => rfl
              | some fv =>
                simp only [Option.map_some, tail]
                exact congrArg some (push_of_rep p _ ⟨ts, some ln, some fv⟩ ⟨rfl, rfl, rfl, by show (0 ||| Gen.sampleTypeLog ||| Gen.sampleTypeMetric) = bits true true; decide⟩)
            | null =>
              simp only [Json.next, ne_eq, reduceCtorEq, not_false_eq_true, if_true, tail, Option.map_some]
              exact congrArg some (push_of_rep p _ ⟨ts, some ln, none⟩ ⟨rfl, rfl, rfl, by show (0 ||| Gen.sampleTypeLog) = bits true false; decide⟩)
            | bool b =>
              simp only [Json.next, ne_eq, reduceCtorEq, not_false_eq_true, if_true, tail, Option.map_some]
              exact congrArg some (push_of_rep p _ ⟨ts, some ln, none⟩ ⟨rfl, rfl, rfl, by show (0 ||| Gen.sampleTypeLog) = bits true false; decide⟩)
            | str s' =>
              simp only [Json.next, ne_eq, reduceCtorEq, not_false_eq_true, if_true, tail, Option.map_some]
              exact congrArg some (push_of_rep p _ ⟨ts, some ln, none⟩ ⟨rfl, rfl, rfl, by show (0 ||| Gen.sampleTypeLog) = bits true false; decide⟩)
            | arr a =>
              simp only [Json.next, ne_eq, reduceCtorEq, not_false_eq_true, if_true, tail, Option.map_some]
              exact congrArg some (push_of_rep p _ ⟨ts, some ln, none⟩ ⟨rfl, rfl, rfl, by show (0 ||| Gen.sampleTypeLog) = bits true false; decide⟩)
            | obj o =>
              simp only [Json.next, ne_eq, reduceCtorEq, not_false_eq_true, if_true, tail, Option.map_some]
              exact congrArg some (push_of_rep p _ ⟨ts, some ln, none⟩ ⟨rfl, rfl, rfl, by show (0 ||| Gen.sampleTypeLog) = bits true false; decide⟩)
  | null => rfl
  | bool b => rfl
  | num t f i => rfl
  | str s => rfl
  | obj o => rfl

/-- what a member of an `entries` object does to the decoder's locals -/
def appE (e : EntSt) : EPart → EntSt
  | .ts t => { e with ts := t }
  | .line s => { e with str := s, tp := e.tp ||| Gen.sampleTypeLog }
  | .value f => { e with val := f, tp := e.tp ||| Gen.sampleTypeMetric }
  | .skip => e

theorem entryMember_part (e : EntSt) (kv : Bytes × Json) :
    entryMember e kv.1 kv.2 = (specEntryMember kv).map (appE e) := by
  unfold entryMember specEntryMember
  split
  · cases jxStr kv.2 with
    | none => rfl
    | some b =>
      simp only [Option.bind_some]
      cases parseTime b <;> rfl
  · split
    · cases jxStr kv.2 <;> rfl
    · split
      · cases jxF64 kv.2 <;> rfl
      · rfl

theorem lastOf_cons_or {π α} (f : π → Option α) (p : π) (ps : List π) (x : Option α) :
    (lastOf f (p :: ps)).or x = (lastOf f ps).or ((f p).or x) := by
  rw [lastOf_cons]
  cases lastOf f ps <;> simp

theorem rep_fold (ps : List EPart) (e : EntSt) (le : LokiEntry) (h : Rep e le) :
    Rep (ps.foldl appE e)
      ⟨(lastOf EPart.tsOf ps).getD le.ts, (lastOf EPart.lineOf ps).or le.line, (lastOf EPart.valueOf ps).or le.val⟩ := by
  induction ps generalizing e le with
  | nil => simpa [lastOf_nil] using h
  | cons q qs ih =>
    obtain ⟨h1, h2, h3, h4⟩ := h
    simp only [List.foldl_cons, lastOf_cons_getD, lastOf_cons_or]
    cases q with
    | ts t => exact ih _ ⟨t, le.line, le.val⟩ ⟨rfl, h2, h3, h4⟩
    | line s =>
      refine ih _ ⟨le.ts, some s, le.val⟩ ⟨h1, rfl, h3, ?_⟩
      show e.tp ||| Gen.sampleTypeLog = bits true le.val.isSome
      rw [h4, bits_log]
    | value f =>
      refine ih _ ⟨le.ts, le.line, some f⟩ ⟨h1, h2, rfl, ?_⟩
      show e.tp ||| Gen.sampleTypeMetric = bits le.line.isSome true
      rw [h4, bits_metric]
    | skip => exact ih _ ⟨le.ts, le.line, le.val⟩ ⟨h1, h2, h3, h4⟩

/-- **one element of `entries`**: the member-by-member walk with overwriting locals reads exactly "the last
    timestamp, the last line, the last value" -/
theorem decodeStreamEntry_spec (p : PushSt) (x : Json) :
    decodeStreamEntry p x = (specEntry x).map (fun e => p.pushE e.entry) := by
  cases x with
  | obj m =>
    simp only [decodeStreamEntry, jxObj, specEntry]
    rw [foldOpt_spec (fun e kv => entryMember e kv.1 kv.2) specEntryMember appE entryMember_part]
    cases mapOpt specEntryMember m with
    | none => rfl
    | some ps =>
      simp only [Option.map_some]
      have := rep_fold ps {} ⟨0, none, none⟩ ⟨rfl, rfl, rfl, by show (0 : Nat) = bits false false; decide⟩
      simp only [Option.or_none] at this
      exact congrArg some (push_of_rep p _ _ this)
  | null => rfl
  | bool b => rfl
  | num t f i => rfl
  | str s => rfl
  | arr a => rfl

/-- what a member of a stream object does to the decoder's arrays -/
def appS (p : PushSt) : SPart → PushSt
  | .labels l => { p with labels := sanitizeLabels (p.labels ++ l) }
  | .entries es => es.foldl (fun p e => p.pushE e.entry) p
  | .skip => p

theorem streamMember_part (scan : Bytes → List Tok) (p : PushSt) (kv : Bytes × Json) :
    streamMember scan p kv.1 kv.2 = (specStreamMember scan kv).map (appS p) := by
  unfold streamMember specStreamMember
  split
  · -- `stream`
    cases kv.2 with
    | obj ms =>
      simp only [streamStream, jxObj]
      rw [foldOpt_spec (fun ls (m : Bytes × Json) => (jxStr m.2).map (fun s => ls ++ [(m.1, s)]))
            (fun m => (jxStr m.2).map (fun s => (m.1, s))) (fun ls pr => ls ++ [pr])
            (by intro ls m; cases jxStr m.2 <;> rfl)]
      cases mapOpt (fun m : Bytes × Json => (jxStr m.2).map (fun s => (m.1, s))) ms with
      | none => rfl
      | some ps => simp only [Option.map_some, appS, foldl_snoc]
    | null => rfl
    | bool b => rfl
    | num t f i => rfl
    | str s => rfl
    | arr a => rfl
  · split
    · -- `labels`
      simp only [streamLabels]
      cases jxStr kv.2 with
      | none => rfl
      | some s =>
        simp only [Option.bind_some]
        cases labelPairs (scan s) <;> rfl
    · split
      · -- `values`
        cases kv.2 with
        | arr xs =>
          simp only [jxArr]
          rw [foldOpt_spec decodeStreamValue specValue (fun p e => p.pushE e.entry) decodeStreamValue_spec]
          cases mapOpt specValue xs <;> rfl
        | null => rfl
        | bool b => rfl
        | num t f i => rfl
        | str s => rfl
        | obj o => rfl
      · split
        · -- `entries`
          cases kv.2 with
          | arr xs =>
            simp only [jxArr]
            rw [foldOpt_spec decodeStreamEntry specEntry (fun p e => p.pushE e.entry) decodeStreamEntry_spec]
            cases mapOpt specEntry xs <;> rfl
          | null => rfl
          | bool b => rfl
          | num t f i => rfl
          | str s => rfl
          | obj o => rfl
        · rfl

/-- the decoder's arrays stand for the raw label list `L` and the entries `E` -/
def RepS (p : PushSt) (L : Labels) (E : List LokiEntry) : Prop :=
  p.labels = sanitizeLabels L ∧ p.ts = E.map (·.entry.ts) ∧ p.str = E.map (·.entry.line) ∧
  p.val = E.map (·.entry.val) ∧ p.tp = E.map (·.entry.tp)

theorem repS_pushes (es : List LokiEntry) (p : PushSt) (L : Labels) (E : List LokiEntry) (h : RepS p L E) :
    RepS (es.foldl (fun p e => p.pushE e.entry) p) L (E ++ es) := by
  induction es generalizing p E with
  | nil => simpa using h
  | cons e es ih =>
    obtain ⟨h1, h2, h3, h4, h5⟩ := h
    have := ih (p.pushE e.entry) (E ++ [e]) ⟨h1, by simp [PushSt.pushE, h2], by simp [PushSt.pushE, h3],
      by simp [PushSt.pushE, h4], by simp [PushSt.pushE, h5]⟩
    simpa [List.append_assoc] using this

theorem repS_fold (ps : List SPart) (p : PushSt) (L : Labels) (E : List LokiEntry) (h : RepS p L E) :
    RepS (ps.foldl appS p) (L ++ ps.flatMap SPart.labelsOf) (E ++ ps.flatMap SPart.entriesOf) := by
  induction ps generalizing p L E with
  | nil => simpa using h
  | cons q qs ih =>
    simp only [List.foldl_cons, List.flatMap_cons]
    cases q with
    | labels l =>
      obtain ⟨h1, h2, h3, h4, h5⟩ := h
      have := ih (appS p (.labels l)) (L ++ l) E ⟨by simp [appS, h1, sanitizeLabels_absorb], h2, h3, h4, h5⟩
      simpa [SPart.labelsOf, SPart.entriesOf, List.append_assoc] using this
    | entries es =>
      have := ih (appS p (.entries es)) L (E ++ es) (repS_pushes es p L E h)
      simpa [SPart.labelsOf, SPart.entriesOf, List.append_assoc] using this
    | skip =>
      have := ih p L E h
      simpa [SPart.labelsOf, SPart.entriesOf, appS] using this

theorem call_of_repS (p : PushSt) (L : Labels) (E : List LokiEntry) (h : RepS p L E) :
    p.call = Call.ofEntries (sanitizeLabels L) (E.map LokiEntry.entry) := by
  obtain ⟨h1, h2, h3, h4, h5⟩ := h
  simp [PushSt.call, Call.ofEntries, h1, h2, h3, h4, h5, Function.comp_def]

/-- **one stream object**: walking its members in document order with the five arrays as state gives the call the
    specification's stream stands for — ALL label sources, then sanitised; ALL entry sources; whatever their order -/
theorem decodeStream_spec (scan : Bytes → List Tok) (x : Json) :
    (jxObj (streamMember scan) {} x).map PushSt.call =
      (specStream scan x).map (fun s => Call.ofEntries s.ident s.sub) := by
  cases x with
  | obj m =>
    simp only [jxObj, specStream]
    rw [foldOpt_spec (fun p kv => streamMember scan p kv.1 kv.2) (specStreamMember scan) appS (streamMember_part scan)]
    cases mapOpt (specStreamMember scan) m with
    | none => rfl
    | some ps =>
      simp only [Option.map_some]
      have := repS_fold ps {} [] [] ⟨rfl, rfl, rfl, rfl, rfl⟩
      simp only [List.nil_append] at this
      exact congrArg some (call_of_repS _ _ _ this)
  | null => rfl
  | bool b => rfl
  | num t f i => rfl
  | str s => rfl
  | arr a => rfl

theorem jxObj_obj {σ} (f : σ → Bytes → Json → Option σ) (s : σ) (m : List (Bytes × Json)) :
    jxObj f s (.obj m) = foldOpt (fun s kv => f s kv.1 kv.2) s m := rfl

theorem jxArr_arr {σ} (f : σ → Json → Option σ) (s : σ) (l : List Json) : jxArr f s (.arr l) = foldOpt f s l := rfl

/-- **Loki JSON push, whole document** -/
theorem lokiJsonDecode_spec (scan : Bytes → List Tok) (j : Json) :
    lokiJsonDecode scan j = (lokiJsonSpec scan j).map decodeLoki := by
  have hstream : ∀ (calls : List Call) (s : Json),
      (jxObj (streamMember scan) {} s).map (fun p => calls ++ [p.call]) =
        (specStream scan s).map (fun st => calls ++ [Call.ofEntries st.ident st.sub]) := by
    intro calls s
    have := congrArg (Option.map (fun c => calls ++ [c])) (decodeStream_spec scan s)
    simpa [Option.map_map, Function.comp_def] using this
  cases j with
  | obj m =>
    simp only [lokiJsonDecode, lokiJsonSpec]
    rw [jxObj_obj]
    rw [foldOpt_spec (fun calls (kv : Bytes × Json) =>
          if kv.1 = k_streams then
            jxArr (fun calls s => (jxObj (streamMember scan) {} s).map (fun p => calls ++ [p.call])) calls kv.2
          else some calls)
        (fun kv => if kv.1 = k_streams then
            (match kv.2 with
             | .arr ss => mapOpt (specStream scan) ss
             | _ => none)
          else some [])
        (fun calls ss => calls ++ decodeLoki ss)]
    · cases mapOpt _ m with
      | none => rfl
      | some pss =>
        simp only [Option.map_some, foldl_append_map, List.nil_append]
        congr 1
        simp only [decodeLoki, List.flatMap_def, List.map_flatten]
        rfl
    · intro calls kv
      split
      · cases kv.2 with
        | arr ss =>
          dsimp only
          rw [jxArr_arr]
          rw [foldOpt_spec _ (specStream scan) (fun calls st => calls ++ [Call.ofEntries st.ident st.sub]) hstream]
          cases mapOpt (specStream scan) ss with
          | none => rfl
          | some sts => simp only [Option.map_some, foldl_snoc_map, decodeLoki]
        | null => rfl
        | bool b => rfl
        | num t f i => rfl
        | str s => rfl
        | obj o => rfl
      · simp [decodeLoki]
  | null => rfl
  | bool b => rfl
  | num t f i => rfl
  | str s => rfl
  | arr a => rfl

theorem mapOpt_map {α β γ} (g : α → Option β) (h : β → γ) (l : List α) :
    mapOpt (fun x => (g x).map h) l = (mapOpt g l).map (List.map h) := by
  induction l with
  | nil => rfl
  | cons x xs ih =>
    simp only [mapOpt, ih]
    cases g x with
    | none => rfl
    | some y => cases mapOpt g xs <;> rfl

/-! ### Datadog logs -/

def appD (d : DDSt) : DDPart → DDSt
  | .source s => { d with source := s }
  | .tags l => { d with tags := d.tags ++ l }
  | .hostname s => { d with hostname := s }
  | .message s => { d with message := s }
  | .service s => { d with service := s }
  | .ts t => { d with tsMs := t }
  | .sourceType s => { d with sourceType := s }
  | .skip => d

theorem ddMember_part (tagsOf : Bytes → Labels) (d : DDSt) (kv : Bytes × Json) :
    ddMember tagsOf d kv.1 kv.2 = (ddSpecMember tagsOf kv).map (appD d) := by
  unfold ddMember ddSpecMember
  split
  · cases jxStr kv.2 <;> rfl
  · split
    · cases jxStr kv.2 <;> rfl
    · split
      · cases jxStr kv.2 <;> rfl
      · split
        · cases jxStr kv.2 <;> rfl
        · split
          · cases jxStr kv.2 <;> rfl
          · split
            · cases jxI64 kv.2 <;> rfl
            · split
              · cases jxStr kv.2 <;> rfl
              · rfl

theorem dd_fold (ps : List DDPart) (d : DDSt) :
    ps.foldl appD d =
      ⟨(lastOf DDPart.sourceOf ps).getD d.source, d.tags ++ ps.flatMap DDPart.tagsOf,
       (lastOf DDPart.hostnameOf ps).getD d.hostname, (lastOf DDPart.messageOf ps).getD d.message,
       (lastOf DDPart.serviceOf ps).getD d.service, (lastOf DDPart.tsOf ps).getD d.tsMs,
       (lastOf DDPart.sourceTypeOf ps).getD d.sourceType⟩ := by
  induction ps generalizing d with
  | nil => simp [lastOf_nil]
  | cons q qs ih =>
    simp only [List.foldl_cons, lastOf_cons_getD, List.flatMap_cons, ih]
    cases q <;> simp [appD, DDPart.sourceOf, DDPart.tagsOf, DDPart.hostnameOf, DDPart.messageOf, DDPart.serviceOf,
      DDPart.tsOf, DDPart.sourceTypeOf]

theorem ddEntryCall_eq (now : Int) (d : DDSt) : ddEntryCall now d = Call.ofEntries d.log.ident (d.log.sub now) := by
  simp [ddEntryCall, Call.ofEntries, DDLog.ident, DDLog.sub, DDSt.log]

/-- **Datadog logs, whole body** -/
theorem ddLogsDecode_spec (tagsOf : Bytes → Labels) (now : Int) (j : Json) :
    ddLogsDecode tagsOf now j = (ddLogsSpec tagsOf j).map (decodeDDLogs now) := by
  have hentry : ∀ (calls : List Call) (x : Json),
      (jxObj (ddMember tagsOf) {} x).map (fun d => calls ++ [ddEntryCall now d]) =
        (ddSpecEntry tagsOf x).map (fun e => calls ++ [Call.ofEntries e.ident (e.sub now)]) := by
    intro calls x
    cases x with
    | obj m =>
      rw [jxObj_obj, foldOpt_spec (fun d kv => ddMember tagsOf d kv.1 kv.2) (ddSpecMember tagsOf) appD (ddMember_part tagsOf)]
      simp only [ddSpecEntry]
      cases mapOpt (ddSpecMember tagsOf) m with
      | none => rfl
      | some ps =>
        simp only [Option.map_some, dd_fold, ddEntryCall_eq, DDSt.log, List.nil_append]
    | null => rfl
    | bool b => rfl
    | num t f i => rfl
    | str s => rfl
    | arr a => rfl
  cases j with
  | arr xs =>
    simp only [ddLogsDecode, ddLogsSpec]
    rw [jxArr_arr, foldOpt_spec _ (ddSpecEntry tagsOf) (fun calls e => calls ++ [Call.ofEntries e.ident (e.sub now)]) hentry]
    cases mapOpt (ddSpecEntry tagsOf) xs with
    | none => rfl
    | some es => simp only [Option.map_some, foldl_snoc_map, List.nil_append, decodeDDLogs]
  | null => rfl
  | bool b => rfl
  | num t f i => rfl
  | str s => rfl
  | obj o => rfl

/-! ### Loki protobuf -/

theorem lokiProtoDecode_spec (scan : Bytes → List Tok) (d : List PbStream) :
    lokiProtoDecode scan d = (lokiProtoSpec scan d).map decodeProto := by
  unfold lokiProtoDecode lokiProtoSpec
  rw [foldOpt_spec _ (fun s => (labelPairs (scan s.labels)).map (fun ls =>
        (⟨ls, s.entries.map (fun e => ⟨e.sec, e.nanos, e.line⟩)⟩ : ProtoStream)))
      (fun calls (ps : ProtoStream) => calls ++ [⟨ps.ident, ps.sub.map (·.ts), ps.sub.map (·.line),
        fastFill ps.entries.length 0, fastFill ps.entries.length Gen.sampleTypeLog⟩])]
  · cases mapOpt _ d with
    | none => rfl
    | some sts => simp only [Option.map_some, foldl_snoc_map, List.nil_append, decodeProto]
  · intro calls s
    cases labelPairs (scan s.labels) with
    | none => rfl
    | some ls =>
      simp [ProtoStream.ident, ProtoStream.sub, ProtoEntry.entry, pbEntryTs, Function.comp_def]

/-! ### Influx -/

theorem influxMetricCalls_spec (m : Metric) :
    influxMetricCalls m = (influxSpecPoint m).map (fun p => p.streams.map (fun s => Call.ofEntries s.1 s.2)) := by
  unfold influxMetricCalls influxSpecPoint
  split
  · cases getMessage m.fields with
    | none => rfl
    | some line => simp [InfluxPoint.streams, InfluxPoint.base, influxLabels, Call.ofEntries]
  · simp [InfluxPoint.streams, InfluxPoint.base, influxLabels, Call.ofEntries, List.filterMap_map, List.map_filterMap,
      Function.comp_def, Option.map_map]

/-- **Influx, whole body** -/
theorem influxDecode_spec (ms : List Metric) : influxDecode ms = (influxSpec ms).map decodeInflux := by
  unfold influxDecode influxSpec
  have : influxMetricCalls = fun m => (influxSpecPoint m).map (fun p => p.streams.map (fun s => Call.ofEntries s.1 s.2)) :=
    funext influxMetricCalls_spec
  rw [this, mapOpt_map]
  cases mapOpt influxSpecPoint ms with
  | none => rfl
  | some ps => simp [decodeInflux, List.flatMap_def]

/-! ### Datadog series -/

def appP (p : PtSt) : PPart → PtSt
  | .ts t => { p with ts := t }
  | .value v => { p with val := v }
  | .skip => p

theorem dsPointMember_part (p : PtSt) (kv : Bytes × Json) :
    dsPointMember p kv.1 kv.2 = (dsSpecPointMember kv).map (appP p) := by
  unfold dsPointMember dsSpecPointMember
  split
  · cases jxI64 kv.2 <;> rfl
  · split
    · cases jxF64 kv.2 <;> rfl
    · rfl

theorem pt_fold (ps : List PPart) (p : PtSt) :
    ps.foldl appP p = ⟨(lastOf PPart.tsOf ps).getD p.ts, (lastOf PPart.valueOf ps).getD p.val⟩ := by
  induction ps generalizing p with
  | nil => simp [lastOf_nil]
  | cons q qs ih =>
    simp only [List.foldl_cons, lastOf_cons_getD, ih]
    cases q <;> simp [appP, PPart.tsOf, PPart.valueOf]

def DSSt.addPoint (st : DSSt) (pt : Int × UInt64) : DSSt := { st with ts := st.ts ++ [pt.1], vals := st.vals ++ [pt.2] }

theorem dsPoint_spec (now : Int) (st : DSSt) (x : Json) :
    (jxObj dsPointMember ⟨now, 0⟩ x).map (fun p => { st with ts := st.ts ++ [p.ts], vals := st.vals ++ [p.val] }) =
      (dsSpecPoint now x).map st.addPoint := by
  cases x with
  | obj m =>
    rw [jxObj_obj, foldOpt_spec (fun p kv => dsPointMember p kv.1 kv.2) dsSpecPointMember appP dsPointMember_part]
    simp only [dsSpecPoint]
    cases mapOpt dsSpecPointMember m with
    | none => rfl
    | some ps => simp only [Option.map_some, pt_fold, DSSt.addPoint]
  | null => rfl
  | bool b => rfl
  | num t f i => rfl
  | str s => rfl
  | arr a => rfl

theorem addPoints_fold (pts : List (Int × UInt64)) (st : DSSt) :
    pts.foldl DSSt.addPoint st = { st with ts := st.ts ++ pts.map (·.1), vals := st.vals ++ pts.map (·.2) } := by
  induction pts generalizing st with
  | nil => simp
  | cons q qs ih => simp [ih, DSSt.addPoint, List.append_assoc]

theorem dsResource_spec (i : Nat) (labels : Labels) (ms : List (Bytes × Json)) :
    foldOpt (fun ls (kv : Bytes × Json) => (maybeString kv.2).map (fun v => ls ++ [(resourceKey i kv.1, v)])) labels ms =
      (dsSpecResource i (.obj ms)).map (labels ++ ·) := by
  rw [foldOpt_spec _ (fun (kv : Bytes × Json) => (maybeString kv.2).map (fun v => (resourceKey i kv.1, v)))
        (fun ls pr => ls ++ [pr]) (by intro ls kv; cases maybeString kv.2 <;> rfl)]
  simp only [dsSpecResource]
  cases mapOpt _ ms with
  | none => rfl
  | some ps => simp only [Option.map_some, foldl_snoc]

/-- the callback of the `resources` array -/
def resStep (st : Nat × Labels) (r : Json) : Option (Nat × Labels) :=
  match r with
  | .obj ms =>
    (foldOpt (fun ls (kv : Bytes × Json) => (maybeString kv.2).map (fun v => ls ++ [(resourceKey (st.1 + 1) kv.1, v)])) st.2 ms).map
      (fun ls => (st.1 + 1, ls))
  | _ => none

theorem dsResources_eq (labels : Labels) (rs : List Json) :
    dsResources labels (.arr rs) = (foldOpt resStep (0, labels) rs).map (·.2) := rfl

theorem resStep_eq (i : Nat) (labels : Labels) (r : Json) :
    resStep (i, labels) r = (dsSpecResource (i + 1) r).map (fun ls => (i + 1, labels ++ ls)) := by
  cases r with
  | obj ms =>
    simp only [resStep, dsResource_spec]
    cases dsSpecResource (i + 1) (.obj ms) <;> rfl
  | null => rfl
  | bool b => rfl
  | num t f i => rfl
  | str s => rfl
  | arr a => rfl

theorem dsResources_fold (rs : List Json) (i : Nat) (labels : Labels) :
    foldOpt resStep (i, labels) rs =
      (mapOptIdx dsSpecResource (i + 1) rs).map (fun ls => (i + rs.length, labels ++ ls.flatten)) := by
  induction rs generalizing i labels with
  | nil => simp [foldOpt, mapOptIdx]
  | cons r rest ih =>
    simp only [foldOpt, mapOptIdx, resStep_eq]
    cases dsSpecResource (i + 1) r with
    | none => rfl
    | some ls =>
      simp only [Option.map_some, ih]
      cases mapOptIdx dsSpecResource (i + 1 + 1) rest with
      | none => rfl
      | some lss =>
        simp only [Option.map_some, List.length_cons, List.flatten_cons]
        exact congrArg some (Prod.ext (by simp only []; omega) (by simp [List.append_assoc]))

def appI (st : DSSt) : IPart → DSSt
  | .labels l => { st with labels := st.labels ++ l }
  | .points ps => ps.foldl DSSt.addPoint st
  | .skip => st

theorem dsItemMember_part (now : Int) (st : DSSt) (kv : Bytes × Json) :
    dsItemMember now st kv.1 kv.2 = (dsSpecItemMember now kv).map (appI st) := by
  unfold dsItemMember dsSpecItemMember
  split
  · cases maybeString kv.2 <;> rfl
  · split
    · cases kv.2 with
      | arr rs =>
        simp only [dsResources_eq, dsResources_fold, Nat.zero_add]
        cases mapOptIdx dsSpecResource 1 rs <;> rfl
      | null => rfl
      | bool b => rfl
      | num t f i => rfl
      | str s => rfl
      | obj o => rfl
    · split
      · cases kv.2 with
        | arr ps =>
          simp only [dsPoints]
          rw [jxArr_arr, foldOpt_spec _ (dsSpecPoint now) DSSt.addPoint (dsPoint_spec now)]
          cases mapOpt (dsSpecPoint now) ps <;> rfl
        | null => rfl
        | bool b => rfl
        | num t f i => rfl
        | str s => rfl
        | obj o => rfl
      · rfl

theorem item_fold (ps : List IPart) (st : DSSt) :
    ps.foldl appI st =
      ⟨st.labels ++ ps.flatMap IPart.labelsOf, st.ts ++ (ps.flatMap IPart.pointsOf).map (·.1),
       st.vals ++ (ps.flatMap IPart.pointsOf).map (·.2)⟩ := by
  induction ps generalizing st with
  | nil => simp
  | cons q qs ih =>
    simp only [List.foldl_cons, List.flatMap_cons, ih]
    cases q with
    | labels l => simp [appI, IPart.labelsOf, IPart.pointsOf, List.append_assoc]
    | points pts => simp [appI, IPart.labelsOf, IPart.pointsOf, addPoints_fold, List.append_assoc]
    | skip => simp [appI, IPart.labelsOf, IPart.pointsOf]

theorem dsCall_eq (L : Labels) (P : List (Int × UInt64)) :
    dsCall ⟨L, P.map (·.1), P.map (·.2)⟩ = Call.ofEntries L (P.map pointEntry) := by
  simp only [dsCall, Call.ofEntries, List.length_map, List.map_map, fastFill]
  congr 1
  · exact replicate_eq_map P [] _ (fun _ => rfl)
  · exact replicate_eq_map P Gen.sampleTypeMetric _ (fun _ => rfl)

/-- **Datadog series, whole body** -/
theorem ddSeriesDecode_spec (now : Int) (j : Json) :
    ddSeriesDecode now j = (ddSeriesSpec now j).map (fun ss => ss.map (fun s => Call.ofEntries s.1 s.2)) := by
  have hitem : ∀ (calls : List Call) (x : Json),
      (jxObj (dsItemMember now) {} x).map (fun st => calls ++ [dsCall st]) =
        (dsSpecItem now x).map (fun s => calls ++ [Call.ofEntries s.1 s.2]) := by
    intro calls x
    cases x with
    | obj m =>
      rw [jxObj_obj, foldOpt_spec (fun st kv => dsItemMember now st kv.1 kv.2) (dsSpecItemMember now) appI (dsItemMember_part now)]
      simp only [dsSpecItem]
      cases mapOpt (dsSpecItemMember now) m with
      | none => rfl
      | some ps => simp only [Option.map_some, item_fold, List.nil_append, dsCall_eq]
    | null => rfl
    | bool b => rfl
    | num t f i => rfl
    | str s => rfl
    | arr a => rfl
  cases j with
  | obj m =>
    simp only [ddSeriesDecode, ddSeriesSpec]
    rw [jxObj_obj]
    rw [foldOpt_spec (fun calls (kv : Bytes × Json) =>
          if kv.1 = k_series then
            jxArr (fun calls it => (jxObj (dsItemMember now) {} it).map (fun st => calls ++ [dsCall st])) calls kv.2
          else some calls)
        (fun kv => if kv.1 = k_series then
            (match kv.2 with
             | .arr xs => mapOpt (dsSpecItem now) xs
             | _ => none)
          else some [])
        (fun calls ss => calls ++ ss.map (fun s => Call.ofEntries s.1 s.2))]
    · cases mapOpt _ m with
      | none => rfl
      | some pss =>
        simp only [Option.map_some, foldl_append_map, List.nil_append]
        congr 1
        simp only [List.flatMap_def, List.map_flatten]
    · intro calls kv
      split
      · cases kv.2 with
        | arr xs =>
          dsimp only
          rw [jxArr_arr, foldOpt_spec _ (dsSpecItem now) (fun calls s => calls ++ [Call.ofEntries s.1 s.2]) hitem]
          cases mapOpt (dsSpecItem now) xs with
          | none => rfl
          | some sts => simp only [Option.map_some, foldl_snoc_map]
        | null => rfl
        | bool b => rfl
        | num t f i => rfl
        | str s => rfl
        | obj o => rfl
      · simp
  | null => rfl
  | bool b => rfl
  | num t f i => rfl
  | str s => rfl
  | arr a => rfl

/-! ### OTLP: the Go maps of `otlpLogDec.Decode` as association lists -/

theorem lookup_mapSet (m : Labels) (k v k' : Bytes) :
    lookupLabel (mapSet m k v) k' = if k = k' then some v else lookupLabel m k' := by
  induction m with
  | nil =>
    by_cases h : k = k' <;> simp [mapSet, lookupLabel, h]
  | cons x xs ih =>
    obtain ⟨a, b⟩ := x
    unfold lookupLabel at ih ⊢
    by_cases hak : a = k
    · subst hak
      by_cases h : a = k' <;> simp [mapSet, h]
    · by_cases h : k = k'
      · subst h
        simp only [mapSet, hak, if_false, List.find?_cons, decide_false, ih, if_true]
      · by_cases ha : a = k'
        · subst ha
          simp [mapSet, hak, h]
        · simp only [mapSet, hak, if_false, List.find?_cons, ha, decide_false, ih, h]

theorem keys_mapSet (m : Labels) (k v : Bytes) :
    (mapSet m k v).map (·.1) = if k ∈ m.map (·.1) then m.map (·.1) else m.map (·.1) ++ [k] := by
  induction m with
  | nil => simp [mapSet]
  | cons x xs ih =>
    obtain ⟨a, b⟩ := x
    by_cases hak : a = k
    · subst hak; simp [mapSet]
    · have hka : ¬ k = a := fun h => hak h.symm
      simp only [mapSet, hak, if_false, List.map_cons, ih, List.mem_cons, hka, false_or]
      split <;> simp

theorem nodup_mapSet (m : Labels) (k v : Bytes) (h : (m.map (·.1)).Nodup) : ((mapSet m k v).map (·.1)).Nodup := by
  rw [keys_mapSet]
  split
  · exact h
  · rename_i hk
    rw [List.nodup_append]
    exact ⟨h, by simp, by intro a ha b hb; simp at hb; subst hb; intro e; subst e; exact hk ha⟩

/-- `m[key a] = val a` for every element in order -/
def foldSet {α} (key val : α → Bytes) (m : Labels) (l : List α) : Labels := l.foldl (fun m a => mapSet m (key a) (val a)) m

theorem lookup_foldSet {α} (key val : α → Bytes) (l : List α) (m : Labels) (k : Bytes) :
    lookupLabel (foldSet key val m l) k =
      (lastOf (fun a => if key a = k then some (val a) else none) l).or (lookupLabel m k) := by
  induction l generalizing m with
  | nil => simp [foldSet, lastOf_nil]
  | cons a as ih =>
    have := ih (mapSet m (key a) (val a))
    simp only [foldSet, List.foldl_cons] at this ⊢
    rw [this, lookup_mapSet, lastOf_cons]
    cases lastOf (fun a => if key a = k then some (val a) else none) as with
    | some x => simp
    | none => by_cases h : key a = k <;> simp [h]

theorem nodup_foldSet {α} (key val : α → Bytes) (l : List α) (m : Labels) (h : (m.map (·.1)).Nodup) :
    ((foldSet key val m l).map (·.1)).Nodup := by
  induction l generalizing m with
  | nil => exact h
  | cons a as ih => exact ih _ (nodup_mapSet m _ _ h)

theorem lastOf_none_of_not_mem (M : Labels) (k : Bytes) (h : k ∉ M.map (·.1)) :
    lastOf (fun kv : Bytes × Bytes => if kv.1 = k then some kv.2 else none) M = none := by
  induction M with
  | nil => rfl
  | cons x xs ih =>
    simp only [List.map_cons, List.mem_cons, not_or] at h
    rw [lastOf_cons, ih h.2]
    have : ¬ x.1 = k := fun e => h.1 e.symm
    simp [this]

theorem lastOf_eq_lookup (M : Labels) (k : Bytes) (h : (M.map (·.1)).Nodup) :
    lastOf (fun kv : Bytes × Bytes => if kv.1 = k then some kv.2 else none) M = lookupLabel M k := by
  induction M with
  | nil => rfl
  | cons x xs ih =>
    simp only [List.map_cons, List.nodup_cons] at h
    rw [lastOf_cons]
    unfold lookupLabel at ih ⊢
    by_cases hx : x.1 = k
    · subst hx
      rw [lastOf_none_of_not_mem xs x.1 h.1]
      simp
    · rw [ih h.2]
      simp [hx]

theorem attrsInto_eq (m attrs : Labels) :
    attrsInto m attrs = foldSet (fun kv : Bytes × Bytes => sanitizeKey kv.1) (·.2) m attrs := rfl

theorem lookup_attrsInto (m attrs : Labels) (k : Bytes) :
    lookupLabel (attrsInto m attrs) k = (lastAttr attrs k).or (lookupLabel m k) := by
  rw [attrsInto_eq, lookup_foldSet]; rfl

/-- **the labels of an OTLP log record**: looking a name up in the label list the decoder builds gives the severity
    text for `level` (when there is one), else the last record attribute with that sanitised key, else the last scope
    attribute, else the last resource attribute — and no name occurs twice in the list. -/
theorem otlpIdent_lookup (res sc : Labels) (r : OtlpRecord) (k : Bytes) :
    lookupLabel (otlpIdent res sc r) k = otlpSpecLabel res sc r k ∧ ((otlpIdent res sc r).map (·.1)).Nodup := by
  have hR : ((attrsInto [] res).map (·.1)).Nodup := nodup_foldSet _ _ res [] (by simp)
  have hS : ((attrsInto [] sc).map (·.1)).Nodup := nodup_foldSet _ _ sc [] (by simp)
  have hM1 : ∀ k, lookupLabel ((attrsInto [] sc).foldl (fun m kv => mapSet m kv.1 kv.2) (attrsInto [] res)) k =
      (lastAttr sc k).or (lastAttr res k) := by
    intro k
    have := lookup_foldSet (fun kv : Bytes × Bytes => kv.1) (·.2) (attrsInto [] sc) (attrsInto [] res) k
    simp only [foldSet] at this
    rw [this, lastOf_eq_lookup _ _ hS, lookup_attrsInto, lookup_attrsInto]
    simp [lookupLabel]
  have hN1 : (((attrsInto [] sc).foldl (fun m kv => mapSet m kv.1 kv.2) (attrsInto [] res)).map (·.1)).Nodup :=
    nodup_foldSet (fun kv : Bytes × Bytes => kv.1) (·.2) (attrsInto [] sc) _ hR
  have hN2 := nodup_foldSet (fun kv : Bytes × Bytes => sanitizeKey kv.1) (·.2) r.attrs _ hN1
  unfold otlpIdent otlpSpecLabel
  by_cases hs : r.severity = []
  · simp only [hs, ne_eq, not_true_eq_false, if_false, and_false, lookup_attrsInto, hM1]
    exact ⟨trivial, hN2⟩
  · simp only [ne_eq, hs, not_false_eq_true, if_true, and_true, lookup_mapSet, lookup_attrsInto, hM1]
    refine ⟨?_, nodup_mapSet _ _ _ hN2⟩
    by_cases hk : levelLabel = k
    · simp [hk]
    · have : ¬ k = levelLabel := fun e => hk e.symm
      simp [hk, this]

/-! ### member order inside a Loki stream object -/

/-- members that are label sources / entry sources of a stream object -/
def labelKey (kv : Bytes × Json) : Bool := kv.1 = k_stream || kv.1 = k_labels
def entryKey (kv : Bytes × Json) : Bool := kv.1 = k_values || kv.1 = k_entries

theorem specStream_split (scan : Bytes → List Tok) (m : List (Bytes × Json)) :
    specStream scan (.obj m) =
      (match mapOpt (specStreamMember scan) (m.filter labelKey), mapOpt (specStreamMember scan) (m.filter entryKey) with
       | some a, some b => some ⟨a.flatMap SPart.labelsOf, b.flatMap SPart.entriesOf⟩
       | _, _ => none) := by
  have d1 : k_stream ≠ k_values := by decide
  have d2 : k_stream ≠ k_entries := by decide
  have d3 : k_labels ≠ k_values := by decide
  have d4 : k_labels ≠ k_entries := by decide
  have d5 : k_stream ≠ k_labels := by decide
  have d6 : k_values ≠ k_entries := by decide
  simp only [specStream]
  induction m with
  | nil => rfl
  | cons x xs ih =>
    obtain ⟨k, v⟩ := x
    by_cases h1 : k = k_stream
    · subst h1
      have hl : labelKey (k_stream, v) = true := by simp [labelKey]
      have he : entryKey (k_stream, v) = false := by simp [entryKey, d1, d2]
      simp only [List.filter_cons, hl, he, if_true, mapOpt]
      have hp : ∀ p, specStreamMember scan (k_stream, v) = some p → p.entriesOf = [] := by
        intro p hp
        simp only [specStreamMember, if_true] at hp
        cases v <;> simp at hp
        rename_i ms
        cases hm : mapOpt (fun m : Bytes × Json => (jxStr m.2).map (fun s => (m.1, s))) ms <;> simp [hm] at hp
        subst hp; rfl
      cases hx : specStreamMember scan (k_stream, v) with
      | none => simp
      | some p =>
        have := hp p hx
        cases h₁ : mapOpt (specStreamMember scan) xs <;>
          cases h₂ : mapOpt (specStreamMember scan) (xs.filter labelKey) <;>
          cases h₃ : mapOpt (specStreamMember scan) (xs.filter entryKey) <;>
          simp_all
    · by_cases h2 : k = k_labels
      · subst h2
        have hl : labelKey (k_labels, v) = true := by simp [labelKey]
        have he : entryKey (k_labels, v) = false := by simp [entryKey, d3, d4]
        simp only [List.filter_cons, hl, he, if_true, mapOpt]
        have hp : ∀ p, specStreamMember scan (k_labels, v) = some p → p.entriesOf = [] := by
          intro p hp
          simp only [specStreamMember, d5.symm, if_false, if_true] at hp
          cases hm : (jxStr v).bind (fun s => labelPairs (scan s)) <;> simp [hm] at hp
          subst hp; rfl
        cases hx : specStreamMember scan (k_labels, v) with
        | none => simp
        | some p =>
          have := hp p hx
          cases h₁ : mapOpt (specStreamMember scan) xs <;>
            cases h₂ : mapOpt (specStreamMember scan) (xs.filter labelKey) <;>
            cases h₃ : mapOpt (specStreamMember scan) (xs.filter entryKey) <;>
            simp_all
      · by_cases h3 : k = k_values ∨ k = k_entries
        · have hl : labelKey (k, v) = false := by simp [labelKey, h1, h2]
          have he : entryKey (k, v) = true := by simpa [entryKey] using h3
          simp only [List.filter_cons, hl, he, if_true, mapOpt]
          have hp : ∀ p, specStreamMember scan (k, v) = some p → p.labelsOf = [] := by
            intro p hp
            simp only [specStreamMember, h1, h2, if_false] at hp
            rcases h3 with h3 | h3
            · subst h3
              simp only [if_true] at hp
              cases v <;> simp at hp
              rename_i xs'
              cases hm : mapOpt specValue xs' <;> simp [hm] at hp
              subst hp; rfl
            · subst h3
              simp only [d6.symm, if_false, if_true] at hp
              cases v <;> simp at hp
              rename_i xs'
              cases hm : mapOpt specEntry xs' <;> simp [hm] at hp
              subst hp; rfl
          cases hx : specStreamMember scan (k, v) with
          | none =>
            cases mapOpt (specStreamMember scan) (xs.filter labelKey) <;> simp
          | some p =>
            have := hp p hx
            cases h₁ : mapOpt (specStreamMember scan) xs <;>
              cases h₂ : mapOpt (specStreamMember scan) (xs.filter labelKey) <;>
              cases h₃ : mapOpt (specStreamMember scan) (xs.filter entryKey) <;>
              simp_all
        · have h3' : ¬ k = k_values ∧ ¬ k = k_entries := by
            constructor <;> intro e <;> exact h3 (by simp [e])
          have hl : labelKey (k, v) = false := by simp [labelKey, h1, h2]
          have he : entryKey (k, v) = false := by simp [entryKey, h3'.1, h3'.2]
          have hx : specStreamMember scan (k, v) = some .skip := by
            simp [specStreamMember, h1, h2, h3'.1, h3'.2]
          simp only [List.filter_cons, hl, he, mapOpt, hx]
          cases h₁ : mapOpt (specStreamMember scan) xs <;>
            cases h₂ : mapOpt (specStreamMember scan) (xs.filter labelKey) <;>
            cases h₃ : mapOpt (specStreamMember scan) (xs.filter entryKey) <;>
            simp_all [SPart.labelsOf, SPart.entriesOf]


/-! ### the entries of a Datadog series reading have the metric type -/

theorem mem_mapOpt {α β} (f : α → Option β) : ∀ (l : List α) (ys : List β), mapOpt f l = some ys →
    ∀ y ∈ ys, ∃ x ∈ l, f x = some y
  | [], ys, h, y, hy => by simp [mapOpt] at h; subst h; simp at hy
  | x :: xs, ys, h, y, hy => by
    simp only [mapOpt] at h
    cases hx : f x with
    | none => simp [hx] at h
    | some y0 =>
      cases hxs : mapOpt f xs with
      | none => simp [hx, hxs] at h
      | some ys0 =>
        simp [hx, hxs] at h
        subst h
        rcases List.mem_cons.mp hy with rfl | hy
        · exact ⟨x, by simp, hx⟩
        · obtain ⟨x', hx', e⟩ := mem_mapOpt f xs ys0 hxs y hy
          exact ⟨x', by simp [hx'], e⟩

theorem ddSeriesSpec_tp (now : Int) (j : Json) (ss : List (Labels × List Entry)) (h : ddSeriesSpec now j = some ss) :
    ∀ s ∈ ss, ∀ e ∈ s.2, e.tp ≤ 2 := by
  intro s hs e he
  cases j with
  | obj m =>
    simp only [ddSeriesSpec] at h
    generalize hm : mapOpt _ m = o at h
    cases o with
    | none => simp at h
    | some pss =>
      simp only [Option.map_some, Option.some.injEq] at h
      subst h
      obtain ⟨ps, hps, hs⟩ := List.mem_flatten.mp hs
      obtain ⟨kv, _, hkv⟩ := mem_mapOpt _ m pss hm ps hps
      split at hkv
      · cases hv : kv.2 with
        | arr xs =>
          simp only [hv] at hkv
          obtain ⟨it, _, hit⟩ := mem_mapOpt _ xs ps hkv s hs
          cases it with
          | obj im =>
            simp only [dsSpecItem] at hit
            cases hi : mapOpt (dsSpecItemMember now) im with
            | none => simp [hi] at hit
            | some parts =>
              simp [hi] at hit
              subst hit
              simp only [List.mem_map] at he
              obtain ⟨pt, _, rfl⟩ := he
              show Gen.sampleTypeMetric ≤ 2
              decide
          | null => simp [dsSpecItem] at hit
          | bool b => simp [dsSpecItem] at hit
          | num t f i => simp [dsSpecItem] at hit
          | str s' => simp [dsSpecItem] at hit
          | arr a => simp [dsSpecItem] at hit
        | null => simp [hv] at hkv
        | bool b => simp [hv] at hkv
        | num t f i => simp [hv] at hkv
        | str s' => simp [hv] at hkv
        | obj o => simp [hv] at hkv
      · simp at hkv; subst hkv; simp at hs
  | null => simp [ddSeriesSpec] at h
  | bool b => simp [ddSeriesSpec] at h
  | num t f i => simp [ddSeriesSpec] at h
  | str s' => simp [ddSeriesSpec] at h
  | arr a => simp [ddSeriesSpec] at h


end Qryn.Ingest.Wire
