import Qryn.Proofs.TraceQLStageB
/-! C11: the aggregate filter (`AggregatorPlanner`) on the group of one trace. -/
namespace Qryn.TraceQL
open Qryn Qryn.Sql

/-- the aggregation oracle does not depend on the order of the aggregated values -/
def PermInv (ao : AggOracles) : Prop :=
  ∀ (agg : String) (xs ys : List Bytes) (f l : String), xs.Perm ys → ao.aggCmp agg xs f l = ao.aggCmp agg ys f l

/-- the HAVING `AggregatorPlanner` adds -/
def aggHaving (pfx : String) (fn : AggFn) (f v : String) : Option Expr :=
  some (and_ [.logical f [aggregatorSql pfx fn, .numLit v]])

theorem cmpSql_ne (op : Op) (f : String) (h : cmpSql op = some f) : f ≠ "and" ∧ f ≠ "or" := by
  cases op <;> simp [cmpSql] at h <;> subst h <;> decide

/-- what the aggregate HAVING computes on a group -/
theorem havingG_agg (o : Oracles) (ao : AggOracles) (env : Env) (pfx : String) (fn : AggFn) (op : Op) (f v : String)
    (hf : cmpSql op = some f) (g : List Row) :
    havingG o ao env g (aggHaving pfx fn f v) =
      (match fn with
       | .count => o.numCmp f (natDigits (dedup (g.map (fun r => r.get (pfx ++ "index_search.span_id")))).length) v
       | fn => ao.aggCmp (aggName fn) (aggTexts o (g.map (fun r => r.get "agg_val"))) f v) := by
  obtain ⟨h1, h2⟩ := cmpSql_ne op f hf
  cases fn <;>
    simp [havingG, aggHaving, bitSetOf, and_, findBitSet, findBitSetL, aggregatorSql, evalHavG, evalHavAllG, h1, h2,
      havLeaf, AggFn.text, aggName, evalE]

theorem havingG_agg_perm (o : Oracles) (ao : AggOracles) (hp : PermInv ao) (env : Env) (pfx : String) (fn : AggFn)
    (op : Op) (f v : String) (hf : cmpSql op = some f) (g g' : List Row) (h : g.Perm g') :
    havingG o ao env g (aggHaving pfx fn f v) = havingG o ao env g' (aggHaving pfx fn f v) := by
  rw [havingG_agg o ao env pfx fn op f v hf, havingG_agg o ao env pfx fn op f v hf]
  cases fn
  · simp only
    rw [dedup_length_perm _ _ (h.map _)]
  all_goals
    simp only
    apply hp
    unfold aggTexts
    exact (h.map _).filterMap _

end Qryn.TraceQL
