import Qryn.Prom.Downsample
import Qryn.Proofs.Stepped
/-! Lemmas about the down-sampled sample query (`Qryn.Prom.Downsample.down`). -/
namespace Qryn.Prom.Downsample
open Qryn Qryn.Prom.Stepped Qryn.Read.Assembly

theorem mem_keysD (h : Hints) (rows : List Agg) (k : Key) :
    k ∈ keysD h rows ↔ ∃ a ∈ rows, keyD h a = k := by
  induction rows with
  | nil => simp [keysD]
  | cons r rs ih =>
    have : keysD h (r :: rs) = insertKey (keyD h r) (keysD h rs) := rfl
    rw [this, mem_insertKey, ih]
    constructor
    · rintro (e | ⟨x, hx, e⟩)
      · exact ⟨r, List.mem_cons_self, e.symm⟩
      · exact ⟨x, List.mem_cons_of_mem _ hx, e⟩
    · rintro ⟨x, hx, e⟩
      rcases List.mem_cons.mp hx with rfl | hx
      · exact Or.inl e.symm
      · exact Or.inr ⟨x, hx, e⟩

theorem keysD_pairwise (h : Hints) (rows : List Agg) : (keysD h rows).Pairwise keyLt := by
  induction rows with
  | nil => simp [keysD]
  | cons r rs ih => exact insertKey_pairwise _ _ ih

/-- the rows of the result are the group keys, in order -/
theorem collect_keys (col : String) (h : Hints) (src : List Agg) :
    ∀ (ks : List Key) (out : List DRow),
      ks.foldr (fun k acc =>
        match evalCol col (src.filter (fun a => keyD h a == k)), acc with
        | some v, some rest => some ((⟨k.1, k.2, v.1, v.2⟩ : DRow) :: rest)
        | _, _ => none) (some []) = some out →
      out.map (fun o => ((o.fp, o.ts) : Key)) = ks := by
  intro ks
  induction ks with
  | nil => intro out e; simp at e; subst e; rfl
  | cons k ks ih =>
    intro out e
    simp only [List.foldr_cons] at e
    split at e
    · rename_i v rest hv hrest
      cases e
      simp only [List.map_cons]
      rw [ih rest hrest]
    · cases e

theorem down_keys (h : Hints) (rows : List Agg) (out : List DRow) (e : down h rows = some out) :
    out.map (fun o => ((o.fp, o.ts) : Key)) = keysD h (scanned h rows) :=
  collect_keys _ h (scanned h rows) _ out e

theorem scanHoldsD_iff (h : Hints) (a : Agg) : scanHoldsD h a = true ↔ h.start ≤ a.b ∧ a.b ≤ h.stop := by
  have e1 : Gen.PromStep.downLower = ">=" := by decide
  have e2 : Gen.PromStep.downUpper = "<=" := by decide
  simp only [scanHoldsD, e1, e2, cmpInt, ns]
  simp

end Qryn.Prom.Downsample
