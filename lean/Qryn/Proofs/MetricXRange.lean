import Qryn.Proofs.MetricXSource
/-! C08 ext, part 3: the range planners over the source statement of the labelled path: `LRAPlanner` with labels,
    `UnwrapFunctionPlanner` (incl. stddev/stdvar), `QuantilePlanner`. -/
namespace Qryn.LogQL
open Qryn Qryn.Sql

/-! ### `LRAPlanner` with `WithLabels` over the last run -/
def EntryX.toSample (e : EntryX) : Sample := ⟨e.fp, e.ts, e.line, 0⟩

def lraKeyX (d : Nat) (e : EntryX) : Int × Int := (e.fp, bucketOf d e.ts)

/-- the points of the range stage over the entries `E`: every point carries the labels of its series -/
def lraPtsX (fn : RangeFn) (d : Nat) (E : List EntryX) : List Pt :=
  (groupsBy (lraKeyX d) E).map (fun g =>
    ⟨.int g.1.1, (g.2.head?.map (fun e => Val.map e.labels)).getD .null, g.1.2, lraVal fn d (g.2.map EntryX.toSample)⟩)

def lraRowL (p : Pt) : Row :=
  [("timestamp_ns", .int p.ts), ("fingerprint", p.key), ("string", .str []), ("value", .rat p.value), ("labels", p.labels)]

def lraColsL (fn : RangeFn) (d : Nat) : List Expr := lraCols fn d ++ [.col (.call "any" [.raw "labels"]) "labels"]

def lraBodyL (fn : RangeFn) (d : Nat) (hv : Option Expr) : Sel :=
  .mk [] false (lraColsL fn d) (some (.col (.withRef (.named "agg_a")) "time_series")) [] none none
    [.raw "fingerprint", .raw "timestamp_ns"] hv [] none

theorem lraL_aliasVals (o : Oracles) (env : Env) (fn : RangeFn) (d : Nat) (hd : 0 < d) (j : Bool) (e : EntryX) :
    aliasVals o env (lraColsL fn d) (qualify "time_series" (rowSN j "_string" vNull e)) =
      [("timestamp_ns", .int (bucketOf d e.ts)), ("fingerprint", .int e.fp), ("string", .str [])] := by
  have hd0 : d ≠ 0 := by omega
  cases fn <;> cases j <;>
    simp [lraColsL, lraCols, aliasVals, hasAgg, aggNames, lraValue, perSecond, countF, bytesF, bucketCol, simpleCol, emptyStr, evalE,
      evalEs, qualify, rowSN, vNull, Row.get, List.lookup, mulVal, bucketOf, hd0]

theorem qrow_get (j : Bool) (e : EntryX) :
    (qualify "time_series" (rowSN j "_string" vNull e)).get "time_series.timestamp_ns" = .int e.ts ∧
    (qualify "time_series" (rowSN j "_string" vNull e)).get "fingerprint" = .int e.fp ∧
    (qualify "time_series" (rowSN j "_string" vNull e)).get "labels" = .map e.labels ∧
    (qualify "time_series" (rowSN j "_string" vNull e)).get "_string" = .str e.line := by
  cases j <;> simp [qualify, rowSN, vNull, Row.get, List.lookup]

theorem lraL_scope (o : Oracles) (env : Env) (fn : RangeFn) (d : Nat) (hd : 0 < d) (j : Bool) (e : EntryX) (self : String) :
    scope o env (lraColsL fn d) self (qualify "time_series" (rowSN j "_string" vNull e)) =
      ([("timestamp_ns", Val.int (bucketOf d e.ts)), ("fingerprint", Val.int e.fp), ("string", Val.str [])].filter
        (fun p => p.1 != self)) ++ qualify "time_series" (rowSN j "_string" vNull e) := by
  unfold scope
  rw [lraL_aliasVals o env fn d hd]

theorem lraL_group_row (o : Oracles) (env : Env) (fn : RangeFn) (d : Nat) (hd : 0 < d) (j : Bool)
    (k : Int × Int) (grp : List EntryX) (e0 : EntryX) (rest : List EntryX) (hg : grp = e0 :: rest)
    (hk : lraKeyX d e0 = k) :
    grow o env (lraColsL fn d) (grp.map (fun e => qualify "time_series" (rowSN j "_string" vNull e))) =
      lraRowL ⟨.int k.1, (grp.head?.map (fun e => Val.map e.labels)).getD .null, k.2, lraVal fn d (grp.map EntryX.toSample)⟩ := by
  have hd0 : d ≠ 0 := by omega
  have hval := range_fn_lra o env ((grp.map (fun e => qualify "time_series" (rowSN j "_string" vNull e))).map
      (fun r => aliasVals o env (lraColsL fn d) r ++ r))
    (scope o env (lraColsL fn d) "value" ((grp.map (fun e => qualify "time_series" (rowSN j "_string" vNull e))).headD []))
    (grp.map EntryX.toSample) fn d (by
      unfold LraRows
      simp only [List.map_map, Function.comp_def]
      apply List.map_congr_left
      intro e _
      rw [lraL_aliasVals o env fn d hd]
      have := (qrow_get j e).2.2.2
      simp [Row.get_cons, this, EntryX.toSample]) hd
  subst hg
  have hk1 : e0.fp = k.1 := by rw [← hk]; rfl
  have hk2 : bucketOf d e0.ts = k.2 := by rw [← hk]; rfl
  obtain ⟨q1, q2, q3, _⟩ := qrow_get j e0
  unfold grow
  simp only [lraColsL, lraCols, List.cons_append, List.nil_append, List.map_cons, List.map_nil, colName, bucketCol, simpleCol,
    emptyStr, lraRowL, List.headD_cons, List.head?_cons, Option.map_some, Option.getD_some] at hval ⊢
  rw [hval]
  have hsc := lraL_scope o env fn d hd j e0
  simp only [lraColsL, lraCols, List.cons_append, List.nil_append, bucketCol, simpleCol, emptyStr] at hsc
  have hal := lraL_aliasVals o env fn d hd j e0
  simp only [lraColsL, lraCols, List.cons_append, List.nil_append, bucketCol, simpleCol, emptyStr] at hal
  simp only [hsc, hal]
  simp [evalAgg, aggCall, anyAgg, evalE, evalEs, List.filter, Row.get_cons, q1, q2, q3, mulVal, bucketOf, hd0, ← hk1, ← hk2]

/-- **range stage (LRAPlanner with labels).** Over the entries of `agg_a` (the last run, line column renamed), the select
    returns one row per (series, range bucket) in order of first occurrence: the range function of the direct reading over
    the bucket's entries, and the labels of the series. -/
theorem lraL_eval (o : Oracles) (db : Db) (env : Env) (fn : RangeFn) (d : Nat) (hd : 0 < d) (j : Bool)
    (E : List EntryX) (hA : env.lookup (.named "agg_a") = some (E.map (rowSN j "_string" vNull)))
    (hv : Option Expr) :
    evalBodyA o db env (lraBodyL fn d hv) = havingFilter o env hv ((lraPtsX fn d E).map lraRowL) := by
  unfold lraBodyL
  rw [evalBodyA_grouped o db env [] (lraColsL fn d) _ (E.map (fun e => qualify "time_series" (rowSN j "_string" vNull e)))
    (by simp [sourceRowsA, hA]) _ rfl]
  congr 1
  rw [groupsBy_map]
  have hkey : ∀ e ∈ E, gkey o env (lraColsL fn d) [.raw "fingerprint", .raw "timestamp_ns"]
        (qualify "time_series" (rowSN j "_string" vNull e)) =
      (fun (k : Int × Int) => [Val.int k.1, Val.int k.2]) (lraKeyX d e) := by
    intro e _
    unfold gkey
    rw [lraL_aliasVals o env fn d hd]
    simp [evalE, Row.get, List.lookup, lraKeyX]
  rw [groupsBy_congr _ _ E hkey, groupsBy_enc (lraKeyX d) (fun (k : Int × Int) => [Val.int k.1, Val.int k.2])
    (by intro a b h; simp at h; exact Prod.ext h.1 h.2)]
  unfold lraPtsX
  simp only [List.map_map]
  apply List.map_congr_left
  intro g hg
  obtain ⟨⟨e0, rest, hgr, hk0⟩, _⟩ := groupsBy_head (lraKeyX d) E g hg
  simp only [Function.comp_apply]
  exact lraL_group_row o env fn d hd j g.1 g.2 e0 rest hgr hk0

theorem lraRowL_rep (pts : List Pt) : Rep (pts.map lraRowL) pts := by
  apply rep_of_map
  intro p _
  refine ⟨by simp [rview, Pt.view, lraRowL, Row.get, List.lookup, numOf?], ?_⟩
  intro q hq
  simp only [lraRowL, List.mem_cons, List.not_mem_nil, or_false] at hq
  rcases hq with rfl | rfl | rfl | rfl | rfl <;> simp [Std5]


/-! ### the range phase of a plain range function over a selector with label-rewriting stages -/
theorem optCmp_eq (cm : Option Comparison) (s : Sel) : optCmp cm s = cmpOpt cm s := rfl

theorem setWiths_setWiths (s : Sel) (a b : List (Alias × Sel)) : (s.setWiths a).setWiths b = s.setWiths b := by cases s; rfl

/-- what `LRAPlanner` makes of the last run: the line column renamed -/
theorem renamed_eq (c : Ctx) (src : Option Nat) (rid : Nat) (r : Run) (h : src = none → r.isCh = true)
    (W : List (Alias × Sel)) :
    ((runSelM c src rid r).1.setWiths W).setCols (renameCol ((runSelM c src rid r).1.setWiths W).cols "string" "_string") =
      (runSelG c src rid r "_string" (.raw "samples.value")).setWiths W := by
  rw [runSelM_eq c src rid r h]
  cases src with
  | none =>
    cases r with
    | fl fs => simp [Run.isCh] at h
    | ch cs => simp [runSelG, Sel.setWiths, Sel.setCols, Sel.cols, renameCol, colsJG]
  | some k =>
    cases r with
    | ch cs => simp [runSelG, Sel.setWiths, Sel.setCols, Sel.cols, renameCol, colsRchG]
    | fl fs => simp [runSelG, Sel.setWiths, Sel.setCols, Sel.cols, renameCol, colsRflG]

theorem lraSel_labelled (fn : RangeFn) (d : Nat) (cm : Option Comparison) (main : Sel) :
    cmpOpt cm (lraSel fn d true main) =
      (lraBodyL fn d (cmpHaving cm)).with_ [(.named "agg_a", main.setCols (renameCol main.cols "string" "_string"))] := by
  have : lraSel fn d true main = (lraBodyL fn d none).with_ [(.named "agg_a", main.setCols (renameCol main.cols "string" "_string"))] := rfl
  rw [this]
  unfold lraBodyL Sel.with_
  simp only [Sel.setWiths]
  rw [cmpOpt_eq]

/-- the WITH names of the source statement, without the `fp_sel` chain -/
def srcAls (id0 n : Nat) : List Alias := [.named "main", .named "_time_series"] ++ subAls id0 n

theorem srcWiths_rest (c : Ctx) (r : RangeAggX) :
    srcWiths c r = fpWiths c r.sel ++ ([(.named "main", mainSorted c r.sel),
      (.named "_time_series", (timeSeriesSel c).setWiths (fpWiths c r.sel))] ++ (runsPlan c r).1) := by
  unfold srcWiths baseWiths
  rw [List.append_assoc]

theorem named_notin_srcAls (id0 n : Nat) (x : String) (h1 : x ≠ "main") (h2 : x ≠ "_time_series") :
    Alias.named x ∉ srcAls id0 n := by
  unfold srcAls
  simp only [List.mem_append, List.mem_cons, List.not_mem_nil, or_false, Alias.named.injEq, not_or]
  refine ⟨⟨h1, h2⟩, ?_⟩
  intro hm
  obtain ⟨i, _, he⟩ := (mem_subAls _ _ _).mp hm
  cases he

/-- the evaluation of the last run's SELECT in general form, as part of the source statement -/
theorem lastRun_eval {o : Oracles} {c : MCtx} {d : LokiDb} {r : RangeAggX} {init : List Run} {rlast : Run} {src' : Option Nat}
    {rid' : Nat} (F : SourceFacts o c d r init rlast src' rid') (sn : String) (hsn : sn = "string" ∨ sn = "_string")
    (ve : Expr) (hve : hasAgg ve = false) (v : EntryX → Val)
    (hv : ∀ (env : Env) (e : EntryX) (ρ : Row), ρ.get "samples.labels" = .map e.labels → ρ.get "samples.string" = .str e.line →
      ρ.get "samples.value" = .null → evalE o env ρ ve = v e) :
    evalSelA o (d.toDbM c) ((runSelG c.toCtx src' rid' rlast sn ve).setWiths (srcWiths c.toCtx r)) =
      (entriesX o c.toCtx d r).map (rowSN src'.isNone sn (if rlast.isCh then vNull else v)) := by
  have hb : isBitSetHaving ((runSelG c.toCtx src' rid' rlast sn ve).setWiths (srcWiths c.toCtx r)).having = false := by
    cases src' <;> cases rlast <;> rfl
  rw [evalSelA_eq, evalBodyM_eq_A _ _ _ _ hb]
  unfold envOf
  rw [withs_setWiths, runSelG_evalA o c.toCtx (d.toDbM c) d r.sel _ src' _ F.src rid' rlast F.first F.chne sn hsn ve hve v
    (hv _) _, F.entries]

theorem named_notin_srcWiths {o : Oracles} {c : MCtx} {d : LokiDb} {r : RangeAggX} {init : List Run} {rlast : Run}
    {src' : Option Nat} {rid' : Nat} (F : SourceFacts o c d r init rlast src' rid') (x : String)
    (h0 : x ≠ "fp_sel") (h1 : x ≠ "main") (h2 : x ≠ "_time_series") : Alias.named x ∉ als (srcWiths c.toCtx r) := by
  rw [F.alsEq]
  intro hmem
  rcases List.mem_append.mp hmem with h | h
  · rcases (baseWiths_als c.toCtx r.sel).2 _ h with h' | h' | h' | ⟨j, _, h'⟩
    · exact h0 (Alias.named.inj h')
    · exact h1 (Alias.named.inj h')
    · exact h2 (Alias.named.inj h')
    · cases h'
  · obtain ⟨i, _, he⟩ := (mem_subAls _ _ _).mp h
    cases he

/-- **range phase, plain range function over a selector with label-rewriting stages.** After `planSpl` (the runs),
    `LRAPlanner` with labels and the optional comparison, the statement holds the points of the direct reading's range stage:
    one per (series of the rewritten label set, range bucket), with the labels of the series. -/
theorem lraXPhase_ok (o : Oracles) (c : MCtx) (hn : c.namesOk) (d : LokiDb) (r : RangeAggX) (hm : r.sel.matchers.length ≤ 63)
    (fn : RangeFn) (hk : r.kind = .lra fn) (ch : Changer) (more : List StageX) (hpost : r.post = .ch ch :: more)
    (hd : 0 < r.durNs) :
    ∃ n, (runsSource c.toCtx r).id = (labelConds r.sel).length + n ∧
      PStage o c d r.sel (optCmp r.cmp (lraSel fn r.durNs true (runsSource c.toCtx r).sel))
        (cmpStage r.cmp (lraPtsX fn r.durNs (entriesX o c.toCtx d r)))
        (srcAls (labelConds r.sel).length n ++ [.named "agg_a"]) := by
  obtain ⟨init, rlast, src', rid', F⟩ := source_facts o c hn d r hm ch more hpost
  refine ⟨init.length, by rw [runsSource_eq]; exact F.id, ?_⟩
  rw [optCmp_eq, lraSel_labelled, runsSource_eq]
  simp only
  rw [F.last, renamed_eq c.toCtx src' rid' rlast F.first]
  have hw : ((runSelG c.toCtx src' rid' rlast "_string" (.raw "samples.value")).setWiths (srcWiths c.toCtx r)).withs =
      srcWiths c.toCtx r := withs_setWiths _ _
  have hfresh : Alias.named "agg_a" ∉ als (srcWiths c.toCtx r) :=
    named_notin_srcWiths F "agg_a" (by decide) (by decide) (by decide)
  obtain ⟨h1, h2, h3, _⟩ := wrap_one o (d.toDbM c) (lraBodyL fn r.durNs (cmpHaving r.cmp)) _ (.named "agg_a")
    (by rw [hw]; exact F.nodup) (by rw [hw]; exact hfresh) (cmpHaving_notBitSet r.cmp)
  refine ⟨⟨_, by rw [h1, hw, srcWiths_rest, List.append_assoc], ?_⟩, h2, ?_⟩
  · rw [als_append, als_append]
    unfold runsPlan srcAls
    have := F.alsEq
    unfold srcWiths at this
    rw [als_append] at this
    have h4 := List.append_cancel_left this
    rw [show als (runsPlan c.toCtx r).1 = als (planRunsM c.toCtx none (labelConds r.sel).length 1 (runsOf r)).1 from rfl] at h4
    rw [h4]
    rfl
  · rw [h3, lastRun_eval F "_string" (Or.inr rfl) (.raw "samples.value") rfl vNull
      (by intro env e ρ _ _ h; simpa [evalE_raw, vNull] using h)]
    have hv : (fun e => if rlast.isCh = true then vNull e else vNull e) = vNull := by funext e; split <;> rfl
    have hrows : (List.map (rowSN src'.isNone "_string" fun e => if rlast.isCh = true then vNull e else vNull e)
        (entriesX o c.toCtx d r)) = (entriesX o c.toCtx d r).map (rowSN src'.isNone "_string" vNull) := by rw [hv]
    have hrows' : (List.map (rowSN src'.isNone "_string" (if rlast.isCh = true then vNull else vNull))
        (entriesX o c.toCtx d r)) = (entriesX o c.toCtx d r).map (rowSN src'.isNone "_string" vNull) := by
      cases rlast.isCh <;> rfl
    rw [hrows']
    rw [lraL_eval o (d.toDbM c) _ fn r.durNs hd src'.isNone (entriesX o c.toCtx d r) (by simp [List.lookup])]
    exact having_rep o _ r.cmp _ _ (lraRowL_rep _)


/-! ### the source of an unwrapped / quantile range aggregation: entry points with their unwrapped value -/
/-- the value column `UnwrapPlanner.processSimple` writes on a renewed SELECT -/
def uwValX (label : String) : Expr :=
  .call "toFloat64OrZero" [if label = "_entry" then .raw "samples.string" else .mapAt (.raw "samples.labels") label.toUTF8.toList]

theorem unwrapSel_fl (c : Ctx) (k rid : Nat) (fs : List Stage) (label : String) (W : List (Alias × Sel)) :
    unwrapSel label ((runSelM c (some k) rid (.fl fs)).1.setWiths W) =
      (runSelG c (some k) rid (.fl fs) "string" (uwValX label)).setWiths W := by
  rw [runSelM_eq c (some k) rid (.fl fs) (by intro h; cases h)]
  by_cases hl : label = "_entry" <;>
    simp [unwrapSel, runSelG, Sel.setWiths, Sel.setCols, Sel.cols, patchCol, getCol, colsRflG, uwValX, hl]

theorem uwValX_eval (o : Oracles) (env : Env) (label : String) (e : EntryX) (ρ : Row)
    (h1 : ρ.get "samples.labels" = .map e.labels) (h2 : ρ.get "samples.string" = .str e.line) :
    evalE o env ρ (uwValX label) = .rat (unwrapOfX o label e) := by
  unfold uwValX unwrapOfX
  by_cases hl : label = "_entry"
  · simp [hl, evalE, evalEs, h2]
  · simp [hl, evalE, evalEs, h1]

theorem entryRows_rep (o : Oracles) (label : String) (j : Bool) (E : List EntryX) :
    Rep (E.map (rowSN j "string" (fun e => .rat (unwrapOfX o label e)))) (E.map (entryPtX o label)) := by
  refine ⟨?_, ?_⟩
  · rw [List.map_map, List.map_map]
    apply List.map_congr_left
    intro e _
    cases j <;> simp [rview, Pt.view, rowSN, entryPtX, Row.get, List.lookup, numOf?]
  · intro r hr
    obtain ⟨e, _, rfl⟩ := List.mem_map.mp hr
    intro p hp
    cases j <;>
    · simp only [rowSN, Bool.false_eq_true, if_false, if_true, List.mem_cons, List.not_mem_nil, or_false] at hp
      rcases hp with rfl | rfl | rfl | rfl | rfl <;> simp [Std5]


theorem hasAgg_uwValX (label : String) : hasAgg (uwValX label) = false := by
  unfold uwValX
  by_cases hl : label = "_entry" <;> simp [hl, hasAgg, aggNames]

theorem srcAls_zero (id0 : Nat) : srcAls id0 0 = [.named "main", .named "_time_series"] := by
  simp [srcAls, subAls]

/-- **the samples side of an unwrapped / quantile range aggregation of the labelled path**: one row per entry the
    selector's pipeline lets through, in timestamp order: its series, its labels, its timestamp, its unwrapped value -/
theorem uwSource_ok (o : Oracles) (c : MCtx) (hn : c.namesOk) (d : LokiDb) (r : RangeAggX) (hm : r.sel.matchers.length ≤ 63)
    (label : String) (hl : r.kind.label? = some label) (hpost : r.post = [] ∨ ∃ ch more, r.post = .ch ch :: more) :
    ∃ n, (sourceX c.toCtx r).id = (labelConds r.sel).length + n ∧
      PStage o c d r.sel (sourceX c.toCtx r).sel (entryPtsX o c.toCtx d r label) (srcAls (labelConds r.sel).length n) ∧
      hasColumn (sourceX c.toCtx r).sel.cols "labels" = true := by
  rcases hpost with hp | ⟨ch, more, hp⟩
  · -- no label-rewriting stage: the select of `LogQL.splSel`
    refine ⟨0, by simp [sourceX, hp, hl], ?_, ?_⟩
    rotate_left
    · simp only [sourceX, hp, hl]
      rw [show unwrapSel label (labelsJoin c.toCtx r.sel (mainOrdered c.toCtx r.sel)) = _ from
        splSel_unwrap c (.range ⟨.unwrap .sumOT label, r.sel, r.durNs, none, none, none⟩) .sumOT label rfl]
      simp [uwJoinBody, uwJoinCols, Sel.cols, hasColumn, simpleCol]
    have hsel : (sourceX c.toCtx r).sel = uwJoinBody c.toCtx label (fpWiths c.toCtx r.sel ++
        [(.named "main", mainSorted c.toCtx r.sel),
         (.named "_time_series", (timeSeriesSel c.toCtx).setWiths (fpWiths c.toCtx r.sel))]) := by
      have := splSel_unwrap c (.range ⟨.unwrap .sumOT label, r.sel, r.durNs, none, none, none⟩) .sumOT label rfl
      simp only [sourceX, hp, hl]
      exact this
    have hpts : entryPtsX o c.toCtx d r label = (sortedMatches o c.toCtx d r.sel).map (entryPt o c.toCtx d r.sel label) := by
      simp only [entryPtsX, hp, limited0]
      rfl
    rw [hsel, hpts, srcAls_zero]
    obtain ⟨T, rest, hE, hT⟩ := fpWiths_eval o c hn d r.sel hm
    refine ⟨⟨_, rfl, rfl⟩, ?_, ?_⟩
    · have := (baseWiths_als c.toCtx r.sel).1
      simpa [uwJoinBody, Sel.withs, baseWiths] using this
    · rw [evalSelA_eq, evalBodyM_eq_A _ _ _ _ (by rfl)]
      unfold envOf
      simp only [uwJoinBody, Sel.withs]
      rw [evalWithsA_append, hE]
      simp only [evalWithsA]
      rw [evalBodyM_eq_A _ _ _ (mainSorted c.toCtx r.sel) (by rfl),
        mainSorted_eval o c hn d r.sel _ T (by simp [List.lookup]) hT,
        evalBodyM_eq_A _ _ _ ((timeSeriesSel c.toCtx).setWiths (fpWiths c.toCtx r.sel)) (by rfl),
        timeSeriesA_eval o c hn d r.sel _ T (by simp [List.lookup]) hT]
      exact uwJoin_eval o c d r.sel _ label _ _ (by simp [List.lookup, sortedMatches]) (by simp [List.lookup])
  · obtain ⟨init, rlast, src', rid', F⟩ := source_facts o c hn d r hm ch more hp
    have huw : rlast.isCh = false := F.uw (by rw [hl]; rfl)
    obtain ⟨fs, rfl⟩ : ∃ fs, rlast = .fl fs := by
      cases rlast with
      | ch cs => simp [Run.isCh] at huw
      | fl fs => exact ⟨fs, rfl⟩
    obtain ⟨k, rfl⟩ : ∃ k, src' = some k := by
      cases src' with
      | none => have := F.first rfl; simp [Run.isCh] at this
      | some k => exact ⟨k, rfl⟩
    have hid : (sourceX c.toCtx r).id = (labelConds r.sel).length + init.length := by
      simp only [sourceX, hp, hl, runsSource_eq]; exact F.id
    have hsel : (sourceX c.toCtx r).sel =
        (runSelG c.toCtx (some k) rid' (.fl fs) "string" (uwValX label)).setWiths (srcWiths c.toCtx r) := by
      simp only [sourceX, hp, hl, runsSource_eq]
      rw [F.last, unwrapSel_fl]
    have hpts : entryPtsX o c.toCtx d r label = (entriesX o c.toCtx d r).map (entryPtX o label) := by
      simp only [entryPtsX, hp]
    refine ⟨init.length, hid, ?_, by
      rw [hsel]; simp [runSelG, Sel.setWiths, Sel.cols, colsRflG, hasColumn]⟩
    rw [hsel, hpts]
    refine ⟨⟨_, by rw [withs_setWiths, srcWiths_rest], ?_⟩, by rw [withs_setWiths]; exact F.nodup, ?_⟩
    · have := F.alsEq
      unfold srcWiths at this
      rw [als_append] at this
      unfold baseWiths at this
      rw [als_append, List.append_assoc, List.append_assoc] at this
      have h4 := List.append_cancel_left (List.append_cancel_left this)
      rw [als_append]
      unfold srcAls
      rw [← h4]
      simp [als]
    · rw [lastRun_eval F "string" (Or.inl rfl) (uwValX label) (hasAgg_uwValX label) (fun e => .rat (unwrapOfX o label e))
        (fun env e ρ h1 h2 _ => uwValX_eval o env label e ρ h1 h2)]
      exact entryRows_rep o label false _

end Qryn.LogQL
