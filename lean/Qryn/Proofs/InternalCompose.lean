import Qryn.Proofs.InternalParams
/-! Pieces of the whole-plan composition (Props/C09 `plan_meets_logql`): what reaches the aggregators on the
    specification side, the hypotheses of the composition stated there, by/without and comparison over batches,
    and the derivation of "fingerprint ↔ label set" from a hash-collision hypothesis. Core only. -/
namespace Qryn.Read
open Qryn Qryn.Sql Qryn.LogQL Qryn.LogQL.Stages

variable {V : Type}

/-- the series identity the engine groups by (the fingerprint) coincides with the label set on these entries -/
def FpFaithful (es : List (Entry V)) : Prop := ∀ a ∈ es, ∀ b ∈ es, (a.fp = b.fp ↔ a.labels = b.labels)

/-- every entry's series identity is the in-process fingerprint of its label set (true after any stage that
    rewrites labels: parser, label_format, drop, by/without) -/
def Hashed (E : Env V) (es : List (Entry V)) : Prop := ∀ e ∈ es, e.fp = fingerprint E.hash e.labels

/-- **the hash-collision hypothesis**: among these label sets no two different ones get the same fingerprint
    (`fingerprint` = CityHash64 of the sum, xor and product of the CityHash64 of the length-prefixed pairs) -/
def NoCollision (E : Env V) (ls : List Labels) : Prop :=
  ∀ a ∈ ls, ∀ b ∈ ls, fingerprint E.hash a = fingerprint E.hash b → a = b

theorem fpFaithful_of_hashed (E : Env V) (es : List (Entry V)) (hh : Hashed E es)
    (hc : NoCollision E (es.map (·.labels))) : FpFaithful es := by
  intro a ha b hb
  constructor
  · intro h
    apply hc a.labels (List.mem_map_of_mem ha) b.labels (List.mem_map_of_mem hb)
    rw [← hh a ha, ← hh b hb, h]
  · intro h
    rw [hh a ha, hh b hb, h]

/-! ### which stages establish `Hashed`, and all keep it -/
def StageK.relabels : StageK V → Bool
  | .parser _ | .labelFormat _ | .drop _ _ => true
  | _ => false

theorem stage_relabels_hashed (E : Env V) (s : StageK V) (hs : s.relabels = true) (es : List (Entry V)) :
    Hashed E (stage E s es) := by
  intro e he
  cases s with
  | parser k =>
    simp only [stage, parserStage, List.mem_map] at he
    obtain ⟨x, _, rfl⟩ := he; rfl
  | labelFormat ops =>
    simp only [stage, labelFormatStage, List.mem_map] at he
    obtain ⟨x, _, rfl⟩ := he; rfl
  | drop ns vs =>
    simp only [stage, dropStage, List.mem_map] at he
    obtain ⟨x, _, rfl⟩ := he; rfl
  | line _ _ => simp [StageK.relabels] at hs
  | labelFilter _ => simp [StageK.relabels] at hs
  | lineFormat _ => simp [StageK.relabels] at hs
  | unwrap _ => simp [StageK.relabels] at hs

theorem stage_keeps_hashed (E : Env V) (s : StageK V) (es : List (Entry V)) (hh : Hashed E es) :
    Hashed E (stage E s es) := by
  by_cases hs : s.relabels = true
  · exact stage_relabels_hashed E s hs es
  · intro e he
    cases s with
    | parser k => simp [StageK.relabels] at hs
    | labelFormat ops => simp [StageK.relabels] at hs
    | drop ns vs => simp [StageK.relabels] at hs
    | line op val =>
      simp only [stage, lineStage, List.mem_filter] at he
      exact hh e he.1
    | labelFilter c =>
      simp only [stage, labelStage, List.mem_filter] at he
      exact hh e he.1
    | lineFormat t =>
      simp only [stage, lineFormatStage, List.mem_filterMap] at he
      obtain ⟨x, hx, hxe⟩ := he
      cases ht : E.tpl t (x.labels.set entryKey x.msg) with
      | none => simp [ht] at hxe
      | some out =>
        simp only [ht, Option.map_some, Option.some.injEq] at hxe
        subst hxe
        exact hh x hx
    | unwrap l =>
      simp only [stage, unwrapStage, List.mem_map] at he
      obtain ⟨x, hx, hxe⟩ := he
      subst hxe
      have := hh x hx
      split <;> exact this

theorem stages_hashed (E : Env V) (ss : List (StageK V)) (es : List (Entry V))
    (h : (∃ s ∈ ss, s.relabels = true) ∨ Hashed E es) : Hashed E (stages E ss es) := by
  induction ss generalizing es with
  | nil =>
    rcases h with ⟨s, hs, _⟩ | h
    · cases hs
    · exact h
  | cons s ss ih =>
    simp only [stages, List.foldl_cons]
    apply ih
    rcases h with ⟨t, ht, htr⟩ | h
    · rcases List.mem_cons.mp ht with e | hm
      · right; subst e; exact stage_relabels_hashed E t htr es
      · left; exact ⟨t, hm, htr⟩
    · right; exact stage_keeps_hashed E s es h

theorem optByWithout_hashed (E : Env V) (b : Option ByWithout) (es : List (Entry V)) (hh : Hashed E es) :
    Hashed E (optByWithout E b es) := by
  cases b with
  | none => exact hh
  | some bw =>
    intro e he
    simp only [optByWithout, byWithoutStage, List.mem_map] at he
    obtain ⟨x, _, rfl⟩ := he; rfl

/-! ### what `aggregate` emits -/
theorem aggregate_mem {κ : Type} [DecidableEq κ] (key : Entry V → κ) (g : Grid) (v : List (Entry V) → V)
    (es : List (Entry V)) (e : Entry V) (he : e ∈ (aggregate key g v es).flatten) :
    e.err = none ∧ ∃ r ∈ es, e.fp = r.fp ∧ e.labels = r.labels := by
  simp only [aggregate, List.mem_flatten, List.mem_filter, List.mem_map] at he
  obtain ⟨b, ⟨⟨r, hr, hb⟩, _⟩, heb⟩ := he
  subst hb
  simp only [List.mem_filterMap] at heb
  obtain ⟨i, _, hi⟩ := heb
  split at hi
  · cases hi
  · have := Option.some.inj hi
    subst this
    exact ⟨rfl, r, firstBy_subset _ es r hr, rfl, rfl⟩

theorem optCompare_mem (N : NumOps V) (c : Option (CmpOp × V)) (bs : List (List (Entry V))) (e : Entry V)
    (he : e ∈ (optCompare N c bs).flatten) : e ∈ bs.flatten := by
  cases c with
  | none => exact he
  | some ov =>
    obtain ⟨op, v⟩ := ov
    simp only [optCompare, List.mem_flatten, List.mem_map] at he ⊢
    obtain ⟨l, ⟨b, hb, hl⟩, hel⟩ := he
    subst hl
    exact ⟨b, hb, (List.mem_filter.mp hel).1⟩

/-! ### by/without and comparison over batches -/
theorem runByWithout_flatten (E : Env V) (b : Option ByWithout) (bs : Batches V) (hp : ∀ e ∈ bs.flatten, e.err = none) :
    (runByWithout E b bs).flatten = optByWithout E b bs.flatten := by
  cases b with
  | none => rfl
  | some bw => simp only [runByWithout, optByWithout, run_mapOps, flatten_map_map, byWithout_meets E bw.isBy bw.names _ hp]

theorem runCmp_eq (E : Env V) (c : Option (CmpOp × V)) (bs : Batches V) : runCmp E c bs = optCompare E.num c bs := by
  cases c with
  | none => rfl
  | some ov =>
    obtain ⟨op, v⟩ := ov
    simp only [runCmp, optCompare, run_accOps]
    apply List.map_congr_left
    intro b _
    exact comparison_meets E.num op v b

/-! ### a function name the engine has no case for: nothing is ever counted, nothing is emitted -/
theorem foldl_idle (fn : AggFn V) (hidle : ∀ c e, fn.step c e = c) (l : List (Entry V)) (c : Cell V) : l.foldl fn.step c = c := by
  induction l generalizing c with
  | nil => rfl
  | cons x xs ih => simp only [List.foldl_cons, hidle, ih]

theorem emit_idle (N : NumOps V) (g : Grid) (fn : AggFn V) (hidle : ∀ c e, fn.step c e = c) (l : List (Entry V)) (r : Entry V) :
    emitStream g fn (streamOf N g fn l r).1 (streamOf N g fn l r).2 = [] := by
  simp only [emitStream, streamOf, foldl_idle fn hidle]
  rw [List.filterMap_eq_nil_iff]
  intro ci hci
  have hm := List.mem_zipIdx' hci
  have : ci.1 = ((N.zero, 0) : Cell V) := by
    rw [hm.2]; simp
  simp [this]

theorem run_aggOps_idle (N : NumOps V) (M : Nat) (g : Grid) (fn : AggFn V) (hidle : ∀ c e, fn.step c e = c)
    (bs : List (List (Entry V))) (hp : ∀ e ∈ bs.flatten, e.err = none)
    (hcap : (firstBy (fun e : Entry V => e.fp) bs.flatten).length ≤ M) :
    run N (aggOps N M g fn) [] bs = [] := by
  rw [run_collect N _ (aggOps_afterSlice N M g fn)]
  have := runBatch_aggOps N M g fn [] bs.flatten hp (by simpa using hcap)
  rw [stateOf_nil] at this
  rw [this]
  simp only [List.nil_append, aggOps, stateOf, List.map_map]
  rw [List.filter_eq_nil_iff]
  intro b hb
  simp only [List.mem_map, Function.comp] at hb
  obtain ⟨r, _, hr⟩ := hb
  rw [← hr, emit_idle N g fn hidle]
  simp

/-! ### the specification-side streams the hypotheses of the composition speak about -/
/-- the stream that reaches the range aggregation: the stages' output, cut by `by/without` before an unwrap aggregation -/
def aggInput (E : Env V) (p : Plan V) (es : List (Entry V)) : List (Entry V) :=
  match p.agg with
  | some (.unwrap _, _) => optByWithout E p.aggBy (stages E p.stages es)
  | _ => stages E p.stages es

/-- the samples of the range aggregation after its comparison -/
def rangeResult (E : Env V) (c : Read.Ctx) (p : Plan V) (es : List (Entry V)) : Batches V :=
  evalPlan E c { p with vec := none } es

/-- the stream that reaches the vector aggregation (empty when the plan has none) -/
def vecInput (E : Env V) (c : Read.Ctx) (p : Plan V) (es : List (Entry V)) : List (Entry V) :=
  match p.vec with
  | some (_, bw, _) => optByWithout E bw (rangeResult E c p es).flatten
  | none => []

/-- what the composition theorem assumes about a metric plan and the flat input: the series reaching each
    aggregator fit under the cap, and on those streams fingerprints identify label sets -/
structure MetricOk (E : Env V) (c : Read.Ctx) (p : Plan V) (es : List (Entry V)) : Prop where
  cap : (firstBy (fun e : Entry V => e.fp) (aggInput E p es)).length ≤ c.maxSeries
  faithful : FpFaithful (aggInput E p es)
  capVec : (firstBy (fun e : Entry V => e.fp) (vecInput E c p es)).length ≤ c.maxSeries
  faithfulVec : FpFaithful (vecInput E c p es)

theorem aggInput_hashed (E : Env V) (p : Plan V) (es : List (Entry V)) (hr : ∃ s ∈ p.stages, s.relabels = true) :
    Hashed E (aggInput E p es) := by
  have hs := stages_hashed E p.stages es (Or.inl hr)
  unfold aggInput
  split
  · exact optByWithout_hashed E _ _ hs
  · exact hs

theorem rangeResult_mem (E : Env V) (c : Read.Ctx) (p : Plan V) (es : List (Entry V)) (hm : p.agg.isSome = true)
    (e : Entry V) (he : e ∈ (rangeResult E c p es).flatten) :
    e.err = none ∧ ∃ r ∈ aggInput E p es, e.fp = r.fp ∧ e.labels = r.labels := by
  obtain ⟨⟨k, dur⟩, hk⟩ := Option.isSome_iff_exists.mp hm
  unfold rangeResult evalPlan at he
  unfold aggInput
  simp only [hk] at he ⊢
  have he' := optCompare_mem E.num _ _ e he
  cases k with
  | range fn =>
    simp only at he' ⊢
    split at he'
    · exact aggregate_mem _ _ _ _ e he'
    · simp at he'
  | unwrap fn =>
    simp only at he' ⊢
    split at he'
    · exact aggregate_mem _ _ _ _ e he'
    · simp at he'

theorem vecInput_hashed (E : Env V) (c : Read.Ctx) (p : Plan V) (es : List (Entry V)) (hm : p.agg.isSome = true)
    (hr : ∃ s ∈ p.stages, s.relabels = true) : Hashed E (vecInput E c p es) := by
  unfold vecInput
  split
  · apply optByWithout_hashed
    intro e he
    obtain ⟨_, r, hr', hfp, hl⟩ := rangeResult_mem E c p es hm e he
    rw [hfp, hl]
    exact aggInput_hashed E p es hr r hr'
  · intro e he; cases he

/-- **from the hash-collision hypothesis to the hypotheses of the composition**: when the in-process part of the
    pipeline contains a stage that rewrites labels (every split at `json`/`logfmt` does: the first in-process stage is
    that parser), fingerprints are recomputed from the label sets, so "fingerprint ↔ label set" on the streams that
    reach the aggregators follows from: no two *different* label sets among them collide. -/
theorem metricOk_of_noCollision (E : Env V) (c : Read.Ctx) (p : Plan V) (es : List (Entry V)) (hm : p.agg.isSome = true)
    (hr : ∃ s ∈ p.stages, s.relabels = true)
    (hcap : (firstBy (fun e : Entry V => e.fp) (aggInput E p es)).length ≤ c.maxSeries)
    (hcapVec : (firstBy (fun e : Entry V => e.fp) (vecInput E c p es)).length ≤ c.maxSeries)
    (hnc : NoCollision E ((aggInput E p es).map (·.labels)))
    (hncVec : NoCollision E ((vecInput E c p es).map (·.labels))) : MetricOk E c p es :=
  ⟨hcap, fpFaithful_of_hashed E _ (aggInput_hashed E p es hr) hnc, hcapVec,
   fpFaithful_of_hashed E _ (vecInput_hashed E c p es hm hr) hncVec⟩

end Qryn.Read
