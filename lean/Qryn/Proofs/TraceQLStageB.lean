import Qryn.Proofs.TraceQLStageA
/-! C11, stage B: grouping the selected spans per trace (`IndexGroupByPlanner`, `AggregatorPlanner`). -/
namespace Qryn.TraceQL
open Qryn Qryn.Sql

def grpCols : List Expr :=
  [simpleCol "trace_id" "trace_id", .col (.call "groupArray(100)" [.raw "span_id"]) "span_id"]

/-- `IndexGroupByPlanner` over the index scan `SA`, with the HAVING `AggregatorPlanner` adds and the columns a
    parent `&&` / `||` node adds -/
def grpSel (pfx : String) (extra : List Expr) (hav : Option Expr) (SA : Sel) : Sel :=
  .mk [(.named (pfx ++ "index_search"), SA)] false (grpCols ++ extra)
    (some (.withRef (.named (pfx ++ "index_search")))) [] none none [.raw "trace_id"] hav
    [.orderBy (.call "max" [.raw (pfx ++ "index_search.timestamp_ns")]) .desc] none

/-- span rows: a table that is, up to order, one row per selected span carrying its trace and span id -/
structure SpanRows (A : Table) (M : List SpanKey) (rowOf : SpanKey → Row) : Prop where
  perm : A.Perm (M.map rowOf)
  nodup : M.Nodup
  trace : ∀ k ∈ M, (rowOf k).get "trace_id" = .str k.1
  span : ∀ k ∈ M, (rowOf k).get "span_id" = .str k.2

section
variable (o : Oracles) (ao : AggOracles) (env : Env) (al : String) (A : Table) (M : List SpanKey) (rowOf : SpanKey → Row)

theorem tid_nodot : '.' ∉ "trace_id".toList := by decide
theorem sid_nodot : '.' ∉ "span_id".toList := by decide

/-- the rows of trace `tr` in the qualified span table -/
theorem rowsWith_trace (h : SpanRows A M rowOf) (tr : Bytes) :
    (rowsWith o env (A.map (qualify al)) (.raw "trace_id") (.str tr)).Perm
      (((M.filter (fun k => k.1 == tr)).map rowOf).map (qualify al)) := by
  unfold rowsWith
  rw [List.filter_map]
  apply List.Perm.map
  have h1 : (A.filter ((fun r => evalE o env r (.raw "trace_id") == .str tr) ∘ qualify al)).Perm
      ((M.map rowOf).filter ((fun r => evalE o env r (.raw "trace_id") == .str tr) ∘ qualify al)) := h.perm.filter _
  refine h1.trans ?_
  rw [List.filter_map]
  have : M.filter (((fun r => evalE o env r (.raw "trace_id") == Val.str tr) ∘ qualify al) ∘ rowOf) =
      M.filter (fun k => k.1 == tr) := by
    apply List.filter_congr
    intro k hk
    simp only [Function.comp, evalE, get_qualify_nodot al _ _ tid_nodot, h.trace k hk, val_str_beq]
  rw [this]

theorem tids_mem (h : SpanRows A M rowOf) (v : Val) :
    v ∈ (A.map (qualify al)).map (fun r => evalE o env r (.raw "trace_id")) ↔ ∃ k ∈ M, v = .str k.1 := by
  simp only [List.map_map, List.mem_map, Function.comp]
  constructor
  · rintro ⟨r, hr, rfl⟩
    obtain ⟨k, hk, rfl⟩ := List.mem_map.mp (h.perm.mem_iff.mp hr)
    exact ⟨k, hk, by simp [evalE, get_qualify_nodot al _ _ tid_nodot, h.trace k hk]⟩
  · rintro ⟨k, hk, rfl⟩
    refine ⟨rowOf k, h.perm.mem_iff.mpr (List.mem_map.mpr ⟨k, hk, rfl⟩), ?_⟩
    simp [evalE, get_qualify_nodot al _ _ tid_nodot, h.trace k hk]

end

/-- what a select that returns traces has to satisfy: one row per trace, with a non-empty span array,
    for exactly the traces satisfying `P` -/
structure TraceRows (T : Table) (P : Bytes → Prop) : Prop where
  nodup : (T.map (fun r => r.get "trace_id")).Nodup
  shape : ∀ r ∈ T, ∃ tr vs, r.get "trace_id" = .str tr ∧ r.get "span_id" = .strs vs ∧ vs ≠ []
  mem : ∀ tr, (∃ r ∈ T, r.get "trace_id" = .str tr) ↔ P tr

theorem nodup_map_of_inj_on {α β} (f : α → β) : ∀ (l : List α), l.Nodup → (∀ a ∈ l, ∀ b ∈ l, f a = f b → a = b) →
    (l.map f).Nodup
  | [], _, _ => by simp
  | x :: xs, hn, hinj => by
    rw [List.nodup_cons] at hn
    rw [List.map_cons, List.nodup_cons]
    refine ⟨?_, nodup_map_of_inj_on f xs hn.2 (fun a ha b hb => hinj a (List.mem_cons_of_mem _ ha) b (List.mem_cons_of_mem _ hb))⟩
    intro hm
    obtain ⟨y, hy, hfy⟩ := List.mem_map.mp hm
    have := hinj y (List.mem_cons_of_mem _ hy) x (by simp) hfy
    exact hn.1 (this ▸ hy)

/-- the group of one key value: non-empty, and every row carries the key -/
theorem rowsWith_spec (o : Oracles) (env : Env) (F : Table) (e : Expr) (v : Val)
    (hv : v ∈ F.map (fun r => evalE o env r e)) :
    rowsWith o env F e v ≠ [] ∧ ∀ r ∈ rowsWith o env F e v, evalE o env r e = v := by
  constructor
  · obtain ⟨r, hr, hrv⟩ := List.mem_map.mp hv
    intro h
    have : r ∈ rowsWith o env F e v := by simp [rowsWith, hr, hrv]
    rw [h] at this; simp at this
  · intro r hr
    simp only [rowsWith, List.mem_filter] at hr
    simpa using hr.2

section
variable (o : Oracles) (ao : AggOracles) (db : Db) (env : Env) (pfx : String) (A : Table) (M : List SpanKey) (rowOf : SpanKey → Row)

/-- **stage B**: grouping span rows per trace gives one row per trace that has a selected span and whose
    group passes HAVING -/
theorem stageB (h : SpanRows A M rowOf) (extra : List Expr) (hav : Option Expr) (SA : Sel)
    (henv : env.lookup (.named (pfx ++ "index_search")) = some A)
    (hperm : ∀ g g' : List Row, g.Perm g' → havingG o ao env g hav = havingG o ao env g' hav) :
    TraceRows (evalSelG o ao db false env (grpSel pfx extra hav SA))
      (fun tr => M.filter (fun k => k.1 == tr) ≠ [] ∧
        havingG o ao env (((M.filter (fun k => k.1 == tr)).map rowOf).map (qualify (pfx ++ "index_search"))) hav = true) := by
  unfold grpSel
  rw [evalSelG_grouped]
  simp only [Bool.false_eq_true, if_false]
  have hsrc : sourceRowsG o ao db env (.withRef (.named (pfx ++ "index_search"))) = A.map (qualify (pfx ++ "index_search")) := by
    simp [sourceRowsG, henv, Alias.text]
  have hG := groupsG_single o ao db env (.withRef (.named (pfx ++ "index_search"))) (.raw "trace_id") hav (grpCols ++ extra)
    [.orderBy (.call "max" [.raw (pfx ++ "index_search.timestamp_ns")]) .desc]
  rw [hsrc] at hG
  generalize hF : A.map (qualify (pfx ++ "index_search")) = F at hG
  generalize hVs : dedup (F.map (fun r => evalE o env r (.raw "trace_id"))) = Vs at hG
  have hVmem : ∀ v, v ∈ Vs ↔ ∃ k ∈ M, v = .str k.1 := by
    intro v; rw [← hVs, mem_dedup, ← hF]; exact tids_mem o env _ A M rowOf h v
  have hVnd : Vs.Nodup := by rw [← hVs]; exact nodup_dedup _
  have hT := hG.map (projG o env (grpCols ++ extra))
  rw [List.map_map] at hT
  -- facts about the row of one key value
  have hrow : ∀ v ∈ Vs, (projG o env (grpCols ++ extra) (rowsWith o env F (.raw "trace_id") v)).get "trace_id" = v ∧
      ∃ vs, (projG o env (grpCols ++ extra) (rowsWith o env F (.raw "trace_id") v)).get "span_id" = .strs vs ∧ vs ≠ [] := by
    intro v hv
    have hvF : v ∈ F.map (fun r => evalE o env r (.raw "trace_id")) := by rw [← mem_dedup, hVs]; exact hv
    obtain ⟨hne, hall⟩ := rowsWith_spec o env F (.raw "trace_id") v hvF
    obtain ⟨r0, rest, hg⟩ := List.ne_nil_iff_exists_cons.mp hne
    have hr0 := hall r0 (by rw [hg]; simp)
    constructor
    · simp [projG, grpCols, simpleCol, colName, Row.get, List.lookup, evalGrp, hg]
      simpa [evalE, Row.get] using hr0
    · have hr0F : r0 ∈ F := by
        have : r0 ∈ rowsWith o env F (.raw "trace_id") v := by rw [hg]; simp
        exact (List.mem_filter.mp this).1
      rw [← hF] at hr0F
      obtain ⟨ra, hra, rfl⟩ := List.mem_map.mp hr0F
      obtain ⟨k, hk, rfl⟩ := List.mem_map.mp (h.perm.mem_iff.mp hra)
      refine ⟨(strsOf ((rowsWith o env F (.raw "trace_id") v).map (fun r => evalE o env r (.raw "span_id")))).take 100, ?_, ?_⟩
      · simp [projG, grpCols, simpleCol, colName, Row.get, List.lookup, evalGrp]
      · rw [hg]
        simp [strsOf, evalE, get_qualify_nodot _ _ _ sid_nodot, h.span k hk]
  refine ⟨?_, ?_, ?_⟩
  · -- one row per trace
    have := (hT.map (fun r => r.get "trace_id"))
    refine (List.Perm.nodup_iff this).mpr ?_
    rw [List.map_map]
    apply nodup_map_of_inj_on _ _ (List.Nodup.sublist List.filter_sublist hVnd)
    intro a ha b hb hab
    simp only [Function.comp] at hab
    rw [(hrow a (List.mem_filter.mp ha).1).1, (hrow b (List.mem_filter.mp hb).1).1] at hab
    exact hab
  · intro r hr
    obtain ⟨v, hv, rfl⟩ := List.mem_map.mp (hT.mem_iff.mp hr)
    have hvV := (List.mem_filter.mp hv).1
    obtain ⟨k, _, hk⟩ := (hVmem v).mp hvV
    obtain ⟨h1, vs, h2, h3⟩ := hrow v hvV
    exact ⟨k.1, vs, by simp only [Function.comp]; rw [h1, hk], h2, h3⟩
  · intro tr
    have hcanon := rowsWith_trace o env (pfx ++ "index_search") A M rowOf h tr
    rw [hF] at hcanon
    constructor
    · rintro ⟨r, hr, hrt⟩
      obtain ⟨v, hv, rfl⟩ := List.mem_map.mp (hT.mem_iff.mp hr)
      obtain ⟨hvV, hhav⟩ := List.mem_filter.mp hv
      simp only [Function.comp] at hrt
      rw [(hrow v hvV).1] at hrt
      subst hrt
      obtain ⟨k, hk, hkv⟩ := (hVmem _).mp hvV
      refine ⟨?_, ?_⟩
      · intro hnil
        have : k ∈ M.filter (fun k => k.1 == tr) := by
          simp only [List.mem_filter, hk, true_and]
          have : k.1 = tr := by simpa using hkv.symm
          simp [this]
        rw [hnil] at this; simp at this
      · rw [← hperm _ _ hcanon]; exact hhav
    · rintro ⟨hne, hhav⟩
      obtain ⟨k, hk⟩ := List.exists_mem_of_ne_nil _ hne
      obtain ⟨hkM, hkt⟩ := List.mem_filter.mp hk
      have hkt' : k.1 = tr := by simpa using hkt
      have hvV : Val.str tr ∈ Vs := (hVmem _).mpr ⟨k, hkM, by rw [hkt']⟩
      refine ⟨_, hT.mem_iff.mpr (List.mem_map.mpr ⟨Val.str tr, List.mem_filter.mpr ⟨hvV, ?_⟩, rfl⟩), ?_⟩
      · rw [hperm _ _ hcanon]; exact hhav
      · simp only [Function.comp]; exact (hrow _ hvV).1
end

end Qryn.TraceQL
