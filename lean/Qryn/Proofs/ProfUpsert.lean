import Qryn.Prof.Tree
/-! Generic lemmas about filtered sums and about `upsertBy` / `foldUpsert` (a Go map / find-or-append
    update loop): keys stay duplicate free, and any additive observable of the result, restricted by a
    predicate that is consistent per key, equals the same sum over the inputs. -/
namespace Qryn.Prof

/-! ### filtered sums -/

/-- `Σ_{a ∈ l, Q a} f a` -/
def fsum {α : Type} (l : List α) (Q : α → Bool) (f : α → Int) : Int := ((l.filter Q).map f).sum

section Fsum
variable {α β : Type}

@[simp] theorem fsum_nil (Q : α → Bool) (f : α → Int) : fsum [] Q f = 0 := rfl

theorem fsum_cons (a : α) (l : List α) (Q : α → Bool) (f : α → Int) :
    fsum (a :: l) Q f = (if Q a then f a else 0) + fsum l Q f := by
  unfold fsum
  by_cases h : Q a <;> simp [h]

theorem fsum_append (l₁ l₂ : List α) (Q : α → Bool) (f : α → Int) :
    fsum (l₁ ++ l₂) Q f = fsum l₁ Q f + fsum l₂ Q f := by
  induction l₁ with
  | nil => simp
  | cons a l ih => simp only [List.cons_append, fsum_cons, ih]; omega

theorem fsum_singleton (a : α) (Q : α → Bool) (f : α → Int) :
    fsum [a] Q f = if Q a then f a else 0 := by
  simp [fsum_cons]

theorem fsum_perm {l₁ l₂ : List α} (h : l₁.Perm l₂) (Q : α → Bool) (f : α → Int) :
    fsum l₁ Q f = fsum l₂ Q f := by
  induction h with
  | nil => rfl
  | cons a _ ih => simp only [fsum_cons, ih]
  | swap a b l => simp only [fsum_cons]; omega
  | trans _ _ ih₁ ih₂ => exact ih₁.trans ih₂

theorem fsum_flatMap (l : List β) (g : β → List α) (Q : α → Bool) (f : α → Int) :
    fsum (l.flatMap g) Q f = (l.map (fun b => fsum (g b) Q f)).sum := by
  induction l with
  | nil => rfl
  | cons b l ih => simp only [List.flatMap_cons, fsum_append, ih, List.map_cons, List.sum_cons]

theorem fsum_map (l : List β) (φ : β → α) (Q : α → Bool) (f : α → Int) :
    fsum (l.map φ) Q f = fsum l (fun b => Q (φ b)) (fun b => f (φ b)) := by
  induction l with
  | nil => rfl
  | cons b l ih => simp only [List.map_cons, fsum_cons, ih]

theorem fsum_congr {l : List α} {Q Q' : α → Bool} {f f' : α → Int}
    (hQ : ∀ a ∈ l, Q a = Q' a) (hf : ∀ a ∈ l, Q a = true → f a = f' a) : fsum l Q f = fsum l Q' f' := by
  induction l with
  | nil => rfl
  | cons a l ih =>
    have h1 := hQ a (by simp)
    have ih' := ih (fun x hx => hQ x (by simp [hx])) (fun x hx => hf x (by simp [hx]))
    simp only [fsum_cons, ih', ← h1]
    by_cases hq : Q a
    · simp [hq, hf a (by simp) hq]
    · simp [hq]

theorem fsum_false {l : List α} {Q : α → Bool} (f : α → Int) (h : ∀ a ∈ l, Q a = false) : fsum l Q f = 0 := by
  induction l with
  | nil => rfl
  | cons a l ih =>
    simp only [fsum_cons, h a (by simp), ih (fun x hx => h x (by simp [hx]))]; simp

theorem fsum_add (l : List α) (Q : α → Bool) (f g : α → Int) :
    fsum l Q (fun a => f a + g a) = fsum l Q f + fsum l Q g := by
  induction l with
  | nil => rfl
  | cons a l ih => simp only [fsum_cons, ih]; split <;> omega

theorem fsum_nonneg {l : List α} {Q : α → Bool} {f : α → Int} (h : ∀ a ∈ l, 0 ≤ f a) : 0 ≤ fsum l Q f := by
  induction l with
  | nil => simp
  | cons a l ih =>
    have := ih (fun x hx => h x (by simp [hx]))
    have := h a (by simp)
    simp only [fsum_cons]; split <;> omega

/-- with duplicate-free keys, the sum over the entries with the key of `r ∈ l` is `f r` -/
theorem fsum_key_of_mem {κ : Type} [DecidableEq κ] {l : List α} {key : α → κ}
    (hnd : (l.map key).Nodup) {r : α} (hr : r ∈ l) (f : α → Int) :
    fsum l (fun a => decide (key a = key r)) f = f r := by
  induction l with
  | nil => simp at hr
  | cons a l ih =>
    simp only [List.map_cons, List.nodup_cons, List.mem_map, not_exists, not_and] at hnd
    simp only [fsum_cons]
    rcases List.mem_cons.mp hr with rfl | hr'
    · have : fsum l (fun a => decide (key a = key r)) f = 0 :=
        fsum_false f (fun x hx => by simpa using hnd.1 x hx)
      simp [this]
    · have hne : key a ≠ key r := fun e => hnd.1 r hr' e.symm
      simp [hne, ih hnd.2 hr']

/-- no entry has the key: the sum is 0 -/
theorem fsum_key_of_not_mem {κ : Type} [DecidableEq κ] {l : List α} {key : α → κ} {k : κ}
    (h : k ∉ l.map key) (f : α → Int) : fsum l (fun a => decide (key a = k)) f = 0 :=
  fsum_false f (fun x hx => by
    simp only [decide_eq_false_iff_not]
    intro e; exact h (List.mem_map.mpr ⟨x, hx, e⟩))

end Fsum

/-! ### `upsertBy` -/
section Upsert
variable {α β κ : Type} [DecidableEq κ]

/-- the operations of an upsert respect keys -/
structure KeyLaws (key : α → κ) (kb : β → κ) (mk : β → α) (comb : α → β → α) : Prop where
  key_mk : ∀ b, key (mk b) = kb b
  key_comb : ∀ a b, key (comb a b) = key a

/-- `f`/`g` is an additive observable and `Q`/`Qb` a predicate the update keeps -/
structure ObsLaws (mk : β → α) (comb : α → β → α) (f : α → Int) (g : β → Int) (Q : α → Bool) (Qb : β → Bool) : Prop where
  f_mk : ∀ b, f (mk b) = g b
  f_comb : ∀ a b, f (comb a b) = f a + g b
  Q_mk : ∀ b, Q (mk b) = Qb b
  Q_comb : ∀ a b, Q (comb a b) = Q a

variable {key : α → κ} {kb : β → κ} {mk : β → α} {comb : α → β → α}

theorem any_key_iff (key : α → κ) (m : List α) (k : κ) :
    (m.any (fun a => decide (key a = k))) = true ↔ k ∈ m.map key := by
  simp only [List.any_eq_true, decide_eq_true_eq, List.mem_map]

theorem upsertBy_keys (L : KeyLaws key kb mk comb) (m : List α) (b : β) :
    (upsertBy key kb mk comb m b).map key = if kb b ∈ m.map key then m.map key else m.map key ++ [kb b] := by
  unfold upsertBy
  by_cases h : kb b ∈ m.map key
  · rw [if_pos ((any_key_iff key m (kb b)).mpr h), if_pos h, List.map_map]
    apply List.map_congr_left
    intro a _
    by_cases e : key a = kb b <;> simp [e, L.key_comb]
  · have : ¬ (m.any (fun a => decide (key a = kb b))) = true := fun e => h ((any_key_iff key m (kb b)).mp e)
    rw [if_neg this, if_neg h]; simp [L.key_mk]

theorem upsertBy_nodup (L : KeyLaws key kb mk comb) (m : List α) (b : β) (hnd : (m.map key).Nodup) :
    ((upsertBy key kb mk comb m b).map key).Nodup := by
  rw [upsertBy_keys L]
  by_cases h : kb b ∈ m.map key
  · simpa [h] using hnd
  · simp only [h, if_false]
    exact List.nodup_append.mpr ⟨hnd, by simp, by
      intro a ha b' hb'; simp at hb'; subst hb'; intro e; exact h (e ▸ ha)⟩

theorem foldUpsert_nodup (L : KeyLaws key kb mk comb) (m : List α) (bs : List β) (hnd : (m.map key).Nodup) :
    ((foldUpsert key kb mk comb m bs).map key).Nodup := by
  induction bs generalizing m with
  | nil => exact hnd
  | cons b bs ih => exact ih _ (upsertBy_nodup L m b hnd)

theorem foldUpsert_keys_mem (L : KeyLaws key kb mk comb) (m : List α) (bs : List β) (k : κ) :
    k ∈ (foldUpsert key kb mk comb m bs).map key ↔ k ∈ m.map key ∨ k ∈ bs.map kb := by
  induction bs generalizing m with
  | nil => simp [foldUpsert]
  | cons b bs ih =>
    have := ih (upsertBy key kb mk comb m b)
    simp only [foldUpsert, List.foldl_cons] at this ⊢
    rw [this, upsertBy_keys L]
    by_cases h : kb b ∈ m.map key
    · simp only [h, if_true, List.map_cons, List.mem_cons]
      constructor
      · rintro (h1 | h1)
        · exact Or.inl h1
        · exact Or.inr (Or.inr h1)
      · rintro (h1 | rfl | h1)
        · exact Or.inl h1
        · exact Or.inl h
        · exact Or.inr h1
    · simp only [h, if_false, List.mem_append, List.map_cons, List.mem_cons, List.not_mem_nil, or_false]
      constructor
      · rintro ((h1 | h1) | h1)
        · exact Or.inl h1
        · exact Or.inr (Or.inl h1)
        · exact Or.inr (Or.inr h1)
      · rintro (h1 | h1 | h1)
        · exact Or.inl (Or.inl h1)
        · exact Or.inl (Or.inr h1)
        · exact Or.inr h1

variable {f : α → Int} {g : β → Int} {Q : α → Bool} {Qb : β → Bool}

theorem fsum_update (_L : KeyLaws key kb mk comb) (O : ObsLaws mk comb f g Q Qb)
    (m : List α) (b : β) (k : κ) (q : Bool) (hnd : (m.map key).Nodup) (hk : k ∈ m.map key)
    (hq : ∀ a ∈ m, key a = k → Q a = q) :
    fsum (m.map (fun a => if key a = k then comb a b else a)) Q f = fsum m Q f + (if q then g b else 0) := by
  induction m with
  | nil => simp at hk
  | cons x xs ih =>
    simp only [List.map_cons, List.nodup_cons] at hnd
    simp only [List.map_cons, fsum_cons]
    by_cases e : key x = k
    · -- x is the entry; the rest is untouched
      have hrest : xs.map (fun a => if key a = k then comb a b else a) = xs := by
        have : ∀ a ∈ xs, (if key a = k then comb a b else a) = a := by
          intro a ha
          have : key a ≠ k := fun e' => hnd.1 (List.mem_map.mpr ⟨a, ha, e'.trans e.symm⟩)
          simp [this]
        rw [List.map_congr_left this]; simp
      rw [hrest, if_pos e, O.Q_comb, O.f_comb, hq x (by simp) e]
      cases q <;> simp <;> omega
    · have hk' : k ∈ xs.map key := by
        simp only [List.map_cons, List.mem_cons] at hk
        rcases hk with h | h
        · exact absurd h.symm e
        · exact h
      rw [if_neg e, ih hnd.2 hk' (fun a ha => hq a (by simp [ha]))]; omega

theorem fsum_upsertBy (L : KeyLaws key kb mk comb) (O : ObsLaws mk comb f g Q Qb)
    (m : List α) (b : β) (hnd : (m.map key).Nodup)
    (hq : ∀ a ∈ m, key a = kb b → Q a = Qb b) :
    fsum (upsertBy key kb mk comb m b) Q f = fsum m Q f + (if Qb b then g b else 0) := by
  unfold upsertBy
  by_cases h : kb b ∈ m.map key
  · rw [if_pos ((any_key_iff key m (kb b)).mpr h)]
    exact fsum_update L O m b (kb b) (Qb b) hnd h hq
  · have : ¬ (m.any (fun a => decide (key a = kb b))) = true := fun e => h ((any_key_iff key m (kb b)).mp e)
    rw [if_neg this, fsum_append, fsum_singleton, O.Q_mk, O.f_mk]

theorem mem_upsertBy (L : KeyLaws key kb mk comb) (O : ObsLaws mk comb f g Q Qb)
    (m : List α) (b : β) (a' : α) (h : a' ∈ upsertBy key kb mk comb m b) :
    (∃ a ∈ m, key a' = key a ∧ Q a' = Q a) ∨ (a' = mk b) := by
  unfold upsertBy at h
  split at h
  · obtain ⟨a, ha, rfl⟩ := List.mem_map.mp h
    refine Or.inl ⟨a, ha, ?_⟩
    by_cases e : key a = kb b <;> simp [e, L.key_comb, O.Q_comb]
  · rcases List.mem_append.mp h with h | h
    · exact Or.inl ⟨a', h, rfl, rfl⟩
    · exact Or.inr (by simpa using h)

/-- **group-by preserves filtered sums.** If the predicate is consistent per key among the inputs and with
    the entries already present, the filtered sum over the result is the old sum plus the inputs' sum. -/
theorem fsum_foldUpsert (L : KeyLaws key kb mk comb) (O : ObsLaws mk comb f g Q Qb)
    (m : List α) (bs : List β) (hnd : (m.map key).Nodup)
    (hq : ∀ a ∈ m, ∀ b ∈ bs, key a = kb b → Q a = Qb b)
    (hbs : ∀ b ∈ bs, ∀ b' ∈ bs, kb b = kb b' → Qb b = Qb b') :
    fsum (foldUpsert key kb mk comb m bs) Q f = fsum m Q f + fsum bs Qb g := by
  induction bs generalizing m with
  | nil => simp [foldUpsert]
  | cons b bs ih =>
    have step := fsum_upsertBy L O m b hnd (fun a ha e => hq a ha b (by simp) e)
    have hnd' := upsertBy_nodup L m b hnd
    have hq' : ∀ a ∈ upsertBy key kb mk comb m b, ∀ b' ∈ bs, key a = kb b' → Q a = Qb b' := by
      intro a' ha' b' hb' e
      rcases mem_upsertBy L O m b a' ha' with ⟨a, ha, hk, hQa⟩ | rfl
      · rw [hQa]; exact hq a ha b' (by simp [hb']) (hk ▸ e)
      · rw [O.Q_mk]; rw [L.key_mk] at e; exact hbs b (by simp) b' (by simp [hb']) e
    have := ih (upsertBy key kb mk comb m b) hnd' hq'
      (fun x hx y hy => hbs x (by simp [hx]) y (by simp [hy]))
    simp only [foldUpsert, List.foldl_cons] at this ⊢
    rw [this, step, fsum_cons]; omega

/-- the special case of a predicate on the key: no consistency condition is needed -/
theorem fsum_foldUpsert_key (L : KeyLaws key kb mk comb) (P : κ → Bool)
    (O : ObsLaws mk comb f g (fun a => P (key a)) (fun b => P (kb b)))
    (m : List α) (bs : List β) (hnd : (m.map key).Nodup) :
    fsum (foldUpsert key kb mk comb m bs) (fun a => P (key a)) f
      = fsum m (fun a => P (key a)) f + fsum bs (fun b => P (kb b)) g :=
  fsum_foldUpsert L O m bs hnd (fun _ _ _ _ e => by simp [e]) (fun _ _ _ _ e => by simp [e])

end Upsert
end Qryn.Prof
