import Qryn.Proofs.MetricAgg
/-! C08 plan-level proofs: topk / bottomk (`TopKPlanner`: `par_b` builds the slice per timestamp, the outer select
    ARRAY JOINs it back into rows). -/
namespace Qryn.LogQL
open Qryn Qryn.Sql

theorem repr1 : Nat.repr 1 = "1" := by decide
theorem repr2 : Nat.repr 2 = "2" := by decide
theorem repr3 : Nat.repr 3 = "3" := by decide

/-! ### the direct reading, on groups -/
theorem topkStage_eq (isTop : Bool) (k : Nat) (pts : List Pt) :
    topkStage isTop k pts = (groupsBy (fun (p : Pt) => p.ts) pts).flatMap (fun g => (sortBy (ptLe isTop) g.2).take k) := by
  unfold topkStage groupsBy
  simp only [List.flatMap_map]

/-! ### `par_b` -/
def parBCols (isTop wl : Bool) (k : Nat) : List Expr :=
  [simpleCol "par_a.timestamp_ns" "timestamp_ns", .col (.topkSlice isTop wl k) "slice"]

def parBBody (isTop wl : Bool) (k : Nat) : Sel :=
  .mk [] false (parBCols isTop wl k) (some (.withRef (.named "par_a"))) [] none none [.raw "timestamp_ns"] none [] none

/-- the `(value, fingerprint[, labels])` tuple of a row -/
def tupOf (wl : Bool) (r : Row) : List Atom :=
  [(r.get "value").toAtom, (r.get "fingerprint").toAtom] ++ (if wl then [(r.get "labels").toAtom] else [])

def sliceOf (isTop wl : Bool) (k : Nat) (grp : List Row) : List (List Atom) :=
  (sortBy (if isTop then topLe else bottomLe) (grp.map (tupOf wl))).take k

def parBRow (isTop wl : Bool) (k : Nat) (g : Val × List Row) : Row :=
  [("timestamp_ns", g.1), ("slice", .tuples (sliceOf isTop wl k g.2))]

theorem parB_aliasVals (o : Oracles) (env : Env) (isTop wl : Bool) (k : Nat) (r : Row) (h : StdRow r) :
    aliasVals o env (parBCols isTop wl k) (qualify "par_a" r) = [("timestamp_ns", r.get "timestamp_ns")] := by
  have e := get_q "par_a" "timestamp_ns" "par_a.timestamp_ns" rfl r h
  simp [parBCols, aliasVals, hasAgg, simpleCol, e]

theorem parB_eval (o : Oracles) (db : Db) (env : Env) (isTop wl : Bool) (k : Nat) (T : Table) (hstd : ∀ r ∈ T, StdRow r)
    (hT : env.lookup (.named "par_a") = some T) :
    evalBodyA o db env (parBBody isTop wl k) =
      (groupsBy (fun (r : Row) => r.get "timestamp_ns") T).map (parBRow isTop wl k) := by
  unfold parBBody
  rw [evalBodyA_grouped o db env _ (parBCols isTop wl k) _ (T.map (qualify "par_a"))
    (by simp [sourceRowsA, sourceRows, hT, Alias.text]) _ rfl]
  simp only [havingFilter]
  rw [groupsBy_map]
  have hkey : ∀ r ∈ T, gkey o env (parBCols isTop wl k) [.raw "timestamp_ns"] (qualify "par_a" r) =
      (fun (v : Val) => [v]) (r.get "timestamp_ns") := by
    intro r hr
    unfold gkey
    rw [parB_aliasVals o env isTop wl k r (hstd r hr)]
    simp [evalE, get_cons]
  rw [groupsBy_congr _ _ T hkey, groupsBy_enc (fun (r : Row) => r.get "timestamp_ns") (fun (v : Val) => [v])
    (by intro a b hab; simpa using hab)]
  simp only [List.map_map, Function.comp_def]
  apply List.map_congr_left
  intro g hg
  obtain ⟨⟨r0, rest, hgr, hk⟩, hall⟩ := groupsBy_head _ T g hg
  have hs0 : StdRow r0 := hstd r0 (hall r0 (by rw [hgr]; simp)).1
  have e := get_q "par_a" "timestamp_ns" "par_a.timestamp_ns" rfl r0 hs0
  rw [grow_eq]
  simp only [parBCols, List.map_cons, List.map_nil, parBRow]
  congr 1
  · simp [growCell, colName, simpleCol, evalAgg, evalE, scope, hgr, get_append, e, hk]
    rw [show aliasVals o env [(Expr.raw "par_a.timestamp_ns").col "timestamp_ns", (Expr.topkSlice isTop wl k).col "slice"]
        (qualify "par_a" r0) = [("timestamp_ns", r0.get "timestamp_ns")] from by
      have := parB_aliasVals o env isTop wl k r0 hs0
      simpa [parBCols, simpleCol] using this]
    simp [e, hk]
  · congr 1
    simp only [growCell, colName, evalAgg, topkAgg, sliceOf, List.map_map, Function.comp_def]
    congr 3
    congr 1
    apply List.map_congr_left
    intro r hr
    have hsr : StdRow r := hstd r (hall r hr).1
    have := parB_aliasVals o env isTop wl k r hsr
    simp only [parBCols] at this
    rw [this]
    have e1 := get_q "par_a" "value" "par_a.value" rfl r hsr
    have e2 := get_q "par_a" "fingerprint" "par_a.fingerprint" rfl r hsr
    have e3 := get_q "par_a" "labels" "par_a.labels" rfl r hsr
    simp [tupOf, get_cons, e1, e2, e3]

/-! ### the outer select -/
def topOuterCols (wl : Bool) : List Expr :=
  [.col (.tupleAt "arr_b" 2) "fingerprint", simpleCol "par_b.timestamp_ns" "timestamp_ns",
   .col (.tupleAt "arr_b" 1) "value", emptyStr] ++ (if wl then [.col (.tupleAt "arr_b" 3) "labels"] else [])

def topOuterBody (wl : Bool) (hv : Option Expr) : Sel :=
  .mk [] false (topOuterCols wl) (some (.arrayJoinFrom (.withRef (.named "par_b")) (simpleCol "par_b.slice" "arr_b")))
    [] none none [] hv [] none

/-- what later stages read of a `(value, fingerprint[, labels])` tuple joined back at timestamp `tsv` -/
def tview (tsv : Val) (t : List Atom) : Val × Val × Option Rat × Val :=
  (((t.drop 1).headD .null).toVal, tsv, numOf? ((t.headD .null).toVal), ((t.drop 2).headD .null).toVal)

theorem topOuter_row (o : Oracles) (env : Env) (wl : Bool) (tsv : Val) (sl : Val) (r : Row) :
    rview (projectA o env (topOuterCols wl)
      (qualify "par_b" [("timestamp_ns", tsv), ("slice", sl)] ++ tupleCols "arr_b" (tupOf wl r))) = tview tsv (tupOf wl r) ∧
    StdRow (projectA o env (topOuterCols wl)
      (qualify "par_b" [("timestamp_ns", tsv), ("slice", sl)] ++ tupleCols "arr_b" (tupOf wl r))) := by
  cases wl
  · refine ⟨?_, ?_⟩
    · simp [rview, tview, projectA, topOuterCols, scope, aliasVals, hasAgg, simpleCol, emptyStr, colName, evalE, qualify, tupOf,
        tupleCols, List.zipIdx, repr1, repr2, get_cons, get_nil, Atom.toVal]
    · intro p hp
      simp only [projectA, topOuterCols, List.append_nil, Bool.false_eq_true, if_false, List.map_cons, List.map_nil, colName,
        simpleCol, emptyStr, List.mem_cons, List.not_mem_nil, or_false] at hp
      rcases hp with rfl | rfl | rfl | rfl <;> simp [Std5]
  · refine ⟨?_, ?_⟩
    · simp [rview, tview, projectA, topOuterCols, scope, aliasVals, hasAgg, simpleCol, emptyStr, colName, evalE, qualify, tupOf,
        tupleCols, List.zipIdx, repr1, repr2, repr3, get_cons, get_nil]
    · intro p hp
      simp only [projectA, topOuterCols, if_true, List.cons_append, List.nil_append, List.map_cons, List.map_nil, colName,
        simpleCol, emptyStr, List.mem_cons, List.not_mem_nil, or_false] at hp
      rcases hp with rfl | rfl | rfl | rfl | rfl <;> simp [Std5]

theorem mem_sliceOf (isTop wl : Bool) (k : Nat) (grp : List Row) (t : List Atom) (h : t ∈ sliceOf isTop wl k grp) :
    ∃ r ∈ grp, t = tupOf wl r := by
  unfold sliceOf at h
  have := (mem_sortBy _ _ t).mp (List.mem_of_mem_take h)
  obtain ⟨r, hr, rfl⟩ := List.mem_map.mp this
  exact ⟨r, hr, rfl⟩

/-- the ARRAY JOIN select over `par_b`: one row per tuple of every slice, in order; then HAVING -/
theorem topOuter_eval (o : Oracles) (db : Db) (env : Env) (isTop wl : Bool) (k : Nat) (G : List (Val × List Row))
    (hP : env.lookup (.named "par_b") = some (G.map (parBRow isTop wl k))) (hv : Option Expr) :
    evalBodyA o db env (topOuterBody wl hv) =
      havingFilter o env hv (G.flatMap (fun g => (sliceOf isTop wl k g.2).map (fun t => projectA o env (topOuterCols wl)
        (qualify "par_b" [("timestamp_ns", g.1), ("slice", .tuples (sliceOf isTop wl k g.2))] ++ tupleCols "arr_b" t)))) := by
  have hagg : ((topOuterCols wl).any hasAgg) = false := by cases wl <;> simp [topOuterCols, hasAgg, simpleCol, emptyStr]
  simp only [topOuterBody, evalBodyA, List.isEmpty_nil, hagg, Bool.not_false, Bool.and_self, if_true, List.foldl_nil, optB,
    filter_true]
  rw [arrayJoin_rows_gen o db env _ hP]
  have : (List.map (projectA o env (topOuterCols wl))
        (List.flatMap (fun r => match r.get "par_b.slice" with
            | Val.tuples ts => List.map (fun t => r ++ tupleCols "arr_b" t) ts
            | x => [])
          (List.map (qualify "par_b") (List.map (parBRow isTop wl k) G)))) =
      G.flatMap (fun g => (sliceOf isTop wl k g.2).map (fun t => projectA o env (topOuterCols wl)
        (qualify "par_b" [("timestamp_ns", g.1), ("slice", .tuples (sliceOf isTop wl k g.2))] ++ tupleCols "arr_b" t))) := by
    simp only [List.map_map, List.map_flatMap, List.flatMap_map]
    congr 1
    funext g
    simp [parBRow, qualify, get_cons]
  cases hv with
  | none => exact this
  | some hh => exact congrArg (List.filter (fun r => havingA o env r hh)) this

/-! ### ordering of tuples = ordering of points -/
def Atomic (v : Val) : Prop := v.toAtom.toVal = v

/-- better-first on what is read of a row -/
def leV (isTop : Bool) (x y : Val × Val × Option Rat × Val) : Bool :=
  (if isTop then decide (y.2.2.1.getD 0 < x.2.2.1.getD 0) else decide (x.2.2.1.getD 0 < y.2.2.1.getD 0)) ||
  (x.2.2.1.getD 0 == y.2.2.1.getD 0 && decide (keyIntOf x.1 ≤ keyIntOf y.1))

theorem ptLe_leV (isTop : Bool) (p q : Pt) : leV isTop p.view q.view = ptLe isTop p q := rfl

theorem atomRat_eq (a : Atom) : atomRat a = (numOf? a.toVal).getD 0 := by cases a <;> rfl
theorem atomInt_eq (a : Atom) : atomInt a = keyIntOf a.toVal := by cases a <;> rfl

theorem tupLe_leV (isTop : Bool) (tsv : Val) (t t' : List Atom) :
    leV isTop (tview tsv t) (tview tsv t') = (if isTop then topLe else bottomLe) t t' := by
  cases isTop <;>
    simp [leV, tview, topLe, bottomLe, tupleValue, tupleFp, atomRat_eq, atomInt_eq]

theorem tview_tupOf (wl : Bool) (r : Row) (ha : Atomic (r.get "fingerprint")) (hb : Atomic (r.get "labels"))
    (hl : wl = false → r.get "labels" = .null) : tview (r.get "timestamp_ns") (tupOf wl r) = rview r := by
  have hv : numOf? ((r.get "value").toAtom.toVal) = numOf? (r.get "value") := by cases r.get "value" <;> rfl
  have hn : Atom.null.toVal = Val.null := rfl
  unfold Atomic at ha hb
  cases wl
  · simp [tview, tupOf, rview, hv, hl rfl, hn, ha]
  · simp [tview, tupOf, rview, hv, ha, hb]

/-- one timestamp: the slice of the rows, read back, is the k best points -/
theorem slice_rel (isTop wl : Bool) (k : Nat) (A : List Row) (B : List Pt) (tsv : Val) (hAB : A.map rview = B.map Pt.view)
    (hts : ∀ r ∈ A, r.get "timestamp_ns" = tsv)
    (hat : ∀ r ∈ A, Atomic (r.get "fingerprint") ∧ Atomic (r.get "labels") ∧ (wl = false → r.get "labels" = .null)) :
    (sliceOf isTop wl k A).map (tview tsv) = ((sortBy (ptLe isTop) B).take k).map Pt.view := by
  unfold sliceOf
  rw [List.map_take, List.map_take,
    ← sortBy_map (if isTop then topLe else bottomLe) (leV isTop) (tview tsv) (tupLe_leV isTop tsv),
    ← sortBy_map (ptLe isTop) (leV isTop) Pt.view (ptLe_leV isTop)]
  congr 2
  rw [List.map_map, ← hAB]
  apply List.map_congr_left
  intro r hr
  simp only [Function.comp_apply]
  rw [← hts r hr]
  exact tview_tupOf wl r (hat r hr).1 (hat r hr).2.1 (hat r hr).2.2

/-- **topk / bottomk (TopKPlanner).** Over the points of `par_a`: per timestamp, in order of first occurrence, the k best
    points (greater value first for topk, smaller for bottomk, ties by smaller series key). -/
theorem topk_rep (o : Oracles) (env : Env) (isTop wl : Bool) (k : Nat) (T : Table) (pts : List Pt) (h : Rep T pts)
    (hat : ∀ p ∈ pts, Atomic p.key ∧ Atomic p.labels ∧ (wl = false → p.labels = .null)) :
    Rep ((groupsBy (fun (r : Row) => r.get "timestamp_ns") T).flatMap (fun g =>
        (sliceOf isTop wl k g.2).map (fun t => projectA o env (topOuterCols wl)
          (qualify "par_b" [("timestamp_ns", g.1), ("slice", .tuples (sliceOf isTop wl k g.2))] ++ tupleCols "arr_b" t))))
      (topkStage isTop k pts) := by
  have hatT : ∀ r ∈ T, Atomic (r.get "fingerprint") ∧ Atomic (r.get "labels") ∧ (wl = false → r.get "labels" = .null) := by
    intro r hr
    have : rview r ∈ pts.map Pt.view := by rw [← h.view]; exact List.mem_map_of_mem hr
    obtain ⟨p, hp, hpv⟩ := List.mem_map.mp this
    simp only [rview, Pt.view, Prod.mk.injEq] at hpv
    rw [← hpv.1, ← hpv.2.2.2]
    exact hat p hp
  refine ⟨?_, ?_⟩
  · rw [topkStage_eq, List.map_flatMap, List.map_flatMap]
    have hrows : ∀ g ∈ groupsBy (fun (r : Row) => r.get "timestamp_ns") T,
        ((sliceOf isTop wl k g.2).map (fun t => projectA o env (topOuterCols wl)
          (qualify "par_b" [("timestamp_ns", g.1), ("slice", .tuples (sliceOf isTop wl k g.2))] ++ tupleCols "arr_b" t))).map rview =
        (sliceOf isTop wl k g.2).map (tview ((g.2.head?.map (fun r => r.get "timestamp_ns")).getD .null)) := by
      intro g hg
      obtain ⟨⟨r0, rest, hgr, hk⟩, _⟩ := groupsBy_head _ T g hg
      rw [List.map_map]
      apply List.map_congr_left
      intro t ht
      obtain ⟨r, _, rfl⟩ := mem_sliceOf isTop wl k g.2 t ht
      simp only [Function.comp_apply, hgr, List.head?_cons, Option.map_some, Option.getD_some, hk]
      exact (topOuter_row o env wl g.1 _ r).1
    rw [List.flatMap_def, List.flatMap_def, List.map_congr_left hrows]
    have := groups_rel rview Pt.view (fun (v : Val × Val × Option Rat × Val) => v.2.1) (fun (v : Val) => v)
      (fun a b hab => hab) T pts h.view
      (fun A => (sliceOf isTop wl k A).map (tview ((A.head?.map (fun r => r.get "timestamp_ns")).getD .null)))
      (fun B => ((sortBy (ptLe isTop) B).take k).map Pt.view)
      (by
        intro A B hne hA _ hsame hAB
        obtain ⟨r0, A', rfl⟩ : ∃ r0 A', A = r0 :: A' := by
          cases A with
          | nil => exact absurd rfl hne
          | cons r0 A' => exact ⟨r0, A', rfl⟩
        simp only [List.head?_cons, Option.map_some, Option.getD_some]
        apply slice_rel isTop wl k _ B _ hAB
        · intro r hr
          have := hsame r hr r0 (List.mem_cons_self ..)
          simpa [rview] using this
        · intro r hr
          exact hatT r (hA r hr))
    simp only [rview, Pt.view] at this
    rw [this]
    rw [groupsBy_enc (fun (p : Pt) => p.ts) (fun (t : Int) => Val.int t) (by intro a b hab; simpa using hab)]
    simp only [List.map_map, Function.comp_def]
  · intro r hr
    obtain ⟨g, _, hr'⟩ := List.mem_flatMap.mp hr
    obtain ⟨t, ht, rfl⟩ := List.mem_map.mp hr'
    obtain ⟨r0, _, rfl⟩ := mem_sliceOf isTop wl k g.2 t ht
    exact (topOuter_row o env wl g.1 _ r0).2

end Qryn.LogQL
