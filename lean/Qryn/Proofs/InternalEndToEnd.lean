import Qryn.Proofs.InternalBridge
/-! What the ClickHouse statement of a pipeline prefix returns (C07's direct reading `evalLogX`, proved equal to the SQL
    semantics of the real statement by `plan_correct_ext`) is, as a multiset of entries ordered by timestamp, the prefix
    stages applied one after the other to the entries the stream selector yields — label filters placed before the first
    parser included, which the statement decides on the series table (under `SeriesStoreOk`). Core only. -/
namespace Qryn.Read
open Qryn Qryn.Sql Qryn.LogQL Qryn.LogQL.Stages

variable {V : Type}

/-- **the single named hypothesis about the stored data** (what C04 establishes for the writer): one label document per
    fingerprint, every series row inside the index window and of the queried signal, a series row for every sample's
    stream (`SeriesTableOk`); the fingerprint is a function of the label set (`fp_perm`: it is computed from the labels),
    fits the UInt64 column, and no label document has a name twice -/
structure SeriesStoreOk (o : Oracles) (c : LogQL.Ctx) (d : LokiDb) : Prop extends SeriesTableOk c d where
  fpOfLabels : ∀ t ∈ d.ts, ∀ t' ∈ d.ts,
    canonLabels (o.jsonLabels t.labels) = canonLabels (o.jsonLabels t'.labels) → t.fp = t'.fp
  fpRange : ∀ t ∈ d.ts, 0 ≤ t.fp ∧ t.fp < 2 ^ 64
  nodupKeys : ∀ t ∈ d.ts, NodupKeys (o.jsonLabels t.labels)

/-- a sample with its stream's labels, as C07's reading has it at the join -/
def toX (o : Oracles) (c : LogQL.Ctx) (d : LokiDb) (q0 : LogQuery) (s : Sample) : EntryX :=
  ⟨s.fp, s.ts, asMap (labelsOf o c d q0 s.fp), s.str⟩

/-- C07's direct reading of the SQL-side stages without its sorts: the entries, in table order -/
def baseX (o : Oracles) (c : LogQL.Ctx) (d : LokiDb) (ms : List Matcher) (q : List StageX) : List EntryX :=
  stagesX o (splitPre q).2
    ((d.samples.filter (entryMatches o c d ⟨ms, (splitPre q).1⟩)).map (toX o c d ⟨ms, (splitPre q).1⟩))

/-! ### `splitPre` of a pipeline extended by one stage -/
theorem splitPre_snoc_post (q : List StageX) (sx : StageX) (h : (splitPre q).2 ≠ []) :
    splitPre (q ++ [sx]) = ((splitPre q).1, (splitPre q).2 ++ [sx]) := by
  induction q with
  | nil => simp [splitPre] at h
  | cons s rest ih =>
    cases s with
    | fl f =>
      have h' : (splitPre rest).2 ≠ [] := by simpa [splitPre] using h
      simp only [List.cons_append, splitPre, ih h']
    | ch c => rfl

theorem splitPre_all_fl (q : List StageX) (h : (splitPre q).2 = []) : q = (splitPre q).1.map .fl := by
  induction q with
  | nil => rfl
  | cons s rest ih =>
    cases s with
    | fl f =>
      have h' : (splitPre rest).2 = [] := by simpa [splitPre] using h
      simp only [splitPre, List.map_cons]
      rw [← ih h']
    | ch c => simp [splitPre] at h

theorem splitPre_fl_snoc_ch (pre : List Stage) (c : Changer) :
    splitPre (pre.map StageX.fl ++ [.ch c]) = (pre, [.ch c]) := by
  induction pre with
  | nil => rfl
  | cons s rest ih => simp only [List.map_cons, List.cons_append, splitPre, ih]

theorem splitPre_fl_snoc_fl (pre : List Stage) (s : Stage) :
    splitPre (pre.map StageX.fl ++ [.fl s]) = (pre ++ [s], []) := by
  have : pre.map StageX.fl ++ [.fl s] = (pre ++ [s]).map StageX.fl := by simp
  rw [this, splitPre_fl]

/-! ### one more stage: the reading of the longer pipeline is the stage applied to the reading of the shorter one -/
theorem labelsOf_line (o : Oracles) (c : LogQL.Ctx) (d : LokiDb) (q : LogQuery) (f : LineFilter) (fp : Int) :
    labelsOf o c d (withStage q (.line f)) fp = labelsOf o c d q fp := by
  simp only [labelsOf, fpSelected_line]

theorem labelsOf_label (o : Oracles) (c : LogQL.Ctx) (d : LokiDb) (q : LogQuery) (lc : LabelCond) (fp : Int)
    (h1 : fpSelected o c d q fp = true) (h2 : fpSelected o c d (withStage q (.label lc)) fp = true) :
    labelsOf o c d (withStage q (.label lc)) fp = labelsOf o c d q fp := by
  simp only [labelsOf]
  have : (fun t : TsRow => decide (fromDate c ≤ t.date) && typeOk c t.tp && fpSelected o c d (withStage q (.label lc)) t.fp && t.fp == fp) =
         (fun t : TsRow => decide (fromDate c ≤ t.date) && typeOk c t.tp && fpSelected o c d q t.fp && t.fp == fp) := by
    funext t
    by_cases ht : t.fp = fp
    · rw [ht, h1, h2]
    · have : (t.fp == fp) = false := by simpa using ht
      simp [this]
  rw [this]

theorem labelsOf_asMap_eq (o : Oracles) (c : LogQL.Ctx) (d : LokiDb) (q : LogQuery) (fp : Int) :
    asMap (labelsOf o c d q fp) = labelsOfVal (labelsOf o c d q fp) := by
  cases labelsOf o c d q fp <;> rfl

theorem baseX_snoc (o : Oracles) (c : LogQL.Ctx) (d : LokiDb) (hd : SeriesTableOk c d) (ms : List Matcher)
    (q : List StageX) (sx : StageX) :
    baseX o c d ms (q ++ [sx]) = stageX o (baseX o c d ms q) sx := by
  by_cases hpost : (splitPre q).2 = []
  · have hq := splitPre_all_fl q hpost
    generalize hpre : (splitPre q).1 = pre at hq
    have hsp : splitPre q = (pre, []) := Prod.ext hpre hpost
    cases sx with
    | ch ch =>
      rw [hq, baseX, splitPre_fl_snoc_ch, ← hq, baseX, hsp]
      rfl
    | fl s =>
      rw [hq, baseX, splitPre_fl_snoc_fl, ← hq, baseX, hsp]
      simp only [stagesX, List.foldl_nil, stageX]
      cases s with
      | line f =>
        have hws : (⟨ms, pre ++ [.line f]⟩ : LogQuery) = withStage ⟨ms, pre⟩ (.line f) := rfl
        rw [hws, List.filter_map]
        have hm : d.samples.filter (entryMatches o c d (withStage ⟨ms, pre⟩ (.line f))) =
            (d.samples.filter (entryMatches o c d ⟨ms, pre⟩)).filter (fun s => lineHolds o f s.str) := by
          rw [List.filter_filter]
          apply List.filter_congr
          intro s _
          rw [entryMatches_line, Bool.and_comm]
        rw [hm]
        have htx : toX o c d (withStage ⟨ms, pre⟩ (.line f)) = toX o c d ⟨ms, pre⟩ := by
          funext s; simp only [toX, labelsOf_line]
        rw [htx]
        rfl
      | label lc =>
        have hws : (⟨ms, pre ++ [.label lc]⟩ : LogQuery) = withStage ⟨ms, pre⟩ (.label lc) := rfl
        rw [hws, List.filter_map]
        have hm : d.samples.filter (entryMatches o c d (withStage ⟨ms, pre⟩ (.label lc))) =
            (d.samples.filter (entryMatches o c d ⟨ms, pre⟩)).filter
              (fun s => labelCondHolds o (labelsOfVal (labelsOf o c d ⟨ms, pre⟩ s.fp)) lc) := by
          rw [List.filter_filter]
          apply List.filter_congr
          intro s hs
          rw [entryMatches_label o c d hd ⟨ms, pre⟩ lc s hs, Bool.and_comm]
        rw [hm]
        have hcomp : ((fun e : EntryX => stageHolds o e (.label lc)) ∘ toX o c d ⟨ms, pre⟩) =
            (fun s => labelCondHolds o (labelsOfVal (labelsOf o c d ⟨ms, pre⟩ s.fp)) lc) := by
          funext s
          simp only [Function.comp, stageHolds, toX, labelsOf_asMap_eq]
        rw [hcomp, ← hm]
        apply List.map_congr_left
        intro s hs
        obtain ⟨hsm, hmatch⟩ := List.mem_filter.mp hs
        have h2 : fpSelected o c d (withStage ⟨ms, pre⟩ (.label lc)) s.fp = true := by
          simp only [entryMatches, Bool.and_eq_true] at hmatch
          exact hmatch.1.2
        have h1 : fpSelected o c d ⟨ms, pre⟩ s.fp = true := by
          rw [fpSelected_label_eq o c d hd ⟨ms, pre⟩ lc s hsm] at h2
          simp only [Bool.and_eq_true] at h2
          exact h2.1
        simp only [toX, labelsOf_label o c d ⟨ms, pre⟩ lc s.fp h1 h2]
  · rw [baseX, splitPre_snoc_post q sx hpost, baseX]
    simp only [stagesX, List.foldl_append, List.foldl_cons, List.foldl_nil]

/-- the entries the stream selector yields, in table order -/
def selX (o : Oracles) (c : LogQL.Ctx) (d : LokiDb) (ms : List Matcher) : List EntryX := baseX o c d ms []

/-- **C07's reading, stage by stage**: also the label filters the statement decides on the series table are filters on
    the entries' labels -/
theorem baseX_stages (o : Oracles) (c : LogQL.Ctx) (d : LokiDb) (hd : SeriesTableOk c d) (ms : List Matcher)
    (q : List StageX) : baseX o c d ms q = stagesX o q (selX o c d ms) := by
  have key : ∀ r : List StageX, baseX o c d ms r.reverse = stagesX o r.reverse (selX o c d ms) := by
    intro r
    induction r with
    | nil => rfl
    | cons sx r ih =>
      rw [List.reverse_cons, baseX_snoc o c d hd, ih]
      simp only [stagesX, List.foldl_append, List.foldl_cons, List.foldl_nil]
  have := key q.reverse
  rwa [List.reverse_reverse] at this

/-! ### the rows of the statement are these entries, ordered by timestamp -/
theorem stageX_perm (o : Oracles) (sx : StageX) (a b : List EntryX) (h : a.Perm b) : (stageX o a sx).Perm (stageX o b sx) := by
  cases sx with
  | fl s => exact h.filter _
  | ch c => exact h.map _

theorem stagesX_perm (o : Oracles) (ss : List StageX) (a b : List EntryX) (h : a.Perm b) :
    (stagesX o ss a).Perm (stagesX o ss b) := by
  induction ss generalizing a b with
  | nil => exact h
  | cons s rest ih => exact ih _ _ (stageX_perm o s a b h)

theorem scanRow_outRow (N : NumOps V) (o : Oracles) (c : LogQL.Ctx) (d : LokiDb) (q0 : LogQuery) (s : Sample) :
    scanRow N (outRow o c d q0 s) = scanX N (toX o c d q0 s) := by
  simp [scanRow, outRow, scanX, toX, Row.get, List.lookup, intOfVal, bytesOfVal]

theorem scanRow_rowX (N : NumOps V) (e : EntryX) : scanRow N e.row = scanX N e := by
  simp [scanRow, EntryX.row, scanX, Row.get, List.lookup, intOfVal, bytesOfVal, asMap]

theorem entryMatches_limCtx (o : Oracles) (c : LogQL.Ctx) (d : LokiDb) (q : LogQuery) :
    entryMatches o { c with limit := 0 } d q = entryMatches o c d q := rfl

theorem labelsOf_limCtx (o : Oracles) (c : LogQL.Ctx) (d : LokiDb) (q : LogQuery) :
    labelsOf o { c with limit := 0 } d q = labelsOf o c d q := rfl

/-- what the getter scans from the statement's result (no LIMIT: the script is handed over) is a permutation of C07's
    entries -/
theorem scanRows_evalLogX_perm (N : NumOps V) (o : Oracles) (c : LogQL.Ctx) (d : LokiDb) (ms : List Matcher) (q : List StageX) :
    (scanRows N (evalLogX o c false d ⟨ms, q⟩)).Perm ((baseX o c d ms q).map (scanX N)) := by
  simp only [evalLogX, scanRows, baseX]
  cases hpost : (splitPre q).2 with
  | nil =>
    simp only [stagesX, List.foldl_nil]
    refine ((sortBy_perm _ _).map _).trans ?_
    simp only [List.map_map]
    have : (scanRow N ∘ outRow o c d ⟨ms, (splitPre q).1⟩) = (scanX N ∘ toX o c d ⟨ms, (splitPre q).1⟩) := by
      funext s; exact scanRow_outRow N o c d _ s
    rw [this]
    apply List.Perm.map
    simp only [limited, limCtx, Bool.false_eq_true, if_false, if_true]
    exact sortBy_perm _ _
  | cons sx rest =>
    refine ((sortBy_perm _ _).map _).trans ?_
    simp only [List.map_map]
    have : (scanRow N ∘ EntryX.row) = scanX N := by funext e; exact scanRow_rowX N e
    rw [this]
    apply List.Perm.map
    simp only [takeLimit, limCtx, Bool.false_eq_true, if_false, if_true]
    refine (sortBy_perm _ _).trans ?_
    apply stagesX_perm
    simp only [entriesAtJoin, limited, if_true]
    exact (sortBy_perm _ _).map _

/-! ### ordered by timestamp -/
/-- the order of the request on entries: ascending timestamps when forward, else descending -/
def entLe (c : LogQL.Ctx) (a b : Entry V) : Bool := if c.orderAsc then decide (a.ts ≤ b.ts) else decide (b.ts ≤ a.ts)

theorem rowLe_ts_int (c : LogQL.Ctx) (a b : Row) (x y : Int) (ha : a.get "timestamp_ns" = .int x) (hb : b.get "timestamp_ns" = .int y) :
    rowLe (finalKeysX c false) a b = (if c.orderAsc then decide (x ≤ y) else decide (y ≤ x)) := by
  simp only [finalKeysX, Bool.false_eq_true, if_false, rowLe, ha, hb, dirOf]
  by_cases hxy : x = y
  · subst hxy; simp
  · have : (Val.int x == Val.int y) = false := by
      apply Bool.eq_false_iff.mpr
      intro h
      exact hxy (by simpa using h)
    simp only [this, Bool.false_eq_true, if_false]
    cases c.orderAsc <;> simp [Val.cmpLe]

theorem tsLeX_total (c : LogQL.Ctx) (a b : EntryX) : tsLeX c a b = true ∨ tsLeX c b a = true := by
  simp only [tsLeX]; split <;> simp <;> omega

theorem tsLeX_trans (c : LogQL.Ctx) (a b e : EntryX) : tsLeX c a b = true → tsLeX c b e = true → tsLeX c a e = true := by
  simp only [tsLeX]; split <;> simp <;> omega

/-- the rows the getter scans arrive ordered by timestamp -/
theorem scanRows_evalLogX_sorted (N : NumOps V) (o : Oracles) (c : LogQL.Ctx) (d : LokiDb) (ms : List Matcher) (q : List StageX) :
    (scanRows N (evalLogX o c false d ⟨ms, q⟩)).Pairwise (fun a b => entLe c a b = true) := by
  simp only [evalLogX, scanRows]
  cases hpost : (splitPre q).2 with
  | nil =>
    simp only []
    rw [sortBy_map (tsLe c) (rowLe (finalKeysX c false)) (outRow o c d ⟨ms, (splitPre q).1⟩)
      (fun a b => by
        rw [rowLe_ts_int c _ _ a.ts b.ts (by simp [outRow, Row.get, List.lookup]) (by simp [outRow, Row.get, List.lookup])]
        rfl)]
    rw [List.map_map]
    apply List.Pairwise.map _ _ (sortBy_pairwise (tsLe c) (tsLe_total c) (tsLe_trans c) _)
    intro a b hab
    simp only [Function.comp, scanRow_outRow, entLe, scanX, toX]
    exact hab
  | cons sx rest =>
    simp only []
    rw [sortBy_map (tsLeX c) (rowLe (finalKeysX c false)) EntryX.row
      (fun a b => by
        rw [rowLe_ts_int c _ _ a.ts b.ts (by simp [EntryX.row, Row.get, List.lookup]) (by simp [EntryX.row, Row.get, List.lookup])]
        rfl)]
    rw [List.map_map]
    apply List.Pairwise.map _ _ (sortBy_pairwise (tsLeX c) (tsLeX_total c) (tsLeX_trans c) _)
    intro a b hab
    simp only [Function.comp, scanRow_rowX, entLe, scanX]
    exact hab

/-! ### the in-process stages: permutations, order, fingerprint values -/
theorem stage_perm (E : Env V) (s : StageK V) (a b : List (Entry V)) (h : a.Perm b) : (Stages.stage E s a).Perm (Stages.stage E s b) := by
  cases s with
  | line op val => exact h.filter _
  | labelFilter c => exact h.filter _
  | parser k => exact h.map _
  | labelFormat ops => exact h.map _
  | lineFormat t => exact h.filterMap _
  | drop ns vs => exact h.map _
  | unwrap l => exact h.map _

theorem stages_perm (E : Env V) (ss : List (StageK V)) (a b : List (Entry V)) (h : a.Perm b) :
    (Stages.stages E ss a).Perm (Stages.stages E ss b) := by
  induction ss generalizing a b with
  | nil => exact h
  | cons s rest ih => exact ih _ _ (stage_perm E s a b h)

theorem pairwise_filterMap_ts {α : Type} (r : α → α → Prop) (g : α → Option α) (hg : ∀ a a' b b', g a = some a' → g b = some b' → r a b → r a' b')
    (l : List α) (h : l.Pairwise r) : (l.filterMap g).Pairwise r := by
  induction l with
  | nil => simp
  | cons x xs ih =>
    have h' := List.pairwise_cons.mp h
    simp only [List.filterMap_cons]
    cases hx : g x with
    | none => exact ih h'.2
    | some x' =>
      refine List.pairwise_cons.mpr ⟨?_, ih h'.2⟩
      intro y' hy'
      obtain ⟨y, hy, hgy⟩ := List.mem_filterMap.mp hy'
      exact hg x x' y y' hx hgy (h'.1 y hy)

theorem entLe_ts (c : LogQL.Ctx) (a b a' b' : Entry V) (ha : a'.ts = a.ts) (hb : b'.ts = b.ts) (h : entLe c a b = true) :
    entLe c a' b' = true := by
  simp only [entLe, ha, hb] at h ⊢
  exact h

theorem unwrap_fn_ts (E : Env V) (lbl : Bytes) (e : Entry V) :
    (match (if (if lbl = entryKey then e.msg else e.labels.get lbl) = [] then none
            else E.num.parse (if lbl = entryKey then e.msg else e.labels.get lbl)) with
      | some v => { e with val := v }
      | none => e).ts = e.ts := by
  cases (if (if lbl = entryKey then e.msg else e.labels.get lbl) = [] then none
            else E.num.parse (if lbl = entryKey then e.msg else e.labels.get lbl)) <;> rfl

theorem filterMap_congr_mem' {α β : Type} (f g : α → Option β) (l : List α) (h : ∀ x ∈ l, f x = g x) :
    l.filterMap f = l.filterMap g := by
  induction l with
  | nil => rfl
  | cons x xs ih =>
    simp only [List.filterMap_cons, h x List.mem_cons_self, ih (fun y hy => h y (List.mem_cons_of_mem _ hy))]

/-- every stage keeps the timestamps and the order of the entries it lets through -/
theorem stage_sorted (E : Env V) (c : LogQL.Ctx) (s : StageK V) (l : List (Entry V))
    (h : l.Pairwise (fun a b => entLe c a b = true)) : (Stages.stage E s l).Pairwise (fun a b => entLe c a b = true) := by
  cases s with
  | line op val => exact h.filter _
  | labelFilter lc => exact h.filter _
  | parser k => exact List.Pairwise.map _ (fun a b hab => entLe_ts c a b _ _ rfl rfl hab) h
  | labelFormat ops => exact List.Pairwise.map _ (fun a b hab => entLe_ts c a b _ _ rfl rfl hab) h
  | lineFormat t =>
    apply pairwise_filterMap_ts _ _ _ l h
    intro a a' b b' ha hb hab
    simp only [Option.map_eq_some_iff] at ha hb
    obtain ⟨_, _, rfl⟩ := ha
    obtain ⟨_, _, rfl⟩ := hb
    exact entLe_ts c a b _ _ rfl rfl hab
  | drop ns vs => exact List.Pairwise.map _ (fun a b hab => entLe_ts c a b _ _ rfl rfl hab) h
  | unwrap lbl =>
    apply List.Pairwise.map _ _ h
    intro a b hab
    exact entLe_ts c a b _ _ (unwrap_fn_ts E lbl a) (unwrap_fn_ts E lbl b) hab

theorem stages_sorted (E : Env V) (c : LogQL.Ctx) (ss : List (StageK V)) (l : List (Entry V))
    (h : l.Pairwise (fun a b => entLe c a b = true)) : (Stages.stages E ss l).Pairwise (fun a b => entLe c a b = true) := by
  induction ss generalizing l with
  | nil => exact h
  | cons s rest ih => exact ih _ (stage_sorted E c s l h)

theorem filter_core (p : Entry V → Bool) (hp : ∀ e, p e = p (core e)) (xs ys : List (Entry V))
    (h : xs.map core = ys.map core) : (xs.filter p).map core = (ys.filter p).map core := by
  have key : ∀ l : List (Entry V), (l.filter p).map core = (l.map core).filter p := by
    intro l
    rw [List.filter_map]
    congr 1
    apply List.filter_congr
    intro e _
    exact hp e
  rw [key, key, h]

theorem map_core (g : Entry V → Entry V) (hg : ∀ e, core (g e) = core (g (core e))) (xs ys : List (Entry V))
    (h : xs.map core = ys.map core) : (xs.map g).map core = (ys.map g).map core := by
  have key : ∀ l : List (Entry V), (l.map g).map core = (l.map core).map (fun e => core (g e)) := by
    intro l
    simp only [List.map_map]
    apply List.map_congr_left
    intro e _
    exact hg e
  rw [key, key, h]

theorem filterMap_core (g : Entry V → Option (Entry V)) (hg : ∀ e, (g e).map core = (g (core e)).map core) (xs ys : List (Entry V))
    (h : xs.map core = ys.map core) : (xs.filterMap g).map core = (ys.filterMap g).map core := by
  have key : ∀ l : List (Entry V), (l.filterMap g).map core = (l.map core).filterMap (fun e => (g e).map core) := by
    intro l
    rw [List.filterMap_map, List.map_filterMap]
    apply filterMap_congr_mem'
    intro e _
    exact hg e
  rw [key, key, h]

/-- the fingerprint *values* of the input do not matter to a stage: it never reads them -/
theorem stage_core (E : Env V) (s : StageK V) (xs ys : List (Entry V)) (h : xs.map core = ys.map core) :
    (Stages.stage E s xs).map core = (Stages.stage E s ys).map core := by
  cases s with
  | line op val => exact filter_core _ (fun _ => rfl) xs ys h
  | labelFilter c => exact filter_core _ (fun _ => rfl) xs ys h
  | parser k => exact map_core _ (fun _ => rfl) xs ys h
  | labelFormat ops => exact map_core _ (fun _ => rfl) xs ys h
  | lineFormat t =>
    apply filterMap_core _ _ xs ys h
    intro e
    simp only [core]
    cases E.tpl t (e.labels.set entryKey e.msg) <;> rfl
  | drop ns vs => exact map_core _ (fun _ => rfl) xs ys h
  | unwrap l =>
    apply map_core _ _ xs ys h
    intro e
    have hs : (if l = entryKey then (core e).msg else (core e).labels.get l) = (if l = entryKey then e.msg else e.labels.get l) := rfl
    simp only [hs]
    generalize (if (if l = entryKey then e.msg else e.labels.get l) = [] then none
            else E.num.parse (if l = entryKey then e.msg else e.labels.get l)) = r
    cases r <;> rfl

theorem stages_core (E : Env V) (ss : List (StageK V)) (xs ys : List (Entry V)) (h : xs.map core = ys.map core) :
    (Stages.stages E ss xs).map core = (Stages.stages E ss ys).map core := by
  induction ss generalizing xs ys with
  | nil => exact h
  | cons s rest ih => exact ih _ _ (stage_core E s xs ys h)

/-! ### a whole prefix of shared stages -/
/-- **C07's reading of a prefix of shared stages = C09's reading of the same stages**, on the entries ClickHouse hands over -/
theorem bridge_stages (o : Oracles) (E : Env V) (hb : Bridge o E) (like : Bytes → Option LikeInfo) (hl : LikeOk o like)
    (ss : List (StageK V)) (sxs : List StageX) (hs : ss.mapM (toStageX like) = some sxs) (hok : ∀ s ∈ ss, SharedOk s)
    (es : List EntryX) (hnd : ∀ e ∈ es, NodupKeys e.labels) :
    ((stagesX o sxs es).map (scanX E.num)).map core = (Stages.stages E ss (es.map (scanX E.num))).map core ∧
    (∀ e ∈ stagesX o sxs es, NodupKeys e.labels) := by
  induction ss generalizing sxs es with
  | nil =>
    simp only [List.mapM_nil, Option.pure_def, Option.some.injEq] at hs
    subst hs
    exact ⟨rfl, hnd⟩
  | cons s rest ih =>
    simp only [List.mapM_cons, Option.pure_def, Option.bind_eq_bind] at hs
    cases h1 : toStageX like s with
    | none => simp [h1] at hs
    | some sx =>
      cases h2 : rest.mapM (toStageX like) with
      | none => simp [h1, h2] at hs
      | some sxr =>
        simp only [h1, h2, Option.bind_some, Option.some.injEq] at hs
        subst hs
        obtain ⟨hstep, hnd'⟩ := bridge_stage o E hb like hl s sx h1 (hok s List.mem_cons_self) es hnd
        obtain ⟨hrest, hnd''⟩ := ih sxr h2 (fun t ht => hok t (List.mem_cons_of_mem _ ht)) (stageX o es sx) hnd'
        refine ⟨?_, hnd''⟩
        simp only [stagesX, List.foldl_cons, Stages.stages] at hrest ⊢
        rw [hrest]
        exact stages_core E rest _ _ hstep

/-! ### what the stored data guarantee about the selector's entries -/
theorem labelsOf_cases (o : Oracles) (c : LogQL.Ctx) (d : LokiDb) (q : LogQuery) (fp : Int) :
    labelsOf o c d q fp = .null ∨ ∃ t ∈ d.ts, t.fp = fp ∧ labelsOf o c d q fp = .map (o.jsonLabels t.labels) := by
  simp only [labelsOf]
  cases hf : d.ts.find? (fun t => decide (fromDate c ≤ t.date) && typeOk c t.tp && fpSelected o c d q t.fp && t.fp == fp) with
  | none => exact Or.inl rfl
  | some t =>
    right
    have h0 := List.find?_some hf
    refine ⟨t, List.mem_of_find?_eq_some hf, ?_, rfl⟩
    simp only [Bool.and_eq_true] at h0
    simpa using h0.2

theorem selX_nodup (o : Oracles) (c : LogQL.Ctx) (d : LokiDb) (hd : SeriesStoreOk o c d) (ms : List Matcher) :
    ∀ e ∈ selX o c d ms, NodupKeys e.labels := by
  intro e he
  simp only [selX, baseX, splitPre, stagesX, List.foldl_nil, List.mem_map] at he
  obtain ⟨s, _, rfl⟩ := he
  simp only [toX]
  rcases labelsOf_cases o c d ⟨ms, []⟩ s.fp with h | ⟨t, ht, _, h⟩
  · rw [h]; simp [asMap, NodupKeys]
  · rw [h]; exact hd.nodupKeys t ht

theorem ofNat_toNat_inj (a b : Int) (ha : 0 ≤ a ∧ a < 2 ^ 64) (hb : 0 ≤ b ∧ b < 2 ^ 64)
    (h : UInt64.ofNat a.toNat = UInt64.ofNat b.toNat) : a = b := by
  have h1 := congrArg UInt64.toNat h
  simp only [UInt64.toNat_ofNat'] at h1
  have ha' : a.toNat < 2 ^ 64 := by omega
  have hb' : b.toNat < 2 ^ 64 := by omega
  rw [Nat.mod_eq_of_lt ha', Nat.mod_eq_of_lt hb'] at h1
  omega

/-- **(a) closed.** The rows of a statement whose stages are filters carry the stream's fingerprint and the stream's labels:
    under `SeriesStoreOk` the fingerprint identifies the label set among them — what `metricPlan_meets_logql` needs of
    the upstream when the in-process part (split at `line_format`) rewrites no labels. -/
theorem rows_fpFaithful (N : NumOps V) (o : Oracles) (c : LogQL.Ctx) (d : LokiDb) (hd : SeriesStoreOk o c d) (ms : List Matcher)
    (fs : List Stage) : FpFaithful (scanRows N (evalLogX o c false d ⟨ms, fs.map .fl⟩)) := by
  have hmem : ∀ a, a ∈ scanRows N (evalLogX o c false d ⟨ms, fs.map .fl⟩) →
      ∃ s ∈ d.samples, ∃ t ∈ d.ts, t.fp = s.fp ∧ a.fp = UInt64.ofNat s.fp.toNat ∧ a.labels = canonLabels (o.jsonLabels t.labels) := by
    intro a ha
    have ha' := (scanRows_evalLogX_perm N o c d ms (fs.map .fl)).mem_iff.mp ha
    simp only [baseX, splitPre_fl, stagesX, List.foldl_nil, List.mem_map] at ha'
    obtain ⟨x, ⟨s, hs, rfl⟩, rfl⟩ := ha'
    obtain ⟨hsm, hmatch⟩ := List.mem_filter.mp hs
    obtain ⟨t, ht, hfp⟩ := hd.present s hsm
    have hsel : fpSelected o c d ⟨ms, fs⟩ s.fp = true := by
      simp only [entryMatches, Bool.and_eq_true] at hmatch
      exact hmatch.1.2
    refine ⟨s, hsm, t, ht, hfp, rfl, ?_⟩
    simp only [scanX, toX, labelsOf_of_row o c d hd.toSeriesTableOk ⟨ms, fs⟩ s.fp hsel t ht hfp, asMap]
  intro a ha b hb
  obtain ⟨sa, _, ta, hta, hfa, hafp, hal⟩ := hmem a ha
  obtain ⟨sb, _, tb, htb, hfb, hbfp, hbl⟩ := hmem b hb
  constructor
  · intro h
    rw [hafp, hbfp] at h
    have := ofNat_toNat_inj sa.fp sb.fp (hfa ▸ hd.fpRange ta hta) (hfb ▸ hd.fpRange tb htb) h
    rw [hal, hbl, hd.oneDoc ta hta tb htb (by rw [hfa, hfb, this])]
  · intro h
    rw [hal, hbl] at h
    rw [hafp, hbfp, ← hfa, ← hfb, hd.fpOfLabels ta hta tb htb h]

/-! ### a plan whose in-process stages rewrite no labels: fingerprints stay the upstream's -/
/-- every entry of `es'` has the fingerprint and the labels of an entry of `es` -/
def KeepsSeries (es es' : List (Entry V)) : Prop := ∀ e ∈ es', ∃ r ∈ es, e.fp = r.fp ∧ e.labels = r.labels

theorem fpFaithful_of_keeps (es es' : List (Entry V)) (h : KeepsSeries es es') (hf : FpFaithful es) : FpFaithful es' := by
  intro a ha b hb
  obtain ⟨ra, hra, hafp, hal⟩ := h a ha
  obtain ⟨rb, hrb, hbfp, hbl⟩ := h b hb
  rw [hafp, hbfp, hal, hbl]
  exact hf ra hra rb hrb

theorem keepsSeries_trans (a b e : List (Entry V)) (h1 : KeepsSeries a b) (h2 : KeepsSeries b e) : KeepsSeries a e := by
  intro x hx
  obtain ⟨y, hy, h3, h4⟩ := h2 x hx
  obtain ⟨z, hz, h5, h6⟩ := h1 y hy
  exact ⟨z, hz, h3.trans h5, h4.trans h6⟩

theorem stage_keepsSeries (E : Env V) (s : StageK V) (hs : s.relabels = false) (es : List (Entry V)) :
    KeepsSeries es (Stages.stage E s es) := by
  intro e he
  cases s with
  | line op val => exact ⟨e, (List.mem_filter.mp he).1, rfl, rfl⟩
  | labelFilter c => exact ⟨e, (List.mem_filter.mp he).1, rfl, rfl⟩
  | parser k => simp [StageK.relabels] at hs
  | labelFormat ops => simp [StageK.relabels] at hs
  | drop ns vs => simp [StageK.relabels] at hs
  | lineFormat t =>
    simp only [Stages.stage, lineFormatStage, List.mem_filterMap, Option.map_eq_some_iff] at he
    obtain ⟨x, hx, _, _, rfl⟩ := he
    exact ⟨x, hx, rfl, rfl⟩
  | unwrap l =>
    simp only [Stages.stage, unwrapStage, List.mem_map] at he
    obtain ⟨x, hx, rfl⟩ := he
    refine ⟨x, hx, ?_, ?_⟩ <;>
    · generalize (if (if l = entryKey then x.msg else x.labels.get l) = [] then none
            else E.num.parse (if l = entryKey then x.msg else x.labels.get l)) = r
      cases r <;> rfl

theorem stages_keepsSeries (E : Env V) (ss : List (StageK V)) (hs : ∀ s ∈ ss, s.relabels = false) (es : List (Entry V)) :
    KeepsSeries es (Stages.stages E ss es) := by
  induction ss generalizing es with
  | nil => exact fun e he => ⟨e, he, rfl, rfl⟩
  | cons s rest ih =>
    exact keepsSeries_trans _ _ _ (stage_keepsSeries E s (hs s List.mem_cons_self) es)
      (ih (fun t ht => hs t (List.mem_cons_of_mem _ ht)) _)

/-- **`MetricOk` from the upstream's faithfulness**: a metric plan whose in-process stages rewrite no labels (a split at
    `line_format` followed by filters / `unwrap`) and that has no `by`/`without` in process groups by the fingerprints the
    upstream delivered; if those identify the label sets (`upstream_fpFaithful`: `SeriesStoreOk`), so do the streams that
    reach the aggregators -/
theorem metricOk_of_upstream (E : Env V) (c : Read.Ctx) (p : Plan V) (es : List (Entry V)) (hm : p.agg.isSome = true)
    (hnr : ∀ s ∈ p.stages, s.relabels = false) (hby : p.aggBy = none)
    (hvec : ∀ fn bw cmp, p.vec = some (fn, bw, cmp) → bw = none)
    (hcap : (firstBy (fun e : Entry V => e.fp) (aggInput E p es)).length ≤ c.maxSeries)
    (hcapVec : (firstBy (fun e : Entry V => e.fp) (vecInput E c p es)).length ≤ c.maxSeries)
    (hf : FpFaithful es) : MetricOk E c p es := by
  have hagg : KeepsSeries es (aggInput E p es) := by
    unfold aggInput
    split
    · rw [hby]; exact stages_keepsSeries E p.stages hnr es
    · exact stages_keepsSeries E p.stages hnr es
  have hfa := fpFaithful_of_keeps es _ hagg hf
  refine ⟨hcap, hfa, hcapVec, ?_⟩
  unfold vecInput
  split
  · rename_i fn bw cmp hv
    rw [hvec fn bw cmp hv]
    apply fpFaithful_of_keeps (aggInput E p es) _ _ hfa
    intro e he
    exact (rangeResult_mem E c p es hm e he).2
  · intro a ha; cases ha

end Qryn.Read
