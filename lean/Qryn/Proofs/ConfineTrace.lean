import Qryn.Proofs.ConfineDeep
import Qryn.Proofs.ConfineMetric
import Qryn.TraceQL.Planner
/-! C13 for the TraceQL planner model (`plan`, `planTags`, `planValues`): every statement the planner builds for a
    script it accepts passes `confinedDeep` (with enough fuel): the attribute-index scans by the covering date
    range of the window (and its timestamp bounds), the attribute-less span scans by timestamp bounds, the final
    span scans by the trace ids selected by those scans — through `&&` / `||` of selectors (set operations whose
    operands carry their own WITH lists) and through the alias clash of `trace_ids` for `{}`. -/
namespace Qryn.Confine
open Qryn Qryn.Sql Qryn.TraceQL

/-! ### what the predicates look at -/
def derivesFromE (ok : List Alias) : Option Expr → Bool
  | some (.withRef a) => ok.contains a
  | some (.arrayJoin (.withRef a) _) => ok.contains a
  | _ => false

theorem derivesFrom_eq (ok : List Alias) (s : Sel) : derivesFrom ok s = derivesFromE ok (fromOf s) := by
  cases s with
  | mk ws d c f j p wh g hv ob l =>
    cases f with
    | none => rfl
    | some e =>
      cases e <;> try rfl
      rename_i src arr
      cases src <;> rfl

theorem isIndexSelection_eq (cfg : Cfg) (s : Sel) : isIndexSelection cfg s =
    (match fromTable (fromOf s) with | some t => cfg.kind t == .index || cfg.kind t == .data | none => false) := by
  cases s; rfl

theorem yieldsOk_congr (cfg : Cfg) (f : Nat) (ok : List Alias) (s s' : Sel) (hf : fromOf s' = fromOf s) (hw : s'.withs = s.withs) :
    yieldsOk cfg f ok s' = yieldsOk cfg f ok s := by
  cases f with
  | zero => simp [yieldsOk]
  | succ f => rw [yieldsOk_succ, yieldsOk_succ, isIndexSelection_eq, isIndexSelection_eq, derivesFrom_eq, derivesFrom_eq,
      withsOf_eq, withsOf_eq, hf, hw]

theorem BD_congr (cfg : Cfg) (w : Window) (ok : List Alias) (s s' : Sel) (hf : fromOf s' = fromOf s) (hp : preOf s' = preOf s)
    (hw : whereOf s' = whereOf s) : BD cfg w ok s' ↔ BD cfg w ok s := by
  unfold BD
  rw [bodyConfined_congr cfg w ok s s' hf hp hw, hf]

/-! ### statements that are confined and yield ids of a confined selection, under the aliases of their own WITH list -/
structure GoodD (cfg : Cfg) (w : Window) (s : Sel) : Prop where
  withs : Inv (BD cfg w) (YD cfg) Gt [] s.withs
  body : ∀ ok, Sub (seenAfter Gt [] s.withs) ok → BD cfg w ok s
  yields : ∀ ok, Sub (seenAfter Gt [] s.withs) ok → YD cfg ok s

section Good
variable {cfg : Cfg} {w : Window}

theorem GoodD.entry {s : Sel} (g : GoodD cfg w s) (a : Alias) (S : List Alias) :
    Inv (BD cfg w) (YD cfg) Gt S (s.withs ++ [(a, s)]) := by
  apply Inv_mono _ _ _ (BD_Mono cfg w) (YD_Mono cfg) _ [] S (by intro x hx; cases hx)
  rw [Inv_append]
  exact ⟨g.withs, g.body _ (fun _ h => h), fun _ => g.yields _ (fun _ h => h), trivial⟩

theorem GoodD.congr {s s' : Sel} (g : GoodD cfg w s) (hf : fromOf s' = fromOf s) (hp : preOf s' = preOf s)
    (hw : whereOf s' = whereOf s) (hws : s'.withs = s.withs) : GoodD cfg w s' := by
  refine ⟨by rw [hws]; exact g.withs, ?_, ?_⟩
  · intro ok hsub
    rw [hws] at hsub
    exact (BD_congr cfg w ok s s' hf hp hw).mpr (g.body ok hsub)
  · intro ok hsub
    rw [hws] at hsub
    exact (g.yields ok hsub).imp (fun f h => by rw [yieldsOk_congr cfg f ok s s' hf hws]; exact h)

theorem GoodD.confined {s : Sel} (g : GoodD cfg w s) : Ev (fun f => confinedDeep cfg w f s = true) :=
  confinedDeep_of_inv cfg w Gt s (.named "statement") (g.entry _ [])

theorem GoodD.standalone {s : Sel} (g : GoodD cfg w s) : Ev (fun f => yieldsOk cfg f [] s = true) :=
  yields_standalone cfg w s g.withs (g.yields _ (fun _ h => h))

theorem YD_of_index {s : Sel} (ok : List Alias) (hi : isIndexSelection cfg s = true) : YD cfg ok s :=
  ⟨1, fun f hf => by
    obtain ⟨g, rfl⟩ : ∃ g, f = g + 1 := ⟨f - 1, by omega⟩
    rw [yieldsOk_succ, hi]; rfl⟩

theorem YD_of_derives {s : Sel} (ok : List Alias) (hd : derivesFrom ok s = true) : YD cfg ok s :=
  ⟨1, fun f hf => by
    obtain ⟨g, rfl⟩ : ∃ g, f = g + 1 := ⟨f - 1, by omega⟩
    rw [yieldsOk_succ, derivesFrom_mono ok _ (okDeep_super cfg _ g ok) s hd]; simp⟩

theorem BD_of_body {s : Sel} (ok : List Alias) (hb : bodyConfined cfg w ok s = true) (hs : fromSetop (fromOf s) = []) : BD cfg w ok s :=
  ⟨hb, ⟨0, fun f _ => by rw [hs]; exact allDeep_nil cfg w f⟩⟩

/-- a scan of a base table without WITH list, confined whatever is known -/
theorem GoodD.leaf {s : Sel} (hw : s.withs = []) (hb : ∀ ok, bodyConfined cfg w ok s = true) (hs : fromSetop (fromOf s) = [])
    (hi : isIndexSelection cfg s = true) : GoodD cfg w s :=
  ⟨by rw [hw]; trivial, fun ok _ => BD_of_body ok (hb ok) hs, fun ok _ => YD_of_index ok hi⟩

/-- an entry without WITH list of its own, judged under the aliases before it -/
theorem entry_of (S : List Alias) (a : Alias) (s : Sel) (hw : s.withs = []) (hb : BD cfg w S s) (hy : YD cfg S s) :
    Inv (BD cfg w) (YD cfg) Gt S (s.withs ++ [(a, s)]) := by
  rw [hw]
  exact ⟨hb, fun _ => hy, trivial⟩

/-- `X.With(ws…)` where `X` reads (or un-nests) one of the aliases it defines -/
theorem GoodD.wrap (x : Sel) (a : Alias) (ws : List (Alias × Sel)) (hsib : Sib (BD cfg w) (YD cfg) Gt [] ws)
    (ha : ∃ e ∈ ws, e.1 = a) (hnt : fromTable (fromOf x) = none) (hso : fromSetop (fromOf x) = [])
    (hd : ∀ ok : List Alias, a ∈ ok → derivesFromE ok (fromOf x) = true) : GoodD cfg w (x.with_ ws) := by
  have hmem : ∀ ok, Sub (seenAfter Gt [] (x.with_ ws).withs) ok → a ∈ ok :=
    fun ok hsub => hsub a (mem_seenAfter_with_ Gt x ws a rfl ha)
  refine ⟨with_sib _ _ _ (BD_Mono cfg w) (YD_Mono cfg) x ws hsib, ?_, ?_⟩
  · intro ok _
    exact BD_of_body ok (bodyConfined_noTable cfg w ok _ (by simpa using hnt)) (by simpa using hso)
  · intro ok hsub
    exact YD_of_derives ok (by rw [derivesFrom_eq]; simpa using hd ok (hmem ok hsub))

end Good

/-! ### `AndWhere` on a confined index scan -/
theorem conjuncts1_single (e : Expr) (h : ∀ cs, e ≠ .logical "and" cs) : conjuncts1 (some e) = [e] := by
  unfold conjuncts1
  split
  · rename_i heq; cases heq
  · rename_i cs heq; injection heq with heq; exact absurd heq (h cs)
  · rename_i e' _ heq; injection heq with heq; subst heq; rfl

theorem andCond_other (e : Expr) (cl : List Expr) (h : ∀ cs, e ≠ .logical "and" cs) : andCond (some e) cl = and_ (e :: cl) := by
  unfold andCond
  split
  · rename_i heq; cases heq
  · rename_i fn cs heq
    injection heq with heq
    subst heq
    have : fn ≠ "and" := fun hfn => h cs (by rw [hfn])
    simp [this]
  · rename_i heq
    injection heq with heq
    subst heq
    rfl

theorem conjuncts_andCond (wh : Option Expr) (cl : List Expr) :
    conjuncts (some (andCond wh cl)) = conjuncts wh ++ cl.flatMap splice := by
  cases wh with
  | none => simp [andCond, conjuncts_and]
  | some e =>
    by_cases h : ∃ cs, e = .logical "and" cs
    · obtain ⟨cs, rfl⟩ := h
      simp only [andCond, if_true]
      show conjuncts (some (and_ (cs ++ cl))) = conjuncts (some (and_ cs)) ++ _
      rw [conjuncts_and, conjuncts_and, List.flatMap_append]
    · have h' : ∀ cs, e ≠ .logical "and" cs := fun cs hc => h ⟨cs, hc⟩
      rw [andCond_other e cl h', conjuncts_and, List.flatMap_cons]
      simp only [conjuncts, conjuncts1_single e h', List.flatMap_cons, List.flatMap_nil, List.append_nil]

theorem whereOf_andWhere' (s : Sel) (cl : List Expr) : whereOf (s.andWhere cl) = some (andCond (whereOf s) cl) := by
  cases s; rfl

/-- an index scan confined by its date range and type filter stays so when conditions that do not touch the
    date column are added -/
theorem bodyConfined_andWhere_index (cfg : Cfg) (w : Window) (s : Sel) (t : String) (cl : List Expr)
    (hf : fromTable (fromOf s) = some t) (hk : cfg.kind t = .index) (hb : bodyConfined cfg w [] s = true)
    (hcl : ∀ e ∈ cl.flatMap splice, mentionsDate e = false) : bodyConfined cfg w [] (s.andWhere cl) = true := by
  cases s with
  | mk ws d c f j p wh g hv ob l =>
    simp only [fromOf] at hf
    simp only [Sel.andWhere, bodyConfined, hf, hk, conjuncts_andCond] at hb ⊢
    simp only [Bool.and_eq_true, Bool.or_eq_true, List.contains_nil, ← List.append_assoc] at hb ⊢
    obtain ⟨h1, h2⟩ := hb
    rcases h2 with h2 | h2
    · refine ⟨?_, Or.inl ⟨?_, ?_⟩⟩
      · rw [List.all_append, Bool.and_eq_true]
        refine ⟨h1, List.all_eq_true.mpr (fun e he => ?_)⟩
        simp [hcl e he]
      · rw [List.any_append, h2.1]; rfl
      · rcases h2.2 with h3 | h3
        · exact Or.inl h3
        · right; rw [List.any_append, h3]; rfl
    · obtain ⟨e, _, he⟩ := List.any_eq_true.mp h2
      split at he <;> cases he

/-! ### the scans of the TraceQL planner -/

/-- the window of a TraceQL request: exact bounds; the trace tables carry no signal type -/
def winT (c : Ctx) : Window := ⟨c.fromNs, c.toNs, 0, false, 0⟩

structure TraceCfg (cfg : Cfg) (c : Ctx) : Prop where
  attrs : cfg.kind c.attrsTable = .index
  attrsDist : cfg.kind c.attrsDistTable = .index
  traces : cfg.kind c.tracesTable = .data
  tracesDist : cfg.kind c.tracesDistTable = .data
  byId : cfg.byId c.tracesTable = true
  byIdDist : cfg.byId c.tracesDistTable = true

theorem fdiv_sec (ns : Int) : Int.fdiv ns 1000000000 = secOf ns := Int.fdiv_eq_ediv_of_nonneg ns (by decide)

/-- the four window conjuncts of an attribute-index scan -/
def idxBounds (c : Ctx) : List Expr :=
  [ge (.raw "date") (.str (Time.formatDate (Int.fdiv c.fromNs 1000000000))),
   le (.raw "date") (.str (Time.formatDate (Int.fdiv c.toNs 1000000000))),
   ge (.raw "traces_idx.timestamp_ns") (.int c.fromNs),
   lt (.raw "traces_idx.timestamp_ns") (.int c.toNs)]

/-- an attribute-index scan whose WHERE is `and(and(bounds ++ more))` with `more` not touching the date -/
theorem idxScan_confined (cfg : Cfg) (c : Ctx) (t : String) (ht : cfg.kind t = .index) (a : String) (more : List Expr)
    (hmore : ∀ e ∈ more, splice e = [e] ∧ mentionsDate e = false)
    (ws : List (Alias × Sel)) (d : Bool) (cols : List Expr) (j : List (String × Alias × Expr)) (g : List Expr)
    (hv : Option Expr) (ob : List Expr) (l : Option Expr) :
    bodyConfined cfg (winT c) [] (.mk ws d cols (some (.col (.raw t) a)) j none (some (and_ [and_ (idxBounds c ++ more)])) g hv ob l) = true := by
  have hc : conjuncts (some (and_ [and_ (idxBounds c ++ more)])) = idxBounds c ++ more := by
    rw [conjuncts_and]
    simp only [List.flatMap_cons, List.flatMap_nil, List.append_nil]
    show idxBounds c ++ more = _
    rfl
  simp only [bodyConfined, fromTable, ht, conjuncts_none, List.nil_append, hc]
  simp only [Bool.and_eq_true, Bool.or_eq_true]
  refine ⟨?_, Or.inl ⟨?_, ?_⟩⟩
  · rw [List.all_append, Bool.and_eq_true]
    constructor
    · simp [idxBounds, List.all, dateLower, dateUpper, mentionsDate, isDateCol, ge, le, lt, lowerInstants, upperInstants, winT, fdiv_sec]
    · exact List.all_eq_true.mpr (fun e he => by simp [(hmore e he).2])
  · simp [idxBounds, List.any, dateLower, isDateCol, ge]
  · simp [winT]


/-- an attribute-index scan without WITH list, confined by its own date range -/
structure IdxGood (cfg : Cfg) (w : Window) (t : String) (m : Sel) : Prop where
  withs : m.withs = []
  from_ : ∃ a, fromOf m = some (.col (.raw t) a)
  body : bodyConfined cfg w [] m = true

section Idx
variable {cfg : Cfg} {w : Window} {t : String} {m : Sel}

theorem IdxGood.congr (h : IdxGood cfg w t m) {m' : Sel} (hf : fromOf m' = fromOf m) (hp : preOf m' = preOf m)
    (hw : whereOf m' = whereOf m) (hws : m'.withs = m.withs) : IdxGood cfg w t m' :=
  ⟨by rw [hws]; exact h.withs, by rw [hf]; exact h.from_, by rw [bodyConfined_congr cfg w [] m m' hf hp hw]; exact h.body⟩

theorem IdxGood.andWhere (h : IdxGood cfg w t m) (ht : cfg.kind t = .index) (cl : List Expr)
    (hcl : ∀ e ∈ cl.flatMap splice, mentionsDate e = false) : IdxGood cfg w t (m.andWhere cl) := by
  obtain ⟨a, ha⟩ := h.from_
  exact ⟨by simpa using h.withs, ⟨a, by simpa using ha⟩,
    bodyConfined_andWhere_index cfg w m t cl (by rw [ha]; rfl) ht h.body hcl⟩

theorem IdxGood.good (h : IdxGood cfg w t m) (ht : cfg.kind t = .index) : GoodD cfg w m := by
  obtain ⟨a, ha⟩ := h.from_
  exact GoodD.leaf h.withs (fun ok => bodyConfined_mono cfg w [] ok (by intro x hx; cases hx) m h.body)
    (by rw [ha]; rfl) (by rw [isIndexSelection_eq, ha]; simp [fromTable, ht])

end Idx

@[simp] theorem fromOf_addCols (s : Sel) (c : List Expr) : fromOf (s.addCols c) = fromOf s := by cases s; rfl
@[simp] theorem preOf_addCols (s : Sel) (c : List Expr) : preOf (s.addCols c) = preOf s := by cases s; rfl
@[simp] theorem whereOf_addCols (s : Sel) (c : List Expr) : whereOf (s.addCols c) = whereOf s := by cases s; rfl
@[simp] theorem fromOf_andHaving (s : Sel) (c : List Expr) : fromOf (s.andHaving c) = fromOf s := by cases s; rfl
@[simp] theorem preOf_andHaving (s : Sel) (c : List Expr) : preOf (s.andHaving c) = preOf s := by cases s; rfl
@[simp] theorem whereOf_andHaving (s : Sel) (c : List Expr) : whereOf (s.andHaving c) = whereOf s := by cases s; rfl
@[simp] theorem fromOf_setLimit (s : Sel) (c : Option Expr) : fromOf (s.setLimit c) = fromOf s := by cases s; rfl
@[simp] theorem preOf_setLimit (s : Sel) (c : Option Expr) : preOf (s.setLimit c) = preOf s := by cases s; rfl
@[simp] theorem whereOf_setLimit (s : Sel) (c : Option Expr) : whereOf (s.setLimit c) = whereOf s := by cases s; rfl
@[simp] theorem fromOf_setOrderBy (s : Sel) (c : List Expr) : fromOf (s.setOrderBy c) = fromOf s := by cases s; rfl
@[simp] theorem preOf_setOrderBy (s : Sel) (c : List Expr) : preOf (s.setOrderBy c) = preOf s := by cases s; rfl
@[simp] theorem whereOf_setOrderBy (s : Sel) (c : List Expr) : whereOf (s.setOrderBy c) = whereOf s := by cases s; rfl
@[simp] theorem fromOf_setCols (s : Sel) (c : List Expr) : fromOf (s.setCols c) = fromOf s := by cases s; rfl
@[simp] theorem preOf_setCols (s : Sel) (c : List Expr) : preOf (s.setCols c) = preOf s := by cases s; rfl
@[simp] theorem whereOf_setCols (s : Sel) (c : List Expr) : whereOf (s.setCols c) = whereOf s := by cases s; rfl

theorem initIndex_idxGood (cfg : Cfg) (c : Ctx) (h : TraceCfg cfg c) : IdxGood cfg (winT c) c.attrsTable (initIndex c) :=
  ⟨rfl, ⟨_, rfl⟩, idxScan_confined cfg c c.attrsTable h.attrs "traces_idx" [] (by intro e he; cases he) _ _ _ _ _ _ _ _⟩

theorem or_nodate (xs : List Expr) : ∀ e ∈ [or_ xs].flatMap splice, mentionsDate e = false := by
  intro e he
  simp only [List.flatMap_cons, List.flatMap_nil, List.append_nil, or_] at he
  rw [splice_logical _ _ (by decide)] at he
  simp only [List.mem_singleton] at he
  subst he
  simp [mentionsDate]

theorem hash_nodate (n : String) (i : Int) :
    mentionsDate (eq (.raw ("cityHash64(trace_id) % " ++ n)) (.int i)) = false := by
  have hl : ("cityHash64(trace_id) % " ++ n).length = 23 + n.length := by
    rw [String.length_append]; rfl
  have ne : ∀ (x : String), x.length < 23 → "cityHash64(trace_id) % " ++ n ≠ x := fun x hx h => by
    have := congrArg String.length h; rw [hl] at this; omega
  have h1 := ne "date" (by decide)
  have h2 := ne "time_series.date" (by decide)
  have h3 := ne "traces_idx.date" (by decide)
  simp [mentionsDate, eq, isDateCol, h1, h2, h3]


theorem randomFilter_nodate (c : Ctx) : ∀ e ∈ (randomFilter c).flatMap splice, mentionsDate e = false := by
  intro e he
  unfold randomFilter at he
  dsimp only at he
  split at he
  · exact or_nodate _ e he
  · split at he
    · simp only [List.flatMap_cons, List.flatMap_nil, List.append_nil, eq] at he
      rw [splice_logical _ _ (by decide)] at he
      simp only [List.mem_singleton] at he
      subst he
      exact hash_nodate _ _
    · cases he

/-- `AttrConditionPlanner.Process`: whatever the conditions, the result is the attribute-index scan with its
    window conjuncts -/
theorem attrCondition_idxGood (cfg : Cfg) (c : Ctx) (h : TraceCfg cfg c) (terms : List Term) (cond : Cond) (agg : String)
    (m : Sel) (hm : attrCondition c terms cond agg = .ok m) : IdxGood cfg (winT c) c.attrsTable m := by
  obtain ⟨_, hm⟩ := attrCondition_core hm
  unfold attrConditionCore at hm
  cases hts : mapOk termSql terms with
  | error e => simp [hts, bind, Except.bind] at hm
  | ok ts =>
    simp only [hts, bind, Except.bind, pure, Except.pure, Except.ok.injEq] at hm
    have base : IdxGood cfg (winT c) c.attrsTable
        ((((initIndex c).addCols (aggCol agg)).andWhere [or_ (ts ++ aggWhere agg)]).andHaving [(condSql ts false cond).1]) := by
      have h1 : IdxGood cfg (winT c) c.attrsTable ((initIndex c).addCols (aggCol agg)) :=
        (initIndex_idxGood cfg c h).congr (by simp) (by simp) (by simp) (by simp)
      exact (h1.andWhere h.attrs [or_ (ts ++ aggWhere agg)] (or_nodate _)).congr (by simp) (by simp) (by simp) (by simp)
    subst hm
    split
    · exact base
    · exact base.andWhere h.attrs _ (randomFilter_nodate c)


/-! ### span-table scans bounded by timestamps -/
theorem conjuncts_nested (cs : List Expr) : conjuncts (some (and_ [and_ cs])) = cs := by
  rw [conjuncts_and]
  simp only [List.flatMap_cons, List.flatMap_nil, List.append_nil]
  rfl

/-- a scan of a data table (no signal type asked for) whose WHERE is `and(and(cs))` with both timestamp bounds in `cs` -/
theorem dataScan_confined (cfg : Cfg) (w : Window) (hw : w.needType = false) (t : String) (ht : cfg.kind t = .data) (a : String)
    (cs : List Expr) (hl : cs.any (isLowerTs w) = true) (hu : cs.any (isUpperTs w) = true) (ok : List Alias)
    (ws : List (Alias × Sel)) (d : Bool) (cols : List Expr) (j : List (String × Alias × Expr)) (g : List Expr)
    (hv : Option Expr) (ob : List Expr) (l : Option Expr) :
    bodyConfined cfg w ok (.mk ws d cols (some (.col (.raw t) a)) j none (some (and_ [and_ cs])) g hv ob l) = true := by
  simp [bodyConfined, fromTable, ht, conjuncts_nested, hl, hu, hw]

theorem lowerT (c : Ctx) (col : String) (hc : isTsCol col = true) : isLowerTs (winT c) (ge (.raw col) (.int c.fromNs)) = true := by
  simp [isLowerTs, ge, hc, winT]
theorem upperT (c : Ctx) (col : String) (hc : isTsCol col = true) : isUpperTs (winT c) (lt (.raw col) (.int c.toNs)) = true := by
  simp [isUpperTs, lt, hc, winT]
theorem upperTle (c : Ctx) (col : String) (hc : isTsCol col = true) : isUpperTs (winT c) (le (.raw col) (.int c.toNs)) = true := by
  simp [isUpperTs, le, hc, winT]

theorem any_of_mem {α} (l : List α) (p : α → Bool) (x : α) (hx : x ∈ l) (hp : p x = true) : l.any p = true :=
  List.any_eq_true.mpr ⟨x, hx, hp⟩

theorem contains_of_mem (ok : List Alias) (a : Alias) (h : a ∈ ok) : ok.contains a = true := List.contains_iff_mem.mpr h

/-- `AttrlessConditionPlanner.Process` -/
theorem attrless_good (cfg : Cfg) (c : Ctx) (h : TraceCfg cfg c) : GoodD cfg (winT c) (attrless c) := by
  unfold attrless
  dsimp only
  have e1 : ∀ ok, bodyConfined cfg (winT c) ok (.mk [] false [simpleCol "trace_id" "trace_id"] (some (.col (.raw c.tracesTable) "traces")) [] none
      (some (and_ [and_ [ge (.raw "timestamp_ns") (.int c.fromNs), lt (.raw "timestamp_ns") (.int c.toNs)]]))
      [.raw "trace_id"] none [.orderBy (.call "max" [.raw "timestamp_ns"]) .desc] (some (.int c.limit))) = true :=
    fun ok => dataScan_confined cfg _ rfl _ h.traces _ _ (any_of_mem _ _ _ (by simp) (lowerT c "timestamp_ns" (by decide))) (any_of_mem _ _ _ (by simp) (upperT c "timestamp_ns" (by decide))) ok _ _ _ _ _ _ _ _
  have e2 : ∀ ok, bodyConfined cfg (winT c) ok (.mk [] false
      [simpleCol "trace_id" "trace_id", .col (.call "groupArray(100)" [.raw "span_id"]) "span_id"] (some (.col (.raw c.tracesTable) "traces")) [] none
      (some (and_ [and_ [ge (.raw "timestamp_ns") (.int c.fromNs), lt (.raw "timestamp_ns") (.int c.toNs),
        .isIn (.raw "trace_id") [.withRef (.named "trace_ids")]]]))
      [.raw "trace_id"] none [] none) = true :=
    fun ok => dataScan_confined cfg _ rfl _ h.traces _ _ (any_of_mem _ _ _ (by simp) (lowerT c "timestamp_ns" (by decide))) (any_of_mem _ _ _ (by simp) (upperT c "timestamp_ns" (by decide))) ok _ _ _ _ _ _ _ _
  have hidx : ∀ (ws : List (Alias × Sel)) d cols j p wh g hv ob l,
      isIndexSelection cfg (.mk ws d cols (some (.col (.raw c.tracesTable) "traces")) j p wh g hv ob l) = true := by
    intros; simp [isIndexSelection, fromTable, h.traces]
  refine ⟨with_sib _ _ _ (BD_Mono cfg _) (YD_Mono cfg) _ _ ⟨?_, ?_, ?_, trivial⟩, ?_, ?_⟩
  · exact (GoodD.leaf rfl e1 rfl (hidx _ _ _ _ _ _ _ _ _ _)).entry _ _
  · exact (GoodD.leaf rfl e2 rfl (hidx _ _ _ _ _ _ _ _ _ _)).entry _ _
  · exact entry_of _ _ _ rfl (BD_of_body _ (bodyConfined_noTable cfg _ _ _ rfl) rfl)
      (YD_of_derives _ (by simp [derivesFrom, Gt]))
  · intro ok _
    refine BD_of_body ok ?_ rfl
    rw [bodyConfined_with_]
    exact dataScan_confined cfg _ rfl _ h.traces _ _ (any_of_mem _ _ _ (by simp) (lowerT c "timestamp_ns" (by decide))) (any_of_mem _ _ _ (by simp) (upperT c "timestamp_ns" (by decide))) ok _ _ _ _ _ _ _ _
  · intro ok _
    exact YD_of_index ok (by rw [isIndexSelection_eq]; simp [fromOf, Sel.with_, Sel.setWiths, fromTable, h.traces])

/-- `IndexGroupByPlanner.Process` -/
theorem indexGroupBy_good {cfg : Cfg} {w : Window} (pfx : String) {main : Sel} (g : GoodD cfg w main) :
    GoodD cfg w (indexGroupBy pfx main) := by
  unfold indexGroupBy
  exact GoodD.wrap _ (.named (pfx ++ "index_search")) _ ⟨g.entry _ _, trivial⟩ ⟨(.named (pfx ++ "index_search"), main), by simp, rfl⟩ rfl rfl
    (fun ok hm => contains_of_mem ok _ hm)

theorem aggregator_shape (pfx : String) (a : Agg) (main r : Sel) (h : aggregator pfx a main = .ok r) :
    ∃ e, r = main.andHaving [e] := by
  unfold aggregator at h
  cases hc : cmpSql a.cmp <;> cases hv : aggCmpText a <;>
    simp [hc, hv, bind, Except.bind, pure, Except.pure, throw, throwThe, MonadExceptOf.throw] at h
  exact ⟨_, h.symm⟩

theorem GoodD.andHaving {cfg : Cfg} {w : Window} {s : Sel} (g : GoodD cfg w s) (e : List Expr) : GoodD cfg w (s.andHaving e) :=
  g.congr (by simp) (by simp) (by simp) (by simp)
theorem GoodD.setLimit {cfg : Cfg} {w : Window} {s : Sel} (g : GoodD cfg w s) (e : Option Expr) : GoodD cfg w (s.setLimit e) :=
  g.congr (by simp) (by simp) (by simp) (by simp)
theorem GoodD.setOrderBy {cfg : Cfg} {w : Window} {s : Sel} (g : GoodD cfg w s) (e : List Expr) : GoodD cfg w (s.setOrderBy e) :=
  g.congr (by simp) (by simp) (by simp) (by simp)
theorem GoodD.addCols {cfg : Cfg} {w : Window} {s : Sel} (g : GoodD cfg w s) (e : List Expr) : GoodD cfg w (s.addCols e) :=
  g.congr (by simp) (by simp) (by simp) (by simp)
theorem GoodD.setCols {cfg : Cfg} {w : Window} {s : Sel} (g : GoodD cfg w s) (e : List Expr) : GoodD cfg w (s.setCols e) :=
  g.congr (by simp) (by simp) (by simp) (by simp)


/-- `simpleExpressionPlanner`: one selector -/
theorem simpleSel_good (cfg : Cfg) (c : Ctx) (h : TraceCfg cfg c) (pfx : String) (script : Script) (s : Sel)
    (hs : simpleSel c pfx script = .ok s) : GoodD cfg (winT c) s := by
  unfold simpleSel at hs
  cases hc : check script with
  | error e => simp [hc, bind, Except.bind] at hs
  | ok u =>
    simp only [hc, bind, Except.bind] at hs
    cases script with
    | nil => simp [throw, throwThe, MonadExceptOf.throw] at hs
    | cons hd tl =>
      obtain ⟨sel, op⟩ := hd
      simp only at hs
      have fin : ∀ res : Sel, GoodD cfg (winT c) res →
          (match sel.agg with
            | some a => aggregator pfx a (indexGroupBy pfx res)
            | none => pure (indexGroupBy pfx res)) = Except.ok s → GoodD cfg (winT c) s := by
        intro res gres hfin
        cases ha : sel.agg with
        | none =>
          simp only [ha, pure, Except.pure, Except.ok.injEq] at hfin
          subst hfin
          exact indexGroupBy_good pfx gres
        | some a =>
          simp only [ha] at hfin
          obtain ⟨e, rfl⟩ := aggregator_shape pfx a _ s hfin
          exact (indexGroupBy_good pfx gres).andHaving _
      cases hat : sel.attrs with
      | none =>
        simp only [hat, pure, Except.pure] at hs
        exact fin _ (attrless_good cfg c h) hs
      | some e =>
        simp only [hat] at hs
        split at hs
        · cases hs
        · rename_i m hm
          exact fin m ((attrCondition_idxGood cfg c h _ _ _ m hm).good h.attrs) hs


/-- the per-operand wrapping of `&&` / `||` -/
theorem operandSel_good {cfg : Cfg} {w : Window} (isAnd : Bool) (i : Nat) {s : Sel} (g : GoodD cfg w s) :
    GoodD cfg w (operandSel isAnd i s) := by
  unfold operandSel
  exact GoodD.wrap _ (.named ("_" ++ toString i ++ "_pre_")) _ ⟨(g.addCols _).entry _ _, trivial⟩
    ⟨(.named ("_" ++ toString i ++ "_pre_"), s.addCols [.col (.call "max" [.raw "timestamp_ns"]) "max_timestamp_ns"]), by simp, rfl⟩
    rfl rfl (fun ok hm => contains_of_mem ok _ hm)

/-- `ComplexAndPlanner` / `ComplexOrPlanner` over two operands -/
theorem complexSel_good {cfg : Cfg} {w : Window} (isAnd : Bool) (pfx : String) {ls rs : Sel}
    (gl : GoodD cfg w ls) (gr : GoodD cfg w rs) : GoodD cfg w (complexSel isAnd pfx [ls, rs]) := by
  have hso : fromSetop (fromOf (complexSel isAnd pfx [ls, rs])) = [operandSel isAnd 0 ls, operandSel isAnd 1 rs] := rfl
  obtain ⟨n0, c0⟩ := (operandSel_good isAnd 0 gl).confined
  obtain ⟨n1, c1⟩ := (operandSel_good isAnd 1 gr).confined
  obtain ⟨m0, y0⟩ := (operandSel_good isAnd 0 gl).standalone
  obtain ⟨m1, y1⟩ := (operandSel_good isAnd 1 gr).standalone
  refine ⟨trivial, ?_, ?_⟩
  · intro ok _
    refine ⟨bodyConfined_noTable cfg w ok _ rfl, ⟨max n0 n1 + 2, fun f hf => ?_⟩⟩
    obtain ⟨g, rfl⟩ : ∃ g, f = g + 2 := ⟨f - 2, by omega⟩
    rw [hso, allDeep_succ, allDeep_succ, allDeep_nil, c0 (g + 1) (by omega), c1 g (by omega)]
    rfl
  · intro ok _
    refine ⟨max m0 m1 + 3, fun f hf => ?_⟩
    obtain ⟨g, rfl⟩ : ∃ g, f = g + 3 := ⟨f - 3, by omega⟩
    rw [yieldsOk_succ, hso, allYield_succ, allYield_succ, allYield_nil, y0 (g + 1) (by omega), y1 g (by omega)]
    simp

/-- the tree `planComplex` builds -/
theorem treeSel_good (cfg : Cfg) (c : Ctx) (h : TraceCfg cfg c) (t : XTree) :
    ∀ s, treeSel c t = .ok s → GoodD cfg (winT c) s := by
  induction t with
  | simple script k => intro s hs; exact simpleSel_good cfg c h _ script s hs
  | complex isAnd k l r ihl ihr =>
    intro s hs
    unfold treeSel at hs
    cases hl : treeSel c l with
    | error e => simp [hl, bind, Except.bind] at hs
    | ok ls =>
      cases hr : treeSel c r with
      | error e => simp [hl, hr, bind, Except.bind] at hs
      | ok rs =>
        simp only [hl, hr, bind, Except.bind, pure, Except.pure, Except.ok.injEq] at hs
        subst hs
        exact complexSel_good isAnd _ (ihl ls hl) (ihr rs hr)

theorem rootSel_good (cfg : Cfg) (c : Ctx) (h : TraceCfg cfg c) (script : Script) (s : Sel)
    (hs : rootSel c script = .ok s) : GoodD cfg (winT c) s := by
  unfold rootSel at hs
  split at hs
  · simp [throw, throwThe, MonadExceptOf.throw] at hs
  · exact simpleSel_good cfg c h "" _ s hs
  · cases ht : planTree script with
    | error e => simp [ht, bind, Except.bind] at hs
    | ok t =>
      simp only [ht, bind, Except.bind] at hs
      exact treeSel_good cfg c h t s hs

theorem indexLimit_good {cfg : Cfg} {w : Window} (c : Ctx) {s : Sel} (g : GoodD cfg w s) : GoodD cfg w (indexLimit c s) := by
  unfold indexLimit
  split
  · exact g
  · exact g.setLimit _

theorem conjuncts_and1 (e : Expr) (h : splice e = [e]) : conjuncts (some (and_ [e])) = [e] :=
  conjuncts_and_flat [e] (by intro x hx; simp only [List.mem_singleton] at hx; subst hx; exact h)

/-- `TracesDataPlanner.Process`: the span scans are reached through the trace ids the index selection yields -/
theorem tracesData_good (cfg : Cfg) (c : Ctx) (h : TraceCfg cfg c) {main : Sel} (g : GoodD cfg (winT c) main) :
    GoodD cfg (winT c) (tracesData c main) := by
  unfold tracesData
  dsimp only
  have hidIn : idIn (.isIn (.raw "traces.trace_id") [.withRef (.named "trace_ids")]) = some (.named "trace_ids") := by
    simp [idIn]
  refine ⟨with_sib _ _ _ (BD_Mono cfg _) (YD_Mono cfg) _ _ ⟨g.entry _ _, ?_, ?_, ?_, trivial⟩, ?_, ?_⟩
  · exact entry_of _ _ _ rfl (BD_of_body _ (bodyConfined_noTable cfg _ _ _ rfl) rfl)
      (YD_of_derives _ (by simp [derivesFrom, Gt]))
  · exact entry_of _ _ _ rfl (BD_of_body _ (bodyConfined_noTable cfg _ _ _ rfl) rfl)
      (YD_of_derives _ (by simp [derivesFrom, Gt]))
  · refine entry_of _ _ _ rfl (BD_of_body _ ?_ rfl) (YD_of_index _ (by simp [isIndexSelection, fromTable, h.traces]))
    simp only [bodyConfined, fromTable, h.traces, h.byId, conjuncts_none, List.nil_append,
      conjuncts_and1 _ (splice_isIn _ _), List.any_cons, hidIn, Gt]
    simp
  · intro ok hsub
    have hmem : Alias.named "trace_ids" ∈ ok :=
      hsub _ (mem_seenAfter_with_ Gt _ _ _ rfl ⟨_, List.mem_cons_of_mem _ List.mem_cons_self, rfl⟩)
    refine BD_of_body ok ?_ (by simp only [fromOf_with_]; cases c.isCluster <;> rfl)
    rw [bodyConfined_with_]
    have hc : conjuncts (some (and_ [.isIn (.raw "traces.trace_id") [.withRef (.named "trace_ids")],
        .isIn (.call "" [.raw "traces.trace_id", .raw "traces.span_id"]) [.withRef (.named "trace_span_ids")]])) =
        [.isIn (.raw "traces.trace_id") [.withRef (.named "trace_ids")],
         .isIn (.call "" [.raw "traces.trace_id", .raw "traces.span_id"]) [.withRef (.named "trace_span_ids")]] :=
      conjuncts_and_flat _ (by intro e he; simp only [List.mem_cons, List.not_mem_nil, or_false] at he; rcases he with rfl | rfl <;> rfl)
    cases hcl : c.isCluster
    · simp only [hcl, Bool.false_eq_true, if_false, bodyConfined, fromTable, h.traces, h.byId, conjuncts_none, List.nil_append, hc,
        List.any_cons, hidIn, contains_of_mem ok _ hmem]
      simp
    · simp only [hcl, if_true, bodyConfined, fromTable, h.tracesDist, h.byIdDist, conjuncts_none, List.nil_append, hc,
        List.any_cons, hidIn, contains_of_mem ok _ hmem]
      simp
  · intro ok _
    refine YD_of_index ok ?_
    rw [isIndexSelection_eq]
    cases hcl : c.isCluster <;> simp [fromOf, Sel.with_, Sel.setWiths, fromTable, h.traces, h.tracesDist]

/-- `clickhouse_transpiler.Plan(script).Process(ctx)` -/
theorem plan_good (cfg : Cfg) (c : Ctx) (h : TraceCfg cfg c) (script : Script) (s : Sel)
    (hs : plan c script = .ok s) : GoodD cfg (winT c) s := by
  unfold plan indexGrouped at hs
  cases hr : rootSel c script with
  | error e => simp [hr, bind, Except.bind] at hs
  | ok r =>
    simp only [hr, bind, Except.bind, pure, Except.pure, Except.ok.injEq] at hs
    subst hs
    exact indexLimit_good c (tracesData_good cfg c h (indexLimit_good c (rootSel_good cfg c h script r hr)))


/-! ### `PlanTagsV2` / `PlanValuesV2` -/

/-- the scan `SelectTagsPlanner` adds, on its own -/
theorem selectTags_body (cfg : Cfg) (c : Ctx) (h : TraceCfg cfg c) (col : String) (main : Sel) :
    bodyConfined cfg (winT c) [] (selectTags c col main) = true := by
  unfold selectTags
  dsimp only
  rw [bodyConfined_with_]
  exact idxScan_confined cfg c c.attrsDistTable h.attrsDist "traces_idx" [.isIn (.raw "span_id") [.withRef (.named "pre_select_tags")]]
    (by intro e he; simp only [List.mem_singleton] at he; subst he; exact ⟨rfl, rfl⟩) _ _ _ _ _ _ _ _

theorem selectTags_from (c : Ctx) (col : String) (main : Sel) :
    fromOf (selectTags c col main) = some (.col (.raw c.attrsDistTable) "traces_idx") := by
  unfold selectTags; dsimp only; rw [fromOf_with_]; rfl

theorem selectTags_good (cfg : Cfg) (c : Ctx) (h : TraceCfg cfg c) (col : String) {main : Sel} (g : GoodD cfg (winT c) main) :
    GoodD cfg (winT c) (selectTags c col main) := by
  refine ⟨?_, ?_, ?_⟩
  · unfold selectTags
    dsimp only
    refine with_sib _ _ _ (BD_Mono cfg _) (YD_Mono cfg) _ _ ⟨g.entry _ _, ?_, trivial⟩
    exact entry_of _ _ _ rfl (BD_of_body _ (bodyConfined_noTable cfg _ _ _ rfl) rfl)
      (YD_of_derives _ (by simp [derivesFrom, Gt]))
  · intro ok _
    exact BD_of_body ok (bodyConfined_mono cfg _ [] ok (by intro x hx; cases hx) _ (selectTags_body cfg c h col main))
      (by rw [selectTags_from]; rfl)
  · intro ok _
    exact YD_of_index ok (by rw [isIndexSelection_eq, selectTags_from]; simp [fromTable, h.attrsDist])

theorem tagsOrder_good {cfg : Cfg} {w : Window} (c : Ctx) (col : String) {s : Sel} (g : GoodD cfg w s) : GoodD cfg w (tagsOrder c col s) := by
  unfold tagsOrder
  split
  · exact (g.setOrderBy _).setLimit _
  · exact g

theorem tagsOrder_proj (c : Ctx) (col : String) (s : Sel) :
    fromOf (tagsOrder c col s) = fromOf s ∧ preOf (tagsOrder c col s) = preOf s ∧ whereOf (tagsOrder c col s) = whereOf s ∧
    (tagsOrder c col s).withs = s.withs := by
  unfold tagsOrder
  split <;> simp

theorem tagsMain_some (cfg : Cfg) (c : Ctx) (h : TraceCfg cfg c) (script : Script) (m : Sel)
    (hm : tagsMain c script = .ok (some m)) : IdxGood cfg (winT c) c.attrsTable m := by
  unfold tagsMain at hm
  split at hm
  · simp [throw, throwThe, MonadExceptOf.throw, bind, Except.bind] at hm
  · simp [throw, throwThe, MonadExceptOf.throw, bind, Except.bind] at hm
  · rename_i sel op
    cases hc : check [(sel, op)] with
    | error e => simp [hc, bind, Except.bind] at hm
    | ok u =>
      simp only [hc, bind, Except.bind] at hm
      split at hm
      · simp [pure, Except.pure] at hm
      · split at hm
        · cases hm
        · rename_i m' hm'
          simp only [pure, Except.pure, Except.ok.injEq, Option.some.injEq] at hm
          subst hm
          exact attrCondition_idxGood cfg c h _ _ _ _ hm'

/-- `AllTagsRequestPlanner.Process`: a scan of the key-value index between the date bounds -/
theorem allTags_good (cfg : Cfg) (c : Ctx) (kvTable : String) (hkv : cfg.kind kvTable = .index) :
    GoodD cfg (winT c) (allTags c kvTable) := by
  unfold allTags
  refine GoodD.leaf rfl (fun ok => bodyConfined_mono cfg _ [] ok (by intro x hx; cases hx) _ ?_) rfl
    (by simp [isIndexSelection, fromTable, hkv])
  have hc : conjuncts (some (and_ [ge (.raw "date") (.str (Time.formatFromDate c.fromNs)),
      le (.raw "date") (.str (Time.formatDate (Int.fdiv c.toNs 1000000000)))])) =
      [ge (.raw "date") (.str (Time.formatFromDate c.fromNs)),
       le (.raw "date") (.str (Time.formatDate (Int.fdiv c.toNs 1000000000)))] :=
    conjuncts_and_flat _ (by
      intro e he
      simp only [List.mem_cons, List.not_mem_nil, or_false] at he
      rcases he with rfl | rfl <;> exact splice_logical _ _ (by decide))
  simp only [bodyConfined, fromTable, hkv, conjuncts_none, List.nil_append, hc]
  simp [List.all, List.any, dateLower, dateUpper, mentionsDate, isDateCol, ge, le, lowerInstants, upperInstants, winT,
    fdiv_sec, Time.formatFromDate, secOf]

/-- `AllValuesRequestPlanner.Process` -/
theorem allValues_good (cfg : Cfg) (c : Ctx) (kvTable : String) (hkv : cfg.kind kvTable = .index) (key : Bytes) :
    GoodD cfg (winT c) (allValues c kvTable key) := by
  unfold allValues
  refine GoodD.leaf rfl (fun ok => bodyConfined_mono cfg _ [] ok (by intro x hx; cases hx) _ ?_) rfl
    (by simp [isIndexSelection, fromTable, hkv])
  have hc : conjuncts (some (and_ [ge (.raw "date") (.str (Time.formatFromDate c.fromNs)),
      le (.raw "date") (.str (Time.formatDate (Int.fdiv c.toNs 1000000000))), eq (.raw "key") (.str key)])) =
      [ge (.raw "date") (.str (Time.formatFromDate c.fromNs)),
       le (.raw "date") (.str (Time.formatDate (Int.fdiv c.toNs 1000000000))), eq (.raw "key") (.str key)] :=
    conjuncts_and_flat _ (by
      intro e he
      simp only [List.mem_cons, List.not_mem_nil, or_false] at he
      rcases he with rfl | rfl | rfl <;> exact splice_logical _ _ (by decide))
  simp only [bodyConfined, fromTable, hkv, conjuncts_none, List.nil_append, hc]
  simp [List.all, List.any, dateLower, dateUpper, mentionsDate, isDateCol, ge, le, eq, lowerInstants, upperInstants, winT,
    fdiv_sec, Time.formatFromDate, secOf]

/-- `PlanTagsV2(script).Process(ctx)` -/
theorem planTags_good (cfg : Cfg) (c : Ctx) (h : TraceCfg cfg c) (kvTable : String) (hkv : cfg.kind kvTable = .index)
    (script : Script) (s : Sel) (hs : planTags c kvTable script = .ok s) : GoodD cfg (winT c) s := by
  unfold planTags at hs
  cases ht : tagsMain c script with
  | error e => simp [ht, bind, Except.bind] at hs
  | ok om =>
    cases om with
    | none =>
      simp only [ht, bind, Except.bind, pure, Except.pure, Except.ok.injEq] at hs
      subst hs
      exact allTags_good cfg c kvTable hkv
    | some m =>
      simp only [ht, bind, Except.bind, pure, Except.pure, Except.ok.injEq] at hs
      subst hs
      exact tagsOrder_good c "key" (selectTags_good cfg c h "key" ((tagsMain_some cfg c h script m ht).good h.attrs))

/-- an index-scan statement stays good when conditions that do not touch the date column are added -/
theorem GoodD.andWhereIdx {cfg : Cfg} {w : Window} {s : Sel} (g : GoodD cfg w s) (t : String)
    (hf : fromTable (fromOf s) = some t) (hk : cfg.kind t = .index) (hb : bodyConfined cfg w [] s = true) (cl : List Expr)
    (hcl : ∀ e ∈ cl.flatMap splice, mentionsDate e = false) : GoodD cfg w (s.andWhere cl) := by
  refine ⟨by simpa using g.withs, ?_, ?_⟩
  · intro ok _
    refine ⟨bodyConfined_mono cfg w [] ok (by intro x hx; cases hx) _ (bodyConfined_andWhere_index cfg w s t cl hf hk hb hcl), ?_⟩
    have := (g.body _ (fun _ h => h)).2
    simpa using this
  · intro ok hsub
    rw [withs_andWhere] at hsub
    exact (g.yields ok hsub).imp (fun f hy => by rw [yieldsOk_congr cfg f ok s _ (by simp) (by simp)]; exact hy)

theorem key_nodate (key : Bytes) : ∀ e ∈ [eq (.raw "key") (.str key)].flatMap splice, mentionsDate e = false := by
  intro e he
  simp only [List.flatMap_cons, List.flatMap_nil, List.append_nil, eq] at he
  rw [splice_logical _ _ (by decide)] at he
  simp only [List.mem_singleton] at he
  subst he
  rfl

theorem GoodD.setGroupBy {cfg : Cfg} {w : Window} {s : Sel} (g : GoodD cfg w s) (e : List Expr) : GoodD cfg w (s.setGroupBy e) :=
  g.congr (by cases s; rfl) (by cases s; rfl) (by cases s; rfl) (by cases s; rfl)

/-- `PlanValuesV2(script, key).Process(ctx)` -/
theorem planValues_good (cfg : Cfg) (c : Ctx) (h : TraceCfg cfg c) (kvTable : String) (hkv : cfg.kind kvTable = .index)
    (key : Bytes) (script : Script) (s : Sel) (hs : planValues c kvTable key script = .ok s) : GoodD cfg (winT c) s := by
  unfold planValues at hs
  cases ht : tagsMain c script with
  | error e => simp [ht, bind, Except.bind] at hs
  | ok om =>
    cases om with
    | none =>
      simp only [ht, bind, Except.bind, pure, Except.pure, Except.ok.injEq] at hs
      subst hs
      exact allValues_good cfg c kvTable hkv key
    | some m =>
      simp only [ht, bind, Except.bind, pure, Except.pure, Except.ok.injEq] at hs
      subst hs
      have gm := (tagsMain_some cfg c h script m ht).good h.attrs
      have g1 := tagsOrder_good c "key" (selectTags_good cfg c h "key" gm)
      obtain ⟨p1, p2, p3, p4⟩ := tagsOrder_proj c "key" (selectTags c "key" m)
      apply tagsOrder_good
      apply GoodD.setGroupBy
      refine (g1.setCols _).andWhereIdx c.attrsDistTable ?_ h.attrsDist ?_ _ (key_nodate key)
      · simp [p1, selectTags_from, fromTable]
      · rw [bodyConfined_setCols, bodyConfined_congr cfg _ [] _ _ p1 p2 p3]
        exact selectTags_body cfg c h "key" m

end Qryn.Confine
