import Qryn.LogQL.SameShapeMetric
import Qryn.Proofs.ShapeBuild
import Qryn.Proofs.SameShape
/-! C10, two metric requests of the same shape: `shapeS (planMetric c q) = shapeS (planMetric c q.skel)` — the planner looks
    at a query only through its skeleton, leaf contents end up in string leaves only. -/
namespace Qryn.LogQL
open Qryn Qryn.Sql

/-! ### the selector -/

theorem shapeE_matcherClause (m : Matcher) : shapeE (matcherClause m) = shapeE (matcherClause m.skel) := by
  obtain ⟨l, op, v⟩ := m
  cases op <;> simp [matcherClause, Matcher.skel, and_, eq, neq, shapeE, shapeEs]

theorem shapeEs_clauses (ms : List Matcher) :
    shapeEs (ms.map matcherClause) = shapeEs ((ms.map Matcher.skel).map matcherClause) := by
  simp only [shapeEs_eq_map, List.map_map]
  exact List.map_congr_left (fun m _ => shapeE_matcherClause m)

theorem shapeS_streamSelect (c : Ctx) (ms : List Matcher) :
    shapeS (streamSelect c ms) = shapeS (streamSelect c (ms.map Matcher.skel)) := by
  have h := shapeEs_clauses ms
  simp only [streamSelect, shapeS, shapeO, shapeE, shapeEs, and_, or_, eq, ge, h, List.length_map]

theorem shapeE_labelCondSql (g : String → Expr) : ∀ lc : LabelCond, shapeE (labelCondSql g lc) = shapeE (labelCondSql g lc.skel)
  | .str l op v => by cases op <;> simp [labelCondSql, LabelCond.skel, eq, neq, shapeE, shapeEs]
  | .num l op v => rfl
  | .and l r => by
    simp [labelCondSql, LabelCond.skel, and_, shapeE, shapeEs, shapeE_labelCondSql g l, shapeE_labelCondSql g r]
  | .or l r => by
    simp [labelCondSql, LabelCond.skel, or_, shapeE, shapeEs, shapeE_labelCondSql g l, shapeE_labelCondSql g r]

theorem shapeS_labelFilterBody (c : Ctx) (k : Nat) (lc : LabelCond) :
    shapeS (labelFilterBody c k lc) = shapeS (labelFilterBody c k lc.skel) := by
  simp only [labelFilterBody, shapeS, shapeO, shapeE, shapeEs, and_, shapeE_labelCondSql _ lc]

theorem shapeWs_fpChain (c : Ctx) : ∀ (conds : List LabelCond) (k : Nat) (cur cur' : Sel), shapeS cur = shapeS cur' →
    shapeWs (fpChain c cur k conds) = shapeWs (fpChain c cur' k (conds.map LabelCond.skel))
  | [], _, _, _, h => by simp [fpChain, shapeWs, h]
  | lc :: rest, k, cur, cur', h => by
    simp only [fpChain, List.map_cons, shapeWs, h]
    rw [shapeWs_fpChain c rest (k + 1) _ _ (shapeS_labelFilterBody c (k + 1) lc)]

theorem labelConds_skel (q : LogQuery) : labelConds q.skel = (labelConds q).map LabelCond.skel := by
  obtain ⟨ms, ss⟩ := q
  simp only [labelConds, LogQuery.skel]
  induction ss with
  | nil => rfl
  | cons s ss ih => cases s <;> simp [Stage.skel, List.filterMap_cons, ih]

theorem lineFilters_skel (q : LogQuery) : lineFilters q.skel = (lineFilters q).map LineFilter.skelF := by
  obtain ⟨ms, ss⟩ := q
  simp only [lineFilters, LogQuery.skel]
  induction ss with
  | nil => rfl
  | cons s ss ih => cases s <;> simp [Stage.skel, List.filterMap_cons, ih]

theorem shapeWs_getLast? (ws : List (Alias × Sel)) :
    (shapeWs ws).getLast? = ws.getLast?.map (fun w => (w.1, shapeS w.2)) := by
  simp [shapeWs_eq_map, List.getLast?_map]

theorem shapeWs_dropLast (ws : List (Alias × Sel)) : shapeWs ws.dropLast = (shapeWs ws).dropLast := by
  simp [shapeWs_eq_map, List.map_dropLast]

/-- two chains with the same shape: their last select with the rest as its WITH list (`fpQuery`) have the same shape -/
theorem shapeS_lastWithRest (x y : List (Alias × Sel)) (d d' : Sel) (h : shapeWs x = shapeWs y) (hd : shapeS d = shapeS d') :
    shapeS (match x.getLast? with | some (_, s) => s.setWiths x.dropLast | none => d) =
      shapeS (match y.getLast? with | some (_, s) => s.setWiths y.dropLast | none => d') := by
  have hl := shapeWs_getLast? x
  have hl' := shapeWs_getLast? y
  rw [h] at hl
  rw [hl'] at hl
  have hdl : shapeWs x.dropLast = shapeWs y.dropLast := by rw [shapeWs_dropLast, shapeWs_dropLast, h]
  cases hx : x.getLast? with
  | none =>
    cases hy : y.getLast? with
    | none => simpa using hd
    | some w => simp [hx, hy] at hl
  | some w =>
    cases hy : y.getLast? with
    | none => simp [hx, hy] at hl
    | some w' =>
      obtain ⟨a, s⟩ := w
      obtain ⟨a', s'⟩ := w'
      simp only [hx, hy, Option.map_some, Option.some.injEq, Prod.mk.injEq] at hl
      simp only [shapeS_setWiths, hl.2, hdl]

theorem shapeS_fpQuery (c : Ctx) (q : LogQuery) : shapeS (fpQuery c q) = shapeS (fpQuery c q.skel) := by
  unfold fpQuery
  have hch := shapeWs_fpChain c (labelConds q) 0 _ _ (shapeS_streamSelect c q.matchers)
  simp only
  rw [labelConds_skel]
  exact shapeS_lastWithRest _ _ _ _ (by simpa [LogQuery.skel] using hch) (by simpa [LogQuery.skel] using shapeS_streamSelect c q.matchers)

theorem shapeE_likeClause (fn : String) (x y : Bytes) : shapeE (likeClause fn x) = shapeE (likeClause fn y) := by
  simp [likeClause, eq, shapeE, shapeEs]

theorem shapeE_lineClause (f : LineFilter) : shapeE (lineClause f) = shapeE (lineClause f.skelF) := by
  obtain ⟨op, v, like⟩ := f
  cases op
  · exact shapeE_likeClause _ _ _
  · exact shapeE_likeClause _ _ _
  · cases like with
    | none => simp [lineClause, LineFilter.skelF, eq, shapeE, shapeEs]
    | some li => simp only [lineClause, LineFilter.skelF, Option.map_some]; exact shapeE_likeClause _ _ _
  · cases like with
    | none => simp [lineClause, LineFilter.skelF, eq, shapeE, shapeEs]
    | some li => simp only [lineClause, LineFilter.skelF, Option.map_some]; exact shapeE_likeClause _ _ _

/-! ### column helpers commute with `shapeE` -/

theorem shapeEs_renameCol (cols : List Expr) (o n : String) : shapeEs (renameCol cols o n) = renameCol (shapeEs cols) o n := by
  simp only [shapeEs_eq_map, renameCol, List.map_map]
  apply List.map_congr_left
  intro c _
  cases c with
  | col e a => by_cases h : a = o <;> simp [h, shapeE]
  | _ => simp [shapeE]

theorem shapeEs_patchCol (cols : List Expr) (name : String) (f f' : Expr → Expr) (hf : ∀ e, shapeE (f e) = f' (shapeE e)) :
    shapeEs (patchCol cols name f) = patchCol (shapeEs cols) name f' := by
  simp only [shapeEs_eq_map, patchCol, List.map_map]
  apply List.map_congr_left
  intro c _
  cases c with
  | col e a => by_cases h : a = name <;> simp [h, shapeE, hf]
  | _ => simp [shapeE]

theorem hasColumn_shapeEs (cols : List Expr) (name : String) : hasColumn (shapeEs cols) name = hasColumn cols name := by
  simp only [shapeEs_eq_map, hasColumn, List.any_map]
  congr 1
  funext c
  cases c <;> simp [shapeE]

theorem getCol_shapeEs (cols : List Expr) (name : String) : getCol (shapeEs cols) name = (getCol cols name).map shapeE := by
  simp only [getCol]
  induction cols with
  | nil => simp [shapeEs]
  | cons c cs ih =>
    cases c with
    | col e a =>
      by_cases h : a = name
      · simp [shapeEs, shapeE, List.findSome?_cons, h]
      · have hb : (a == name) = false := by simpa using h
        simp only [shapeEs, shapeE, List.findSome?_cons, hb, Bool.false_eq_true, if_false]
        exact ih
    | _ =>
      simp only [shapeEs, shapeE, List.findSome?_cons]
      exact ih

theorem shapeS_setLimit' (s : Sel) (l : Option Expr) : shapeS (s.setLimit l) = (shapeS s).setLimit (shapeO l) := by
  cases s; simp [Sel.setLimit, shapeS]

/-! ### the builders of the metric planner: leaf-free ones commute with `shapeS` -/

theorem shapeS_samplesInit (c : Ctx) : shapeS (samplesInit c) = samplesInit c := by
  simp [samplesInit, shapeS, shapeO, shapeE, shapeEs, shapeWs, shapeJs, simpleCol, and_, ge, lt, getTypes]

theorem shapeS_joinedSel (c : Ctx) : shapeS (joinedSel c) = joinedSel c := by
  simp [joinedSel, shapeS, shapeO, shapeE, shapeEs, shapeWs, shapeJs, simpleCol, eq]

/-- shape of a select with one WITH entry -/
theorem shapeS_with1 (s : Sel) (a : Alias) (w : Sel) : shapeS (s.with_ [(a, w)]) = (shapeS s).with_ [(a, shapeS w)] := by
  rw [shapeS_with_]; simp [shapeWs]
theorem shapeS_with2 (s : Sel) (a a' : Alias) (w w' : Sel) :
    shapeS (s.with_ [(a, w), (a', w')]) = (shapeS s).with_ [(a, shapeS w), (a', shapeS w')] := by
  rw [shapeS_with_]; simp [shapeWs]

theorem shapeS_fingerprintFilter (c : Ctx) (q : LogQuery) (main : Sel) :
    shapeS (fingerprintFilter c q main) =
      ((shapeS main).with_ [(.named "fp_sel", shapeS (fpQuery c q))]).andWhere [.isIn (.raw "samples.fingerprint") [.withRef (.named "fp_sel")]] := by
  simp [fingerprintFilter, fpWith, shapeS_andWhere, shapeS_with1, shapeEs, shapeE]

theorem shapeS_foldl_andWhere (fs : List LineFilter) : ∀ (s s' : Sel), shapeS s = shapeS s' →
    shapeS (fs.foldl (fun s f => s.andWhere [lineClause f]) s) =
      shapeS ((fs.map LineFilter.skelF).foldl (fun s f => s.andWhere [lineClause f]) s') := by
  induction fs with
  | nil => intro s s' h; simpa using h
  | cons f fs ih =>
    intro s s' h
    simp only [List.foldl_cons, List.map_cons]
    apply ih
    rw [shapeS_andWhere, shapeS_andWhere, h]
    simp [shapeEs, shapeE_lineClause f]

theorem shapeS_samplesMain (c : Ctx) (q : LogQuery) : shapeS (samplesMain c q) = shapeS (samplesMain c q.skel) := by
  unfold samplesMain
  rw [lineFilters_skel]
  apply shapeS_foldl_andWhere
  rw [shapeS_fingerprintFilter, shapeS_fingerprintFilter, shapeS_fpQuery c q]

theorem shapeE_secLit (d : Nat) : shapeE (secLit d) = secLit d := by simp [secLit, shapeE]
theorem shapeE_bucketCol (src : String) (d : Int) : shapeE (bucketCol src d) = bucketCol src d := by
  simp [bucketCol, shapeE, shapeEs]
theorem shapeE_lraValue (fn : RangeFn) (d : Nat) : shapeE (lraValue fn (.int d)) = lraValue fn (.int d) := by
  cases fn <;> simp [lraValue, perSecond, countF, bytesF, shapeE, shapeEs]
theorem shapeE_emptyStr : shapeE emptyStr = emptyStr := by simp [emptyStr, shapeE]

theorem shapeS_lraSel (fn : RangeFn) (d : Nat) (wl : Bool) (main : Sel) :
    shapeS (lraSel fn d wl main) = lraSel fn d wl (shapeS main) := by
  unfold lraSel
  simp only
  rw [shapeS_with1, shapeS_setCols, shapeEs_renameCol, shapeS_cols]
  cases wl <;>
    simp [shapeS, shapeO, shapeE, shapeEs, shapeWs, shapeJs, simpleCol, shapeE_bucketCol, shapeE_lraValue, shapeE_emptyStr, shapeEs_append]

theorem shapeS_metrics15Sel (c : MCtx) (fn : RangeFn) (d : Nat) : shapeS (metrics15Sel c fn d) = metrics15Sel c fn d := by
  cases fn <;>
    simp [metrics15Sel, shortcutValue, secLit, shapeS, shapeO, shapeE, shapeEs, shapeWs, shapeJs, simpleCol, shapeE_bucketCol,
      shapeE_emptyStr, and_, ge, lt, getTypes]

theorem groupingKeys_skel (g : Grouping) : groupingKeys g.skel = (groupingKeys g).map (fun _ => []) := by
  simp [groupingKeys, Grouping.skel, List.map_map, Function.comp_def]

theorem shapeE_byWithoutCol (g : Grouping) (e : Expr) : shapeE (byWithoutCol g e) = byWithoutCol g.skel (shapeE e) := by
  simp only [byWithoutCol, shapeE, groupingKeys_skel]
  simp [Grouping.skel]

theorem shapeE_hashLabels : shapeE hashLabels = hashLabels := by simp [hashLabels, shapeE, shapeEs]

theorem shapeS_byWithoutSimple (id : Nat) (g : Grouping) (main : Sel) :
    shapeS (byWithoutSimple id g main) = byWithoutSimple id g.skel (shapeS main) := by
  unfold byWithoutSimple
  simp only
  rw [shapeS_with1]
  simp [shapeS, shapeO, shapeE, shapeEs, shapeWs, shapeJs, simpleCol, shapeE_hashLabels, shapeE_byWithoutCol]

/-- the labels select of `byWithoutTS` depends on the grouping only through its skeleton, up to shape -/
theorem shapeS_byWithoutTS (c : Ctx) (id : Nat) (g : Grouping) (main main' : Sel) (h : shapeS main = shapeS main') :
    shapeS (byWithoutTS c id g main) = shapeS (byWithoutTS c id g.skel main') := by
  unfold byWithoutTS
  simp only
  rw [shapeS_with2, shapeS_with2, h]
  congr 2
  · simp only [shapeS_setCols, shapeEs_append, shapeS_cols]
    rw [shapeEs_patchCol _ _ (byWithoutCol g) (byWithoutCol g.skel) (shapeE_byWithoutCol g)]
    rw [shapeEs_patchCol _ _ (byWithoutCol g.skel) (byWithoutCol g.skel.skel) (shapeE_byWithoutCol g.skel)]
    have : g.skel.skel = g.skel := by simp [Grouping.skel, List.map_map, Function.comp_def]
    rw [this]

theorem shapeE_unwrapValue (fn : UnwrapFn) (d : Nat) : shapeE (unwrapValue fn (.int d)) = unwrapValue fn (.int d) := by
  cases fn <;> simp [unwrapValue, perSecond, shapeE, shapeEs]

theorem shapeS_unwrapFnSel (fn : UnwrapFn) (d : Nat) (main : Sel) : shapeS (unwrapFnSel fn d main) = unwrapFnSel fn d (shapeS main) := by
  unfold unwrapFnSel
  rw [shapeS_with1]
  simp [shapeS, shapeO, shapeE, shapeEs, shapeWs, shapeJs, shapeE_bucketCol, shapeE_unwrapValue, shapeE_emptyStr]

theorem shapeE_aggValue (fn : AggFn) : shapeE (aggValue fn) = aggValue fn := by
  cases fn <;> simp [aggValue, shapeE, shapeEs]

theorem shapeS_aggSel (fn : AggFn) (wl : Bool) (main : Sel) : shapeS (aggSel fn wl main) = aggSel fn wl (shapeS main) := by
  unfold aggSel
  rw [shapeS_with1]
  cases wl <;> simp [shapeS, shapeO, shapeE, shapeEs, shapeWs, shapeJs, simpleCol, shapeE_aggValue, shapeE_emptyStr]

theorem shapeS_topkSel (isTop : Bool) (k : Nat) (main : Sel) : shapeS (topkSel isTop k main) = topkSel isTop k (shapeS main) := by
  unfold topkSel
  simp only
  rw [shapeS_with1, shapeS_with1, shapeS_cols, hasColumn_shapeEs]
  cases hasColumn main.cols "labels" <;>
    simp [shapeS, shapeO, shapeE, shapeEs, shapeWs, shapeJs, simpleCol, shapeE_emptyStr]

theorem shapeE_cmpExpr (cm : Comparison) : shapeE (cmpExpr cm) = cmpExpr cm := by
  obtain ⟨op, v⟩ := cm
  cases op <;> simp [cmpExpr, cmpLit, gt, lt, ge, le, eq, neq, shapeE, shapeEs]

theorem shapeS_comparisonSel (cm : Comparison) (main : Sel) : shapeS (comparisonSel cm main) = comparisonSel cm (shapeS main) := by
  simp [comparisonSel, shapeS_andHaving, shapeEs, shapeE_cmpExpr]

theorem shapeS_stepFixSel (c : MCtx) (d : Nat) (main : Sel) : shapeS (stepFixSel c d main) = stepFixSel c d (shapeS main) := by
  unfold stepFixSel
  split
  · rfl
  · rw [shapeS_with1, shapeS_cols, hasColumn_shapeEs]
    cases hasColumn main.cols "labels" <;>
      simp [shapeS, shapeO, shapeE, shapeEs, shapeWs, shapeJs, shapeE_bucketCol, shapeE_emptyStr]

theorem shapeS_finalizeMatrix (req : Sel) : shapeS (finalizeMatrix req) = finalizeMatrix (shapeS req) := by
  unfold finalizeMatrix
  rw [shapeS_with1]
  simp [shapeS, shapeO, shapeE, shapeEs, shapeWs, shapeJs, simpleCol]

/-- `LabelsJoinPlanner` around `main`: depends on the selector through its skeleton, up to shape -/
theorem shapeS_labelsJoin (c : Ctx) (q : LogQuery) (main main' : Sel) (h : shapeS main = shapeS main') :
    shapeS (labelsJoin c q main) = shapeS (labelsJoin c q.skel main') := by
  unfold labelsJoin tsWith fpWith
  rw [shapeS_with2, shapeS_with2, shapeS_with1, shapeS_with1, h, shapeS_fpQuery c q]

/-! ### unwrap, the samples side, the steps -/

def skelLabel (label : String) : String := if label = "_entry" then "_entry" else ""

theorem shapeS_unwrapSel (label : String) (joined joined' : Sel) (h : shapeS joined = shapeS joined') :
    shapeS (unwrapSel label joined) = shapeS (unwrapSel (skelLabel label) joined') := by
  have hc : shapeEs joined.cols = shapeEs joined'.cols := by rw [← shapeS_cols, ← shapeS_cols, h]
  unfold unwrapSel skelLabel
  simp only
  rw [shapeS_setCols, shapeS_setCols, h]
  congr 1
  by_cases he : label = "_entry"
  · simp only [he, if_true]
    rw [shapeEs_patchCol _ _ _ (fun _ => .call "toFloat64OrZero" [((getCol (shapeEs joined.cols) "string").getD (.raw "string"))])
          (fun _ => by
            simp only [shapeE, shapeEs, getCol_shapeEs]
            cases getCol joined.cols "string" <;> simp [shapeE]),
        shapeEs_patchCol _ _ _ (fun _ => .call "toFloat64OrZero" [((getCol (shapeEs joined'.cols) "string").getD (.raw "string"))])
          (fun _ => by
            simp only [shapeE, shapeEs, getCol_shapeEs]
            cases getCol joined'.cols "string" <;> simp [shapeE]),
        hc]
  · have he' : ¬ ("" : String) = "_entry" := by decide
    simp only [he, he', if_false]
    rw [shapeEs_patchCol _ _ _ (fun _ => .call "toFloat64OrZero" [.mapAt ((getCol (shapeEs joined.cols) "labels").getD (.raw "labels")) []])
          (fun _ => by
            simp only [shapeE, shapeEs, getCol_shapeEs]
            cases getCol joined.cols "labels" <;> simp [shapeE]),
        shapeEs_patchCol _ _ _ (fun _ => .call "toFloat64OrZero" [.mapAt ((getCol (shapeEs joined'.cols) "labels").getD (.raw "labels")) []])
          (fun _ => by
            simp only [shapeE, shapeEs, getCol_shapeEs]
            cases getCol joined'.cols "labels" <;> simp [shapeE]),
        hc]

theorem rangeAgg_skel (q : MetricQuery) : q.skel.rangeAgg = q.rangeAgg.skel := by
  cases q with
  | range r => rfl
  | agg a => rfl
  | topk t => obtain ⟨isTop, k, inner, cmp⟩ := t; cases inner <;> rfl

theorem kind_skel (r : RangeAgg) : r.skel.kind = r.kind.skel := rfl
theorem sel_skel (r : RangeAgg) : r.skel.sel = r.sel.skel := rfl
theorem durNs_skel (r : RangeAgg) : r.skel.durNs = r.durNs := rfl

theorem isUnwrap_skel (r : RangeAgg) : r.skel.isUnwrap = r.isUnwrap := by
  unfold RangeAgg.isUnwrap
  rw [kind_skel]
  cases r.kind <;> rfl

theorem lineFilterTrivial_skelF (f : LineFilter) : lineFilterTrivial f.skelF = lineFilterTrivial f := by
  obtain ⟨op, v, like⟩ := f
  cases op <;> cases v <;> simp [lineFilterTrivial, LineFilter.skelF, skelBytes]

theorem takesShortcut_skel (q : MetricQuery) : takesShortcut q.skel = takesShortcut q := by
  unfold takesShortcut
  simp only [rangeAgg_skel, kind_skel, sel_skel, durNs_skel, lineFilters_skel]
  cases q.rangeAgg.kind with
  | lra fn =>
    simp only [RangeKind.skel, List.all_map]
    congr 2
    funext f
    exact lineFilterTrivial_skelF f
  | unwrap fn l => rfl

theorem agg?_skel (q : MetricQuery) : q.skel.agg? = q.agg?.map VecAgg.skel := by
  cases q with
  | range r => rfl
  | agg a => rfl
  | topk t => obtain ⟨isTop, k, inner, cmp⟩ := t; cases inner <;> rfl

theorem grouped_skel (a : VecAgg) : a.skel.grouped = a.grouped := by
  simp [VecAgg.grouped, VecAgg.skel]

theorem matrixLabels_skel (q : MetricQuery) : matrixLabels q.skel = matrixLabels q := by
  unfold matrixLabels
  rw [rangeAgg_skel, isUnwrap_skel, takesShortcut_skel, agg?_skel]
  cases q.agg? with
  | none => rfl
  | some a => simp

def Step.skel : Step → Step
  | .unwrapFn fn d g => .unwrapFn fn d (g.map Grouping.skel)
  | .agg fn g => .agg fn (g.map Grouping.skel)
  | s => s

theorem chosenGrouping_skel (p s : Option Grouping) :
    chosenGrouping (p.map Grouping.skel) (s.map Grouping.skel) = (chosenGrouping p s).map Grouping.skel := by
  cases p <;> cases s <;> rfl

/-- `planAgg`'s grouping (none written = `by ()`) of the skeleton is the skeleton of the grouping -/
theorem aggGrouping_skel (a : VecAgg) : aggGrouping a.skel = (aggGrouping a).skel := by
  unfold aggGrouping
  rw [show a.skel.byPrefix = a.byPrefix.map Grouping.skel from rfl, show a.skel.bySuffix = a.bySuffix.map Grouping.skel from rfl,
    chosenGrouping_skel]
  cases chosenGrouping a.byPrefix a.bySuffix <;> simp [Grouping.skel]

theorem cmpStep_skel (c : Option Comparison) : (cmpStep c).map Step.skel = cmpStep c := by cases c <;> rfl

theorem orderRange_skel (r : RangeAgg) : orderRange r.skel = (orderRange r).map Step.skel := by
  unfold orderRange
  simp only [kind_skel, List.map_append, cmpStep_skel]
  congr 1
  cases r.kind <;> simp [RangeKind.skel, RangeAgg.skel, Step.skel, chosenGrouping_skel]

theorem shortcutRange_skel (r : RangeAgg) : shortcutRange r.skel = (shortcutRange r).map Step.skel := by
  unfold shortcutRange
  simp only [kind_skel, List.map_append, cmpStep_skel]
  congr 1
  cases r.kind <;> simp [RangeKind.skel, RangeAgg.skel, Step.skel, chosenGrouping_skel]

theorem orderAgg_skel (a : VecAgg) : orderAgg a.skel = (orderAgg a).map Step.skel := by
  unfold orderAgg
  simp only [List.map_append, List.map_cons, List.map_nil]
  rw [show a.skel.inner = a.inner.skel from rfl, orderRange_skel, show a.skel.cmp = a.cmp from rfl, cmpStep_skel]
  simp [show a.skel.fn = a.fn from rfl, Step.skel, aggGrouping_skel]

theorem shortcutAgg_skel (a : VecAgg) : shortcutAgg a.skel = (shortcutAgg a).map Step.skel := by
  unfold shortcutAgg
  simp only [List.map_append, List.map_cons, List.map_nil]
  rw [show a.skel.inner = a.inner.skel from rfl, shortcutRange_skel, show a.skel.cmp = a.cmp from rfl, cmpStep_skel]
  simp [show a.skel.fn = a.fn from rfl, Step.skel, aggGrouping_skel]

theorem functionOrder_skel (q : MetricQuery) : functionOrder q.skel = (functionOrder q).map Step.skel := by
  cases q with
  | range r => exact orderRange_skel r
  | agg a => exact orderAgg_skel a
  | topk t =>
    obtain ⟨isTop, k, inner, cmp⟩ := t
    cases inner with
    | range r => simp [functionOrder, MetricQuery.skel, TopK.skel, TopInner.skel, orderRange_skel, cmpStep_skel, Step.skel]
    | agg a => simp [functionOrder, MetricQuery.skel, TopK.skel, TopInner.skel, orderAgg_skel, cmpStep_skel, Step.skel]

theorem shortcutOrder_skel (q : MetricQuery) : shortcutOrder q.skel = (shortcutOrder q).map Step.skel := by
  cases q with
  | range r => exact shortcutRange_skel r
  | agg a => exact shortcutAgg_skel a
  | topk t =>
    obtain ⟨isTop, k, inner, cmp⟩ := t
    cases inner with
    | range r => simp [shortcutOrder, MetricQuery.skel, TopK.skel, TopInner.skel, shortcutRange_skel, cmpStep_skel, Step.skel]
    | agg a => simp [shortcutOrder, MetricQuery.skel, TopK.skel, TopInner.skel, shortcutAgg_skel, cmpStep_skel, Step.skel]

theorem planSteps_skel (q : MetricQuery) : planSteps q.skel = (planSteps q).map Step.skel := by
  unfold planSteps
  rw [takesShortcut_skel]
  split
  · exact shortcutOrder_skel q
  · exact functionOrder_skel q

/-! ### the fold over the planned steps and the whole plan -/

/-- planner states that agree up to leaf contents -/
def PSim (s s' : PState) : Prop := shapeS s.sel = shapeS s'.sel ∧ s.id = s'.id

theorem PSim_planByWithout (c : Ctx) (useTS : Bool) (g : Option Grouping) (s s' : PState) (h : PSim s s') :
    PSim (planByWithout c useTS g s) (planByWithout c useTS (g.map Grouping.skel) s') := by
  obtain ⟨hs, hid⟩ := h
  cases g with
  | none => exact ⟨hs, hid⟩
  | some g =>
    cases useTS
    · simp only [planByWithout, Option.map_some, Bool.false_eq_true, if_false]
      refine ⟨?_, by simp [hid]⟩
      rw [shapeS_byWithoutSimple, shapeS_byWithoutSimple, hs, hid]
      simp [Grouping.skel, List.map_map, Function.comp_def]
    · simp only [planByWithout, Option.map_some, if_true]
      refine ⟨?_, by simp [hid]⟩
      rw [hid, shapeS_byWithoutTS c s'.id g s.sel s'.sel hs]

theorem PSim_applyStep (c : MCtx) (q : MetricQuery) (s s' : PState) (h : PSim s s') (st : Step) :
    PSim (applyStep c q s st) (applyStep c q.skel s' st.skel) := by
  have hu : q.skel.rangeAgg.isUnwrap = q.rangeAgg.isUnwrap := by rw [rangeAgg_skel, isUnwrap_skel]
  cases st with
  | lra fn d =>
    simp only [applyStep, Step.skel, hu]
    exact ⟨by rw [shapeS_lraSel, shapeS_lraSel, h.1], h.2⟩
  | shortcut fn d =>
    simp only [applyStep, Step.skel]
    refine ⟨?_, h.2⟩
    rw [shapeS_fingerprintFilter, shapeS_fingerprintFilter, rangeAgg_skel, sel_skel, shapeS_fpQuery c.toCtx q.rangeAgg.sel]
  | unwrapFn fn d g =>
    simp only [applyStep, Step.skel, hu]
    have hb := PSim_planByWithout c.toCtx (!q.rangeAgg.isUnwrap) g s s' h
    exact ⟨by rw [shapeS_unwrapFnSel, shapeS_unwrapFnSel, hb.1], hb.2⟩
  | agg fn g =>
    simp only [applyStep, Step.skel, hu, matrixLabels_skel]
    have hb := PSim_planByWithout c.toCtx (!q.rangeAgg.isUnwrap) g s s' h
    exact ⟨by rw [shapeS_aggSel, shapeS_aggSel, hb.1], hb.2⟩
  | topk isTop k =>
    simp only [applyStep, Step.skel]
    exact ⟨by rw [shapeS_topkSel, shapeS_topkSel, h.1], h.2⟩
  | cmp cm =>
    simp only [applyStep, Step.skel]
    exact ⟨by rw [shapeS_comparisonSel, shapeS_comparisonSel, h.1], h.2⟩

theorem PSim_foldl (c : MCtx) (q : MetricQuery) : ∀ (steps : List Step) (s s' : PState), PSim s s' →
    PSim (steps.foldl (applyStep c q) s) ((steps.map Step.skel).foldl (applyStep c q.skel) s')
  | [], _, _, h => h
  | st :: rest, s, s', h => by
    simp only [List.foldl_cons, List.map_cons]
    exact PSim_foldl c q rest _ _ (PSim_applyStep c q s s' h st)

theorem shapeS_splSel (c : MCtx) (q : MetricQuery) : shapeS (splSel c q) = shapeS (splSel c q.skel) := by
  unfold splSel
  simp only [rangeAgg_skel, kind_skel, sel_skel]
  cases q.rangeAgg.kind with
  | lra fn => exact shapeS_samplesMain c.toCtx q.rangeAgg.sel
  | unwrap fn label =>
    simp only [RangeKind.skel]
    apply shapeS_unwrapSel
    apply shapeS_labelsJoin
    rw [shapeS_setOrderBy, shapeS_setOrderBy, shapeS_samplesMain c.toCtx q.rangeAgg.sel]

/-- **the metric planner looks at a query only through its skeleton** (up to the contents of string leaves) -/
theorem shapeS_planMetric (c : MCtx) (q : MetricQuery) : shapeS (planMetric c q) = shapeS (planMetric c q.skel) := by
  unfold planMetric
  simp only [rangeAgg_skel, sel_skel, durNs_skel, planSteps_skel, matrixLabels_skel, labelConds_skel, List.length_map]
  have hf := PSim_foldl c q (planSteps q) ⟨splSel c q, (labelConds q.rangeAgg.sel).length⟩
    ⟨splSel c q.skel, (labelConds q.rangeAgg.sel).length⟩ ⟨shapeS_splSel c q, rfl⟩
  rw [shapeS_finalizeMatrix, shapeS_finalizeMatrix]
  congr 1
  by_cases hm : matrixLabels q = true
  · simp only [hm, if_true]
    rw [shapeS_stepFixSel, shapeS_stepFixSel, hf.1]
  · simp only [hm, if_false]
    apply shapeS_labelsJoin
    rw [shapeS_stepFixSel, shapeS_stepFixSel, hf.1]

/-- **two metric queries of the same shape**: equal emptied segment lists of their statements -/
theorem planMetric_sameShape (c : MCtx) (q1 q2 : MetricQuery) (h : sameShapeM q1 q2) :
    SEq (segsSel (planMetric c q1)) (segsSel (planMetric c q2)) := by
  unfold SEq
  rw [← shape_segsSel (planMetric c q1), ← shape_segsSel (planMetric c q2), shapeS_planMetric c q1, shapeS_planMetric c q2]
  unfold sameShapeM at h
  rw [h]

end Qryn.LogQL
