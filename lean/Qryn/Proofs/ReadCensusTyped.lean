import Qryn.ReadSide.CensusTyped
/-! The kernel evaluation of the TYPED census comparison (kept apart from `Props/C12.lean`, like `ReadCensus.lean`). -/
namespace Qryn.ReadSide.Census
open Qryn.Gen

/-- the regenerated typed fault sites are exactly the reviewed ones, function by function, and every cited guard is there -/
theorem typed_census_checked : typedMatches ReadGoroutines.typedFunctions reviewedTyped = true := by decide +kernel

/-- the goroutines (go statements and handler goroutines), with whether they recover and whether they are expanded, are the reviewed ones -/
theorem typed_roots_checked : rootHeads ReadGoroutines.typedRoots = reviewedRoots := by decide +kernel

/-- the only unexpanded roots are the reviewed wide handlers (with the reviewed direct callees); no `go` root is unexpanded -/
theorem typed_roots_covered :
    wideRootsReviewed ReadGoroutines.typedRoots = true ∧
    goRootsExpanded ReadGoroutines.typedRoots = true := by decide +kernel

/-- the calls that leave the module on those stacks are exactly the reviewed ones -/
theorem typed_externs_checked : ReadGoroutines.typedExternsUnion = reviewedTypedExterns.map (·.1) := by decide +kernel

end Qryn.ReadSide.Census
