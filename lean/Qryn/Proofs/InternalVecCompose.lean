import Qryn.Proofs.InternalPlanCompose
/-! The inner range aggregation as the two engines hand it to the vector aggregation: the matrix the in-process range stage
    emits over the rows of the selector statement (`aggregate` with `rangeValue`) is, entry for entry, a permutation of
    C08's `rangePoints` scanned into entries (`scanPt`). Both lists are duplicate-free (one entry per label set and bucket /
    one point per stream and bucket) and have the same members (`range_agree` + the shape of the entries). This is the
    hypothesis `hrows` of the stage-level `vec_agree`; with it the vector aggregation composes to a plan-level statement.
    Core only. -/
namespace Qryn.Read
open Qryn Qryn.Sql Qryn.LogQL Qryn.LogQL.Stages

/-! ### duplicate-free lists -/
theorem nodup_flatten_of {α : Type} : ∀ (L : List (List α)), (∀ l ∈ L, l.Nodup) →
    L.Pairwise (fun a b => ∀ x ∈ a, x ∉ b) → L.flatten.Nodup
  | [], _, _ => by simp
  | a :: L, h1, h2 => by
    rw [List.flatten_cons, List.nodup_append]
    rw [List.pairwise_cons] at h2
    refine ⟨h1 a List.mem_cons_self, nodup_flatten_of L (fun l hl => h1 l (List.mem_cons_of_mem _ hl)) h2.2, ?_⟩
    intro x hx y hy hxy
    subst hxy
    obtain ⟨b, hb, hyb⟩ := List.mem_flatten.mp hy
    exact h2.1 b hb x hx hyb

theorem nodup_map_on {α β : Type} (f : α → β) : ∀ (l : List α), l.Nodup →
    (∀ a ∈ l, ∀ b ∈ l, f a = f b → a = b) → (l.map f).Nodup
  | [], _, _ => by simp
  | x :: xs, h1, h2 => by
    rw [List.nodup_cons] at h1
    rw [List.map_cons, List.nodup_cons]
    refine ⟨?_, nodup_map_on f xs h1.2 (fun a ha b hb => h2 a (List.mem_cons_of_mem _ ha) b (List.mem_cons_of_mem _ hb))⟩
    intro hm
    obtain ⟨y, hy, hfy⟩ := List.mem_map.mp hm
    have := h2 y (List.mem_cons_of_mem _ hy) x List.mem_cons_self hfy
    subst this
    exact h1.1 hy

theorem nodup_eraseDups' {α : Type} [BEq α] [LawfulBEq α] : ∀ (n : Nat) (l : List α), l.length ≤ n → l.eraseDups.Nodup
  | _, [], _ => by simp
  | 0, _ :: _, h => by simp at h
  | n + 1, a :: as, h => by
    rw [List.eraseDups_cons, List.nodup_cons]
    refine ⟨?_, nodup_eraseDups' n _ ?_⟩
    · intro hm
      have := (List.mem_filter.mp (List.mem_eraseDups.mp hm)).2
      simp at this
    · have := List.length_filter_le (fun b => !b == a) as
      simp only [List.length_cons] at h
      omega

theorem firstBy_pairwise {α κ : Type} [DecidableEq κ] (key : α → κ) :
    ∀ l : List α, (Stages.firstBy key l).Pairwise (fun a b => key a ≠ key b)
  | [] => by simp [Stages.firstBy]
  | x :: xs => by
    simp only [Stages.firstBy, List.pairwise_cons]
    refine ⟨?_, (firstBy_pairwise key xs).filter _⟩
    intro y hy
    have := (List.mem_filter.mp hy).2
    simp only [ne_eq, decide_eq_true_eq] at this
    exact fun e => this e.symm

/-- an entry of the block `aggregate` emits for the representative `r` -/
theorem mem_block {V : Type} (g : Grid) (value : List (Entry V) → V) (es : List (Entry V)) (r x : Entry V)
    (hx : x ∈ (List.range g.n).filterMap (fun i =>
      let sel := es.filter (fun e => (fun e : Entry V => e.labels) e = (fun e : Entry V => e.labels) r && g.bucket e.ts == some i)
      if sel.isEmpty then none
      else some (⟨g.start + (i : Int) * g.dur, r.fp, r.labels, [], value sel, none⟩ : Entry V))) :
    x.labels = r.labels := by
  simp only [List.mem_filterMap] at hx
  obtain ⟨i, _, h⟩ := hx
  split at h
  · cases h
  · cases h; rfl

/-- the matrix a range / vector aggregation emits has no entry twice: one per (label set, bucket) -/
theorem aggregate_flatten_nodup {V : Type} (g : Grid)
    (hinj : ∀ i j : Nat, g.start + (i : Int) * g.dur = g.start + (j : Int) * g.dur → i = j)
    (value : List (Entry V) → V) (es : List (Entry V)) :
    (aggregate (fun e : Entry V => e.labels) g value es).flatten.Nodup := by
  apply nodup_flatten_of
  · intro b hb
    simp only [aggregate, List.mem_filter, List.mem_map] at hb
    obtain ⟨⟨r, _, rfl⟩, _⟩ := hb
    refine List.Pairwise.filterMap _ ?_ (List.nodup_range (n := g.n))
    intro i j hij x hx y hy hxy
    split at hx
    · cases hx
    · split at hy
      · cases hy
      · cases hx; cases hy
        injection hxy with h1
        exact hij (hinj i j h1)
  · simp only [aggregate]
    refine List.Pairwise.filter _ (List.Pairwise.map _ ?_ (firstBy_pairwise (fun e : Entry V => e.labels) es))
    intro r r' hrr x hx hx'
    exact hrr ((mem_block g value es r x hx).symm.trans (mem_block g value es r' x hx'))

/-! ### the inner matrices of the two engines: the same entries -/
theorem entry_ext' {V : Type} (a b : Entry V) (h1 : a.ts = b.ts) (h2 : a.fp = b.fp) (h3 : a.labels = b.labels)
    (h4 : a.msg = b.msg) (h5 : a.val = b.val) (h6 : a.err = b.err) : a = b := by
  cases a; cases b; simp_all

/-- **the matrix of the in-process range stage over the selector statement's rows = C08's range points, as entries** -/
theorem range_rows_perm (parse : Bytes → Option Rat) (o : Oracles) (c : LogQL.Ctx) (d : LokiDb) (hd : SeriesStoreOk o c d)
    (ms : List Matcher) (fs : List Stage) (fn : Read.RangeFn) (fn' : LogQL.RangeFn) (hfn : toLra fn = some fn')
    (dur k n : Nat) (hdur : 0 < dur) (hfrom : c.fromNs = (k : Int) * dur) (hto : c.toNs = c.fromNs + (n : Int) * dur)
    (rows : List (Entry Rat)) (hrows : rows.Perm ((baseX o c d ms (fs.map .fl)).map (scanX (ratOps parse)))) :
    ((aggregate (fun e : Entry Rat => e.labels) (Grid.of c.fromNs c.toNs dur) (rangeValue (ratOps parse) dur fn) rows).flatten).Perm
      ((rangePoints o c d ⟨.lra fn', ⟨ms, fs⟩, dur, none, none, none⟩ c.fromNs c.toNs).map (scanPt o c d ⟨ms, fs⟩)) := by
  let q0 : LogQuery := ⟨ms, fs⟩
  let es := d.samples.filter (entryMatches o c d q0)
  let g : Sample → Entry Rat := fun s => scanX (ratOps parse) (toX o c d q0 s)
  have hbase : (baseX o c d ms (fs.map .fl)).map (scanX (ratOps parse)) = es.map g := by
    simp only [baseX, splitPre_fl, stagesX, List.foldl_nil, List.map_map]
    rfl
  have hmemrows : ∀ x, x ∈ rows ↔ ∃ s ∈ es, g s = x := by
    intro x; rw [hrows.mem_iff, hbase]; simp [List.mem_map]
  have hes : d.samples.filter (entryMatchesW o c d q0 c.fromNs c.toNs) = es := rfl
  have hgrid : Grid.of c.fromNs c.toNs dur = Grid.of c.fromNs (c.fromNs + (n : Int) * dur) dur := by rw [hto]
  have hinj : ∀ i j : Nat, (Grid.of c.fromNs c.toNs dur).start + (i : Int) * (Grid.of c.fromNs c.toNs dur).dur =
      (Grid.of c.fromNs c.toNs dur).start + (j : Int) * (Grid.of c.fromNs c.toNs dur).dur → i = j :=
    fun i j h => grid_inj c.fromNs dur hdur i j h
  -- shape of the points
  have hpts : ∀ pt ∈ rangePoints o c d ⟨.lra fn', q0, dur, none, none, none⟩ c.fromNs c.toNs,
      ∃ sx ∈ es, pt.key = .int sx.fp ∧ pt.labels = .null := by
    intro pt hpt
    simp only [rangePoints, hes, List.mem_map] at hpt
    obtain ⟨kk, hkk, rfl⟩ := hpt
    rw [List.mem_eraseDups] at hkk
    obtain ⟨sx, hsx, rfl⟩ := List.mem_map.mp hkk
    exact ⟨sx, hsx, rfl, rfl⟩
  -- an entry and a point with the same labels, timestamp and value are the same entry
  have hsame : ∀ e ∈ (aggregate (fun e : Entry Rat => e.labels) (Grid.of c.fromNs c.toNs dur) (rangeValue (ratOps parse) dur fn) rows).flatten,
      ∀ pt ∈ rangePoints o c d ⟨.lra fn', q0, dur, none, none, none⟩ c.fromNs c.toNs, ∀ fp, pt.key = .int fp →
      canonLabels (asMap (labelsOf o c d q0 fp)) = e.labels → pt.ts = e.ts → pt.value = e.val → scanPt o c d q0 pt = e := by
    intro e he pt hpt fp hkey hl ht hv
    obtain ⟨r, hr, i, _, _, rfl⟩ := (mem_aggregate_iff _ _ _ _ e).mp he
    obtain ⟨s0, hs0, hgs0⟩ := (hmemrows r).mp (firstBy_subset _ rows r hr)
    obtain ⟨sx, hsx, hkey', hnull⟩ := hpts pt hpt
    have hfp : fp = sx.fp := by rw [hkey] at hkey'; exact Val.int.inj hkey'
    subst hfp
    have hlab : (g sx).labels = (g s0).labels := by rw [hgs0]; exact hl
    have hfpeq : sx.fp = s0.fp := (sample_labels_iff (ratOps parse) o c d hd q0 sx s0 hsx hs0).mp hlab
    apply entry_ext'
    · exact ht
    · simp only [scanPt, hkey, keyIntOf, hfpeq, ← hgs0]; rfl
    · simp only [scanPt, ptLabels, hnull, hkey]; exact hl
    · rfl
    · exact hv
    · rfl
  apply (List.perm_ext_iff_of_nodup (aggregate_flatten_nodup _ hinj _ _) ?_).mpr
  · intro e
    constructor
    · intro he
      obtain ⟨pt, hpt, fp, hkey, hl, ht, hv⟩ :=
        (range_agree parse o c d hd ms fs fn fn' hfn dur k n hdur hfrom hto rows hrows e.labels e.ts e.val).mp ⟨e, he, rfl, rfl, rfl⟩
      exact List.mem_map.mpr ⟨pt, hpt, hsame e he pt hpt fp hkey hl ht hv⟩
    · intro he
      obtain ⟨pt, hpt, rfl⟩ := List.mem_map.mp he
      obtain ⟨sx, _, hkey, hnull⟩ := hpts pt hpt
      obtain ⟨e, he', hl, ht, hv⟩ :=
        (range_agree parse o c d hd ms fs fn fn' hfn dur k n hdur hfrom hto rows hrows
          (canonLabels (asMap (labelsOf o c d q0 sx.fp))) pt.ts pt.value).mpr ⟨pt, hpt, sx.fp, hkey, rfl, rfl, rfl⟩
      rw [hsame e he' pt hpt sx.fp hkey hl.symm ht.symm hv.symm]
      exact he'
  · -- the scanned points: one per (stream, bucket)
    simp only [rangePoints, hes, List.map_map]
    apply nodup_map_on _ _ (nodup_eraseDups' _ _ (Nat.le_refl _))
    intro a ha b hb hab
    rw [List.mem_eraseDups] at ha hb
    obtain ⟨sa, hsa, rfl⟩ := List.mem_map.mp ha
    obtain ⟨sb, hsb, rfl⟩ := List.mem_map.mp hb
    simp only [Function.comp, scanPt, ptLabels] at hab
    injection hab with h1 _ h3
    have hfp : sa.fp = sb.fp := (sample_labels_iff (ratOps parse) o c d hd q0 sa sb hsa hsb).mp h3
    rw [hfp, h1]

/-! ### the range points as input of the vector stage: on the grid, labelled by a label document -/
theorem rangePoints_lra_sample (o : Oracles) (c : LogQL.Ctx) (d : LokiDb) (q0 : LogQuery) (fn' : LogQL.RangeFn) (dur : Nat)
    (p : Pt) (hp : p ∈ rangePoints o c d ⟨.lra fn', q0, dur, none, none, none⟩ c.fromNs c.toNs) :
    ∃ sx ∈ d.samples.filter (entryMatches o c d q0), p.key = .int sx.fp ∧ p.labels = .null ∧ p.ts = bucketOf dur sx.ts := by
  have hes : d.samples.filter (entryMatchesW o c d q0 c.fromNs c.toNs) = d.samples.filter (entryMatches o c d q0) := rfl
  simp only [rangePoints, hes, List.mem_map] at hp
  obtain ⟨kk, hkk, rfl⟩ := hp
  rw [List.mem_eraseDups] at hkk
  obtain ⟨sx, hsx, rfl⟩ := List.mem_map.mp hkk
  exact ⟨sx, hsx, rfl, rfl, rfl⟩

theorem rangePoints_on_grid (o : Oracles) (c : LogQL.Ctx) (d : LokiDb) (q0 : LogQuery) (fn' : LogQL.RangeFn)
    (dur k n : Nat) (hdur : 0 < dur) (hfrom : c.fromNs = (k : Int) * dur) (hto : c.toNs = c.fromNs + (n : Int) * dur)
    (p : Pt) (hp : p ∈ rangePoints o c d ⟨.lra fn', q0, dur, none, none, none⟩ c.fromNs c.toNs) :
    ∃ i, i < (Grid.of c.fromNs c.toNs dur).n ∧ (Grid.of c.fromNs c.toNs dur).bucket p.ts = some i ∧
      p.ts = (Grid.of c.fromNs c.toNs dur).start + (i : Int) * (Grid.of c.fromNs c.toNs dur).dur := by
  obtain ⟨sx, hsx, _, _, hts⟩ := rangePoints_lra_sample o c d q0 fn' dur p hp
  have hw := (List.mem_filter.mp hsx).2
  simp only [entryMatches, Bool.and_eq_true, decide_eq_true_eq] at hw
  have h1 : c.fromNs ≤ sx.ts := hw.1.1.1.1
  have h2 : sx.ts < c.fromNs + (n : Int) * dur := by rw [← hto]; exact hw.1.1.1.2
  obtain ⟨i, hi, _, hbo⟩ := grid_bucket c.fromNs dur k n hdur hfrom sx.ts h1 h2
  have hdpos : (0 : Int) < dur := by exact_mod_cast hdur
  have hmul : bucketOf dur (c.fromNs + (i : Int) * dur) = c.fromNs + (i : Int) * dur := by
    rw [hfrom]
    simp only [bucketOf]
    have : (k : Int) * dur + (i : Int) * dur = ((k : Int) + i) * dur := by rw [Int.add_mul]
    rw [this, Int.mul_tdiv_cancel _ (by omega)]
  have hlt : c.fromNs + (i : Int) * dur < c.fromNs + (n : Int) * dur := by
    have : (i : Int) * dur < (n : Int) * dur := Int.mul_lt_mul_of_pos_right (by exact_mod_cast hi) hdpos
    omega
  have hge : c.fromNs ≤ c.fromNs + (i : Int) * dur := by
    have : 0 ≤ (i : Int) * dur := Int.mul_nonneg (by omega) (by omega)
    omega
  obtain ⟨j, hj, hbj, hboj⟩ := grid_bucket c.fromNs dur k n hdur hfrom _ hge hlt
  rw [hmul] at hboj
  have hji : i = j := grid_inj c.fromNs dur hdur i j hboj
  subst hji
  rw [hts, hbo, hto]
  exact ⟨i, by rw [grid_n c.fromNs dur n hdur]; exact hi, hbj, rfl⟩

theorem rangePoints_labels_doc (o : Oracles) (c : LogQL.Ctx) (d : LokiDb) (hd : SeriesStoreOk o c d) (q0 : LogQuery)
    (fn' : LogQL.RangeFn) (dur : Nat)
    (p : Pt) (hp : p ∈ rangePoints o c d ⟨.lra fn', q0, dur, none, none, none⟩ c.fromNs c.toNs) :
    ∃ m, ptLabels o c d q0 p = .map m ∧ NodupKeys m := by
  obtain ⟨sx, hsx, hkey, hnull, _⟩ := rangePoints_lra_sample o c d q0 fn' dur p hp
  obtain ⟨m, hm, hnd, _⟩ := sample_row' (ratOps (fun _ => none)) o c d hd q0 sx hsx
  exact ⟨m, by simp only [ptLabels, hnull, hkey]; exact hm, hnd⟩

theorem aggVal_nil (o : Oracles) (fn : LogQL.AggFn) : aggVal o fn [] = none := by
  cases fn <;> rfl

/-- the points of the vector stage carry the kept label document -/
theorem aggStage_labels (o : Oracles) (c : LogQL.Ctx) (d : LokiDb) (q : LogQuery) (a : VecAgg) (pts : List Pt)
    (hdoc : ∀ p ∈ pts, ∃ m, ptLabels o c d q p = .map m)
    (pt : Pt) (hpt : pt ∈ aggStage o c d q a pts) : ∃ m, pt.labels = .map m := by
  simp only [aggStage, List.mem_filterMap] at hpt
  obtain ⟨kk, _, hsome⟩ := hpt
  obtain ⟨v', hv, rfl⟩ := Option.map_eq_some_iff.mp hsome
  generalize hgrp : List.filter (fun it : Val × Val × Int × Rat => _) _ = grp at *
  cases hh : grp.head? with
  | none =>
    rw [List.head?_eq_none_iff] at hh
    subst hh
    simp [aggVal_nil] at hv
  | some it =>
    have hit : it ∈ grp := List.mem_of_mem_head? hh
    rw [← hgrp] at hit
    obtain ⟨hit, _⟩ := List.mem_filter.mp hit
    obtain ⟨p, hp, rfl⟩ := List.mem_map.mp hit
    obtain ⟨m, hm⟩ := hdoc p hp
    simp only [Option.map_some, Option.getD_some, hm, regroup]
    exact ⟨_, rfl⟩

end Qryn.Read
