import Qryn.Proofs.TraceQLComplex
/-! C11: from the script to the tree `planComplex` builds, and the statement planned for the whole script. -/
namespace Qryn.TraceQL
open Qryn Qryn.Sql

/-- the selector a `simpleExpressionPlanner` plans: the head of its script -/
def headHolds (f : Selector → Bool) : Script → Bool
  | (s, _) :: _ => f s
  | [] => false

def treeHolds (f : Selector → Bool) : XTree → Bool
  | .simple script _ => headHolds f script
  | .complex isAnd _ l r => if isAnd then treeHolds f l && treeHolds f r else treeHolds f l || treeHolds f r

def XTree.leaves : XTree → List Script
  | .simple script _ => [script]
  | .complex _ _ l r => l.leaves ++ r.leaves

/-! ### the script as groups -/
theorem groupsS_spec (f : Selector → Bool) : ∀ (script : Script) (gs : List (List Script)), groupsS script = .ok gs →
    gs.map (fun g => g.map (headHolds f)) = (groups script).map (fun g => g.map f) ∧
    (∀ g ∈ gs, g ≠ []) ∧ gs ≠ [] ∧
    (∀ g ∈ gs, ∀ sc ∈ g, ∃ s op rest, sc = (s, op) :: rest ∧ (s, op) ∈ script)
  | [], gs, h => by simp [groupsS] at h
  | (s, .none) :: rest, gs, h => by
    simp [groupsS, pure, Except.pure] at h
    subst h
    refine ⟨by simp [groups, headHolds], by simp, by simp, ?_⟩
    intro g hg sc hsc
    simp at hg; subst hg; simp at hsc; subst hsc
    exact ⟨s, .none, rest, rfl, by simp⟩
  | (s, .or) :: rest, gs, h => by
    simp only [groupsS, bind, Except.bind] at h
    cases hr : groupsS rest with
    | error m => simp [hr] at h
    | ok gs0 =>
      simp [hr, pure, Except.pure] at h
      subst h
      obtain ⟨h1, h2, _, h4⟩ := groupsS_spec f rest gs0 hr
      refine ⟨by simp [groups, headHolds, h1], ?_, by simp, ?_⟩
      · intro g hg
        rcases List.mem_cons.mp hg with rfl | hg
        · simp
        · exact h2 g hg
      · intro g hg sc hsc
        rcases List.mem_cons.mp hg with rfl | hg
        · simp at hsc; subst hsc; exact ⟨s, .or, rest, rfl, by simp⟩
        · obtain ⟨s', op', rest', e1, e2⟩ := h4 g hg sc hsc
          exact ⟨s', op', rest', e1, List.mem_cons_of_mem _ e2⟩
  | (s, .and) :: rest, gs, h => by
    simp only [groupsS, bind, Except.bind] at h
    cases hr : groupsS rest with
    | error m => simp [hr] at h
    | ok gs0 =>
      obtain ⟨h1, h2, h3, h4⟩ := groupsS_spec f rest gs0 hr
      cases gs0 with
      | nil => exact absurd rfl h3
      | cons g gs' =>
        simp [hr, pure, Except.pure] at h
        subst h
        cases hg2 : groups rest with
        | nil => rw [hg2] at h1; simp at h1
        | cons g2 gs2 =>
          rw [hg2] at h1
          simp only [List.map_cons, List.cons.injEq] at h1
          refine ⟨by simp [groups, hg2, headHolds, h1.1, h1.2], ?_, by simp, ?_⟩
          · intro x hx
            rcases List.mem_cons.mp hx with rfl | hx
            · simp
            · exact h2 x (List.mem_cons_of_mem _ hx)
          · intro x hx sc hsc
            rcases List.mem_cons.mp hx with rfl | hx
            · rcases List.mem_cons.mp hsc with rfl | hsc
              · exact ⟨s, .and, rest, rfl, by simp⟩
              · obtain ⟨s', op', rest', e1, e2⟩ := h4 g (by simp) sc hsc
                exact ⟨s', op', rest', e1, List.mem_cons_of_mem _ e2⟩
            · obtain ⟨s', op', rest', e1, e2⟩ := h4 x (List.mem_cons_of_mem _ hx) sc hsc
              exact ⟨s', op', rest', e1, List.mem_cons_of_mem _ e2⟩

theorem orFold_cons2 (k : Nat) (left : Option (Nat × XTree)) (g g2 : List Script) (gs : List (List Script)) :
    orFold k left (g :: g2 :: gs) =
      orFold ((andNest k g).2 + 1)
        (some ((andNest k g).2 + 1, match left with | none => (andNest k g).1 | some (p, l) => .complex false p l (andNest k g).1))
        (g2 :: gs) := by
  rw [orFold]
  generalize andNest k g = q
  obtain ⟨t, k'⟩ := q
  rfl

theorem orFold_single (k : Nat) (left : Option (Nat × XTree)) (g : List Script) :
    orFold k left [g] = (match left with | none => (andNest k g).1 | some (p, l) => .complex false p l (andNest k g).1) := by
  rw [orFold]
  generalize andNest k g = q
  obtain ⟨t, k'⟩ := q
  rfl

theorem andNest_spec (f : Selector → Bool) : ∀ (g : List Script) (k : Nat), g ≠ [] →
    treeHolds f (andNest k g).1 = g.all (headHolds f) ∧ ∀ sc ∈ (andNest k g).1.leaves, sc ∈ g
  | [], _, h => absurd rfl h
  | [sc], k, _ => by simp [andNest, treeHolds, XTree.leaves]
  | sc :: sc2 :: more, k, _ => by
    obtain ⟨h1, h2⟩ := andNest_spec f (sc2 :: more) (k + 2) (by simp)
    simp only [andNest, treeHolds, if_true, h1, XTree.leaves]
    refine ⟨by simp, ?_⟩
    intro x hx
    simp only [List.mem_append, List.mem_singleton] at hx
    rcases hx with rfl | hx
    · simp
    · exact List.mem_cons_of_mem _ (h2 x hx)

theorem orFold_spec (f : Selector → Bool) : ∀ (gs : List (List Script)) (k : Nat) (left : Option (Nat × XTree)),
    gs ≠ [] → (∀ g ∈ gs, g ≠ []) →
    treeHolds f (orFold k left gs) =
      ((match left with | none => false | some (_, l) => treeHolds f l) || gs.any (fun g => g.all (headHolds f))) ∧
    ∀ sc ∈ (orFold k left gs).leaves, (∃ g ∈ gs, sc ∈ g) ∨ (∃ p l, left = some (p, l) ∧ sc ∈ l.leaves)
  | [], _, _, h, _ => absurd rfl h
  | [g], k, left, _, hne => by
    obtain ⟨h1, h2⟩ := andNest_spec f g k (hne g (by simp))
    rw [orFold_single]
    cases left with
    | none =>
      refine ⟨by simp [h1], ?_⟩
      exact fun sc hsc => Or.inl ⟨g, by simp, h2 sc hsc⟩
    | some pl =>
      obtain ⟨p, l⟩ := pl
      refine ⟨by simp [treeHolds, h1], ?_⟩
      intro sc hsc
      simp only [XTree.leaves] at hsc
      rcases List.mem_append.mp hsc with hsc | hsc
      · exact Or.inr ⟨p, l, rfl, hsc⟩
      · exact Or.inl ⟨g, by simp, h2 sc hsc⟩
  | g :: g2 :: gs, k, left, _, hne => by
    obtain ⟨h1, h2⟩ := andNest_spec f g k (hne g (by simp))
    obtain ⟨r1, r2⟩ := orFold_spec f (g2 :: gs) ((andNest k g).2 + 1)
      (some ((andNest k g).2 + 1, (match left with | none => (andNest k g).1 | some (p, l) => .complex false p l (andNest k g).1)))
      (by simp) (fun x hx => hne x (List.mem_cons_of_mem _ hx))
    rw [orFold_cons2]
    refine ⟨?_, ?_⟩
    · rw [r1]
      cases left with
      | none => simp [h1]
      | some pl => obtain ⟨p, l⟩ := pl; simp [treeHolds, h1, Bool.or_assoc]
    · intro sc hsc
      rcases r2 sc hsc with ⟨x, hx, hscx⟩ | ⟨p', l', hl', hsc'⟩
      · exact Or.inl ⟨x, List.mem_cons_of_mem _ hx, hscx⟩
      · simp only [Option.some.injEq, Prod.mk.injEq] at hl'
        obtain ⟨_, rfl⟩ := hl'
        cases left with
        | none => exact Or.inl ⟨g, by simp, h2 sc hsc'⟩
        | some pl =>
          obtain ⟨p, l⟩ := pl
          simp only [XTree.leaves] at hsc'
          rcases List.mem_append.mp hsc' with h | h
          · exact Or.inr ⟨p, l, rfl, h⟩
          · exact Or.inl ⟨g, by simp, h2 sc h⟩

theorem TraceSel.congr {o : Oracles} {ao : AggOracles} {db : Db} {X : Sel} {P P' : Bytes → Prop}
    (h : TraceSel o ao db X P) (hpp : ∀ tr, P tr ↔ P' tr) : TraceSel o ao db X P' :=
  ⟨fun extra env => (h.rows extra env).congr hpp, h.withs, h.own⟩

theorem scriptHolds_single (f : Selector → Bool) (s : Selector) (op : ScriptOp) : scriptHolds f [(s, op)] = f s := by
  cases op <;> simp [scriptHolds, groups]

section
variable (o : Oracles) (ao : AggOracles) (hp : PermInv ao) (c : Ctx) (d : TraceDb) (hcons : DurConsistent (d.seen o c))
include hp hcons

theorem simple_traceSel (pfx : String) (s : Selector) (op : ScriptOp) (rest : Script) (X : Sel)
    (h : simpleSel c pfx ((s, op) :: rest) = .ok X) (hs : SelOk s) :
    TraceSel o ao (d.toDb c) X (fun tr => selMatches o ao c (d.seen o c) s tr = true) := by
  obtain ⟨e, he, _⟩ := hs.attrs
  obtain ⟨es, _, _, hX⟩ := simpleSel_shape c pfx s op rest X e h he
  refine ⟨fun extra env => simple_traceRows o ao hp c d hcons pfx s op rest X h hs extra env, ?_, ?_⟩
  · rcases hX with ⟨_, rfl⟩ | ⟨a, f, v, _, _, _, _, rfl⟩ <;> exact Or.inr ⟨_, _, rfl⟩
  · intro extra env
    rcases hX with ⟨_, rfl⟩ | ⟨a, f, v, _, _, _, _, rfl⟩ <;>
    · rw [grpSel_addCols]
      simp only [grpSel, Sel.withs]
      rw [evalSelG_true]

theorem tree_traceSel : ∀ (t : XTree) (X : Sel), treeSel c t = .ok X →
    (∀ sc ∈ t.leaves, ∃ s op rest, sc = (s, op) :: rest ∧ SelOk s) →
    TraceSel o ao (d.toDb c) X (fun tr => treeHolds (fun s => selMatches o ao c (d.seen o c) s tr) t = true)
  | .simple script k, X, h, hl => by
    obtain ⟨s, op, rest, rfl, hs⟩ := hl script (by simp [XTree.leaves])
    simp only [treeSel] at h
    exact (simple_traceSel o ao hp c d hcons _ s op rest X h hs).congr (fun tr => by simp [treeHolds, headHolds])
  | .complex isAnd k l r, X, h, hl => by
    simp only [treeSel, bind, Except.bind] at h
    cases hls : treeSel c l with
    | error m => simp [hls] at h
    | ok ls =>
      cases hrs : treeSel c r with
      | error m => simp [hls, hrs] at h
      | ok rs =>
        simp [hls, hrs, pure, Except.pure] at h
        subst h
        have ihl := tree_traceSel l ls hls (fun sc hsc => hl sc (by simp [XTree.leaves, hsc]))
        have ihr := tree_traceSel r rs hrs (fun sc hsc => hl sc (by simp [XTree.leaves, hsc]))
        refine (complex_traceSel o ao (d.toDb c) isAnd (pfxText k) ls rs _ _ ihl ihr).congr ?_
        intro tr
        cases isAnd <;> simp [comb, treeHolds]

/-- **the whole script**: the root select returns one row per trace the script describes -/
theorem root_traceSel (script : Script) (X : Sel) (h : rootSel c script = .ok X) (hok : ∀ p ∈ script, SelOk p.1) :
    TraceSel o ao (d.toDb c) X (fun tr => traceMatches o ao c (d.seen o c) script tr = true) := by
  unfold traceMatches
  match script, h, hok with
  | [], h, _ => simp [rootSel] at h
  | [(s, op)], h, hok =>
    simp only [rootSel] at h
    exact (simple_traceSel o ao hp c d hcons "" s op [] X h (hok (s, op) (by simp))).congr
      (fun tr => by rw [scriptHolds_single])
  | p1 :: p2 :: rest, h, hok =>
    simp only [rootSel, planTree, bind, Except.bind] at h
    cases hg : groupsS (p1 :: p2 :: rest) with
    | error m => simp [hg] at h
    | ok gs =>
      simp only [hg, pure, Except.pure] at h
      obtain ⟨h1, h2, h3, h4⟩ := groupsS_spec (fun s => true) (p1 :: p2 :: rest) gs hg
      have hleaves : ∀ sc ∈ (orFold 0 none gs).leaves, ∃ s op rest', sc = (s, op) :: rest' ∧ SelOk s := by
        intro sc hsc
        rcases (orFold_spec (fun s => true) gs 0 none h3 h2).2 sc hsc with ⟨g, hg', hscg⟩ | ⟨p, l, hl, _⟩
        · obtain ⟨s, op, rest', e1, e2⟩ := h4 g hg' sc hscg
          exact ⟨s, op, rest', e1, hok (s, op) e2⟩
        · simp at hl
      refine (tree_traceSel o ao hp c d hcons (orFold 0 none gs) X h hleaves).congr ?_
      intro tr
      obtain ⟨e1, _, _, _⟩ := groupsS_spec (fun s => selMatches o ao c (d.seen o c) s tr) (p1 :: p2 :: rest) gs hg
      rw [(orFold_spec (fun s => selMatches o ao c (d.seen o c) s tr) gs 0 none h3 h2).1]
      simp only [Bool.false_or, scriptHolds]
      have : ∀ (ll : List (List Bool)), ll.any (fun bs => bs.all id) = ll.any (fun bs => bs.all id) := fun _ => rfl
      have e2 := congrArg (fun ll : List (List Bool) => ll.any (fun bs => bs.all id)) e1
      simp only [List.any_map, List.all_map, Function.comp_def, id] at e2
      rw [e2]
end

end Qryn.TraceQL
