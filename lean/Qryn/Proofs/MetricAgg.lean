import Qryn.Proofs.MetricStages
/-! C08 plan-level proofs: vector aggregation (`AggOpPlanner`) over the table of the stage before it. -/
namespace Qryn.LogQL
open Qryn Qryn.Sql

/-! ### the direct reading's aggregation, on points -/
/-- regroup a point: the series becomes the one of the label set the grouping keeps -/
def regroupPt (o : Oracles) (c : Ctx) (d : LokiDb) (q : LogQuery) (g : Grouping) (p : Pt) : Pt :=
  let kl := regroup o g (ptLabels o c d q p)
  ⟨kl.1, kl.2, p.ts, p.value⟩

/-- aggregate the points of every (series, timestamp), in order of first occurrence -/
def aggCore (o : Oracles) (fn : AggFn) (pts : List Pt) : List Pt :=
  (groupsBy (fun (p : Pt) => (p.key, p.ts)) pts).filterMap (fun g =>
    (aggVal o fn (g.2.map (·.value))).map (fun v => ⟨g.1.1, (g.2.head?.map (·.labels)).getD .null, g.1.2, v⟩))

theorem aggStage_eq (o : Oracles) (c : Ctx) (d : LokiDb) (q : LogQuery) (a : VecAgg) (pts : List Pt) :
    aggStage o c d q a pts =
      aggCore o a.fn (pts.map (regroupPt o c d q ((chosenGrouping a.byPrefix a.bySuffix).getD ⟨true, []⟩))) := by
  unfold aggStage aggCore groupsBy regroupPt
  simp only [List.map_map, Function.comp_def, List.filterMap_map, List.filter_map, List.head?_map, Option.map_map]

/-- the aggregate of a non-empty group of a modelled function -/
def aggValD (o : Oracles) (fn : AggFn) (vs : List Rat) : Rat := (aggVal o fn vs).getD 0

theorem aggVal_some (o : Oracles) (fn : AggFn) (vs : List Rat) (hne : vs ≠ []) :
    aggVal o fn vs = some (aggValD o fn vs) := by
  cases vs with
  | nil => exact absurd rfl hne
  | cons v rest => cases fn <;> simp_all [aggVal, aggValD]

theorem filterMap_eq_map_of {α β} (f : α → Option β) (g : α → β) (l : List α) (h : ∀ a ∈ l, f a = some (g a)) :
    l.filterMap f = l.map g := by
  induction l with
  | nil => rfl
  | cons a l ih =>
    simp only [List.filterMap_cons, h a (List.mem_cons_self ..), List.map_cons]
    rw [ih (fun b hb => h b (List.mem_cons_of_mem _ hb))]

theorem ratsOf_of_numOf (vals : List Val) (vs : List Rat) (h : vals.map numOf? = vs.map some) : ratsOf vals = some vs := by
  induction vals generalizing vs with
  | nil =>
    cases vs with
    | nil => rfl
    | cons v vs => simp at h
  | cons x vals ih =>
    cases vs with
    | nil => simp at h
    | cons v vs =>
      simp only [List.map_cons, List.cons.injEq] at h
      have := ih vs h.2
      simp only [ratsOf, List.mapM_cons] at this ⊢
      rw [toRat_of_numOf h.1, this]
      rfl

theorem aggCore_eq (o : Oracles) (fn : AggFn) (pts : List Pt) :
    aggCore o fn pts = (groupsBy (fun (p : Pt) => (p.key, p.ts)) pts).map (fun g =>
      ⟨g.1.1, (g.2.head?.map (·.labels)).getD .null, g.1.2, aggValD o fn (g.2.map (·.value))⟩) := by
  unfold aggCore
  apply filterMap_eq_map_of
  intro g hg
  obtain ⟨⟨a, rest, hgr, _⟩, _⟩ := groupsBy_head _ pts g hg
  rw [aggVal_some o fn _ (by rw [hgr]; simp)]
  rfl

/-! ### `AggOpPlanner`'s select -/
def aggCols (fn : AggFn) : List Expr :=
  [simpleCol "fingerprint" "fingerprint", .col (aggValue fn) "value",
   simpleCol "lra_main.timestamp_ns" "timestamp_ns", emptyStr, .col (.call "any" [.raw "lra_main.labels"]) "labels"]

def aggBody (fn : AggFn) (hv : Option Expr) : Sel :=
  .mk [] false (aggCols fn) (some (.withRef (.named "lra_main"))) [] none none
    [.raw "fingerprint", .raw "timestamp_ns"] hv [] none

theorem agg_aliasVals (o : Oracles) (env : Env) (fn : AggFn) (r : Row) (h : StdRow r) :
    aliasVals o env (aggCols fn) (qualify "lra_main" r) =
      [("fingerprint", r.get "fingerprint"), ("timestamp_ns", r.get "timestamp_ns"), ("string", .str [])] := by
  have e1 := get_unqualified "lra_main" "fingerprint" r (by simp [Std5])
  have e2 := get_q "lra_main" "timestamp_ns" "lra_main.timestamp_ns" rfl r h
  cases fn <;>
    simp [aggCols, aliasVals, hasAgg, aggNames, aggValue, simpleCol, emptyStr, e1, e2]

/-- the value `AggOpPlanner` computes over the numeric cells of a group is the defined aggregate -/
theorem agg_value_num (o : Oracles) (env : Env) (rows : List Row) (first : Row) (vs : List Rat) (fn : AggFn)
    (h : rows.map (fun r => numOf? (r.get "lra_main.value")) = vs.map some) (hne : vs ≠ []) :
    numOf? (evalAgg o env rows first (.col (aggValue fn) "value")) = some (aggValD o fn vs) := by
  have hr : ratsOf (rows.map (fun r => r.get "lra_main.value")) = some vs := by
    apply ratsOf_of_numOf
    rw [List.map_map]
    exact h
  have hl : rows.length = vs.length := by
    have := congrArg List.length h; simpa using this
  obtain ⟨v, rest, rfl⟩ : ∃ v rest, vs = v :: rest := by
    cases vs with
    | nil => exact absurd rfl hne
    | cons v rest => exact ⟨v, rest, rfl⟩
  cases fn <;>
    simp [aggValue, aggVal, aggValD, evalAgg, aggCall, hr, sumAgg, avgAgg, minAgg, maxAgg, varPopAgg, stddevPopAgg, numOf?, ratSum,
      ratSumL, hl]

theorem agg_group_row (o : Oracles) (env : Env) (fn : AggFn)
    (A : List Row) (hstd : ∀ r ∈ A, StdRow r) (B : List Pt) (hne : A ≠ []) (hAB : A.map rview = B.map Pt.view) :
    rview (grow o env (aggCols fn) (A.map (qualify "lra_main"))) =
      Pt.view ⟨(B.head?.map (·.key)).getD .null, (B.head?.map (·.labels)).getD .null, (B.head?.map (·.ts)).getD 0,
        aggValD o fn (B.map (·.value))⟩ := by
  obtain ⟨r0, A', rfl⟩ : ∃ r0 A', A = r0 :: A' := by
    cases A with
    | nil => exact absurd rfl hne
    | cons r0 A' => exact ⟨r0, A', rfl⟩
  obtain ⟨p0, B', rfl⟩ : ∃ p0 B', B = p0 :: B' := by
    cases B with
    | nil => simp at hAB
    | cons p0 B' => exact ⟨p0, B', rfl⟩
  have h0 : rview r0 = p0.view := by simpa using (List.cons.inj hAB).1
  have hs0 := hstd r0 (List.mem_cons_self ..)
  simp only [rview, Pt.view, Prod.mk.injEq] at h0
  obtain ⟨k1, k2, k3, k4⟩ := h0
  have hval := agg_value_num o env (((r0 :: A').map (qualify "lra_main")).map (fun r => aliasVals o env (aggCols fn) r ++ r))
    (scope o env (aggCols fn) "value" (((r0 :: A').map (qualify "lra_main")).headD [])) ((p0 :: B').map (·.value)) fn (by
      rw [List.map_map, List.map_map, List.map_map]
      apply map_rel rview Pt.view _ _ _ _ hAB
      intro r hr p _ hv
      simp only [Function.comp_apply]
      rw [agg_aliasVals o env fn r (hstd r hr)]
      have e := get_q "lra_main" "value" "lra_main.value" rfl r (hstd r hr)
      simp [get_cons, e]
      have := congrArg (fun v => v.2.2.1) hv
      simpa [rview, Pt.view] using this) (by simp)
  have e1 := get_unqualified "lra_main" "fingerprint" r0 (by simp [Std5])
  have e2 := get_q "lra_main" "timestamp_ns" "lra_main.timestamp_ns" rfl r0 hs0
  have e3 := get_q "lra_main" "labels" "lra_main.labels" rfl r0 hs0
  have hav := agg_aliasVals o env fn r0 hs0
  unfold grow
  simp only [aggCols, List.map_cons, List.map_nil, colName, simpleCol, emptyStr, rview, get_cons] at hval ⊢
  simp only [aggCols, simpleCol, emptyStr] at hav
  cases fn <;>
    simp_all [Pt.view, scope, evalAgg, aggCall, anyAgg, evalE, get_cons, get_append, aliasVals, hasAgg, aggNames, aggValue,
      List.headD]

end Qryn.LogQL

namespace Qryn.LogQL
open Qryn Qryn.Sql

theorem grow_std (o : Oracles) (env : Env) (cols : List Expr) (grp : List Row) (h : ∀ c ∈ cols, Std5 (colName c)) :
    StdRow (grow o env cols grp) := by
  intro p hp
  unfold grow at hp
  obtain ⟨c, hc, rfl⟩ := List.mem_map.mp hp
  exact h c hc

theorem havingFilter_sub (o : Oracles) (env : Env) (hv : Option Expr) (T : Table) : ∀ r ∈ havingFilter o env hv T, r ∈ T := by
  intro r hr
  cases hv with
  | none => exact hr
  | some h => exact (List.mem_filter.mp hr).1

/-- **vector aggregation (AggOpPlanner).** Over the points of `lra_main`, the select returns one row per
    (series, timestamp) in order of first occurrence, carrying the defined aggregate of the group's values and the
    labels of its first member; the optional HAVING keeps the rows satisfying the comparison. -/
theorem agg_eval (o : Oracles) (db : Db) (env : Env) (fn : AggFn)
    (T : Table) (pts : List Pt) (h : Rep T pts) (hT : env.lookup (.named "lra_main") = some T) (cm : Option Comparison) :
    Rep (evalBodyA o db env (aggBody fn (cmpHaving cm))) (cmpStage cm (aggCore o fn pts)) := by
  unfold aggBody
  rw [evalBodyA_grouped o db env _ (aggCols fn) _ (T.map (qualify "lra_main"))
    (by simp [sourceRowsA, sourceRows, hT, Alias.text]) _ rfl]
  apply having_rep
  rw [groupsBy_map]
  have hkey : ∀ r ∈ T, gkey o env (aggCols fn) [.raw "fingerprint", .raw "timestamp_ns"] (qualify "lra_main" r) =
      (fun (k : Val × Val) => [k.1, k.2]) ((fun (v : Val × Val × Option Rat × Val) => (v.1, v.2.1)) (rview r)) := by
    intro r hr
    unfold gkey
    rw [agg_aliasVals o env fn r (h.std r hr)]
    simp [evalE, get_cons, rview]
  rw [groupsBy_congr _ _ T hkey]
  simp only [List.map_map, Function.comp_def]
  refine ⟨?_, ?_⟩
  · have := groups_rel rview Pt.view (fun (v : Val × Val × Option Rat × Val) => (v.1, v.2.1)) (fun (k : Val × Val) => [k.1, k.2])
      (by intro a b hab; simp at hab; exact Prod.ext hab.1 hab.2) T pts h.view
      (fun A => rview (grow o env (aggCols fn) (A.map (qualify "lra_main"))))
      (fun B => Pt.view ⟨(B.head?.map (·.key)).getD .null, (B.head?.map (·.labels)).getD .null, (B.head?.map (·.ts)).getD 0,
        aggValD o fn (B.map (·.value))⟩)
      (fun A B hne hA _ _ hAB => agg_group_row o env fn A (fun r hr => h.std r (hA r hr)) B hne hAB)
    rw [List.map_map] 
    simp only [Function.comp_def] at this ⊢
    rw [this, aggCore_eq o fn]
    have henc := groupsBy_enc (fun (p : Pt) => (p.key, p.ts)) (fun (k : Val × Int) => (k.1, Val.int k.2))
      (by intro a b hab; simp at hab; exact Prod.ext hab.1 hab.2) pts
    simp only [Pt.view] at henc ⊢
    rw [henc]
    simp only [List.map_map, Function.comp_def]
    apply List.map_congr_left
    intro g hg
    obtain ⟨⟨a, rest, hgr, hk⟩, _⟩ := groupsBy_head _ pts g hg
    simp only [hgr, List.head?_cons, Option.map_some, Option.getD_some, ← hk]
    rfl
  · intro r hr
    obtain ⟨g, _, rfl⟩ := List.mem_map.mp hr
    apply grow_std
    intro c hc
    simp only [aggCols, List.mem_cons, List.not_mem_nil, or_false] at hc
    rcases hc with rfl | rfl | rfl | rfl | rfl <;> simp [colName, simpleCol, emptyStr, Std5]

end Qryn.LogQL
