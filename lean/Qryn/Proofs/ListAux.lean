import Qryn.Sql.SemG
/-! List lemmas for the grouped SQL semantics: `dedup`, `sortBy`, prefixes of sorted lists. Core only. -/
namespace Qryn.ListAux
open Qryn Qryn.Sql

theorem mem_dedup {α} [BEq α] [LawfulBEq α] (a : α) (l : List α) : a ∈ dedup l ↔ a ∈ l := by
  induction l with
  | nil => simp [dedup]
  | cons x xs ih =>
    simp only [dedup, List.mem_cons, List.mem_filter, ih]
    by_cases h : a = x
    · simp [h]
    · simp [h]

theorem nodup_dedup {α} [BEq α] [LawfulBEq α] (l : List α) : (dedup l).Nodup := by
  induction l with
  | nil => simp [dedup]
  | cons x xs ih =>
    simp only [dedup, List.nodup_cons, List.mem_filter]
    refine ⟨by simp, ?_⟩
    exact List.Nodup.sublist List.filter_sublist ih

theorem insertBy_perm {α} (le : α → α → Bool) (x : α) (l : List α) : (insertBy le x l).Perm (x :: l) := by
  induction l with
  | nil => simp [insertBy]
  | cons y ys ih =>
    simp only [insertBy]
    split
    · exact (List.Perm.cons y ih).trans (List.Perm.swap x y ys)
    · exact List.Perm.refl _

theorem sortBy_perm {α} (le : α → α → Bool) (l : List α) : (sortBy le l).Perm l := by
  induction l with
  | nil => simp [sortBy]
  | cons x xs ih =>
    have : sortBy le (x :: xs) = insertBy le x (sortBy le xs) := by simp [sortBy]
    rw [this]
    exact (insertBy_perm le x _).trans (List.Perm.cons x ih)

theorem mem_sortBy {α} (le : α → α → Bool) (l : List α) (a : α) : a ∈ sortBy le l ↔ a ∈ l :=
  (sortBy_perm le l).mem_iff

/-- `le` is a total preorder -/
structure TotalPreorder {α} (le : α → α → Bool) : Prop where
  total : ∀ a b, le a b = true ∨ le b a = true
  trans : ∀ a b c, le a b = true → le b c = true → le a c = true

theorem insertBy_sorted {α} (le : α → α → Bool) (h : TotalPreorder le) (x : α) (l : List α)
    (hs : l.Pairwise (fun a b => le a b = true)) : (insertBy le x l).Pairwise (fun a b => le a b = true) := by
  induction l with
  | nil => simp [insertBy]
  | cons y ys ih =>
    simp only [insertBy]
    rw [List.pairwise_cons] at hs
    split
    · rename_i hyx
      rw [List.pairwise_cons]
      refine ⟨?_, ih hs.2⟩
      intro z hz
      rcases List.mem_cons.mp ((insertBy_perm le x ys).mem_iff.mp hz) with hz' | hz'
      · rw [hz']; exact hyx
      · exact hs.1 z hz'
    · rename_i hyx
      have hxy : le x y = true := by
        rcases h.total x y with h1 | h1
        · exact h1
        · exact absurd h1 hyx
      rw [List.pairwise_cons]
      refine ⟨?_, List.pairwise_cons.mpr hs⟩
      intro z hz
      rcases List.mem_cons.mp hz with hz | hz
      · rw [hz]; exact hxy
      · exact h.trans x y z hxy (hs.1 z hz)

theorem sortBy_sorted {α} (le : α → α → Bool) (h : TotalPreorder le) (l : List α) :
    (sortBy le l).Pairwise (fun a b => le a b = true) := by
  induction l with
  | nil => simp [sortBy]
  | cons x xs ih =>
    have : sortBy le (x :: xs) = insertBy le x (sortBy le xs) := by simp [sortBy]
    rw [this]
    exact insertBy_sorted le h x _ ih

/-- in a sorted list every element of a prefix precedes every element that was cut -/
theorem take_le_drop {α} (le : α → α → Bool) (l : List α) (hs : l.Pairwise (fun a b => le a b = true)) (n : Nat)
    (a b : α) (ha : a ∈ l.take n) (hb : b ∈ l.drop n) : le a b = true := by
  have := List.take_append_drop n l
  rw [← this] at hs
  exact (List.pairwise_append.mp hs).2.2 a ha b hb

end Qryn.ListAux

/- `insertBy_perm`, `sortBy_perm`, `mem_sortBy`, `take_le_drop` have namesakes in `Qryn.Proofs.Sort` (C07); they stay
   under `Qryn.ListAux` so that a module may import both proof chains (C13 does). -/
namespace Qryn
export ListAux (mem_dedup nodup_dedup insertBy_sorted sortBy_sorted)
end Qryn
