import Qryn.Ingest.Faults
/-! Lemmas for C05 about `Qryn.Ingest.Faults`: the parser goroutine closes its channel exactly once, the
    handler's waiting logic terminates when every push resolves, good portions keep the shared columns
    rectangular, and the decoders of the fixed code only emit good portions. -/
namespace Qryn.IngestFaults

/-! ### the parser goroutine -/

theorem liftE_ne_spin {α} (x : Except Fault α) : liftE x ≠ Res.spin := by
  cases x <;> simp [liftE]

theorem runSteps_not_spin {σ ι} (step : σ → ι → Res σ) (h : ∀ s i, step s i ≠ .spin) :
    ∀ (is : List ι) (s : σ), (runSteps step is s).2 ≠ .spin := by
  intro is
  induction is with
  | nil => intro s; simp [runSteps]
  | cons i is ih =>
    intro s
    unfold runSteps
    cases hs : step s i with
    | ok s' => simpa using ih s'
    | err c => simp
    | fault f => simp
    | spin => exact absurd hs (h s i)

theorem logStep_not_spin (fx : Fixes) (h : fx.influxNewline = true) (thr st i) : logStep fx thr st i ≠ .spin := by
  cases i <;> simp only [logStep, h] <;> (try split) <;> first | exact liftE_ne_spin _ | simp_all

theorem onSpan_not_spin (fx thr st c) : onSpan fx thr st c ≠ .spin := by
  unfold onSpan
  split
  · simp
  · split
    · simp
    · dsimp only
      split <;> simp

theorem spanStep_not_spin (fx thr st i) : spanStep fx thr st i ≠ .spin := by
  cases i <;> simp only [spanStep] <;> (try split) <;>
    first | exact liftE_ne_spin _ | exact onSpan_not_spin _ _ _ _ | simp

theorem profStep_not_spin (fx : Fixes) (h : fx.nsGuard = true) (thr st i) : profStep fx thr st i ≠ .spin := by
  cases i <;> simp only [profStep, h] <;> (repeat' split) <;> first | exact liftE_ne_spin _ | simp_all

theorem parserGoroutine_closes (sent final : List Portion) (e : Ending) (h : e ≠ .spin) :
    (parserGoroutine sent final e).closes = 1 := by
  cases e <;> simp_all [parserGoroutine, tamePanic]

theorem filter_isError_portions (ps : List Portion) : (ps.map Msg.portion).filter Msg.isError = [] := by
  induction ps with
  | nil => rfl
  | cons p ps ih => simp [Msg.isError, ih]

/-- at most one error message is ever sent -/
theorem parserGoroutine_errors (sent final : List Portion) (e : Ending) :
    ((parserGoroutine sent final e).msgs.filter Msg.isError).length ≤ 1 := by
  cases e <;> simp [parserGoroutine, tamePanic, List.filter_append, filter_isError_portions, List.filter_cons,
    Msg.isError]

/-! ### pushes -/

def Push.resolved : Push → Bool | .acked => true | .failed => true | _ => false

theorem pushOutcome_resolved (fx : Fixes) (h : fx.pushRecover = true) (env : Env) (r : ReqRes) :
    (pushOutcome fx env r).resolved = true := by
  cases r with
  | queued => simp only [pushOutcome]; split <;> rfl
  | empty => rfl
  | refused => rfl
  | panicked f => simp [pushOutcome, faultOutcome, h, Push.resolved]

theorem pushPortion_resolved (fx : Fixes) (h : fx.pushRecover = true) (env : Env) (cols : Cols) (p : Portion) :
    ∀ x ∈ (pushPortion fx env cols p).2, x.resolved = true := by
  have hall : (pushPortion fx env cols p).2.all Push.resolved = true := by
    cases p <;> simp [pushPortion, pushOutcome_resolved fx h] <;> rfl
  exact fun x hx => List.all_eq_true.mp hall x hx

theorem contains_of_resolved (ps : List Push) (h : ∀ x ∈ ps, x.resolved = true) :
    Push.crashed ∉ ps ∧ Push.pending ∉ ps := by
  constructor <;> intro hm <;> simpa [Push.resolved] using h _ hm

/-- `doParse` answers with a status whenever every push it waits for resolves and the channel is closed
    (or an error message arrives first) -/
theorem doParse_status (fx : Fixes) (hrec : fx.pushRecover = true) (env : Env) (ok : Nat) :
    ∀ (msgs : List Msg) (closes : Nat) (cols : Cols) (pushes : List Push),
      (∀ x ∈ pushes, x.resolved = true) → closes ≠ 0 →
      ∃ n, (doParse fx env ok msgs closes cols pushes).1 = .status n := by
  intro msgs
  induction msgs with
  | nil =>
    intro closes cols pushes hp hc
    have ⟨h1, h2⟩ := contains_of_resolved pushes hp
    simp only [doParse, List.contains_eq_mem, h1, h2, hc, decide_false, Bool.false_eq_true, if_false]
    split <;> simp
  | cons m msgs ih =>
    intro closes cols pushes hp hc
    cases m with
    | error c =>
      have ⟨h1, _⟩ := contains_of_resolved pushes hp
      simp [doParse, h1]
    | portion p =>
      unfold doParse
      simp only
      apply ih
      · intro x hx
        rcases List.mem_append.mp hx with hx | hx
        · exact hp x hx
        · exact pushPortion_resolved fx hrec env cols p x hx
      · exact hc

/-- an error message on the channel is answered with its code, whatever was sent before it -/
theorem doParse_error (fx : Fixes) (hrec : fx.pushRecover = true) (env : Env) (ok code : Nat) :
    ∀ (sent : List Portion) (rest : List Msg) (closes : Nat) (cols : Cols) (pushes : List Push),
      (∀ x ∈ pushes, x.resolved = true) →
      (doParse fx env ok (sent.map .portion ++ .error code :: rest) closes cols pushes).1 = .status code := by
  intro sent
  induction sent with
  | nil =>
    intro rest closes cols pushes hp
    have ⟨h1, _⟩ := contains_of_resolved pushes hp
    simp [doParse, h1]
  | cons p sent ih =>
    intro rest closes cols pushes hp
    simp only [List.map_cons, List.cons_append]
    unfold doParse
    simp only
    apply ih
    intro x hx
    rcases List.mem_append.mp hx with hx | hx
    · exact hp x hx
    · exact pushPortion_resolved fx hrec env cols p x hx

/-! ### rectangular columns -/

def Portion.good : Portion → Bool
  | .logs spl _ => spl.rect
  | .spans ids attrIds => idsOk ids && idsOk attrIds
  | .profile rows => rows == 1
  | .nilSpanFields => true

theorem appendIds_ok (size : Nat) : ∀ (ls : List Nat) (rows : Nat), ls.all (· == size) = true →
    appendIds size ls rows = (rows + ls.length, none) := by
  intro ls
  induction ls with
  | nil => intro rows _; simp [appendIds]
  | cons l ls ih =>
    intro rows h
    simp only [List.all_cons, Bool.and_eq_true, beq_iff_eq] at h
    simp only [appendIds, fixedStrAppend, h.1, if_true]
    rw [ih (rows + 1) h.2]
    simp; omega

theorem idsOk_fst (ids : List (Nat × Nat)) (h : idsOk ids = true) : (ids.map (·.1)).all (· == 16) = true := by
  induction ids with
  | nil => rfl
  | cons p ps ih =>
    simp only [idsOk, List.all_cons, Bool.and_eq_true, beq_iff_eq] at h
    simp only [List.map_cons, List.all_cons, Bool.and_eq_true, beq_iff_eq]
    exact ⟨h.1.1, ih (by simpa [idsOk] using h.2)⟩

theorem idsOk_snd (ids : List (Nat × Nat)) (h : idsOk ids = true) : (ids.map (·.2)).all (· == 8) = true := by
  induction ids with
  | nil => rfl
  | cons p ps ih =>
    simp only [idsOk, List.all_cons, Bool.and_eq_true, beq_iff_eq] at h
    simp only [List.map_cons, List.all_cons, Bool.and_eq_true, beq_iff_eq]
    exact ⟨h.1.2, ih (by simpa [idsOk] using h.2)⟩

theorem tempoProcess_rect (fx : Fixes) (cols : TempoCols) (ids : List (Nat × Nat))
    (hc : cols.rect = true) (hi : idsOk ids = true) : (tempoProcess fx cols ids).1.rect = true := by
  unfold tempoProcess
  simp only [hi, Bool.not_true, Bool.and_false, Bool.false_eq_true, if_false]
  rw [appendIds_ok 16 _ _ (idsOk_fst ids hi)]
  simp only
  rw [appendIds_ok 8 _ _ (idsOk_snd ids hi)]
  simp only [TempoCols.rect, Bool.and_eq_true, beq_iff_eq, List.length_map] at hc ⊢
  omega

/-- with the id check, a request with a bad id leaves the columns as they were -/
theorem tempoProcess_refuses (fx : Fixes) (h : fx.idCheck = true) (cols : TempoCols) (ids : List (Nat × Nat))
    (hi : idsOk ids = false) : tempoProcess fx cols ids = (cols, .refused) := by
  simp [tempoProcess, h, hi]

theorem pushPortion_rect (fx : Fixes) (env : Env) (cols : Cols) (p : Portion)
    (hc : cols.rect = true) (hp : p.good = true) : (pushPortion fx env cols p).1.rect = true := by
  cases p with
  | logs spl series =>
    simp only [Portion.good] at hp
    simp only [pushPortion, samplesProcess, Cols.rect, SplCounts.rect, Bool.and_eq_true, beq_iff_eq] at hc hp ⊢
    obtain ⟨⟨⟨hs, h2⟩, h3⟩, h4⟩ := hc
    exact ⟨⟨⟨by omega, h2⟩, h3⟩, h4⟩
  | spans ids attrIds =>
    simp only [Portion.good, Bool.and_eq_true] at hp
    simp only [Cols.rect, Bool.and_eq_true] at hc
    have h1 := tempoProcess_rect fx cols.traces ids hc.1.1.2 hp.1
    have h2 := tempoProcess_rect fx cols.tags attrIds hc.1.2 hp.2
    simp only [pushPortion, Cols.rect, Bool.and_eq_true]
    exact ⟨⟨⟨hc.1.1.1, h1⟩, h2⟩, hc.2⟩
  | profile rows =>
    simp only [Portion.good, beq_iff_eq] at hp
    subst hp
    simp only [pushPortion, profileProcess, Cols.rect, ProfCols.rect, Bool.and_eq_true, beq_iff_eq] at hc ⊢
    obtain ⟨h1, h2⟩ := hc
    exact ⟨h1, by omega⟩
  | nilSpanFields => simpa [pushPortion] using hc

def Msg.good : Msg → Bool | .portion p => p.good | .error _ => true

theorem doParse_rect (fx : Fixes) (env : Env) (ok : Nat) :
    ∀ (msgs : List Msg) (closes : Nat) (cols : Cols) (pushes : List Push),
      msgs.all Msg.good = true → cols.rect = true →
      (doParse fx env ok msgs closes cols pushes).2.rect = true := by
  intro msgs
  induction msgs with
  | nil =>
    intro closes cols pushes _ hc
    unfold doParse
    (repeat' split) <;> exact hc
  | cons m msgs ih =>
    intro closes cols pushes hm hc
    simp only [List.all_cons, Bool.and_eq_true] at hm
    cases m with
    | error c => unfold doParse; exact hc
    | portion p =>
      unfold doParse
      simp only
      exact ih _ _ _ hm.2 (pushPortion_rect fx env cols p hc (by simpa [Msg.good] using hm.1))

/-- the messages of a parser goroutine are good when what it sent and what it may still send are -/
theorem trace_good (sent final : List Portion) (e : Ending)
    (hs : sent.all Portion.good = true) (hf : e = .done → final.all Portion.good = true) :
    (parserGoroutine sent final e).msgs.all Msg.good = true := by
  have hmap : ∀ ps : List Portion, ps.all Portion.good = true → (ps.map Msg.portion).all Msg.good = true := by
    intro ps h
    simpa [List.all_map, Function.comp_def, Msg.good] using h
  cases e with
  | done =>
    simp only [parserGoroutine]
    rw [List.map_append, List.all_append, hmap _ hs, hmap _ (hf rfl)]; rfl
  | err c => simp [parserGoroutine, List.all_append, hmap _ hs, Msg.good]
  | fault f => simp [parserGoroutine, tamePanic, List.all_append, hmap _ hs, Msg.good]
  | spin => simpa [parserGoroutine] using hmap _ hs

/-! ### generic facts about `runSteps` -/

theorem runSteps_inv {σ ι} (step : σ → ι → Res σ) (P : σ → Prop) (Q : ι → Prop)
    (hstep : ∀ s i s', P s → Q i → step s i = .ok s' → P s') :
    ∀ (is : List ι) (s : σ), P s → (∀ i ∈ is, Q i) → P (runSteps step is s).1 := by
  intro is
  induction is with
  | nil => intro s hs _; simpa [runSteps] using hs
  | cons i is ih =>
    intro s hs hq
    unfold runSteps
    cases h : step s i with
    | ok s' =>
      exact ih s' (hstep s i s' hs (hq i (by simp)) h) (fun j hj => hq j (by simp [hj]))
    | err c => simpa using hs
    | fault f => simpa using hs
    | spin => simpa using hs

theorem runSteps_done {σ ι} (step : σ → ι → Res σ) (Q : ι → Prop)
    (hstep : ∀ s i, Q i → ∃ s', step s i = .ok s') :
    ∀ (is : List ι) (s : σ), (∀ i ∈ is, Q i) → (runSteps step is s).2 = .done := by
  intro is
  induction is with
  | nil => intro s _; simp [runSteps]
  | cons i is ih =>
    intro s hq
    obtain ⟨s', h⟩ := hstep s i (hq i (by simp))
    unfold runSteps
    simp only [h]
    exact ih s' (fun j hj => hq j (by simp [hj]))

/-! ### log family -/

def EntriesCall.wf (c : EntriesCall) : Bool :=
  c.msgs.length == c.ts && c.vals == c.ts && c.types.length == c.ts

def LogItem.wf : LogItem → Bool
  | .entries c => c.wf
  | .fillThenEntries _ c => c.wf
  | _ => true

def LogSt.good (st : LogSt) : Prop := st.spl.rect = true ∧ st.sent.all Portion.good = true

theorem fastFillArray_ok (fx : Fixes) (n m : Nat) (h : fastFillArray fx n = .ok m) : m = n := by
  unfold fastFillArray at h
  split at h
  · split at h
    · cases h; omega
    · cases h
  · cases h; rfl

theorem onEntriesChecks_nfp (fx : Fixes) (c : EntriesCall) (nfp sz : Nat)
    (h : onEntriesChecks fx c = .ok (nfp, sz)) : nfp = c.ts := by
  unfold onEntriesChecks at h
  split at h
  · cases h
  · split at h
    · cases h
    · rename_i hfill
      split at h
      · cases h
      · split at h
        · cases h
        · split at h
          · cases h
          · cases h
            exact fastFillArray_ok fx _ _ hfill

theorem onEntriesApply_good (thr : Nat) (st : LogSt) (c : EntriesCall) (sz : Nat)
    (hst : st.good) (hc : c.wf = true) : (onEntriesApply thr st c c.ts sz).good := by
  obtain ⟨h1, h2⟩ := hst
  simp only [EntriesCall.wf, Bool.and_eq_true, beq_iff_eq] at hc
  simp only [SplCounts.rect, Bool.and_eq_true, beq_iff_eq] at h1
  unfold onEntriesApply
  simp only
  generalize (if c.ts = 0 then 0 else presentTypes c.types) = ns
  by_cases hgt : st.size + sz + 14 * ns > thr
  · simp only [hgt, if_true]
    refine ⟨by rfl, ?_⟩
    simp only [List.all_append, h2, Bool.true_and, List.all_cons, List.all_nil, Bool.and_true, Portion.good,
      SplCounts.rect, Bool.and_eq_true, beq_iff_eq]
    omega
  · simp only [hgt, if_false]
    refine ⟨?_, h2⟩
    simp only [SplCounts.rect, Bool.and_eq_true, beq_iff_eq]
    omega

theorem logStep_good (fx : Fixes) (thr : Nat) (st : LogSt) (i : LogItem) (st' : LogSt)
    (hst : st.good) (hi : i.wf = true) (h : logStep fx thr st i = .ok st') : st'.good := by
  have key : ∀ c : EntriesCall, c.wf = true → ∀ st'', onEntries fx thr st c = .ok st'' → st''.good := by
    intro c hc st'' h
    unfold onEntries at h
    split at h
    · cases h
    · rename_i nfp sz hchk
      cases h
      have := onEntriesChecks_nfp fx c nfp sz hchk
      subst this
      exact onEntriesApply_good thr st c sz hst hc
  cases i with
  | entries c =>
    simp only [logStep] at h
    cases h2 : onEntries fx thr st c with
    | error f => simp [h2, liftE] at h
    | ok s2 =>
      simp only [h2, liftE, Res.ok.injEq] at h
      subst h
      exact key c hi s2 h2
  | fillThenEntries n c =>
    simp only [logStep] at h
    cases h1 : fastFillArray fx n with
    | error f => simp [h1, liftE, bind, Except.bind] at h
    | ok m =>
      cases h2 : onEntries fx thr st c with
      | error f => simp [h1, h2, liftE, bind, Except.bind] at h
      | ok s2 =>
        simp only [h1, h2, liftE, bind, Except.bind, Res.ok.injEq] at h
        subst h
        exact key c hi s2 h2
  | error code => simp [logStep] at h
  | assertStr b =>
    simp only [logStep] at h
    split at h
    · cases h; exact hst
    · cases b <;> simp [assertString, liftE, bind, Except.bind, pure, Except.pure] at h
      subst h; exact hst
  | derefGetter p =>
    simp only [logStep] at h
    split at h
    · cases h; exact hst
    · cases p <;> simp [deref, liftE, bind, Except.bind, pure, Except.pure] at h
      subst h; exact hst
  | danglingEscape =>
    simp only [logStep] at h
    split at h <;> cases h

def Run.good (r : Run) : Prop :=
  r.sent.all Portion.good = true ∧ (r.ending = .done → r.final.all Portion.good = true)

theorem logsRun_good (fx : Fixes) (thr : Nat) (items : List LogItem) (h : items.all LogItem.wf = true) :
    (logsRun fx thr items).good := by
  have inv := runSteps_inv (logStep fx thr) LogSt.good (fun i => i.wf = true)
    (fun s i s' hs hi hstep => logStep_good fx thr s i s' hs hi hstep) items .init
    ⟨by rfl, by rfl⟩ (fun i hi => List.all_eq_true.mp h i hi)
  refine ⟨inv.2, fun _ => ?_⟩
  simp only [logsRun, List.all_cons, List.all_nil, Bool.and_true, Portion.good]
  exact inv.1

/-! ### span family -/

def SpanSt.good (st : SpanSt) : Prop :=
  idsOk st.ids = true ∧ idsOk st.attrIds = true ∧ st.sent.all Portion.good = true

theorem idsOk_append (a b : List (Nat × Nat)) : idsOk (a ++ b) = (idsOk a && idsOk b) := by
  simp [idsOk, List.all_append]

theorem idsOk_replicate (n : Nat) : idsOk (List.replicate n (16, 8)) = true := by
  simp [idsOk, List.all_replicate]

theorem onSpan_good (fx : Fixes) (hfx : fx.idCheck = true) (thr : Nat) (st : SpanSt) (c : SpanCall) (st' : SpanSt)
    (hst : st.good) (h : onSpan fx thr st c = .ok st') : st'.good := by
  obtain ⟨h1, h2, h3⟩ := hst
  unfold onSpan at h
  simp only [hfx, Bool.true_and] at h
  split at h
  · cases h
  · rename_i hids
    simp only [Bool.or_eq_true, bne_iff_ne, ne_eq, not_or, Decidable.not_not] at hids
    obtain ⟨ht, hs⟩ := hids
    split at h
    · cases h
    · have e1 : idsOk (st.ids ++ [(c.tid, c.sid)]) = true := by
        rw [idsOk_append, h1, ht, hs]; rfl
      have e2 : idsOk (st.attrIds ++ List.replicate c.keys (c.tid, c.sid)) = true := by
        rw [idsOk_append, h2, ht, hs, idsOk_replicate]; rfl
      split at h
      · cases h
        refine ⟨by rfl, by rfl, ?_⟩
        simp only [List.all_append, h3, List.all_cons, List.all_nil, Bool.and_true, Portion.good, e1, e2]
      · cases h
        exact ⟨e1, e2, h3⟩

theorem spanStep_good (fx : Fixes) (hfx : fx.idCheck = true) (thr : Nat) (st : SpanSt) (i : SpanItem)
    (st' : SpanSt) (hst : st.good) (h : spanStep fx thr st i = .ok st') : st'.good := by
  cases i with
  | span c => exact onSpan_good fx hfx thr st c st' hst h
  | error code => simp [spanStep] at h
  | derefGetter p =>
    simp only [spanStep] at h
    split at h
    · cases h; exact hst
    · cases p <;> simp [deref, liftE, bind, Except.bind, pure, Except.pure] at h
      subst h; exact hst
  | derefRaw p =>
    simp only [spanStep] at h
    cases p <;> simp [deref, liftE, bind, Except.bind, pure, Except.pure] at h
    subst h; exact hst

theorem spansRun_good (fx : Fixes) (hfx : fx.idCheck = true) (thr : Nat) (items : List SpanItem) :
    (spansRun fx thr items).good := by
  have inv := runSteps_inv (spanStep fx thr) SpanSt.good (fun _ => True)
    (fun s i s' hs _ hstep => spanStep_good fx hfx thr s i s' hs hstep) items .init
    ⟨by rfl, by rfl, by rfl⟩ (fun _ _ => trivial)
  refine ⟨inv.2.2, fun _ => ?_⟩
  simp only [spansRun, List.all_cons, List.all_nil, Bool.and_true, Portion.good, inv.1, inv.2.1]

/-! ### profile family -/

def ProfItem.isOnProfile : ProfItem → Bool | .onProfile _ => true | _ => false

theorem profRun_rows (fx : Fixes) (hfx : fx.profileFlush = true) (thr : Nat) :
    ∀ (items : List ProfItem) (st : ProfSt),
      items.countP ProfItem.isOnProfile + st.rows ≤ 1 → st.sent.all Portion.good = true →
      (runSteps (profStep fx thr) items st).1.rows ≤ 1 ∧
      (runSteps (profStep fx thr) items st).1.sent.all Portion.good = true := by
  intro items
  induction items with
  | nil => intro st h hs; simp only [runSteps]; exact ⟨by simpa using h, hs⟩
  | cons i is ih =>
    intro st h hs
    have hrows : st.rows ≤ 1 := by omega
    unfold runSteps
    cases hstep : profStep fx thr st i with
    | err c => exact ⟨hrows, hs⟩
    | fault f => exact ⟨hrows, hs⟩
    | spin => exact ⟨hrows, hs⟩
    | ok s' =>
      simp only
      cases i with
      | onProfile size =>
        simp only [List.countP_cons, ProfItem.isOnProfile, if_true] at h
        have h0 : st.rows = 0 := by omega
        simp only [profStep, hfx, if_true] at hstep
        split at hstep
        · cases hstep
          apply ih
          · simp; omega
          · simp [List.all_append, hs, Portion.good, h0]
        · cases hstep
          apply ih
          · simp; omega
          · exact hs
      | error code => simp [profStep] at hstep
      | slice len lo hi =>
        have : s' = st := by
          simp only [profStep] at hstep
          (repeat' split at hstep) <;>
            first
            | cases hstep
            | (cases hb : sliceBounds len lo hi <;> simp [hb, liftE, bind, Except.bind, pure, Except.pure] at hstep
               exact hstep.symm)
        subst this
        exact ih _ (by simpa [List.countP_cons, ProfItem.isOnProfile] using h) hs
      | ns t =>
        have : s' = st := by
          simp only [profStep] at hstep
          split at hstep
          · cases hstep
          · cases hstep; rfl
        subst this
        exact ih _ (by simpa [List.countP_cons, ProfItem.isOnProfile] using h) hs
      | idxCheck len j =>
        have : s' = st := by
          simp only [profStep] at hstep
          split at hstep
          · cases hstep; rfl
          · cases hstep
        subst this
        exact ih _ (by simpa [List.countP_cons, ProfItem.isOnProfile] using h) hs
      | derefRaw p =>
        have : s' = st := by
          simp only [profStep] at hstep
          cases p <;> simp [deref, liftE, bind, Except.bind, pure, Except.pure] at hstep
          exact hstep.symm
        subst this
        exact ih _ (by simpa [List.countP_cons, ProfItem.isOnProfile] using h) hs

theorem profileRun_good (fx : Fixes) (hfx : fx.profileFlush = true) (thr : Nat) (items : List ProfItem)
    (h : items.countP ProfItem.isOnProfile ≤ 1) : (profileRun fx thr items).good := by
  have inv := profRun_rows fx hfx thr items ⟨0, []⟩ (by simpa using h) (by rfl)
  refine ⟨inv.2, fun _ => ?_⟩
  simp only [profileRun, hfx, Bool.true_and]
  split
  · rfl
  · rename_i hne
    have : (runSteps (profStep fx thr) items ⟨0, []⟩).1.rows = 1 := by
      simp only [decide_eq_true_eq] at hne
      omega
    simp [Portion.good, this]

theorem profileSites_no_onProfile (p : RawProfile) : (profileSites p).countP ProfItem.isOnProfile = 0 := by
  rw [List.countP_eq_zero]
  intro i hi
  simp only [profileSites, List.mem_append, List.mem_cons, List.mem_flatMap, List.mem_map, List.mem_range,
    List.not_mem_nil, or_false] at hi
  rcases hi with (rfl | ⟨s, _, hs⟩) | ⟨j, _, rfl⟩
  · simp [ProfItem.isOnProfile]
  · rcases hs with ⟨l, _, hl⟩ | hs
    · cases l with
      | nil => simp at hl
      | cons f fs =>
        simp only [List.mem_cons, List.not_mem_nil, or_false] at hl
        rcases hl with rfl | rfl <;> simp [ProfItem.isOnProfile]
    · obtain ⟨j, _, rfl⟩ := hs
      simp [ProfItem.isOnProfile]
  · simp [ProfItem.isOnProfile]

theorem profileHead_no_onProfile (fx : Fixes) (d : ProfileDoc) (f u : Option Nat) (n : ProfName) :
    ∀ i ∈ profileHead fx d f u n, i.isOnProfile = false := by
  intro i hi
  unfold profileHead at hi
  simp only [List.mem_append] at hi
  rcases hi with ((hi | hi) | hi) | hi
  · cases f <;> simp at hi; subst hi; rfl
  · cases u
    · simp only at hi
      split at hi
      · simp at hi
      · simp at hi; subst hi; rfl
    · simp at hi
  · cases hb : n.brace with
    | none => simp [hb] at hi
    | some inner =>
      simp only [hb, List.mem_append, List.mem_cons, List.not_mem_nil, or_false] at hi
      rcases hi with rfl | hi
      · rfl
      · split at hi
        · simp at hi
        · split at hi
          · simp only [List.mem_cons, List.not_mem_nil, or_false] at hi; subst hi; rfl
          · simp at hi
  · simp only [List.mem_cons, List.not_mem_nil, or_false] at hi
    rcases hi with rfl | rfl <;> rfl

theorem profileBody_one_onProfile (d : ProfileDoc) : (profileBody d).countP ProfItem.isOnProfile ≤ 1 := by
  unfold profileBody
  split
  · simp [ProfItem.isOnProfile]
  · split
    · simp [ProfItem.isOnProfile]
    · simp [List.countP_append, profileSites_no_onProfile, ProfItem.isOnProfile]

theorem profileItems_one_onProfile (fx : Fixes) (d : ProfileDoc) (f u : Option Nat) (n : ProfName) :
    (profileItems fx d f u n).countP ProfItem.isOnProfile ≤ 1 := by
  unfold profileItems
  rw [List.countP_append]
  have : (profileHead fx d f u n).countP ProfItem.isOnProfile = 0 := by
    rw [List.countP_eq_zero]
    intro i hi
    simp [profileHead_no_onProfile fx d f u n i hi]
  have := profileBody_one_onProfile d
  omega

/-! ### the decoders of the log routes only make well-formed `onEntries` calls (Prometheus: see below) -/

theorem entryLens_length : ∀ es : List EntryShape, hasBad es = false → (entryLens es).length = es.length
  | [], _ => rfl
  | .good .. :: es, h => by simp [entryLens, entryLens_length es (by simpa [hasBad] using h)]
  | .bad :: es, h => by simp [hasBad] at h

theorem entryTypes_length : ∀ es : List EntryShape, hasBad es = false → (entryTypes es).length = es.length
  | [], _ => rfl
  | .good .. :: es, h => by simp [entryTypes, entryTypes_length es (by simpa [hasBad] using h)]
  | .bad :: es, h => by simp [hasBad] at h

theorem all_wf_of_mem {items : List LogItem} (h : ∀ i ∈ items, i.wf = true) : items.all LogItem.wf = true :=
  List.all_eq_true.mpr h

theorem lokiJsonItems_wf (ss : List LokiStream) (t : Bool) : (lokiJsonItems ss t).all LogItem.wf = true := by
  apply all_wf_of_mem
  intro i hi
  simp only [lokiJsonItems, List.mem_append, List.mem_flatMap] at hi
  rcases hi with ⟨s, _, hs⟩ | hi
  · cases hl : s.labels with
    | pairs n =>
      simp only [hl] at hs
      cases hb : hasBad s.entries with
      | true => simp [hb] at hs; subst hs; rfl
      | false =>
        simp only [hb, Bool.false_eq_true, if_false, List.mem_cons, List.not_mem_nil, or_false] at hs
        subst hs
        simp [LogItem.wf, EntriesCall.wf, entryLens_length _ hb, entryTypes_length _ hb]
    | unknownInput => simp [hl] at hs; subst hs; rfl
    | badQuote => simp [hl] at hs; subst hs; rfl
  · split at hi
    · simp at hi; subst hi; rfl
    · simp at hi

theorem lokiProtoItems_wf (ss : List (LabelShape × Nat)) : (lokiProtoItems ss).all LogItem.wf = true := by
  apply all_wf_of_mem
  intro i hi
  simp only [lokiProtoItems, List.mem_flatMap] at hi
  obtain ⟨s, _, hs⟩ := hi
  cases hl : s.1 <;> simp [hl] at hs <;> subst hs <;> simp [LogItem.wf, EntriesCall.wf]

theorem otlpLogsItems_wf (rs : List OtlpResourceLogs) : (otlpLogsItems rs).all LogItem.wf = true := by
  apply all_wf_of_mem
  intro i hi
  simp only [otlpLogsItems, derefItems, List.mem_flatMap, List.mem_append, List.mem_cons, List.mem_map,
    List.not_mem_nil, or_false] at hi
  obtain ⟨r, _, hr⟩ := hi
  rcases hr with (rfl | ⟨b, _, rfl⟩) | ⟨sc, _, hsc⟩
  · rfl
  · rfl
  · rcases hsc with (rfl | ⟨b, _, rfl⟩) | ⟨attrs, _, ha⟩
    · rfl
    · rfl
    · rcases ha with ⟨b, _, rfl⟩ | rfl
      · rfl
      · rfl

theorem influxItems_wf (ls : List InfluxLine) : (influxItems ls).all LogItem.wf = true := by
  apply all_wf_of_mem
  intro i hi
  simp only [influxItems, List.mem_flatMap] at hi
  obtain ⟨l, _, hl⟩ := hi
  cases l with
  | bad => simp at hl; subst hl; rfl
  | danglingEscape => simp at hl; subst hl; rfl
  | point m others =>
    cases m with
    | none =>
      simp only [List.mem_map] at hl
      obtain ⟨_, _, rfl⟩ := hl
      rfl
    | some k =>
      simp only [List.mem_append, List.mem_cons, List.not_mem_nil, or_false] at hl
      rcases hl with hl | rfl
      · split at hl
        · simp at hl; subst hl; rfl
        · simp at hl
      · rfl

theorem bulkItems_wf : ∀ (ls : List BulkLine) (labels : Nat), (bulkItems ls labels).all LogItem.wf = true
  | [], _ => rfl
  | .bad :: _, _ => rfl
  | .empty :: ls, labels => by simpa [bulkItems] using bulkItems_wf ls labels
  | .create n :: ls, _ => by simpa [bulkItems] using bulkItems_wf ls (n + 1)
  | .del :: ls, _ => by simpa [bulkItems] using bulkItems_wf ls 0
  | .plain :: ls, labels => by
    simp only [bulkItems, List.all_append, bulkItems_wf ls labels, Bool.and_true]
    split <;> rfl

/-! ### calls that cannot fault (used for the Prometheus decoder, whose calls are not well formed: A1) -/

def EntriesCall.safe (c : EntriesCall) : Bool :=
  c.labels.all (fun l => decide (2 ≤ l.length)) && c.types.all (fun t => decide (t < 3)) &&
    decide (c.ts ≤ c.msgs.length)

def LogItem.safe : LogItem → Bool
  | .entries c => c.safe
  | .fillThenEntries _ c => c.safe
  | _ => false

theorem labelPairs_ok : ∀ ls : List (List Nat), ls.all (fun l => decide (2 ≤ l.length)) = true →
    labelPairs ls = .ok ()
  | [], _ => rfl
  | l :: ls, h => by
    simp only [List.all_cons, Bool.and_eq_true, decide_eq_true_eq] at h
    obtain ⟨hl, hls⟩ := h
    match l, hl with
    | a :: b :: _, _ =>
      simp [labelPairs, idx, bind, Except.bind, labelPairs_ok ls hls]

theorem markTypes_ok : ∀ ts : List Nat, ts.all (fun t => decide (t < 3)) = true → markTypes ts = .ok ()
  | [], _ => rfl
  | t :: ts, h => by
    simp only [List.all_cons, Bool.and_eq_true, decide_eq_true_eq] at h
    simp [markTypes, h.1, markTypes_ok ts h.2]

theorem messageSizes_ok (msgs : List Nat) : ∀ (n acc : Nat), n ≤ msgs.length →
    ∃ v, messageSizes msgs n acc = .ok v
  | 0, acc, _ => ⟨acc, rfl⟩
  | n + 1, acc, h => by
    obtain ⟨v, hv⟩ := messageSizes_ok msgs n acc (by omega)
    have : ∃ m, msgs[n]? = some m := ⟨msgs[n], by simp⟩
    obtain ⟨m, hm⟩ := this
    exact ⟨v + m + 26, by simp [messageSizes, hv, idx, hm, bind, Except.bind, pure, Except.pure]⟩

theorem onEntries_ok_of_safe (fx : Fixes) (hfx : fx.emptyFill = true) (thr : Nat) (st : LogSt) (c : EntriesCall)
    (hc : c.safe = true) : ∃ st', onEntries fx thr st c = .ok st' := by
  simp only [EntriesCall.safe, Bool.and_eq_true, decide_eq_true_eq] at hc
  obtain ⟨⟨h1, h2⟩, h3⟩ := hc
  obtain ⟨sz, hsz⟩ := messageSizes_ok c.msgs c.ts 0 h3
  have hfill : ∃ m, fastFillArray fx c.ts = .ok m := by
    unfold fastFillArray
    split
    · exact ⟨0, by simp_all⟩
    · exact ⟨_, rfl⟩
  obtain ⟨m, hm⟩ := hfill
  exact ⟨onEntriesApply thr st c m sz,
    by simp [onEntries, onEntriesChecks, labelPairs_ok _ h1, hm, markTypes_ok _ h2, hsz]⟩

theorem logStep_ok_of_safe (fx : Fixes) (hfx : fx.emptyFill = true) (thr : Nat) (st : LogSt) (i : LogItem)
    (hi : i.safe = true) : ∃ st', logStep fx thr st i = .ok st' := by
  cases i with
  | entries c =>
    obtain ⟨st', h⟩ := onEntries_ok_of_safe fx hfx thr st c hi
    exact ⟨st', by simp [logStep, h, liftE]⟩
  | fillThenEntries n c =>
    obtain ⟨st', h⟩ := onEntries_ok_of_safe fx hfx thr st c hi
    have hfill : ∃ m, fastFillArray fx n = .ok m := by
      unfold fastFillArray
      split
      · exact ⟨0, by simp_all⟩
      · exact ⟨_, rfl⟩
    obtain ⟨m, hm⟩ := hfill
    exact ⟨st', by simp [logStep, h, hm, liftE, bind, Except.bind]⟩
  | error code => simp [LogItem.safe] at hi
  | assertStr b => simp [LogItem.safe] at hi
  | derefGetter p => simp [LogItem.safe] at hi
  | danglingEscape => simp [LogItem.safe] at hi

theorem promSeries_safe (n : Nat) : ∀ (left points pending : Nat),
    ∀ i ∈ promSeries n left points pending, i.safe = true
  | 0, _, pending => by
    intro i hi
    simp only [promSeries] at hi
    split at hi
    · simp only [List.mem_cons, List.not_mem_nil, or_false] at hi
      subst hi
      simp [LogItem.safe, EntriesCall.safe, pairLabels, List.all_replicate]
    · simp at hi
  | left + 1, points, pending => by
    intro i hi
    simp only [promSeries] at hi
    split at hi
    · simp only [List.mem_cons] at hi
      rcases hi with rfl | hi
      · simp [LogItem.safe, EntriesCall.safe, pairLabels, List.all_replicate]
      · exact promSeries_safe n left 0 0 i hi
    · exact promSeries_safe n left (points + 1) (pending + 1) i hi

theorem promItems_safe : ∀ (ns : List Nat) (points : Nat), ∀ i ∈ promItems ns points, i.safe = true
  | [], _ => by simp [promItems]
  | n :: ns, points => by
    intro i hi
    simp only [promItems, List.mem_append] at hi
    rcases hi with hi | hi
    · exact promSeries_safe n n points 0 i hi
    · exact promItems_safe ns _ i hi

/-- the Prometheus decoder never returns an error and never faults once the body is a WriteRequest -/
theorem promRun_done (fx : Fixes) (hfx : fx.emptyFill = true) (thr : Nat) (ns : List Nat) :
    (logsRun fx thr (promItems ns 0)).ending = .done := by
  simp only [logsRun]
  exact runSteps_done (logStep fx thr) (fun i => i.safe = true)
    (fun s i hi => logStep_ok_of_safe fx hfx thr s i hi) _ _ (promItems_safe ns 0)

/-! ### request level -/

theorem plan_run_not_spin (fx : Fixes) (h : fx.nsGuard = true) (h2 : fx.influxNewline = true) (thr : Nat) (it : Items) (run : Run)
    (hp : it.plan fx thr = .run run) : run.ending ≠ .spin := by
  cases it with
  | reject c => simp [Items.plan] at hp
  | preParse c => simp [Items.plan] at hp
  | logs is =>
    simp only [Items.plan, Plan.run.injEq] at hp; subst hp
    exact runSteps_not_spin _ (logStep_not_spin fx h2 thr) _ _
  | spans is =>
    simp only [Items.plan, Plan.run.injEq] at hp; subst hp
    exact runSteps_not_spin _ (spanStep_not_spin fx thr) _ _
  | prof is =>
    simp only [Items.plan, Plan.run.injEq] at hp; subst hp
    exact runSteps_not_spin _ (profStep_not_spin fx h thr) _ _

/-- with the `ns` guard and the recover in `doPush`, every request is answered with a status -/
theorem ingestFull_status (fx : Fixes) (hns : fx.nsGuard = true) (hinf : fx.influxNewline = true)
    (hrec : fx.pushRecover = true)
    (thr : Nat) (env : Env) (r : Route) (d : Doc) (cols : Cols) :
    ∃ n, (ingestFull fx thr env r d cols).1 = .status n := by
  unfold ingestFull
  have main : ∃ n, (match routePlan fx thr r d.body with
      | .reject code => (Outcome.status code, cols)
      | .preParse code => doParse fx env r.okStatus [.error code] 1 cols []
      | .run run => doParse fx env r.okStatus run.trace.msgs run.trace.closes cols []).1 = .status n := by
    cases hp : routePlan fx thr r d.body with
    | reject c => exact ⟨c, rfl⟩
    | preParse c => exact doParse_status fx hrec env _ _ 1 cols [] (by simp) (by simp)
    | run run =>
      apply doParse_status fx hrec env _ _ _ cols [] (by simp)
      have := parserGoroutine_closes run.sent run.final run.ending
        (plan_run_not_spin fx hns hinf thr _ run hp)
      simp only [Run.trace, this]
      simp
  cases d.enc with
  | unsupported => exact ⟨400, rfl⟩
  | gzipBadHeader => exact ⟨500, rfl⟩
  | plain => exact main
  | gzipOk => exact main

theorem routeItems_logs (fx : Fixes) (hfx : fx.emptyFill = true) (thr : Nat) (r : Route) (b : Body)
    (is : List LogItem) (h : routeItems fx r b = .logs is) :
    is.all LogItem.wf = true ∨ (logsRun fx thr is).ending = .done := by
  cases r <;> cases b <;> simp only [routeItems] at h <;> (try split at h) <;> (try split at h) <;>
    (try split at h) <;> (try cases h) <;>
    first
    | exact Or.inl (lokiJsonItems_wf _ _)
    | exact Or.inl (lokiProtoItems_wf _)
    | exact Or.inl (influxItems_wf _)
    | exact Or.inl (otlpLogsItems_wf _)
    | exact Or.inl (bulkItems_wf _ _)
    | exact Or.inr (promRun_done fx hfx thr _)
    | exact Or.inl rfl
    | (left; split <;> rfl)

/-- every parser run of the fixed code either only emits portions that keep the columns rectangular, or
    (Prometheus remote write, A1) is never rejected once started -/
theorem routePlan_good (fx : Fixes) (h1 : fx.emptyFill = true) (h2 : fx.idCheck = true) (h3 : fx.profileFlush = true)
    (thr : Nat) (r : Route) (b : Body) (run : Run) (hp : routePlan fx thr r b = .run run) :
    run.good ∨ run.ending = .done := by
  unfold routePlan at hp
  cases hi : routeItems fx r b with
  | reject c => simp [hi, Items.plan] at hp
  | preParse c => simp [hi, Items.plan] at hp
  | logs is =>
    simp only [hi, Items.plan, Plan.run.injEq] at hp; subst hp
    rcases routeItems_logs fx h1 thr r b is hi with hwf | hdone
    · exact Or.inl (logsRun_good fx thr is hwf)
    · exact Or.inr hdone
  | spans is =>
    simp only [hi, Items.plan, Plan.run.injEq] at hp; subst hp
    exact Or.inl (spansRun_good fx h2 thr is)
  | prof is =>
    simp only [hi, Items.plan, Plan.run.injEq] at hp; subst hp
    left
    apply profileRun_good fx h3 thr is
    cases r <;> cases b <;> simp only [routeItems] at hi <;> (repeat' split at hi) <;>
      (try contradiction) <;> (try cases hi)
    all_goals exact profileItems_one_onProfile _ _ _ _ _

/-! ### after the A1 fix the Prometheus decoder's calls are well formed too -/

theorem promSeries_wf (n : Nat) : ∀ (left points pending : Nat),
    ∀ i ∈ promSeries n left points pending, i.wf = true
  | 0, _, pending => by
    intro i hi
    simp only [promSeries] at hi
    split at hi
    · simp only [List.mem_cons, List.not_mem_nil, or_false] at hi
      subst hi
      simp [LogItem.wf, EntriesCall.wf]
    · simp at hi
  | left + 1, points, pending => by
    intro i hi
    simp only [promSeries] at hi
    split at hi
    · simp only [List.mem_cons] at hi
      rcases hi with rfl | hi
      · simp [LogItem.wf, EntriesCall.wf]
      · exact promSeries_wf n left 0 0 i hi
    · exact promSeries_wf n left (points + 1) (pending + 1) i hi

theorem promItems_wf : ∀ (ns : List Nat) (points : Nat), ∀ i ∈ promItems ns points, i.wf = true
  | [], _ => by simp [promItems]
  | n :: ns, points => by
    intro i hi
    simp only [promItems, List.mem_append] at hi
    rcases hi with hi | hi
    · exact promSeries_wf n n points 0 i hi
    · exact promItems_wf ns _ i hi

theorem routeItems_logs_wf (fx : Fixes) (r : Route) (b : Body)
    (is : List LogItem) (h : routeItems fx r b = .logs is) : is.all LogItem.wf = true := by
  cases r <;> cases b <;> simp only [routeItems] at h <;> (try split at h) <;> (try split at h) <;>
    (try split at h) <;> (try cases h) <;>
    first
    | exact lokiJsonItems_wf _ _
    | exact lokiProtoItems_wf _
    | exact influxItems_wf _
    | exact otlpLogsItems_wf _
    | exact bulkItems_wf _ _
    | exact all_wf_of_mem (promItems_wf _ _)
    | rfl
    | (split <;> rfl)

/-- every parser run only emits portions that keep the columns rectangular, on every route -/
theorem routePlan_good_all (fx : Fixes) (h2 : fx.idCheck = true) (h3 : fx.profileFlush = true)
    (thr : Nat) (r : Route) (b : Body) (run : Run) (hp : routePlan fx thr r b = .run run) : run.good := by
  unfold routePlan at hp
  cases hi : routeItems fx r b with
  | reject c => simp [hi, Items.plan] at hp
  | preParse c => simp [hi, Items.plan] at hp
  | logs is =>
    simp only [hi, Items.plan, Plan.run.injEq] at hp; subst hp
    exact logsRun_good fx thr is (routeItems_logs_wf fx r b is hi)
  | spans is =>
    simp only [hi, Items.plan, Plan.run.injEq] at hp; subst hp
    exact spansRun_good fx h2 thr is
  | prof is =>
    simp only [hi, Items.plan, Plan.run.injEq] at hp; subst hp
    apply profileRun_good fx h3 thr is
    cases r <;> cases b <;> simp only [routeItems] at hi <;> (repeat' split at hi) <;>
      (try contradiction) <;> (try cases hi)
    all_goals exact profileItems_one_onProfile _ _ _ _ _

end Qryn.IngestFaults
