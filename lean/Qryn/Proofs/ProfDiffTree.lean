import Qryn.Proofs.ProfDiffPairs
/-! The two trees after `mergeNodes`, as flat trees: `alignedL`/`alignedR` hold, for every parent id of either input
    tree, the aligned children (in the order `computeFlameGraphDiff` lays them out: descending node id). They have the
    same shape; each is tree-shaped when the inputs are and agree on the parent of common node ids. -/
namespace Qryn.Prof

/-! ### parents -/

def parentsOf (l : List Nat) : List Nat := l.foldr (fun p acc => if p ∈ acc then acc else p :: acc) []

theorem mem_parentsOf (l : List Nat) (x : Nat) : x ∈ parentsOf l ↔ x ∈ l := by
  induction l with
  | nil => simp [parentsOf]
  | cons p l ih =>
    simp only [parentsOf, List.foldr_cons] at ih ⊢
    split
    · rename_i h
      rw [ih]
      constructor
      · intro hx; simp [hx]
      · intro hx
        rcases List.mem_cons.mp hx with rfl | hx
        · exact ih.mp h
        · exact hx
    · simp only [List.mem_cons, ih]

theorem parentsOf_nodup (l : List Nat) : (parentsOf l).Nodup := by
  induction l with
  | nil => simp [parentsOf]
  | cons p l ih =>
    simp only [parentsOf, List.foldr_cons] at ih ⊢
    split
    · exact ih
    · rename_i h
      exact List.nodup_cons.mpr ⟨h, ih⟩

def unionParents (T1 T2 : List Row) : List Nat := parentsOf ((T1 ++ T2).map (·.parent))

/-! ### children of one parent -/

theorem mem_children {T : List Row} {p : Nat} {c : Row} : c ∈ children T p ↔ c ∈ T ∧ c.parent = p := by
  simp [children, List.mem_filter]

theorem children_nodes_nodup (T : List Row) (h : (T.map rkey).Nodup) (p : Nat) :
    ((children T p).map (·.node)).Nodup := by
  have hs : ((children T p).map rkey).Nodup :=
    h.sublist ((List.filter_sublist (l := T)).map rkey)
  unfold List.Nodup at hs ⊢
  rw [List.pairwise_map] at hs ⊢
  have hp : ∀ x ∈ children T p, x.parent = p := fun x hx => (mem_children.mp hx).2
  refine List.Pairwise.imp_of_mem ?_ hs
  intro a b ha hb hne e
  apply hne
  simp only [rkey, Prod.mk.injEq]
  exact ⟨(hp a ha).trans (hp b hb).symm, e⟩

/-- everything `mergeNodes` establishes for one parent id -/
structure AlignedSpec (T1 T2 : List Row) (p : Nat) : Prop where
  pair : ∀ pr ∈ alignedKids T1 T2 p, pr.1.node = pr.2.node ∧ pr.1.parent = p ∧ pr.2.parent = p
      ∧ (pr.1 ∈ children T1 p ∨ (pr.1 = emptyOf pr.2 ∧ ∀ a ∈ children T1 p, a.node ≠ pr.1.node))
      ∧ (pr.2 ∈ children T2 p ∨ (pr.2 = emptyOf pr.1 ∧ ∀ b ∈ children T2 p, b.node ≠ pr.2.node))
  strict : ((alignedKids T1 T2 p).map (·.1.node)).Pairwise (· < ·)
  ids : ∀ x, x ∈ (alignedKids T1 T2 p).map (·.1.node) ↔ x ∈ (children T1 p).map (·.node) ∨ x ∈ (children T2 p).map (·.node)
  allL : ∀ a ∈ children T1 p, ∃ pr ∈ alignedKids T1 T2 p, pr.1 = a
  allR : ∀ b ∈ children T2 p, ∃ pr ∈ alignedKids T1 T2 p, pr.2 = b
  sumL : sumTotals (kidsL T1 T2 p) = sumTotals (children T1 p)
  sumR : sumTotals (kidsR T1 T2 p) = sumTotals (children T2 p)

theorem alignedSpec (T1 T2 : List Row) (h1 : (T1.map rkey).Nodup) (h2 : (T2.map rkey).Nodup) (p : Nat) :
    AlignedSpec T1 T2 p := by
  have s1 := sortAsc_strict (children T1 p) (children_nodes_nodup T1 h1 p)
  have s2 := sortAsc_strict (children T2 p) (children_nodes_nodup T2 h2 p)
  have p1 := sortAsc_perm (children T1 p)
  have p2 := sortAsc_perm (children T2 p)
  have m1 : ∀ x, x ∈ sortAsc (children T1 p) ↔ x ∈ children T1 p := fun x => p1.mem_iff
  have m2 : ∀ x, x ∈ sortAsc (children T2 p) ↔ x ∈ children T2 p := fun x => p2.mem_iff
  have hok := mergeChildrenF_ok _ (sortAsc (children T1 p)) (sortAsc (children T2 p)) (Nat.le_refl _)
  obtain ⟨i1, i2, i3, i4, i5⟩ := mergeChildrenF_strict _ (sortAsc (children T1 p)) (sortAsc (children T2 p)) (Nat.le_refl _) s1 s2
  have hsum := mergeChildrenF_sums _ (sortAsc (children T1 p)) (sortAsc (children T2 p)) (Nat.le_refl _)
  refine ⟨?_, i2, ?_, ?_, ?_, ?_, ?_⟩
  · intro pr hpr
    have ok := hok pr hpr
    have st := i1 pr hpr
    have hL : pr.1 ∈ children T1 p ∨ (pr.1 = emptyOf pr.2 ∧ ∀ a ∈ children T1 p, a.node ≠ pr.1.node) := by
      rcases ok.left with h | h
      · exact Or.inl ((m1 _).mp h)
      · rcases st.1 with h' | h'
        · exact Or.inl ((m1 _).mp h')
        · exact Or.inr ⟨h.2, fun a ha => h' a ((m1 _).mpr ha)⟩
    have hR : pr.2 ∈ children T2 p ∨ (pr.2 = emptyOf pr.1 ∧ ∀ b ∈ children T2 p, b.node ≠ pr.2.node) := by
      rcases ok.right with h | h
      · exact Or.inl ((m2 _).mp h)
      · rcases st.2 with h' | h'
        · exact Or.inl ((m2 _).mp h')
        · exact Or.inr ⟨h.2, fun b hb => h' b ((m2 _).mpr hb)⟩
    have hpL : pr.1.parent = p := by
      rcases ok.left with h | h
      · exact (mem_children.mp ((m1 _).mp h)).2
      · rw [h.2, emptyOf_parent]; exact (mem_children.mp ((m2 _).mp h.1)).2
    have hpR : pr.2.parent = p := by
      rcases ok.right with h | h
      · exact (mem_children.mp ((m2 _).mp h)).2
      · rw [h.2, emptyOf_parent]; exact (mem_children.mp ((m1 _).mp h.1)).2
    exact ⟨ok.node, hpL, hpR, hL, hR⟩
  · intro x
    rw [show alignedKids T1 T2 p = mergeChildrenF _ (sortAsc (children T1 p)) (sortAsc (children T2 p)) from rfl, i3 x]
    rw [(p1.map _).mem_iff, (p2.map _).mem_iff]
  · intro a ha; exact i4 a ((m1 a).mpr ha)
  · intro b hb; exact i5 b ((m2 b).mpr hb)
  · show sumTotals ((mergeChildrenF _ _ _).map (·.1)) = _
    rw [hsum.1, sumTotals_perm p1]
  · show sumTotals ((mergeChildrenF _ _ _).map (·.2)) = _
    rw [hsum.2.1, sumTotals_perm p2]

theorem alignedKids_nil (T1 T2 : List Row) (p : Nat) (h1 : children T1 p = []) (h2 : children T2 p = []) :
    alignedKids T1 T2 p = [] := by
  simp [alignedKids, h1, h2, sortAsc, mergeChildren, mergeChildrenF]

/-! ### the aligned trees as flat lists -/

def alignedL (T1 T2 : List Row) : List Row := (unionParents T1 T2).flatMap (fun p => (kidsL T1 T2 p).reverse)
def alignedR (T1 T2 : List Row) : List Row := (unionParents T1 T2).flatMap (fun p => (kidsR T1 T2 p).reverse)

theorem filter_flatMap_parent (ps : List Nat) (hnd : ps.Nodup) (f : Nat → List Row)
    (hf : ∀ q, ∀ r ∈ f q, r.parent = q) (p : Nat) :
    (ps.flatMap f).filter (fun a => decide (a.parent = p)) = if p ∈ ps then f p else [] := by
  induction ps with
  | nil => simp
  | cons q ps ih =>
    have hq := List.nodup_cons.mp hnd
    rw [List.flatMap_cons, List.filter_append, ih hq.2]
    by_cases e : q = p
    · subst e
      have : (f q).filter (fun a => decide (a.parent = q)) = f q :=
        List.filter_eq_self.mpr (fun a ha => by simpa using hf q a ha)
      simp [this, hq.1]
    · have : (f q).filter (fun a => decide (a.parent = p)) = [] :=
        List.filter_eq_nil_iff.mpr (fun a ha => by simp [hf q a ha, e])
      have hne : ¬ p = q := fun h => e h.symm
      simp [this, hne]

theorem not_mem_unionParents {T1 T2 : List Row} {p : Nat} (h : p ∉ unionParents T1 T2) :
    children T1 p = [] ∧ children T2 p = [] := by
  have hp : ∀ a ∈ T1 ++ T2, a.parent ≠ p := by
    intro a ha e
    exact h ((mem_parentsOf _ _).mpr (List.mem_map.mpr ⟨a, ha, e⟩))
  constructor
  · exact List.filter_eq_nil_iff.mpr (fun a ha => by simpa using hp a (by simp [ha]))
  · exact List.filter_eq_nil_iff.mpr (fun a ha => by simpa using hp a (by simp [ha]))

theorem children_alignedL (T1 T2 : List Row) (h1 : (T1.map rkey).Nodup) (h2 : (T2.map rkey).Nodup) (p : Nat) :
    children (alignedL T1 T2) p = (kidsL T1 T2 p).reverse := by
  unfold children alignedL
  rw [filter_flatMap_parent (unionParents T1 T2) (by unfold unionParents; exact parentsOf_nodup _) (fun p => (kidsL T1 T2 p).reverse) ?_ p]
  · split
    · rfl
    · rename_i h
      have := not_mem_unionParents h
      simp [kidsL, alignedKids_nil T1 T2 p this.1 this.2]
  · intro q r hr
    simp only [List.mem_reverse, kidsL, List.mem_map] at hr
    obtain ⟨pr, hpr, rfl⟩ := hr
    exact ((alignedSpec T1 T2 h1 h2 q).pair pr hpr).2.1

theorem children_alignedR (T1 T2 : List Row) (h1 : (T1.map rkey).Nodup) (h2 : (T2.map rkey).Nodup) (p : Nat) :
    children (alignedR T1 T2) p = (kidsR T1 T2 p).reverse := by
  unfold children alignedR
  rw [filter_flatMap_parent (unionParents T1 T2) (by unfold unionParents; exact parentsOf_nodup _) (fun p => (kidsR T1 T2 p).reverse) ?_ p]
  · split
    · rfl
    · rename_i h
      have := not_mem_unionParents h
      simp [kidsR, alignedKids_nil T1 T2 p this.1 this.2]
  · intro q r hr
    simp only [List.mem_reverse, kidsR, List.mem_map] at hr
    obtain ⟨pr, hpr, rfl⟩ := hr
    exact ((alignedSpec T1 T2 h1 h2 q).pair pr hpr).2.2.1

theorem mem_alignedL {T1 T2 : List Row} {e : Row} :
    e ∈ alignedL T1 T2 ↔ ∃ p, ∃ pr ∈ alignedKids T1 T2 p, pr.1 = e := by
  unfold alignedL
  simp only [List.mem_flatMap, List.mem_reverse, kidsL, List.mem_map]
  constructor
  · rintro ⟨p, _, pr, hpr, e⟩; exact ⟨p, pr, hpr, e⟩
  · rintro ⟨p, pr, hpr, e⟩
    refine ⟨p, ?_, pr, hpr, e⟩
    apply Classical.byContradiction
    intro h
    have := not_mem_unionParents h
    rw [alignedKids_nil T1 T2 p this.1 this.2] at hpr
    simp at hpr

theorem mem_alignedR {T1 T2 : List Row} {e : Row} :
    e ∈ alignedR T1 T2 ↔ ∃ p, ∃ pr ∈ alignedKids T1 T2 p, pr.2 = e := by
  unfold alignedR
  simp only [List.mem_flatMap, List.mem_reverse, kidsR, List.mem_map]
  constructor
  · rintro ⟨p, _, pr, hpr, e⟩; exact ⟨p, pr, hpr, e⟩
  · rintro ⟨p, pr, hpr, e⟩
    refine ⟨p, ?_, pr, hpr, e⟩
    apply Classical.byContradiction
    intro h
    have := not_mem_unionParents h
    rw [alignedKids_nil T1 T2 p this.1 this.2] at hpr
    simp at hpr

/-- the two input trees agree on the parent of a node id both contain (true of trees built from collision-free
    profiles: the id determines parent, function and depth) -/
def Compatible (T1 T2 : List Row) : Prop := ∀ a ∈ T1, ∀ b ∈ T2, a.node = b.node → a.parent = b.parent

/-- every entry of an aligned tree stands for a node of one of the inputs, under the same parent -/
theorem aligned_origin {T1 T2 : List Row} (h1 : (T1.map rkey).Nodup) (h2 : (T2.map rkey).Nodup)
    {p : Nat} {pr : Row × Row} (hpr : pr ∈ alignedKids T1 T2 p) :
    (∃ a ∈ T1, a.node = pr.1.node ∧ a.parent = p) ∨ (∃ b ∈ T2, b.node = pr.1.node ∧ b.parent = p) := by
  have S := alignedSpec T1 T2 h1 h2 p
  have := (S.ids pr.1.node).mp (List.mem_map.mpr ⟨pr, hpr, rfl⟩)
  rcases this with h | h
  · obtain ⟨a, ha, e⟩ := List.mem_map.mp h
    exact Or.inl ⟨a, (mem_children.mp ha).1, e, (mem_children.mp ha).2⟩
  · obtain ⟨b, hb, e⟩ := List.mem_map.mp h
    exact Or.inr ⟨b, (mem_children.mp hb).1, e, (mem_children.mp hb).2⟩

theorem nodup_flatMap_nodes (ps : List Nat) (f : Nat → List Row)
    (h1 : ∀ p, ((f p).map (·.node)).Nodup)
    (h2 : ∀ p q, p ∈ ps → q ∈ ps → p ≠ q → ∀ a ∈ f p, ∀ b ∈ f q, a.node ≠ b.node) (hnd : ps.Nodup) :
    ((ps.flatMap f).map (·.node)).Nodup := by
  induction ps with
  | nil => simp
  | cons p ps ih =>
    have hp := List.nodup_cons.mp hnd
    rw [List.flatMap_cons, List.map_append]
    refine List.nodup_append.mpr ⟨h1 p, ih (fun a b ha hb => h2 a b (by simp [ha]) (by simp [hb])) hp.2, ?_⟩
    intro x hx y hy e
    obtain ⟨a, ha, rfl⟩ := List.mem_map.mp hx
    obtain ⟨b, hb, rfl⟩ := List.mem_map.mp hy
    obtain ⟨q, hq, hbq⟩ := List.mem_flatMap.mp hb
    exact h2 p q (by simp) (by simp [hq]) (fun e' => hp.1 (e' ▸ hq)) a ha b hbq e

theorem alignedL_treeShaped {T1 T2 : List Row} {dep : Nat → Nat} (t1 : TreeShaped T1 dep) (t2 : TreeShaped T2 dep)
    (hc : Compatible T1 T2) (h1 : (T1.map rkey).Nodup) (h2 : (T2.map rkey).Nodup) :
    TreeShaped (alignedL T1 T2) dep := by
  have origin : ∀ e ∈ alignedL T1 T2,
      (∃ a ∈ T1, a.node = e.node ∧ a.parent = e.parent) ∨ (∃ b ∈ T2, b.node = e.node ∧ b.parent = e.parent) := by
    intro e he
    obtain ⟨p, pr, hpr, rfl⟩ := mem_alignedL.mp he
    have hp := ((alignedSpec T1 T2 h1 h2 p).pair pr hpr).2.1
    rw [hp]
    exact aligned_origin h1 h2 hpr
  have present1 : ∀ a ∈ T1, ∃ e ∈ alignedL T1 T2, e.node = a.node := by
    intro a ha
    obtain ⟨pr, hpr, e⟩ := (alignedSpec T1 T2 h1 h2 a.parent).allL a (mem_children.mpr ⟨ha, rfl⟩)
    exact ⟨pr.1, mem_alignedL.mpr ⟨_, pr, hpr, rfl⟩, by rw [e]⟩
  have present2 : ∀ b ∈ T2, ∃ e ∈ alignedL T1 T2, e.node = b.node := by
    intro b hb
    obtain ⟨pr, hpr, e⟩ := (alignedSpec T1 T2 h1 h2 b.parent).allR b (mem_children.mpr ⟨hb, rfl⟩)
    exact ⟨pr.1, mem_alignedL.mpr ⟨_, pr, hpr, rfl⟩, by
      rw [((alignedSpec T1 T2 h1 h2 b.parent).pair pr hpr).1, e]⟩
  refine ⟨?_, ?_, ?_, ?_⟩
  · -- node ids are unique
    unfold alignedL
    apply nodup_flatMap_nodes _ _ ?_ ?_ (parentsOf_nodup _)
    · intro p
      have := (alignedSpec T1 T2 h1 h2 p).strict
      rw [List.map_reverse]
      apply (List.reverse_perm _).nodup_iff.mpr
      have h' : ((kidsL T1 T2 p).map (·.node)) = (alignedKids T1 T2 p).map (·.1.node) := by
        simp [kidsL, List.map_map, Function.comp_def]
      rw [h']
      exact this.imp (fun h => by omega)
    · intro p q _ _ hpq a ha b hb e
      simp only [List.mem_reverse, kidsL, List.mem_map] at ha hb
      obtain ⟨pa, hpa, rfl⟩ := ha
      obtain ⟨pb, hpb, rfl⟩ := hb
      apply hpq
      rcases aligned_origin h1 h2 hpa with ⟨x, hx, hxn, hxp⟩ | ⟨x, hx, hxn, hxp⟩ <;>
        rcases aligned_origin h1 h2 hpb with ⟨y, hy, hyn, hyp⟩ | ⟨y, hy, hyn, hyp⟩
      · have := t1.eq_of_node hx hy (by rw [hxn, hyn, e])
        rw [← hxp, ← hyp, this]
      · rw [← hxp, ← hyp]; exact hc x hx y hy (by rw [hxn, hyn, e])
      · rw [← hxp, ← hyp]; exact (hc y hy x hx (by rw [hxn, hyn, e])).symm
      · have := t2.eq_of_node hx hy (by rw [hxn, hyn, e])
        rw [← hxp, ← hyp, this]
  · intro e he
    rcases origin e he with ⟨a, ha, hn, _⟩ | ⟨a, ha, hn, _⟩
    · rw [← hn]; exact t1.nonzero a ha
    · rw [← hn]; exact t2.nonzero a ha
  · intro e he hp
    rcases origin e he with ⟨a, ha, hn, hpa⟩ | ⟨a, ha, hn, hpa⟩
    · rw [← hn]; exact t1.root a ha (by rw [hpa, hp])
    · rw [← hn]; exact t2.root a ha (by rw [hpa, hp])
  · intro e he hp
    rcases origin e he with ⟨a, ha, hn, hpa⟩ | ⟨a, ha, hn, hpa⟩
    · obtain ⟨a', ha', hn', hd⟩ := t1.up a ha (by rw [hpa]; exact hp)
      obtain ⟨e', he', hen⟩ := present1 a' ha'
      exact ⟨e', he', by rw [hen, hn', hpa], by rw [hen, ← hn]; exact hd⟩
    · obtain ⟨a', ha', hn', hd⟩ := t2.up a ha (by rw [hpa]; exact hp)
      obtain ⟨e', he', hen⟩ := present2 a' ha'
      exact ⟨e', he', by rw [hen, hn', hpa], by rw [hen, ← hn]; exact hd⟩

/-- the node ids of the aligned tree are exactly those of the two inputs -/
theorem alignedL_nodes {T1 T2 : List Row} (h1 : (T1.map rkey).Nodup) (h2 : (T2.map rkey).Nodup) (x : Nat) :
    x ∈ (alignedL T1 T2).map (·.node) ↔ x ∈ T1.map (·.node) ∨ x ∈ T2.map (·.node) := by
  constructor
  · intro hx
    obtain ⟨e, he, rfl⟩ := List.mem_map.mp hx
    obtain ⟨p, pr, hpr, rfl⟩ := mem_alignedL.mp he
    rcases aligned_origin h1 h2 hpr with ⟨a, ha, hn, _⟩ | ⟨a, ha, hn, _⟩
    · exact Or.inl (List.mem_map.mpr ⟨a, ha, hn⟩)
    · exact Or.inr (List.mem_map.mpr ⟨a, ha, hn⟩)
  · rintro (hx | hx)
    · obtain ⟨a, ha, rfl⟩ := List.mem_map.mp hx
      obtain ⟨pr, hpr, e⟩ := (alignedSpec T1 T2 h1 h2 a.parent).allL a (mem_children.mpr ⟨ha, rfl⟩)
      exact List.mem_map.mpr ⟨pr.1, mem_alignedL.mpr ⟨_, pr, hpr, rfl⟩, by rw [e]⟩
    · obtain ⟨b, hb, rfl⟩ := List.mem_map.mp hx
      obtain ⟨pr, hpr, e⟩ := (alignedSpec T1 T2 h1 h2 b.parent).allR b (mem_children.mpr ⟨hb, rfl⟩)
      exact List.mem_map.mpr ⟨pr.1, mem_alignedL.mpr ⟨_, pr, hpr, rfl⟩, by
        rw [((alignedSpec T1 T2 h1 h2 b.parent).pair pr hpr).1, e]⟩

end Qryn.Prof
