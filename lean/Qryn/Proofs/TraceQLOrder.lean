import Qryn.Proofs.TraceQLTree
import Qryn.TraceQL.SemWhole
/-! C11: generic facts about a select grouped by `trace_id` — which group an output row comes from, what
    `max(col)` and the span-array aggregates evaluate to on it, and in which order `ORDER BY max(…) DESC`
    returns the rows. Membership-based so that nothing depends on the order of the rows inside a group. -/
namespace Qryn.TraceQL
open Qryn Qryn.Sql

/-! ### maxima -/
/-- `m` is the greatest element of `l` -/
def IsMaxOf (m : Int) (l : List Int) : Prop := m ∈ l ∧ ∀ x ∈ l, x ≤ m

theorem IsMaxOf.unique {m m' : Int} {l : List Int} (h : IsMaxOf m l) (h' : IsMaxOf m' l) : m = m' :=
  Int.le_antisymm (h'.2 m h.1) (h.2 m' h'.1)

theorem IsMaxOf.congr {m : Int} {l l' : List Int} (h : IsMaxOf m l) (hl : ∀ x, x ∈ l ↔ x ∈ l') : IsMaxOf m l' :=
  ⟨(hl m).mp h.1, fun x hx => h.2 x ((hl x).mpr hx)⟩

theorem foldl_max_ge (l : List Int) (x : Int) : x ≤ l.foldl max x ∧ ∀ y ∈ l, y ≤ l.foldl max x := by
  induction l generalizing x with
  | nil => simp
  | cons a as ih =>
    simp only [List.foldl_cons]
    obtain ⟨h1, h2⟩ := ih (max x a)
    refine ⟨Int.le_trans (Int.le_max_left x a) h1, ?_⟩
    intro y hy
    rcases List.mem_cons.mp hy with rfl | hy
    · exact Int.le_trans (Int.le_max_right x y) h1
    · exact h2 y hy

theorem foldl_max_mem (l : List Int) (x : Int) : l.foldl max x = x ∨ l.foldl max x ∈ l := by
  induction l generalizing x with
  | nil => simp
  | cons a as ih =>
    simp only [List.foldl_cons]
    rcases ih (max x a) with h | h
    · rw [h]
      rcases Int.le_total x a with hxa | hax
      · right; rw [Int.max_eq_right hxa]; simp
      · left; exact Int.max_eq_left hax
    · right; exact List.mem_cons_of_mem _ h

theorem listMax_isMax (l : List Int) (h : l ≠ []) : IsMaxOf (listMax l) l := by
  cases l with
  | nil => exact absurd rfl h
  | cons x xs =>
    simp only [listMax]
    obtain ⟨h1, h2⟩ := foldl_max_ge xs x
    refine ⟨?_, ?_⟩
    · rcases foldl_max_mem xs x with h | h
      · rw [h]; simp
      · exact List.mem_cons_of_mem _ h
    · intro y hy
      rcases List.mem_cons.mp hy with rfl | hy
      · exact h1
      · exact h2 y hy

/-- `max(x)` over `Val`s: the greatest integer among them -/
theorem maxInts_spec : ∀ (vs : List Val), (∀ i, Val.int i ∉ vs) ∧ maxInts vs = none ∨
    ∃ m, maxInts vs = some m ∧ Val.int m ∈ vs ∧ ∀ i, Val.int i ∈ vs → i ≤ m
  | [] => Or.inl ⟨by simp, rfl⟩
  | v :: vs => by
    rcases maxInts_spec vs with ⟨h1, h2⟩ | ⟨m, h1, h2, h3⟩
    · cases v with
      | int i =>
        right
        refine ⟨i, by simp [maxInts, h2], by simp, ?_⟩
        intro j hj
        rcases List.mem_cons.mp hj with hj | hj
        · cases hj; exact Int.le_refl _
        · exact absurd hj (h1 j)
      | _ =>
        left
        refine ⟨?_, by simp [maxInts, h2]⟩
        intro i hi
        rcases List.mem_cons.mp hi with hi | hi
        · cases hi
        · exact h1 i hi
    · right
      cases v with
      | int i =>
        refine ⟨max i m, by simp [maxInts, h1], ?_, ?_⟩
        · rcases Int.le_total i m with him | hmi
          · rw [Int.max_eq_right him]; exact List.mem_cons_of_mem _ h2
          · rw [Int.max_eq_left hmi]; simp
        · intro j hj
          rcases List.mem_cons.mp hj with hj | hj
          · cases hj; exact Int.le_max_left _ _
          · exact Int.le_trans (h3 j hj) (Int.le_max_right _ _)
      | _ =>
        refine ⟨m, by simp [maxInts, h1], List.mem_cons_of_mem _ h2, ?_⟩
        intro j hj
        rcases List.mem_cons.mp hj with hj | hj
        · cases hj
        · exact h3 j hj

/-- `max(col)` over a group: the greatest of the integers in `col` -/
theorem evalGrp_max (o : Oracles) (env : Env) (g : List Row) (n : String) (l : List Int) (hl : l ≠ [])
    (hg : ∀ i, Val.int i ∈ g.map (fun r => r.get n) ↔ i ∈ l) :
    ∃ m, evalGrp o env g (.call "max" [.raw n]) = .int m ∧ IsMaxOf m l := by
  have he : g.map (fun r => evalE o env r (.raw n)) = g.map (fun r => r.get n) := by
    apply List.map_congr_left; intro r _; simp [evalE]
  rcases maxInts_spec (g.map (fun r => r.get n)) with ⟨h1, _⟩ | ⟨m, h1, h2, h3⟩
  · obtain ⟨i, hi⟩ := List.exists_mem_of_ne_nil l hl
    exact absurd ((hg i).mpr hi) (h1 i)
  · refine ⟨m, ?_, (hg m).mp h2, fun x hx => h3 x ((hg x).mpr hx)⟩
    simp [evalGrp, he, h1]

/-! ### stable sort with a comparison that is a total preorder on the elements at hand -/
theorem insertBy_sorted_on {α} (le : α → α → Bool) (P : α → Prop)
    (htot : ∀ a b, P a → P b → le a b = true ∨ le b a = true)
    (htr : ∀ a b c, P a → P b → P c → le a b = true → le b c = true → le a c = true)
    (x : α) (hx : P x) (l : List α) (hl : ∀ a ∈ l, P a)
    (hs : l.Pairwise (fun a b => le a b = true)) : (insertBy le x l).Pairwise (fun a b => le a b = true) := by
  induction l with
  | nil => simp [insertBy]
  | cons y ys ih =>
    simp only [insertBy]
    rw [List.pairwise_cons] at hs
    have hy : P y := hl y (by simp)
    have hys : ∀ a ∈ ys, P a := fun a ha => hl a (List.mem_cons_of_mem _ ha)
    split
    · rename_i hyx
      rw [List.pairwise_cons]
      refine ⟨?_, ih hys hs.2⟩
      intro z hz
      rcases List.mem_cons.mp ((ListAux.insertBy_perm le x ys).mem_iff.mp hz) with hz' | hz'
      · rw [hz']; exact hyx
      · exact hs.1 z hz'
    · rename_i hyx
      have hxy : le x y = true := by
        rcases htot x y hx hy with h1 | h1
        · exact h1
        · exact absurd h1 hyx
      rw [List.pairwise_cons]
      refine ⟨?_, List.pairwise_cons.mpr hs⟩
      intro z hz
      rcases List.mem_cons.mp hz with hz | hz
      · rw [hz]; exact hxy
      · exact htr x y z hx hy (hys z hz) hxy (hs.1 z hz)

theorem sortBy_sorted_on {α} (le : α → α → Bool) (P : α → Prop)
    (htot : ∀ a b, P a → P b → le a b = true ∨ le b a = true)
    (htr : ∀ a b c, P a → P b → P c → le a b = true → le b c = true → le a c = true)
    (l : List α) (hl : ∀ a ∈ l, P a) : (sortBy le l).Pairwise (fun a b => le a b = true) := by
  induction l with
  | nil => simp [sortBy]
  | cons x xs ih =>
    have : sortBy le (x :: xs) = insertBy le x (sortBy le xs) := by simp [sortBy]
    rw [this]
    exact insertBy_sorted_on le P htot htr x (hl x (by simp)) _
      (fun a ha => hl a (List.mem_cons_of_mem _ ((ListAux.mem_sortBy le xs a).mp ha)))
      (ih (fun a ha => hl a (List.mem_cons_of_mem _ ha)))

/-! ### a select grouped by one key -/
/-- every row of a select grouped by one key comes from the group of a key value whose group passes HAVING -/
theorem row_group (o : Oracles) (ao : AggOracles) (db : Db) (own : Bool) (env0 : Env) (ws : List (Alias × Sel)) (d : Bool)
    (cols : List Expr) (f e : Expr) (hav : Option Expr) (ob : List Expr) (r : Row)
    (hr : r ∈ evalSelG o ao db own env0 (.mk ws d cols (some f) [] none none [e] hav ob none)) :
    ∃ v, v ∈ (sourceRowsG o ao db (if own then evalWithsG o ao db env0 ws else env0) f).map
          (fun r => evalE o (if own then evalWithsG o ao db env0 ws else env0) r e) ∧
      havingG o ao (if own then evalWithsG o ao db env0 ws else env0)
        (rowsWith o (if own then evalWithsG o ao db env0 ws else env0)
          (sourceRowsG o ao db (if own then evalWithsG o ao db env0 ws else env0) f) e v) hav = true ∧
      r = projG o (if own then evalWithsG o ao db env0 ws else env0) cols
        (rowsWith o (if own then evalWithsG o ao db env0 ws else env0)
          (sourceRowsG o ao db (if own then evalWithsG o ao db env0 ws else env0) f) e v) := by
  rw [evalSelG_grouped] at hr
  obtain ⟨g, hg, rfl⟩ := List.mem_map.mp hr
  have := (groupsG_single o ao db _ f e hav cols ob).mem_iff.mp hg
  obtain ⟨v, hv, rfl⟩ := List.mem_map.mp this
  obtain ⟨hv1, hv2⟩ := List.mem_filter.mp hv
  exact ⟨v, (mem_dedup _ _).mp hv1, hv2, rfl⟩

/-- the key of `ORDER BY fn(args) DESC` does not depend on the SELECT list -/
theorem grpLe_call (o : Oracles) (env : Env) (cols : List Expr) (fn : String) (args : List Expr) (a b : List Row) :
    grpLe o env cols [.orderBy (.call fn args) .desc] a b =
      (if evalGrp o env a (.call fn args) == evalGrp o env b (.call fn args) then true
       else Val.cmpLe (evalGrp o env b (.call fn args)) (evalGrp o env a (.call fn args))) := by
  simp [grpLe, orderValG, valLe]

/-- **ORDER BY fn(args) DESC** of a grouped select: the groups (hence the rows, whatever columns are selected) come
    newest key first, provided the key of every kept group is an integer -/
theorem grouped_sorted (o : Oracles) (ao : AggOracles) (db : Db) (env : Env) (f : Expr) (wher : Option Expr) (gb : List Expr)
    (hav : Option Expr) (cols : List Expr) (fn : String) (args : List Expr)
    (hint : ∀ g ∈ groupsG o ao db env f wher gb hav cols [] none, ∃ i, evalGrp o env g (.call fn args) = .int i) :
    (groupsG o ao db env f wher gb hav cols [.orderBy (.call fn args) .desc] none).Pairwise
      (fun a b => ∀ i j, evalGrp o env a (.call fn args) = .int i → evalGrp o env b (.call fn args) = .int j → j ≤ i) := by
  unfold groupsG at hint ⊢
  simp only [limitG, List.isEmpty_nil, List.isEmpty_cons, if_true, Bool.false_eq_true, if_false] at hint ⊢
  generalize hK : List.filter (fun g => havingG o ao env g hav) _ = K at hint ⊢
  have hs := sortBy_sorted_on (grpLe o env cols [.orderBy (.call fn args) .desc])
    (fun g => ∃ i, evalGrp o env g (.call fn args) = .int i)
    (by
      intro a b ⟨i, hi⟩ ⟨j, hj⟩
      simp only [grpLe_call, hi, hj, Val.cmpLe]
      by_cases hij : i = j
      · left; simp [hij]
      · rcases Int.le_total i j with h | h
        · right; have : (Val.int j == Val.int i) = false := by simp; exact fun h' => hij h'.symm
          simp [this, h]
        · left; have : (Val.int i == Val.int j) = false := by simp; exact hij
          simp [this, h])
    (by
      intro a b c ⟨i, hi⟩ ⟨j, hj⟩ ⟨k, hk⟩
      simp only [grpLe_call, hi, hj, hk, Val.cmpLe]
      intro h1 h2
      have e1 : j ≤ i := by
        by_cases hij : i = j
        · omega
        · have : (Val.int i == Val.int j) = false := by simp; exact hij
          simpa [this] using h1
      have e2 : k ≤ j := by
        by_cases hjk : j = k
        · omega
        · have : (Val.int j == Val.int k) = false := by simp; exact hjk
          simpa [this] using h2
      by_cases hik : i = k
      · simp [hik]
      · have : (Val.int i == Val.int k) = false := by simp; exact hik
        simp only [this, Bool.false_eq_true, if_false, decide_eq_true_eq]
        omega)
    K hint
  refine hs.imp ?_
  intro a b hab i j hi hj
  simp only [grpLe_call, hi, hj, Val.cmpLe] at hab
  by_cases hij : i = j
  · omega
  · have : (Val.int i == Val.int j) = false := by simp; exact hij
    simpa [this] using hab

/-- … and the groups do not depend on the SELECT list -/
theorem groupsG_cols (o : Oracles) (ao : AggOracles) (db : Db) (env : Env) (f : Expr) (wher : Option Expr) (gb : List Expr)
    (hav : Option Expr) (cols cols' : List Expr) (fn : String) (args : List Expr) (limit : Option Expr) :
    groupsG o ao db env f wher gb hav cols [.orderBy (.call fn args) .desc] limit =
      groupsG o ao db env f wher gb hav cols' [.orderBy (.call fn args) .desc] limit := by
  unfold groupsG
  have : grpLe o env cols [.orderBy (.call fn args) .desc] = grpLe o env cols' [.orderBy (.call fn args) .desc] := by
    funext a b; rw [grpLe_call, grpLe_call]
  simp only [this]

end Qryn.TraceQL
